import KmipModel.IoStack
import Driver.Parse
/-
  Line protocol for the reader-stack model (KmipModel/IoStack.lean):

    iostk FIN EAGER CHUNKS OPS

  CHUNKS = C1;C2;… (hex, "-" = an empty read, "." = no chunks at all); OPS = comma separated, applied to a list of
  readers whose top is the last one pushed (the bottom is the chunked source):
    b<size>   push bufio.NewReaderSize(top, size)          l<n>  push io.LimitReader(top, n)
    pop       drop the top TWO layers (a nested decoder is done with)
    rf<k>     io.ReadFull(top, k bytes)                     rd<k> one top.Read(k bytes)
    rb        top.ReadByte() (top must be a bufio.Reader)   sk<n> io.CopyN(ioutil.Discard, top, n)
    drain     io.ReadAll(top)
  Reply: one token per op, space separated; the run stops at the first failing rf / rb / sk.
-/
namespace Kmip.IoStackIO
open Kmip Kmip.Io

def hx (b : Bytes) : String := if b.isEmpty then "-" else toHex b
def errS : ErrClass → String
  | .eof => "eof"
  | .other => "other"

/-- `io.ReadAll`: read until an error; EOF is success -/
def drainLoop : Nat → Stack → Bytes → Bytes × ErrClass × Stack
  | 0, s, acc => (acc, .other, s)
  | fuel + 1, s, acc =>
    match (s.read 512).2.1 with
    | none => drainLoop fuel (s.read 512).2.2 (acc ++ (s.read 512).1)
    | some e => (acc ++ (s.read 512).1, e, (s.read 512).2.2)

def pop : Stack → Option Stack
  | .buf (.lim s _) _ _ _ => some s
  | .lim (.buf s _ _ _) _ => some s
  | _ => none

partial def run (s : Stack) (ops : List String) (out : List String) : List String :=
  match ops with
  | [] => out.reverse
  | op :: rest =>
    let num := fun (p : String) => (op.drop p.length).toString.toNat?
    if op == "pop" then
      match pop s with
      | some s' => run s' rest ("pop" :: out)
      | none => ("bad-pop" :: out).reverse
    else if op == "rb" then
      match s.readByte with
      | .ok (c, s') => run s' rest (s!"rb:{toHex [c]}" :: out)
      | .err e => (s!"rb:err-{errS e}" :: out).reverse
      | .panic _ => ("panic" :: out).reverse
    else if op == "drain" then
      let (b, e, s') := drainLoop (s.fuel + 2) s []
      run s' rest (s!"drain:{hx b}:{errS e}" :: out)
    else if op.startsWith "rf" then
      match num "rf" with
      | some k =>
        match s.readFull k with
        | .ok (b, s') => run s' rest (s!"rf:{hx b}" :: out)
        | .err e => (s!"rf:err-{errS e}" :: out).reverse
        | .panic _ => ("panic" :: out).reverse
      | none => ("bad-op" :: out).reverse
    else if op.startsWith "rd" then
      match num "rd" with
      | some k =>
        let r := s.read k
        run r.2.2 rest (s!"rd:{hx r.1}:{match r.2.1 with | none => "nil" | some e => errS e}" :: out)
      | none => ("bad-op" :: out).reverse
    else if op.startsWith "sk" then
      match num "sk" with
      | some n =>
        match s.copyNDiscard n with
        | .ok s' => run s' rest ("sk:ok" :: out)
        | .err e => (s!"sk:err-{errS e}" :: out).reverse
        | .panic _ => ("panic" :: out).reverse
      | none => ("bad-op" :: out).reverse
    else if op.startsWith "b" then
      match num "b" with
      | some sz => run (.buf s sz [] none) rest ("b" :: out)
      | none => ("bad-op" :: out).reverse
    else if op.startsWith "l" then
      match num "l" with
      | some n => run (.lim s n) rest ("l" :: out)
      | none => ("bad-op" :: out).reverse
    else ("bad-op" :: out).reverse

def cmd (fin eager chunks ops : String) : String :=
  let f := if fin = "eof" then some Fin.eof else if fin = "ioerr" then some Fin.ioerr else none
  let cs := if chunks = "." then some [] else (chunks.splitOn ";").mapM (fun c => if c = "-" then some [] else fromHex c)
  match f, cs with
  | some f, some cs => "ok " ++ " ".intercalate (run (.src ⟨cs, f, eager = "1"⟩) (ops.splitOn ",") [])
  | _, _ => "bad-op"

end Kmip.IoStackIO
