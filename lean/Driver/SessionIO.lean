import KmipModel.Session
/-
  Line protocol for session scripts and traces (see harness/cmd/kvrun/session.go for the Go side).

  session rt=0 wt=1 tls=0 hs=1 sa=none|fail|ok:7 ra=1 sid=3 reg=18,20,12 | R v=1.4 corr=HEX bc=2 async=0 cred=1 auth=ok:5 clock=0 w=1 items=op:uidhex:payload:BEH,... | E | X
  BEH: s<payload>:<0|1>  n  e<m>  r<m>:<reason>  p<m>
-/
namespace Driver
open Kmip Kmip.Session

def kv (toks : List String) (key : String) : Option String :=
  toks.findSome? fun t =>
    match t.splitOn "=" with
    | k :: v :: rest => if k == key then some ("=".intercalate (v :: rest)) else none
    | _ => none

def parseAuth (s : String) : Option AuthR :=
  if s == "fail" then some .fail
  else match s.splitOn ":" with
    | ["ok", v] => v.toNat?.map .ok
    | _ => none

def parseBeh (s : String) : Option Behaviour :=
  match s.toList with
  | 'n' :: [] => some .nilResult
  | 's' :: rest =>
    match (String.ofList rest).splitOn "/" with
    | [p, e] => do let p ← p.toNat?; pure (.success p (e == "1"))
    | _ => none
  | 'e' :: rest => (String.ofList rest).toNat?.map .error
  | 'r' :: rest =>
    match (String.ofList rest).splitOn "/" with
    | [m, r] => do let m ← m.toNat?; let r ← r.toNat?; pure (.errorReason m r)
    | _ => none
  | 'p' :: rest => (String.ofList rest).toNat?.map .panic
  | 'v' :: rest =>
    match (String.ofList rest).splitOn "/" with
    | [m, r, e] => do
      let m ← m.toNat?
      let r ← if r == "-" then pure none else r.toNat?.map some
      pure (.errorWith m r (e == "1"))
    | _ => none
  | _ => none

def parseItem (s : String) : Option ReqItem :=
  match s.splitOn ":" with
  | [op, uid, payload, beh] => do
    let op ← op.toNat?
    let uid ← fromHex uid
    let payload ← payload.toNat?
    let beh ← parseBeh beh
    pure { op, uid, payload, beh }
  | _ => none

def parseItems (s : String) : Option (List ReqItem) :=
  if s == "" || s == "-" then some [] else (s.splitOn ",").mapM parseItem

def parseArrival (toks : List String) : Option Arrival :=
  match toks with
  | ["E"] => some .decodeErr
  | ["X"] => some .eof
  | "R" :: rest => do
    let v ← kv rest "v"
    let (maj, min) ← match v.splitOn "." with
      | [a, b] => do pure ((← a.toNat?), (← b.toNat?))
      | _ => none
    let corr ← (kv rest "corr") >>= fromHex
    let bc ← (kv rest "bc") >>= String.toNat?
    let async ← kv rest "async"
    let cred ← (kv rest "cred") >>= String.toNat?
    let auth ← (kv rest "auth") >>= parseAuth
    let clock ← (kv rest "clock") >>= String.toNat?
    let w ← kv rest "w"
    let items ← (kv rest "items") >>= parseItems
    pure (.request { version := (maj, min), corr, batchCount := bc, async := async == "1", credType := cred,
                     authRes := auth, clock, writeOk := w == "1", items })
  | _ => none

def parseCfg (toks : List String) : Option Cfg := do
  let rt ← kv toks "rt"
  let wt ← kv toks "wt"
  let tls ← kv toks "tls"
  let hs ← kv toks "hs"
  let sa ← kv toks "sa"
  let sa' ← if sa == "none" then some none else (parseAuth sa).map some
  let ra ← kv toks "ra"
  let sid ← (kv toks "sid") >>= String.toNat?
  let reg ← kv toks "reg"
  let regs ← if reg == "-" then some [] else (reg.splitOn ",").mapM String.toNat?
  pure { readTimeout := rt == "1", writeTimeout := wt == "1", tls := tls == "1", handshakeOk := hs == "1",
         sessionAuth := sa', hasRequestAuth := ra == "1", registered := regs, sessionId := sid }

def splitBar (toks : List String) : List (List String) :=
  let rec go (cur : List String) (acc : List (List String)) : List String → List (List String)
    | [] => (cur.reverse :: acc).reverse
    | "|" :: rest => go [] (cur.reverse :: acc) rest
    | t :: rest => go (t :: cur) acc rest
  go [] [] toks

def showOpt : Option Nat → String
  | none => "-"
  | some v => toString v

def showMsg : Option Nat → String
  | none => "-"
  | some m =>
    if m == msgNotSupported then "notsupported"
    else if m ≥ 2000000 then s!"panic:m{m - 2000000}"
    else s!"m{m}"

def showItemRes (i : ItemRes) : String :=
  s!"{i.op},{if i.uid.isEmpty then "-" else toHex i.uid},{i.status},{i.reason},{showMsg i.msg},{showOpt i.payload}"

def showEv : Ev → String
  | .armRead => "armRead"
  | .armWrite => "armWrite"
  | .handshake ok => "handshake:" ++ (if ok then "ok" else "fail")
  | .sessionAuth ok => "sessionAuth:" ++ (if ok then "ok" else "fail")
  | .decode _ => "decode"
  | .requestAuth k ok => s!"requestAuth:{k}:" ++ (if ok then "ok" else "fail")
  | .call k i op p sid sa ra => s!"call:{k}:{i}:{op}:{p}:sid={sid}:sa={showOpt sa}:ra={showOpt ra}"
  | .respond k r =>
    s!"respond:{k}:v={r.version.1}.{r.version.2}:corr={if r.corr.isEmpty then "-" else toHex r.corr}:bc={r.batchCount}:items=" ++
      "/".intercalate (r.items.map showItemRes)
  | .close => "close"

def runSession (toks : List String) : String :=
  match splitBar toks with
  | cfgToks :: arrToks =>
    match parseCfg cfgToks, arrToks.mapM parseArrival with
    | some cfg, some arrs => ";".intercalate ((session cfg arrs).map showEv)
    | _, _ => "bad-op"
  | [] => "bad-op"

end Driver
