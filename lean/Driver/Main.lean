import Driver.Parse
import KmipModel.Decode
import KmipModel.Spec
import KmipModel.Expect
import KmipGen.Consts
import KmipGen.Schema
import Driver.SessionIO
import KmipModel.Discover
import KmipModel.Accept
import KmipModel.Shutdown
import KmipModel.Client
import KmipModel.ClientIO
import KmipModel.Stream
import Driver.IoStackIO
import KmipModel.DecodeStack
import KmipModel.DecodeCost
import KmipModel.Wire
import KmipModel.WireDV
import KmipModel.Io
/-
  kvdriver: one request per input line, one reply per output line.  Runs the executable model and the
  executable specifications on the inputs the Go harness also gives to the real code.
-/
open Kmip Driver

def showOutcomeBytes : Outcome Bytes → String
  | .ok b => "ok " ++ (if b.isEmpty then "-" else toHex b)
  | .err .eof => "eof"
  | .err .other => "err"
  | .panic s => "panic " ++ s

open Kmip.Expect in
/-- C18: registry entries whose Go constant is missing or has another number; tagMap entries resolving elsewhere; collisions -/
def c18Report : String :=
  let groups : List (String × String × List (String × Nat) × List (String × Nat)) := [
    ("tag", "", strip Registry.tags, KmipGen.tagConsts),
    ("type", "", Registry.itemTypes, KmipGen.typeConsts),
    ("operation", "OPERATION_", strip Registry.operations, KmipGen.enumConsts),
    ("result-status", "RESULT_STATUS_", Registry.resultStatus, KmipGen.enumConsts),
    ("result-reason", "RESULT_REASON_", strip Registry.resultReason, KmipGen.enumConsts),
    ("credential-type", "CREDENTIAL_TYPE_", strip Registry.credentialType, KmipGen.enumConsts),
    ("object-type", "OBJECT_TYPE_", Registry.objectType, KmipGen.enumConsts),
    ("state", "STATE_", Registry.state, KmipGen.enumConsts),
    ("key-format", "KEY_FORMAT_", Registry.keyFormatType, KmipGen.enumConsts),
    ("key-wrap", "KEY_WRAP_", Registry.keyWrapType, KmipGen.enumConsts),
    ("wrapping-method", "WRAPPING_METHOD_", Registry.wrappingMethod, KmipGen.enumConsts),
    ("key-compression", "KEY_COMPRESSION_", Registry.keyCompressionType, KmipGen.enumConsts),
    ("name-type", "NAME_TYPE_", Registry.nameType, KmipGen.enumConsts),
    ("crypto-algorithm", "CRYPTO_", Registry.cryptographicAlgorithm, KmipGen.enumConsts),
    ("padding-method", "PADDING_METHOD_", Registry.paddingMethod, KmipGen.enumConsts),
    ("hash", "HASH_", Registry.hashingAlgorithm, KmipGen.enumConsts),
    ("revocation-reason", "REVOCATION_REASON_", Registry.revocationReasonCode, KmipGen.enumConsts),
    ("block-mode", "BLOCK_MODE_", Registry.blockCipherMode, KmipGen.enumConsts)]
  let bad := groups.flatMap fun (g, pre, reg, tbl) =>
    (groupBad pre reg tbl).map fun (n, x) => s!"const|{g}|{goName pre n}|{x}|{(lookup tbl (goName pre n)).getD 0}"
  let tm := (KmipGen.tagMapStruct ++ KmipGen.tagMapField).filterMap fun (k, n) =>
    if k == "-" then (if n == 0xffffff then none else some s!"tagmap|-|-|{0xffffff}|{n}")
    else if lookup KmipGen.tagConsts k == some n then none else some s!"tagmap|annotation|{k}|{(lookup KmipGen.tagConsts k).getD 0}|{n}"
  let missing := KmipGen.tagConsts.filterMap fun (k, n) =>
    if lookup KmipGen.tagMapStruct k == some n && lookup KmipGen.tagMapField k == some n then none else some s!"tagmap|unresolvable|{k}|{n}|0"
  let coll := KmipGen.tagConsts.flatMap fun (a, x) =>
    (KmipGen.tagConsts.filter fun (b, y) => x == y && a < b &&
      !((["BATCH_ITEM", "REQUEST_BATCH_ITEM", "RESPONSE_BATCH_ITEM"].contains a && ["BATCH_ITEM", "REQUEST_BATCH_ITEM", "RESPONSE_BATCH_ITEM"].contains b))).map
      fun (b, _) => s!"collision|tag|{a}={b}|{x}|{x}"
  let total := (groups.map fun (_, _, reg, _) => reg.length).sum + KmipGen.tagMapStruct.length + KmipGen.tagMapField.length + KmipGen.tagConsts.length
  s!"ok {total} " ++ ";".intercalate (bad ++ tm ++ missing ++ coll)

open Kmip.Expect in
/-- C19: fields whose resolved tag differs from the spec's; nesting deviations -/
def c19Report : String :=
  let spec := SpecStructs.fields
  let fieldBad := (List.zip KmipGen.fieldTable spec).filterMap fun ((t, f, ann, num), (t', f', tag, _)) =>
    if t == t' && f == f' && num == (if offWire.contains (t, f) then 0xffffff else regTag tag) then none
    else some s!"field|{t}.{f}|{ann}|{tag}={regTag tag}|{num}"
  let lenBad := if KmipGen.fieldTable.length == spec.length then [] else [s!"field|count|-|{spec.length}|{KmipGen.fieldTable.length}"]
  let pairs := (spec.map fun (t, _, _, c) => (t, c)).eraseDups
  let nestBad := pairs.flatMap fun (t, c) =>
    (KmipGen.holders.filter fun (t', _, h) => t' == t && !containerOk (regTag c) h).map fun (_, via, h) =>
      s!"nesting|{t} (written via {via})|-|{c}={regTag c}|{h}"
  s!"ok {KmipGen.fieldTable.length + pairs.length} " ++ ";".intercalate (fieldBad ++ lenBad ++ nestBad)

def parseVersions (s : String) : Option (List (Nat × Nat)) :=
  if s == "-" then some [] else
  (s.splitOn ",").mapM fun v =>
    match v.splitOn "." with
    | [a, b] => do pure ((← a.toNat?), (← b.toNat?))
    | _ => none

def showVersions (l : List (Nat × Nat)) : String :=
  if l.isEmpty then "-" else ",".intercalate (l.map fun (a, b) => s!"{a}.{b}")

def parseOutcome (s : String) : Option Accept.Outcome :=
  match s.toList with
  | ['T'] => some .temporary
  | ['P'] => some .permanent
  | ['S'] => some .shutdown
  | 'K' :: rest => (String.ofList rest).toNat?.map .ok
  | 'L' :: rest => (String.ofList rest).toNat?.map .late
  | _ => none

def showAcceptEv : Accept.Ev → String
  | .sleep ms => s!"sleep:{ms}"
  | .start c n => s!"start:{c}:{n}"
  | .closeLate c => s!"closeLate:{c}"
  | .returnNil => "return:nil"
  | .returnErr => "return:err"

def parseAction : String → Option Shutdown.Action
  | "A" => some .arrive | "Q" => some .inflight | "R" => some .release | "C" => some .clientClose
  | "S" => some .shutdown | "L" => some .late | "X" => some .ctxExpire | "V" => some .startServe | "B" => some .arriveLate
  | _ => none

def showSd : Shutdown.SdPc → String
  | .idle => "idle" | .signalled => "signalled" | .listenerClosed => "listenerClosed" | .waiting => "waiting"
  | .returnedNil => "nil" | .returnedCtx => "ctx"

def showServe : Shutdown.ServePc → String
  | .notStarted => "notstarted" | .accepting => "serving" | .gotConn _ => "gotConn" | .returned e => if e then "err" else "nil"

def observeSd (σ : Shutdown.State) : String :=
  s!"sd={showSd σ.sd} serve={showServe σ.serve} started={σ.started} open={σ.running + σ.connClosed} late={σ.lateClosed}"

def runSchedule (acts : List Shutdown.Action) : Option (List Shutdown.State) :=
  acts.foldlM (fun (states : List Shutdown.State) a =>
    states.foldlM (fun acc σ =>
      match Shutdown.runLabels σ a.labels with
      | some σ' => some (acc ++ Shutdown.settle σ')
      | none => none) []) [if acts.contains .startServe then Shutdown.init else (Shutdown.applyLabel Shutdown.init .serveStart).getD Shutdown.init]

def showSend : Client.SendResult → String
  | .payload p => "payload " ++ showFV (.dyn p)
  | .failure r m => s!"failure {r} " ++ (if m.isEmpty then "-" else toHex m)
  | .error => "error"

def isDVResponse : DynV → Bool
  | .val false (.struct sd) _ => sd.name == "DiscoverVersionsResponse"
  | _ => false

def clientSend (op : Nat) (bs : Bytes) (dv : Bool) : String :=
  match findSD "Response" with
  | none => "bad-op"
  | some sd =>
    let reply : Option Client.RespView :=
      match decodeSD sd bs with
      | .ok (v, _, _) => Client.respView v
      | _ => none
    let r := Client.send true true op reply
    showSend (if dv then Client.discoverVersions isDVResponse r else r)

/-- split a token list at the `|` tokens -/
def splitBars : List String → List (List String)
  | [] => [[]]
  | "|" :: rest => [] :: splitBars rest
  | t :: rest =>
    match splitBars rest with
    | [] => [[t]]
    | g :: gs => (t :: g) :: gs

/-- one handler outcome of the `wireresp` command: `ok <FV tokens of a DynV>` | `fail REASON MSGHEX` -/
def parseHRes : List String → Option Wire.HRes
  | "ok" :: rest =>
    match parseFV rest with
    | some (.dyn d, []) => some (.success d)
    | _ => none
  | ["fail", r, m] => (fromHex m).map fun mb => .failed r.toNat! mb
  | _ => none

def wireZExt : Val := zeroSD KmipGen.sd_MessageExtension
def wireZNonce : Val := zeroSD KmipGen.sd_Nonce

/-- wireresp CLOCK AUTHOK REQHEX | RES | RES …: the bytes Server.handleBatch + Encode produce for the request bytes -/
def wireResp (clock : Nat) (authOk : Bool) (reqBytes : Bytes) (res : List Wire.HRes) : String :=
  match decodeSD KmipGen.sd_Request reqBytes with
  | .ok (rv, _, _) =>
    let H : Nat → Wire.ItemIn → Wire.HRes := fun i _ => (res[i]?).getD (.failed 0x100 [])
    match Wire.handleBatch wireZNonce wireZExt clock authOk H rv with
    | none => "none"
    | some resp => showOutcomeBytes (encodeSD KmipGen.sd_Response resp)
  | _ => "undecodable"

def step (line : String) : String :=
  match tokens line with
  -- wirereq MAJ MIN OP <FV tokens of the payload>: the bytes Client.Send writes
  | "wirereq" :: maj :: min :: op :: rest =>
    match parseFV rest with
    | some (.dyn d, []) => showOutcomeBytes (encodeSD KmipGen.sd_Request (Wire.mkRequest wireZExt (maj.toNat!, min.toNat!) op.toNat! d))
    | _ => "bad-op"
  -- wiredv CLOCK MAJ.MIN,MAJ.MIN,… REQHEX: the bytes the Server writes when its only handler is the built-in Discover Versions
  -- one and its SupportedVersions are the given list (`-` = empty)
  | ["wiredv", clock, sup, hex] =>
    let parseV (t : String) : Option (Nat × Nat) :=
      match t.splitOn "." with
      | [a, b] => match a.toNat?, b.toNat? with
        | some x, some y => some (x, y)
        | _, _ => none
      | _ => none
    match fromHex hex, (if sup == "-" then some [] else (sup.splitOn ",").mapM parseV) with
    | some bs, some sv =>
      match decodeSD KmipGen.sd_Request bs with
      | .ok (rv, _, _) =>
        match Wire.handleBatch wireZNonce wireZExt clock.toNat! true (dvHandler sv) rv with
        | none => "none"
        | some resp => showOutcomeBytes (encodeSD KmipGen.sd_Response resp)
      | _ => "undecodable"
    | _, _ => "bad-op"
  | "wireresp" :: clock :: authOk :: hex :: rest =>
    match fromHex hex, ((splitBars rest).filter (fun g => !g.isEmpty)).mapM parseHRes with
    | some bs, some res => wireResp clock.toNat! (authOk == "1") bs res
    | _, _ => "bad-op"
  -- enctop <FV tokens of a DynV>: Encoder.Encode(v)
  | "enctop" :: rest =>
    match parseFV rest with
    | some (.dyn d, []) => showOutcomeBytes (encodeTop d)
    | _ => "bad-op"
  -- canon TYPE <val>: the independent serializer applied to the canonical tree
  | "canon" :: ty :: rest =>
    match findSD ty, parseVal rest with
    | some sd, some (v, []) => "ok " ++ toHex (canonTop sd v).ser
    | _, _ => "bad-op"
  -- dec TYPE FIN HEX: Decoder.Decode(&T{}) on a fresh decoder over the bytes; FIN = eof | ioerr
  | ["dec", ty, fin, hex] =>
    match findSD ty, fromHex hex, (if fin = "eof" then some Fin.eof else if fin = "ioerr" then some Fin.ioerr else none) with
    | some sd, some bs, some f =>
      match decodeSD sd bs f with
      | .ok (v, n, _) => s!"ok {n} " ++ showVal v
      | .err .eof => "eof"
      | .err .other => "err"
      | .panic s => "panic " ++ s
    | _, _, _ => "bad-op"
  -- deccost TYPE FIN HEX: what the cost semantics (KmipModel/DecodeCost.lean) charges for NewDecoder(bytes).Decode(&T{})
  | ["deccost", ty, fin, hex] =>
    match findSD ty, fromHex hex, (if fin = "eof" then some Fin.eof else if fin = "ioerr" then some Fin.ioerr else none) with
    | some sd, some bs, some f => s!"cost {Cost.decodeCost sd bs f}"
    | _, _, _ => "bad-op"
  -- decstk TYPE FIN EAGER CHUNKS: NewDecoder(plain io.Reader delivering CHUNKS).Decode(&T{}) through the reader-stack model
  -- (KmipModel/DecodeStack.lean); reply: the value and how many bytes the Decoder's bufio has fetched from the source
  | ["decstk", ty, fin, eager, chunks] =>
    let cs := if chunks = "." then some [] else (chunks.splitOn ";").mapM (fun c => if c = "-" then some [] else fromHex c)
    match findSD ty, cs, (if fin = "eof" then some Fin.eof else if fin = "ioerr" then some Fin.ioerr else none) with
    | some sd, some cs, some f =>
      let src : Io.Src := ⟨cs, f, eager = "1"⟩
      match Stk.decodeSrc sd src with
      | .ok (v, _, x) =>
        let left := match x.s with
          | .buf (.src s') _ _ _ => s'.flat.length
          | _ => 0
        s!"ok {showVal v} pulled={src.flat.length - left}"
      | .err .eof => "eof"
      | .err .other => "err"
      | .panic s => "panic " ++ s
    | _, _, _ => "bad-op"
  -- decscan TYPE FIN EAGER CHUNKS: the same when the source is an io.ByteScanner (the Decoder reads it directly)
  | ["decscan", ty, fin, eager, chunks] =>
    let cs := if chunks = "." then some [] else (chunks.splitOn ";").mapM (fun c => if c = "-" then some [] else fromHex c)
    match findSD ty, cs, (if fin = "eof" then some Fin.eof else if fin = "ioerr" then some Fin.ioerr else none) with
    | some sd, some cs, some f =>
      let src : Io.Src := ⟨cs, f, eager = "1"⟩
      match Stk.decodeScanner sd src with
      | .ok (v, _, x) =>
        let left := match x.s with
          | .src s' => s'.flat.length
          | _ => 0
        s!"ok {showVal v} pulled={src.flat.length - left}"
      | .err .eof => "eof"
      | .err .other => "err"
      | .panic s => "panic " ++ s
    | _, _, _ => "bad-op"
  -- dect TARGET FIN HEX: Decode into an arbitrary target kind (nil | nonptr | nilptr | ptrnonstruct | <struct type>)
  | ["dect", tgt, fin, hex] =>
    let t : Option Target := match tgt with
      | "nil" => some .nil | "nonptr" => some .nonPointer | "nilptr" => some .nilPointer | "ptrnonstruct" => some .ptrNonStruct
      | n => (findSD n).map .ptrStruct
    match t, fromHex hex, (if fin = "eof" then some Fin.eof else if fin = "ioerr" then some Fin.ioerr else none) with
    | some t, some bs, some f =>
      match decodeTop t bs f with
      | .ok (v, n, _) => s!"ok {n} " ++ showVal v
      | .err .eof => "eof"
      | .err .other => "err"
      | .panic s => "panic " ++ s
    | _, _, _ => "bad-op"
  -- spec TYPE HEX: the independent reader/schema matcher
  | ["spec", ty, hex] =>
    match findSD ty, fromHex hex with
    | some sd, some bs =>
      match specDecode sd bs with
      | some (v, n) => s!"ok {n} " ++ showVal v
      | none => "none"
    | _, _ => "bad-op"
  | "session" :: rest => runSession rest
  -- discover SUP OFFER: the built-in handler's reply for a configured list and an offer (SUP "-" = not configured)
  | ["discover", sup, offer] =>
    match parseVersions sup, parseVersions offer with
    | some s, some o =>
      let h : Discover.Heap := { next := 10 }
      let (cfg, h') := Discover.configure h { arr := 1, elems := Discover.defaultVersions } { arr := (if s.isEmpty then 0 else 2), elems := s }
      let (rep, _) := Discover.discover h' cfg o
      "ok " ++ showVersions rep.elems ++ (if rep.arr == cfg.arr && rep.arr != 0 then " ALIAS" else "")
    | _, _ => "bad-op"
  -- accept O1 O2 …: Serve's reactions to a sequence of Accept outcomes
  | "accept" :: rest =>
    match rest.mapM parseOutcome with
    | some os => "ok " ++ ";".intercalate ((Accept.serveAccepts os).map showAcceptEv)
    | none => "bad-op"
  -- shutdown A Q S C …: replay a schedule of harness-level actions on the Serve ∥ Shutdown ∥ sessions LTS
  | "shutdown" :: rest =>
    match rest.mapM parseAction with
    | some acts =>
      match runSchedule acts with
      | some states => "ok " ++ "|".intercalate ((states.map observeSd).eraseDups)
      | none => "invalid"
    | none => "bad-op"
  -- clientio RT WT OP…: the calls a Client makes on its connection (c1 / c0 = Connect reaching / not reaching the server, x = Close,
  -- s<enc><wr> = Send of an encodable (1) / unencodable (0) request whose write succeeds (1) / fails (0)); `j` first = the Client is
  -- already connected
  | "clientio" :: rt :: wt :: rest =>
    let cfg : ClientIO.Cfg := { readTimeout := rt == "1", writeTimeout := wt == "1" }
    let (st, ops) := match rest with
      | "j" :: r => (({ conn := true, codec := true } : Client.CState), r)
      | r => (Client.CState.fresh, r)
    let parseOp (t : String) : Option ClientIO.Op :=
      match t with
      | "c1" => some (.connect true) | "c0" => some (.connect false) | "x" => some .close
      | "s11" => some (.send ⟨true, true⟩) | "s10" => some (.send ⟨true, false⟩)
      | "s01" => some (.send ⟨false, true⟩) | "s00" => some (.send ⟨false, false⟩)
      | _ => none
    let showEv (e : ClientIO.Ev) : String :=
      match e with
      | .dial ok => if ok then "dial:ok" else "dial:fail"
      | .armRead => "armRead" | .armWrite => "armWrite" | .handshake => "handshake"
      | .write => "write" | .read => "read" | .closeConn => "close"
    match ops.mapM parseOp with
    | some os => "ok " ++ ";".intercalate ((ClientIO.trace cfg st os).map showEv)
    | none => "bad-op"
  -- clientsend OP HEX / clientdv HEX: Client.Send / Client.DiscoverVersions given the bytes the peer replies with
  | ["clientsend", op, hex] =>
    match op.toNat?, fromHex hex with
    | some o, some bs => clientSend o bs false
    | _, _ => "bad-op"
  | ["clientdv", hex] =>
    match fromHex hex with
    | some bs => clientSend 0x1E bs true
    | none => "bad-op"
  -- stream T1,T2,… HEX: successive Decode calls on one decoder, one target type per call; then one more call of the last type
  | ["stream", tys, hex] =>
    match (tys.splitOn ",").mapM findSD, fromHex hex with
    | some sds, some bs =>
      let (vs, e, d) := decodeStream sds ⟨bs, .eof, 0⟩
      let shown := vs.map fun (v, n) => s!"{n} " ++ showVal v
      let fin := match e with | none => "more" | some .eof => "eof" | some .other => "err"
      s!"ok {d.win.length} {fin} " ++ " ; ".intercalate shown
    | _, _ => "bad-op"
  -- io rf|lim FIN EAGER N K C1;C2;…: Go's io.ReadFull (directly / through io.LimitReader(src, N)) asking for K bytes from a source
  -- that hands out the chunks C1, C2, … one per Read; reply: bytes read and the bytes a subsequent read-to-the-end returns
  | ["io", kind, fin, eager, n, k, chunks] =>
    let hx := fun (b : Bytes) => if b.isEmpty then "-" else toHex b
    match (if fin = "eof" then some Fin.eof else if fin = "ioerr" then some Fin.ioerr else none), n.toNat?, k.toNat?,
        (if chunks = "." then some [] else (chunks.splitOn ";").mapM fromHex) with
    | some f, some n, some k, some cs =>
      let src : Io.Src := ⟨cs, f, eager = "1"⟩
      let err := fun (e : ErrClass) => match e with | .eof => "err eof" | .other => "err other"
      if kind = "rf" then
        match src.readFull k with
        | .ok (b, s') => s!"ok {hx b} {hx s'.flat}"
        | .err e => err e
        | .panic _ => "panic"
      else
        match (Io.Lim.mk src n).readFull k with
        | .ok (b, l') => s!"ok {hx b} {hx (l'.src.flat.take l'.n)}"
        | .err e => err e
        | .panic _ => "panic"
    | _, _, _, _ => "bad-op"
  -- iostk FIN EAGER CHUNKS OPS: the reader-stack model (see Driver/IoStackIO.lean)
  | ["iostk", fin, eager, chunks, ops] => IoStackIO.cmd fin eager chunks ops
  -- clientstate OP,OP,…: a fresh Client taken through connect-ok (c1) / connect-failed (c0) / close (x) / send (s)
  | ["clientstate", ops] =>
    let parse := fun (t : String) => if t = "c1" then some (Client.COp.connect true) else if t = "c0" then some (Client.COp.connect false)
      else if t = "x" then some Client.COp.close else if t = "s" then some Client.COp.send else none
    match (ops.splitOn ",").mapM parse with
    | some os =>
      let outs := (Client.crun Client.CState.fresh os).2
      "ok " ++ ",".intercalate (outs.map fun o => match o with | .ok => "ok" | .err => "err" | .panic => "panic")
    | none => "bad-op"
  | ["c18"] => c18Report
  | ["c19"] => c19Report
  | _ => "bad-op"

partial def loop (h : IO.FS.Stream) (out : IO.FS.Stream) : IO Unit := do
  let line ← h.getLine
  if line.isEmpty then return ()
  out.putStrLn (step (line.trimAscii.toString))
  out.flush
  loop h out

def main : IO Unit := do
  loop (← IO.getStdin) (← IO.getStdout)
