import Driver.Parse
import KmipModel.Decode
import KmipModel.Spec
/-
  kvdriver: one request per input line, one reply per output line.  Runs the executable model and the
  executable specifications on the inputs the Go harness also gives to the real code.
-/
open Kmip Driver

def showOutcomeBytes : Outcome Bytes → String
  | .ok b => "ok " ++ (if b.isEmpty then "-" else toHex b)
  | .err .eof => "eof"
  | .err .other => "err"
  | .panic s => "panic " ++ s

def step (line : String) : String :=
  match tokens line with
  -- enctop <FV tokens of a DynV>: Encoder.Encode(v)
  | "enctop" :: rest =>
    match parseFV rest with
    | some (.dyn d, []) => showOutcomeBytes (encodeTop d)
    | _ => "bad-op"
  -- canon TYPE <val>: the independent serializer applied to the canonical tree
  | "canon" :: ty :: rest =>
    match findSD ty, parseVal rest with
    | some sd, some (v, []) => "ok " ++ toHex (canonTop sd v).ser
    | _, _ => "bad-op"
  -- dec TYPE FIN HEX: Decoder.Decode(&T{}) on a fresh decoder over the bytes; FIN = eof | ioerr
  | ["dec", ty, fin, hex] =>
    match findSD ty, fromHex hex, (if fin = "eof" then some Fin.eof else if fin = "ioerr" then some Fin.ioerr else none) with
    | some sd, some bs, some f =>
      match decodeSD sd bs f with
      | .ok (v, n, _) => s!"ok {n} " ++ showVal v
      | .err .eof => "eof"
      | .err .other => "err"
      | .panic s => "panic " ++ s
    | _, _, _ => "bad-op"
  -- spec TYPE HEX: the independent reader/schema matcher
  | ["spec", ty, hex] =>
    match findSD ty, fromHex hex with
    | some sd, some bs =>
      match specDecode sd bs with
      | some (v, n) => s!"ok {n} " ++ showVal v
      | none => "none"
    | _, _ => "bad-op"
  | _ => "bad-op"

partial def loop (h : IO.FS.Stream) (out : IO.FS.Stream) : IO Unit := do
  let line ← h.getLine
  if line.isEmpty then return ()
  out.putStrLn (step (line.trimAscii.toString))
  out.flush
  loop h out

def main : IO Unit := do
  loop (← IO.getStdin) (← IO.getStdout)
