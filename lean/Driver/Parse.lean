import KmipModel.Encode
import KmipGen.Schema
/-
  Line-protocol (de)serialisation of model values.  Not part of the model: tied by being the common
  language between the Go harness renderer and the Lean driver.

  Val : `i N` | `l N` | `e N` | `b0` | `b1` | `y HEX` | `s HEX` | `t N` | `d INT` | `(` FV* `)`
  FV  : `o` Val | `[` Val* `]` | `n` | `p` TY Val | `v` TY Val | `x` KIND | `k0` | `k1`
  TY  : int|long|enum|bool|bytes|text|time|interval | <struct type name>
-/
namespace Driver
open Kmip

def primOfName : String → Option PTy
  | "int" => some .int | "long" => some .long | "enum" => some .enum | "bool" => some .bool
  | "bytes" => some .bytes | "text" => some .text | "time" => some .time | "interval" => some .interval
  | _ => none

def PTy.name : PTy → String
  | .int => "int" | .long => "long" | .enum => "enum" | .bool => "bool"
  | .bytes => "bytes" | .text => "text" | .time => "time" | .interval => "interval"

/-- extra struct descriptors that exist only in the harness (C13's ill-annotated types); same definitions on the Go side -/
def testSchemas : List SD := [
  .mk "TBadTag" 0x420001 [.mk "A" 0 true false false .unsupported],
  .mk "TBadType" 0x420001 [.mk "A" 0x420002 true false false .unsupported],
  .mk "TPlain" 0x420001 [.mk "A" 0x420002 true false false (.prim .int), .mk "B" 0x420003 false false false (.prim .text)],
  .mk "TNestedBad" 0x420001 [.mk "A" 0x420002 true false false (.prim .int),
      .mk "N" 0x420004 true false false (.struct (.mk "TBadType" 0x420001 [.mk "A" 0x420002 true false false .unsupported]))],
  .mk "TOptNestedBad" 0x420001 [.mk "A" 0x420002 true false false (.prim .int),
      .mk "N" 0x420004 false false false (.struct (.mk "TBadType" 0x420001 [.mk "A" 0x420002 true false false .unsupported]))],
  .mk "TNoTag" 0 [.mk "A" 0x420002 false false false (.prim .int)],
  .mk "TDur" 0x420001 [.mk "D" 0x420002 true false false (.prim .interval), .mk "O" 0x420003 false false false (.prim .interval),
      .mk "L" 0x420004 false false false (.prim .long), .mk "T" 0x420005 false false false (.prim .time)],
  .mk "TDyn" 0x420001 [.mk "V" 0x420002 true false false (.dyn 0 [])],
  -- a DynamicDispatch target whose BuildFieldValue misbehaves for some selectors (1: nil; 2: struct by value; 3: *int32;
  -- 4: time.Duration; 5: *Name (fine); 6: int32 (fine); 7: pointer to a struct with bad annotations)
  .mk "TDisp" 0x420001 [.mk "Sel" 0x42005c true false false (.prim .enum),
      .mk "V" 0x420079 true false false (.dyn 0 [
        .mk (.enum 2) false (.struct KmipGen.sd_Name), .mk (.enum 3) true (.prim .int), .mk (.enum 4) false (.prim .interval),
        .mk (.enum 5) true (.struct KmipGen.sd_Name), .mk (.enum 6) false (.prim .int),
        .mk (.enum 7) true (.struct (.mk "TBadType" 0x420001 [.mk "A" 0x420002 true false false .unsupported]))])],
  .mk "TSlices" 0x420001 [.mk "A" 0x420002 true true false (.prim .int), .mk "B" 0x420003 false true false (.prim .bytes),
      .mk "C" 0x420004 false true false (.prim .text)]
]

def findSD (name : String) : Option SD :=
  (KmipGen.allSchemas ++ testSchemas).find? (fun sd => sd.name == name)

def tyOfName (s : String) : Option FTy :=
  match primOfName s with
  | some p => some (.prim p)
  | none => (findSD s).map .struct

def badOfName : String → Option BadKind
  | "typednil" => some .typedNilPtr | "ptrptr" => some .ptrPtr | "scalar" => some .foreignScalar
  | "map" => some .map | "slice" => some .slice | "func" => some .func
  | _ => none

mutual
  partial def parseVal : List String → Option (Val × List String)
    | "i" :: n :: r => n.toNat?.map fun k => (.int k, r)
    | "l" :: n :: r => n.toNat?.map fun k => (.long k, r)
    | "e" :: n :: r => n.toNat?.map fun k => (.enum k, r)
    | "b0" :: r => some (.bool false, r)
    | "b1" :: r => some (.bool true, r)
    | "y" :: h :: r => (fromHex h).map fun b => (.bytes b, r)
    | "s" :: h :: r => (fromHex h).map fun b => (.text b, r)
    | "t" :: n :: r => n.toNat?.map fun k => (.time k, r)
    | "d" :: n :: r => n.toInt?.map fun k => (.interval k, r)
    | "(" :: r => do
      let (fs, r') ← parseFVs r
      pure (.struct fs, r')
    | _ => none
  partial def parseFVs : List String → Option (List FV × List String)
    | ")" :: r => some ([], r)
    | toks => do
      let (f, r) ← parseFV toks
      let (fs, r') ← parseFVs r
      pure (f :: fs, r')
  partial def parseVals : List String → Option (List Val × List String)
    | "]" :: r => some ([], r)
    | toks => do
      let (v, r) ← parseVal toks
      let (vs, r') ← parseVals r
      pure (v :: vs, r')
  partial def parseFV : List String → Option (FV × List String)
    | "o" :: r => do
      let (v, r') ← parseVal r
      pure (.one v, r')
    | "[" :: r => do
      let (vs, r') ← parseVals r
      pure (.many vs, r')
    | "n" :: r => some (.dyn .nil, r)
    | "p" :: ty :: r => do
      let t ← tyOfName ty
      let (v, r') ← parseVal r
      pure (.dyn (.val true t v), r')
    | "v" :: ty :: r => do
      let t ← tyOfName ty
      let (v, r') ← parseVal r
      pure (.dyn (.val false t v), r')
    | "x" :: k :: r => (badOfName k).map fun b => (.dyn (.bad b), r)
    | "k0" :: r => some (.skip false, r)
    | "k1" :: r => some (.skip true, r)
    | _ => none
end

def tyName : FTy → String
  | .prim p => PTy.name p
  | .struct sd => sd.name
  | .dyn _ _ => "?dyn"
  | .unsupported => "?unsupported"

mutual
  partial def showVal : Val → String
    | .int n => s!"i {n}"
    | .long n => s!"l {n}"
    | .enum n => s!"e {n}"
    | .bool b => if b then "b1" else "b0"
    | .bytes b => "y " ++ (if b.isEmpty then "-" else toHex b)
    | .text b => "s " ++ (if b.isEmpty then "-" else toHex b)
    | .time n => s!"t {n}"
    | .interval n => s!"d {n}"
    | .struct fs => "( " ++ String.join (fs.map fun f => showFV f ++ " ") ++ ")"
  partial def showFV : FV → String
    | .one v => "o " ++ showVal v
    | .many vs => "[ " ++ String.join (vs.map fun v => showVal v ++ " ") ++ "]"
    | .dyn .nil => "n"
    | .dyn (.val p ty v) => (if p then "p " else "v ") ++ tyName ty ++ " " ++ showVal v
    | .dyn (.bad _) => "x ?"
    | .skip b => if b then "k1" else "k0"
end

def tokens (line : String) : List String :=
  (line.splitOn " ").filter (· ≠ "")

end Driver
