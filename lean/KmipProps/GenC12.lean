import KmipGen.SyncTable
import KmipGen.Skeleton
import KmipModel.ExpectSkel
/-
  C12, generated obligations: the access table regenerated from /repo (every read/write of a Server field and of every
  package-level variable, per function, with "is s.mu held" from a linear walk over Lock/Unlock/defer Unlock) satisfies the
  disciplines whose soundness C12.lean proves:
    * `l`, `doneChan`                 — accessed only with s.mu held;
    * configuration fields            — written only by the configuring goroutine before any session goroutine exists
                                        (Serve's set-up section, Handle, initHandlers), read-only afterwards;
    * `wg`, `mu`                      — synchronisation primitives (rule: C12_waitgroup_rule);
    * package-level variables         — never written;
    * a Server field not listed here  — fails the check (forces the table to be re-examined when a field is added).
  Client fields are single-goroutine by the package's documentation ("Client is not safe for concurrent use").
-/
namespace Kmip

inductive LocClass where
  | mu | config | syncPrim
  deriving DecidableEq

def serverFieldClass (n : String) : Option LocClass :=
  if n == "l" || n == "doneChan" then some .mu
  else if n == "wg" || n == "mu" then some .syncPrim
  else if n == "Addr" || n == "TLSConfig" || n == "Log" || n == "SupportedVersions" || n == "ReadTimeout" || n == "WriteTimeout" ||
          n == "SessionAuthHandler" || n == "RequestAuthHandler" || n == "handlers" then some .config
  else none

/-- functions that run in the configuring goroutine before any session goroutine is created -/
def setupFns : List String := ["Server.Serve", "Server.Handle", "Server.initHandlers", "Server.ListenAndServe"]

def rowOk : String × String × String × Bool × Bool → Bool
  | (fn, scope, name, write, held) =>
    if scope == "Server" then
      match serverFieldClass name with
      | some .mu => held
      | some .config => !write || setupFns.contains fn
      | some .syncPrim => true
      | none => false
    else if scope == "pkg" then !write
    else scope == "Client"

theorem GenC12_server_disciplined : KmipGen.accessTable.all rowOk = true := by decide

/-- the goroutines are created where the model says: `go s.serve` only in Serve after registration, the waiter in Shutdown -/
theorem GenC12_Serve_skeleton : KmipGen.skel_Server_Serve = ExpectSkel.skel_Server_Serve := by decide
theorem GenC12_Shutdown_skeleton : KmipGen.skel_Server_Shutdown = ExpectSkel.skel_Server_Shutdown := by decide
theorem GenC12_getDoneChan_skeleton : KmipGen.skel_Server_getDoneChan = ExpectSkel.skel_Server_getDoneChan := by decide
/-- a Client touches its own fields and what crypto/tls returns for it, nothing it was merely handed (the caller's tls.Config
    may be shared by any number of Clients) -/
theorem GenC12_Client_Connect_skeleton : KmipGen.skel_Client_Connect = ExpectSkel.skel_Client_Connect := by decide
theorem GenC12_Client_Send_skeleton : KmipGen.skel_Client_Send = ExpectSkel.skel_Client_Send := by decide
theorem GenC12_Client_Close_skeleton : KmipGen.skel_Client_Close = ExpectSkel.skel_Client_Close := by decide

end Kmip
