import KmipProps.C07
import KmipModel.ClientIO
/-
  C15 — I/O timeouts are re-armed for every message, and absent when configured as zero.
  On the session model: `armRead` / `armWrite` are the SetReadDeadline / SetWriteDeadline calls with a fresh
  `time.Now().Add(timeout)`.  That an armed deadline interrupts a blocked read is `net` behaviour (observed by the
  harness with a real 60 ms timeout, not proved).
-/
namespace Kmip.Session

theorem last_app (l m : List Ev) (x : Ev) (h : m.getLast? = some x) : (l ++ m).getLast? = some x := by
  rw [List.getLast?_append, h]; rfl

/-- with a non-zero ReadTimeout, every wait for a request is immediately preceded by a fresh read deadline -/
theorem C15_read_rearmed (cfg : Cfg) (hrt : cfg.readTimeout = true) (k : Nat) (arrs : List Arrival) (tr : List Ev)
    (h : Served cfg k arrs tr) :
    ∀ pre j post, tr = pre ++ Ev.decode j :: post → pre.getLast? = some Ev.armRead := by
  have harm : arm cfg = [Ev.armRead] := by simp [arm, hrt]
  -- a quiet prefix followed by a non-decode event cannot hold the decode we look for
  have skip : ∀ (l : List Ev), (∀ e ∈ l, ∀ j, e ≠ Ev.decode j) → ∀ pre j post m, l ++ m = pre ++ Ev.decode j :: post →
      ∃ pre2, m = pre2 ++ Ev.decode j :: post ∧ pre = l ++ pre2 := by
    intro l hl
    induction l with
    | nil => intro pre j post m h; exact ⟨pre, by simpa using h, by simp⟩
    | cons e l ihl =>
      intro pre j post m h
      cases pre with
      | nil => simp at h; exact absurd h.1 (hl e (by simp) j)
      | cons p pre =>
        simp at h
        obtain ⟨pre2, h1, h2⟩ := ihl (fun e he => hl e (by simp [he])) pre j post m h.2
        exact ⟨pre2, h1, by simp [h.1, h2]⟩
  induction h with
  | waiting k => intro pre j post h; simp at h
  | answered k r rest pre' tr hq _ ih =>
    intro pre j post h
    rw [harm] at h
    cases pre with
    | nil => simp at h
    | cons p pre =>
      simp at h
      obtain ⟨hp, h⟩ := h
      subst hp
      cases pre with
      | nil => simp
      | cons p2 pre =>
        simp at h
        obtain ⟨_, h⟩ := h
        have hl : ∀ e ∈ pre' ++ [Ev.respond k (respOf cfg r)], ∀ j, e ≠ Ev.decode j := by
          intro e he j
          simp only [List.mem_append, List.mem_singleton] at he
          rcases he with he | he
          · have := List.all_eq_true.mp hq e he
            intro hc; subst hc; simp [Ev.quiet] at this
          · subst he; simp
        obtain ⟨pre2, h1, h2⟩ := skip _ hl pre j post tr (by rw [← h]; simp)
        have := ih pre2 j post h1
        subst h2
        cases pre2 with
        | nil => simp at this
        | cons q qs =>
          have := last_app (Ev.armRead :: p2 :: (pre' ++ [Ev.respond k (respOf cfg r)])) (q :: qs) _ this
          simpa using this
  | dropped k a rest pre' hq =>
    intro pre j post h
    rw [harm] at h
    cases pre with
    | nil => simp at h
    | cons p pre =>
      simp at h
      obtain ⟨hp, h⟩ := h
      subst hp
      cases pre with
      | nil => simp
      | cons p2 pre =>
        simp at h
        obtain ⟨_, h⟩ := h
        have hl : ∀ e ∈ pre' ++ [Ev.close], ∀ j, e ≠ Ev.decode j := by
          intro e he j
          simp only [List.mem_append, List.mem_singleton] at he
          rcases he with he | he
          · have := List.all_eq_true.mp hq e he
            intro hc; subst hc; simp [Ev.quiet] at this
          · subst he; simp
        obtain ⟨pre2, h1, _⟩ := skip _ hl pre j post [] (by rw [← h]; simp)
        cases pre2 <;> simp at h1

/-- with zero ReadTimeout no read deadline is ever set; with zero WriteTimeout no write deadline -/
theorem C15_zero_never_read (cfg : Cfg) (h : cfg.readTimeout = false) (arrs : List Arrival) :
    Ev.armRead ∉ session cfg arrs := by
  have hloop : ∀ k arrs, Ev.armRead ∉ loop cfg k arrs := by
    intro k arrs
    induction arrs generalizing k with
    | nil => simp [loop]
    | cons a rest ih =>
      have hq : ∀ (l : List Ev), l.all Ev.quiet = true → Ev.armRead ∉ l := by
        intro l hl hm; have := List.all_eq_true.mp hl _ hm; simp [Ev.quiet] at this
      cases a with
      | eof => simp [loop, h]
      | decodeErr => simp [loop, h]
      | request r =>
        simp only [loop, h, List.nil_append, Bool.false_eq_true, if_false]
        rcases handleReq_shape cfg k r with ⟨pre, hpre, he⟩ | ⟨pre, hpre, he⟩
        · simp [he, hq pre hpre, ih (k + 1)]
        · simp [he, hq pre hpre]
  simp only [session, List.mem_append, not_or]
  refine ⟨?_, ?_⟩
  · unfold handshakeEvs; rw [h]; split
    · split <;> simp_all
    · simp
  · split
    · simp
    · split
      · simp
      · simp [hloop]
      · exact hloop 0 arrs

theorem C15_zero_never_write (cfg : Cfg) (h : cfg.writeTimeout = false) (arrs : List Arrival) :
    Ev.armWrite ∉ session cfg arrs := by
  have hcalls : ∀ k ra i items, Ev.armWrite ∉ calls cfg k ra i items := by
    intro k ra i items
    induction items generalizing i with
    | nil => simp [calls]
    | cons it rest ih => simp only [calls, List.mem_append, not_or]; exact ⟨by split <;> simp, ih (i + 1)⟩
  have hreq : ∀ k r, Ev.armWrite ∉ (handleReq cfg k r).1 := by
    intro k r
    unfold handleReq
    split
    · simp
    · have ha : Ev.armWrite ∉ (authStep cfg k r).1 := by
        unfold authStep; split
        · simp
        · split
          · split <;> simp
          · simp
      split
      · rename_i evs hh; simpa [hh] using ha
      · rename_i evs ra hh
        have ha' : Ev.armWrite ∉ evs := by simpa [hh] using ha
        split <;> simp [ha', hcalls, armW, h]
  have hloop : ∀ k arrs, Ev.armWrite ∉ loop cfg k arrs := by
    intro k arrs
    induction arrs generalizing k with
    | nil => simp [loop]
    | cons a rest ih =>
      cases a with
      | eof => simp [loop]
      | decodeErr => simp [loop]
      | request r =>
        simp only [loop, List.mem_append, not_or]
        refine ⟨⟨by split <;> simp, by simp⟩, ?_⟩
        split
        · simp [hreq k r, ih (k + 1)]
        · simp [hreq k r]
  simp only [session, List.mem_append, not_or]
  refine ⟨?_, ?_⟩
  · unfold handshakeEvs; rw [h]; split
    · split <;> simp_all
    · simp
  · split
    · simp
    · split
      · simp
      · simp [hloop]
      · exact hloop 0 arrs

/-- with a non-zero WriteTimeout, every response is immediately preceded by a fresh write deadline -/
theorem C15_write_rearmed (cfg : Cfg) (hwt : cfg.writeTimeout = true) (k : Nat) (r : Req) (evs : List Ev)
    (h : handleReq cfg k r = (evs, true)) :
    ∃ pre, evs = pre ++ [Ev.armWrite, Ev.respond k (respOf cfg r)] := by
  unfold handleReq at h
  split at h
  · simp at h
  · split at h
    · simp at h
    · rename_i evs' ra hh
      split at h
      · simp only [Prod.mk.injEq, and_true] at h
        subst h
        exact ⟨evs' ++ calls cfg k ra 0 r.items, by simp [armW, hwt]⟩
      · simp at h

/-- the TLS handshake is itself preceded by fresh deadlines (those that are configured) -/
theorem C15_handshake_armed (cfg : Cfg) (h : cfg.tls = true) :
    handshakeEvs cfg = (if cfg.readTimeout then [Ev.armRead] else []) ++
      ((if cfg.writeTimeout then [Ev.armWrite] else []) ++ [Ev.handshake cfg.handshakeOk]) := by
  simp [handshakeEvs, h]

/-- a peer that stalls before completing a request (the read deadline fires: Decode returns an error) is disconnected -/
theorem C15_stall_disconnects (cfg : Cfg) (k : Nat) (rest : List Arrival) :
    loop cfg k (.decodeErr :: rest) = arm cfg ++ [Ev.decode k, Ev.close] := by
  simp [loop, arm]

/-- age is irrelevant: what the loop does with the remaining arrivals does not depend on how many requests the
    connection has already completed — up to the request index carried by the events, the traces are equal -/
def Ev.unindex : Ev → Ev
  | .decode _ => .decode 0
  | .requestAuth _ ok => .requestAuth 0 ok
  | .call _ i op p sid sa ra => .call 0 i op p sid sa ra
  | .respond _ r => .respond 0 r
  | e => e

theorem calls_unindex (cfg : Cfg) (k k' : Nat) (ra : Option Nat) (i : Nat) (items : List ReqItem) :
    (calls cfg k ra i items).map Ev.unindex = (calls cfg k' ra i items).map Ev.unindex := by
  induction items generalizing i with
  | nil => rfl
  | cons it rest ih => simp only [calls, List.map_append, ih]; split <;> simp [Ev.unindex]

theorem handleReq_unindex (cfg : Cfg) (k k' : Nat) (r : Req) :
    (handleReq cfg k r).1.map Ev.unindex = (handleReq cfg k' r).1.map Ev.unindex ∧
    (handleReq cfg k r).2 = (handleReq cfg k' r).2 := by
  unfold handleReq
  split
  · simp
  · have ha : (authStep cfg k r).1.map Ev.unindex = (authStep cfg k' r).1.map Ev.unindex ∧ (authStep cfg k r).2 = (authStep cfg k' r).2 := by
      unfold authStep; split
      · simp
      · split
        · split <;> simp [Ev.unindex]
        · simp
    cases h1 : authStep cfg k r with
    | mk e1 o1 =>
      cases h2 : authStep cfg k' r with
      | mk e2 o2 =>
        rw [h1, h2] at ha
        obtain ⟨hm, ho⟩ := ha
        simp only at hm ho
        subst ho
        cases o1 with
        | none => simp [hm]
        | some ra =>
          simp only
          split
          · simp [hm, calls_unindex cfg k k', armW, Ev.unindex]
          · simp [hm, calls_unindex cfg k k', armW]

theorem C15_age_irrelevant (cfg : Cfg) (k k' : Nat) (arrs : List Arrival) :
    (loop cfg k arrs).map Ev.unindex = (loop cfg k' arrs).map Ev.unindex := by
  induction arrs generalizing k k' with
  | nil => rfl
  | cons a rest ih =>
    cases a with
    | eof => simp [loop, Ev.unindex]
    | decodeErr => simp [loop, Ev.unindex]
    | request r =>
      obtain ⟨h1, h2⟩ := handleReq_unindex cfg k k' r
      have e : ∀ j, loop cfg j (.request r :: rest) = ((if cfg.readTimeout then [Ev.armRead] else []) ++ [Ev.decode j]) ++
          (if (handleReq cfg j r).2 = true then (handleReq cfg j r).1 ++ loop cfg (j + 1) rest else (handleReq cfg j r).1 ++ [Ev.close]) := by
        intro j; simp [loop]
      rw [e k, e k']
      simp only [List.map_append]
      have hd : List.map Ev.unindex [Ev.decode k] = List.map Ev.unindex [Ev.decode k'] := by simp [Ev.unindex]
      rw [hd, h2]
      congr 1
      by_cases hc : (handleReq cfg k' r).2 = true
      · simp [hc, h1, ih (k + 1) (k' + 1)]
      · simp [hc, h1]

example : session { exCfg with sessionAuth := none } [.request exReq1, .eof] =
    [Ev.armRead, Ev.decode 0, Ev.requestAuth 0 true, Ev.call 0 0 18 0 3 none (some 5), Ev.respond 0 (respOf exCfg exReq1),
     Ev.armRead, Ev.decode 1, Ev.close] := by decide

end Kmip.Session

/-! ### the Client's half: "the Client arms its deadlines the same way around every Send" -/
namespace Kmip.ClientIO
open Kmip.Client

theorem pairsOk_append (e arm : Ev) : ∀ (a b : List Ev), pairsOk e arm a = true → pairsOk e arm b = true → b.head? ≠ some e →
    pairsOk e arm (a ++ b) = true := by
  intro a
  induction a with
  | nil => intro b _ hb _; simpa using hb
  | cons x rest ih =>
    intro b ha hb hh
    cases rest with
    | nil =>
      cases b with
      | nil => rfl
      | cons y br =>
        have hy : y ≠ e := by intro h; apply hh; simp [h]
        simp [pairsOk, hy, hb]
    | cons y rest' =>
      simp only [pairsOk, Bool.and_eq_true] at ha
      have := ih b ha.2 hb hh
      simp only [List.cons_append] at this ⊢
      simp only [pairsOk, Bool.and_eq_true]
      exact ⟨ha.1, this⟩

theorem armedBefore_append (e arm : Ev) (a b : List Ev) (ha : armedBefore e arm a = true) (hb : armedBefore e arm b = true) :
    armedBefore e arm (a ++ b) = true := by
  simp only [armedBefore, Bool.and_eq_true, bne_iff_ne, ne_eq] at ha hb ⊢
  refine ⟨?_, pairsOk_append e arm a b ha.2 hb.2 hb.1⟩
  cases a with
  | nil => simpa using hb.1
  | cons x r => simpa using ha.1

theorem pairsOk_spec (e arm : Ev) : ∀ (l pre : List Ev) (p : Ev) (post : List Ev), pairsOk e arm l = true →
    l = pre ++ p :: e :: post → p = arm := by
  intro l
  induction l with
  | nil => intro pre p post _ h; simp at h
  | cons x rest ih =>
    intro pre p post ha h
    cases pre with
    | nil =>
      simp only [List.nil_append, List.cons.injEq] at h
      obtain ⟨rfl, rfl⟩ := h
      simp only [pairsOk, Bool.and_eq_true, Bool.or_eq_true, bne_iff_ne, ne_eq, not_true_eq_false, false_or, beq_iff_eq] at ha
      exact ha.1
    | cons q pre' =>
      simp only [List.cons_append, List.cons.injEq] at h
      obtain ⟨rfl, hr⟩ := h
      cases rest with
      | nil => cases pre' <;> simp at hr
      | cons y rest' =>
        simp only [pairsOk, Bool.and_eq_true] at ha
        exact ih pre' p post ha.2 hr

/-- what `armedBefore` says, spelled out: `e` is never the first event, and wherever it occurs the event right before it is `arm` -/
theorem armedBefore_spec (e arm : Ev) (l : List Ev) (h : armedBefore e arm l = true) :
    (∀ post, l ≠ e :: post) ∧ (∀ pre p post, l = pre ++ p :: e :: post → p = arm) := by
  simp only [armedBefore, Bool.and_eq_true, bne_iff_ne, ne_eq] at h
  constructor
  · intro post hl; apply h.1; simp [hl]
  · intro pre p post hl; exact pairsOk_spec e arm l pre p post h.2 hl

theorem sendEvs_armed_write (cfg : Cfg) (h : cfg.writeTimeout = true) (x : Exch) :
    armedBefore .write .armWrite (sendEvs cfg x) = true := by
  obtain ⟨rt, wt⟩ := cfg; obtain ⟨enc, wr⟩ := x
  simp only at h; subst h
  cases rt <;> cases enc <;> cases wr <;> decide

theorem sendEvs_armed_read (cfg : Cfg) (h : cfg.readTimeout = true) (x : Exch) :
    armedBefore .read .armRead (sendEvs cfg x) = true := by
  obtain ⟨rt, wt⟩ := cfg; obtain ⟨enc, wr⟩ := x
  simp only at h; subst h
  cases wt <;> cases enc <;> cases wr <;> decide

theorem step_armed (cfg : Cfg) (s : CState) (op : Op) :
    (cfg.writeTimeout = true → armedBefore .write .armWrite (step cfg s op).2 = true) ∧
    (cfg.readTimeout = true → armedBefore .read .armRead (step cfg s op).2 = true) := by
  cases op with
  | connect r =>
    obtain ⟨rt, wt⟩ := cfg
    constructor <;> intro _ <;> simp only [step] <;> cases r <;> cases rt <;> cases wt <;> decide
  | close => constructor <;> intro _ <;> simp only [step] <;> split <;> decide
  | send x =>
    constructor <;> intro h <;> simp only [step] <;> split
    · exact sendEvs_armed_write cfg h x
    · decide
    · exact sendEvs_armed_read cfg h x
    · decide

theorem trace_armed (cfg : Cfg) (s : CState) (ops : List Op) :
    (cfg.writeTimeout = true → armedBefore .write .armWrite (trace cfg s ops) = true) ∧
    (cfg.readTimeout = true → armedBefore .read .armRead (trace cfg s ops) = true) := by
  induction ops generalizing s with
  | nil => exact ⟨fun _ => rfl, fun _ => rfl⟩
  | cons op rest ih =>
    exact ⟨fun h => armedBefore_append _ _ _ _ ((step_armed cfg s op).1 h) ((ih _).1 h),
           fun h => armedBefore_append _ _ _ _ ((step_armed cfg s op).2 h) ((ih _).2 h)⟩

/-- C15, Client, WriteTimeout ≠ 0: whatever the Client is asked to do, in whatever order - connect, fail to connect, send
    encodable and unencodable requests, see writes fail, close, reconnect -, every request it writes is written under a write
    deadline armed immediately before it: a fresh one for each Send, however old the connection -/
theorem C15_client_write_armed (cfg : Cfg) (h : cfg.writeTimeout = true) (s : CState) (ops : List Op) :
    (∀ post, trace cfg s ops ≠ Ev.write :: post) ∧
    (∀ pre p post, trace cfg s ops = pre ++ p :: Ev.write :: post → p = Ev.armWrite) :=
  armedBefore_spec .write .armWrite _ ((trace_armed cfg s ops).1 h)

/-- ... and with ReadTimeout ≠ 0 every wait for a response happens under a read deadline armed immediately before it -/
theorem C15_client_read_armed (cfg : Cfg) (h : cfg.readTimeout = true) (s : CState) (ops : List Op) :
    (∀ post, trace cfg s ops ≠ Ev.read :: post) ∧
    (∀ pre p post, trace cfg s ops = pre ++ p :: Ev.read :: post → p = Ev.armRead) :=
  armedBefore_spec .read .armRead _ ((trace_armed cfg s ops).2 h)

/-- with a zero timeout the Client never touches that deadline -/
theorem C15_client_zero_never (cfg : Cfg) (s : CState) (ops : List Op) :
    (cfg.readTimeout = false → Ev.armRead ∉ trace cfg s ops) ∧ (cfg.writeTimeout = false → Ev.armWrite ∉ trace cfg s ops) := by
  induction ops generalizing s with
  | nil => simp [trace]
  | cons op rest ih =>
    have hs : (cfg.readTimeout = false → Ev.armRead ∉ (step cfg s op).2) ∧ (cfg.writeTimeout = false → Ev.armWrite ∉ (step cfg s op).2) := by
      obtain ⟨rt, wt⟩ := cfg
      cases op with
      | connect r => constructor <;> intro h <;> simp only at h <;> subst h <;> simp only [step] <;> cases r <;> first | (cases rt <;> decide) | (cases wt <;> decide)
      | close => constructor <;> intro _ <;> simp only [step] <;> split <;> decide
      | send x =>
        obtain ⟨enc, wr⟩ := x
        constructor <;> intro h <;> simp only at h <;> subst h <;> simp only [step] <;> split <;>
          first | decide | (cases rt <;> cases enc <;> cases wr <;> decide) | (cases wt <;> cases enc <;> cases wr <;> decide)
    constructor
    · intro h; simp only [trace, List.mem_append, not_or]; exact ⟨hs.1 h, (ih _).1 h⟩
    · intro h; simp only [trace, List.mem_append, not_or]; exact ⟨hs.2 h, (ih _).2 h⟩

/-- the age of the connection is irrelevant: what the n-th Send on a connection does is what the first does -/
theorem C15_client_age_irrelevant (cfg : Cfg) (s : CState) (ops : List Op) (x : Exch) (hc : (ops.foldl (fun s op => (step cfg s op).1) s).conn = true) :
    trace cfg s (ops ++ [Op.send x]) = trace cfg s ops ++ sendEvs cfg x := by
  induction ops generalizing s with
  | nil => simp only [List.foldl_nil] at hc; simp [trace, step, hc]
  | cons op rest ih =>
    simp only [List.foldl_cons] at hc
    simp only [List.cons_append, trace, List.append_assoc]
    rw [ih _ hc]

/-- non-vacuity: a connected Client with both timeouts, two Sends -/
example : trace ⟨true, true⟩ CState.fresh [.connect true, .send ⟨true, true⟩, .send ⟨true, true⟩] =
    [.dial true, .armRead, .armWrite, .handshake, .armWrite, .write, .armRead, .read, .armWrite, .write, .armRead, .read] := by decide

end Kmip.ClientIO
