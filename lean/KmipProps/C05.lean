import KmipModel.Alloc
/-
  C05 — Decode memory is proportional to bytes actually received, not declared lengths.
  Partial by nature: the theorem is about the accounting model (KmipModel/Alloc.lean); that the model's charges bound the
  real allocations is measured by kvrun C05 (runtime.MemStats.TotalAlloc per Decode call, hostile declared lengths at every
  string / bytes / structure / skip position), not proved.
-/
namespace Kmip.Alloc

/-- the string reader's allocation is bounded by the bytes it actually obtained — whatever length was declared -/
theorem C05_string_bounded (declared got : Nat) : stringAlloc declared got ≤ 5 * got + 3 * chunk := by
  unfold stringAlloc chunk
  have h1 : min declared 4096 ≤ 4096 := Nat.min_le_right _ _
  have h2 : got / 4096 * 4096 ≤ got := Nat.div_mul_le_self got 4096
  omega

/-- a multi-gigabyte declared length costs no more than an honest one: the charge is monotone in what was obtained only -/
theorem C05_declared_irrelevant (d1 d2 got : Nat) (h1 : chunk ≤ d1) (h2 : chunk ≤ d2) :
    stringAlloc d1 got = stringAlloc d2 got := by
  unfold stringAlloc
  rw [Nat.min_eq_right h1, Nat.min_eq_right h2]

/-- every operation costs at most A bytes per byte it obtained from the input -/
theorem C05_op_linear (op : Op) : op.cost ≤ A * op.consumed := by
  cases op with
  | structHeader =>
    show chunk + 512 ≤ A * 8
    unfold chunk A; omega
  | fixedItem =>
    show 256 ≤ A * 8
    unfold A; omega
  | stringItem declared got =>
    have := C05_string_bounded declared got
    show 256 + stringAlloc declared got ≤ A * (8 + got)
    unfold A; unfold chunk at this; omega
  | skipItem got =>
    show 256 ≤ A * (8 + got)
    unfold A; omega

/-- hence a whole Decode call: allocation ≤ A × bytes obtained, for any sequence of operations of any length -/
theorem C05_linear (ops : List Op) : totalCost ops ≤ A * totalConsumed ops := by
  induction ops with
  | nil => simp [totalCost, totalConsumed]
  | cons op rest ih =>
    have := C05_op_linear op
    simp only [totalCost, totalConsumed, List.map_cons, List.sum_cons] at *
    rw [Nat.mul_add]; omega

/-- in particular a message of a few bytes claiming a 2^32−1-byte string: header obtained, nothing else -/
example : (Op.stringItem 4294967295 0).cost ≤ 1600 * 8 := by
  have := C05_op_linear (Op.stringItem 4294967295 0)
  simpa [A, Op.consumed] using this

end Kmip.Alloc
