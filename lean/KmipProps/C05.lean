import KmipModel.Alloc
import KmipProofs.DecodeCostBound
/-
  C05 — Decode memory is proportional to bytes actually received, not declared lengths.

  Two layers.  (1) `C05_decode_cost_linear` and its corollaries (end of this file): on the cost semantics of the decoder model
  (KmipModel/DecodeCost.lean: decode.go's recursion, every allocation charged where the Go code makes it), for EVERY schema
  whose structures have at most 64 fields, every target type, every input and every end-of-stream condition, one Decode call
  costs at most A · (bytes available) + B — no term for a declared length.  (2) The older accounting theorems over an
  abstract list of operations (KmipModel/Alloc.lean), kept.
  Partial by nature in one respect: that the model's charges bound the REAL allocations is measured by kvrun C05
  (runtime.MemStats.TotalAlloc per Decode call against `decodeCost` of that very input, hostile declared lengths at every
  string / bytes / structure / skip position, whole and fragmented delivery), not proved: the Go allocator is not modelled.
-/
namespace Kmip.Alloc

/-- the string reader's allocation is bounded by the bytes it actually obtained — whatever length was declared -/
theorem C05_string_bounded (declared got : Nat) : stringAlloc declared got ≤ 5 * got + 3 * chunk := by
  unfold stringAlloc chunk
  have h1 : min declared 4096 ≤ 4096 := Nat.min_le_right _ _
  have h2 : got / 4096 * 4096 ≤ got := Nat.div_mul_le_self got 4096
  omega

/-- a multi-gigabyte declared length costs no more than an honest one: the charge is monotone in what was obtained only -/
theorem C05_declared_irrelevant (d1 d2 got : Nat) (h1 : chunk ≤ d1) (h2 : chunk ≤ d2) :
    stringAlloc d1 got = stringAlloc d2 got := by
  unfold stringAlloc
  rw [Nat.min_eq_right h1, Nat.min_eq_right h2]

/-- every operation costs at most A bytes per byte it obtained from the input -/
theorem C05_op_linear (op : Op) : op.cost ≤ A * op.consumed := by
  cases op with
  | structHeader =>
    show chunk + 512 ≤ A * 8
    unfold chunk A; omega
  | fixedItem =>
    show 256 ≤ A * 8
    unfold A; omega
  | stringItem declared got =>
    have := C05_string_bounded declared got
    show 256 + stringAlloc declared got ≤ A * (8 + got)
    unfold A; unfold chunk at this; omega
  | skipItem got =>
    show 256 ≤ A * (8 + got)
    unfold A; omega

/-- hence a whole Decode call: allocation ≤ A × bytes obtained, for any sequence of operations of any length -/
theorem C05_linear (ops : List Op) : totalCost ops ≤ A * totalConsumed ops := by
  induction ops with
  | nil => simp [totalCost, totalConsumed]
  | cons op rest ih =>
    have := C05_op_linear op
    simp only [totalCost, totalConsumed, List.map_cons, List.sum_cons] at *
    rw [Nat.mul_add]; omega

/-- in particular a message of a few bytes claiming a 2^32−1-byte string: header obtained, nothing else -/
example : (Op.stringItem 4294967295 0).cost ≤ 1600 * 8 := by
  have := C05_op_linear (Op.stringItem 4294967295 0)
  simpa [A, Op.consumed] using this

end Kmip.Alloc

/-! ### the bound on the decoder model itself -/
namespace Kmip.Cost
open Kmip

/-- **C05 on the decoder model.**  One `Decode` call into a target of type `sd`, on ANY input `bs` (well-formed or not, declaring
    whatever lengths it likes at whatever position) ending in any way: the allocation charged along decode.go's own recursion
    is at most `A` bytes per byte of input available, plus the fixed `B`. -/
theorem C05_decode_cost_linear (sd : SD) (hn : SD.narrow width sd = true) (bs : Bytes) (fin : Fin) :
    decodeCost sd bs fin ≤ A * bs.length + B := by
  unfold decodeCost
  split
  · have h := S_bound sd sd.tag { win := bs, fin := fin, last := 0 } hn
    have hp : phi { win := bs, fin := fin, last := 0 } = bs.length := by simp [phi]
    rw [hp] at h
    omega
  · omega

/-- the same for a Decode call in the middle of a stream (a Decoder that has decoded messages before; a tag may be peeked):
    charged to what that Decoder can still obtain -/
theorem C05_decode_cost_linear_stream (sd : SD) (hn : SD.narrow width sd = true) (d : Dec) :
    costStruct sd.tag sd d ≤ A * phi d := by
  have h := S_bound sd sd.tag d hn
  omega

/-- what a successful Decode leaves behind has been paid for separately: cost ≤ A · (bytes it consumed) -/
theorem C05_decode_cost_consumed (sd : SD) (hn : SD.narrow width sd = true) (d : Dec) (v : Val) (n : Nat) (d' : Dec)
    (h : decStruct sd.tag sd d = .ok (v, n, d')) : costStruct sd.tag sd d + A * phi d' ≤ A * phi d := by
  have hb := S_bound sd sd.tag d hn
  rw [h] at hb
  exact hb

/-- "a message of a few bytes that claims to contain a multi-gigabyte string": whatever the 24 bytes say, at most
    A · 24 + B = 103 936 bytes -/
theorem C05_few_bytes (sd : SD) (hn : SD.narrow width sd = true) (bs : Bytes) (fin : Fin) (h : bs.length ≤ 24) :
    decodeCost sd bs fin ≤ 103936 := by
  have := C05_decode_cost_linear sd hn bs fin
  have h2 : A * bs.length ≤ A * 24 := Nat.mul_le_mul_left _ h
  unfold A B at *
  omega

/-- a string's charge does not depend on the length declared once that exceeds what a chunk holds: only on what was obtained -/
theorem C05_string_declared_irrelevant (d1 d2 got : Nat) (h1 : chunk ≤ d1) (h2 : chunk ≤ d2) :
    stringAlloc d1 got = stringAlloc d2 got := by
  unfold stringAlloc
  rw [Nat.min_eq_right h1, Nat.min_eq_right h2]

end Kmip.Cost
