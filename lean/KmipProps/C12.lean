import KmipProofs.SyncLemmas
import KmipProps.C11
/-
  C12 — no data races inside the library under documented concurrent use.

  Generic part (here): the two disciplines the server relies on are sound in the trace semantics of KmipModel/Sync.lean.
  Specific part (GenC12.lean): the access table regenerated from /repo satisfies the disciplines.
  WaitGroup rule: C11_no_add_after_listener_closed (no wg.Add can be concurrent with wg.Wait).
  Partial: the theorem is about the extracted table and this memory-model fragment; the translator's lock-state walk and
  the race detector runs (kvrun C12 under -race) are in the trusted base.
-/
namespace Kmip.Sync

/-- Lock discipline: two accesses by different goroutines, each made while its goroutine holds the mutex, are ordered by
    happens-before (via the Unlock of the first holder and the Lock of the second) — in every trace respecting the mutex -/
theorem C12_lock_discipline_orders (pre mid post : Trace) (ei ej : Ev)
    (hok : LockOK none (pre ++ ei :: (mid ++ ej :: post)))
    (hi : holderAfter none pre = some ei.tid)
    (hj : holderAfter none (pre ++ ei :: mid) = some ej.tid)
    (hacc : ∃ l, ei.op = .rd l ∨ ei.op = .wr l)
    (hne : ei.tid ≠ ej.tid) :
    HB (pre ++ ei :: (mid ++ ej :: post)) pre.length (pre.length + 1 + mid.length) := by
  -- the holder is unchanged by the access itself
  have hi' : holderAfter none (pre ++ [ei]) = some ei.tid := by
    rw [holderAfter_append, hi]
    obtain ⟨l, h | h⟩ := hacc <;> simp [holderAfter, h]
  have hsplit : pre ++ ei :: (mid ++ ej :: post) = (pre ++ [ei]) ++ (mid ++ ej :: post) := by simp
  have hok2 : LockOK (some ei.tid) mid := by
    rw [hsplit, LockOK_append, hi'] at hok
    exact ((LockOK_append _ _ _).mp hok.2).1
  have hend : holderAfter (some ei.tid) mid = some ej.tid := by
    have : pre ++ ei :: mid = (pre ++ [ei]) ++ mid := by simp
    rw [this, holderAfter_append, hi'] at hj
    exact hj
  obtain ⟨m1, m2, m3, hm⟩ := rel_then_acq mid ei.tid ej.tid hne hok2 hend
  subst hm
  -- positions
  let tr := pre ++ ei :: ((m1 ++ (⟨ei.tid, .rel⟩ : Ev) :: (m2 ++ (⟨ej.tid, .acq⟩ : Ev) :: m3)) ++ ej :: post)
  have gi : tr[pre.length]? = some ei := by simp [tr]
  have gr : tr[pre.length + 1 + m1.length]? = some (⟨ei.tid, .rel⟩ : Ev) := by
    simp only [tr]
    rw [List.getElem?_append_right (by omega)]
    have : pre.length + 1 + m1.length - pre.length = m1.length + 1 := by omega
    rw [this]
    simp [List.append_assoc]
  have ga : tr[pre.length + 1 + m1.length + 1 + m2.length]? = some (⟨ej.tid, .acq⟩ : Ev) := by
    simp only [tr]
    rw [List.getElem?_append_right (by omega)]
    have : pre.length + 1 + m1.length + 1 + m2.length - pre.length = (m1.length + 1 + m2.length) + 1 := by omega
    rw [this]
    simp only [List.getElem?_cons_succ, List.append_assoc, List.cons_append]
    rw [List.getElem?_append_right (by omega)]
    have : m1.length + 1 + m2.length - m1.length = m2.length + 1 := by omega
    rw [this]
    simp
  have gj : tr[pre.length + 1 + (m1 ++ (⟨ei.tid, .rel⟩ : Ev) :: (m2 ++ (⟨ej.tid, .acq⟩ : Ev) :: m3)).length]? = some ej := by
    simp only [tr]
    rw [List.getElem?_append_right (by omega)]
    have : pre.length + 1 + (m1 ++ (⟨ei.tid, .rel⟩ : Ev) :: (m2 ++ (⟨ej.tid, .acq⟩ : Ev) :: m3)).length - pre.length
        = (m1 ++ (⟨ei.tid, .rel⟩ : Ev) :: (m2 ++ (⟨ej.tid, .acq⟩ : Ev) :: m3)).length + 1 := by omega
    rw [this]
    simp
  have h1 : HB tr pre.length (pre.length + 1 + m1.length) := HB.po _ _ ei ⟨ei.tid, .rel⟩ (by omega) gi gr rfl
  have h2 : HB tr (pre.length + 1 + m1.length) (pre.length + 1 + m1.length + 1 + m2.length) :=
    HB.sync _ _ ⟨ei.tid, .rel⟩ ⟨ej.tid, .acq⟩ (by omega) gr ga rfl rfl
  have h3 : HB tr (pre.length + 1 + m1.length + 1 + m2.length)
      (pre.length + 1 + (m1 ++ (⟨ei.tid, .rel⟩ : Ev) :: (m2 ++ (⟨ej.tid, .acq⟩ : Ev) :: m3)).length) :=
    HB.po _ _ ⟨ej.tid, .acq⟩ ej (by simp; omega) ga gj rfl
  exact HB.trans _ _ _ (HB.trans _ _ _ h1 h2) h3

/-- hence: a location all of whose accesses are made with the mutex held is never involved in a data race -/
theorem C12_discipline_sound (pre mid post : Trace) (ei ej : Ev) (loc : Nat)
    (hok : LockOK none (pre ++ ei :: (mid ++ ej :: post)))
    (hi : holderAfter none pre = some ei.tid)
    (hj : holderAfter none (pre ++ ei :: mid) = some ej.tid)
    (hai : ei.op.accesses loc = true) (hne : ei.tid ≠ ej.tid) :
    HB (pre ++ ei :: (mid ++ ej :: post)) pre.length (pre.length + 1 + mid.length) := by
  apply C12_lock_discipline_orders pre mid post ei ej hok hi hj _ hne
  cases hop : ei.op with
  | rd l => exact ⟨l, Or.inl rfl⟩
  | wr l => exact ⟨l, Or.inr rfl⟩
  | acq => simp [Op.accesses, hop] at hai
  | rel => simp [Op.accesses, hop] at hai
  | fork c => simp [Op.accesses, hop] at hai

/-- Configure-before-fork discipline: an access made by the configuring goroutine before it creates goroutine `c`
    happens-before every event of `c` -/
theorem C12_config_before_fork (pre mid1 mid2 post : Trace) (ei ef ej : Ev) (c : Nat)
    (hf : ef.op = .fork c) (hsame : ei.tid = ef.tid) (hc : ej.tid = c) :
    HB (pre ++ ei :: (mid1 ++ ef :: (mid2 ++ ej :: post))) pre.length (pre.length + 1 + mid1.length + 1 + mid2.length) := by
  let tr := pre ++ ei :: (mid1 ++ ef :: (mid2 ++ ej :: post))
  have gi : tr[pre.length]? = some ei := by simp [tr]
  have gf : tr[pre.length + 1 + mid1.length]? = some ef := by
    simp only [tr]
    rw [List.getElem?_append_right (by omega)]
    have : pre.length + 1 + mid1.length - pre.length = mid1.length + 1 := by omega
    rw [this]; simp
  have gj : tr[pre.length + 1 + mid1.length + 1 + mid2.length]? = some ej := by
    simp only [tr]
    rw [List.getElem?_append_right (by omega)]
    have : pre.length + 1 + mid1.length + 1 + mid2.length - pre.length = (mid1.length + 1 + mid2.length) + 1 := by omega
    rw [this]
    simp only [List.getElem?_cons_succ]
    rw [List.getElem?_append_right (by omega)]
    have : mid1.length + 1 + mid2.length - mid1.length = mid2.length + 1 := by omega
    rw [this]; simp
  exact HB.trans _ _ _ (HB.po _ _ ei ef (by omega) gi gf hsame) (HB.fork _ _ ef ej c (by omega) gf gj hf hc)

/-- WaitGroup rule: in the Serve ∥ Shutdown system no `wg.Add` happens once Shutdown has left its critical section, so an Add
    is never concurrent with the Wait that follows it (restates C11_no_add_after_listener_closed) -/
theorem C12_waitgroup_rule (σ σ' : Shutdown.State) (l : Shutdown.Label) (h : Shutdown.Reachable σ)
    (hp : σ.sd = .listenerClosed ∨ σ.sd = .waiting ∨ σ.sd = .returnedNil ∨ σ.sd = .returnedCtx) (st : Shutdown.Step σ l σ') :
    l ≠ .register := Shutdown.C11_no_add_after_listener_closed σ σ' l h hp st

/-! non-vacuity: two goroutines writing location 7 under the mutex -/
def exTrace : Trace := [⟨1, .acq⟩, ⟨1, .wr 7⟩, ⟨1, .rel⟩, ⟨2, .acq⟩, ⟨2, .wr 7⟩, ⟨2, .rel⟩]
example : LockOK none exTrace := by simp [exTrace, LockOK]
example : HB exTrace 1 4 := by
  have := C12_discipline_sound [⟨1, .acq⟩] [⟨1, .rel⟩, ⟨2, .acq⟩] [⟨2, .rel⟩] ⟨1, .wr 7⟩ ⟨2, .wr 7⟩ 7
    (by simp [LockOK]) (by simp [holderAfter]) (by simp [holderAfter]) (by simp [Op.accesses]) (by decide)
  simpa [exTrace] using this

end Kmip.Sync
