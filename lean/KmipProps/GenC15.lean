import KmipModel.ExpectSkel
import KmipGen.Skeleton
import KmipGen.Dataflow
import KmipModel.ExpectFlow
/-
  C15, generated obligations: where the deadline calls sit in `Server.serve`, `Client.Connect` and `Client.Send`
  (regenerated from /repo on every run) is what the models assume: guarded by `!= 0`, fresh `time.Now().Add(..)`,
  immediately before the handshake / Decode / Encode they protect.
-/
namespace Kmip
theorem GenC15_serve_skeleton : KmipGen.skel_Server_serve = ExpectSkel.skel_Server_serve := by decide
theorem GenC15_client_send_skeleton : KmipGen.skel_Client_Send = ExpectSkel.skel_Client_Send := by decide
theorem GenC15_client_connect_skeleton : KmipGen.skel_Client_Connect = ExpectSkel.skel_Client_Connect := by decide
/-- the deadline calls with their arguments: `time.Now().Add(s.ReadTimeout)` for reads, `time.Now().Add(s.WriteTimeout)` for writes
    (serve), `c.WriteTimeout` / `c.ReadTimeout` (Client.Send) - which timeout arms which deadline -/
theorem GenC15_serve_dataflow : KmipGen.flow_Server_serve = ExpectFlow.flow_Server_serve := by decide +kernel
theorem GenC15_send_dataflow : KmipGen.flow_Client_Send = ExpectFlow.flow_Client_Send := by decide +kernel

end Kmip
