import KmipModel.Accept
/-
  C17 — Serve survives transient Accept errors; stops only on a permanent error or Shutdown.
-/
namespace Kmip.Accept

theorem nextDelay_le (d : Nat) : nextDelay d ≤ 1000 := by
  unfold nextDelay; exact Nat.min_le_right _ _

theorem nextDelay_pos (d : Nat) : 0 < nextDelay d := by
  unfold nextDelay; split <;> omega

/-- survives: after ANY finite run of temporary errors, the next connection that arrives is served -/
theorem C17_survives (k : Nat) (d n : Nat) (c : Nat) (rest : List Outcome) :
    ∃ sleeps d', acceptLoop d n (List.replicate k .temporary ++ .ok c :: rest) =
      sleeps ++ Ev.start c (n + 1) :: acceptLoop 0 (n + 1) rest ∧ sleeps.length = k ∧
      (∀ e ∈ sleeps, ∃ ms, e = Ev.sleep ms ∧ 0 < ms ∧ ms ≤ 1000) ∧ d' = d := by
  induction k generalizing d with
  | zero => exact ⟨[], d, by simp [acceptLoop], rfl, by simp, rfl⟩
  | succ k ih =>
    obtain ⟨sl, _, h1, h2, h3, _⟩ := ih (nextDelay d)
    refine ⟨Ev.sleep (nextDelay d) :: sl, d, ?_, by simp [h2], ?_, rfl⟩
    · simp [List.replicate_succ, acceptLoop, h1]
    · intro e he
      simp only [List.mem_cons] at he
      rcases he with he | he
      · exact ⟨nextDelay d, he, nextDelay_pos d, nextDelay_le d⟩
      · exact h3 e he

/-- bounded back-off: every delay Serve ever sleeps is at most one second (and positive) -/
theorem C17_backoff_bounded (d n : Nat) (os : List Outcome) :
    ∀ e ∈ acceptLoop d n os, ∀ ms, e = Ev.sleep ms → 0 < ms ∧ ms ≤ 1000 := by
  induction os generalizing d n with
  | nil => simp [acceptLoop]
  | cons o rest ih =>
    intro e he ms hms
    cases o with
    | temporary =>
      simp only [acceptLoop, List.mem_cons] at he
      rcases he with he | he
      · subst he; cases hms; exact ⟨nextDelay_pos d, nextDelay_le d⟩
      · exact ih _ _ e he ms hms
    | ok c =>
      simp only [acceptLoop, List.mem_cons] at he
      rcases he with he | he
      · subst he; cases hms
      · exact ih _ _ e he ms hms
    | permanent => simp [acceptLoop] at he; subst he; cases hms
    | shutdown => simp [acceptLoop] at he; subst he; cases hms
    | late c => simp [acceptLoop] at he; rcases he with he | he <;> subst he <;> cases hms

/-- the back-off schedule, stated outright: the i-th consecutive temporary error (i = 0, 1, …) sleeps min(5·2^i, 1000) ms -/
theorem C17_backoff_schedule (k : Nat) (n : Nat) (rest : List Outcome) :
    ∃ tail, acceptLoop 0 n (List.replicate k .temporary ++ rest) =
      (List.range k).map (fun i => Ev.sleep (min (5 * 2 ^ i) 1000)) ++ tail := by
  -- generalise: starting from delay d = min(5·2^(j-1),1000) for j > 0
  have key : ∀ k j, ∃ tail, acceptLoop (if j = 0 then 0 else min (5 * 2 ^ (j - 1)) 1000) n (List.replicate k .temporary ++ rest) =
      (List.range k).map (fun i => Ev.sleep (min (5 * 2 ^ (i + j)) 1000)) ++ tail := by
    intro k
    induction k with
    | zero => intro j; exact ⟨acceptLoop (if j = 0 then 0 else min (5 * 2 ^ (j - 1)) 1000) n rest, by simp⟩
    | succ k ih =>
      intro j
      have hnd : nextDelay (if j = 0 then 0 else min (5 * 2 ^ (j - 1)) 1000) = min (5 * 2 ^ j) 1000 := by
        unfold nextDelay
        cases j with
        | zero => simp
        | succ j =>
          simp only [Nat.add_sub_cancel, Nat.succ_ne_zero, if_false]
          have hp : 0 < 2 ^ j := Nat.pow_pos (by omega)
          have : 5 * 2 ^ (j + 1) = 2 * (5 * 2 ^ j) := by rw [Nat.pow_succ]; omega
          rw [this]
          by_cases hc : 5 * 2 ^ j ≤ 1000
          · rw [Nat.min_eq_left hc]
            have : ¬ (5 * 2 ^ j = 0) := by omega
            simp [this]
          · have h1 : min (5 * 2 ^ j) 1000 = 1000 := Nat.min_eq_right (by omega)
            rw [h1]; simp; omega
      obtain ⟨tail, ht⟩ := ih (j + 1)
      refine ⟨tail, ?_⟩
      simp only [List.replicate_succ, List.cons_append, acceptLoop, hnd]
      have hj : (if j + 1 = 0 then 0 else min (5 * 2 ^ (j + 1 - 1)) 1000) = min (5 * 2 ^ j) 1000 := by simp
      rw [hj] at ht
      rw [ht, List.range_succ_eq_map]
      simp [List.map_map, Function.comp, Nat.add_assoc, Nat.add_comm 1 j]
  obtain ⟨tail, h⟩ := key k 0
  exact ⟨tail, by simpa using h⟩

/-- the delay is reset after a successful accept: the loop continues exactly as a fresh one (with the next session number) -/
theorem C17_reset_after_success (d n c : Nat) (rest : List Outcome) :
    acceptLoop d n (.ok c :: rest) = Ev.start c (n + 1) :: acceptLoop 0 (n + 1) rest := rfl

/-- the first permanent error (shutdown not signalled) makes Serve return that error, after serving everything before it -/
theorem C17_permanent (d n : Nat) (pre : List Outcome) (rest : List Outcome)
    (hpre : ∀ o ∈ pre, o = .temporary ∨ ∃ c, o = .ok c) :
    (acceptLoop d n (pre ++ .permanent :: rest)).getLast? = some Ev.returnErr := by
  induction pre generalizing d n with
  | nil => simp [acceptLoop]
  | cons o pre ih =>
    have h := hpre o (by simp)
    have ih' := fun d n => ih d n (fun o ho => hpre o (by simp [ho]))
    rcases h with h | ⟨c, h⟩ <;> subst h
    · simp only [List.cons_append, acceptLoop]
      have := ih' (nextDelay d) n
      cases hl : acceptLoop (nextDelay d) n (pre ++ Outcome.permanent :: rest) with
      | nil => rw [hl] at this; simp at this
      | cons x xs => rw [hl] at this; simpa using this
    · simp only [List.cons_append, acceptLoop]
      have := ih' 0 (n + 1)
      cases hl : acceptLoop 0 (n + 1) (pre ++ Outcome.permanent :: rest) with
      | nil => rw [hl] at this; simp at this
      | cons x xs => rw [hl] at this; simpa using this

/-- a failure caused by Shutdown makes Serve return nil, never the listener's error; a connection accepted too late
    is closed, not served -/
theorem C17_shutdown_nil (d n : Nat) (rest : List Outcome) :
    acceptLoop d n (.shutdown :: rest) = [Ev.returnNil] ∧
    ∀ c, acceptLoop d n (.late c :: rest) = [Ev.closeLate c, Ev.returnNil] := ⟨rfl, fun _ => rfl⟩

example : serveAccepts [.temporary, .temporary, .ok 7, .temporary, .permanent] =
    [Ev.sleep 5, Ev.sleep 10, Ev.start 7 1, Ev.sleep 5, Ev.returnErr] := by decide

end Kmip.Accept
