import KmipModel.ExpectSkel
import KmipGen.Skeleton
/-
  C17, generated obligation: the skeleton of `Server.Serve` regenerated from /repo equals the reviewed one
  (shutdown check first, then the temporary-error classification and back-off, else return the error; delay reset
  and registration under the lock after a successful accept).
-/
namespace Kmip
theorem GenC17_Serve_skeleton : KmipGen.skel_Server_Serve = ExpectSkel.skel_Server_Serve := by decide
/-- "returns nil when the failure is caused by Shutdown" rests on the ORDER in which Shutdown does things: the done channel is
    closed before the listener is (so that the accept loop, woken by the listener's error, finds the signal) -/
theorem GenC17_Shutdown_skeleton : KmipGen.skel_Server_Shutdown = ExpectSkel.skel_Server_Shutdown := by decide

end Kmip
