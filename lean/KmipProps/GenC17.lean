import KmipModel.ExpectSkel
import KmipGen.Skeleton
/-
  C17, generated obligation: the skeleton of `Server.Serve` regenerated from /repo equals the reviewed one
  (shutdown check first, then the temporary-error classification and back-off, else return the error; delay reset
  and registration under the lock after a successful accept).
-/
namespace Kmip
theorem GenC17_Serve_skeleton : KmipGen.skel_Server_Serve = ExpectSkel.skel_Server_Serve := by decide
end Kmip
