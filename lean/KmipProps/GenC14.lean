import KmipGen.CodecSrc
import KmipModel.ExpectCodec
import KmipModel.Client
import KmipModel.ExpectSkel
import KmipGen.Schema
import KmipGen.Skeleton
import KmipGen.Dataflow
import KmipModel.ExpectFlow
import KmipProofs.WireGen
import KmipProofs.WireDV
import KmipProps.C20
import KmipProps.C01
/-
  C14, generated obligations: the positions at which the client model reads the decoded Response are the fields
  client.go reads (checked against the schema regenerated from /repo), and the skeletons of Send / DiscoverVersions /
  Connect / Close equal the reviewed ones (in particular: the `c.conn == nil` guard first, every failed check returns,
  the type assertion in DiscoverVersions is the checked two-value form).
-/
namespace Kmip
open Kmip.Client

def fieldNameAt (sd : SD) (i : Nat) : Option String := (sd.fields[i]?).map Fld.name

theorem GenC14_positions :
    fieldNameAt KmipGen.sd_Response posHeader = some "Header" ∧
    fieldNameAt KmipGen.sd_Response posBatchItems = some "BatchItems" ∧
    fieldNameAt KmipGen.sd_ResponseHeader posBatchCount = some "BatchCount" ∧
    fieldNameAt KmipGen.sd_ResponseBatchItem posOperation = some "Operation" ∧
    fieldNameAt KmipGen.sd_ResponseBatchItem posResultStatus = some "ResultStatus" ∧
    fieldNameAt KmipGen.sd_ResponseBatchItem posResultReason = some "ResultReason" ∧
    fieldNameAt KmipGen.sd_ResponseBatchItem posResultMessage = some "ResultMessage" ∧
    fieldNameAt KmipGen.sd_ResponseBatchItem posResponsePayload = some "ResponsePayload" := by decide

theorem GenC14_send_skeleton : KmipGen.skel_Client_Send = ExpectSkel.skel_Client_Send := by decide
theorem GenC14_discover_skeleton : KmipGen.skel_Client_DiscoverVersions = ExpectSkel.skel_Client_DiscoverVersions := by decide
theorem GenC14_connect_skeleton : KmipGen.skel_Client_Connect = ExpectSkel.skel_Client_Connect := by decide
theorem GenC14_close_skeleton : KmipGen.skel_Client_Close = ExpectSkel.skel_Client_Close := by decide

end Kmip

/-
  Codec source tie (re-checked against /repo's current source on every run): the normalised source of every function of
  the groups below, as kvscan reads it from /repo now, is the text the model was validated against (KmipModel/ExpectCodec.lean;
  readable form in KmipModel/ExpectCodecSrc.txt). See harness/cmd/kvscan/srcdigest.go for the normalisation.
-/
namespace Kmip

/-- protocol errors (errors.go) -/
theorem GenC14_codec_src_err : KmipGen.codecSrc_err = ExpectCodec.codecSrc_err := by decide

end Kmip

namespace Kmip

/-- decoder (decode.go, decode_core.go): the server / client acts on what Decode returns -/
theorem GenC14_codec_src_dec : KmipGen.codecSrc_dec = ExpectCodec.codecSrc_dec := by decide

/-- struct descriptors (fields.go, types.go) -/
theorem GenC14_codec_src_desc : KmipGen.codecSrc_desc = ExpectCodec.codecSrc_desc := by decide

/-- dynamic dispatch (BuildFieldValue methods) -/
theorem GenC14_codec_src_disp : KmipGen.codecSrc_disp = ExpectCodec.codecSrc_disp := by decide


/-! ### Client.Send against the package's own Server, over the wire (message model of KmipModel/Wire.lean + the codec theorems)

    Everything below is about the schema regenerated from /repo: the normalisation Decode applies (`normVal`) is computed on the
    concrete Request / Response descriptors. -/
set_option linter.unusedSimpArgs false
open Kmip.Wire
/-- **End to end, through the bytes.**  `Client.Send(op, p)` builds a Request (`mkRequest`); whatever bytes `rb` Encode writes
    for it, the Server's Decode of those bytes yields a Request of which `handleBatch` makes the Response `resp` shown below -
    the handler (`H`) having seen the operation and the (normalised) payload the Client sent; and whatever bytes `sb` Encode
    writes for that Response, the Client's Decode of them yields a value of which `Send` returns exactly the handler's
    outcome: its payload on success, its result reason and message on failure.  Hypotheses: the two messages are well-formed
    values of their types with lengths below 2^32 (`WFv`, `Small` - C01's side conditions), and Encode accepted them. -/
theorem GenC14_e2e_over_the_wire (ver : Nat × Nat) (op : Nat) (p : DynV) (clock : Nat) (H : Nat → ItemIn → HRes)
    (rb sb : Bytes) (fin1 fin2 : Fin)
    (hwq : WFv (.struct KmipGen.sd_Request) (mkRequest wireZExt ver op p))
    (hsq : (canonTop KmipGen.sd_Request (mkRequest wireZExt ver op p)).Small = true)
    (heq : encodeSD KmipGen.sd_Request (mkRequest wireZExt ver op p) = .ok rb) :
    ∃ rv d1, decodeSD KmipGen.sd_Request rb fin1 = .ok (rv, rb.length, d1) ∧
      handleBatch wireZNonce wireZExt clock true H rv = some (respVal wireZNonce wireZExt clock H (sendView ver op p)) ∧
      (WFv (.struct KmipGen.sd_Response) (respVal wireZNonce wireZExt clock H (sendView ver op p)) →
        (canonTop KmipGen.sd_Response (respVal wireZNonce wireZExt clock H (sendView ver op p))).Small = true →
        encodeSD KmipGen.sd_Response (respVal wireZNonce wireZExt clock H (sendView ver op p)) = .ok sb →
        ∃ cv d2, decodeSD KmipGen.sd_Response sb fin2 = .ok (cv, sb.length, d2) ∧
          Client.send true true op (Client.respView cv) =
            (match H 0 { op := op, uid := [], payload := normDyn p } with
             | .success q => .payload (normDyn q)
             | .failed r m => .failure r m)) := by
  obtain ⟨hd1, hok1, ht1, hd2, hok2, ht2⟩ := wire_schemas_ok
  obtain ⟨d1, hdec⟩ := C01_roundtrip KmipGen.sd_Request _ rb fin1 hd1 hok1 ht1 hwq hsq heq
  have hview := reqView_norm_mkRequest ver op p
  refine ⟨_, d1, hdec, ?_, ?_⟩
  · unfold handleBatch
    rw [hview]
    simp [sendView]
  · intro hwr hsr her
    obtain ⟨d2, hdec2⟩ := C01_roundtrip KmipGen.sd_Response _ sb fin2 hd2 hok2 ht2 hwr hsr her
    refine ⟨_, d2, hdec2, ?_⟩
    have hr := respView_norm_respVal clock (.struct [.one (.int ver.1), .one (.int ver.2)]) [] { op := op, uid := [], payload := normDyn p }
      (H 0 { op := op, uid := [], payload := normDyn p })
    have heqv : respVal wireZNonce wireZExt clock H (sendView ver op p) =
        respVal wireZNonce wireZExt clock (fun _ _ => H 0 { op := op, uid := [], payload := normDyn p })
          { version := .struct [.one (.int ver.1), .one (.int ver.2)], corr := [], async := false, credType := 0, batchCount := 1,
            items := [{ op := op, uid := [], payload := normDyn p }] } := rfl
    rw [heqv, hr]
    cases H 0 { op := op, uid := [], payload := normDyn p } <;> simp [Client.send, Client.statusSuccess]

/-- **The same with the hypotheses reduced to the items.**  It is enough that the request's one batch item and the response's
    one batch item are well-formed values of their types (the payload is of the type the operation dispatches to, strings
    shorter than 2^32, numbers in range), that version numbers and the clock are in range, and that Encode accepts the two
    messages; everything about the headers - the zero Authentication, the zero Nonce, the echoed fields - is derived. -/
theorem GenC14_e2e_over_the_wire_items (ver : Nat × Nat) (op : Nat) (p : DynV) (clock : Nat) (H : Nat → ItemIn → HRes)
    (rb sb : Bytes) (fin1 fin2 : Fin) (hv1 : ver.1 < two32) (hv2 : ver.2 < two32) (hclock : clock < two64)
    (hitem : WFv (.struct KmipGen.sd_RequestBatchItem) (.struct [.one (.enum op), .one (.bytes []), .dyn p, .one wireZExt]))
    (hsq : (canonTop KmipGen.sd_Request (mkRequest wireZExt ver op p)).Small = true)
    (heq : encodeSD KmipGen.sd_Request (mkRequest wireZExt ver op p) = .ok rb)
    (hritem : WFv (.struct KmipGen.sd_ResponseBatchItem)
      (respItem wireZExt { op := op, uid := [], payload := normDyn p } (H 0 { op := op, uid := [], payload := normDyn p })))
    (hsr : (canonTop KmipGen.sd_Response (respVal wireZNonce wireZExt clock H (sendView ver op p))).Small = true)
    (her : encodeSD KmipGen.sd_Response (respVal wireZNonce wireZExt clock H (sendView ver op p)) = .ok sb) :
    ∃ rv d1 cv d2, decodeSD KmipGen.sd_Request rb fin1 = .ok (rv, rb.length, d1) ∧
      handleBatch wireZNonce wireZExt clock true H rv = some (respVal wireZNonce wireZExt clock H (sendView ver op p)) ∧
      decodeSD KmipGen.sd_Response sb fin2 = .ok (cv, sb.length, d2) ∧
      Client.send true true op (Client.respView cv) =
        (match H 0 { op := op, uid := [], payload := normDyn p } with
         | .success q => .payload (normDyn q)
         | .failed r m => .failure r m) := by
  obtain ⟨rv, d1, h1, h2, h3⟩ := GenC14_e2e_over_the_wire ver op p clock H rb sb fin1 fin2
    (wf_mkRequest ver op p hv1 hv2 hitem) hsq heq
  have hwr : WFv (.struct KmipGen.sd_Response) (respVal wireZNonce wireZExt clock H (sendView ver op p)) :=
    wf_respVal clock H (sendView ver op p) (wf_sendView_version ver hv1 hv2) hclock (by simp [sendView, two32]) (by simp [sendView, two32]) (by simp [sendView])
      ⟨hritem, trivial⟩
  obtain ⟨cv, d2, h4, h5⟩ := h3 hwr hsr her
  exact ⟨rv, d1, cv, d2, h1, h2, h4, h5⟩

/-- **... and over any transport.**  The same exchange with the two byte strings delivered by transports that fragment them in
    ANY way (guard `Stack.Inv`): the Server's Decoder - its bufio, the limit readers and bufios of the nested structures, the
    chunked string reads - still hands handleBatch the Request, and the Client's Decoder still hands Send the Response, so that
    Send returns the handler's outcome.  (Composed with C01_roundtrip_over_any_transport, i.e. with the C06 simulation.) -/
theorem GenC14_e2e_over_any_transport (ver : Nat × Nat) (op : Nat) (p : DynV) (clock : Nat) (H : Nat → ItemIn → HRes)
    (rb sb : Bytes) (srcIn srcOut : Io.Src) (hv1 : ver.1 < two32) (hv2 : ver.2 < two32) (hclock : clock < two64)
    (hitem : WFv (.struct KmipGen.sd_RequestBatchItem) (.struct [.one (.enum op), .one (.bytes []), .dyn p, .one wireZExt]))
    (hsq : (canonTop KmipGen.sd_Request (mkRequest wireZExt ver op p)).Small = true)
    (heq : encodeSD KmipGen.sd_Request (mkRequest wireZExt ver op p) = .ok rb)
    (hritem : WFv (.struct KmipGen.sd_ResponseBatchItem)
      (respItem wireZExt { op := op, uid := [], payload := normDyn p } (H 0 { op := op, uid := [], payload := normDyn p })))
    (hsr : (canonTop KmipGen.sd_Response (respVal wireZNonce wireZExt clock H (sendView ver op p))).Small = true)
    (her : encodeSD KmipGen.sd_Response (respVal wireZNonce wireZExt clock H (sendView ver op p)) = .ok sb)
    (hiIn : (Io.Stack.top srcIn).Inv) (hfIn : srcIn.flat = rb) (hiOut : (Io.Stack.top srcOut).Inv) (hfOut : srcOut.flat = sb) :
    ∃ rv x1 cv x2, Stk.decodeSrc KmipGen.sd_Request srcIn = .ok (rv, rb.length, x1) ∧
      handleBatch wireZNonce wireZExt clock true H rv = some (respVal wireZNonce wireZExt clock H (sendView ver op p)) ∧
      Stk.decodeSrc KmipGen.sd_Response srcOut = .ok (cv, sb.length, x2) ∧
      Client.send true true op (Client.respView cv) =
        (match H 0 { op := op, uid := [], payload := normDyn p } with
         | .success q => .payload (normDyn q)
         | .failed r m => .failure r m) := by
  obtain ⟨hd1, hok1, ht1, hd2, hok2, ht2⟩ := wire_schemas_ok
  obtain ⟨rv, d1, cv, d2, h1, h2, h3, h4⟩ := GenC14_e2e_over_the_wire_items ver op p clock H rb sb srcIn.fin srcOut.fin hv1 hv2 hclock
    hitem hsq heq hritem hsr her
  have hwq := wf_mkRequest ver op p hv1 hv2 hitem
  have hwr : WFv (.struct KmipGen.sd_Response) (respVal wireZNonce wireZExt clock H (sendView ver op p)) :=
    wf_respVal clock H (sendView ver op p) (wf_sendView_version ver hv1 hv2) hclock (by simp [sendView, two32]) (by simp [sendView, two32])
      (by simp [sendView]) ⟨hritem, trivial⟩
  obtain ⟨x1, e1, _, _⟩ := C01_roundtrip_over_any_transport KmipGen.sd_Request _ rb [] srcIn hd1 hok1 ht1 hwq hsq heq hiIn (by simpa using hfIn)
  obtain ⟨x2, e2, _, _⟩ := C01_roundtrip_over_any_transport KmipGen.sd_Response _ sb [] srcOut hd2 hok2 ht2 hwr hsr her hiOut (by simpa using hfOut)
  -- the flat decodes of the same bytes return the same values (Decode is a function): identify rv and cv
  obtain ⟨d1', hr1⟩ := C01_roundtrip KmipGen.sd_Request _ rb srcIn.fin hd1 hok1 ht1 hwq hsq heq
  obtain ⟨d2', hr2⟩ := C01_roundtrip KmipGen.sd_Response _ sb srcOut.fin hd2 hok2 ht2 hwr hsr her
  rw [hr1] at h1
  rw [hr2] at h3
  simp only [Outcome.ok.injEq, Prod.mk.injEq] at h1 h3
  obtain ⟨rfl, _, _⟩ := h1
  obtain ⟨rfl, _, _⟩ := h3
  exact ⟨_, x1, _, x2, e1, h2, e2, h4⟩

/-! ### Discover Versions end to end: C20 ∘ C14 ∘ C07 ∘ C01 ∘ C06 -/
open Kmip.Discover in
theorem wf_dvRequestItem (offer : List Version) (h : ∀ v ∈ offer, v.1 < two32 ∧ v.2 < two32) :
    WFv (.struct KmipGen.sd_RequestBatchItem) (.struct [.one (.enum 30), .one (.bytes []), .dyn (dvReq offer), .one wireZExt]) := by
  simp only [dvReq, WFv, WFflds, WFfv, WFmany, KmipGen.sd_RequestBatchItem, KmipGen.sd_DiscoverVersionsRequest, SD.fields,
    Fld.ignored, Fld.required, Fld.ty, Fld.tag, Fld.skip, Fld.slice]
  refine ⟨⟨trivial, by decide, Or.inr ⟨trivial, by decide⟩⟩, ⟨trivial, by decide, Or.inr ⟨trivial, by decide⟩⟩,
    ⟨trivial, by decide, ?disp, ⟨⟨trivial, by decide, fun h => by simp at h, wf_verVals offer h⟩, trivial⟩⟩,
    ⟨trivial, by decide, Or.inl ⟨trivial, rfl⟩⟩, trivial⟩
  exact ⟨0, _, .one (.enum 30), .enum 30, .mk (.enum 30) true (.struct KmipGen.sd_DiscoverVersionsRequest), rfl, rfl, rfl, rfl, rfl, rfl⟩

open Kmip.Discover in
theorem wf_dvResponseItem (vs : List Version) (h : ∀ v ∈ vs, v.1 < two32 ∧ v.2 < two32) (p : DynV) :
    WFv (.struct KmipGen.sd_ResponseBatchItem)
      (respItem wireZExt { op := 30, uid := [], payload := p } (.success (dvResp vs))) := by
  simp only [respItem, dvResp, WFv, WFflds, WFfv, WFmany, KmipGen.sd_ResponseBatchItem, KmipGen.sd_DiscoverVersionsResponse, SD.fields,
    Fld.ignored, Fld.required, Fld.ty, Fld.tag, Fld.skip, Fld.slice]
  refine ⟨⟨trivial, by decide, Or.inr ⟨trivial, by decide⟩⟩, ⟨trivial, by decide, Or.inr ⟨trivial, by decide⟩⟩,
    ⟨trivial, by decide, Or.inr ⟨trivial, by decide⟩⟩, ⟨trivial, by decide, Or.inr ⟨trivial, by decide⟩⟩,
    ⟨trivial, by decide, Or.inr ⟨trivial, by decide⟩⟩, ⟨trivial, by decide, Or.inr ⟨trivial, by decide⟩⟩,
    ⟨trivial, by decide, ?disp, ⟨⟨trivial, by decide, fun h => by simp at h, wf_verVals vs h⟩, trivial⟩⟩,
    ⟨trivial, by decide, Or.inl ⟨trivial, rfl⟩⟩, trivial⟩
  exact ⟨0, _, .one (.enum 30), .enum 30, .mk (.enum 30) true (.struct KmipGen.sd_DiscoverVersionsResponse), rfl, rfl, rfl, rfl, rfl, rfl⟩

open Kmip.Discover in
theorem dvAnswer_bounded (sup offer : List Version) (hsup : ∀ v ∈ sup, v.1 < two32 ∧ v.2 < two32) :
    ∀ v ∈ dvAnswer sup offer, v.1 < two32 ∧ v.2 < two32 := by
  intro v hv
  cases offer with
  | nil => exact hsup v hv
  | cons o rest =>
    simp only [dvAnswer, matchLoop_eq_filter, List.mem_filter, decide_eq_true_eq] at hv
    exact hsup v hv.2

open Kmip.Discover in
/-- `Client.DiscoverVersions(offer)` against this package's own Server whose SupportedVersions are `sup`, over any transport:
    the request the Client builds goes through Encode, any fragmentation, the Server's Decoder and handleBatch to the built-in
    handler; its answer goes back the same way; and what Send hands to DiscoverVersions is the Discover Versions response
    payload holding EXACTLY the supported versions of the offer, in offer order (the whole list for an empty offer).
    Composes C20 (the handler), C07 (the response built), C14 (what Send returns), C01 (Decode ∘ Encode) and C06 (transport). -/
theorem GenC14_discover_versions_over_any_transport (ver : Nat × Nat) (sup offer : List Version) (clock : Nat)
    (rb sb : Bytes) (srcIn srcOut : Io.Src) (hv1 : ver.1 < two32) (hv2 : ver.2 < two32) (hclock : clock < two64)
    (hoffer : ∀ v ∈ offer, v.1 < two32 ∧ v.2 < two32) (hsup : ∀ v ∈ sup, v.1 < two32 ∧ v.2 < two32)
    (hsq : (canonTop KmipGen.sd_Request (mkRequest wireZExt ver 30 (dvReq offer))).Small = true)
    (heq : encodeSD KmipGen.sd_Request (mkRequest wireZExt ver 30 (dvReq offer)) = .ok rb)
    (hsr : (canonTop KmipGen.sd_Response (respVal wireZNonce wireZExt clock (dvHandler sup) (sendView ver 30 (dvReq offer)))).Small = true)
    (her : encodeSD KmipGen.sd_Response (respVal wireZNonce wireZExt clock (dvHandler sup) (sendView ver 30 (dvReq offer))) = .ok sb)
    (hiIn : (Io.Stack.top srcIn).Inv) (hfIn : srcIn.flat = rb) (hiOut : (Io.Stack.top srcOut).Inv) (hfOut : srcOut.flat = sb) :
    ∃ rv x1 cv x2, Stk.decodeSrc KmipGen.sd_Request srcIn = .ok (rv, rb.length, x1) ∧
      handleBatch wireZNonce wireZExt clock true (dvHandler sup) rv =
        some (respVal wireZNonce wireZExt clock (dvHandler sup) (sendView ver 30 (dvReq offer))) ∧
      Stk.decodeSrc KmipGen.sd_Response srcOut = .ok (cv, sb.length, x2) ∧
      Client.send true true 30 (Client.respView cv) =
        .payload (dvResp (if offer = [] then sup else offer.filter (fun v => decide (v ∈ sup)))) := by
  have hH : dvHandler sup 0 { op := 30, uid := [], payload := normDyn (dvReq offer) } = .success (dvResp (dvAnswer sup offer)) := by
    simp only [dvHandler, normDyn_dvReq, offerOf_dvReq, if_true]
  obtain ⟨rv, x1, cv, x2, h1, h2, h3, h4⟩ := GenC14_e2e_over_any_transport ver 30 (dvReq offer) clock (dvHandler sup) rb sb srcIn srcOut
    hv1 hv2 hclock (wf_dvRequestItem offer hoffer) hsq heq
    (by rw [hH]; exact wf_dvResponseItem _ (dvAnswer_bounded sup offer hsup) _) hsr her hiIn hfIn hiOut hfOut
  refine ⟨rv, x1, cv, x2, h1, h2, h3, ?_⟩
  rw [h4, hH]
  simp only [normDyn_dvResp]
  cases offer with
  | nil => simp [dvAnswer]
  | cons o rest => simp [dvAnswer, matchLoop_eq_filter]

open Kmip.Discover in
/-- non-vacuity: for the offer [1.2, 9.9, 1.4] against the default list, both messages are small and encodable (the hypotheses
    of the theorem above hold), and the answer is [1.2, 1.4] -/
theorem GenC14_example_dv_hypotheses :
    (canonTop KmipGen.sd_Request (mkRequest wireZExt (1, 4) 30 (dvReq [(1, 2), (9, 9), (1, 4)]))).Small = true ∧
    (∃ rb, encodeSD KmipGen.sd_Request (mkRequest wireZExt (1, 4) 30 (dvReq [(1, 2), (9, 9), (1, 4)])) = .ok rb) ∧
    (canonTop KmipGen.sd_Response (respVal wireZNonce wireZExt 1000000000 (dvHandler defaultVersions)
      (sendView (1, 4) 30 (dvReq [(1, 2), (9, 9), (1, 4)])))).Small = true ∧
    (∃ sb, encodeSD KmipGen.sd_Response (respVal wireZNonce wireZExt 1000000000 (dvHandler defaultVersions)
      (sendView (1, 4) 30 (dvReq [(1, 2), (9, 9), (1, 4)]))) = .ok sb) ∧
    (if [(1, 2), (9, 9), (1, 4)] = ([] : List Version) then defaultVersions
      else [(1, 2), (9, 9), (1, 4)].filter (fun v => decide (v ∈ defaultVersions))) = [(1, 2), (1, 4)] := by
  refine ⟨by decide +kernel, ⟨_, rfl⟩, by decide +kernel, ⟨_, rfl⟩, by decide⟩

/-! ### non-vacuity of the hypotheses -/
def exActPayloadV : Val := .struct [.one (.text [97])]
def exActPayload : DynV := .val false (.struct KmipGen.sd_ActivateRequest) exActPayloadV

theorem wire_zeroAuth_eq : FV.one zeroAuth = zeroFld (.mk "Authentication" 0x42000c false false false (.struct KmipGen.sd_Authentication)) := by
  simp [zeroFld, zeroSD, zeroFlds, zeroVal, zeroAuth, KmipGen.sd_Authentication]

/-- non-vacuity: the Request `Client.Send(OPERATION_ACTIVATE, ActivateRequest{UniqueIdentifier: "a"})` builds - zero Authentication, zero
    Message Extension and all - meets the well-formedness hypothesis of `GenC14_e2e_over_the_wire` … -/
theorem GenC14_example_request_wf : WFv (.struct KmipGen.sd_Request) (mkRequest wireZExt (1, 4) 18 exActPayload) := by
  simp only [mkRequest, exActPayload, exActPayloadV, WFv, WFflds, WFfv, WFmany, KmipGen.sd_Request, KmipGen.sd_RequestHeader, KmipGen.sd_RequestBatchItem,
    KmipGen.sd_ProtocolVersion, KmipGen.sd_ActivateRequest, SD.fields,
    Fld.ignored, Fld.required, Fld.ty, Fld.tag, Fld.skip, Fld.slice]
  refine ⟨⟨trivial, by decide, Or.inr ⟨?ver, ?mrs, ?cc, ?sc, ?asy, ?ac, ?att, ?au, ?be, ?bo, ?ts, ?bc, trivial⟩⟩, ⟨trivial, by decide, fun _ => by simp, ⟨?item, trivial⟩ ⟩, trivial⟩
  case ver => exact ⟨trivial, by decide, Or.inr ⟨⟨trivial, by decide, Or.inr ⟨trivial, by decide⟩⟩, ⟨trivial, by decide, Or.inr ⟨trivial, by decide⟩⟩, trivial⟩⟩
  case mrs => exact ⟨trivial, by decide, Or.inr ⟨trivial, by decide⟩⟩
  case cc => exact ⟨trivial, by decide, Or.inr ⟨trivial, by decide⟩⟩
  case sc => exact ⟨trivial, by decide, Or.inr ⟨trivial, by decide⟩⟩
  case asy => exact ⟨trivial, by decide, Or.inr trivial⟩
  case ac => exact ⟨trivial, by decide, Or.inr trivial⟩
  case att => exact ⟨trivial, by decide, fun h => by simp at h, trivial⟩
  case au => exact ⟨trivial, by decide, Or.inl ⟨trivial, wire_zeroAuth_eq⟩⟩
  case be => exact ⟨trivial, by decide, Or.inr ⟨trivial, by decide⟩⟩
  case bo => exact ⟨trivial, by decide, Or.inr trivial⟩
  case ts => exact ⟨trivial, by decide, Or.inr ⟨trivial, by decide⟩⟩
  case bc => exact ⟨trivial, by decide, Or.inr ⟨trivial, by decide⟩⟩
  case item =>
    refine ⟨⟨trivial, by decide, Or.inr ⟨trivial, by decide⟩⟩, ⟨trivial, by decide, Or.inr ⟨trivial, by decide⟩⟩,
      ⟨trivial, by decide, ?disp, ⟨⟨trivial, by decide, Or.inr ⟨trivial, by decide⟩⟩, trivial⟩⟩,
      ⟨trivial, by decide, Or.inl ⟨trivial, rfl⟩⟩, trivial⟩
    exact ⟨0, _, .one (.enum 18), .enum 18, .mk (.enum 18) true (.struct KmipGen.sd_ActivateRequest), rfl, rfl, rfl, rfl, rfl, rfl⟩

/-- … its lengths fit … -/
theorem GenC14_example_request_small : (canonTop KmipGen.sd_Request (mkRequest wireZExt (1, 4) 18 exActPayload)).Small = true := by decide +kernel

/-- … Encode accepts it (120 bytes), so the Server's Decode of those bytes yields a Request that handleBatch answers -/
theorem GenC14_example_request_served (clock : Nat) (H : Nat → ItemIn → HRes) (fin : Fin) :
    ∃ rb rv d1 resp, encodeSD KmipGen.sd_Request (mkRequest wireZExt (1, 4) 18 exActPayload) = .ok rb ∧ rb.length = 120 ∧
      decodeSD KmipGen.sd_Request rb fin = .ok (rv, rb.length, d1) ∧
      handleBatch wireZNonce wireZExt clock true H rv = some resp := by
  obtain ⟨rv, d1, h1, h2, _⟩ := GenC14_e2e_over_the_wire (1, 4) 18 exActPayload clock H _ [] fin .eof
    GenC14_example_request_wf GenC14_example_request_small rfl
  exact ⟨_, rv, d1, _, rfl, by decide +kernel, h1, h2⟩

theorem GenC14_Send_dataflow : KmipGen.flow_Client_Send = ExpectFlow.flow_Client_Send := by decide +kernel
theorem GenC14_request_copies : Wire.under "request".toList KmipGen.flow_Client_Send = Wire.reqFlow := by decide +kernel

/-- which items a Response MUST carry for Decode to accept it (KMIP 1.4 section 7.2 / 6: Protocol Version, Time Stamp and Batch Count
    in the header; Operation and Result Status in every batch item; header and at least one batch item in the message) - the
    schema the Client's Decode works with is regenerated from /repo, so that a mandatory item silently becoming optional is
    noticed: "a well-formed response" is what C14 lets Send return a payload for -/
def requiredNames (sd : SD) : List String := (sd.fields.filter (fun f => f.required)).map (fun f => f.name)

theorem GenC14_response_required :
    requiredNames KmipGen.sd_Response = ["Header", "BatchItems"] ∧
    requiredNames KmipGen.sd_ResponseHeader = ["Version", "TimeStamp", "BatchCount"] ∧
    requiredNames KmipGen.sd_ResponseBatchItem = ["Operation", "ResultStatus"] := by decide +kernel

end Kmip
