import KmipGen.CodecSrc
import KmipModel.ExpectCodec
import KmipModel.Client
import KmipModel.ExpectSkel
import KmipGen.Schema
import KmipGen.Skeleton
/-
  C14, generated obligations: the positions at which the client model reads the decoded Response are the fields
  client.go reads (checked against the schema regenerated from /repo), and the skeletons of Send / DiscoverVersions /
  Connect / Close equal the reviewed ones (in particular: the `c.conn == nil` guard first, every failed check returns,
  the type assertion in DiscoverVersions is the checked two-value form).
-/
namespace Kmip
open Kmip.Client

def fieldNameAt (sd : SD) (i : Nat) : Option String := (sd.fields[i]?).map Fld.name

theorem GenC14_positions :
    fieldNameAt KmipGen.sd_Response posHeader = some "Header" ∧
    fieldNameAt KmipGen.sd_Response posBatchItems = some "BatchItems" ∧
    fieldNameAt KmipGen.sd_ResponseHeader posBatchCount = some "BatchCount" ∧
    fieldNameAt KmipGen.sd_ResponseBatchItem posOperation = some "Operation" ∧
    fieldNameAt KmipGen.sd_ResponseBatchItem posResultStatus = some "ResultStatus" ∧
    fieldNameAt KmipGen.sd_ResponseBatchItem posResultReason = some "ResultReason" ∧
    fieldNameAt KmipGen.sd_ResponseBatchItem posResultMessage = some "ResultMessage" ∧
    fieldNameAt KmipGen.sd_ResponseBatchItem posResponsePayload = some "ResponsePayload" := by decide

theorem GenC14_send_skeleton : KmipGen.skel_Client_Send = ExpectSkel.skel_Client_Send := by decide
theorem GenC14_discover_skeleton : KmipGen.skel_Client_DiscoverVersions = ExpectSkel.skel_Client_DiscoverVersions := by decide
theorem GenC14_connect_skeleton : KmipGen.skel_Client_Connect = ExpectSkel.skel_Client_Connect := by decide
theorem GenC14_close_skeleton : KmipGen.skel_Client_Close = ExpectSkel.skel_Client_Close := by decide

end Kmip

/-
  Codec source tie (re-checked against /repo's current source on every run): the normalised source of every function of
  the groups below, as kvscan reads it from /repo now, is the text the model was validated against (KmipModel/ExpectCodec.lean;
  readable form in KmipModel/ExpectCodecSrc.txt). See harness/cmd/kvscan/srcdigest.go for the normalisation.
-/
namespace Kmip

/-- protocol errors (errors.go) -/
theorem GenC14_codec_src_err : KmipGen.codecSrc_err = ExpectCodec.codecSrc_err := by decide

end Kmip

namespace Kmip

/-- decoder (decode.go, decode_core.go): the server / client acts on what Decode returns -/
theorem GenC14_codec_src_dec : KmipGen.codecSrc_dec = ExpectCodec.codecSrc_dec := by decide

/-- struct descriptors (fields.go, types.go) -/
theorem GenC14_codec_src_desc : KmipGen.codecSrc_desc = ExpectCodec.codecSrc_desc := by decide

/-- dynamic dispatch (BuildFieldValue methods) -/
theorem GenC14_codec_src_disp : KmipGen.codecSrc_disp = ExpectCodec.codecSrc_disp := by decide

end Kmip
