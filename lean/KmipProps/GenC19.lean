import KmipGen.CodecSrc
import KmipModel.ExpectCodec
import KmipProofs.SpecKeys
import KmipGen.Schema
/-
  C19 — modelled KMIP structures use the tag and nesting the spec assigns to each field.
  Left: regenerated from /repo by reflection on the real struct types (every annotated field with the
  number its annotation resolves to through the real Encode; every tag under which values of a struct
  type get written).  Right: KmipModel/SpecStructs.lean, transcribed from KMIP 1.4 independently of the
  annotations, resolved through the registry (certified in KmipProofs/SpecKeys.lean).
-/
namespace Kmip
open Kmip.Expect

/-- every one of the 195 annotated fields, in order, carries the tag number KMIP 1.4 assigns to that item
    (the one field the package never puts on the wire, MessageExtension.VendorExtension, carries the any-tag marker) -/
theorem GenC19_fields :
    KmipGen.fieldTableK = expectedFieldRows SpecKeys.offWire SpecKeys.fields := by decide +kernel

/-- nesting: wherever values of a struct type are written, the enclosing tag is the structure KMIP 1.4 puts
    directly around that type's items — except for the recorded deviations (known findings) -/
theorem GenC19_nesting :
    ((nestingBad SpecKeys.fields KmipGen.holdersK).all fun d => SpecKeys.knownNesting.contains d) = true := by
  decide +kernel

theorem GenC19_counts : KmipGen.numTypes = 58 ∧ KmipGen.numFields = 195 := by decide

end Kmip

/-
  Codec source tie (re-checked against /repo's current source on every run): the normalised source of every function of
  the groups below, as kvscan reads it from /repo now, is the text the model was validated against (KmipModel/ExpectCodec.lean;
  readable form in KmipModel/ExpectCodecSrc.txt). See harness/cmd/kvscan/srcdigest.go for the normalisation.
-/
namespace Kmip

/-- struct descriptors (fields.go, types.go) -/
theorem GenC19_codec_src_desc : KmipGen.codecSrc_desc = ExpectCodec.codecSrc_desc := by decide

/-- encoder (encode.go, encode_core.go): it is the encoder that puts each field's item inside its structure's length -/
theorem GenC19_codec_src_enc : KmipGen.codecSrc_enc = ExpectCodec.codecSrc_enc := by decide

end Kmip
