import KmipModel.Tls
import KmipProps.C09
/-
  C16 — the default TLS configuration enforces mutual authentication and TLS ≥ 1.2.
  crypto/tls itself is an assumption (Tls.serverHandshakeOk / clientHandshakeOk), validated against the real library by
  the peer matrix; what is proved: the defaults are set whatever the configuration held before, and a failed handshake
  is a gate in front of every callback, handler and response.
-/
namespace Kmip.Tls
open Kmip.Session

/-- for every prior content of the configuration, the server defaults demand TLS ≥ 1.2 and a verified client certificate -/
theorem C16_server_defaults (c : Cfg) :
    (defaultServer c).minVersion = tls12 ∧ (defaultServer c).clientAuth = requireAndVerify ∧
    (defaultServer c).maxVersion = c.maxVersion ∧ (defaultServer c).insecureSkipVerify = c.insecureSkipVerify := by
  simp [defaultServer]

theorem C16_client_defaults (c : Cfg) :
    (defaultClient c).minVersion = tls12 ∧ (defaultClient c).insecureSkipVerify = c.insecureSkipVerify ∧
    (defaultClient c).clientAuth = c.clientAuth := by
  simp [defaultClient]

/-- which peers get through a server prepared by DefaultServerTLSConfig: exactly TLS ≥ 1.2 with a verifying certificate -/
theorem C16_server_accepts_iff (c : Cfg) (p : Peer) :
    serverHandshakeOk (defaultServer c) p = true ↔
      p.plaintext = false ∧ tls12 ≤ p.maxVersion ∧ (p.cert = .valid ∨ p.cert = .wrongHost) := by
  simp [serverHandshakeOk, defaultServer, requireAndVerify, and_assoc, decide_eq_true_eq]
  intro _ _; exact decide_eq_true_iff

theorem C16_client_accepts_iff (c : Cfg) (p : Peer) (h : c.insecureSkipVerify = false) :
    clientHandshakeOk (defaultClient c) p = true ↔ p.plaintext = false ∧ tls12 ≤ p.maxVersion ∧ p.cert = .valid := by
  simp [clientHandshakeOk, defaultClient, h, and_assoc]

/-- gate: on a TLS connection whose handshake fails, the session's trace is the deadline arming, the failed handshake and
    close: no session-auth callback, no request is read, no request-auth callback, no handler, no response -/
theorem C16_gate (cfg : Session.Cfg) (arrs : List Arrival) (ht : cfg.tls = true) (hf : cfg.handshakeOk = false) :
    session cfg arrs = handshakeEvs cfg ++ [Ev.close] ∧
    ∀ e ∈ session cfg arrs, e.isCall = false ∧ e.isRespond = false ∧ e.isDecode = false ∧
      (∀ ok, e ≠ Ev.sessionAuth ok) ∧ (∀ k ok, e ≠ Ev.requestAuth k ok) := by
  have hs : session cfg arrs = handshakeEvs cfg ++ [Ev.close] := by simp [session, ht, hf]
  refine ⟨hs, ?_⟩
  intro e he
  rw [hs] at he
  simp only [List.mem_append, List.mem_singleton] at he
  rcases he with he | he
  · rcases handshakeEvs_mem cfg e he with h | h | h <;> subst h <;> simp [Ev.isCall, Ev.isRespond, Ev.isDecode]
  · subst he; simp [Ev.isCall, Ev.isRespond, Ev.isDecode]

/-- composed: a server whose TLS configuration went through DefaultServerTLSConfig serves KMIP only to peers that completed
    a TLS 1.2+ handshake with a verifying certificate — for any other peer nothing but the handshake and close happens -/
theorem C16_default_server_gate (c : Cfg) (p : Peer) (cfg : Session.Cfg) (arrs : List Arrival) (ht : cfg.tls = true)
    (hh : cfg.handshakeOk = serverHandshakeOk (defaultServer c) p)
    (hbad : p.plaintext = true ∨ p.maxVersion < tls12 ∨ (p.cert ≠ .valid ∧ p.cert ≠ .wrongHost)) :
    session cfg arrs = handshakeEvs cfg ++ [Ev.close] := by
  have : serverHandshakeOk (defaultServer c) p = false := by
    cases h : serverHandshakeOk (defaultServer c) p
    · rfl
    · rw [C16_server_accepts_iff] at h
      rcases hbad with hb | hb | hb
      · simp [h.1] at hb
      · omega
      · rcases h.2.2 with h3 | h3 <;> simp [h3] at hb
  exact (C16_gate cfg arrs ht (by rw [hh, this])).1

example : serverHandshakeOk (defaultServer ⟨tls10, 0, 0, false, false⟩) ⟨.selfSigned, tls13, false⟩ = false ∧
          serverHandshakeOk (defaultServer ⟨tls10, 0, 0, false, false⟩) ⟨.valid, tls11, false⟩ = false ∧
          serverHandshakeOk (defaultServer ⟨tls10, 0, 0, false, false⟩) ⟨.valid, tls12, false⟩ = true := by decide

end Kmip.Tls
