import KmipModel.ExpectSkel
import KmipGen.Skeleton
/-
  C08, generated obligations: the operation skeletons of the server functions the session model mirrors, regenerated
  from /repo's server.go on every run, equal the reviewed expectations.
-/
namespace Kmip
theorem GenC08_serve_skeleton : KmipGen.skel_Server_serve = ExpectSkel.skel_Server_serve := by decide
theorem GenC08_handleBatch_skeleton : KmipGen.skel_Server_handleBatch = ExpectSkel.skel_Server_handleBatch := by decide
theorem GenC08_handleWrapped_skeleton : KmipGen.skel_Server_handleWrapped = ExpectSkel.skel_Server_handleWrapped := by decide
end Kmip
