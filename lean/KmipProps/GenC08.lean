import KmipGen.CodecSrc
import KmipModel.ExpectCodec
import KmipModel.ExpectSkel
import KmipGen.Skeleton
import KmipGen.Dataflow
import KmipModel.ExpectFlow
/-
  C08, generated obligations: the operation skeletons of the server functions the session model mirrors, regenerated
  from /repo's server.go on every run, equal the reviewed expectations.
-/
namespace Kmip
theorem GenC08_serve_skeleton : KmipGen.skel_Server_serve = ExpectSkel.skel_Server_serve := by decide
theorem GenC08_handleBatch_skeleton : KmipGen.skel_Server_handleBatch = ExpectSkel.skel_Server_handleBatch := by decide
theorem GenC08_handleWrapped_skeleton : KmipGen.skel_Server_handleWrapped = ExpectSkel.skel_Server_handleWrapped := by decide
/-- how handlers get into the table `handleWrapped` looks them up in: `Handle`, and the built-in entry `initHandlers` installs once -/
theorem GenC08_Handle_skeleton : KmipGen.skel_Server_Handle = ExpectSkel.skel_Server_Handle := by decide
theorem GenC08_initHandlers_skeleton : KmipGen.skel_Server_initHandlers = ExpectSkel.skel_Server_initHandlers := by decide
end Kmip

/-
  Codec source tie (re-checked against /repo's current source on every run): the normalised source of every function of
  the groups below, as kvscan reads it from /repo now, is the text the model was validated against (KmipModel/ExpectCodec.lean;
  readable form in KmipModel/ExpectCodecSrc.txt). See harness/cmd/kvscan/srcdigest.go for the normalisation.
-/
namespace Kmip

/-- protocol errors (errors.go) -/
theorem GenC08_codec_src_err : KmipGen.codecSrc_err = ExpectCodec.codecSrc_err := by decide

theorem GenC08_handleBatch_dataflow : KmipGen.flow_Server_handleBatch = ExpectFlow.flow_Server_handleBatch := by decide +kernel
theorem GenC08_handleWrapped_dataflow : KmipGen.flow_Server_handleWrapped = ExpectFlow.flow_Server_handleWrapped := by decide +kernel

end Kmip
