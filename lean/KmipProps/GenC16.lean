import KmipModel.Tls
import KmipModel.ExpectSkel
import KmipGen.TlsDefaults
import KmipGen.Skeleton
import KmipGen.CodecSrc
import KmipModel.ExpectCodec
/-
  C16, generated obligations: the results of the REAL DefaultServerTLSConfig / DefaultClientTLSConfig on six probe
  configurations (zero, weak, strong, InsecureSkipVerify set, SSL 3.0, …), regenerated on every run, equal the model's
  functions applied to the same inputs; the functions' skeletons set exactly the fields the model sets; and in `serve`
  a handshake error returns before the session-auth callback (skeleton shared with C07).
-/
namespace Kmip
open Kmip.Tls

def ofTuple : Nat × Nat × Nat × Bool × Bool → Tls.Cfg
  | (mn, mx, ca, ins, pref) => ⟨mn, mx, ca, ins, pref⟩

theorem GenC16_defaults_match :
    (KmipGen.tlsDefaults.all fun (role, before, after) =>
      if role == "server" then decide (defaultServer (ofTuple before) = ofTuple after)
      else decide (defaultClient (ofTuple before) = ofTuple after)) = true := by decide

theorem GenC16_probe_count : KmipGen.tlsDefaults.length = 12 := by decide

theorem GenC16_server_skeleton : KmipGen.skel_DefaultServerTLSConfig = ExpectSkel.skel_DefaultServerTLSConfig := by decide
theorem GenC16_client_skeleton : KmipGen.skel_DefaultClientTLSConfig = ExpectSkel.skel_DefaultClientTLSConfig := by decide
theorem GenC16_serve_skeleton : KmipGen.skel_Server_serve = ExpectSkel.skel_Server_serve := by decide
theorem GenC16_connect_skeleton : KmipGen.skel_Client_Connect = ExpectSkel.skel_Client_Connect := by decide
/-- `ListenAndServe` is where the Server's tls.Config meets the listener: whatever it does to the configuration is part of C16 -/
theorem GenC16_listenAndServe_skeleton : KmipGen.skel_Server_ListenAndServe = ExpectSkel.skel_Server_ListenAndServe := by decide
/-- everything in tls.go (normalised source, see kvscan/srcdigest.go): the two Default… functions and any helper beside them -/
theorem GenC16_src_tls : KmipGen.codecSrc_tls = ExpectCodec.codecSrc_tls := by decide

end Kmip
