import KmipModel.Client
import KmipProofs.WireLemmas
import KmipProofs.DecodeBasic
import KmipProps.C06
/-
  C14 — the Client returns a payload only for a matching successful reply, and never panics.
-/
namespace Kmip.Client

/-- `send` on a connected client whose request was written, spelled out by cases on the reply -/
theorem send_cases (op : Nat) (r : RespView) :
    send true true op (some r) =
      if r.batchCount = 1 then
        match r.items with
        | [it] => if it.op = op then (if it.status = statusSuccess then .payload it.payload else .failure it.reason it.msg) else .error
        | [] => .error
        | _ :: _ :: _ => .error
      else .error := by
  unfold send
  by_cases hb : r.batchCount = 1
  · simp only [hb]
    rcases hi : r.items with _ | ⟨it, _ | ⟨it2, rest⟩⟩ <;> simp
  · simp [hb]

/-- a payload is returned exactly when: connected, the request was written, the reply decoded to a response with batch
    count 1 whose single item has the requested operation and status Success — and then it is that item's payload -/
theorem C14_payload_iff (connected encoded : Bool) (op : Nat) (reply : Option RespView) :
    (∃ q, send connected encoded op reply = .payload q) ↔
      connected = true ∧ encoded = true ∧ ∃ r it, reply = some r ∧ r.batchCount = 1 ∧ r.items = [it] ∧ it.op = op ∧ it.status = statusSuccess := by
  constructor
  · rintro ⟨q, h⟩
    cases connected
    · simp [send] at h
    cases encoded
    · simp [send] at h
    cases reply with
    | none => simp [send] at h
    | some r =>
      rw [send_cases] at h
      by_cases hb : r.batchCount = 1
      · rw [if_pos hb] at h
        rcases hi : r.items with _ | ⟨it, _ | ⟨it2, rest⟩⟩
        · simp [hi] at h
        · simp only [hi] at h
          by_cases ho : it.op = op
          · rw [if_pos ho] at h
            by_cases hs : it.status = statusSuccess
            · exact ⟨rfl, rfl, r, it, rfl, hb, hi, ho, hs⟩
            · rw [if_neg hs] at h; simp at h
          · rw [if_neg ho] at h; simp at h
        · simp [hi] at h
      · rw [if_neg hb] at h; simp at h
  · rintro ⟨hc, he, r, it, hr, hb, hi, ho, hs⟩
    subst hc he hr
    exact ⟨it.payload, by rw [send_cases]; simp [hb, hi, ho, hs]⟩

theorem C14_payload_is_items (op : Nat) (r : RespView) (q : DynV)
    (h : send true true op (some r) = .payload q) : ∃ it, r.items = [it] ∧ q = it.payload := by
  rw [send_cases] at h
  by_cases hb : r.batchCount = 1
  · rw [if_pos hb] at h
    rcases hi : r.items with _ | ⟨it, _ | ⟨it2, rest⟩⟩
    · simp [hi] at h
    · simp only [hi] at h
      by_cases ho : it.op = op
      · rw [if_pos ho] at h
        by_cases hs : it.status = statusSuccess
        · rw [if_pos hs] at h; simp at h; exact ⟨it, rfl, h.symm⟩
        · rw [if_neg hs] at h; simp at h
      · rw [if_neg ho] at h; simp at h
    · simp [hi] at h
  · rw [if_neg hb] at h; simp at h

/-- when the single matching item reports any status other than Success, the error carries the server's reason and message -/
theorem C14_failure_carries_reason (op : Nat) (r : RespView) (it : ItemView)
    (hb : r.batchCount = 1) (hi : r.items = [it]) (ho : it.op = op) (hs : it.status ≠ statusSuccess) :
    send true true op (some r) = .failure it.reason it.msg := by
  rw [send_cases]; simp [hb, hi, ho, hs]

/-- every other case is an error: not connected, request not written, reply undecodable, wrong batch count, wrong number
    of items, operation mismatch -/
theorem C14_error_otherwise (connected encoded : Bool) (op : Nat) (reply : Option RespView)
    (h : connected = false ∨ encoded = false ∨ reply = none ∨
         (∃ r, reply = some r ∧ (r.batchCount ≠ 1 ∨ r.items.length ≠ 1 ∨ ∃ it, r.items = [it] ∧ it.op ≠ op))) :
    send connected encoded op reply = .error := by
  rcases h with h | h | h | ⟨r, hr, h⟩
  · simp [send, h]
  · cases connected <;> simp [send, h]
  · cases connected <;> cases encoded <;> simp [send, h]
  · subst hr
    cases connected
    · simp [send]
    cases encoded
    · simp [send]
    rw [send_cases]
    rcases h with h | h | ⟨it, hi, ho⟩
    · simp [h]
    · rcases hi : r.items with _ | ⟨it, _ | ⟨it2, rest⟩⟩
      · simp
      · simp [hi] at h
      · simp
    · simp [hi, ho]

theorem C14_not_connected (encoded : Bool) (op : Nat) (reply : Option RespView) : send false encoded op reply = .error := by
  simp [send]

/-- DiscoverVersions returns versions only when Send returned a payload that IS a DiscoverVersionsResponse; a Success reply
    without payload (or with another payload type) is an error, not a panic -/
theorem C14_discover_checked (isDV : DynV → Bool) (r : SendResult) (q : DynV)
    (h : discoverVersions isDV r = .payload q) : r = .payload q ∧ isDV q = true := by
  cases r with
  | payload p =>
    simp only [discoverVersions] at h
    split at h
    · rename_i hp; simp at h; subst h; exact ⟨rfl, hp⟩
    · simp at h
  | failure a b => simp [discoverVersions] at h
  | error => simp [discoverVersions] at h

/-- no panic: for every possible reply — any bytes, cut off anywhere — Decode of the reply does not panic (C03), and `send` /
    `discoverVersions` are total functions of its outcome -/
theorem C14_no_panic (sd : SD) (bs : Bytes) (fin : Fin) : ∀ s, decodeTop (.ptrStruct sd) bs fin ≠ .panic s :=
  decodeTop_np _ bs fin

example : send true true 30 (some { batchCount := 1, items := [{ op := 30, status := 0, reason := 0, msg := [], payload := .nil }] }) = .payload .nil := rfl

/-! ### connection states: whatever a caller does with a Client, Send refuses unless connected and never dereferences nil -/

namespace Client

/-- the invariant client.go maintains: a non-nil connection comes with its encoder and decoder -/
def CInv (s : CState) : Prop := s.conn = true → s.codec = true

theorem cinv_fresh : CInv CState.fresh := by simp [CInv, CState.fresh]

theorem cinv_step (s : CState) (op : COp) (h : CInv s) : CInv (cstep s op).1 := by
  cases op with
  | connect r => cases r <;> simp [cstep, CInv]
  | close => simp [cstep, CInv]
  | send =>
    simp only [cstep]
    by_cases hc : s.conn = true
    · by_cases hd : s.codec = true
      · simp [hc, hd]; exact h
      · simp [hc, hd]; exact h
    · simp [hc]; exact h

theorem cinv_run : ∀ (ops : List COp) (s : CState), CInv s → CInv (crun s ops).1
  | [], s, h => h
  | op :: ops, s, h => by
    simp only [crun]
    exact cinv_run ops _ (cinv_step s op h)

/-- no operation of any history panics -/
theorem C14_states_no_panic : ∀ (ops : List COp) (s : CState), CInv s → COut.panic ∉ (crun s ops).2
  | [], s, _ => by simp [crun]
  | op :: ops, s, h => by
    simp only [crun, List.mem_cons, not_or]
    refine ⟨?_, C14_states_no_panic ops _ (cinv_step s op h)⟩
    cases op with
    | connect r => cases r <;> simp [cstep]
    | close => simp [cstep]
    | send =>
      simp only [cstep]
      by_cases hc : s.conn = true
      · have := h hc
        simp [hc, this]
      · simp [hc]

/-- Send returns an error whenever the last Connect failed or Close was called since (or Connect was never called) -/
theorem C14_send_refused_unless_connected (s : CState) (h : s.conn = false) : (cstep s .send).2 = .err := by
  simp [cstep, h]

theorem C14_connect_failure_disconnects (s : CState) : (cstep s (.connect false)).1.conn = false ∧ (cstep s (.connect false)).2 = .err := by
  simp [cstep]

theorem C14_close_disconnects_and_is_idempotent (s : CState) :
    (cstep s .close).1.conn = false ∧ (cstep s .close).2 = .ok ∧ cstep (cstep s .close).1 .close = ((cstep s .close).1, .ok) := by
  simp [cstep]

/-- for every history starting from a fresh Client: no panic anywhere -/
theorem C14_fresh_history_safe (ops : List COp) : COut.panic ∉ (crun CState.fresh ops).2 :=
  C14_states_no_panic ops _ cinv_fresh

end Client

/-! ### the reply as it arrives from the transport -/

/-- what `Send` makes of a reply stream read through the Client's Decoder (its bufio over the TLS connection, delivering the
    bytes in whatever records and reads it likes): Decode into a Response of descriptor `sd`, then the checks of `send` -/
def sendOver (sd : SD) (op : Nat) (src : Io.Src) : SendResult :=
  send true true op (match Stk.decodeSrc sd src with
    | .ok (v, _, _) => respView v
    | _ => none)

def sendFlat (sd : SD) (op : Nat) (bs : Bytes) (fin : Fin) : SendResult :=
  send true true op (match decodeSD sd bs fin with
    | .ok (v, _, _) => respView v
    | _ => none)

/-- the outcome of `Send` is a function of the bytes of the reply, not of how the transport delivers them: however the reply is
    cut into reads (guard `Stack.Inv`), `Send` returns what it returns on the flat bytes - so every statement above about
    `send` on a decoded reply holds for the reply as it comes off the wire -/
theorem C14_send_transport_independent (sd : SD) (op : Nat) (src : Io.Src) (hi : (Io.Stack.top src).Inv) :
    sendOver sd op src = sendFlat sd op src.flat src.fin := by
  have hv := C06_decode_over_any_chunking sd src hi
  unfold sendOver sendFlat
  cases hS : Stk.decodeSrc sd src with
  | ok r =>
    obtain ⟨v, n, x⟩ := r
    cases hD : decodeSD sd src.flat src.fin with
    | ok r' =>
      obtain ⟨v', n', d'⟩ := r'
      rw [hS, hD] at hv
      simp only [viewS, viewD, Outcome.ok.injEq, Prod.mk.injEq] at hv
      simp only [hv.1]
    | err e => rw [hS, hD] at hv; simp [viewS, viewD] at hv
    | panic p => rw [hS, hD] at hv; simp [viewS, viewD] at hv
  | err e =>
    cases hD : decodeSD sd src.flat src.fin with
    | ok r' => rw [hS, hD] at hv; simp [viewS, viewD] at hv
    | err e' => rfl
    | panic p => rfl
  | panic p =>
    cases hD : decodeSD sd src.flat src.fin with
    | ok r' => rw [hS, hD] at hv; simp [viewS, viewD] at hv
    | err e' => rfl
    | panic p' => rfl

end Kmip.Client

/-! ### end to end, at the level of message values (KmipModel/Wire.lean) -/
namespace Kmip.Wire
open Kmip

/-- **Client.Send against the package's own Server.**  The Request `Send(op, payload)` builds, handed to handleBatch (no
    credentials are sent, so the authentication gate is open), yields a Response of which `Send` returns exactly the outcome of
    the handler that ran for the one item: its payload on success, its result reason and message on failure - for every
    operation, payload, protocol version, clock and handler. -/
theorem C14_e2e_send (zNonce zExt : Val) (clock : Nat) (authOk : Bool) (H : Nat → ItemIn → HRes) (ver : Nat × Nat) (op : Nat) (p : DynV) :
    Client.send true true op ((handleBatch zNonce zExt clock authOk H (mkRequest zExt ver op p)).bind Client.respView) =
      (match H 0 { op := op, uid := [], payload := p } with
       | .success q => .payload q
       | .failed r m => .failure r m) := by
  unfold handleBatch
  rw [reqView_mkRequest]
  simp only [List.length_cons, List.length_nil, Nat.zero_add, ne_eq, not_true_eq_false, false_or, Nat.reduceLeDiff,
    Bool.false_eq_true, ↓reduceIte, false_and, Option.bind_some]
  rw [respView_respVal]
  simp only [Client.send, viewsOf, Bool.not_true, Bool.false_eq_true, ↓reduceIte, ne_eq, not_true_eq_false]
  cases H 0 { op := op, uid := [], payload := p } with
  | success q => simp [viewOf, statusSuccess, Client.statusSuccess]
  | failed r m => simp [viewOf, statusFailed, statusSuccess, Client.statusSuccess]

end Kmip.Wire
