import KmipGen.CodecSrc
import KmipModel.ExpectCodec
import KmipGen.Schema
import KmipModel.DecodeCost

/-
  Codec source tie (re-checked against /repo's current source on every run): the normalised source of every function of
  the groups below, as kvscan reads it from /repo now, is the text the model was validated against (KmipModel/ExpectCodec.lean;
  readable form in KmipModel/ExpectCodecSrc.txt). See harness/cmd/kvscan/srcdigest.go for the normalisation.
-/
namespace Kmip

/-- decoder (decode.go, decode_core.go) -/
theorem GenC05_codec_src_dec : KmipGen.codecSrc_dec = ExpectCodec.codecSrc_dec := by decide

/-- struct descriptors (fields.go, types.go) -/
theorem GenC05_codec_src_desc : KmipGen.codecSrc_desc = ExpectCodec.codecSrc_desc := by decide

/-- dynamic dispatch (BuildFieldValue methods) -/
theorem GenC05_codec_src_disp : KmipGen.codecSrc_disp = ExpectCodec.codecSrc_disp := by decide

/-- the hypothesis of `C05_decode_cost_linear` for the types /repo declares NOW: no structure the translator finds - at any
    depth, behind any dispatch table - has more than 64 annotated fields (so that the 8 header bytes of a structure pay for its
    freshly built descriptor) -/
theorem GenC05_schemas_narrow : KmipGen.allSchemas.all (fun sd => Cost.SD.narrow Cost.width sd) = true := by
  decide +kernel

end Kmip
