import KmipProofs.EncodeSafe
import KmipProofs.DecodeBasic
/-
  C13 — Encode/Decode never panic on the Go value given; a failed Encode writes nothing.
  The domain is the widened one: `DynV` includes nil, typed-nil pointers, pointer-to-pointer, foreign scalars, maps, slices,
  functions, structs with unknown tag names or unsupported field types (`FTy.unsupported` fields), at the top level and at
  every interface-typed position; `Target` includes nil, non-pointers, nil pointers, pointers to non-structs.
  `Shaped` is only what Go's static typing guarantees (a field of Go type T holds a T).
-/
namespace Kmip

/-- Encode returns a complete message or an error, never panics — for every Go value -/
theorem C13_encode_no_panic (d : DynV) (h : ShapedDyn d = true) : ∀ s, encodeTop d ≠ .panic s :=
  encodeTop_np d h

/-- Decode returns an error rather than panicking for any target and any bytes -/
theorem C13_decode_no_panic (t : Target) (bs : Bytes) (fin : Fin) : ∀ s, decodeTop t bs fin ≠ .panic s :=
  decodeTop_np t bs fin

/-- what reaches the destination writer: the whole message on success, nothing otherwise (every field is encoded into a
    temporary buffer before the first write to the destination; encode.go `encode`) -/
def encodeTo (written : Bytes) (d : DynV) : Outcome Unit × Bytes :=
  match encodeTop d with
  | .ok b => (.ok (), written ++ b)
  | .err e => (.err e, written)
  | .panic s => (.panic s, written)

theorem C13_failed_writes_nothing (w : Bytes) (d : DynV) (e : ErrClass) (h : (encodeTo w d).1 = .err e) :
    (encodeTo w d).2 = w := by
  unfold encodeTo at h ⊢
  cases he : encodeTop d <;> simp_all

/-- the kinds of value the property names are all rejected with an error (not merely "not a panic") -/
theorem C13_bad_values_are_errors (k : BadKind) : encodeTop (.bad k) = .err .other ∧ encodeTop .nil = .err .other := by
  cases k <;> simp [encodeTop]

theorem C13_bad_targets_are_errors (bs : Bytes) (fin : Fin) :
    decodeTop .nil bs fin = .err .other ∧ decodeTop .nonPointer bs fin = .err .other ∧
    decodeTop .nilPointer bs fin = .err .other ∧ decodeTop .ptrNonStruct bs fin = .err .other := by
  simp [decodeTop]

/-- a struct whose descriptor cannot be built (unknown tag name / unsupported field type) is an error for both directions -/
theorem C13_bad_annotations_are_errors (sd : SD) (fs : List FV) (p : Bool) (bs : Bytes) (fin : Fin) (h : sd.descOk = false) :
    encodeTop (.val p (.struct sd) (.struct fs)) = .err .other ∧ decodeTop (.ptrStruct sd) bs fin = .err .other := by
  constructor
  · simp [encodeTop, encVal, h]
  · simp [decodeTop, h]

/-- an ill-typed value at an interface-typed position makes the whole Encode fail with an error -/
theorem C13_bad_dynamic_is_error (f : Fld) (k : BadKind) : encFV f (.dyn (.bad k)) = .err .other := by
  simp [encFV]

example : ShapedDyn (.val true (.struct (.mk "T" 1 [.mk "V" 2 true false false (.dyn 0 [])])) (.struct [.dyn (.bad .map)])) = true := by decide

end Kmip
