import KmipProofs.DecodeSpec
/-
  C04 — Decode accepts exactly the well-formed encodings and reports what they denote.

  Model : `decodeSD` (KmipModel/Decode.lean): the Go-shaped decoder — one-tag lookahead in which 0 means "nothing buffered",
          a nested limit reader per structure, an `int` byte count and a `uint32` accumulator compared with the declared length.
  Spec  : `specDecode` (KmipModel/Spec.lean): an independent reader/schema matcher without any of that state — it cuts items
          by their declared lengths (failing when an item does not fit), requires fixed-size types to have their mandated
          lengths and booleans to be 0/1, matches fields in order (required: must be the head item; optional: taken iff the
          head item carries its tag; sequence: maximal run; skip: opaque), and requires that nothing remains in any structure.
  C04_equiv proves they accept the same inputs with the same value and length, for EVERY schema and EVERY byte string.
-/
namespace Kmip

/-- the refinement, both directions at once: Decode succeeds with value `v` having consumed `n` bytes
    if and only if the specification reads `v` from the first `n` bytes -/
theorem C04_equiv (sd : SD) (bs : Bytes) (fin : Fin) (v : Val) (n : Nat) :
    (∃ d', decodeSD sd bs fin = .ok (v, n, d')) ↔ specDecode sd bs = some (v, n) := by
  unfold decodeSD decodeTop specDecode
  by_cases hd : sd.descOk = true
  · simp only [hd, if_true]
    have hS := (S_spec sd sd.tag).iff bs fin v n
    constructor
    · rintro ⟨d', h⟩
      obtain ⟨r', hs, _, hn⟩ := (hS d').mp h
      rw [hs]; simp; omega
    · intro h
      cases hs : specStruct sd.tag sd bs with
      | none => rw [hs] at h; simp at h
      | some x =>
        obtain ⟨v', rest⟩ := x
        rw [hs] at h
        simp only [Option.some.injEq, Prod.mk.injEq] at h
        obtain ⟨e1, e2⟩ := h
        subst e1
        have hsh := specStruct_shrinks sd.tag sd bs v' rest hs
        exact ⟨⟨rest, fin, 0⟩, (hS _).mpr ⟨rest, hs, rfl, by omega⟩⟩
  · simp [hd]

/-- soundness half, spelled out: whenever Decode returns nil, the specification accepts the consumed bytes with that value -/
theorem C04_sound (sd : SD) (bs : Bytes) (fin : Fin) (v : Val) (n : Nat) (d' : Dec)
    (h : decodeSD sd bs fin = .ok (v, n, d')) : specDecode sd bs = some (v, n) :=
  (C04_equiv sd bs fin v n).mp ⟨d', h⟩

/-- completeness half: every byte string the specification accepts — canonical or not (spelled-out zero fields, any padding
    bytes) — is accepted by Decode with the value it denotes -/
theorem C04_complete (sd : SD) (bs : Bytes) (fin : Fin) (v : Val) (n : Nat)
    (h : specDecode sd bs = some (v, n)) : ∃ d', decodeSD sd bs fin = .ok (v, n, d') :=
  (C04_equiv sd bs fin v n).mpr h

/-- what is accepted depends only on the first `n` bytes … -/
theorem spec_header (sd : SD) (bs : Bytes) (v : Val) (n : Nat) (h : specDecode sd bs = some (v, n)) :
    ∃ t ty E body, cutHeader bs = some (t, ty, E, body) ∧ n = 8 + E ∧ E ≤ body.length ∧ ty = structCode ∧ tagOk sd.tag t = true := by
  unfold specDecode at h
  split at h
  · cases sd with
    | mk nm t0 fields =>
      cases hs : specStruct (SD.mk nm t0 fields).tag (SD.mk nm t0 fields) bs with
      | none => rw [hs] at h; simp at h
      | some x =>
        obtain ⟨v', rest⟩ := x
        rw [hs] at h
        simp only [Option.some.injEq, Prod.mk.injEq] at h
        obtain ⟨_, e2⟩ := h
        simp only [specStruct, Option.bind_eq_some_iff] at hs
        obtain ⟨⟨t', ty, l, payload, rest'⟩, hc, hs⟩ := hs
        rw [cutStruct_eq] at hc
        cases hh : cutHeader bs with
        | none => rw [hh] at hc; simp at hc
        | some y =>
          obtain ⟨t2, ty2, E, body⟩ := y
          rw [hh] at hc
          have hb := (cutHeader_some bs t2 ty2 E body hh).2.2.2.2.2
          simp only at hc
          by_cases hfit : E ≤ body.length
          · rw [if_pos hfit] at hc
            simp only [Option.some.injEq, Prod.mk.injEq] at hc
            obtain ⟨e1', e2', e3', e4', e5'⟩ := hc
            subst e1' e2' e3' e4' e5'
            simp only at hs
            split at hs
            · rename_i hcond
              rw [Option.bind_eq_some_iff] at hs
              obtain ⟨_, _, hs⟩ := hs
              split at hs
              · simp only [Option.some.injEq, Prod.mk.injEq] at hs
                refine ⟨t2, ty2, E, body, rfl, ?_, hfit, hcond.2, hcond.1⟩
                rw [← e2, ← hs.2]; simp; omega
              · simp at hs
            · simp at hs
          · rw [if_neg hfit] at hc; simp at hc
  · simp at h

/-- no truncation of an accepted message is ever accepted: cutting the consumed bytes anywhere makes Decode fail -/
theorem C04_no_truncation (sd : SD) (bs : Bytes) (fin fin' : Fin) (v : Val) (n : Nat) (d' : Dec)
    (h : decodeSD sd bs fin = .ok (v, n, d')) (k : Nat) (hk : k < n) :
    ∀ v' n' d'', decodeSD sd (bs.take k) fin' ≠ .ok (v', n', d'') := by
  intro v' n' d'' h'
  have h1 := C04_sound sd bs fin v n d' h
  have h2 := C04_sound sd (bs.take k) fin' v' n' d'' h'
  obtain ⟨t, ty, E, body, hc, hn, hfit, _, _⟩ := spec_header sd bs v n h1
  obtain ⟨t', ty', E', body', hc', hn', hfit', _, _⟩ := spec_header sd (bs.take k) v' n' h2
  obtain ⟨h8, _, _, hE, _, hb⟩ := cutHeader_some bs t ty E body hc
  obtain ⟨h8', _, _, hE', _, hb'⟩ := cutHeader_some (bs.take k) t' ty' E' body' hc'
  have hlen : (bs.take k).length = k := by simp [List.length_take]; omega
  -- the header bytes are the same, so the declared length is the same; but the truncated body is too short
  have hEE : E' = E := by
    rw [hE, hE']
    have : ((bs.take k).drop 4).take 4 = (bs.drop 4).take 4 := by
      rw [List.drop_take, List.take_take]
      have : min 4 (k - 4) = 4 := by omega
      rw [this]
    rw [this]
  omega

end Kmip
