import KmipProofs.EncodeCanon
/-
  C02 — Encode emits exactly the canonical KMIP TTLV bytes, a pure function of the value.

  Model: `Kmip.encVal/encFlds/encFV/encMany/encodeTop` (KmipModel/Encode.lean, mirrors encode.go).
  Spec : `Kmip.Item.ser ∘ Kmip.canonTop` (KmipModel/TTLV.lean): the independent serializer on the canonical tree.
  History-independence: in the model Encode is a function of the value; that the CODE has no state to depend on
  is the generated obligation in GenC02.lean (no package-level variable is ever written) plus the harness's
  re-encode-after-history / parallel runs.
-/
namespace Kmip

/-- Whenever Encode succeeds on a struct value, the bytes written are the TTLV serialization of the value's
    canonical item tree (all values, all schemas — no well-formedness hypothesis is needed for this direction). -/
theorem C02_canonical (sd : SD) (v : Val) (bs : Bytes) (h : encodeSD sd v = .ok bs) :
    bs = (canonTop sd v).ser :=
  encVal_canon v sd.tag (.struct sd) bs h

/-- the same through the `Encode(interface{})` entry point, for pointer and value arguments alike -/
theorem C02_canonical_top (p : Bool) (sd : SD) (v : Val) (bs : Bytes)
    (h : encodeTop (.val p (.struct sd) v) = .ok bs) : bs = (canonTop sd v).ser :=
  encVal_canon v sd.tag (.struct sd) bs (by simpa [encodeTop] using h)

/-- pointer-versus-value arguments encode identically -/
theorem C02_pointer_irrelevant (sd : SD) (v : Val) :
    encodeTop (.val true (.struct sd) v) = encodeTop (.val false (.struct sd) v) := by
  simp [encodeTop]

/-- Layout of a primitive item, stated outright: 3-byte big-endian tag, 1-byte type, 4-byte big-endian
    unpadded length, value, zero padding to a multiple of 8. -/
theorem C02_layout_prim (tag ty : Nat) (p : Bytes) :
    (Item.prim tag ty p).ser =
      be 3 tag ++ ([UInt8.ofNat ty] ++ (be 4 p.length ++ (p ++ List.replicate (padLen p.length) 0))) := by
  simp [Item.ser, header, zeros]

/-- Layout of a structure: header with type 1 and length = total size of the serialized children, then the children in order. -/
theorem C02_layout_struct (tag : Nat) (kids : List Item) :
    (Item.struct tag kids).ser =
      be 3 tag ++ ([1] ++ (be 4 (Item.serList kids).length ++ Item.serList kids)) := by
  simp [Item.ser, header, structCode]

theorem padLen_lt (l : Nat) : padLen l < 8 := by
  unfold padLen; split <;> omega

theorem padded_mod (l : Nat) : (l + padLen l) % 8 = 0 := by
  unfold padLen; split <;> omega

mutual
  /-- every item occupies a multiple of 8 bytes -/
  theorem ser_length_mod8 : ∀ (i : Item), i.ser.length % 8 = 0
    | .prim tag ty p => by
      have := padded_mod p.length
      simp [Item.ser, header_length, zeros]; omega
    | .struct tag kids => by
      have := serList_length_mod8 kids
      simp [Item.ser, header_length]; omega
  theorem serList_length_mod8 : ∀ (is : List Item), (Item.serList is).length % 8 = 0
    | [] => by simp [Item.serList]
    | i :: is => by
      have h1 := ser_length_mod8 i
      have h2 := serList_length_mod8 is
      simp [Item.serList]; omega
end

/-- C02, padding clause: the output of a successful Encode is a whole number of 8-byte blocks -/
theorem C02_padded (sd : SD) (v : Val) (bs : Bytes) (h : encodeSD sd v = .ok bs) : bs.length % 8 = 0 := by
  rw [C02_canonical sd v bs h]; exact ser_length_mod8 _

/-- the 4-byte length field holds the true length whenever that length is below 2^32 -/
theorem C02_length_field (tag ty : Nat) (p : Bytes) (h : p.length < two32) :
    fromBE (((Item.prim tag ty p).ser.drop 4).take 4) = p.length := by
  have h3 : (be 3 tag).length = 3 := be_length 3 tag
  simp only [Item.ser, header]
  rw [List.append_assoc]
  have : (be 3 tag ++ (UInt8.ofNat ty :: be 4 p.length ++ (p ++ zeros (padLen p.length)))).drop 4
      = be 4 p.length ++ (p ++ zeros (padLen p.length)) := by
    rw [List.drop_append]; simp [h3]
  simp only [List.cons_append] at this ⊢
  rw [this, List.take_append_of_le_length (by simp [be_length])]
  rw [List.take_of_length_le (by simp [be_length])]
  exact fromBE_be 4 _ (by simpa [two32] using h)

/-! ### non-vacuity: a concrete non-trivial value meets the hypothesis -/

def exName : SD := .mk "Name" 0x420053 [
  .mk "Value" 0x420055 true false false (.prim .text),
  .mk "Type" 0x420054 true false false (.prim .enum)]

example : ∃ bs, encodeSD exName (.struct [.one (.text [0x61, 0x62]), .one (.enum 1)]) = .ok bs ∧ bs.length = 40 := by
  refine ⟨_, rfl, ?_⟩
  decide

end Kmip
