import KmipProofs.SessionLemmas
/-
  C09 — no handler runs unauthenticated; authentication context never leaks between requests or connections.
-/
namespace Kmip.Session

def Ev.isCall : Ev → Bool
  | .call _ _ _ _ _ _ _ => true
  | _ => false

def Ev.isRespond : Ev → Bool
  | .respond _ _ => true
  | _ => false

def Ev.isDecode : Ev → Bool
  | .decode _ => true
  | _ => false

theorem handshakeEvs_mem (cfg : Cfg) : ∀ e ∈ handshakeEvs cfg, e = Ev.armRead ∨ e = Ev.armWrite ∨ e = Ev.handshake cfg.handshakeOk := by
  intro e he
  unfold handshakeEvs at he
  split at he
  · simp only [List.mem_append, List.mem_singleton] at he
    rcases he with he | he | he
    · split at he <;> simp at he; exact Or.inl he
    · split at he <;> simp at he; exact Or.inr (Or.inl he)
    · exact Or.inr (Or.inr he)
  · simp at he

/-- session gate: when the session-authentication callback fails, the session's whole trace is the handshake events,
    the failed callback, and close — no request is read, no handler runs, no response is sent -/
theorem C09_session_gate (cfg : Cfg) (arrs : List Arrival) (h : cfg.sessionAuth = some .fail) :
    ∀ e ∈ session cfg arrs, e.isCall = false ∧ e.isRespond = false ∧ e.isDecode = false := by
  intro e he
  simp only [session, h, List.mem_append] at he
  rcases he with he | he
  · rcases handshakeEvs_mem cfg e he with h | h | h <;> subst h <;> simp [Ev.isCall, Ev.isRespond, Ev.isDecode]
  · split at he
    · simp at he; subst he; simp [Ev.isCall, Ev.isRespond, Ev.isDecode]
    · simp at he
      rcases he with he | he <;> subst he <;> simp [Ev.isCall, Ev.isRespond, Ev.isDecode]

/-- request gate: a request carrying credentials for which no request-authentication callback is configured, or whose
    callback rejects them, produces no handler invocation and no response, and ends the session -/
theorem C09_request_gate (cfg : Cfg) (k : Nat) (r : Req) (hc : r.credType ≠ 0)
    (hbad : cfg.hasRequestAuth = false ∨ r.authRes = .fail) :
    (handleReq cfg k r).2 = false ∧ ∀ e ∈ (handleReq cfg k r).1, e.isCall = false ∧ e.isRespond = false := by
  have hc' : ¬ r.credType = 0 := hc
  have ha : (authStep cfg k r).2 = none ∧ ∀ e ∈ (authStep cfg k r).1, e.isCall = false ∧ e.isRespond = false := by
    unfold authStep
    rw [if_neg hc']
    rcases hbad with hb | hb
    · simp [hb]
    · cases hh : cfg.hasRequestAuth
      · simp
      · simp [hb, Ev.isCall, Ev.isRespond]
  unfold handleReq
  split
  · simp
  · split
    · rename_i evs h
      refine ⟨rfl, ?_⟩
      intro e he
      exact ha.2 e (by simpa [h] using he)
    · rename_i evs ra h
      rw [h] at ha
      simp at ha

/-- the request-authentication value a request's handlers must see: the callback's value when the request carried
    credentials, nothing otherwise -/
def expectedRA (r : Req) : Option Nat :=
  if r.credType ≠ 0 then (match r.authRes with | .ok v => some v | .fail => none) else none

theorem authStep_ra (cfg : Cfg) (k : Nat) (r : Req) (evs : List Ev) (ra : Option Nat)
    (h : authStep cfg k r = (evs, some ra)) : ra = expectedRA r ∧ ∀ e ∈ evs, e.isCall = false := by
  unfold authStep at h
  unfold expectedRA
  split at h
  · rename_i hc
    simp only [Prod.mk.injEq, Option.some.injEq] at h
    obtain ⟨h1, h2⟩ := h
    subst h1 h2
    simp [hc]
  · rename_i hc
    split at h
    · split at h
      · rename_i v hv
        simp only [Prod.mk.injEq, Option.some.injEq] at h
        obtain ⟨h1, h2⟩ := h
        subst h1 h2
        simp [hc, hv, Ev.isCall]
      · simp at h
    · simp at h

theorem calls_ctx (cfg : Cfg) (k : Nat) (ra0 : Option Nat) (i0 : Nat) (items : List ReqItem) :
    ∀ e ∈ calls cfg k ra0 i0 items, ∀ kk i op p sid sa ra, e = Ev.call kk i op p sid sa ra →
      kk = k ∧ sid = cfg.sessionId ∧ sa = sessVal cfg.sessionAuth ∧ ra = ra0 := by
  induction items generalizing i0 with
  | nil => simp [calls]
  | cons it rest ih =>
    intro e he kk i op p sid sa ra heq
    simp only [calls, List.mem_append] at he
    rcases he with he | he
    · split at he
      · simp at he; subst he; cases heq; exact ⟨rfl, rfl, rfl, rfl⟩
      · simp at he
    · exact ih (i0 + 1) e he kk i op p sid sa ra heq

/-- context: every handler invocation made while handling request `r` as the `k`-th arrival carries this connection's
    session id and session-auth value and this request's own request-auth value -/
theorem C09_context (cfg : Cfg) (k : Nat) (r : Req) :
    ∀ e ∈ (handleReq cfg k r).1, ∀ kk i op p sid sa ra, e = Ev.call kk i op p sid sa ra →
      kk = k ∧ sid = cfg.sessionId ∧ sa = sessVal cfg.sessionAuth ∧ ra = expectedRA r := by
  intro e he kk i op p sid sa ra heq
  unfold handleReq at he
  split at he
  · simp at he
  · split at he
    · rename_i evs h
      -- rejected: only the requestAuth event, no call
      have : ∀ e ∈ (authStep cfg k r).1, e.isCall = false := by
        unfold authStep; split
        · simp
        · split
          · split <;> simp [Ev.isCall]
          · simp
      have := this e (by simpa [h] using he)
      subst heq; simp [Ev.isCall] at this
    · rename_i evs ra' h
      obtain ⟨hra, hev⟩ := authStep_ra cfg k r evs ra' h
      have hmem : e ∈ evs ∨ e ∈ calls cfg k ra' 0 r.items ∨ e ∈ armW cfg ∨ e = Ev.respond k (respOf cfg r) := by
        split at he
        · simp only [List.mem_append, List.mem_singleton] at he
          rcases he with (he | he | he) | he
          · exact Or.inl he
          · exact Or.inr (Or.inl he)
          · exact Or.inr (Or.inr (Or.inl he))
          · exact Or.inr (Or.inr (Or.inr he))
        · simp only [List.mem_append] at he
          rcases he with he | he | he
          · exact Or.inl he
          · exact Or.inr (Or.inl he)
          · exact Or.inr (Or.inr (Or.inl he))
      rcases hmem with he | he | he | he
      · have := hev e he; subst heq; simp [Ev.isCall] at this
      · rw [← hra]; exact calls_ctx cfg k ra' 0 r.items e he kk i op p sid sa ra heq
      · unfold armW at he; split at he <;> simp at he; subst he; cases heq
      · subst he; cases heq

/-- a system of concurrent sessions: each connection's trace is the session function of its own configuration and
    its own arrivals (the model's rendering of "sessions share nothing mutable"; that the CODE has this structure is what the
    concurrent correspondence runs and GenC12's access table check) -/
def system (ss : List (Cfg × List Arrival)) : List (List Ev) := ss.map fun (c, a) => session c a

/-- non-interference: two systems that agree on session `i`'s inputs give session `i` the same trace, whatever the
    other sessions send, return or do -/
theorem C09_noninterference (s1 s2 : List (Cfg × List Arrival)) (i : Nat) (h : s1[i]? = s2[i]?) :
    (system s1)[i]? = (system s2)[i]? := by
  simp [system, List.getElem?_map, h]

/-- "credentials present" is the same as a non-zero credential type in the model's request; a request without
    credentials is handled without the callback and its handlers see no request-auth value -/
theorem C09_no_credentials (r : Req) (h : r.credType = 0) : expectedRA r = none := by
  simp [expectedRA, h]

def exFailCfg : Cfg := { readTimeout := false, writeTimeout := false, tls := false, handshakeOk := true,
                         sessionAuth := some AuthR.fail, hasRequestAuth := true, registered := [18], sessionId := 1 }

example : session exFailCfg [Arrival.eof] = [Ev.sessionAuth false, Ev.close] := by decide

end Kmip.Session
