import KmipProofs.SessionLemmas
import KmipProofs.WireLemmas
import KmipProofs.SessionWire
/-
  C07 — the server answers every request exactly once, in order, or closes the connection.

  Model: `Kmip.Session.session` (KmipModel/Session.lean), tied to server.go's serve/handleBatch by running
  the real Server on recorded in-memory connections (kvrun C07) and by the skeleton obligation in GenC07.
-/
namespace Kmip.Session

/-- The shape every request loop has: for each arrival the server waits for (after arming the read deadline if
    configured), it either produces — after nothing but auth/handler/arm-write events — exactly one response carrying
    that arrival's index and the response built from that request, and goes on to the next arrival; or it closes the
    connection, and nothing follows.  `waiting`: no more input yet, nothing outstanding. -/
inductive Served (cfg : Cfg) : Nat → List Arrival → List Ev → Prop where
  | waiting (k : Nat) : Served cfg k [] []
  | answered (k : Nat) (r : Req) (rest : List Arrival) (pre tr : List Ev) :
      pre.all Ev.quiet = true → Served cfg (k + 1) rest tr →
      Served cfg k (.request r :: rest) (arm cfg ++ Ev.decode k :: (pre ++ Ev.respond k (respOf cfg r) :: tr))
  | dropped (k : Nat) (a : Arrival) (rest : List Arrival) (pre : List Ev) :
      pre.all Ev.quiet = true →
      Served cfg k (a :: rest) (arm cfg ++ Ev.decode k :: (pre ++ [Ev.close]))

/-- C07, main statement: every run of the request loop has the `Served` shape — each request is answered exactly once,
    before the next one is read, by the response built from it; otherwise the connection is closed. -/
theorem C07_one_response_or_close (cfg : Cfg) (k : Nat) (arrs : List Arrival) :
    Served cfg k arrs (loop cfg k arrs) := by
  induction arrs generalizing k with
  | nil => exact Served.waiting k
  | cons a rest ih =>
    cases a with
    | eof =>
      have := Served.dropped (cfg := cfg) k .eof rest [] (by simp)
      simpa [loop, arm] using this
    | decodeErr =>
      have := Served.dropped (cfg := cfg) k .decodeErr rest [] (by simp)
      simpa [loop, arm] using this
    | request r =>
      rcases handleReq_shape cfg k r with ⟨pre, hq, he⟩ | ⟨pre, hq, he⟩
      · have := Served.answered (cfg := cfg) k r rest pre _ hq (ih (k + 1))
        simpa [loop, arm, he, List.append_assoc] using this
      · have := Served.dropped (cfg := cfg) k (.request r) rest pre hq
        simpa [loop, arm, he, List.append_assoc] using this

/-- the responses written during a trace, in order -/
def responses : List Ev → List (Nat × Resp)
  | [] => []
  | .respond k r :: rest => (k, r) :: responses rest
  | _ :: rest => responses rest

theorem responses_append (a b : List Ev) : responses (a ++ b) = responses a ++ responses b := by
  induction a with
  | nil => rfl
  | cons e rest ih => cases e <;> simp [responses, ih]

theorem responses_quiet (pre : List Ev) (h : pre.all Ev.quiet = true) : responses pre = [] := by
  induction pre with
  | nil => rfl
  | cons e rest ih =>
    simp only [List.all_cons, Bool.and_eq_true] at h
    cases e <;> simp_all [responses, Ev.quiet]

theorem responses_arm (cfg : Cfg) : responses (arm cfg) = [] := by
  unfold arm; split <;> rfl

/-- the k-th response answers the k-th request: the responses of a loop started at index `k` are numbered
    k, k+1, … without gaps, and the i-th of them is the response built from the i-th arrival, which is a request -/
theorem C07_kth_answers_kth (cfg : Cfg) (k : Nat) (arrs : List Arrival) (tr : List Ev) (h : Served cfg k arrs tr) :
    ∀ i (p : Nat × Resp), (responses tr)[i]? = some p →
      p.1 = k + i ∧ ∃ r, arrs[i]? = some (.request r) ∧ p.2 = respOf cfg r := by
  induction h with
  | waiting k => intro i p hp; simp [responses] at hp
  | answered k r rest pre tr hq _ ih =>
    intro i p hp
    rw [responses_append, responses_arm, List.nil_append] at hp
    simp only [responses] at hp
    rw [responses_append, responses_quiet pre hq, List.nil_append] at hp
    simp only [responses] at hp
    cases i with
    | zero =>
      simp at hp; subst hp
      exact ⟨by simp, r, by simp, rfl⟩
    | succ j =>
      simp only [List.getElem?_cons_succ] at hp
      obtain ⟨h1, r', h2, h3⟩ := ih j p hp
      exact ⟨by omega, r', by simpa using h2, h3⟩
  | dropped k a rest pre hq =>
    intro i p hp
    rw [responses_append, responses_arm, List.nil_append] at hp
    simp only [responses] at hp
    rw [responses_append, responses_quiet pre hq] at hp
    simp [responses] at hp

/-- echo: the response built from a request carries its protocol version, client correlation value and batch count,
    the clock value at which the batch was handled, and one item per request item, in order, with the same operation
    and unique batch item ID -/
theorem C07_echo (cfg : Cfg) (r : Req) :
    (respOf cfg r).version = r.version ∧ (respOf cfg r).corr = r.corr ∧ (respOf cfg r).batchCount = r.batchCount ∧
    (respOf cfg r).clock = r.clock ∧
    (respOf cfg r).items.map (fun i => (i.op, i.uid)) = r.items.map (fun i => (i.op, i.uid)) := by
  refine ⟨rfl, rfl, rfl, rfl, ?_⟩
  simp only [respOf, List.map_map]
  apply List.map_congr_left
  intro it _
  simp only [Function.comp, itemResult]
  split
  · cases it.beh <;> rfl
  · rfl

/-- nothing follows a close: a trace of the loop contains `close` at most as its last event -/
theorem C07_close_is_last (cfg : Cfg) (k : Nat) (arrs : List Arrival) (tr : List Ev) (h : Served cfg k arrs tr) :
    ∀ pre post, tr = pre ++ Ev.close :: post → post = [] := by
  induction h with
  | waiting k => intro pre post h; simp at h
  | answered k r rest pre' tr hq _ ih =>
    intro pre post h
    -- close is not in arm, not the decode, not quiet, not the respond: it lies in tr
    have key : ∀ (l : List Ev), (∀ e ∈ l, e ≠ Ev.close) → ∀ pre post m, l ++ m = pre ++ Ev.close :: post →
        ∃ pre2, m = pre2 ++ Ev.close :: post := by
      intro l hl
      induction l with
      | nil => intro pre post m h; exact ⟨pre, by simpa using h⟩
      | cons e l ihl =>
        intro pre post m h
        cases pre with
        | nil =>
          simp at h
          exact absurd h.1 (hl e (by simp))
        | cons p pre =>
          simp at h
          exact ihl (fun e he => hl e (by simp [he])) pre post m h.2
    have hl : ∀ e ∈ arm cfg ++ Ev.decode k :: (pre' ++ [Ev.respond k (respOf cfg r)]), e ≠ Ev.close := by
      intro e he
      simp only [List.mem_append, List.mem_cons] at he
      rcases he with he | he | he | he
      · unfold arm at he; split at he <;> simp at he; subst he; simp
      · subst he; simp
      · have := List.all_eq_true.mp hq e he
        intro hc; subst hc; simp [Ev.quiet] at this
      · rcases he with he | he
        · subst he; simp
        · simp at he
    have h' : (arm cfg ++ Ev.decode k :: (pre' ++ [Ev.respond k (respOf cfg r)])) ++ tr = pre ++ Ev.close :: post := by
      rw [← h]; simp [List.append_assoc]
    obtain ⟨pre2, h2⟩ := key _ hl pre post tr h'
    exact ih pre2 post h2
  | dropped k a rest pre' hq =>
    intro pre post h
    have hl : ∀ e ∈ arm cfg ++ Ev.decode k :: pre', e ≠ Ev.close := by
      intro e he
      simp only [List.mem_append, List.mem_cons] at he
      rcases he with he | he | he
      · unfold arm at he; split at he <;> simp at he; subst he; simp
      · subst he; simp
      · have := List.all_eq_true.mp hq e he
        intro hc; subst hc; simp [Ev.quiet] at this
    have key : ∀ (l : List Ev), (∀ e ∈ l, e ≠ Ev.close) → ∀ pre post, l ++ [Ev.close] = pre ++ Ev.close :: post → post = [] := by
      intro l hl
      induction l with
      | nil =>
        intro pre post h
        cases pre with
        | nil => simpa using h
        | cons p pre => simp at h
      | cons e l ihl =>
        intro pre post h
        cases pre with
        | nil => simp at h; exact absurd h.1 (hl e (by simp))
        | cons p pre => simp at h; exact ihl (fun e he => hl e (by simp [he])) pre post h.2
    exact key _ hl pre post (by rw [← h]; simp [List.append_assoc])

/-! ### non-vacuity: a concrete session with two requests, the second unanswerable -/

def exCfg : Cfg := { readTimeout := true, writeTimeout := false, tls := false, handshakeOk := true,
                     sessionAuth := some (.ok 7), hasRequestAuth := true, registered := [18, 20], sessionId := 3 }
def exReq1 : Req := { version := (1, 4), corr := [97], batchCount := 2, async := false, credType := 1, authRes := .ok 5, clock := 0, writeOk := true,
                      items := [{ op := 18, uid := [], payload := 0, beh := .success 0 true }, { op := 12, uid := [1], payload := 1, beh := .nilResult }] }
def exReq2 : Req := { exReq1 with items := [{ op := 18, uid := [], payload := 100, beh := .success 100 false }], batchCount := 1 }

example : responses (session exCfg [.request exReq1, .request exReq2, .eof]) = [(0, respOf exCfg exReq1)] := by decide
example : (session exCfg [.request exReq1, .request exReq2, .eof]).getLast? = some Ev.close := by decide

end Kmip.Session


/-! ### the response itself, field by field (KmipModel/Wire.lean) -/
namespace Kmip.Wire
open Kmip

/-- **What a response says.**  Whenever handleBatch produces a response for a decoded Request (any Request value at all, any
    handlers `H`), that response carries the request's protocol version, client correlation value and batch count, the server's
    clock, and exactly one item per request item, in the request's order, each with that item's operation and unique batch item
    ID and the outcome of the handler invoked for THAT item (index `i`) - and this is what a Client reading it sees. -/
theorem C07_wire_echo (zNonce zExt : Val) (clock : Nat) (authOk : Bool) (H : Nat → ItemIn → HRes) (req resp : Val)
    (h : handleBatch zNonce zExt clock authOk H req = some resp) :
    ∃ rq, reqView req = some rq ∧ resp = respVal zNonce zExt clock H rq ∧
      rq.batchCount = rq.items.length ∧ rq.async = false ∧
      Client.respView resp = some { batchCount := rq.batchCount, items := viewsOf H 0 rq.items } ∧
      (viewsOf H 0 rq.items).length = rq.items.length := by
  unfold handleBatch at h
  cases hv : reqView req with
  | none => rw [hv] at h; simp at h
  | some rq =>
    rw [hv] at h
    simp only at h
    split at h
    · simp at h
    · rename_i hc
      split at h
      · simp at h
      · rename_i ha
        split at h
        · simp at h
        · simp only [Option.some.injEq] at h
          subst h
          refine ⟨rq, rfl, rfl, ?_, by simpa using ha, respView_respVal zNonce zExt clock H rq, viewsOf_length H 0 rq.items⟩
          have : ¬ (rq.batchCount ≠ rq.items.length) := fun hh => hc (Or.inl hh)
          simpa using this

/-- the k-th item of the response answers the k-th item of the request: same operation, the outcome of handler call `k` -/
theorem C07_wire_item (H : Nat → ItemIn → HRes) : ∀ (i : Nat) (its : List ItemIn) (k : Nat) (it : ItemIn),
    its[k]? = some it → (viewsOf H i its)[k]? = some (viewOf it (H (i + k) it))
  | _, [], k, it, h => by simp at h
  | i, x :: rest, 0, it, h => by
    simp only [List.getElem?_cons_zero, Option.some.injEq] at h
    subst h
    simp [viewsOf]
  | i, x :: rest, k + 1, it, h => by
    simp only [List.getElem?_cons_succ] at h
    have := C07_wire_item H (i + 1) rest k it h
    simp only [viewsOf, List.getElem?_cons_succ, this]
    congr 3
    omega

/-- no response at all (the session then closes the connection) for a request whose batch count is not its number of items,
    that asks for asynchronous processing, or whose credentials were not accepted -/
theorem C07_wire_no_response (zNonce zExt : Val) (clock : Nat) (authOk : Bool) (H : Nat → ItemIn → HRes) (req : Val) (rq : ReqView)
    (hv : reqView req = some rq)
    (hbad : rq.batchCount ≠ rq.items.length ∨ rq.async = true ∨ (rq.credType ≠ 0 ∧ authOk = false)) :
    handleBatch zNonce zExt clock authOk H req = none := by
  unfold handleBatch
  rw [hv]
  simp only
  by_cases hc : rq.batchCount ≠ rq.items.length ∨ 2147483648 ≤ rq.batchCount
  · rw [if_pos hc]
  · rw [if_neg hc]
    by_cases ha : rq.async = true
    · rw [if_pos ha]
    · rw [if_neg ha]
      rcases hbad with h | h | h
      · exact absurd (Or.inl h) hc
      · exact absurd h ha
      · rw [if_pos h]

end Kmip.Wire

/-! ### the two models of `handleBatch` agree -/
namespace Kmip.SessionWire
open Kmip Kmip.Session Kmip.Wire

/-- The session model (whether a request is answered; abstract payloads) and the message model (what the Response is, as a value
    of the schema) describe the same function of the code from two sides. On any request both describe - same header fields,
    same items, handler outcomes of the same status and reason - whose response can be encoded and written: the session model
    sends a response exactly when the message model builds one, and that Response value carries the header fields and, item by
    item, the operation, batch item ID, status and reason of the session model's response. -/
theorem C07_models_agree (cfg : Cfg) (k : Nat) (r : Req) (rq : ReqView) (H : Nat → ItemIn → HRes) (zNonce zExt : Val) (req : Val)
    (hv : reqView req = some rq) (h : Represents cfg r rq H)
    (hsmall : r.items.length < 2147483648) (henc : r.items.all (itemEncodable cfg.registered) = true) (hw : r.writeOk = true) :
    ((handleReq cfg k r).2 = true ↔ ∃ resp, handleBatch zNonce zExt r.clock ((authStep cfg k r).2.isSome) H req = some resp) ∧
    (∀ resp, handleBatch zNonce zExt r.clock ((authStep cfg k r).2.isSome) H req = some resp →
      resp = .struct [
        .one (.struct [.one (.struct [.one (.int (respOf cfg r).version.1), .one (.int (respOf cfg r).version.2)]),
                       .one (.time (respOf cfg r).clock), .one zNonce, .many [], .one (.text (respOf cfg r).corr), .one (.text []),
                       .one (.int (respOf cfg r).batchCount)]),
        .many (respItems zExt H 0 rq.items)] ∧
      (respItems zExt H 0 rq.items).map itemFacts = (respOf cfg r).items.map (fun x => some (resFacts x))) := by
  have hA := agree_on_answering cfg k r rq H h hsmall henc hw
  have hE := handleBatch_eq zNonce zExt r.clock ((authStep cfg k r).2.isSome) H req
  rw [hv] at hE
  simp only at hE
  constructor
  · rw [hA, hE]
    cases answers ((authStep cfg k r).2.isSome) rq <;> simp
  · intro resp hr
    rw [hE] at hr
    cases ha : answers ((authStep cfg k r).2.isSome) rq
    · simp [ha] at hr
    · simp only [ha, if_true, Option.some.injEq] at hr
      subst hr
      exact ⟨agree_on_header cfg r rq H zNonce zExt h, agree_on_items cfg r rq H zExt h⟩

/-- non-vacuity: a two-item request (a Get that succeeds, a Destroy nobody handles) is represented -/
def exCfgSW : Cfg :=
  { readTimeout := false, writeTimeout := false, tls := false, handshakeOk := true, sessionAuth := none
    hasRequestAuth := false, registered := [10], sessionId := 1 }
def exReqSW : Req :=
  { version := (1, 4), corr := [99], batchCount := 2, async := false, credType := 0, authRes := .fail, clock := 7, writeOk := true
    items := [{ op := 10, uid := [1], payload := 0, beh := .success 5 true }, { op := 20, uid := [], payload := 1, beh := .nilResult }] }
def exViewSW : ReqView :=
  { version := .struct [.one (.int 1), .one (.int 4)], corr := [99], async := false, credType := 0, batchCount := 2
    items := [{ op := 10, uid := [1], payload := .nil }, { op := 20, uid := [], payload := .nil }] }
def exHSW : Nat → ItemIn → HRes := fun i _ => if i = 0 then HRes.success .nil else HRes.failed 5 []

example : Represents exCfgSW exReqSW exViewSW exHSW := by
  refine ⟨rfl, rfl, rfl, rfl, rfl, by decide, ?_⟩
  intro i it sit hi hs
  match i with
  | 0 => simp [exViewSW, exReqSW] at hi hs; subst hi; subst hs; decide
  | 1 => simp [exViewSW, exReqSW] at hi hs; subst hi; subst hs; decide
  | n + 2 => simp [exViewSW] at hi

end Kmip.SessionWire
