import KmipGen.CodecSrc
import KmipModel.ExpectCodec
import KmipProofs.RegistryKeys
import KmipGen.Consts
/-
  C18 — protocol constants and tag-name resolution match the KMIP registry.
  Every statement is a `decide +kernel` over COMPLETE finite tables.  Left side: regenerated from /repo on
  every run (constant values as compiled; the unexported tagMap observed through the real Encode), names
  carried as numbers (Expect.keyOf) and listed in value order.  Right side: the hand-transcribed registry
  (KmipModel/Registry.lean) under the same keying, certified in KmipProofs/RegistryKeys.lean.
  `isSubseq reg go` (a linear merge) holds iff every (name, number) pair of `reg` occurs in `go`.
-/
namespace Kmip
open Kmip.Expect

/-- all 292 KMIP 1.0–1.4 tags: the Go constant of that name has the registry's number -/
theorem GenC18_tags : isSubseq RegistryKeys.tags KmipGen.tagConstsK = true := by decide +kernel
theorem GenC18_item_types : isSubseq RegistryKeys.itemTypes KmipGen.typeConstsK = true := by decide +kernel
theorem GenC18_operations : isSubseq RegistryKeys.operations KmipGen.enumConstsK = true := by decide +kernel
theorem GenC18_result_status : isSubseq RegistryKeys.resultStatus KmipGen.enumConstsK = true := by decide +kernel
theorem GenC18_result_reason : isSubseq RegistryKeys.resultReason KmipGen.enumConstsK = true := by decide +kernel
theorem GenC18_credential_type : isSubseq RegistryKeys.credentialType KmipGen.enumConstsK = true := by decide +kernel

/-- further enumeration groups (beyond what the property names) -/
theorem GenC18_more_enums :
    (isSubseq RegistryKeys.objectType KmipGen.enumConstsK &&
     isSubseq RegistryKeys.state KmipGen.enumConstsK &&
     isSubseq RegistryKeys.keyFormatType KmipGen.enumConstsK &&
     isSubseq RegistryKeys.keyWrapType KmipGen.enumConstsK &&
     isSubseq RegistryKeys.wrappingMethod KmipGen.enumConstsK &&
     isSubseq RegistryKeys.keyCompressionType KmipGen.enumConstsK &&
     isSubseq RegistryKeys.nameType KmipGen.enumConstsK &&
     isSubseq RegistryKeys.cryptographicAlgorithm KmipGen.enumConstsK &&
     isSubseq RegistryKeys.paddingMethod KmipGen.enumConstsK &&
     isSubseq RegistryKeys.hashingAlgorithm KmipGen.enumConstsK &&
     isSubseq RegistryKeys.revocationReasonCode KmipGen.enumConstsK &&
     isSubseq RegistryKeys.blockCipherMode KmipGen.enumConstsK) = true := by decide +kernel

/-- a `kmip:"NAME"` annotation resolves to the number of the tag constant of that name: the name→number map
    observed through the real Encode (struct-tag path, then field path) is exactly the constant table plus "-" ↦ any-tag -/
theorem GenC18_tagmap_struct :
    KmipGen.tagMapStructK.filter (fun (k, _) => k != RegistryKeys.dashK) = KmipGen.tagConstsK ∧
    KmipGen.tagMapStructK.filter (fun (k, _) => k == RegistryKeys.dashK) = [(RegistryKeys.dashK, 0xffffff)] := by
  decide +kernel

theorem GenC18_tagmap_field :
    KmipGen.tagMapFieldK.filter (fun (k, _) => k != RegistryKeys.dashK) = KmipGen.tagConstsK ∧
    KmipGen.tagMapFieldK.filter (fun (k, _) => k == RegistryKeys.dashK) = [(RegistryKeys.dashK, 0xffffff)] := by
  decide +kernel

/-- an unknown annotation name is rejected (not silently mapped to some number) -/
theorem GenC18_unknown_rejected : KmipGen.unknownNameRejected = true := by decide

/-- no two distinct tag names share a number, apart from the three batch-item aliases and the any-tag marker
    (the table is in value order, so equal numbers are adjacent) -/
theorem GenC18_injective :
    sortedInjective RegistryKeys.batchAliasK RegistryKeys.anyAliasK (KmipGen.tagConstsK ++ [(RegistryKeys.dashK, 0xffffff)]) = true := by
  decide +kernel

end Kmip

/-
  Codec source tie (re-checked against /repo's current source on every run): the normalised source of every function of
  the groups below, as kvscan reads it from /repo now, is the text the model was validated against (KmipModel/ExpectCodec.lean;
  readable form in KmipModel/ExpectCodecSrc.txt). See harness/cmd/kvscan/srcdigest.go for the normalisation.
-/
namespace Kmip

/-- struct descriptors (fields.go, types.go) -/
theorem GenC18_codec_src_desc : KmipGen.codecSrc_desc = ExpectCodec.codecSrc_desc := by decide

end Kmip

namespace Kmip

/-- encoder (encode.go, encode_core.go) -/
theorem GenC18_codec_src_enc : KmipGen.codecSrc_enc = ExpectCodec.codecSrc_enc := by decide

end Kmip
