import KmipGen.Schema
import KmipModel.WF
/-
  C01, generated obligation (re-checked against /repo's current source on every run): every struct descriptor the
  translator regenerates from the package's annotated types satisfies the schema side conditions of C01_roundtrip —
  describable, tags in range and distinct inside each structure, fields that take no part in encoding optional and last,
  selectors preceding the dynamic fields they govern, dispatch targets well-formed.
-/
namespace Kmip

theorem GenC01_schemas_ok : KmipGen.allSchemas.all (fun sd => sd.descOk && SD.OK sd && decide (sd.tag < tagMax)) = true := by
  decide +kernel

theorem GenC01_schema_count : KmipGen.allSchemas.length = KmipGen.numTypes := by decide

end Kmip
