import KmipGen.CodecSrc
import KmipModel.ExpectCodec
import KmipGen.Schema
import KmipModel.WF
import KmipModel.Encode
/-
  C01, generated obligation (re-checked against /repo's current source on every run): every struct descriptor the
  translator regenerates from the package's annotated types satisfies the schema side conditions of C01_roundtrip —
  describable, tags in range and distinct inside each structure, fields that take no part in encoding optional and last,
  selectors preceding the dynamic fields they govern, dispatch targets well-formed.
-/
namespace Kmip

theorem GenC01_schemas_ok : KmipGen.allSchemas.all (fun sd => sd.descOk && SD.OK sd && decide (sd.tag < tagMax)) = true := by
  decide +kernel

theorem GenC01_schema_count : KmipGen.allSchemas.length = KmipGen.numTypes := by decide

/-! ### non-vacuity on a real, dynamically typed structure: an Attribute named "Name" carrying a Name structure -/

def exAttrName : Bytes := [78, 97, 109, 101]

def exAttr : Val :=
  .struct [.one (.text exAttrName), .one (.int 0),
    .dyn (.val false (.struct KmipGen.sd_Name) (.struct [.one (.text [107, 49]), .one (.enum 1)]))]

/-- the hypotheses of C01_roundtrip hold for it … -/
theorem GenC01_example_wf : WFv (.struct KmipGen.sd_Attribute) exAttr := by
  simp only [exAttr, WFv, KmipGen.sd_Attribute, SD.fields, WFflds, WFfv, Fld.slice, Fld.ty, Fld.ignored, Fld.tag, Fld.skip]
  refine ⟨⟨trivial, by decide, Or.inr ⟨trivial, by decide⟩⟩, ⟨trivial, by decide, Or.inr ⟨trivial, by decide⟩⟩, ⟨trivial, by decide, ?_, ?_⟩, trivial⟩
  · exact ⟨0, _, .one (.text exAttrName), .str exAttrName, .mk (.str exAttrName) true (.struct KmipGen.sd_Name), rfl, rfl, rfl, rfl, rfl, rfl⟩
  · simp only [KmipGen.sd_Name, WFflds, WFfv, WFv, Fld.slice, Fld.ty, Fld.ignored, Fld.tag, Fld.skip]
    exact ⟨⟨trivial, by decide, Or.inr ⟨trivial, by decide⟩⟩, ⟨trivial, by decide, Or.inr ⟨trivial, by decide⟩⟩, trivial⟩

theorem GenC01_example_small : (canonTop KmipGen.sd_Attribute exAttr).Small = true := by decide

/-- … and the encoder model produces bytes for it (64 of them) -/
theorem GenC01_example_encodes : ∃ bs, encodeSD KmipGen.sd_Attribute exAttr = .ok bs ∧ bs.length = 64 := by
  refine ⟨_, rfl, ?_⟩
  decide

end Kmip

/-
  Codec source tie (re-checked against /repo's current source on every run): the normalised source of every function of
  the groups below, as kvscan reads it from /repo now, is the text the model was validated against (KmipModel/ExpectCodec.lean;
  readable form in KmipModel/ExpectCodecSrc.txt). See harness/cmd/kvscan/srcdigest.go for the normalisation.
-/
namespace Kmip

/-- decoder (decode.go, decode_core.go) -/
theorem GenC01_codec_src_dec : KmipGen.codecSrc_dec = ExpectCodec.codecSrc_dec := by decide

/-- encoder (encode.go, encode_core.go) -/
theorem GenC01_codec_src_enc : KmipGen.codecSrc_enc = ExpectCodec.codecSrc_enc := by decide

/-- struct descriptors (fields.go, types.go) -/
theorem GenC01_codec_src_desc : KmipGen.codecSrc_desc = ExpectCodec.codecSrc_desc := by decide

/-- dynamic dispatch (BuildFieldValue methods) -/
theorem GenC01_codec_src_disp : KmipGen.codecSrc_disp = ExpectCodec.codecSrc_disp := by decide

/-- which sequences must be non-empty: only the three the message model itself requires (a Request / Response has at least one
    batch item, a Query names at least one function).  Encode writes nothing for an empty sequence whatever its annotation, so a
    sequence that becomes `required` turns "nothing to list" into a message Decode rejects. -/
theorem GenC01_required_sequences :
    (KmipGen.allSchemas.flatMap fun sd => (sd.fields.filter fun f => f.required && f.slice).map fun f => (sd.name, f.name)) =
      [("QueryRequest", "QueryFunctions"), ("Request", "BatchItems"), ("Response", "BatchItems")] := by decide

end Kmip
