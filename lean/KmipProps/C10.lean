import KmipProps.C07
import KmipProps.C09
/-
  C10 — malformed or hostile byte streams only cost the sender its own connection.
  The byte level is the decode model (C03: never a panic, never beyond the declared end); here: what the session does
  with an arrival that did not decode, or decoded to something inconsistent.
-/
namespace Kmip.Session

/-- an arrival that is not a request (garbage, truncation, wrong message type, timeout, clean EOF): the server's only
    reaction is to close the connection — no callback, no handler, no response -/
theorem C10_garbage_closes (cfg : Cfg) (k : Nat) (a : Arrival) (rest : List Arrival)
    (h : a = .decodeErr ∨ a = .eof) :
    loop cfg k (a :: rest) = arm cfg ++ [Ev.decode k, Ev.close] := by
  rcases h with h | h <;> subst h <;> simp [loop, arm]

/-- an inconsistent batch count or an asynchronous request: closed before any callback or handler -/
theorem C10_inconsistent_closes (cfg : Cfg) (k : Nat) (r : Req) (rest : List Arrival)
    (h : r.batchCount ≠ r.items.length ∨ r.async = true) :
    loop cfg k (.request r :: rest) = arm cfg ++ [Ev.decode k, Ev.close] := by
  simp [loop, arm, handleReq, h]

/-- no handler runs for an arrival that did not decode completely and consistently: every call event of a loop belongs
    to an arrival that is a request with a consistent batch count and no asynchronous indicator -/
theorem C10_calls_only_for_consistent (cfg : Cfg) (k : Nat) (arrs : List Arrival) :
    ∀ e ∈ loop cfg k arrs, ∀ kk i op p sid sa ra, e = Ev.call kk i op p sid sa ra →
      ∃ r, arrs[kk - k]? = some (.request r) ∧ k ≤ kk ∧ r.batchCount = r.items.length ∧ r.async = false := by
  induction arrs generalizing k with
  | nil => simp [loop]
  | cons a rest ih =>
    intro e he kk i op p sid sa ra heq
    have harm : ∀ e ∈ arm cfg, e ≠ Ev.call kk i op p sid sa ra := by
      intro e he; unfold arm at he; split at he <;> simp at he; subst he; simp
    cases a with
    | eof =>
      simp only [loop, List.mem_append, List.mem_cons] at he
      rcases he with (he | he) | he
      · split at he <;> simp at he; subst he; cases heq
      · rcases he with he | he
        · subst he; cases heq
        · simp at he
      · simp at he; subst he; cases heq
    | decodeErr =>
      simp only [loop, List.mem_append, List.mem_cons] at he
      rcases he with (he | he) | he
      · split at he <;> simp at he; subst he; cases heq
      · rcases he with he | he
        · subst he; cases heq
        · simp at he
      · simp at he; subst he; cases heq
    | request r =>
      simp only [loop, List.mem_append, List.mem_cons] at he
      rcases he with (he | he) | he
      · split at he <;> simp at he; subst he; cases heq
      · rcases he with he | he
        · subst he; cases heq
        · simp at he
      · -- inside this request's segment, or later
        have hin : ∀ e ∈ (handleReq cfg k r).1, e = Ev.call kk i op p sid sa ra →
            kk = k ∧ r.batchCount = r.items.length ∧ r.async = false := by
          intro e he heq
          have hk := (C09_context cfg k r e he kk i op p sid sa ra heq).1
          refine ⟨hk, ?_⟩
          unfold handleReq at he
          split at he
          · simp at he
          · rename_i hcons
            simp only [not_or] at hcons
            exact ⟨by simpa using hcons.1, by simpa using hcons.2⟩
        split at he
        · simp only [List.mem_append] at he
          rcases he with he | he
          · obtain ⟨hk, h1, h2⟩ := hin e he heq
            exact ⟨r, by simp [hk], by omega, h1, h2⟩
          · obtain ⟨r', h1, h2, h3⟩ := ih (k + 1) e he kk i op p sid sa ra heq
            refine ⟨r', ?_, by omega, h3⟩
            have : kk - k = (kk - (k + 1)) + 1 := by omega
            rw [this]; simpa using h1
        · simp only [List.mem_append, List.mem_singleton] at he
          rcases he with he | he
          · obtain ⟨hk, h1, h2⟩ := hin e he heq
            exact ⟨r, by simp [hk], by omega, h1, h2⟩
          · subst he; cases heq

/-- release: once the peer is gone (its stream ends in a clean EOF or an error), the session's trace ends in `close`:
    the loop has exited and the deferred close and `wg.Done` run -/
theorem C10_release (cfg : Cfg) (k : Nat) (arrs : List Arrival) (last : Arrival)
    (h : last = .eof ∨ last = .decodeErr) : (loop cfg k (arrs ++ [last])).getLast? = some Ev.close := by
  induction arrs generalizing k with
  | nil =>
    rcases h with h | h <;> subst h <;> simp [loop]
  | cons a rest ih =>
    cases a with
    | eof => simp [loop]
    | decodeErr => simp [loop]
    | request r =>
      have last_app : ∀ (l m : List Ev) (x : Ev), m.getLast? = some x → (l ++ m).getLast? = some x := by
        intro l m x h; rw [List.getLast?_append, h]; rfl
      simp only [List.cons_append, loop]
      apply last_app
      by_cases hc : (handleReq cfg k r).snd = true
      · rw [if_pos hc]; exact last_app _ _ _ (ih (k + 1))
      · rw [if_neg hc]; exact last_app _ _ _ (by simp)

/-- other connections are unaffected: non-interference of sessions (C09) — a hostile stream on one connection cannot
    change what any other connection's session does -/
theorem C10_others_unaffected (s1 s2 : List (Cfg × List Arrival)) (i : Nat) (h : s1[i]? = s2[i]?) :
    (system s1)[i]? = (system s2)[i]? := C09_noninterference s1 s2 i h

example : loop exCfg 0 [.decodeErr, .request exReq1] = [Ev.armRead, Ev.decode 0, Ev.close] := by decide

end Kmip.Session
