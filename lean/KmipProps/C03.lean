import KmipProofs.DecodeBasic
import KmipProofs.IoStackLemmas
/-
  C03 — Decode is total and safe on arbitrary bytes.
  Totality: `decodeTop` (KmipModel/Decode.lean) is a total Lean function accepted by structural recursion on the schema tree,
  the slice loop being bounded by a fuel equal to the window length + 1 — Lean's termination checker accepting these
  definitions is the proof that the decoder cannot loop or recurse unboundedly on any input.
-/
namespace Kmip

/-- for every target, every byte string and either way the stream may end, Decode does not panic -/
theorem C03_no_panic (t : Target) (bs : Bytes) (fin : Fin) : ∀ s, decodeTop t bs fin ≠ .panic s :=
  decodeTop_np t bs fin

/-- hence the outcome is one of: a value, raw EOF, or another error -/
theorem C03_outcomes (t : Target) (bs : Bytes) (fin : Fin) :
    (∃ r, decodeTop t bs fin = .ok r) ∨ decodeTop t bs fin = .err .eof ∨ decodeTop t bs fin = .err .other := by
  cases h : decodeTop t bs fin with
  | ok r => exact Or.inl ⟨r, rfl⟩
  | err e => cases e <;> simp
  | panic s => exact absurd h (C03_no_panic t bs fin s)

/-- the body of every structure is read through a window of at most the declared length: the nested decoder can never
    see a byte beyond the item's declared end (io.LimitReader) -/
theorem C03_window_bounded (d : Dec) (expected : Nat) : (limitDec d expected).win.length ≤ expected ∧
    (limitDec d expected).win = d.win.take expected := by
  unfold limitDec
  split
  · rename_i h; simp [List.length_take, Nat.min_eq_left h]
  · rename_i h
    have : d.win.length ≤ expected := by omega
    simp [List.take_of_length_le this]; omega

/-- the slice loop terminates within its fuel: it is defined by structural recursion on the fuel -/
theorem C03_slice_loop_total (step : Dec → Outcome (Val × Nat × Dec)) (ftag expected n : Nat) (dd : Dec) :
    sliceLoop step ftag expected 0 dd n = .err .other := rfl

/-- "Reading from an unbuffered byte source it never consumes bytes beyond the outermost item's declared end", on the real
    reader stack (KmipModel/IoStack.lean): the top-level structure of declared length `n` is read through
    `NewDecoder(io.LimitReader(src, n))`; whatever that nested decoder does - any reads, any depth of further nesting, all the
    read-ahead its 4096-byte bufio cares to do - the source underneath has handed out a prefix `x` of its bytes with
    `|x| ≤ n`: read-ahead stops at the declared end. -/
theorem C03_stack_no_overread (s : Io.Stack) (n : Nat) (t : Io.Stack) (hi : s.Inv) (hr : Io.Reach (s.nested n) t) :
    ∃ s' n' p e x, t = .buf (.lim s' n') 4096 p e ∧ s.content = x ++ s'.content ∧ x.length ≤ n ∧ Io.Reach s s' := by
  obtain ⟨i', p', e', rfl, ri⟩ := Io.reach_buf (by omega) hr
  obtain ⟨s', n', x, rfl, rs, _, cs, ln, _⟩ := Io.reach_lim ri hi
  exact ⟨s', n', p', e', x, rfl, cs, by omega, rs⟩

/-- non-vacuity: the Decoder's nested reader over a transport that delivers 7 bytes in one read, structure of 4 bytes: after
    a one-byte ReadFull the bufio has fetched the whole window - 4 bytes, not 7 -/
example : (match ((Io.Stack.src ⟨[[1, 2, 3, 4, 5, 6, 7]], .eof, false⟩).nested 4).readFull 1 with
    | .ok (b, .buf (.lim (.src s') n') _ p _) => (b, p, n', s'.flat)
    | _ => ([], [], 99, [])) = ([1], [2, 3, 4], 0, [5, 6, 7]) := by rfl

end Kmip
