import KmipProofs.SessionLemmas
/-
  C08 — every batch item is handled once with its own outcome; handlers cannot kill the server.
  Model: `calls`, `itemResult`, `handleReq` of KmipModel/Session.lean.
-/
namespace Kmip.Session

/-- the handler invocations of a batch: one per item whose operation has a registered handler, in item order,
    each with that item's index, operation and decoded payload -/
theorem C08_calls_once_in_order (cfg : Cfg) (k : Nat) (ra : Option Nat) (i : Nat) (items : List ReqItem) :
    calls cfg k ra i items =
      (items.zipIdx i).filterMap (fun (it, j) =>
        if cfg.registered.contains it.op then
          some (Ev.call k j it.op it.payload cfg.sessionId (sessVal cfg.sessionAuth) ra) else none) := by
  induction items generalizing i with
  | nil => simp [calls]
  | cons it rest ih =>
    simp only [calls, List.zipIdx_cons, List.filterMap_cons, ih]
    split <;> simp_all

/-- the outcome map, stated outright -/
theorem C08_outcome_success (reg : List Nat) (it : ReqItem) (p : Nat) (e : Bool)
    (hr : reg.contains it.op = true) (hb : it.beh = .success p e) :
    itemResult reg it = { op := it.op, uid := it.uid, status := statusSuccess, reason := 0, msg := none, payload := some p } := by
  simp only [itemResult, hr, hb, if_true]

theorem C08_outcome_nil (reg : List Nat) (it : ReqItem) (hr : reg.contains it.op = true) (hb : it.beh = .nilResult) :
    itemResult reg it = { op := it.op, uid := it.uid, status := statusSuccess, reason := 0, msg := none, payload := none } := by
  simp only [itemResult, hr, hb, if_true]

theorem C08_outcome_error (reg : List Nat) (it : ReqItem) (m : Nat) (hr : reg.contains it.op = true) (hb : it.beh = .error m) :
    itemResult reg it = { op := it.op, uid := it.uid, status := statusFailed, reason := generalFailure, msg := some m, payload := none } := by
  simp only [itemResult, hr, hb, if_true]

theorem C08_outcome_error_reason (reg : List Nat) (it : ReqItem) (m rs : Nat) (hr : reg.contains it.op = true) (hb : it.beh = .errorReason m rs) :
    itemResult reg it = { op := it.op, uid := it.uid, status := statusFailed, reason := rs, msg := some m, payload := none } := by
  simp only [itemResult, hr, hb, if_true]

theorem C08_outcome_panic (reg : List Nat) (it : ReqItem) (m : Nat) (hr : reg.contains it.op = true) (hb : it.beh = .panic m) :
    itemResult reg it = { op := it.op, uid := it.uid, status := statusFailed, reason := generalFailure, msg := some (panicMsg m), payload := none } := by
  simp only [itemResult, hr, hb, if_true]

/-- a handler that returns a first result together with its error: the item is that failure - the error's message and reason,
    General Failure when it has none - and carries NO payload -/
theorem C08_outcome_error_with_value (reg : List Nat) (it : ReqItem) (m : Nat) (rs : Option Nat) (e : Bool)
    (hr : reg.contains it.op = true) (hb : it.beh = .errorWith m rs e) :
    itemResult reg it = { op := it.op, uid := it.uid, status := statusFailed, reason := rs.getD generalFailure, msg := some m, payload := none } := by
  simp only [itemResult, hr, hb, if_true]

/-- ... and what that first result was - encodable or not - changes neither the item's result nor whether the response can be
    written: the outcome is exactly that of the handler returning the error alone -/
theorem C08_error_value_irrelevant (reg : List Nat) (it : ReqItem) (m : Nat) (rs : Option Nat) (e : Bool)
    (hb : it.beh = .errorWith m rs e) :
    itemResult reg it = itemResult reg { it with beh := match rs with | none => .error m | some r => .errorReason m r } ∧
    itemEncodable reg it = true := by
  unfold itemResult itemEncodable
  cases rs <;> simp [hb] <;> split <;> simp

theorem C08_outcome_no_handler (reg : List Nat) (it : ReqItem) (hr : reg.contains it.op = false) :
    itemResult reg it = { op := it.op, uid := it.uid, status := statusFailed, reason := operationNotSupported, msg := some msgNotSupported, payload := none } := by
  simp only [itemResult, hr]
  rfl

/-- isolation inside a batch: the result reported for item `i` is a function of item `i` alone — whatever the other
    items' handlers do (fail, panic, return junk) it does not change -/
theorem C08_isolation (cfg : Cfg) (r r' : Req) (i : Nat) (h : r.items[i]? = r'.items[i]?) :
    (respOf cfg r).items[i]? = (respOf cfg r').items[i]? := by
  simp [respOf, List.getElem?_map, h]

/- "nothing a handler returns terminates the process": in this model a handler's result only ever leads to a response or to a
   closed connection (the `Served` shape of C07); that the real Encode cannot panic on what a handler returns — the step outside
   `recover` — is C13_encode_no_panic (KmipProps/C13.lean), quantified over every kind of value. -/

/-- every handler invocation of a session appears inside the segment of its own request (follows from the Served shape):
    a call event's request index is the index of the arrival being handled -/
theorem C08_calls_belong (cfg : Cfg) (k : Nat) (ra : Option Nat) (i : Nat) (items : List ReqItem) :
    ∀ e ∈ calls cfg k ra i items, ∃ j op p sid sa, e = Ev.call k j op p sid sa ra := by
  induction items generalizing i with
  | nil => simp [calls]
  | cons it rest ih =>
    intro e he
    simp only [calls, List.mem_append] at he
    rcases he with he | he
    · split at he
      · simp at he; exact ⟨i, it.op, it.payload, cfg.sessionId, sessVal cfg.sessionAuth, he⟩
      · simp at he
    · exact ih (i + 1) e he

example : itemResult [18] { op := 18, uid := [1], payload := 7, beh := .errorWith 4 none false } =
    { op := 18, uid := [1], status := 1, reason := 0x100, msg := some 4, payload := none } := by decide

example : itemResult [18] { op := 18, uid := [1], payload := 7, beh := .panic 3 } =
    { op := 18, uid := [1], status := 1, reason := 0x100, msg := some 2000003, payload := none } := by decide

end Kmip.Session
