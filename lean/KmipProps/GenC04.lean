import KmipGen.CodecSrc
import KmipModel.ExpectCodec

/-
  Codec source tie (re-checked against /repo's current source on every run): the normalised source of every function of
  the groups below, as kvscan reads it from /repo now, is the text the model was validated against (KmipModel/ExpectCodec.lean;
  readable form in KmipModel/ExpectCodecSrc.txt). See harness/cmd/kvscan/srcdigest.go for the normalisation.
-/
namespace Kmip

/-- decoder (decode.go, decode_core.go) -/
theorem GenC04_codec_src_dec : KmipGen.codecSrc_dec = ExpectCodec.codecSrc_dec := by decide

/-- struct descriptors (fields.go, types.go) -/
theorem GenC04_codec_src_desc : KmipGen.codecSrc_desc = ExpectCodec.codecSrc_desc := by decide

/-- dynamic dispatch (BuildFieldValue methods) -/
theorem GenC04_codec_src_disp : KmipGen.codecSrc_disp = ExpectCodec.codecSrc_disp := by decide

end Kmip
