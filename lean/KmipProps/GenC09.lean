import KmipGen.CodecSrc
import KmipModel.ExpectCodec
import KmipModel.ExpectSkel
import KmipGen.Skeleton
import KmipGen.Dataflow
import KmipModel.ExpectFlow
/-
  C09, generated obligations: the operation skeletons of the server functions the session model mirrors, regenerated
  from /repo's server.go on every run, equal the reviewed expectations.
-/
namespace Kmip
theorem GenC09_serve_skeleton : KmipGen.skel_Server_serve = ExpectSkel.skel_Server_serve := by decide
theorem GenC09_handleBatch_skeleton : KmipGen.skel_Server_handleBatch = ExpectSkel.skel_Server_handleBatch := by decide
theorem GenC09_handleWrapped_skeleton : KmipGen.skel_Server_handleWrapped = ExpectSkel.skel_Server_handleWrapped := by decide
/-- where the contexts come from: the session context is built once per connection (`sessionCtx.SessionID = session`, SessionAuth from
    the callback), every request gets a COPY of it (`requestCtx.SessionContext = *session`) and its own RequestAuth -/
theorem GenC09_serve_dataflow : KmipGen.flow_Server_serve = ExpectFlow.flow_Server_serve := by decide +kernel
theorem GenC09_handleBatch_dataflow : KmipGen.flow_Server_handleBatch = ExpectFlow.flow_Server_handleBatch := by decide +kernel
end Kmip

namespace Kmip

/-- decoder (decode.go, decode_core.go): the server / client acts on what Decode returns -/
theorem GenC09_codec_src_dec : KmipGen.codecSrc_dec = ExpectCodec.codecSrc_dec := by decide

/-- struct descriptors (fields.go, types.go) -/
theorem GenC09_codec_src_desc : KmipGen.codecSrc_desc = ExpectCodec.codecSrc_desc := by decide

/-- dynamic dispatch (BuildFieldValue methods) -/
theorem GenC09_codec_src_disp : KmipGen.codecSrc_disp = ExpectCodec.codecSrc_disp := by decide

end Kmip
