import KmipModel.ExpectSkel
import KmipModel.Wire
import KmipGen.Schema
import KmipGen.Skeleton
/-
  C07, generated obligations: the ordered operation skeletons of `Server.serve` and `Server.handleBatch`,
  regenerated from /repo's server.go on every run, are the ones the session model was written against
  (in particular: every failure of Decode, handleBatch and Encode leaves the request loop).
-/
namespace Kmip
theorem GenC07_serve_skeleton : KmipGen.skel_Server_serve = ExpectSkel.skel_Server_serve := by decide
theorem GenC07_handleBatch_skeleton : KmipGen.skel_Server_handleBatch = ExpectSkel.skel_Server_handleBatch := by decide

/-! the message model (KmipModel/Wire.lean) reads and writes the fields server.go / client.go read and write: positions and
    field counts against the schema regenerated from /repo -/
def wireNameAt (sd : SD) (i : Nat) : Option String := (sd.fields[i]?).map Fld.name

open Kmip.Wire in
theorem GenC07_wire_positions :
    wireNameAt KmipGen.sd_Request rqHeader = some "Header" ∧
    wireNameAt KmipGen.sd_Request rqItems = some "BatchItems" ∧
    wireNameAt KmipGen.sd_RequestHeader hVersion = some "Version" ∧
    wireNameAt KmipGen.sd_RequestHeader hClientCorr = some "ClientCorrelationValue" ∧
    wireNameAt KmipGen.sd_RequestHeader hAsync = some "AsynchronousIndicator" ∧
    wireNameAt KmipGen.sd_RequestHeader hAuth = some "Authentication" ∧
    wireNameAt KmipGen.sd_RequestHeader hBatchCount = some "BatchCount" ∧
    wireNameAt KmipGen.sd_Authentication aCredType = some "CredentialType" ∧
    wireNameAt KmipGen.sd_RequestBatchItem iOperation = some "Operation" ∧
    wireNameAt KmipGen.sd_RequestBatchItem iUniqueID = some "UniqueID" ∧
    wireNameAt KmipGen.sd_RequestBatchItem iPayload = some "RequestPayload" := by decide

/-- the Response / Request values the message model builds have one entry per field of the Go structs, in their order -/
theorem GenC07_wire_shapes :
    KmipGen.sd_Response.fields.map Fld.name = ["Header", "BatchItems"] ∧
    KmipGen.sd_ResponseHeader.fields.map Fld.name =
      ["Version", "TimeStamp", "Nonce", "AttestationType", "ClientCorrelationValue", "ServerCorrelationValue", "BatchCount"] ∧
    KmipGen.sd_ResponseBatchItem.fields.map Fld.name =
      ["Operation", "UniqueID", "ResultStatus", "ResultReason", "ResultMessage", "AsyncronousCorrelationValue", "ResponsePayload", "MessageExtension"] ∧
    KmipGen.sd_RequestHeader.fields.map Fld.name =
      ["Version", "MaxResponseSize", "ClientCorrelationValue", "ServerCorrelationValue", "AsynchronousIndicator",
       "AttestationCapableIndicator", "AttestationType", "Authentication", "BatchErrorContinuationOption", "BatchOrderOption",
       "TimeStamp", "BatchCount"] ∧
    KmipGen.sd_RequestBatchItem.fields.map Fld.name = ["Operation", "UniqueID", "RequestPayload", "MessageExtension"] ∧
    KmipGen.sd_Authentication.fields.map Fld.name = ["CredentialType", "CredentialValue"] ∧
    KmipGen.sd_ProtocolVersion.fields.map Fld.name = ["Major", "Minor"] := by decide

end Kmip
