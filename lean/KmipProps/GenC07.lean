import KmipModel.ExpectSkel
import KmipModel.Wire
import KmipGen.Schema
import KmipProofs.WireGen
import KmipProps.C01
import KmipProps.C07
import KmipGen.Skeleton
import KmipGen.Dataflow
import KmipModel.ExpectFlow
/-
  C07, generated obligations: the ordered operation skeletons of `Server.serve` and `Server.handleBatch`,
  regenerated from /repo's server.go on every run, are the ones the session model was written against
  (in particular: every failure of Decode, handleBatch and Encode leaves the request loop).
-/
namespace Kmip
theorem GenC07_serve_skeleton : KmipGen.skel_Server_serve = ExpectSkel.skel_Server_serve := by decide
theorem GenC07_handleBatch_skeleton : KmipGen.skel_Server_handleBatch = ExpectSkel.skel_Server_handleBatch := by decide

/-! the message model (KmipModel/Wire.lean) reads and writes the fields server.go / client.go read and write: positions and
    field counts against the schema regenerated from /repo -/
def wireNameAt (sd : SD) (i : Nat) : Option String := (sd.fields[i]?).map Fld.name

open Kmip.Wire in
theorem GenC07_wire_positions :
    wireNameAt KmipGen.sd_Request rqHeader = some "Header" ∧
    wireNameAt KmipGen.sd_Request rqItems = some "BatchItems" ∧
    wireNameAt KmipGen.sd_RequestHeader hVersion = some "Version" ∧
    wireNameAt KmipGen.sd_RequestHeader hClientCorr = some "ClientCorrelationValue" ∧
    wireNameAt KmipGen.sd_RequestHeader hAsync = some "AsynchronousIndicator" ∧
    wireNameAt KmipGen.sd_RequestHeader hAuth = some "Authentication" ∧
    wireNameAt KmipGen.sd_RequestHeader hBatchCount = some "BatchCount" ∧
    wireNameAt KmipGen.sd_Authentication aCredType = some "CredentialType" ∧
    wireNameAt KmipGen.sd_RequestBatchItem iOperation = some "Operation" ∧
    wireNameAt KmipGen.sd_RequestBatchItem iUniqueID = some "UniqueID" ∧
    wireNameAt KmipGen.sd_RequestBatchItem iPayload = some "RequestPayload" := by decide

/-- the Response / Request values the message model builds have one entry per field of the Go structs, in their order -/
theorem GenC07_wire_shapes :
    KmipGen.sd_Response.fields.map Fld.name = ["Header", "BatchItems"] ∧
    KmipGen.sd_ResponseHeader.fields.map Fld.name =
      ["Version", "TimeStamp", "Nonce", "AttestationType", "ClientCorrelationValue", "ServerCorrelationValue", "BatchCount"] ∧
    KmipGen.sd_ResponseBatchItem.fields.map Fld.name =
      ["Operation", "UniqueID", "ResultStatus", "ResultReason", "ResultMessage", "AsyncronousCorrelationValue", "ResponsePayload", "MessageExtension"] ∧
    KmipGen.sd_RequestHeader.fields.map Fld.name =
      ["Version", "MaxResponseSize", "ClientCorrelationValue", "ServerCorrelationValue", "AsynchronousIndicator",
       "AttestationCapableIndicator", "AttestationType", "Authentication", "BatchErrorContinuationOption", "BatchOrderOption",
       "TimeStamp", "BatchCount"] ∧
    KmipGen.sd_RequestBatchItem.fields.map Fld.name = ["Operation", "UniqueID", "RequestPayload", "MessageExtension"] ∧
    KmipGen.sd_Authentication.fields.map Fld.name = ["CredentialType", "CredentialValue"] ∧
    KmipGen.sd_ProtocolVersion.fields.map Fld.name = ["Major", "Minor"] := by decide


/-! ### the response through the bytes: what a Client decodes from what the Server encoded, for a batch of any size -/
set_option linter.unusedSimpArgs false
open Kmip.Wire

/-- **C07 through the bytes.**  For ANY decoded Request value and any handlers: if handleBatch answers (`resp`), then whatever
    bytes Encode writes for that Response, a Client's Decode of them yields a value in which it reads the request's batch
    count and, item by item in the request's order, the request item's operation with the outcome of the handler invoked for
    that item (payloads up to Decode's normalisation, reasons and messages verbatim). -/
theorem GenC07_wire_echo_over_the_wire (clock : Nat) (authOk : Bool) (H : Nat → ItemIn → HRes) (req resp : Val) (sb : Bytes) (fin : Fin)
    (h : handleBatch wireZNonce wireZExt clock authOk H req = some resp)
    (hw : WFv (.struct KmipGen.sd_Response) resp) (hs : (canonTop KmipGen.sd_Response resp).Small = true)
    (he : encodeSD KmipGen.sd_Response resp = .ok sb) :
    ∃ rq cv d', reqView req = some rq ∧ rq.batchCount = rq.items.length ∧
      decodeSD KmipGen.sd_Response sb fin = .ok (cv, sb.length, d') ∧
      Client.respView cv = some { batchCount := rq.batchCount, items := viewsOfN H 0 rq.items } := by
  obtain ⟨rq, hv, hr, hbc, _, _, _⟩ := C07_wire_echo wireZNonce wireZExt clock authOk H req resp h
  obtain ⟨_, _, _, hd2, hok2, ht2⟩ := wire_schemas_ok
  obtain ⟨d', hdec⟩ := C01_roundtrip KmipGen.sd_Response resp sb fin hd2 hok2 ht2 hw hs he
  refine ⟨rq, _, d', hv, hbc, hdec, ?_⟩
  rw [hr]
  exact respView_norm_respVal_all clock H rq

/-- the k-th item a Client decodes answers the k-th item of the request -/
theorem GenC07_wire_item_over_the_wire (H : Nat → ItemIn → HRes) : ∀ (i : Nat) (its : List ItemIn) (k : Nat) (it : ItemIn),
    its[k]? = some it → (viewsOfN H i its)[k]? = some (viewOfN it (H (i + k) it))
  | _, [], k, it, h => by simp at h
  | i, x :: rest, 0, it, h => by
    simp only [List.getElem?_cons_zero, Option.some.injEq] at h
    subst h
    simp [viewsOfN]
  | i, x :: rest, k + 1, it, h => by
    simp only [List.getElem?_cons_succ] at h
    have := GenC07_wire_item_over_the_wire H (i + 1) rest k it h
    simp only [viewsOfN, List.getElem?_cons_succ, this]
    congr 3
    omega

/-- dataflow tie: every assignment in handleBatch, target and source (the header copies, the per-item copies, the results) -/
theorem GenC07_handleBatch_dataflow : KmipGen.flow_Server_handleBatch = ExpectFlow.flow_Server_handleBatch := by decide +kernel
/-- ... and the assignments to the Response among them are exactly the copies the message model makes -/
theorem GenC07_response_copies : Wire.under "resp".toList KmipGen.flow_Server_handleBatch = Wire.respFlow := by decide +kernel

end Kmip
