import KmipModel.ExpectSkel
import KmipGen.Skeleton
/-
  C07, generated obligations: the ordered operation skeletons of `Server.serve` and `Server.handleBatch`,
  regenerated from /repo's server.go on every run, are the ones the session model was written against
  (in particular: every failure of Decode, handleBatch and Encode leaves the request loop).
-/
namespace Kmip
theorem GenC07_serve_skeleton : KmipGen.skel_Server_serve = ExpectSkel.skel_Server_serve := by decide
theorem GenC07_handleBatch_skeleton : KmipGen.skel_Server_handleBatch = ExpectSkel.skel_Server_handleBatch := by decide
end Kmip
