import KmipModel.ExpectSkel
import KmipGen.Skeleton
import KmipGen.TlsDefaults
import KmipModel.Discover
/-
  C20, generated obligations: the built-in handler's skeleton (both results are built by `append` onto a nil slice), the
  defaulting in Serve (a copy made by `append([]ProtocolVersion(nil), DefaultSupportedVersions...)`), and the value of
  DefaultSupportedVersions as compiled.
-/
namespace Kmip
theorem GenC20_handler_skeleton : KmipGen.skel_Server_handleDiscoverVersions = ExpectSkel.skel_Server_handleDiscoverVersions := by decide
theorem GenC20_serve_skeleton : KmipGen.skel_Server_Serve = ExpectSkel.skel_Server_Serve := by decide
theorem GenC20_defaults : KmipGen.defaultSupportedVersions = Discover.defaultVersions := by decide
end Kmip
