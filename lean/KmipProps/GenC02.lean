import KmipGen.SyncTable
/-
  C02, generated obligation (re-checked against /repo's current source on every run):
  no function of the package ever writes a package-level variable (or calls a method on one), so there
  is no process-wide state an Encode could depend on — descriptors are built afresh per call.
-/
namespace Kmip

def packageLevelWrites : List (String × String × String × Bool × Bool) :=
  KmipGen.accessTable.filter (fun r => r.2.1 == "pkg" && r.2.2.2.1)

theorem GenC02_no_package_state : packageLevelWrites = [] := by decide

end Kmip
