import KmipGen.CodecSrc
import KmipModel.ExpectCodec
import KmipGen.SyncTable
/-
  C02, generated obligation (re-checked against /repo's current source on every run):
  no function of the package ever writes a package-level variable (or calls a method on one), so there
  is no process-wide state an Encode could depend on — descriptors are built afresh per call.
-/
namespace Kmip

def packageLevelWrites : List (String × String × String × Bool × Bool) :=
  KmipGen.accessTable.filter (fun r => r.2.1 == "pkg" && r.2.2.2.1)

theorem GenC02_no_package_state : packageLevelWrites = [] := by decide

end Kmip

/-
  Codec source tie (re-checked against /repo's current source on every run): the normalised source of every function of
  the groups below, as kvscan reads it from /repo now, is the text the model was validated against (KmipModel/ExpectCodec.lean;
  readable form in KmipModel/ExpectCodecSrc.txt). See harness/cmd/kvscan/srcdigest.go for the normalisation.
-/
namespace Kmip

/-- encoder (encode.go, encode_core.go) -/
theorem GenC02_codec_src_enc : KmipGen.codecSrc_enc = ExpectCodec.codecSrc_enc := by decide

/-- struct descriptors (fields.go, types.go) -/
theorem GenC02_codec_src_desc : KmipGen.codecSrc_desc = ExpectCodec.codecSrc_desc := by decide

end Kmip
