import KmipModel.ExpectSkel
import KmipGen.Skeleton
/-
  C11, generated obligations: the ordered synchronisation skeletons of Serve, Shutdown, serve and getDoneChan,
  regenerated from /repo's server.go on every run, equal the reviewed ones the transition system was written from:
  in particular the registration `lock; select done → unlock, conn.Close, return nil; default; wg.Add; unlock; go serve`,
  Shutdown's `close(done); lock; listener.Close; unlock; go { wg.Wait; close }; select ctx.Done / waitGroupDone`, and
  serve's deferred `conn.Close` running before the deferred `wg.Done`.
-/
namespace Kmip
theorem GenC11_Serve_skeleton : KmipGen.skel_Server_Serve = ExpectSkel.skel_Server_Serve := by decide
theorem GenC11_Shutdown_skeleton : KmipGen.skel_Server_Shutdown = ExpectSkel.skel_Server_Shutdown := by decide
theorem GenC11_serve_skeleton : KmipGen.skel_Server_serve = ExpectSkel.skel_Server_serve := by decide
theorem GenC11_getDoneChan_skeleton : KmipGen.skel_Server_getDoneChan = ExpectSkel.skel_Server_getDoneChan := by decide
end Kmip
