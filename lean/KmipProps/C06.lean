import KmipProps.C04
import KmipProps.C03
import KmipModel.Stream
import KmipProofs.IoLemmas
import KmipProofs.IoStackLemmas
import KmipProofs.DecodeStackSim
/-
  C06 — message framing on a stream is independent of how the transport fragments bytes.

  Proved here (flat view of the stream): each successful Decode consumes exactly its own message — 8 bytes plus the declared
  length — and leaves the decoder with nothing buffered at the first byte of the next message; hence successive Decode calls
  on one Decoder return back-to-back messages one by one, and then report raw io.EOF at the clean end of the stream.
  Fragmentation independence: the decoder reads its source only through io.ReadFull, ReadByte and a per-structure
  io.LimitReader.  `C06_readFull_chunk_independent` and `C06_limit_chunk_independent` (bottom of this file) prove that Go's
  ReadFull loop, directly and through a LimitReader, over ANY way of cutting the same bytes into Read results (zero-length
  reads, last data together with the final error included) returns exactly what the flat reader of the decoder model returns
  and leaves a source carrying exactly the remaining bytes.  What is still assumed, not proved: that bufio.Reader hands on
  the bytes of its source in order (it is a re-chunking), and that the decoder model's composition of these primitives is
  decode.go's — both exercised by kvrun C06 (every two-way split offset, one-byte reads, random chunks with zero-length
  reads, data-with-EOF in small and in full reads; buffered and unbuffered).
-/
namespace Kmip

/-- the declared length of the item at the head of a byte string -/
def declaredLen (bs : Bytes) : Nat := fromBE ((bs.drop 4).take 4)

/-- exact consumption: a successful Decode returns the count 8 + declared length, and the decoder is left with nothing
    buffered exactly that many bytes further on -/
theorem C06_exact_consumption (sd : SD) (bs : Bytes) (fin : Fin) (v : Val) (n : Nat) (d' : Dec)
    (h : decodeSD sd bs fin = .ok (v, n, d')) :
    n = 8 + declaredLen bs ∧ n ≤ bs.length ∧ d' = ⟨bs.drop n, fin, 0⟩ := by
  have hspec := C04_sound sd bs fin v n d' h
  obtain ⟨t, ty, E, body, hc, hn, hfit, _, _⟩ := spec_header sd bs v n hspec
  obtain ⟨h8, _, _, hE, hbody, hb⟩ := cutHeader_some bs t ty E body hc
  unfold decodeSD decodeTop at h
  by_cases hd : sd.descOk = true
  · simp only [hd, if_true] at h
    obtain ⟨r', hs, hd', hnr⟩ := ((S_spec sd sd.tag).iff bs fin v n d').mp h
    refine ⟨by rw [hn, hE]; rfl, by omega, ?_⟩
    -- the remaining bytes are determined by their length: they are a suffix of bs
    cases sd with
    | mk nm t0 fields =>
      simp only [specStruct, Option.bind_eq_some_iff] at hs
      obtain ⟨⟨t', ty', l, payload, rest⟩, hcs, hs⟩ := hs
      rw [cutStruct_eq, hc] at hcs
      simp only [hfit, if_true, Option.some.injEq, Prod.mk.injEq] at hcs
      obtain ⟨_, _, _, _, e5⟩ := hcs
      simp only at hs
      split at hs
      · rw [Option.bind_eq_some_iff] at hs
        obtain ⟨_, _, hs⟩ := hs
        split at hs
        · simp only [Option.some.injEq, Prod.mk.injEq] at hs
          rw [hd', ← hs.2, ← e5, hbody, List.drop_drop, hn]
        · simp at hs
      · simp at hs
  · simp [hd] at h

/-- a message accepted as a whole is accepted, with the same value, when more bytes follow it on the stream -/
theorem cutHeader_append (m rest : Bytes) (t ty l : Nat) (body : Bytes) (h : cutHeader m = some (t, ty, l, body)) :
    cutHeader (m ++ rest) = some (t, ty, l, body ++ rest) := by
  obtain ⟨h8, e1, e2, e3, e4, _⟩ := cutHeader_some m t ty l body h
  unfold cutHeader
  have : 8 ≤ (m ++ rest).length := by simp; omega
  rw [if_pos this]
  have t3 : (m ++ rest).take 3 = m.take 3 := List.take_append_of_le_length (by omega)
  have d3 : ((m ++ rest).drop 3).take 1 = (m.drop 3).take 1 := by
    rw [List.drop_append_of_le_length (by omega), List.take_append_of_le_length (by simp; omega)]
  have d4 : ((m ++ rest).drop 4).take 4 = (m.drop 4).take 4 := by
    rw [List.drop_append_of_le_length (by omega), List.take_append_of_le_length (by simp; omega)]
  have d8 : (m ++ rest).drop 8 = m.drop 8 ++ rest := List.drop_append_of_le_length (by omega)
  rw [t3, d3, d4, d8, ← e1, ← e2, ← e3, ← e4]

theorem specStruct_append (tag : Nat) (sd : SD) (m rest : Bytes) (v : Val) (h : specStruct tag sd m = some (v, [])) :
    specStruct tag sd (m ++ rest) = some (v, rest) := by
  cases sd with
  | mk nm t0 fields =>
    simp only [specStruct, Option.bind_eq_some_iff] at h ⊢
    obtain ⟨⟨t, ty, l, payload, r0⟩, hc, h⟩ := h
    rw [cutStruct_eq] at hc
    cases hh : cutHeader m with
    | none => rw [hh] at hc; simp at hc
    | some x =>
      obtain ⟨t2, ty2, E, body⟩ := x
      rw [hh] at hc
      simp only at hc
      by_cases hfit : E ≤ body.length
      · rw [if_pos hfit] at hc
        simp only [Option.some.injEq, Prod.mk.injEq] at hc
        obtain ⟨e1, e2, e3, e4, e5⟩ := hc
        subst e1 e2 e3 e4 e5
        -- the whole of m was consumed: the body is exactly E bytes long
        have hle : body.length ≤ E := by
          simp only at h
          split at h
          · rw [Option.bind_eq_some_iff] at h
            obtain ⟨_, _, h⟩ := h
            split at h
            · simp at h; exact h.2
            · simp at h
          · simp at h
        have hlen : body.length = E := by omega
        refine ⟨(t2, ty2, E, body.take E, rest), ?_, ?_⟩
        · rw [cutStruct_eq, cutHeader_append m rest t2 ty2 E body hh]
          have : E ≤ (body ++ rest).length := by simp; omega
          simp only [this, if_true, Option.some.injEq, Prod.mk.injEq, true_and]
          constructor
          · rw [List.take_append_of_le_length (by omega)]
          · rw [List.drop_append_of_le_length (by omega), List.drop_of_length_le (by omega)]; simp
        · simp only at h ⊢
          split at h
          · rename_i hcond
            rw [if_pos hcond]
            rw [Option.bind_eq_some_iff] at h ⊢
            obtain ⟨x, hx, h⟩ := h
            refine ⟨x, hx, ?_⟩
            split at h
            · rename_i hl; rw [if_pos hl]; simp at h ⊢; exact h.1
            · simp at h
          · simp at h
      · rw [if_neg hfit] at hc; simp at hc

/-- messages on a stream: each `m` is one whole message for its descriptor -/
structure Msg where
  sd : SD
  bytes : Bytes
  value : Val

def Msg.Whole (m : Msg) : Prop := m.sd.descOk = true ∧ specStruct m.sd.tag m.sd m.bytes = some (m.value, [])

def concatMsgs : List Msg → Bytes
  | [] => []
  | m :: ms => m.bytes ++ concatMsgs ms

/-- successive Decode calls on one Decoder return the messages one by one, in order and unaltered, each having consumed
    exactly its own bytes, and leave the decoder at the first byte after the last message with nothing buffered -/
theorem C06_stream (ms : List Msg) (hw : ∀ m ∈ ms, m.Whole) (rest : Bytes) (fin : Fin) :
    decodeStream (ms.map Msg.sd) ⟨concatMsgs ms ++ rest, fin, 0⟩ =
      (ms.map fun m => (m.value, m.bytes.length), none, ⟨rest, fin, 0⟩) := by
  induction ms with
  | nil => simp [decodeStream, concatMsgs]
  | cons m ms ih =>
    have hm := hw m (by simp)
    have hrest := ih (fun x hx => hw x (by simp [hx]))
    simp only [List.map_cons, decodeStream, hm.1, if_true, concatMsgs, List.append_assoc]
    have hs := specStruct_append m.sd.tag m.sd m.bytes (concatMsgs ms ++ rest) m.value hm.2
    have hdec := ((S_spec m.sd m.sd.tag).iff (m.bytes ++ (concatMsgs ms ++ rest)) fin m.value m.bytes.length
      ⟨concatMsgs ms ++ rest, fin, 0⟩).mpr ⟨_, hs, rfl, by simp⟩
    rw [hdec]
    simp only [hrest]

/-- … and the next Decode at the clean end of the stream reports raw io.EOF -/
theorem C06_clean_eof (sd : SD) (hd : sd.descOk = true) : decodeSD sd [] .eof = .err .eof := by
  unfold decodeSD decodeTop
  cases sd with
  | mk nm t0 fields =>
    simp only [hd, if_true, decStruct]
    rw [expectTag_eval]
    simp [Fin.err]

/-! ### fragmentation independence of the reader primitives -/

/-- what a ReadFull leaves behind, forgetting how the source is cut into chunks: bytes read, bytes still to come, final error -/
def viewSrc : Outcome (Bytes × Io.Src) → Outcome (Bytes × Bytes × Fin)
  | .ok (b, s') => .ok (b, s'.flat, s'.fin)
  | .err e => .err e
  | .panic p => .panic p

def viewDec : Outcome (Bytes × Dec) → Outcome (Bytes × Bytes × Fin)
  | .ok (b, d') => .ok (b, d'.win, d'.fin)
  | .err e => .err e
  | .panic p => .panic p

/-- Go's `io.ReadFull` over any chunking of the source is the decoder model's flat `readFull` -/
theorem C06_readFull_chunk_independent (s : Io.Src) (k last : Nat) :
    viewSrc (s.readFull k) = viewDec (readFull ⟨s.flat, s.fin, last⟩ k) := by
  obtain ⟨h1, h2⟩ := Io.readFull_flat s k
  unfold readFull
  by_cases hk : k ≤ s.flat.length
  · obtain ⟨s', e1, e2, e3, _⟩ := h1 hk
    simp only [hk, if_true, e1, viewSrc, viewDec, e2, e3]
  · rw [h2 hk]
    simp only [hk, if_false, viewSrc, viewDec]
    by_cases hz : s.flat.length = 0
    · simp [hz]
    · simp [hz]

/-- hence two sources carrying the same bytes and ending the same way are indistinguishable through ReadFull,
    however differently they are fragmented -/
theorem C06_chunking_irrelevant (s₁ s₂ : Io.Src) (hb : s₁.flat = s₂.flat) (hf : s₁.fin = s₂.fin) (k : Nat) :
    viewSrc (s₁.readFull k) = viewSrc (s₂.readFull k) := by
  rw [C06_readFull_chunk_independent s₁ k 0, C06_readFull_chunk_independent s₂ k 0, hb, hf]

/-- the same through `io.LimitReader(src, n)`: the nested decoder of a structure body sees exactly the model's `limitDec` window -/
def viewLim : Outcome (Bytes × Io.Lim) → Outcome (Bytes × Bytes × Fin)
  | .ok (b, l') => .ok (b, l'.src.flat.take l'.n, if l'.n ≤ l'.src.flat.length then .eof else l'.src.fin)
  | .err e => .err e
  | .panic p => .panic p

theorem C06_limit_chunk_independent (s : Io.Src) (n k : Nat) :
    viewLim ((Io.Lim.mk s n).readFull k) = viewDec (readFull (limitDec ⟨s.flat, s.fin, 0⟩ n) k) := by
  obtain ⟨h1, h2⟩ := Io.Lim.readFull_flat ⟨s, n⟩ k
  simp only at h1 h2
  unfold limitDec readFull
  by_cases hn : n ≤ s.flat.length
  · have hmin : min n s.flat.length = n := by omega
    rw [hmin] at h1 h2
    simp only [hn, if_true, List.length_take, hmin]
    by_cases hk : k ≤ n
    · obtain ⟨l', e1, e2, e3, e4⟩ := h1 hk
      simp only [hk, if_true, e1, viewLim, viewDec, e2, e3]
      have hle : n - k ≤ (s.flat.drop k).length := by simp; omega
      simp only [hle, if_true]
      congr 2
      · rw [List.take_take, Nat.min_eq_left hk]
      · congr 1
        rw [List.drop_take]
    · rw [h2 hk]
      simp only [hk, if_false, viewLim, viewDec]
      by_cases hz : n = 0
      · simp [hz, Io.limErr, Fin.err]
      · simp [hz]
  · have hmin : min n s.flat.length = s.flat.length := by omega
    rw [hmin] at h1 h2
    simp only [hn, if_false]
    by_cases hk : k ≤ s.flat.length
    · obtain ⟨l', e1, e2, e3, e4⟩ := h1 hk
      simp only [hk, if_true, e1, viewLim, viewDec, e2, e3, e4]
      have hgt : ¬ n - k ≤ (s.flat.drop k).length := by simp; omega
      simp only [hgt, if_false]
      congr 2
      congr 1
      exact List.take_of_length_le (by simp; omega)
    · rw [h2 hk]
      simp only [hk, if_false, viewLim, viewDec]
      by_cases hz : s.flat.length = 0
      · have hn0 : n ≠ 0 := by omega
        simp [hz, Io.limErr, hn0]
      · simp [hz]

/-- non-vacuity: a source in five reads (two of them empty, the last with the error attached) against the flat bytes -/
example : viewSrc ((Io.Src.mk [[1, 2], [], [3], [], [4, 5, 6]] .eof true).readFull 4) = .ok ([1, 2, 3, 4], [5, 6], .eof) := by
  rfl

/-! ### the whole reader stack: bufio over LimitReader over bufio over … over the transport, at any depth

`Io.Stack` (KmipModel/IoStack.lean) models the stack the Decoder really reads through, layer by layer after the Go sources.
The decoder model (`Dec`: a window of bytes, the error that follows it) is its FLAT view.  The theorems below say that each
primitive the Decoder uses - io.ReadFull, ReadByte, io.CopyN(Discard), entering and leaving a nested structure - computes on
a stack exactly what the model computes on the flat view, for every chunking of the transport, every buffer content and
every depth.  `Io.Stack.Inv` is the guard: data arrives together with an error only if that error is EOF (the property's
"data returned together with EOF"), and there are fewer than 100 consecutive zero-length reads (bufio.Reader gives up with
io.ErrNoProgress at 100 - the one way "zero-length reads" CAN change the outcome, see the example at the end). -/

/-- the flat view of what a primitive leaves behind -/
def viewStack : Outcome (Bytes × Io.Stack) → Outcome (Bytes × Bytes × ErrClass)
  | .ok (b, s') => .ok (b, s'.content, s'.fin)
  | .err e => .err e
  | .panic p => .panic p

def viewDecE : Outcome (Bytes × Dec) → Outcome (Bytes × Bytes × ErrClass)
  | .ok (b, d') => .ok (b, d'.win, d'.fin.err)
  | .err e => .err e
  | .panic p => .panic p

/-- `io.ReadFull` through any stack = the model's flat `readFull` -/
theorem C06_stack_readFull (s : Io.Stack) (hi : s.Inv) (f : Fin) (hf : s.fin = f.err) (k last : Nat) :
    viewStack (s.readFull k) = viewDecE (readFull ⟨s.content, f, last⟩ k) := by
  obtain ⟨h1, h2⟩ := Io.stackReadFull_flat s k hi
  unfold readFull
  by_cases hk : k ≤ s.content.length
  · obtain ⟨s', e1, _, e3, e4⟩ := h1 hk
    simp only [hk, if_true, e1, viewStack, viewDecE, e3, e4, hf]
  · rw [h2 hk]
    simp only [hk, if_false, viewStack, viewDecE]
    by_cases hz : s.content.length = 0
    · simp [hz, hf]
    · simp [hz]

/-- `ReadByte` on a buffered stack = the model's flat `readByte` -/
theorem C06_stack_readByte (i : Io.Stack) (sz : Nat) (pend : Bytes) (er : Option ErrClass)
    (hi : (Io.Stack.buf i sz pend er).Inv) (f : Fin) (hf : (Io.Stack.buf i sz pend er).fin = f.err) (last : Nat) :
    (match (Io.Stack.buf i sz pend er).readByte with
      | .ok (c, s') => Outcome.ok (c.toNat, s'.content, s'.fin)
      | .err e => .err e
      | .panic p => .panic p) =
    (match readByte ⟨(Io.Stack.buf i sz pend er).content, f, last⟩ with
      | .ok (c, d') => Outcome.ok (c, d'.win, d'.fin.err)
      | .err e => .err e
      | .panic p => .panic p) := by
  obtain ⟨h1, h2⟩ := Io.readByte_flat i sz pend er hi
  unfold readByte
  cases hc : (Io.Stack.buf i sz pend er).content with
  | nil => rw [h1 hc]; simp [hf]
  | cons c rest =>
    obtain ⟨s', e1, _, e3, e4⟩ := h2 c rest hc
    rw [e1]; simp [e3, e4, hf]

/-- `io.CopyN(ioutil.Discard, r, ll)` through any stack = the model's skip: `ll` flat bytes dropped, or the source's RAW error -/
theorem C06_stack_skip (s : Io.Stack) (hi : s.Inv) (ll : Nat) :
    (match s.copyNDiscard ll with
      | .ok s' => Outcome.ok (s'.content, s'.fin)
      | .err e => .err e
      | .panic p => .panic p) =
    (if ll ≤ s.content.length then .ok (s.content.drop ll, s.fin) else .err s.fin) := by
  obtain ⟨h1, h2⟩ := Io.copyNDiscard_flat s ll hi
  by_cases hk : ll ≤ s.content.length
  · obtain ⟨s', e1, _, e3, e4⟩ := h1 hk
    rw [e1, if_pos hk]; simp [e3, e4]
  · rw [h2 hk, if_neg hk]

/-- entering a nested structure: `NewDecoder(io.LimitReader(d.r, n))` shows the nested decoder exactly the model's `limitDec` window -/
theorem C06_stack_enter (s : Io.Stack) (hi : s.Inv) (f : Fin) (hf : s.fin = f.err) (n last : Nat) :
    (s.nested n).Inv ∧ (s.nested n).content = (limitDec ⟨s.content, f, last⟩ n).win ∧
    (s.nested n).fin = (limitDec ⟨s.content, f, last⟩ n).fin.err := by
  obtain ⟨g1, g2, g3⟩ := Io.nested_view s n hi
  refine ⟨g1, ?_, ?_⟩
  · rw [g2]; unfold limitDec
    by_cases h : n ≤ s.content.length
    · simp [h]
    · simp only [h, if_false]; exact List.take_of_length_le (by omega)
  · unfold limitDec
    by_cases h : n ≤ s.content.length
    · simp [h, g3 h, Fin.err]
    · simp [h, Io.Stack.nested, Io.Stack.fin, hf]

/-- leaving it: whatever the nested decoder did (`Io.Reach`: any reads, any read-ahead of its bufio), once its window is used up the
    stack underneath has advanced by exactly the declared length - "each successful Decode consumes exactly its own message",
    one level down, for every nested structure -/
theorem C06_stack_leave (s : Io.Stack) (n : Nat) (t : Io.Stack) (hi : s.Inv) (hr : Io.Reach (s.nested n) t)
    (hn : n ≤ s.content.length) (hc : t.content = []) :
    ∃ s' e, t = .buf (.lim s' 0) 4096 [] e ∧ Io.Reach s s' ∧ s'.Inv ∧ s'.content = s.content.drop n ∧ s'.fin = s.fin :=
  Io.nested_pop s n t hi hr hn hc

/-- and every state the Decoder's primitives can take a stack to is again one the theorems apply to -/
theorem C06_stack_closed (s t : Io.Stack) (hi : s.Inv) (hr : Io.Reach s t) :
    t.Inv ∧ (∃ x, s.content = x ++ t.content) ∧ t.fin = s.fin := Io.reach_law hr hi

theorem C06_stack_readFull_reach (s : Io.Stack) (k : Nat) (b : Bytes) (s' : Io.Stack) (h : s.readFull k = .ok (b, s')) :
    Io.Reach s s' := Io.readFull_reach s k b s' h

theorem C06_stack_skip_reach (s : Io.Stack) (hi : s.Inv) (n : Nat) (s' : Io.Stack) (h : s.copyNDiscard n = .ok s') :
    Io.Reach s s' := Io.copyNDiscard_reach s n s' hi h

/-- hence two stacks with the same flat view - different transports, different fragmentation, different depth, different
    buffer contents - are indistinguishable through ReadFull -/
theorem C06_stack_fragmentation_irrelevant (s₁ s₂ : Io.Stack) (h₁ : s₁.Inv) (h₂ : s₂.Inv)
    (hc : s₁.content = s₂.content) (hf : s₁.fin = s₂.fin) (k : Nat) :
    viewStack (s₁.readFull k) = viewStack (s₂.readFull k) := by
  cases hfin : s₁.fin with
  | eof =>
    rw [C06_stack_readFull s₁ h₁ .eof (by rw [hfin]; rfl) k 0, C06_stack_readFull s₂ h₂ .eof (by rw [← hf, hfin]; rfl) k 0, hc]
  | other =>
    rw [C06_stack_readFull s₁ h₁ .ioerr (by rw [hfin]; rfl) k 0, C06_stack_readFull s₂ h₂ .ioerr (by rw [← hf, hfin]; rfl) k 0, hc]

/-- non-vacuity: a transport in six reads (two of them empty, the last with EOF attached) under the Decoder's own bufio, a limit
    reader and a second bufio of 16 bytes, satisfies the guard, and four bytes come out as from the flat string -/
def exStack : Io.Stack :=
  .buf (.lim (Io.Stack.top ⟨[[1, 2], [], [3], [], [4, 5, 6], [7]], .eof, true⟩) 6) 16 [] none

example : exStack.Inv := by
  refine ⟨⟨⟨by intro _; rfl, by decide⟩, by decide, by intro e h; cases h⟩, by decide, by intro e h; cases h⟩

example : viewStack (exStack.readFull 4) = .ok ([1, 2, 3, 4], [5, 6], .eof) := by rfl

/-- the excluded point is real: with 100 empty reads in a row ReadByte gives up (io.ErrNoProgress) although a byte follows,
    while ReadFull on the same source ploughs on - so the guard `maxEmptyRun < 100` cannot be dropped -/
example : (Io.Stack.top ⟨List.replicate 100 [] ++ [[9]], .eof, false⟩).readByte = .err .other := by rfl

example : viewStack ((Io.Stack.src ⟨List.replicate 100 [] ++ [[9]], .eof, false⟩).readFull 1) = .ok ([9], [], .eof) := by rfl

/-- so is the other one: a last chunk arriving together with a NON-EOF error exactly at the end of a structure makes the limit
    reader pass that error on where the flat view ends in EOF (the trailing optional fields of the structure then fail) -/
example : ((Io.Stack.lim (.src ⟨[[1, 2]], .ioerr, true⟩) 2).read 8).2.1 = some .other ∧
    (Io.Stack.lim (.src ⟨[[1, 2]], .ioerr, true⟩) 2).fin = .eof := by decide

/-! ### Decode itself over the reader stack

`Kmip.Stk` (KmipModel/DecodeStack.lean) is decode.go once more, reading through the real reader stack - its own bufio.Reader, a
limit reader and a further bufio per nested structure, 4096-byte chunks for string payloads, the outer reader picked up again
after each structure.  `Stk.S_sim` (KmipProofs/DecodeStackSim.lean) proves by induction along decode.go's recursion that it
computes what the flat decoder model computes.  Stated here in plain terms. -/

def viewS : Outcome (Val × Nat × Stk.SDec) → Outcome (Val × Nat × Bytes × ErrClass × Nat)
  | .ok (v, n, x) => .ok (v, n, x.s.content, x.s.fin, x.last)
  | .err e => .err e
  | .panic _ => .panic ""

def viewD : Outcome (Val × Nat × Dec) → Outcome (Val × Nat × Bytes × ErrClass × Nat)
  | .ok (v, n, d) => .ok (v, n, d.win, d.fin.err, d.last)
  | .err e => .err e
  | .panic _ => .panic ""

theorem view_of_rel {s0 : Io.Stack} {o1 : Outcome (Val × Nat × Dec)} {o2 : Outcome (Val × Nat × Stk.SDec)}
    (h : Stk.RelW Stk.P2d Stk.P2s s0 o1 o2) : viewS o2 = viewD o1 := by
  cases o1 with
  | ok a =>
    cases o2 with
    | ok b =>
      obtain ⟨v, n, d⟩ := a
      obtain ⟨v', n', x⟩ := b
      obtain ⟨e1, ⟨hw, hf, _, _, hl⟩, _⟩ := h
      simp only [Prod.mk.injEq] at e1 hw hf hl
      obtain ⟨rfl, rfl⟩ := e1
      simp [viewS, viewD, hw, hf, hl]
    | err e => simp [Stk.RelW] at h
    | panic p => simp [Stk.RelW] at h
  | err e =>
    cases o2 with
    | ok b => simp [Stk.RelW] at h
    | err e' => simp only [Stk.RelW] at h; simp [viewS, viewD, h]
    | panic p => simp [Stk.RelW] at h
  | panic p =>
    cases o2 with
    | ok b => simp [Stk.RelW] at h
    | err e' => simp [Stk.RelW] at h
    | panic p' => rfl

/-- **One Decode call, any decoder state.**  A Decoder standing anywhere in a stream (`x`: its reader stack and lookahead tag) and
    the flat model standing at the same place (`Stk.Sim`: same bytes to come, same final error, same lookahead): decoding a
    structure gives the same value, the same byte count, and leaves both at the same place again - or fails in the same class. -/
theorem C06_decode_step (sd : SD) (tag : Nat) (d : Dec) (x : Stk.SDec) (h : Stk.Sim d x) :
    viewS (Stk.decStruct tag sd x) = viewD (decStruct tag sd d) ∧
    (∀ v n d' x', decStruct tag sd d = .ok (v, n, d') → Stk.decStruct tag sd x = .ok (v, n, x') → Stk.Sim d' x') := by
  have hr := Stk.S_sim sd tag d x h
  refine ⟨view_of_rel hr, ?_⟩
  intro v n d' x' h1 h2
  rw [h1, h2] at hr
  exact hr.2.1

/-- **Fragmentation independence of Decode.**  `NewDecoder(src).Decode(&v)` on a transport that delivers its bytes in ANY chunks
    (zero-length reads, one byte at a time, the last data together with EOF; guard: `Stack.Inv`) returns exactly what the flat
    decoder model returns on the concatenation of the chunks - the value, the count `8 + declared length`, and a Decoder that
    stands at the first byte after the message. -/
theorem C06_decode_over_any_chunking (sd : SD) (src : Io.Src) (hi : (Io.Stack.top src).Inv) :
    viewS (Stk.decodeSrc sd src) = viewD (decodeSD sd src.flat src.fin) := by
  unfold Stk.decodeSrc decodeSD decodeTop
  by_cases hd : sd.descOk = true
  · simp only [hd, if_true]
    refine (C06_decode_step sd sd.tag ⟨src.flat, src.fin, 0⟩ ⟨Io.Stack.top src, 0⟩ ?_).1
    exact ⟨by simp [Io.Stack.top, Io.Stack.content], rfl, hi, by trivial, rfl⟩
  · simp [hd, viewS, viewD]

/-- two transports carrying the same bytes and ending the same way, fragmented differently: Decode cannot tell them apart -/
theorem C06_decode_chunking_irrelevant (sd : SD) (src₁ src₂ : Io.Src) (h₁ : (Io.Stack.top src₁).Inv) (h₂ : (Io.Stack.top src₂).Inv)
    (hb : src₁.flat = src₂.flat) (hf : src₁.fin = src₂.fin) :
    viewS (Stk.decodeSrc sd src₁) = viewS (Stk.decodeSrc sd src₂) := by
  rw [C06_decode_over_any_chunking sd src₁ h₁, C06_decode_over_any_chunking sd src₂ h₂, hb, hf]

/-- **Property C06, on the real reader stack.**  Several whole messages written back to back on one stream; a transport that
    fragments the stream in any way whatever (guard: `Stack.Inv`) and ends it cleanly; ONE Decoder created on that transport.
    Successive Decode calls return the messages one by one, in order and unaltered, each with the count of exactly its own
    bytes; afterwards the Decoder holds nothing (no bytes to come, no lookahead), and one more Decode reports raw io.EOF. -/
theorem C06_stream_over_any_chunking (ms : List Msg) (hw : ∀ m ∈ ms, m.Whole) (src : Io.Src) (hi : (Io.Stack.top src).Inv)
    (hflat : src.flat = concatMsgs ms) (hfin : src.fin = .eof) :
    (Stk.decodeStream (ms.map Msg.sd) ⟨Io.Stack.top src, 0⟩).1 = ms.map (fun m => (m.value, m.bytes.length)) ∧
    (Stk.decodeStream (ms.map Msg.sd) ⟨Io.Stack.top src, 0⟩).2.1 = none ∧
    (Stk.decodeStream (ms.map Msg.sd) ⟨Io.Stack.top src, 0⟩).2.2.s.content = [] ∧
    (Stk.decodeStream (ms.map Msg.sd) ⟨Io.Stack.top src, 0⟩).2.2.last = 0 ∧
    (∀ sd : SD, sd.descOk = true →
      viewS (Stk.decStruct sd.tag sd (Stk.decodeStream (ms.map Msg.sd) ⟨Io.Stack.top src, 0⟩).2.2) = .err .eof) := by
  have hsim : Stk.Sim ⟨concatMsgs ms ++ [], .eof, 0⟩ ⟨Io.Stack.top src, 0⟩ :=
    ⟨by simp [Io.Stack.top, Io.Stack.content, hflat], by simp [Io.Stack.top, Io.Stack.fin, hfin], hi, by trivial, rfl⟩
  obtain ⟨g1, g2, g3⟩ := Stk.stream_sim (ms.map Msg.sd) _ _ hsim
  rw [C06_stream ms hw [] .eof] at g1 g2 g3
  simp only at g1 g2 g3
  refine ⟨g1.symm, g2.symm, g3.1.symm, g3.2.2.2.2.symm, ?_⟩
  intro sd hd
  rw [(C06_decode_step sd sd.tag _ _ g3).1]
  have := C06_clean_eof sd hd
  unfold decodeSD decodeTop at this
  simp only [hd, if_true] at this
  rw [this]; rfl

/-- the same for a Decoder that was handed an io.ByteScanner (no buffer of its own): the messages one by one, then raw io.EOF,
    and after each of them the SOURCE itself stands at the first byte of the next message -/
theorem C06_stream_unbuffered (ms : List Msg) (hw : ∀ m ∈ ms, m.Whole) (src : Io.Src) (hi : (Io.Stack.src src).Inv)
    (hflat : src.flat = concatMsgs ms) (hfin : src.fin = .eof) :
    (Stk.decodeStream (ms.map Msg.sd) ⟨.src src, 0⟩).1 = ms.map (fun m => (m.value, m.bytes.length)) ∧
    (Stk.decodeStream (ms.map Msg.sd) ⟨.src src, 0⟩).2.1 = none ∧
    (Stk.decodeStream (ms.map Msg.sd) ⟨.src src, 0⟩).2.2.s.content = [] ∧
    (∀ sd : SD, sd.descOk = true →
      viewS (Stk.decStruct sd.tag sd (Stk.decodeStream (ms.map Msg.sd) ⟨.src src, 0⟩).2.2) = .err .eof) := by
  have hsim : Stk.Sim ⟨concatMsgs ms ++ [], .eof, 0⟩ ⟨.src src, 0⟩ :=
    ⟨by simp [Io.Stack.content, hflat], by simp [Io.Stack.fin, hfin], hi, by trivial, rfl⟩
  obtain ⟨g1, g2, g3⟩ := Stk.stream_sim (ms.map Msg.sd) _ _ hsim
  rw [C06_stream ms hw [] .eof] at g1 g2 g3
  simp only at g1 g2 g3
  refine ⟨g1.symm, g2.symm, g3.1.symm, ?_⟩
  intro sd hd
  rw [(C06_decode_step sd sd.tag _ _ g3).1]
  have := C06_clean_eof sd hd
  unfold decodeSD decodeTop at this
  simp only [hd, if_true] at this
  rw [this]; rfl

/-- non-vacuity: a Protocol Version structure (two required integers) delivered in seven reads - single bytes, empty reads, a
    split inside a length field, the last bytes together with EOF, and three bytes of a following message - decodes through the
    real stack to the value, the count 40, and a Decoder standing at those three bytes -/
def exPV : SD := .mk "ProtocolVersion" 0x420069
  [.mk "Major" 0x42006A true false false (.prim .int), .mk "Minor" 0x42006B true false false (.prim .int)]

def exPVsrc : Io.Src :=
  ⟨[[0x42], [0x00, 0x69, 0x01, 0, 0], [], [0, 0x20, 0x42, 0x00, 0x6A, 0x02, 0, 0, 0, 4, 0, 0, 0, 1, 0, 0, 0, 0], [], [0x42, 0x00, 0x6B, 0x02, 0, 0],
    [0, 4, 0, 0, 0, 4, 0, 0, 0, 0, 0x42, 0x00, 0x78]], .eof, true⟩

example : (Io.Stack.top exPVsrc).Inv := ⟨⟨by intro _; rfl, by decide⟩, by decide, by intro e h; cases h⟩

set_option maxRecDepth 100000 in
example : viewS (Stk.decodeSrc exPV exPVsrc) = .ok (.struct [.one (.int 1), .one (.int 4)], 40, [0x42, 0x00, 0x78], .eof, 0) := by rfl

def pvBytes (a b : UInt8) : Bytes :=
  [0x42, 0x00, 0x69, 0x01, 0, 0, 0, 0x20, 0x42, 0x00, 0x6A, 0x02, 0, 0, 0, 4, 0, 0, 0, a, 0, 0, 0, 0,
   0x42, 0x00, 0x6B, 0x02, 0, 0, 0, 4, 0, 0, 0, b, 0, 0, 0, 0]

/-- **Exact consumption at the transport, unbuffered source.**  Given an io.ByteScanner the Decoder adds no buffer of its own; the
    nested decoders' bufio readers do read ahead, but only inside limit readers.  So a successful Decode has taken from the
    SOURCE ITSELF exactly its own message - 8 bytes plus the declared length - whatever the chunking; what the source still
    holds is the flat remainder, ready for whoever reads it next (another Decoder included).  And the outcome is the flat
    model's. -/
theorem C06_decode_unbuffered_exact (sd : SD) (src : Io.Src) (hi : (Io.Stack.src src).Inv) :
    viewS (Stk.decodeScanner sd src) = viewD (decodeSD sd src.flat src.fin) ∧
    (∀ v n x, Stk.decodeScanner sd src = .ok (v, n, x) →
      ∃ s', x.s = .src s' ∧ s'.flat = src.flat.drop n ∧ n = 8 + declaredLen src.flat ∧ x.last = 0) := by
  unfold Stk.decodeScanner decodeSD decodeTop
  by_cases hd : sd.descOk = true
  · simp only [hd, if_true]
    have hsim : Stk.Sim ⟨src.flat, src.fin, 0⟩ ⟨Io.Stack.src src, 0⟩ := ⟨rfl, rfl, hi, by trivial, rfl⟩
    have hr := Stk.S_sim sd sd.tag _ _ hsim
    refine ⟨view_of_rel hr, ?_⟩
    intro v n x hx
    rw [hx] at hr
    cases hD : decStruct sd.tag sd ⟨src.flat, src.fin, 0⟩ with
    | err e => rw [hD] at hr; simp [Stk.RelW] at hr
    | panic p => rw [hD] at hr; simp [Stk.RelW] at hr
    | ok r =>
      obtain ⟨v', n', d'⟩ := r
      rw [hD] at hr
      obtain ⟨e1, ⟨hw, _, _, _, hl⟩, hreach⟩ := hr
      simp only [Prod.mk.injEq] at e1 hw hl hreach
      obtain ⟨rfl, rfl⟩ := e1
      have hdec : decodeSD sd src.flat src.fin = .ok (v', n', d') := by
        unfold decodeSD decodeTop; simp only [hd, if_true]; exact hD
      obtain ⟨c1, _, c3⟩ := C06_exact_consumption sd src.flat src.fin v' n' d' hdec
      obtain ⟨s', hs'⟩ := Io.reach_src hreach
      refine ⟨s', hs', ?_, c1, ?_⟩
      · have : x.s.content = src.flat.drop n' := by rw [← hw, c3]
        rw [hs'] at this
        exact this
      · rw [← hl, c3]
  · simp [hd, viewS, viewD]

/-- C04 over a real transport: a fresh Decoder on a transport fragmenting its bytes in any way accepts exactly the streams that begin
    with a well-formed encoding (the independent reader `specDecode` of the flat bytes), with the value and the length it denotes -/
theorem C04_equiv_over_any_transport (sd : SD) (src : Io.Src) (hi : (Io.Stack.top src).Inv) (v : Val) (n : Nat) :
    (∃ x, Stk.decodeSrc sd src = .ok (v, n, x)) ↔ specDecode sd src.flat = some (v, n) := by
  have hv := C06_decode_over_any_chunking sd src hi
  rw [← C04_equiv sd src.flat src.fin v n]
  constructor
  · rintro ⟨x, h⟩
    rw [h] at hv
    cases hD : decodeSD sd src.flat src.fin with
    | ok r =>
      obtain ⟨v', n', d'⟩ := r
      rw [hD] at hv
      simp only [viewS, viewD, Outcome.ok.injEq, Prod.mk.injEq] at hv
      exact ⟨d', by rw [hv.1, hv.2.1]⟩
    | err e => rw [hD] at hv; simp [viewS, viewD] at hv
    | panic p => rw [hD] at hv; simp [viewS, viewD] at hv
  · rintro ⟨d', h⟩
    rw [h] at hv
    cases hS : Stk.decodeSrc sd src with
    | ok r =>
      obtain ⟨v', n', x⟩ := r
      rw [hS] at hv
      simp only [viewS, viewD, Outcome.ok.injEq, Prod.mk.injEq] at hv
      exact ⟨x, by rw [hv.1, hv.2.1]⟩
    | err e => rw [hS] at hv; simp [viewS, viewD] at hv
    | panic p => rw [hS] at hv; simp [viewS, viewD] at hv

/-- C03 over a real transport: whatever the bytes and however they are fragmented, Decode through the reader stack does not panic
    (and, being a structurally recursive total function with every loop bounded by a fuel the proofs show sufficient, returns) -/
theorem C03_no_panic_over_any_transport (sd : SD) (src : Io.Src) (hi : (Io.Stack.top src).Inv) :
    ∀ p, Stk.decodeSrc sd src ≠ .panic p := by
  intro p hp
  have hv := C06_decode_over_any_chunking sd src hi
  rw [hp] at hv
  cases hD : decodeSD sd src.flat src.fin with
  | ok r => rw [hD] at hv; simp [viewS, viewD] at hv
  | err e => rw [hD] at hv; simp [viewS, viewD] at hv
  | panic q => exact C03_no_panic (.ptrStruct sd) src.flat src.fin q hD

/-- a message is whole if the stack decoder, fed the bytes in one read, decodes it and ends exactly at its end (through the
    simulation and the decoder/spec equivalence of C04) -/
theorem whole_of_stack_decode (sd : SD) (bs : Bytes) (v : Val) (n : Nat) (hd : sd.descOk = true)
    (h : viewS (Stk.decStruct sd.tag sd ⟨Io.Stack.top ⟨[bs], .eof, false⟩, 0⟩) = .ok (v, n, [], .eof, 0)) :
    (⟨sd, bs, v⟩ : Msg).Whole := by
  refine ⟨hd, ?_⟩
  have hrun : Io.maxEmptyRun [bs] < Io.maxConsecutiveEmptyReads := by
    simp only [Io.maxEmptyRun, Io.leadEmpty, Io.maxConsecutiveEmptyReads]
    split <;> simp
  have hI : (Io.Stack.top ⟨[bs], .eof, false⟩).Inv := by
    refine ⟨⟨?_, hrun⟩, by decide, ?_⟩
    · intro h; cases h
    · intro e h; cases h
  have hsim : Stk.Sim ⟨bs, .eof, 0⟩ ⟨Io.Stack.top ⟨[bs], .eof, false⟩, 0⟩ :=
    ⟨by simp [Io.Stack.top, Io.Stack.content, Io.Src.flat], rfl, hI, by trivial, rfl⟩
  rw [(C06_decode_step sd sd.tag _ _ hsim).1] at h
  cases hA : decStruct sd.tag sd ⟨bs, .eof, 0⟩ with
  | err e => rw [hA] at h; simp [viewD] at h
  | panic p => rw [hA] at h; simp [viewD] at h
  | ok r =>
    obtain ⟨v', n', d'⟩ := r
    rw [hA] at h
    simp only [viewD, Outcome.ok.injEq, Prod.mk.injEq] at h
    obtain ⟨rfl, rfl, hw, _, _⟩ := h
    obtain ⟨r', hs, hd', _⟩ := ((S_spec sd sd.tag).iff bs .eof v' n' d').mp hA
    rw [hd'] at hw
    simp only at hw
    rw [hw] at hs
    exact hs

/-- non-vacuity of the stream theorem: two Protocol Version messages back to back, cut into reads of 1, 6, 0, 33, 3, 0, 37 bytes
    with EOF attached to the last: every hypothesis of `C06_stream_over_any_chunking` holds -/
def exMsgs : List Msg :=
  [⟨exPV, pvBytes 1 4, .struct [.one (.int 1), .one (.int 4)]⟩, ⟨exPV, pvBytes 1 2, .struct [.one (.int 1), .one (.int 2)]⟩]

def exStreamSrc : Io.Src :=
  ⟨[(pvBytes 1 4).take 1, ((pvBytes 1 4).drop 1).take 6, [], (pvBytes 1 4).drop 7, (pvBytes 1 2).take 3, [], (pvBytes 1 2).drop 3], .eof, true⟩

set_option maxRecDepth 100000 in
example : (∀ m ∈ exMsgs, m.Whole) ∧ (Io.Stack.top exStreamSrc).Inv ∧ exStreamSrc.flat = concatMsgs exMsgs ∧ exStreamSrc.fin = .eof := by
  refine ⟨?_, ⟨⟨by intro _; rfl, by decide⟩, by decide, by intro e h; cases h⟩, by decide, rfl⟩
  intro m hm
  simp only [exMsgs, List.mem_cons, List.mem_nil_iff, or_false] at hm
  rcases hm with rfl | rfl
  · exact whole_of_stack_decode exPV (pvBytes 1 4) (.struct [.one (.int 1), .one (.int 4)]) 40 (by decide) (by rfl)
  · exact whole_of_stack_decode exPV (pvBytes 1 2) (.struct [.one (.int 1), .one (.int 2)]) 40 (by decide) (by rfl)

end Kmip
