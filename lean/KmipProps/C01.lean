import KmipProps.C02
import KmipProps.C04
import KmipProps.C06
import KmipProofs.SpecCanon
import KmipProofs.EncNorm
/-
  C01 — Decode inverts Encode (up to the documented normalisations), and what Decode returns re-encodes to the same bytes.

  The chain:  Encode produces the canonical TTLV tree of the value (C02_canonical);
              the specification reads the serialized canonical tree of a well-formed value back as the NORMALISED value
              (`spec_reads_canonical`, proved by mutual structural induction over values in KmipProofs/SpecCanon.lean);
              the Go-shaped decoder accepts exactly what the specification accepts, with the same value (C04_equiv).

  Side conditions, all explicit and decidable or inductively defined (KmipModel/WF.lean):
    * `SD.OK sd`      schema well-formedness — tags in 1..2^24-1 and pairwise distinct inside a structure, a field that takes
                      no part in encoding (skip) is optional and last, dispatch targets decodable; GenC01 proves it, by
                      evaluation, for every schema the translator regenerates from /repo;
    * `WFv`           values in KMIP's ranges (int32/enum < 2^32 …), durations whole seconds below 2^32, required
                      sequences non-empty, dynamic values of the type their selector dispatches to;
    * `Item.Small`    every length fits its 4-byte field (messages below 4 GiB).
  Normalisations (`normVal`): optional zero-valued fields come back as the Go zero value; pointer payloads as value
  payloads; fields annotated `skip` as nil.
-/
namespace Kmip

/-- the specification reads the canonical encoding of a well-formed value back as the normalised value, consuming all of it -/
theorem spec_reads_canonical (sd : SD) (v : Val) (hd : sd.descOk = true) (hok : SD.OK sd = true) (ht : sd.tag < tagMax)
    (hw : WFv (.struct sd) v) (hs : (canonTop sd v).Small = true) :
    specDecode sd (canonTop sd v).ser = some (normVal (.struct sd) v, (canonTop sd v).ser.length) := by
  have h := V_canon sd.tag [] (.struct sd) [] ht (fun sd' e => by cases e; exact ⟨hd, hok⟩) v hw hs
  rw [specValue, if_pos hd, List.append_nil] at h
  unfold specDecode canonTop
  rw [if_pos hd]
  rw [h]
  simp

/-- C01, round trip: whatever Encode writes for a well-formed value, Decode into the same type accepts, consuming exactly
    those bytes, and returns the value itself up to the documented normalisations -/
theorem C01_roundtrip (sd : SD) (v : Val) (bs : Bytes) (fin : Fin)
    (hd : sd.descOk = true) (hok : SD.OK sd = true) (ht : sd.tag < tagMax)
    (hw : WFv (.struct sd) v) (hs : (canonTop sd v).Small = true)
    (henc : encodeSD sd v = .ok bs) :
    ∃ d', decodeSD sd bs fin = .ok (normVal (.struct sd) v, bs.length, d') := by
  have hb := C02_canonical sd v bs henc
  subst hb
  exact C04_complete sd _ fin _ _ (spec_reads_canonical sd v hd hok ht hw hs)

/-- … and nothing else: any value Decode returns for those bytes is that normalised value (Decode is a function) -/
theorem C01_roundtrip_unique (sd : SD) (v v' : Val) (bs : Bytes) (fin : Fin) (n : Nat) (d' : Dec)
    (hd : sd.descOk = true) (hok : SD.OK sd = true) (ht : sd.tag < tagMax)
    (hw : WFv (.struct sd) v) (hs : (canonTop sd v).Small = true)
    (henc : encodeSD sd v = .ok bs) (hdec : decodeSD sd bs fin = .ok (v', n, d')) :
    v' = normVal (.struct sd) v ∧ n = bs.length := by
  obtain ⟨d'', h⟩ := C01_roundtrip sd v bs fin hd hok ht hw hs henc
  rw [h] at hdec
  simp only [Outcome.ok.injEq, Prod.mk.injEq] at hdec
  exact ⟨hdec.1.symm, hdec.2.1.symm⟩

/-- the round trip does not depend on what follows the message on the stream -/
theorem C01_roundtrip_stream (sd : SD) (v : Val) (bs more : Bytes) (fin : Fin)
    (hd : sd.descOk = true) (hok : SD.OK sd = true) (ht : sd.tag < tagMax)
    (hw : WFv (.struct sd) v) (hs : (canonTop sd v).Small = true)
    (henc : encodeSD sd v = .ok bs) :
    ∃ d', decodeSD sd (bs ++ more) fin = .ok (normVal (.struct sd) v, bs.length, d') := by
  have hb := C02_canonical sd v bs henc
  subst hb
  have h := V_canon sd.tag [] (.struct sd) more ht (fun sd' e => by cases e; exact ⟨hd, hok⟩) v hw hs
  rw [specValue, if_pos hd] at h
  apply C04_complete
  unfold specDecode
  rw [if_pos hd]
  unfold canonTop
  rw [h]
  simp

/-- the normalised value has the same canonical tree (specification level; no schema condition needed) -/
theorem C01_canon_of_normalised (sd : SD) (v : Val) (hw : WFv (.struct sd) v) :
    canonTop sd (normVal (.struct sd) v) = canonTop sd v :=
  canonVal_norm sd.tag (.struct sd) v hw

/-- the encoder cannot tell a well-formed value from its normalisation: same bytes, or the same failure -/
theorem C01_reencode (sd : SD) (v : Val) (hd : sd.descOk = true) (hok : SD.OK sd = true) (hw : WFv (.struct sd) v) :
    encodeSD sd (normVal (.struct sd) v) = encodeSD sd v :=
  encVal_norm sd.tag (.struct sd) (fun sd' e => by cases e; exact ⟨hd, hok⟩) v hw

/-- C01, second half: Encode ∘ Decode ∘ Encode = Encode — the value Decode returns for the bytes of a well-formed value
    re-encodes to exactly those bytes -/
theorem C01_encode_decode_encode (sd : SD) (v v' : Val) (bs : Bytes) (fin : Fin) (n : Nat) (d' : Dec)
    (hd : sd.descOk = true) (hok : SD.OK sd = true) (ht : sd.tag < tagMax)
    (hw : WFv (.struct sd) v) (hs : (canonTop sd v).Small = true)
    (henc : encodeSD sd v = .ok bs) (hdec : decodeSD sd bs fin = .ok (v', n, d')) :
    encodeSD sd v' = .ok bs := by
  obtain ⟨e, _⟩ := C01_roundtrip_unique sd v v' bs fin n d' hd hok ht hw hs henc hdec
  rw [e, C01_reencode sd v hd hok hw, henc]

/-! ### non-vacuity: a concrete schema and value meet every hypothesis, and the chain computes -/

def exNameVal : Val := .struct [.one (.text [0x61, 0x62]), .one (.enum 1)]

example : exName.descOk = true ∧ SD.OK exName = true ∧ exName.tag < tagMax := by decide

example : WFv (.struct exName) exNameVal := by
  simp [WFv, WFflds, WFfv, exName, exNameVal, SD.fields, Fld.slice, Fld.ignored, Fld.tag, Fld.skip, Fld.ty, two32, anyTag]

example : (canonTop exName exNameVal).Small = true := by decide

example : ∃ bs, encodeSD exName exNameVal = .ok bs := ⟨_, rfl⟩

/-- C01 over a real transport: the bytes Encode produced for a well-formed value, delivered to a fresh Decoder by a transport that
    fragments them in any way (guard `Stack.Inv`; anything may follow them on the stream), decode - through the Decoder's
    bufio, the limit readers and bufios of the nested structures, the chunked string reads - to the normalised value, with the
    count of exactly the encoded bytes.  (C01_roundtrip_stream composed with C06_decode_over_any_chunking.) -/
theorem C01_roundtrip_over_any_transport (sd : SD) (v : Val) (bs more : Bytes) (src : Io.Src)
    (hd : sd.descOk = true) (hok : SD.OK sd = true) (ht : sd.tag < tagMax)
    (hw : WFv (.struct sd) v) (hs : (canonTop sd v).Small = true)
    (henc : encodeSD sd v = .ok bs) (hi : (Io.Stack.top src).Inv) (hflat : src.flat = bs ++ more) :
    ∃ x, Stk.decodeSrc sd src = .ok (normVal (.struct sd) v, bs.length, x) ∧ x.s.content = more ∧ x.last = 0 := by
  obtain ⟨d', h⟩ := C01_roundtrip_stream sd v bs more src.fin hd hok ht hw hs henc
  have hc := C06_exact_consumption sd (bs ++ more) src.fin _ _ d' h
  have hv := C06_decode_over_any_chunking sd src hi
  rw [hflat, h] at hv
  cases hS : Stk.decodeSrc sd src with
  | err e => rw [hS] at hv; simp [viewS, viewD] at hv
  | panic p => rw [hS] at hv; simp [viewS, viewD] at hv
  | ok r =>
    obtain ⟨v', n', x⟩ := r
    rw [hS] at hv
    simp only [viewS, viewD, Outcome.ok.injEq, Prod.mk.injEq] at hv
    obtain ⟨e1, e2, e3, _, e5⟩ := hv
    refine ⟨x, by rw [e1, e2], ?_, ?_⟩
    · rw [e3, hc.2.2]; simp
    · rw [e5, hc.2.2]

end Kmip
