import KmipProps.C02
import KmipProps.C04
import KmipProps.C06
import KmipProofs.SpecCanon
import KmipProofs.EncNorm
/-
  C01 — Decode inverts Encode (up to the documented normalisations), and what Decode returns re-encodes to the same bytes.

  The chain:  Encode produces the canonical TTLV tree of the value (C02_canonical);
              the specification reads the serialized canonical tree of a well-formed value back as the NORMALISED value
              (`spec_reads_canonical`, proved by mutual structural induction over values in KmipProofs/SpecCanon.lean);
              the Go-shaped decoder accepts exactly what the specification accepts, with the same value (C04_equiv).

  Side conditions, all explicit and decidable or inductively defined (KmipModel/WF.lean):
    * `SD.OK sd`      schema well-formedness — tags in 1..2^24-1 and pairwise distinct inside a structure, a field that takes
                      no part in encoding (skip) is optional and last, dispatch targets decodable; GenC01 proves it, by
                      evaluation, for every schema the translator regenerates from /repo;
    * `WFv`           values in KMIP's ranges (int32/enum < 2^32 …), durations whole seconds below 2^32, required
                      sequences non-empty, dynamic values of the type their selector dispatches to;
    * `Item.Small`    every length fits its 4-byte field (messages below 4 GiB).
  Normalisations (`normVal`): optional zero-valued fields come back as the Go zero value; pointer payloads as value
  payloads; fields annotated `skip` as nil.
-/
namespace Kmip

/-- the specification reads the canonical encoding of a well-formed value back as the normalised value, consuming all of it -/
theorem spec_reads_canonical (sd : SD) (v : Val) (hd : sd.descOk = true) (hok : SD.OK sd = true) (ht : sd.tag < tagMax)
    (hw : WFv (.struct sd) v) (hs : (canonTop sd v).Small = true) :
    specDecode sd (canonTop sd v).ser = some (normVal (.struct sd) v, (canonTop sd v).ser.length) := by
  have h := V_canon sd.tag [] (.struct sd) [] ht (fun sd' e => by cases e; exact ⟨hd, hok⟩) v hw hs
  rw [specValue, if_pos hd, List.append_nil] at h
  unfold specDecode canonTop
  rw [if_pos hd]
  rw [h]
  simp

/-- C01, round trip: whatever Encode writes for a well-formed value, Decode into the same type accepts, consuming exactly
    those bytes, and returns the value itself up to the documented normalisations -/
theorem C01_roundtrip (sd : SD) (v : Val) (bs : Bytes) (fin : Fin)
    (hd : sd.descOk = true) (hok : SD.OK sd = true) (ht : sd.tag < tagMax)
    (hw : WFv (.struct sd) v) (hs : (canonTop sd v).Small = true)
    (henc : encodeSD sd v = .ok bs) :
    ∃ d', decodeSD sd bs fin = .ok (normVal (.struct sd) v, bs.length, d') := by
  have hb := C02_canonical sd v bs henc
  subst hb
  exact C04_complete sd _ fin _ _ (spec_reads_canonical sd v hd hok ht hw hs)

/-- … and nothing else: any value Decode returns for those bytes is that normalised value (Decode is a function) -/
theorem C01_roundtrip_unique (sd : SD) (v v' : Val) (bs : Bytes) (fin : Fin) (n : Nat) (d' : Dec)
    (hd : sd.descOk = true) (hok : SD.OK sd = true) (ht : sd.tag < tagMax)
    (hw : WFv (.struct sd) v) (hs : (canonTop sd v).Small = true)
    (henc : encodeSD sd v = .ok bs) (hdec : decodeSD sd bs fin = .ok (v', n, d')) :
    v' = normVal (.struct sd) v ∧ n = bs.length := by
  obtain ⟨d'', h⟩ := C01_roundtrip sd v bs fin hd hok ht hw hs henc
  rw [h] at hdec
  simp only [Outcome.ok.injEq, Prod.mk.injEq] at hdec
  exact ⟨hdec.1.symm, hdec.2.1.symm⟩

/-- the round trip does not depend on what follows the message on the stream -/
theorem C01_roundtrip_stream (sd : SD) (v : Val) (bs more : Bytes) (fin : Fin)
    (hd : sd.descOk = true) (hok : SD.OK sd = true) (ht : sd.tag < tagMax)
    (hw : WFv (.struct sd) v) (hs : (canonTop sd v).Small = true)
    (henc : encodeSD sd v = .ok bs) :
    ∃ d', decodeSD sd (bs ++ more) fin = .ok (normVal (.struct sd) v, bs.length, d') := by
  have hb := C02_canonical sd v bs henc
  subst hb
  have h := V_canon sd.tag [] (.struct sd) more ht (fun sd' e => by cases e; exact ⟨hd, hok⟩) v hw hs
  rw [specValue, if_pos hd] at h
  apply C04_complete
  unfold specDecode
  rw [if_pos hd]
  unfold canonTop
  rw [h]
  simp

/-- the normalised value has the same canonical tree (specification level; no schema condition needed) -/
theorem C01_canon_of_normalised (sd : SD) (v : Val) (hw : WFv (.struct sd) v) :
    canonTop sd (normVal (.struct sd) v) = canonTop sd v :=
  canonVal_norm sd.tag (.struct sd) v hw

/-- the encoder cannot tell a well-formed value from its normalisation: same bytes, or the same failure -/
theorem C01_reencode (sd : SD) (v : Val) (hd : sd.descOk = true) (hok : SD.OK sd = true) (hw : WFv (.struct sd) v) :
    encodeSD sd (normVal (.struct sd) v) = encodeSD sd v :=
  encVal_norm sd.tag (.struct sd) (fun sd' e => by cases e; exact ⟨hd, hok⟩) v hw

/-- C01, second half: Encode ∘ Decode ∘ Encode = Encode — the value Decode returns for the bytes of a well-formed value
    re-encodes to exactly those bytes -/
theorem C01_encode_decode_encode (sd : SD) (v v' : Val) (bs : Bytes) (fin : Fin) (n : Nat) (d' : Dec)
    (hd : sd.descOk = true) (hok : SD.OK sd = true) (ht : sd.tag < tagMax)
    (hw : WFv (.struct sd) v) (hs : (canonTop sd v).Small = true)
    (henc : encodeSD sd v = .ok bs) (hdec : decodeSD sd bs fin = .ok (v', n, d')) :
    encodeSD sd v' = .ok bs := by
  obtain ⟨e, _⟩ := C01_roundtrip_unique sd v v' bs fin n d' hd hok ht hw hs henc hdec
  rw [e, C01_reencode sd v hd hok hw, henc]

/-! ### non-vacuity: a concrete schema and value meet every hypothesis, and the chain computes -/

def exNameVal : Val := .struct [.one (.text [0x61, 0x62]), .one (.enum 1)]

example : exName.descOk = true ∧ SD.OK exName = true ∧ exName.tag < tagMax := by decide

example : WFv (.struct exName) exNameVal := by
  simp [WFv, WFflds, WFfv, exName, exNameVal, SD.fields, Fld.slice, Fld.ignored, Fld.tag, Fld.skip, Fld.ty, two32, anyTag]

example : (canonTop exName exNameVal).Small = true := by decide

example : ∃ bs, encodeSD exName exNameVal = .ok bs := ⟨_, rfl⟩

/-- C01 over a real transport: the bytes Encode produced for a well-formed value, delivered to a fresh Decoder by a transport that
    fragments them in any way (guard `Stack.Inv`; anything may follow them on the stream), decode - through the Decoder's
    bufio, the limit readers and bufios of the nested structures, the chunked string reads - to the normalised value, with the
    count of exactly the encoded bytes.  (C01_roundtrip_stream composed with C06_decode_over_any_chunking.) -/
theorem C01_roundtrip_over_any_transport (sd : SD) (v : Val) (bs more : Bytes) (src : Io.Src)
    (hd : sd.descOk = true) (hok : SD.OK sd = true) (ht : sd.tag < tagMax)
    (hw : WFv (.struct sd) v) (hs : (canonTop sd v).Small = true)
    (henc : encodeSD sd v = .ok bs) (hi : (Io.Stack.top src).Inv) (hflat : src.flat = bs ++ more) :
    ∃ x, Stk.decodeSrc sd src = .ok (normVal (.struct sd) v, bs.length, x) ∧ x.s.content = more ∧ x.last = 0 := by
  obtain ⟨d', h⟩ := C01_roundtrip_stream sd v bs more src.fin hd hok ht hw hs henc
  have hc := C06_exact_consumption sd (bs ++ more) src.fin _ _ d' h
  have hv := C06_decode_over_any_chunking sd src hi
  rw [hflat, h] at hv
  cases hS : Stk.decodeSrc sd src with
  | err e => rw [hS] at hv; simp [viewS, viewD] at hv
  | panic p => rw [hS] at hv; simp [viewS, viewD] at hv
  | ok r =>
    obtain ⟨v', n', x⟩ := r
    rw [hS] at hv
    simp only [viewS, viewD, Outcome.ok.injEq, Prod.mk.injEq] at hv
    obtain ⟨e1, e2, e3, _, e5⟩ := hv
    refine ⟨x, by rw [e1, e2], ?_, ?_⟩
    · rw [e3, hc.2.2]; simp
    · rw [e5, hc.2.2]

/-! ### many messages on one stream -/

/-- one written message: its type, the value handed to Encode, the bytes Encode produced -/
structure Sent where
  sd : SD
  value : Val
  bytes : Bytes

/-- Encode accepted a well-formed value of a well-formed type -/
def Sent.Ok (m : Sent) : Prop :=
  m.sd.descOk = true ∧ SD.OK m.sd = true ∧ m.sd.tag < tagMax ∧ WFv (.struct m.sd) m.value ∧
    (canonTop m.sd m.value).Small = true ∧ encodeSD m.sd m.value = .ok m.bytes

/-- what Encode wrote for a well-formed value is one whole message, denoting the normalised value -/
theorem whole_of_encoded (m : Sent) (h : m.Ok) : (Msg.mk m.sd m.bytes (normVal (.struct m.sd) m.value)).Whole := by
  obtain ⟨hd, hok, ht, hw, hs, henc⟩ := h
  have hb := C02_canonical m.sd m.value m.bytes henc
  have hv := V_canon m.sd.tag [] (.struct m.sd) [] ht (fun sd' e => by cases e; exact ⟨hd, hok⟩) m.value hw hs
  rw [specValue, if_pos hd, List.append_nil] at hv
  refine ⟨hd, ?_⟩
  show specStruct m.sd.tag m.sd m.bytes = some (normVal (.struct m.sd) m.value, [])
  rw [hb]
  exact hv

theorem concat_sent : ∀ (ms : List Sent),
    concatMsgs (ms.map (fun m => Msg.mk m.sd m.bytes (normVal (.struct m.sd) m.value))) = (ms.map Sent.bytes).flatten
  | [] => rfl
  | m :: rest => by
    simp only [List.map_cons, concatMsgs, List.flatten_cons]
    rw [concat_sent rest]

/-- **C01 and C06 together: a conversation.**  Any number of well-formed values (of whatever types: requests, responses,
    mixed), each written by Encode, back to back on one stream; a transport that fragments the stream in ANY way (guard
    `Stack.Inv`) and then ends cleanly; ONE Decoder on the other side, asked for those types in turn.  It returns the values one
    by one, in order, each up to the documented normalisation and with the count of exactly its own encoded bytes; nothing is
    left buffered; one more Decode reports raw io.EOF. -/
theorem C01_conversation_over_any_transport (ms : List Sent) (hok : ∀ m ∈ ms, m.Ok) (src : Io.Src)
    (hi : (Io.Stack.top src).Inv) (hflat : src.flat = (ms.map Sent.bytes).flatten) (hfin : src.fin = .eof) :
    (Stk.decodeStream (ms.map Sent.sd) ⟨Io.Stack.top src, 0⟩).1 =
        ms.map (fun m => (normVal (.struct m.sd) m.value, m.bytes.length)) ∧
    (Stk.decodeStream (ms.map Sent.sd) ⟨Io.Stack.top src, 0⟩).2.1 = none ∧
    (Stk.decodeStream (ms.map Sent.sd) ⟨Io.Stack.top src, 0⟩).2.2.s.content = [] ∧
    (∀ sd : SD, sd.descOk = true →
      viewS (Stk.decStruct sd.tag sd (Stk.decodeStream (ms.map Sent.sd) ⟨Io.Stack.top src, 0⟩).2.2) = .err .eof) := by
  let ws : List Msg := ms.map (fun m => Msg.mk m.sd m.bytes (normVal (.struct m.sd) m.value))
  have hw : ∀ w ∈ ws, w.Whole := by
    intro w hmem
    obtain ⟨m, hm, rfl⟩ := List.mem_map.mp hmem
    exact whole_of_encoded m (hok m hm)
  have hcat : concatMsgs ws = (ms.map Sent.bytes).flatten := concat_sent ms
  have hsd : ws.map Msg.sd = ms.map Sent.sd := by
    show (ms.map _).map Msg.sd = _
    rw [List.map_map]; rfl
  have hval : ws.map (fun w => (w.value, w.bytes.length)) = ms.map (fun m => (normVal (.struct m.sd) m.value, m.bytes.length)) := by
    show (ms.map _).map _ = _
    rw [List.map_map]; rfl
  obtain ⟨g1, g2, g3, _, g5⟩ := C06_stream_over_any_chunking ws hw src hi (by rw [hflat, hcat]) hfin
  rw [hsd] at g1 g2 g3 g5
  exact ⟨by rw [g1, hval], g2, g3, g5⟩

/-- non-vacuity: two Name structures written back to back, delivered in five reads (one of them empty) - every hypothesis of
    the conversation theorem holds -/
def exSentName : Sent := ⟨exName, exNameVal, (canonTop exName exNameVal).ser⟩

theorem exSentName_ok : exSentName.Ok := by
  refine ⟨by decide, by decide, by decide, ?_, by decide, rfl⟩
  simp [exSentName, WFv, WFflds, WFfv, exName, exNameVal, SD.fields, Fld.slice, Fld.ignored, Fld.tag, Fld.skip, Fld.ty, two32, anyTag]

def exConvSrc : Io.Src :=
  ⟨[exSentName.bytes.take 5, [], exSentName.bytes.drop 5 ++ exSentName.bytes.take 11, exSentName.bytes.drop 11], .eof, false⟩

example : (∀ m ∈ [exSentName, exSentName], m.Ok) ∧ (Io.Stack.top exConvSrc).Inv ∧
    exConvSrc.flat = ([exSentName, exSentName].map Sent.bytes).flatten ∧ exConvSrc.fin = .eof := by
  refine ⟨?_, ?_, by decide, rfl⟩
  · intro m hm
    simp only [List.mem_cons, List.mem_nil_iff, or_false, or_self] at hm
    subst hm
    exact exSentName_ok
  · simp only [Io.Stack.top, Io.Stack.Inv]
    refine ⟨⟨by decide, by decide⟩, by decide, by simp⟩

end Kmip
