import KmipModel.Shutdown
/-
  C11 — Shutdown stops accepting, waits for every started session, honours the context.
  Safety theorems over ALL interleavings of Serve, Shutdown, any number of sessions and the context, by an invariant
  proved inductive over the step relation of KmipModel/Shutdown.lean.
-/
namespace Kmip.Shutdown

/-- the invariant -/
structure Inv (σ : State) : Prop where
  wg_counts : σ.wg = σ.running + σ.connClosed            -- the WaitGroup counts exactly the sessions that have not ended
  signalled_done : σ.sd ≠ .idle → σ.done = true            -- once Shutdown has taken its first step the signal is set
  listener : σ.listenerOpen = false → σ.done = true        -- only Shutdown closes the listener, after signalling
  saw_zero : σ.waiterSawZero = true → σ.wg = 0 ∧ σ.done = true
  returned_nil : σ.sd = .returnedNil → σ.waiterSawZero = true
  returned_ctx : σ.sd = .returnedCtx → σ.ctxExpired = true
  serve_ret : ∀ e, σ.serve = .returned e → e = false ∧ σ.done = true

theorem inv_init : Inv init := by
  constructor <;> simp [init]

theorem inv_step (σ σ' : State) (l : Label) (h : Inv σ) (st : Step σ l σ') : Inv σ' := by
  obtain ⟨h1, h2, h3, h4, h5, h6, h7⟩ := h
  cases st with
  | serveStart hs => constructor <;> simp_all
  | accept hs hl => constructor <;> simp_all
  | acceptFail hs hl hd => constructor <;> simp_all
  | register c hs hd => constructor <;> simp_all <;> omega
  | closeLate c hs hd => constructor <;> simp_all
  | sdSignal hs => constructor <;> simp_all
  | sdCloseListener hs => constructor <;> simp_all
  | sdStartWait hs => constructor <;> simp_all
  | waiterDone hs hw => constructor <;> simp_all
  | sdReturnNil hs hw => constructor <;> simp_all
  | sdReturnCtx hs hc => constructor <;> simp_all
  | sessCloseConn hr => constructor <;> simp_all <;> omega
  | sessDone hc => constructor <;> simp_all <;> omega
  | ctxExpire => constructor <;> simp_all

theorem inv_reachable (σ : State) (h : Reachable σ) : Inv σ := by
  induction h with
  | init => exact inv_init
  | step σ σ' l _ st ih => exact inv_step σ σ' l ih st

/-- C11, main safety statement: in every reachable state in which Shutdown has returned nil, every session that was ever
    started has ended — its connection is closed and its wg.Done() has run; none is running or half-closed -/
theorem C11_safe (σ : State) (h : Reachable σ) (hr : σ.sd = .returnedNil) :
    σ.running = 0 ∧ σ.connClosed = 0 ∧ σ.ended = σ.started := by
  have inv := inv_reachable σ h
  have := inv.saw_zero (inv.returned_nil hr)
  have := inv.wg_counts
  simp only [State.started]
  omega

/-- … and no session starts in any continuation: once the shutdown signal is set, no step starts a session
    (the number of started sessions never grows again) -/
theorem C11_no_start_after_signal (σ σ' : State) (l : Label) (hd : σ.done = true) (st : Step σ l σ') :
    σ'.started = σ.started ∧ σ'.done = true := by
  cases st <;> simp_all [State.started] <;> omega

theorem C11_no_start_after_return (σ σ' : State) (l : Label) (h : Reachable σ) (hr : σ.sd = .returnedNil) (st : Step σ l σ') :
    σ'.started = σ.started ∧ σ'.running = 0 ∧ σ'.connClosed = 0 := by
  have inv := inv_reachable σ h
  have hz := inv.saw_zero (inv.returned_nil hr)
  have hs := C11_safe σ h hr
  have := C11_no_start_after_signal σ σ' l hz.2 st
  refine ⟨this.1, ?_⟩
  cases st <;> simp_all

/-- Serve returns nil (never an error) in this system, and only after the shutdown signal -/
theorem C11_serve_returns_nil (σ : State) (h : Reachable σ) (e : Bool) (hs : σ.serve = .returned e) :
    e = false ∧ σ.done = true := (inv_reachable σ h).serve_ret e hs

/-- a connection accepted after the signal is closed, not served: the step that handles it neither starts a session nor
    leaves it open -/
theorem C11_late_conn_closed (σ σ' : State) (c : Nat) (hs : σ.serve = .gotConn c) (hd : σ.done = true) (l : Label)
    (st : Step σ l σ') (hl : l = .register ∨ l = .closeLate) :
    l = .closeLate ∧ σ'.lateClosed = σ.lateClosed + 1 ∧ σ'.started = σ.started ∧ σ'.serve = .returned false := by
  cases st <;> simp_all [State.started]

/-- Shutdown returns the context's error only if the context has ended -/
theorem C11_ctx (σ : State) (h : Reachable σ) (hr : σ.sd = .returnedCtx) : σ.ctxExpired = true :=
  (inv_reachable σ h).returned_ctx hr

/-- Shutdown never aborts a request in flight: none of its own steps changes the state of any session -/
theorem C11_no_abort (σ σ' : State) (l : Label) (hl : l.isShutdown = true) (st : Step σ l σ') :
    σ'.running = σ.running ∧ σ'.connClosed = σ.connClosed ∧ σ'.ended = σ.ended := by
  cases st <;> simp_all [Label.isShutdown]

/-- WaitGroup discipline (used by C12): an Add never happens once Shutdown has passed its critical section — so no
    `wg.Add` can be concurrent with `wg.Wait` -/
theorem C11_no_add_after_listener_closed (σ σ' : State) (l : Label) (h : Reachable σ)
    (hp : σ.sd = .listenerClosed ∨ σ.sd = .waiting ∨ σ.sd = .returnedNil ∨ σ.sd = .returnedCtx) (st : Step σ l σ') :
    l ≠ .register := by
  have inv := inv_reachable σ h
  have hd : σ.done = true := inv.signalled_done (by rcases hp with h | h | h | h <;> simp [h])
  cases st <;> simp_all

/-- Shutdown BEFORE Serve: whatever happened before, a Serve that starts once the signal is set never starts a session - the
    first connection it accepts is closed and it returns nil (a corollary of the two theorems above, spelled out) -/
theorem C11_serve_after_shutdown (σ σ1 σ2 σ3 : State) (hd : σ.done = true) (st1 : Step σ .serveStart σ1) (st2 : Step σ1 .accept σ2)
    (l : Label) (st3 : Step σ2 l σ3) (hl : l = .register ∨ l = .closeLate) :
    σ3.started = σ.started ∧ σ3.lateClosed = σ.lateClosed + 1 ∧ σ3.serve = .returned false := by
  have h1 := C11_no_start_after_signal σ σ1 _ hd st1
  have h2 := C11_no_start_after_signal σ1 σ2 _ h1.2 st2
  cases st1
  cases st2
  rename_i hs1 hs2 hl2
  have := C11_late_conn_closed _ σ3 _ rfl (by simpa using hd) l st3 hl
  simp_all [State.started]

/-! ### non-vacuity: a reachable state in which Shutdown returned nil after a session was started and ended,
    with Shutdown landing between Accept returning a second connection and its registration -/
def w0 : State := { init with serve := .accepting, lSet := true }
def w1 : State := { w0 with serve := .gotConn 1, nextConn := 2 }
def w2 : State := { w1 with serve := .accepting, wg := 1, running := 1 }
def w3 : State := { w2 with serve := .gotConn 2, nextConn := 3 }
def w4 : State := { w3 with sd := .signalled, done := true }
def w5 : State := { w4 with serve := .returned false, lateClosed := 1 }
def w6 : State := { w5 with sd := .listenerClosed, listenerOpen := false, lSet := false }
def w7 : State := { w6 with sd := .waiting }
def w8 : State := { w7 with running := 0, connClosed := 1 }
def w9 : State := { w8 with connClosed := 0, ended := 1, wg := 0 }
def w10 : State := { w9 with waiterSawZero := true }
def w11 : State := { w10 with sd := .returnedNil }

theorem w11_reachable : Reachable w11 := by
  have r0 : Reachable w0 := .step _ _ _ .init (Step.serveStart init rfl)
  have r1 : Reachable w1 := .step _ _ _ r0 (Step.accept w0 rfl rfl)
  have r2 : Reachable w2 := .step _ _ _ r1 (Step.register w1 1 rfl rfl)
  have r3 : Reachable w3 := .step _ _ _ r2 (Step.accept w2 rfl rfl)
  have r4 : Reachable w4 := .step _ _ _ r3 (Step.sdSignal w3 rfl)
  have r5 : Reachable w5 := .step _ _ _ r4 (Step.closeLate w4 2 rfl rfl)
  have r6 : Reachable w6 := .step _ _ _ r5 (Step.sdCloseListener w5 rfl)
  have r7 : Reachable w7 := .step _ _ _ r6 (Step.sdStartWait w6 rfl)
  have r8 : Reachable w8 := .step _ _ _ r7 (Step.sessCloseConn w7 (by decide))
  have r9 : Reachable w9 := .step _ _ _ r8 (Step.sessDone w8 (by decide))
  have r10 : Reachable w10 := .step _ _ _ r9 (Step.waiterDone w9 rfl rfl)
  exact .step _ _ _ r10 (Step.sdReturnNil w10 rfl rfl)

example : w11.sd = .returnedNil ∧ w11.started = 1 ∧ w11.lateClosed = 1 := by decide

/-! ### Liveness on the model: once the signal is set the system runs down, and it cannot get stuck before Shutdown returned

  Go's scheduler is fair: a goroutine that can take a step eventually takes it.  Under that one assumption the three
  theorems below give "Shutdown returns once the peers are gone" for every interleaving:
  * `C11_measure_decreases`: once the shutdown signal is set, EVERY step that changes the state - whoever takes it, the
    environment included - decreases a natural-number measure: no execution goes on for ever, at most `measure σ` state
    changes remain;
  * `C11_shutdown_not_stuck`: as long as Shutdown has been called and has not returned, and no session is still in its request
    loop, a step of the library itself that changes the state is enabled (and it is not the context branch);
  * `C11_shutdown_returns`: from any such state the library's own steps lead to Shutdown returning nil, in at most
    `connClosed + 4` of them - no help from the environment needed. -/

def serveRank : ServePc → Nat
  | .notStarted => 3
  | .accepting => 2
  | .gotConn _ => 1
  | .returned _ => 0

def sdRank : SdPc → Nat
  | .idle => 4
  | .signalled => 3
  | .listenerClosed => 2
  | .waiting => 1
  | .returnedNil => 0
  | .returnedCtx => 0

def measure (σ : State) : Nat :=
  serveRank σ.serve + sdRank σ.sd + (if σ.waiterSawZero then 0 else 1) + (if σ.ctxExpired then 0 else 1) +
    2 * σ.running + σ.connClosed

theorem C11_measure_decreases (σ σ' : State) (l : Label) (hd : σ.done = true) (st : Step σ l σ') (hne : σ' ≠ σ) :
    measure σ' < measure σ := by
  cases st with
  | serveStart hs => simp [measure, serveRank, hs]
  | accept hs hl => simp [measure, serveRank, hs]
  | acceptFail hs hl hd' => simp [measure, serveRank, hs]
  | register c hs hd' => simp [hd] at hd'
  | closeLate c hs hd' => simp [measure, serveRank, hs]
  | sdSignal hs => simp [measure, sdRank, hs]
  | sdCloseListener hs => simp [measure, sdRank, hs]
  | sdStartWait hs => simp [measure, sdRank, hs]
  | waiterDone hs hw =>
    cases hz : σ.waiterSawZero
    · simp [measure, hz]
    · exfalso; apply hne; cases σ; simp_all
  | sdReturnNil hs hw => simp [measure, sdRank, hs]
  | sdReturnCtx hs hc => simp [measure, sdRank, hs]
  | sessCloseConn hr => simp only [measure]; omega
  | sessDone hc => simp only [measure]; omega
  | ctxExpire =>
    cases hz : σ.ctxExpired
    · simp [measure, hz]
    · exfalso; apply hne; cases σ; simp_all

/-- a chain of state-changing steps -/
inductive Run : State → Nat → State → Prop where
  | nil (σ : State) : Run σ 0 σ
  | cons (σ σ1 σ2 : State) (l : Label) (n : Nat) : Step σ l σ1 → σ1 ≠ σ → Run σ1 n σ2 → Run σ (n + 1) σ2

/-- ... is at most `measure σ` long once the signal is set: the system quiesces -/
theorem C11_runs_are_bounded (σ σ' : State) (n : Nat) (hd : σ.done = true) (r : Run σ n σ') : n + measure σ' ≤ measure σ := by
  induction r with
  | nil σ => simp
  | cons σ σ1 σ2 l n st hne _ ih =>
    have h1 := C11_measure_decreases σ σ1 l hd st hne
    have h2 := ih (C11_no_start_after_signal σ σ1 l hd st).2
    omega

def Label.library : Label → Bool
  | .sdCloseListener | .sdStartWait | .waiterDone | .sdReturnNil | .sessDone => true
  | _ => false

def SdPc.inProgress : SdPc → Bool
  | .signalled | .listenerClosed | .waiting => true
  | _ => false

theorem C11_shutdown_not_stuck (σ : State) (h : Reachable σ) (hp : σ.sd.inProgress = true) (hr : σ.running = 0) :
    ∃ l σ', Step σ l σ' ∧ σ' ≠ σ ∧ l.library = true := by
  have inv := inv_reachable σ h
  cases hs : σ.sd with
  | idle => simp [hs, SdPc.inProgress] at hp
  | returnedNil => simp [hs, SdPc.inProgress] at hp
  | returnedCtx => simp [hs, SdPc.inProgress] at hp
  | signalled =>
    refine ⟨.sdCloseListener, _, Step.sdCloseListener σ hs, ?_, rfl⟩
    intro he; have := congrArg State.sd he; simp [hs] at this
  | listenerClosed =>
    refine ⟨.sdStartWait, _, Step.sdStartWait σ hs, ?_, rfl⟩
    intro he; have := congrArg State.sd he; simp [hs] at this
  | waiting =>
    by_cases hc : 0 < σ.connClosed
    · refine ⟨.sessDone, _, Step.sessDone σ hc, ?_, rfl⟩
      intro he; have := congrArg State.connClosed he; simp at this; omega
    · have hw : σ.wg = 0 := by have := inv.wg_counts; omega
      cases hz : σ.waiterSawZero with
      | false =>
        refine ⟨.waiterDone, _, Step.waiterDone σ hs hw, ?_, rfl⟩
        intro he; have := congrArg State.waiterSawZero he; simp [hz] at this
      | true =>
        refine ⟨.sdReturnNil, _, Step.sdReturnNil σ hs hz, ?_, rfl⟩
        intro he; have := congrArg State.sd he; simp [hs] at this

/-- the contrapositive, as the statement about where executions end: a state in which the library can do nothing more, with
    Shutdown called and no session left in its request loop, is a state in which Shutdown HAS returned -/
theorem C11_quiescent_means_returned (σ : State) (h : Reachable σ) (hc : σ.sd ≠ .idle) (hr : σ.running = 0)
    (hq : ∀ l σ', Step σ l σ' → l.library = true → σ' = σ) : σ.sd = .returnedNil ∨ σ.sd = .returnedCtx := by
  cases hs : σ.sd with
  | idle => exact absurd hs hc
  | returnedNil => exact Or.inl rfl
  | returnedCtx => exact Or.inr rfl
  | signalled =>
    obtain ⟨l, σ', st, hne, hl⟩ := C11_shutdown_not_stuck σ h (by simp [hs, SdPc.inProgress]) hr
    exact absurd (hq l σ' st hl) hne
  | listenerClosed =>
    obtain ⟨l, σ', st, hne, hl⟩ := C11_shutdown_not_stuck σ h (by simp [hs, SdPc.inProgress]) hr
    exact absurd (hq l σ' st hl) hne
  | waiting =>
    obtain ⟨l, σ', st, hne, hl⟩ := C11_shutdown_not_stuck σ h (by simp [hs, SdPc.inProgress]) hr
    exact absurd (hq l σ' st hl) hne

/-- a chain of the library's own steps -/
inductive LibRun : State → Nat → State → Prop where
  | nil (σ : State) : LibRun σ 0 σ
  | cons (σ σ1 σ2 : State) (l : Label) (n : Nat) : Step σ l σ1 → l.library = true → LibRun σ1 n σ2 → LibRun σ (n + 1) σ2

theorem libRun_drain : ∀ (k : Nat) (σ : State), σ.sd = .waiting → σ.running = 0 → σ.connClosed = k → σ.wg = k →
    ∃ σ', LibRun σ (k + 2) σ' ∧ σ'.sd = .returnedNil ∧ σ'.running = 0 ∧ σ'.connClosed = 0 ∧ σ'.ended = σ.ended + k := by
  intro k
  induction k with
  | zero =>
    intro σ hs hr hc hw
    refine ⟨{ { σ with waiterSawZero := true } with sd := .returnedNil }, ?_, rfl, hr, hc, rfl⟩
    exact .cons _ _ _ .waiterDone _ (Step.waiterDone σ hs hw) rfl
      (.cons _ _ _ .sdReturnNil _ (Step.sdReturnNil { σ with waiterSawZero := true } hs rfl) rfl (.nil _))
  | succ k ih =>
    intro σ hs hr hc hw
    obtain ⟨σ', run, h1, h2, h3, h4⟩ := ih { σ with connClosed := σ.connClosed - 1, ended := σ.ended + 1, wg := σ.wg - 1 } hs hr
      (by simp; omega) (by simp; omega)
    refine ⟨σ', .cons _ _ _ .sessDone _ (Step.sessDone σ (by omega)) rfl run, h1, h2, h3, ?_⟩
    simp at h4; omega

/-- Shutdown returns nil by the library's own steps, within `connClosed + 4` of them, from ANY reachable state in which it
    has been called and no session is still in its request loop - whatever the interleaving was that led there -/
theorem C11_shutdown_returns (σ : State) (h : Reachable σ) (hp : σ.sd.inProgress = true) (hr : σ.running = 0) :
    ∃ n σ', LibRun σ n σ' ∧ n ≤ σ.connClosed + 4 ∧ σ'.sd = .returnedNil ∧ σ'.running = 0 ∧ σ'.connClosed = 0 ∧
      σ'.ended = σ.started := by
  have inv := inv_reachable σ h
  have hw : σ.wg = σ.connClosed := by have := inv.wg_counts; omega
  cases hs : σ.sd with
  | idle => simp [hs, SdPc.inProgress] at hp
  | returnedNil => simp [hs, SdPc.inProgress] at hp
  | returnedCtx => simp [hs, SdPc.inProgress] at hp
  | waiting =>
    obtain ⟨σ', run, h1, h2, h3, h4⟩ := libRun_drain σ.connClosed σ hs hr rfl hw
    exact ⟨_, σ', run, by omega, h1, h2, h3, by simp [State.started]; omega⟩
  | listenerClosed =>
    obtain ⟨σ', run, h1, h2, h3, h4⟩ := libRun_drain σ.connClosed { σ with sd := .waiting } rfl hr rfl hw
    exact ⟨_, σ', .cons _ _ _ .sdStartWait _ (Step.sdStartWait σ hs) rfl run, by omega, h1, h2, h3, by
      simp [State.started] at h4 ⊢; omega⟩
  | signalled =>
    obtain ⟨σ', run, h1, h2, h3, h4⟩ := libRun_drain σ.connClosed
      { { σ with sd := .listenerClosed, listenerOpen := (!σ.lSet && σ.listenerOpen), lSet := false } with sd := .waiting } rfl hr rfl hw
    exact ⟨_, σ', .cons _ _ _ .sdCloseListener _ (Step.sdCloseListener σ hs) rfl
      (.cons _ _ _ .sdStartWait _ (Step.sdStartWait _ rfl) rfl run), by omega, h1, h2, h3, by
      simp [State.started] at h4 ⊢; omega⟩

/-- Serve, too, cannot get stuck once the listener is closed: its next step (noticing the closed listener, or closing the
    connection it had just accepted) is enabled and makes it return nil -/
theorem C11_serve_not_stuck (σ : State) (h : Reachable σ) (hl : σ.listenerOpen = false)
    (hs : σ.serve = .accepting ∨ ∃ c, σ.serve = .gotConn c) :
    ∃ l σ', Step σ l σ' ∧ σ'.serve = .returned false := by
  have hd := (inv_reachable σ h).listener hl
  rcases hs with hs | ⟨c, hs⟩
  · exact ⟨_, _, Step.acceptFail σ hs hl hd, rfl⟩
  · exact ⟨_, _, Step.closeLate σ c hs hd, rfl⟩

/-- non-vacuity: w8 (Shutdown waiting, one session has closed its connection, none in its loop) meets the hypotheses -/
theorem w8_reachable : Reachable w8 := by
  have r0 : Reachable w0 := .step _ _ _ .init (Step.serveStart init rfl)
  have r1 : Reachable w1 := .step _ _ _ r0 (Step.accept w0 rfl rfl)
  have r2 : Reachable w2 := .step _ _ _ r1 (Step.register w1 1 rfl rfl)
  have r3 : Reachable w3 := .step _ _ _ r2 (Step.accept w2 rfl rfl)
  have r4 : Reachable w4 := .step _ _ _ r3 (Step.sdSignal w3 rfl)
  have r5 : Reachable w5 := .step _ _ _ r4 (Step.closeLate w4 2 rfl rfl)
  have r6 : Reachable w6 := .step _ _ _ r5 (Step.sdCloseListener w5 rfl)
  have r7 : Reachable w7 := .step _ _ _ r6 (Step.sdStartWait w6 rfl)
  exact .step _ _ _ r7 (Step.sessCloseConn w7 (by decide))

example : w8.sd.inProgress = true ∧ w8.running = 0 ∧ w8.connClosed = 1 ∧ measure w8 = 4 := by decide

end Kmip.Shutdown
