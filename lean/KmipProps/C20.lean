import KmipModel.Discover
/-
  C20 — the built-in Discover Versions handler returns exactly the supported subset of the offer.
-/
namespace Kmip.Discover

theorem firstMatch_some (v : Version) (sup : List Version) (s : Version) (h : firstMatch v sup = some s) : s = v ∧ v ∈ sup := by
  induction sup with
  | nil => simp [firstMatch] at h
  | cons x rest ih =>
    simp only [firstMatch] at h
    split at h
    · rename_i hv; simp at h; subst h; exact ⟨hv.symm, by simp [hv]⟩
    · obtain ⟨h1, h2⟩ := ih h; exact ⟨h1, by simp [h2]⟩

theorem firstMatch_none (v : Version) (sup : List Version) (h : firstMatch v sup = none) : v ∉ sup := by
  induction sup with
  | nil => simp
  | cons x rest ih =>
    simp only [firstMatch] at h
    split at h
    · simp at h
    · rename_i hv; simp only [List.mem_cons, not_or]; exact ⟨hv, ih h⟩

/-- the matching loop is the filter of the offer by membership in the supported list: exactly the offered versions
    the server supports, in the order (and multiplicity) of the offer -/
theorem matchLoop_eq_filter (sup offer : List Version) : matchLoop sup offer = offer.filter (fun v => decide (v ∈ sup)) := by
  induction offer with
  | nil => rfl
  | cons v rest ih =>
    simp only [matchLoop, List.filter_cons]
    cases h : firstMatch v sup with
    | some s =>
      obtain ⟨h1, h2⟩ := firstMatch_some v sup s h
      simp [h2, h1, ih]
    | none =>
      have := firstMatch_none v sup h
      simp [this, ih]

/-- an empty offer is answered with the complete supported list, in the server's preference order -/
theorem C20_empty (h : Heap) (sup : Slice) : (discover h sup []).1.elems = sup.elems := by
  simp only [discover, copySlice]
  cases sup.elems <;> rfl

/-- a non-empty offer is answered with exactly the offered versions the server supports -/
theorem C20_filter (h : Heap) (sup : Slice) (offer : List Version) (hne : offer ≠ []) :
    (discover h sup offer).1.elems = offer.filter (fun v => decide (v ∈ sup.elems)) := by
  cases offer with
  | nil => exact absurd rfl hne
  | cons v rest =>
    simp only [discover, copySlice, ← matchLoop_eq_filter]
    cases matchLoop sup.elems (v :: rest) <;> rfl

theorem C20_none_invented (h : Heap) (sup : Slice) (offer : List Version) (hne : offer ≠ []) :
    ∀ v ∈ (discover h sup offer).1.elems, v ∈ offer ∧ v ∈ sup.elems := by
  intro v hv
  rw [C20_filter h sup offer hne] at hv
  simpa using List.mem_filter.mp hv

theorem C20_none_omitted (h : Heap) (sup : Slice) (offer : List Version) (hne : offer ≠ []) :
    ∀ v ∈ offer, v ∈ sup.elems → v ∈ (discover h sup offer).1.elems := by
  intro v hv hs
  rw [C20_filter h sup offer hne]
  exact List.mem_filter.mpr ⟨hv, by simpa using hs⟩

/-- the reply never aliases the configuration: its backing array is nil or freshly allocated, hence different from the
    array of any slice that existed before (all of which have identities below the allocator's next one) -/
theorem C20_fresh (h : Heap) (sup : Slice) (offer : List Version) (hsup : sup.arr < h.next) (hpos : 0 < h.next) :
    (discover h sup offer).1.arr = 0 ∨ ((discover h sup offer).1.arr ≠ sup.arr ∧ h.next ≤ (discover h sup offer).1.arr) := by
  have key : ∀ xs, (copySlice h xs).1.arr = 0 ∨ ((copySlice h xs).1.arr ≠ sup.arr ∧ h.next ≤ (copySlice h xs).1.arr) := by
    intro xs
    cases xs with
    | nil => left; rfl
    | cons x rest => right; simp [copySlice, Heap.alloc]; omega
  cases offer with
  | nil => exact key _
  | cons v rest => exact key _

/-- an empty configuration is replaced by a copy of 1.4, 1.3, 1.2, 1.1 — not by the default slice itself -/
theorem C20_default (h : Heap) (dflt : Slice) (hd : dflt.elems = defaultVersions) (hid : dflt.arr < h.next) :
    (configure h dflt { arr := 0, elems := [] }).1.elems = [(1, 4), (1, 3), (1, 2), (1, 1)] ∧
    (configure h dflt { arr := 0, elems := [] }).1.arr ≠ dflt.arr := by
  simp [configure, copySlice, hd, defaultVersions, Heap.alloc]; omega

/-- a non-empty configuration is used as it is -/
theorem C20_configured_kept (h : Heap) (dflt cfg : Slice) (hne : cfg.elems ≠ []) : (configure h dflt cfg).1 = cfg := by
  have : cfg.elems.length ≠ 0 := by simpa using hne
  simp [configure, this]

example : (discover { next := 5 } { arr := 1, elems := [(1, 4), (1, 2)] } [(1, 2), (2, 0), (1, 2), (1, 4)]).1.elems = [(1, 2), (1, 2), (1, 4)] := by decide

end Kmip.Discover
