import KmipProofs.WireGen
import KmipModel.WireDV
/-
  Discover Versions as messages: the payload `Client.DiscoverVersions(offer)` sends, what the built-in handler
  (KmipModel/Discover.lean) reads in it and what it answers - as values of the generated DiscoverVersionsRequest /
  DiscoverVersionsResponse schemas.  Used by GenC14_discover_versions_over_any_transport.
-/
set_option linter.unusedSimpArgs false
namespace Kmip
open Kmip.Wire Kmip.Discover

theorem mapM_verOf (vs : List Version) : (vs.map verVal).mapM verOf = some vs := by
  induction vs with
  | nil => rfl
  | cons v rest ih =>
    simp only [List.map_cons, List.mapM_cons, ih]
    rfl

theorem offerOf_dvReq (offer : List Version) : offerOf (dvReq offer) = some offer := by
  simp only [offerOf, dvReq, KmipGen.sd_DiscoverVersionsRequest, SD.name, if_true, mapM_verOf]

theorem normVal_verVal (v : Version) : normVal (.struct KmipGen.sd_ProtocolVersion) (verVal v) = verVal v := by
  obtain ⟨a, b⟩ := v
  simp only [verVal, normVal, normFlds, normFV, KmipGen.sd_ProtocolVersion, SD.fields, Fld.ignored, Fld.required, Fld.ty, Fld.tag, Fld.skip,
    specZero, zeroFld, zeroVal]
  by_cases ha : a = 0 <;> by_cases hb : b = 0 <;> simp [ha, hb, anyTag]

theorem normMany_verVals (vs : List Version) :
    normMany (.struct KmipGen.sd_ProtocolVersion) (vs.map verVal) = vs.map verVal := by
  induction vs with
  | nil => rfl
  | cons v rest ih => simp only [List.map_cons, normMany, normVal_verVal, ih]

theorem normDyn_dvReq (offer : List Version) : normDyn (dvReq offer) = dvReq offer := by
  simp only [normDyn, dvReq, normVal, normFlds, normFV, KmipGen.sd_DiscoverVersionsRequest, SD.fields, Fld.ignored, Fld.skip, Fld.tag, Fld.ty]
  simp [normMany_verVals, anyTag]

theorem normDyn_dvResp (vs : List Version) : normDyn (dvResp vs) = dvResp vs := by
  simp only [normDyn, dvResp, normVal, normFlds, normFV, KmipGen.sd_DiscoverVersionsResponse, SD.fields, Fld.ignored, Fld.skip, Fld.tag, Fld.ty]
  simp [normMany_verVals, anyTag]

theorem wf_verVals (vs : List Version) (h : ∀ v ∈ vs, v.1 < two32 ∧ v.2 < two32) :
    WFmany (.struct KmipGen.sd_ProtocolVersion) (vs.map verVal) := by
  induction vs with
  | nil => trivial
  | cons v rest ih =>
    simp only [List.map_cons, WFmany]
    refine ⟨?_, ih (fun w hw => h w (List.mem_cons_of_mem _ hw))⟩
    have hv := h v (List.mem_cons_self ..)
    exact wf_sendView_version v hv.1 hv.2

end Kmip
