import KmipModel.Encode
/-
  C13 helpers: `Shaped` states what Go's static typing guarantees about a value handed to the codec — a field of a given
  Go type holds a value of that type — and nothing else (dynamic values may be anything, including the ill-typed kinds).
  Under `Shaped` the encoder model never reaches one of its `panic` outcomes.
-/
namespace Kmip

/-- `ty` is the primitive type `p`, or a Go type the codec does not support (any value may sit there: the descriptor is rejected first) -/
def FTy.admits : FTy → PTy → Bool
  | .prim q, p => q == p
  | .unsupported, _ => true
  | .struct _, _ => false
  | .dyn _ _, _ => false

def FTy.isDyn : FTy → Bool
  | .dyn _ _ => true
  | .prim _ => false
  | .struct _ => false
  | .unsupported => false

mutual
  /-- the value has the shape of Go type `ty` -/
  def Shaped (ty : FTy) : Val → Bool
    | .int _ => ty.admits .int
    | .long _ => ty.admits .long
    | .enum _ => ty.admits .enum
    | .bool _ => ty.admits .bool
    | .bytes _ => ty.admits .bytes
    | .text _ => ty.admits .text
    | .time _ => ty.admits .time
    | .interval _ => ty.admits .interval
    | .struct fs =>
      match ty with
      | .struct sd => ShapedFlds sd.fields fs
      | .prim _ => false
      | .dyn _ _ => false
      | .unsupported => true
  def ShapedFlds : List Fld → List FV → Bool
    | [], [] => true
    | [], _ :: _ => false
    | _ :: _, [] => false
    | f :: fs, v :: vs => ShapedFV f v && ShapedFlds fs vs
  def ShapedFV (f : Fld) : FV → Bool
    | .one v => !f.skip && !f.slice && !f.ty.isDyn && Shaped f.ty v
    | .many vs => !f.skip && f.slice && !f.ty.isDyn && ShapedMany f.ty vs
    | .dyn d => !f.skip && !f.slice && f.ty.isDyn && ShapedDyn d
    | .skip _ => f.skip
  def ShapedMany (ty : FTy) : List Val → Bool
    | [] => true
    | v :: vs => Shaped ty v && ShapedMany ty vs
  /-- an interface value: nil, one of the ill-typed kinds, or a value that has the shape of its own dynamic type -/
  def ShapedDyn : DynV → Bool
    | .nil => true
    | .bad _ => true
    | .val _ ty v => Shaped ty v
end

def Outcome.np {α : Type} (o : Outcome α) : Prop := ∀ s, o ≠ .panic s

mutual
  theorem isZeroVal_np : ∀ (v : Val) (ty : FTy), Shaped ty v = true → (isZeroVal ty v).np
    | .int _, ty, _ => by intro s; simp [isZeroVal]
    | .long _, ty, _ => by intro s; simp [isZeroVal]
    | .enum _, ty, _ => by intro s; simp [isZeroVal]
    | .bool _, ty, _ => by intro s; simp [isZeroVal]
    | .bytes _, ty, _ => by intro s; simp [isZeroVal]
    | .text _, ty, _ => by intro s; simp [isZeroVal]
    | .time _, ty, _ => by intro s; simp [isZeroVal]
    | .interval _, ty, _ => by intro s; simp [isZeroVal]
    | .struct fs, .struct sd, h => by
      intro s
      rw [isZeroVal]
      by_cases hd : sd.descOk = true
      · rw [if_pos hd]; exact isZeroFlds_np fs sd.fields (by simpa [Shaped] using h) s
      · rw [if_neg hd]; simp
    | .struct fs, .prim _, h => by simp [Shaped] at h
    | .struct fs, .dyn _ _, h => by simp [Shaped] at h
    | .struct fs, .unsupported, h => by intro s; simp [isZeroVal]
  theorem isZeroFlds_np : ∀ (vs : List FV) (fs : List Fld), ShapedFlds fs vs = true → (isZeroFlds fs vs).np
    | [], [], _ => by intro s; simp [isZeroFlds]
    | _ :: _, [], h => by simp [ShapedFlds] at h
    | [], _ :: _, h => by simp [ShapedFlds] at h
    | v :: vs, f :: fs, h => by
      intro s
      simp only [ShapedFlds, Bool.and_eq_true] at h
      rw [isZeroFlds]
      by_cases hi : f.ignored = true
      · rw [if_pos hi]; exact isZeroFlds_np vs fs h.2 s
      · rw [if_neg hi]
        have h1 := isZeroFV_np v f h.1
        have h2 := isZeroFlds_np vs fs h.2
        cases hz : isZeroFV f v with
        | ok b => cases b <;> simp [h2 s]
        | err e => simp
        | panic p => exact absurd hz (h1 p)
  theorem isZeroFV_np : ∀ (v : FV) (f : Fld), ShapedFV f v = true → (isZeroFV f v).np
    | .one v, f, h => by
      intro s
      simp only [ShapedFV, Bool.and_eq_true] at h
      rw [isZeroFV]; exact isZeroVal_np v f.ty h.2 s
    | .many vs, f, _ => by intro s; simp [isZeroFV]
    | .dyn .nil, f, _ => by intro s; simp [isZeroFV]
    | .dyn (.val _ _ _), f, _ => by intro s; simp [isZeroFV]
    | .dyn (.bad _), f, _ => by intro s; simp [isZeroFV]
    | .skip _, f, _ => by intro s; simp [isZeroFV]
end

mutual
  theorem encVal_np : ∀ (v : Val) (tag : Nat) (ty : FTy), Shaped ty v = true → (encVal tag ty v).np
    | .int _, tag, ty, _ => by intro s; simp [encVal]
    | .long _, tag, ty, _ => by intro s; simp [encVal]
    | .enum _, tag, ty, _ => by intro s; simp [encVal]
    | .bool _, tag, ty, _ => by intro s; simp [encVal]
    | .bytes _, tag, ty, _ => by intro s; simp [encVal]
    | .text _, tag, ty, _ => by intro s; simp [encVal]
    | .time _, tag, ty, _ => by intro s; simp [encVal]
    | .interval _, tag, ty, _ => by intro s; simp [encVal]
    | .struct fs, tag, .struct sd, h => by
      intro s
      rw [encVal]
      by_cases hd : sd.descOk = true
      · rw [if_pos hd]
        have := encFlds_np fs sd.fields (by simpa [Shaped] using h)
        cases hb : encFlds sd.fields fs with
        | ok b => simp
        | err e => simp
        | panic p => exact absurd hb (this p)
      · rw [if_neg hd]; simp
    | .struct fs, tag, .prim _, h => by simp [Shaped] at h
    | .struct fs, tag, .dyn _ _, h => by simp [Shaped] at h
    | .struct fs, tag, .unsupported, h => by intro s; simp [encVal]
  theorem encFlds_np : ∀ (vs : List FV) (fs : List Fld), ShapedFlds fs vs = true → (encFlds fs vs).np
    | [], [], _ => by intro s; simp [encFlds]
    | _ :: _, [], h => by simp [ShapedFlds] at h
    | [], _ :: _, h => by simp [ShapedFlds] at h
    | v :: vs, f :: fs, h => by
      intro s
      simp only [ShapedFlds, Bool.and_eq_true] at h
      rw [encFlds]
      have h2 := encFlds_np vs fs h.2
      by_cases hi : f.ignored = true
      · rw [if_pos hi]; exact h2 s
      · rw [if_neg hi]
        have h1 := encFV_np v f h.1 hi
        cases ha : encFV f v with
        | ok a =>
          simp only
          cases hb : encFlds fs vs with
          | ok b => simp
          | err e => simp
          | panic p => exact absurd hb (h2 p)
        | err e => simp
        | panic p => exact absurd ha (h1 p)
  theorem encFV_np : ∀ (v : FV) (f : Fld), ShapedFV f v = true → ¬ f.ignored = true → (encFV f v).np
    | .one v, f, h, _ => by
      intro s
      simp only [ShapedFV, Bool.and_eq_true] at h
      rw [encFV]
      have h1 := encVal_np v f.tag f.ty h.2
      by_cases hr : f.required = true
      · rw [if_pos hr]; exact h1 s
      · rw [if_neg hr]
        have h2 := isZeroVal_np v f.ty h.2
        cases hz : isZeroVal f.ty v with
        | ok b => cases b <;> simp [h1 s]
        | err e => simp
        | panic p => exact absurd hz (h2 p)
    | .many vs, f, h, _ => by
      intro s
      simp only [ShapedFV, Bool.and_eq_true] at h
      rw [encFV]; exact encMany_np vs f.tag f.ty h.2 s
    | .dyn .nil, f, _, _ => by intro s; rw [encFV]; split <;> simp
    | .dyn (.val _ (.prim p) v), f, h, _ => by
      intro s; simp only [ShapedFV, ShapedDyn, Bool.and_eq_true] at h
      rw [encFV]; exact encVal_np v f.tag (.prim p) h.2 s
    | .dyn (.val _ (.struct sd) v), f, h, _ => by
      intro s; simp only [ShapedFV, ShapedDyn, Bool.and_eq_true] at h
      rw [encFV]; exact encVal_np v f.tag (.struct sd) h.2 s
    | .dyn (.val _ (.dyn _ _) v), f, _, _ => by intro s; simp [encFV]
    | .dyn (.val _ .unsupported v), f, _, _ => by intro s; simp [encFV]
    | .dyn (.bad _), f, _, _ => by intro s; simp [encFV]
    | .skip _, f, h, hi => by
      simp only [ShapedFV] at h
      exact absurd (by simp [Fld.ignored, h]) hi
  theorem encMany_np : ∀ (vs : List Val) (tag : Nat) (ty : FTy), ShapedMany ty vs = true → (encMany tag ty vs).np
    | [], tag, ty, _ => by intro s; simp [encMany]
    | v :: vs, tag, ty, h => by
      intro s
      simp only [ShapedMany, Bool.and_eq_true] at h
      rw [encMany]
      have h1 := encVal_np v tag ty h.1
      have h2 := encMany_np vs tag ty h.2
      cases ha : encVal tag ty v with
      | ok a =>
        simp only
        cases hb : encMany tag ty vs with
        | ok b => simp
        | err e => simp
        | panic p => exact absurd hb (h2 p)
      | err e => simp
      | panic p => exact absurd ha (h1 p)
end

/-- `Encode(v)` never panics, whatever is handed to it -/
theorem encodeTop_np : ∀ (d : DynV), ShapedDyn d = true → (encodeTop d).np
  | .nil, _ => by intro s; simp [encodeTop]
  | .bad k, _ => by intro s; cases k <;> simp [encodeTop]
  | .val p (.struct sd) v, h => by
    intro s; rw [encodeTop]; exact encVal_np v sd.tag (.struct sd) (by simpa [ShapedDyn] using h) s
  | .val p (.prim q) v, _ => by intro s; cases q <;> simp [encodeTop]
  | .val p (.dyn _ _) v, _ => by intro s; simp [encodeTop]
  | .val p .unsupported v, _ => by intro s; simp [encodeTop]

end Kmip
