import KmipProofs.DecodeItems
/-
  The slice loop of the decoder against the specification's maximal-run reader, generically in the element reader.
-/
namespace Kmip

def Dec.vlen (d : Dec) : Nat := d.view.length

theorem vlen_mk_zero (r : Bytes) (f : Fin) : (Dec.mk r f 0).vlen = r.length := by simp [Dec.vlen, Dec.view]

theorem wrap_eq_ok {α : Type} (x : Outcome α) (a : α) : x.wrap = .ok a ↔ x = .ok a := by
  cases x <;> simp [Outcome.wrap]

/-- the element reader of the decoder and the element reader of the specification agree on decoders with nothing buffered,
    and the decoder's element reader is insensitive to the lookahead representation -/
structure ValueSpec (step : Dec → Outcome (Val × Nat × Dec)) (elem : Bytes → Option (Val × Bytes)) : Prop where
  iff : ∀ r f v n d', step ⟨r, f, 0⟩ = .ok (v, n, d') ↔ ∃ r', elem r = some (v, r') ∧ d' = ⟨r', f, 0⟩ ∧ n + r'.length = r.length
  norm : ∀ dd : Dec, dd.Wf → step dd.norm = step dd
  /-- every item occupies at least its 8-byte header -/
  shrinks : ∀ r v r', elem r = some (v, r') → r'.length + 8 ≤ r.length

theorem ValueSpec.step_ok {step elem} (h : ValueSpec step elem) (dd : Dec) (hw : dd.Wf) (v : Val) (n : Nat) (d' : Dec)
    (hs : step dd = .ok (v, n, d')) :
    ∃ r', elem dd.view = some (v, r') ∧ d' = ⟨r', dd.fin, 0⟩ ∧ n + r'.length = dd.vlen := by
  rw [← h.norm dd hw] at hs
  exact (h.iff dd.view dd.fin v n d').mp hs

theorem ValueSpec.step_of_elem {step elem} (h : ValueSpec step elem) (dd : Dec) (hw : dd.Wf) (v : Val) (r' : Bytes)
    (he : elem dd.view = some (v, r')) :
    step dd = .ok (v, dd.vlen - r'.length, ⟨r', dd.fin, 0⟩) ∧ r'.length + 8 ≤ dd.vlen := by
  have hl := h.shrinks _ _ _ he
  rw [← h.norm dd hw]
  exact ⟨(h.iff _ _ _ _ _).mpr ⟨r', he, rfl, by simp [Dec.vlen]; omega⟩, hl⟩

/-- after a successful peek on a decoder with nothing buffered -/
theorem peek_after (r : Bytes) (f : Fin) (t : Nat) (d2 : Dec) (h : peekTag ⟨r, f, 0⟩ = .ok (t, d2)) :
    d2.Wf ∧ d2.fin = f ∧ headTag r = some t ∧ 3 ≤ r.length ∧ (t ≠ 0 → d2.view = r) ∧ (t = 0 → d2.vlen + 3 = r.length) ∧ d2.vlen ≤ r.length := by
  obtain ⟨h3, ht, hd, hw, hv1, hv0⟩ := peekTag_zero_last r f t d2 h
  refine ⟨hw, by rw [hd], by simp [headTag, h3, ht], h3, hv1, ?_, ?_⟩
  · intro h0; rw [Dec.vlen, hv0 h0]; simp; omega
  · by_cases h0 : t = 0
    · rw [Dec.vlen, hv0 h0]; simp
    · rw [Dec.vlen, hv1 h0]; omega

theorem peek_of_head (r : Bytes) (f : Fin) (t : Nat) (h : headTag r = some t) :
    ∃ d2, peekTag ⟨r, f, 0⟩ = .ok (t, d2) ∧ d2.Wf ∧ d2.fin = f ∧ (t ≠ 0 → d2.view = r) := by
  unfold headTag at h
  by_cases h3 : 3 ≤ r.length
  · rw [if_pos h3] at h
    simp only [Option.some.injEq] at h
    refine ⟨⟨r.drop 3, f, t⟩, ?_, ?_, rfl, ?_⟩
    · rw [peekTag_eval, if_pos h3, h]
    · rw [← h]; exact take3_lt r h3
    · intro hne; simp only [Dec.view, hne, if_false]; rw [← h]; exact be3_take3 r h3
  · rw [if_neg h3] at h; simp at h

/-- the slice loop never gains bytes: the count plus what is logically left never grows -/
theorem sliceLoop_mono {step elem} (hV : ValueSpec step elem) (ftag E : Nat) :
    ∀ fuel (dd : Dec) n vs n' d', dd.Wf → sliceLoop step ftag E fuel dd n = .ok (vs, n', d') →
      d'.Wf ∧ d'.fin = dd.fin ∧ n' + d'.vlen ≤ n + dd.vlen := by
  intro fuel
  induction fuel with
  | zero => intro dd n vs n' d' _ h; simp [sliceLoop] at h
  | succ fuel ih =>
    intro dd n vs n' d' hw h
    simp only [sliceLoop, Outcome.bind_eq_ok] at h
    obtain ⟨⟨v, nn, dd1⟩, hs, h⟩ := h
    rw [wrap_eq_ok] at hs
    obtain ⟨r1, _, hd1, hn⟩ := hV.step_ok dd hw v nn dd1 hs
    subst hd1
    simp only at h
    by_cases hb : (n + nn) % two32 ≥ E
    · rw [if_pos hb] at h
      simp only [Outcome.ok.injEq, Prod.mk.injEq] at h
      obtain ⟨_, e2, e3⟩ := h
      subst e2 e3
      exact ⟨by simp [Dec.Wf], rfl, by rw [vlen_mk_zero]; omega⟩
    · rw [if_neg hb, Outcome.bind_eq_ok] at h
      obtain ⟨⟨tag, dd2⟩, hp, h⟩ := h
      obtain ⟨hw2, hf2, _, _, _, _, hle⟩ := peek_after r1 dd.fin tag dd2 hp
      simp only at h
      by_cases ht : tag ≠ ftag
      · rw [if_pos ht] at h
        simp only [Outcome.ok.injEq, Prod.mk.injEq] at h
        obtain ⟨_, e2, e3⟩ := h
        subst e2 e3
        exact ⟨hw2, hf2, by omega⟩
      · rw [if_neg ht, Outcome.bind_eq_ok] at h
        obtain ⟨⟨vs', n'', dd3⟩, hrec, h⟩ := h
        simp only [Outcome.ok.injEq, Prod.mk.injEq] at h
        obtain ⟨_, e2, e3⟩ := h
        subst e2 e3
        obtain ⟨hw3, hf3, hle3⟩ := ih dd2 (n + nn) vs' n'' dd3 hw2 hrec
        exact ⟨hw3, by rw [hf3, hf2], by omega⟩

/-- soundness: when the loop ends "in sync" (count + logical remainder = declared length, i.e. no byte was lost to a peeked
    000000 tag), its result is the specification's maximal run -/
theorem sliceLoop_sound {step elem} (hV : ValueSpec step elem) (ftag E : Nat) (hE : E < two32) :
    ∀ fuel (dd : Dec) n vs n' d', dd.Wf → n + dd.vlen = E → sliceLoop step ftag E fuel dd n = .ok (vs, n', d') →
      n' + d'.vlen = E → specMany elem ftag fuel dd.view = some (vs, d'.view) := by
  intro fuel
  induction fuel with
  | zero => intro dd n vs n' d' _ _ h; simp [sliceLoop] at h
  | succ fuel ih =>
    intro dd n vs n' d' hw hsync h hend
    simp only [sliceLoop, Outcome.bind_eq_ok] at h
    obtain ⟨⟨v, nn, dd1⟩, hs, h⟩ := h
    rw [wrap_eq_ok] at hs
    obtain ⟨r1, he, hd1, hn⟩ := hV.step_ok dd hw v nn dd1 hs
    subst hd1
    simp only at h
    simp only [specMany, he, Option.bind_some]
    have hle : n + nn ≤ E := by omega
    have hmod : (n + nn) % two32 = n + nn := Nat.mod_eq_of_lt (by omega)
    by_cases hb : (n + nn) % two32 ≥ E
    · rw [if_pos hb] at h
      simp only [Outcome.ok.injEq, Prod.mk.injEq] at h
      obtain ⟨e1, e2, e3⟩ := h
      subst e1 e2 e3
      have : r1.length = 0 := by omega
      have hr1 : r1 = [] := List.eq_nil_of_length_eq_zero this
      subst hr1
      simp [Dec.view]
    · rw [if_neg hb, Outcome.bind_eq_ok] at h
      obtain ⟨⟨tag, dd2⟩, hp, h⟩ := h
      obtain ⟨hw2, hf2, hh, h3, hv1, hv0, hle2⟩ := peek_after r1 dd.fin tag dd2 hp
      have hr1 : r1 ≠ [] := by intro hc; subst hc; simp at h3
      simp only [hr1, if_false, hh, Option.bind_some]
      simp only at h
      by_cases ht : tag ≠ ftag
      · rw [if_pos ht] at h
        simp only [Outcome.ok.injEq, Prod.mk.injEq] at h
        obtain ⟨e1, e2, e3⟩ := h
        subst e1 e2 e3
        by_cases h0 : tag = 0
        · have := hv0 h0; omega
        · simp [h0, ht, hv1 h0]
      · rw [if_neg ht, Outcome.bind_eq_ok] at h
        obtain ⟨⟨vs', n'', dd3⟩, hrec, h⟩ := h
        simp only [Outcome.ok.injEq, Prod.mk.injEq] at h
        obtain ⟨e1, e2, e3⟩ := h
        subst e1 e2 e3
        have hmono := sliceLoop_mono hV ftag E fuel dd2 (n + nn) vs' n'' dd3 hw2 hrec
        by_cases h0 : tag = 0
        · have := hv0 h0; omega
        · have hv := hv1 h0
          have hsync2 : (n + nn) + dd2.vlen = E := by rw [Dec.vlen, hv]; omega
          have := ih dd2 (n + nn) vs' n'' dd3 hw2 hsync2 hrec hend
          rw [hv] at this
          have ht' : tag = ftag := by simpa using ht
          subst ht'
          simp [h0, this]

/-- completeness: whatever maximal run the specification reads, the loop reads the same, with the exact byte count -/
theorem sliceLoop_complete {step elem} (hV : ValueSpec step elem) (ftag E : Nat) (hE : E < two32) :
    ∀ fuel (dd : Dec) n vs r', dd.Wf → n + dd.vlen = E → specMany elem ftag fuel dd.view = some (vs, r') →
      ∃ d', sliceLoop step ftag E fuel dd n = .ok (vs, E - r'.length, d') ∧ d'.view = r' ∧ d'.Wf ∧ d'.fin = dd.fin ∧ r'.length ≤ E := by
  intro fuel
  induction fuel with
  | zero => intro dd n vs r' _ _ h; simp [specMany] at h
  | succ fuel ih =>
    intro dd n vs r' hw hsync h
    simp only [specMany, Option.bind_eq_some_iff] at h
    obtain ⟨⟨v, r1⟩, he, h⟩ := h
    obtain ⟨hs, hl⟩ := hV.step_of_elem dd hw v r1 he
    simp only [sliceLoop, hs, Outcome.wrap, Outcome.bind_ok]
    simp only at h
    by_cases hr1 : r1 = []
    · subst hr1
      simp only [if_true, Option.some.injEq, Prod.mk.injEq] at h
      obtain ⟨e1, e2⟩ := h
      subst e1 e2
      have hn : n + (dd.vlen - ([] : Bytes).length) = E := by simp; omega
      have : (n + (dd.vlen - ([] : Bytes).length)) % two32 ≥ E := by rw [hn, Nat.mod_eq_of_lt hE]; omega
      rw [if_pos this]
      refine ⟨⟨[], dd.fin, 0⟩, ?_, by simp [Dec.view], by simp [Dec.Wf], rfl, by simp⟩
      simp at hn; simp [hn]
    · rw [if_neg hr1, Option.bind_eq_some_iff] at h
      obtain ⟨t, hh, h⟩ := h
      have hpos : 0 < r1.length := by cases r1 with | nil => exact absurd rfl hr1 | cons a b => simp
      have hn : n + (dd.vlen - r1.length) = E - r1.length := by omega
      have hlt : ¬ (n + (dd.vlen - r1.length)) % two32 ≥ E := by
        rw [hn, Nat.mod_eq_of_lt (by omega)]; omega
      rw [if_neg hlt]
      obtain ⟨dd2, hp, hw2, hf2, hv⟩ := peek_of_head r1 dd.fin t hh
      simp only [hp, Outcome.bind_ok]
      by_cases h0 : t = 0
      · simp [h0] at h
      · rw [if_neg h0] at h
        by_cases ht : t ≠ ftag
        · rw [if_pos ht] at h
          simp only [Option.some.injEq, Prod.mk.injEq] at h
          obtain ⟨e1, e2⟩ := h
          subst e1 e2
          rw [if_pos ht]
          exact ⟨dd2, by rw [hn], hv h0, hw2, hf2, by omega⟩
        · rw [if_neg ht, Option.bind_eq_some_iff] at h
          obtain ⟨⟨vs', r''⟩, hrec, h⟩ := h
          simp only [Option.some.injEq, Prod.mk.injEq] at h
          obtain ⟨e1, e2⟩ := h
          subst e1 e2
          rw [if_neg ht]
          have hsync2 : (n + (dd.vlen - r1.length)) + dd2.vlen = E := by
            have : dd2.vlen = r1.length := by rw [Dec.vlen, hv h0]
            omega
          rw [← hv h0] at hrec
          obtain ⟨d3, hl3, hv3, hw3, hf3, hle3⟩ := ih dd2 _ vs' r'' hw2 hsync2 hrec
          exact ⟨d3, by simp [hl3], hv3, hw3, by rw [hf3, hf2], hle3⟩

end Kmip
