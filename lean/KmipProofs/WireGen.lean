import KmipProofs.WireLemmas
import KmipGen.Schema
/-
  The message model on the schema regenerated from /repo: what Decode's documented normalisation (`normVal`) makes of the
  Request `Client.Send` builds and of the Response `handleBatch` builds, computed on the concrete generated descriptors, and
  what the two ends then read in them.  Shared by GenC07 (the response through the bytes) and GenC14 (Send end to end); kept
  apart from both so that neither property's obligations depend on the other's skeleton ties.
-/
set_option linter.unusedSimpArgs false
namespace Kmip
open Kmip.Wire

def wireZExt : Val := zeroSD KmipGen.sd_MessageExtension
def wireZNonce : Val := zeroSD KmipGen.sd_Nonce

/-- what Decode makes of a dynamically typed value that Encode wrote: a pointer payload comes back as a value payload -/
def normDyn : DynV → DynV
  | .nil => .nil
  | .val _ ty v => .val false ty (normVal ty v)
  | .bad k => .bad k

theorem ite_int_self (n : Nat) : (if n = 0 then FV.one (Val.int 0) else FV.one (Val.int n)) = FV.one (Val.int n) := by
  split
  · rename_i h; rw [h]
  · rfl
theorem ite_enum_self (n : Nat) : (if n = 0 then FV.one (Val.enum 0) else FV.one (Val.enum n)) = FV.one (Val.enum n) := by
  split
  · rename_i h; rw [h]
  · rfl
theorem ite_text_self (m : Bytes) : (if m = [] then FV.one (Val.text []) else FV.one (Val.text m)) = FV.one (Val.text m) := by
  split
  · rename_i h; rw [h]
  · rfl

theorem reqView_norm_mkRequest (ver : Nat × Nat) (op : Nat) (p : DynV) :
    reqView (normVal (.struct KmipGen.sd_Request) (mkRequest wireZExt ver op p)) =
      some { version := .struct [.one (.int ver.1), .one (.int ver.2)], corr := [], async := false, credType := 0,
             batchCount := 1, items := [{ op := op, uid := [], payload := normDyn p }] } := by
  cases p <;>
  simp [mkRequest, normVal, normFlds, normFV, normMany, KmipGen.sd_Request, KmipGen.sd_RequestHeader, KmipGen.sd_RequestBatchItem,
    KmipGen.sd_ProtocolVersion, KmipGen.sd_Authentication, KmipGen.sd_MessageExtension, SD.fields, Fld.ignored, Fld.required, Fld.ty, Fld.tag, Fld.skip,
    specZero, zeroFld, zeroVal, zeroSD, zeroFlds, zeroAuth, wireZExt, reqView, itemIn, anyTag, ite_int_self, normDyn,
    rqHeader, rqItems, hVersion, hClientCorr, hAsync, hAuth, hBatchCount, aCredType, iOperation, iUniqueID, iPayload]

/-- the Client's view of what Decode returns for the encoded single-item Response -/
theorem respView_norm_respVal (clock : Nat) (ver : Val) (corr : Bytes) (it : ItemIn) (res : HRes) :
    Client.respView (normVal (.struct KmipGen.sd_Response)
        (respVal wireZNonce wireZExt clock (fun _ _ => res)
          { version := ver, corr := corr, async := false, credType := 0, batchCount := 1, items := [it] })) =
      some { batchCount := 1, items := [match res with
        | .success q => { op := it.op, status := 0, reason := 0, msg := [], payload := normDyn q }
        | .failed r m => { op := it.op, status := 1, reason := r, msg := m, payload := .nil }] } := by
  cases res with
  | success q =>
    cases q <;>
    simp [respVal, respItems, respItem, normVal, normFlds, normFV, normMany, KmipGen.sd_Response, KmipGen.sd_ResponseHeader, KmipGen.sd_ResponseBatchItem,
      KmipGen.sd_MessageExtension, KmipGen.sd_Nonce, SD.fields, Fld.ignored, Fld.required, Fld.ty, Fld.tag, Fld.skip,
      specZero, zeroFld, zeroVal, zeroSD, zeroFlds, wireZExt, wireZNonce, anyTag, ite_int_self, ite_enum_self, ite_text_self, normDyn,
      Client.respView, Client.itemView, Client.posHeader, Client.posBatchItems, Client.posBatchCount, Client.posOperation,
      Client.posResultStatus, Client.posResultReason, Client.posResultMessage, Client.posResponsePayload, statusSuccess, statusFailed]
  | failed r m =>
    simp [respVal, respItems, respItem, normVal, normFlds, normFV, normMany, KmipGen.sd_Response, KmipGen.sd_ResponseHeader, KmipGen.sd_ResponseBatchItem,
      KmipGen.sd_MessageExtension, KmipGen.sd_Nonce, SD.fields, Fld.ignored, Fld.required, Fld.ty, Fld.tag, Fld.skip,
      specZero, zeroFld, zeroVal, zeroSD, zeroFlds, wireZExt, wireZNonce, anyTag, ite_int_self, ite_enum_self, ite_text_self, normDyn,
      Client.respView, Client.itemView, Client.posHeader, Client.posBatchItems, Client.posBatchCount, Client.posOperation,
      Client.posResultStatus, Client.posResultReason, Client.posResultMessage, Client.posResponsePayload, statusSuccess, statusFailed]

theorem wire_schemas_ok : KmipGen.sd_Request.descOk = true ∧ SD.OK KmipGen.sd_Request = true ∧ KmipGen.sd_Request.tag < tagMax ∧
    KmipGen.sd_Response.descOk = true ∧ SD.OK KmipGen.sd_Response = true ∧ KmipGen.sd_Response.tag < tagMax := by
  decide +kernel

/-- how the Client sees one item of the server's response after it went through Encode and Decode -/
def viewOfN (it : ItemIn) : HRes → Client.ItemView
  | .success p => { op := it.op, status := 0, reason := 0, msg := [], payload := normDyn p }
  | .failed r m => { op := it.op, status := 1, reason := r, msg := m, payload := .nil }

def viewsOfN (H : Nat → ItemIn → HRes) : Nat → List ItemIn → List Client.ItemView
  | _, [] => []
  | i, it :: rest => viewOfN it (H i it) :: viewsOfN H (i + 1) rest

theorem ite_bytes_self (m : Bytes) : (if m = [] then FV.one (Val.bytes []) else FV.one (Val.bytes m)) = FV.one (Val.bytes m) := by
  split
  · rename_i h; rw [h]
  · rfl

theorem itemView_norm_respItem (it : ItemIn) (res : HRes) :
    Client.itemView (normVal (.struct KmipGen.sd_ResponseBatchItem) (respItem wireZExt it res)) = some (viewOfN it res) := by
  cases res with
  | success q =>
    cases q <;>
    simp [respItem, normVal, normFlds, normFV, KmipGen.sd_ResponseBatchItem, KmipGen.sd_MessageExtension, SD.fields, Fld.ignored, Fld.required, Fld.ty, Fld.tag, Fld.skip,
      specZero, zeroFld, zeroVal, zeroSD, zeroFlds, wireZExt, anyTag, ite_enum_self, ite_text_self, ite_bytes_self, normDyn, viewOfN,
      Client.itemView, Client.posOperation, Client.posResultStatus, Client.posResultReason, Client.posResultMessage, Client.posResponsePayload, statusSuccess, statusFailed]
  | failed r m =>
    simp [respItem, normVal, normFlds, normFV, KmipGen.sd_ResponseBatchItem, KmipGen.sd_MessageExtension, SD.fields, Fld.ignored, Fld.required, Fld.ty, Fld.tag, Fld.skip,
      specZero, zeroFld, zeroVal, zeroSD, zeroFlds, wireZExt, anyTag, ite_enum_self, ite_text_self, ite_bytes_self, normDyn, viewOfN,
      Client.itemView, Client.posOperation, Client.posResultStatus, Client.posResultReason, Client.posResultMessage, Client.posResponsePayload, statusSuccess, statusFailed]

theorem mapM_norm_respItems (H : Nat → ItemIn → HRes) : ∀ (i : Nat) (its : List ItemIn),
    (normMany (.struct KmipGen.sd_ResponseBatchItem) (respItems wireZExt H i its)).mapM Client.itemView = some (viewsOfN H i its)
  | _, [] => by simp [respItems, normMany, viewsOfN]
  | i, it :: rest => by
    rw [respItems, normMany, viewsOfN, List.mapM_cons, itemView_norm_respItem, mapM_norm_respItems H (i + 1) rest]
    rfl

/-- the Client's view of what Decode returns for the encoded Response handleBatch built - any number of items -/
theorem respView_norm_respVal_all (clock : Nat) (H : Nat → ItemIn → HRes) (rq : ReqView) :
    Client.respView (normVal (.struct KmipGen.sd_Response) (respVal wireZNonce wireZExt clock H rq)) =
      some { batchCount := rq.batchCount, items := viewsOfN H 0 rq.items } := by
  have hm := mapM_norm_respItems H 0 rq.items
  simp [respVal, normVal, normFlds, normFV, KmipGen.sd_Response, KmipGen.sd_ResponseHeader, KmipGen.sd_Nonce, SD.fields, Fld.ignored, Fld.required, Fld.ty, Fld.tag, Fld.skip,
    specZero, zeroFld, zeroVal, zeroSD, zeroFlds, wireZNonce, anyTag, ite_text_self,
    Client.respView, Client.posHeader, Client.posBatchItems, Client.posBatchCount]
  exact hm



/-! ### well-formedness of the two messages from that of their items -/

theorem wire_zeroAuth_eq' : FV.one zeroAuth = zeroFld (.mk "Authentication" 0x42000c false false false (.struct KmipGen.sd_Authentication)) := by
  simp [zeroFld, zeroSD, zeroFlds, zeroVal, zeroAuth, KmipGen.sd_Authentication]

/-- the Request `Client.Send` builds is well-formed as soon as its one batch item is (version numbers and operation code in
    int32 / enumeration range) -/
theorem wf_mkRequest (ver : Nat × Nat) (op : Nat) (p : DynV) (hv1 : ver.1 < two32) (hv2 : ver.2 < two32)
    (hitem : WFv (.struct KmipGen.sd_RequestBatchItem) (.struct [.one (.enum op), .one (.bytes []), .dyn p, .one wireZExt])) :
    WFv (.struct KmipGen.sd_Request) (mkRequest wireZExt ver op p) := by
  simp only [mkRequest, WFv, WFflds, WFfv, WFmany, KmipGen.sd_Request, KmipGen.sd_RequestHeader,
    KmipGen.sd_ProtocolVersion, SD.fields, Fld.ignored, Fld.required, Fld.ty, Fld.tag, Fld.skip, Fld.slice]
  refine ⟨⟨trivial, by decide, Or.inr ⟨?ver, ?mrs, ?cc, ?sc, ?asy, ?ac, ?att, ?au, ?be, ?bo, ?ts, ?bc, trivial⟩⟩, ⟨trivial, by decide, fun _ => by simp, ⟨?item, trivial⟩⟩, trivial⟩
  case ver => exact ⟨trivial, by decide, Or.inr ⟨⟨trivial, by decide, Or.inr ⟨trivial, hv1⟩⟩, ⟨trivial, by decide, Or.inr ⟨trivial, hv2⟩⟩, trivial⟩⟩
  case mrs => exact ⟨trivial, by decide, Or.inr ⟨trivial, by decide⟩⟩
  case cc => exact ⟨trivial, by decide, Or.inr ⟨trivial, by decide⟩⟩
  case sc => exact ⟨trivial, by decide, Or.inr ⟨trivial, by decide⟩⟩
  case asy => exact ⟨trivial, by decide, Or.inr trivial⟩
  case ac => exact ⟨trivial, by decide, Or.inr trivial⟩
  case att => exact ⟨trivial, by decide, fun h => by simp at h, trivial⟩
  case au => exact ⟨trivial, by decide, Or.inl ⟨trivial, wire_zeroAuth_eq'⟩⟩
  case be => exact ⟨trivial, by decide, Or.inr ⟨trivial, by decide⟩⟩
  case bo => exact ⟨trivial, by decide, Or.inr trivial⟩
  case ts => exact ⟨trivial, by decide, Or.inr ⟨trivial, by decide⟩⟩
  case bc => exact ⟨trivial, by decide, Or.inr ⟨trivial, by decide⟩⟩
  case item => exact hitem

theorem wire_zeroNonce_eq : FV.one wireZNonce = zeroFld (.mk "Nonce" 0x4200c8 false false false (.struct KmipGen.sd_Nonce)) := by
  simp [zeroFld, zeroSD, wireZNonce]

/-- the Response handleBatch builds is well-formed as soon as its items are (and the echoed header values were) -/
theorem wf_respVal (clock : Nat) (H : Nat → ItemIn → HRes) (rq : ReqView)
    (hver : WFv (.struct KmipGen.sd_ProtocolVersion) rq.version) (hclock : clock < two64) (hcorr : rq.corr.length < two32)
    (hbc : rq.batchCount < two32) (hne : rq.items ≠ [])
    (hitems : WFmany (.struct KmipGen.sd_ResponseBatchItem) (respItems wireZExt H 0 rq.items)) :
    WFv (.struct KmipGen.sd_Response) (respVal wireZNonce wireZExt clock H rq) := by
  simp only [respVal, WFv, WFflds, WFfv, KmipGen.sd_Response, KmipGen.sd_ResponseHeader,
    SD.fields, Fld.ignored, Fld.required, Fld.ty, Fld.tag, Fld.skip, Fld.slice]
  refine ⟨⟨trivial, by decide, Or.inr ⟨?ver, ?ts, ?nonce, ?att, ?cc, ?sc, ?bc, trivial⟩⟩, ⟨trivial, by decide, fun _ => ?ne, hitems⟩, trivial⟩
  case ver => exact ⟨trivial, by decide, Or.inr hver⟩
  case ts => exact ⟨trivial, by decide, Or.inr ⟨trivial, hclock⟩⟩
  case nonce => exact ⟨trivial, by decide, Or.inl ⟨trivial, wire_zeroNonce_eq⟩⟩
  case att => exact ⟨trivial, by decide, fun h => by simp at h, trivial⟩
  case cc => exact ⟨trivial, by decide, Or.inr ⟨trivial, hcorr⟩⟩
  case sc => exact ⟨trivial, by decide, Or.inr ⟨trivial, by decide⟩⟩
  case bc => exact ⟨trivial, by decide, Or.inr ⟨trivial, hbc⟩⟩
  case ne =>
    cases hi : rq.items with
    | nil => exact absurd hi hne
    | cons it rest => simp [respItems]

/-- what handleBatch reads in the (decoded) Request `Client.Send(op, p)` built -/
def sendView (ver : Nat × Nat) (op : Nat) (p : DynV) : ReqView :=
  { version := .struct [.one (.int ver.1), .one (.int ver.2)], corr := [], async := false, credType := 0, batchCount := 1,
    items := [{ op := op, uid := [], payload := normDyn p }] }

theorem wf_sendView_version (ver : Nat × Nat) (hv1 : ver.1 < two32) (hv2 : ver.2 < two32) :
    WFv (.struct KmipGen.sd_ProtocolVersion) (.struct [.one (.int ver.1), .one (.int ver.2)]) := by
  simp only [WFv, WFflds, WFfv, KmipGen.sd_ProtocolVersion, SD.fields, Fld.ignored, Fld.required, Fld.ty, Fld.tag, Fld.skip, Fld.slice]
  exact ⟨⟨trivial, by decide, Or.inr ⟨trivial, hv1⟩⟩, ⟨trivial, by decide, Or.inr ⟨trivial, hv2⟩⟩, trivial⟩

end Kmip
