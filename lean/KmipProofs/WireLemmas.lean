import KmipModel.Wire
/-
  Value-level facts about the messages of KmipModel/Wire.lean: what the Client's reading of a Response (Client.respView,
  Client.itemView) makes of the Response handleBatch builds, and what handleBatch's reading of a Request (reqView) makes of
  the Request Client.Send builds.
-/
namespace Kmip.Wire
open Kmip

/-- how the Client sees one item of the server's response -/
def viewOf (it : ItemIn) : HRes → Client.ItemView
  | .success p => { op := it.op, status := statusSuccess, reason := 0, msg := [], payload := p }
  | .failed r m => { op := it.op, status := statusFailed, reason := r, msg := m, payload := .nil }

def viewsOf (H : Nat → ItemIn → HRes) : Nat → List ItemIn → List Client.ItemView
  | _, [] => []
  | i, it :: rest => viewOf it (H i it) :: viewsOf H (i + 1) rest

theorem itemView_respItem (zExt : Val) (it : ItemIn) (r : HRes) :
    Client.itemView (respItem zExt it r) = some (viewOf it r) := by
  cases r <;> rfl

theorem mapM_respItems (zExt : Val) (H : Nat → ItemIn → HRes) : ∀ (i : Nat) (its : List ItemIn),
    (respItems zExt H i its).mapM Client.itemView = some (viewsOf H i its)
  | _, [] => rfl
  | i, it :: rest => by
    rw [respItems, viewsOf, List.mapM_cons, itemView_respItem, mapM_respItems zExt H (i + 1) rest]
    rfl

theorem viewsOf_length (H : Nat → ItemIn → HRes) : ∀ (i : Nat) (its : List ItemIn), (viewsOf H i its).length = its.length
  | _, [] => rfl
  | i, _ :: rest => by simp [viewsOf, viewsOf_length H (i + 1) rest]

/-- the Client's view of the Response handleBatch builds: the request's batch count, and per item the request's operation
    with the handler's outcome -/
theorem respView_respVal (zNonce zExt : Val) (clock : Nat) (H : Nat → ItemIn → HRes) (rq : ReqView) :
    Client.respView (respVal zNonce zExt clock H rq) =
      some { batchCount := rq.batchCount, items := viewsOf H 0 rq.items } := by
  simp only [respVal, Client.respView, Client.posHeader, Client.posBatchItems, Client.posBatchCount]
  simp only [List.getElem?_cons_zero, List.getElem?_cons_succ]
  rw [mapM_respItems]
  rfl

/-- handleBatch's view of the Request `Client.Send(op, payload)` builds -/
theorem reqView_mkRequest (zExt : Val) (ver : Nat × Nat) (op : Nat) (p : DynV) :
    reqView (mkRequest zExt ver op p) =
      some { version := .struct [.one (.int ver.1), .one (.int ver.2)], corr := [], async := false, credType := 0,
             batchCount := 1, items := [{ op := op, uid := [], payload := p }] } := rfl

end Kmip.Wire
