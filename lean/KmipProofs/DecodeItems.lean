import KmipProofs.DecodeNorm
/-
  Item level: on a decoder with nothing buffered, each item reader of the decoder model succeeds exactly when the
  specification's item reader does, with the same value and the same remaining bytes.
-/
namespace Kmip

/-- the 8-byte header at the head of `r`: (tag, type, declared length, what follows) -/
def cutHeader (r : Bytes) : Option (Nat × Nat × Nat × Bytes) :=
  if 8 ≤ r.length then some (fromBE (r.take 3), fromBE ((r.drop 3).take 1), fromBE ((r.drop 4).take 4), r.drop 8) else none

theorem cutItem_eq (r : Bytes) :
    cutItem r = match cutHeader r with
      | some (t, ty, l, body) => if l + padLen l ≤ body.length then some (t, ty, l, body.take l, body.drop (l + padLen l)) else none
      | none => none := by
  unfold cutItem cutHeader
  by_cases h : 8 ≤ r.length <;> simp [h]

theorem cutStruct_eq (r : Bytes) :
    cutStruct r = match cutHeader r with
      | some (t, ty, l, body) => if l ≤ body.length then some (t, ty, l, body.take l, body.drop l) else none
      | none => none := by
  unfold cutStruct cutHeader
  by_cases h : 8 ≤ r.length <;> simp [h]

theorem fromBE_single (b : UInt8) : fromBE [b] = b.toNat := by simp [fromBE]

/-! evaluation of the reader primitives on a decoder with nothing buffered -/

theorem readFull_eval (w : Bytes) (f : Fin) (k : Nat) :
    readFull ⟨w, f, 0⟩ k = if k ≤ w.length then .ok (w.take k, ⟨w.drop k, f, 0⟩)
      else .err (if w.length = 0 then f.err else .other) := by
  simp only [readFull]
  by_cases hk : k ≤ w.length
  · simp [hk]
  · simp only [hk, if_false]
    by_cases h0 : w.length = 0 <;> simp [h0]

theorem expectTag_eval (r : Bytes) (f : Fin) (tag : Nat) :
    expectTag ⟨r, f, 0⟩ tag =
      if 3 ≤ r.length then
        (if tagOk tag (fromBE (r.take 3)) then .ok ⟨r.drop 3, f, 0⟩ else .err .other)
      else .err (if r.length = 0 then f.err else .other) := by
  simp only [expectTag, readTag, internalReadTag, readFull_eval]
  by_cases h3 : 3 ≤ r.length
  · simp only [h3, if_true, ne_eq, not_true_eq_false, if_false, Outcome.bind_ok]
    unfold tagOk
    by_cases e1 : tag = fromBE (List.take 3 r)
    · simp [e1]
    · by_cases e2 : tag = anyTag
      · simp [e2]
      · simp [e1, e2]
  · simp [h3]

theorem readByte_eval (w : Bytes) (f : Fin) :
    readByte ⟨w, f, 0⟩ = if 1 ≤ w.length then .ok (fromBE (w.take 1), ⟨w.drop 1, f, 0⟩) else .err f.err := by
  cases w with
  | nil => simp [readByte]
  | cons b rest => simp [readByte, fromBE_single]

theorem readLength_eval (w : Bytes) (f : Fin) :
    readLength ⟨w, f, 0⟩ = if 4 ≤ w.length then .ok (fromBE (w.take 4), ⟨w.drop 4, f, 0⟩)
      else .err (if w.length = 0 then f.err else .other) := by
  simp only [readLength, readFull_eval]
  by_cases h4 : 4 ≤ w.length <;> simp [h4]

/-- the three header reads (tag, type byte, length) followed by a continuation `K`, on at least 8 bytes -/
theorem hdr_eval {β : Type} (r : Bytes) (f : Fin) (tag : Nat) (K : Nat → Nat → Dec → Outcome β) (h8 : 8 ≤ r.length) :
    ((expectTag ⟨r, f, 0⟩ tag).bind fun d1 => (readByte d1).bind fun p => (readLength p.2).bind fun q => K p.1 q.1 q.2) =
      if tagOk tag (fromBE (r.take 3)) then K (fromBE ((r.drop 3).take 1)) (fromBE ((r.drop 4).take 4)) ⟨r.drop 8, f, 0⟩
      else .err .other := by
  rw [expectTag_eval]
  have h3 : 3 ≤ r.length := by omega
  rw [if_pos h3]
  by_cases ht : tagOk tag (fromBE (r.take 3)) = true
  · rw [if_pos ht, if_pos ht]
    simp only [Outcome.bind_ok]
    rw [readByte_eval]
    have h1 : 1 ≤ (r.drop 3).length := by simp; omega
    rw [if_pos h1]
    simp only [Outcome.bind_ok]
    rw [readLength_eval]
    have h4 : 4 ≤ ((r.drop 3).drop 1).length := by simp; omega
    rw [if_pos h4]
    simp [List.drop_drop]
  · rw [if_neg ht, if_neg ht]; rfl

/-- with fewer than 8 bytes the header reads cannot all succeed -/
theorem hdr_short {β : Type} (r : Bytes) (f : Fin) (tag : Nat) (K : Nat → Nat → Dec → Outcome β) (h8 : ¬ 8 ≤ r.length) (y : β) :
    ((expectTag ⟨r, f, 0⟩ tag).bind fun d1 => (readByte d1).bind fun p => (readLength p.2).bind fun q => K p.1 q.1 q.2) ≠ .ok y := by
  rw [expectTag_eval]
  by_cases h3 : 3 ≤ r.length
  · rw [if_pos h3]
    by_cases ht : tagOk tag (fromBE (r.take 3)) = true
    · rw [if_pos ht]
      simp only [Outcome.bind_ok]
      rw [readByte_eval]
      by_cases h1 : 1 ≤ (r.drop 3).length
      · rw [if_pos h1]
        simp only [Outcome.bind_ok]
        rw [readLength_eval]
        have h4 : ¬ 4 ≤ ((r.drop 3).drop 1).length := by simp; omega
        rw [if_neg h4]; simp
      · rw [if_neg h1]; simp
    · rw [if_neg ht]; simp
  · rw [if_neg h3]; simp

/-- the header form: tag, type byte and length are read, then `K` decides -/
def hdrForm {β : Type} (d : Dec) (tag : Nat) (K : Nat → Nat → Dec → Outcome β) : Outcome β :=
  (expectTag d tag).bind fun d1 => (readByte d1).bind fun p => (readLength p.2).bind fun q => K p.1 q.1 q.2

theorem cutHeader_some (r : Bytes) (t ty l : Nat) (body : Bytes) (h : cutHeader r = some (t, ty, l, body)) :
    8 ≤ r.length ∧ t = fromBE (r.take 3) ∧ ty = fromBE ((r.drop 3).take 1) ∧ l = fromBE ((r.drop 4).take 4) ∧
      body = r.drop 8 ∧ body.length + 8 = r.length := by
  unfold cutHeader at h
  by_cases h8 : 8 ≤ r.length
  · rw [if_pos h8] at h
    simp only [Option.some.injEq, Prod.mk.injEq] at h
    obtain ⟨h1, h2, h3, hb⟩ := h
    subst hb
    exact ⟨h8, h1.symm, h2.symm, h3.symm, rfl, by simp; omega⟩
  · rw [if_neg h8] at h; simp at h

/-- `hdrForm` on a decoder with nothing buffered, in terms of the specification's header cut -/
theorem hdrForm_ok {β : Type} (r : Bytes) (f : Fin) (tag : Nat) (K : Nat → Nat → Dec → Outcome β) (y : β) :
    hdrForm ⟨r, f, 0⟩ tag K = .ok y ↔
      ∃ t ty l body, cutHeader r = some (t, ty, l, body) ∧ tagOk tag t = true ∧ K ty l ⟨body, f, 0⟩ = .ok y := by
  unfold hdrForm
  by_cases h8 : 8 ≤ r.length
  · rw [hdr_eval r f tag K h8]
    constructor
    · intro h
      by_cases ht : tagOk tag (fromBE (r.take 3)) = true
      · rw [if_pos ht] at h
        exact ⟨_, _, _, _, by simp [cutHeader, h8], ht, h⟩
      · rw [if_neg ht] at h; simp at h
    · rintro ⟨t, ty, l, body, hc, ht, hk⟩
      obtain ⟨_, e1, e2, e3, e4, _⟩ := cutHeader_some r t ty l body hc
      subst e1 e2 e3 e4
      rw [if_pos ht]; exact hk
  · constructor
    · intro h; exact absurd h (hdr_short r f tag K h8 y)
    · rintro ⟨t, ty, l, body, hc, _⟩
      exact absurd (cutHeader_some r t ty l body hc).1 h8

theorem readFixed_form (d : Dec) (tag ty len : Nat) (x : Bytes × Dec) :
    readFixed d tag ty len = .ok x ↔
      hdrForm d tag (fun ty' l d3 => if ty ≠ ty' then .err .other else if len ≠ l then .err .other else readFull d3 8) = .ok x := by
  unfold readFixed hdrForm expectType expectLength
  cases expectTag d tag with
  | ok d1 =>
    simp only [Outcome.bind_ok]
    cases readByte d1 with
    | ok p =>
      obtain ⟨t, d2⟩ := p
      simp only [Outcome.bind_ok]
      by_cases ht : ty = t
      · subst ht
        cases hq : readLength d2 with
        | ok q =>
          obtain ⟨l, d3⟩ := q
          by_cases hl : len = l
          · subst hl; simp [hq]
          · simp [hq, hl]
        | err e => simp [hq]
        | panic s => simp [hq]
      · cases hq : readLength d2 <;> simp [ht, hq]
    | err e => simp
    | panic s => simp
  | err e => simp
  | panic s => simp

theorem readFixed_iff (r : Bytes) (f : Fin) (tag ty len : Nat) (b : Bytes) (d' : Dec) :
    readFixed ⟨r, f, 0⟩ tag ty len = .ok (b, d') ↔
      ∃ t body, cutHeader r = some (t, ty, len, body) ∧ tagOk tag t = true ∧ 8 ≤ body.length ∧
        b = body.take 8 ∧ d' = ⟨body.drop 8, f, 0⟩ := by
  rw [readFixed_form, hdrForm_ok]
  constructor
  · rintro ⟨t, ty', l, body, hc, ht, hk⟩
    by_cases h1 : ty ≠ ty'
    · simp [h1] at hk
    · have e1 : ty = ty' := by simpa using h1
      subst e1
      by_cases h2 : len ≠ l
      · simp [h2] at hk
      · have e2 : len = l := by simpa using h2
        subst e2
        simp only [ne_eq, not_true_eq_false, if_false] at hk
        rw [readFull_eval] at hk
        by_cases h8 : 8 ≤ body.length
        · rw [if_pos h8] at hk
          simp only [Outcome.ok.injEq, Prod.mk.injEq] at hk
          exact ⟨t, body, hc, ht, h8, hk.1.symm, hk.2.symm⟩
        · rw [if_neg h8] at hk; simp at hk
  · rintro ⟨t, body, hc, ht, h8, hb, hd⟩
    refine ⟨t, ty, len, body, hc, ht, ?_⟩
    simp only [ne_eq, not_true_eq_false, if_false]
    rw [readFull_eval, if_pos h8, hb, hd]

theorem specPrim_eq (tag : Nat) (p : PTy) (r : Bytes) :
    specPrim tag p r =
      match cutHeader r with
      | some (t, ty, l, body) =>
        if l + padLen l ≤ body.length then
          (if tagOk tag t then (primDenote p ty l (body.take l)).bind fun v => some (v, body.drop (l + padLen l)) else none)
        else none
      | none => none := by
  unfold specPrim
  rw [cutItem_eq]
  cases cutHeader r with
  | none => rfl
  | some x =>
    obtain ⟨t, ty, l, body⟩ := x
    simp only
    by_cases h : l + padLen l ≤ body.length <;> simp [h]

/-- generic step for the six fixed-size primitives: `dv` is how the decoder turns its 8 bytes into a value, `sv` how the
    specification turns the `len` payload bytes into one; they agree on every 8-byte block -/
theorem fixedPrim_iff (r : Bytes) (f : Fin) (tag : Nat) (p : PTy) (code len : Nat) (dv sv : Bytes → Option Val)
    (hlen : len + padLen len = 8)
    (hdec : ∀ d, readPrim d tag p = (readFixed d tag code len).bind fun x => match dv x.1 with | some v => .ok (v, 16, x.2) | none => .err .other)
    (hspec : ∀ ty l payload, primDenote p ty l payload = if ty ≠ code then none else if l = len then sv payload else none)
    (hagree : ∀ body : Bytes, 8 ≤ body.length → dv (body.take 8) = sv (body.take len))
    (v : Val) (n : Nat) (d' : Dec) :
    readPrim ⟨r, f, 0⟩ tag p = .ok (v, n, d') ↔
      ∃ r', specPrim tag p r = some (v, r') ∧ d' = ⟨r', f, 0⟩ ∧ n + r'.length = r.length := by
  rw [hdec, Outcome.bind_eq_ok, specPrim_eq]
  constructor
  · rintro ⟨⟨b, d1⟩, h1, h2⟩
    obtain ⟨t, body, hc, ht, h8, hb, hd⟩ := (readFixed_iff r f tag code len b d1).mp h1
    have hlenr := (cutHeader_some r t code len body hc).2.2.2.2.2
    subst hb hd
    simp only at h2
    cases hv : dv (List.take 8 body) with
    | none => rw [hv] at h2; simp at h2
    | some v' =>
      rw [hv] at h2
      simp only [Outcome.ok.injEq, Prod.mk.injEq] at h2
      obtain ⟨e1, e2, e3⟩ := h2
      subst e1 e2 e3
      refine ⟨body.drop 8, ?_, rfl, by simp; omega⟩
      rw [hc]
      simp only [hlen, h8, if_true, ht, hspec, ne_eq, not_true_eq_false, if_false]
      rw [← hagree body h8, hv]; rfl
  · rintro ⟨r', h1, h2, h3⟩
    cases hc : cutHeader r with
    | none => rw [hc] at h1; simp at h1
    | some x =>
      obtain ⟨t, ty, l, body⟩ := x
      rw [hc] at h1
      simp only at h1
      by_cases hfit : l + padLen l ≤ body.length
      · rw [if_pos hfit] at h1
        by_cases ht : tagOk tag t = true
        · rw [if_pos ht, hspec] at h1
          by_cases hty : ty ≠ code
          · simp [hty] at h1
          · have ety : ty = code := by simpa using hty
            subst ety
            by_cases hl : l = len
            · subst hl
              simp only [ne_eq, not_true_eq_false, if_false, if_true] at h1
              rw [hlen] at hfit h1
              cases hs : sv (List.take l body) with
              | none => rw [hs] at h1; simp at h1
              | some v' =>
                rw [hs] at h1
                simp only [Option.bind_some, Option.some.injEq, Prod.mk.injEq] at h1
                obtain ⟨e1, e2⟩ := h1
                subst e1 e2 h2
                refine ⟨(body.take 8, ⟨body.drop 8, f, 0⟩), (readFixed_iff r f tag ty l _ _).mpr ⟨t, body, hc, ht, hfit, rfl, rfl⟩, ?_⟩
                simp only
                rw [hagree body hfit, hs]
                have hlenr := (cutHeader_some r t ty l body hc).2.2.2.2.2
                simp at h3
                have : n = 16 := by omega
                subst this; rfl
            · simp [hl] at h1
        · rw [if_neg ht] at h1; simp at h1
      · rw [if_neg hfit] at h1; simp at h1

theorem take_take_4_8 (body : Bytes) : (body.take 8).take 4 = body.take 4 := by
  rw [List.take_take]; simp

theorem readVar_form (d : Dec) (tag ty : Nat) (x : Bytes × Nat × Dec) :
    readVar d tag ty = .ok x ↔
      hdrForm d tag (fun ty' l d3 => if ty ≠ ty' then .err .other else
        (readFull d3 l).bind fun a => (readFull a.2 (padLen l)).bind fun b => .ok (a.1, l + 8 + padLen l, b.2)) = .ok x := by
  unfold readVar hdrForm expectType
  cases expectTag d tag with
  | ok d1 =>
    simp only [Outcome.bind_ok]
    cases readByte d1 with
    | ok p =>
      obtain ⟨t, d2⟩ := p
      simp only [Outcome.bind_ok]
      by_cases ht : ty = t
      · subst ht
        cases hq : readLength d2 with
        | ok q => obtain ⟨l, d3⟩ := q; simp [hq]
        | err e => simp [hq]
        | panic s => simp [hq]
      · cases hq : readLength d2 <;> simp [ht, hq]
    | err e => simp
    | panic s => simp
  | err e => simp
  | panic s => simp

theorem varPrim_iff (r : Bytes) (f : Fin) (tag : Nat) (p : PTy) (code : Nat) (mk : Bytes → Val)
    (hdec : ∀ d, readPrim d tag p = (readVar d tag code).bind fun x => .ok (mk x.1, x.2.1, x.2.2))
    (hspec : ∀ ty l payload, primDenote p ty l payload = if ty ≠ code then none else some (mk payload))
    (v : Val) (n : Nat) (d' : Dec) :
    readPrim ⟨r, f, 0⟩ tag p = .ok (v, n, d') ↔
      ∃ r', specPrim tag p r = some (v, r') ∧ d' = ⟨r', f, 0⟩ ∧ n + r'.length = r.length := by
  rw [hdec, Outcome.bind_eq_ok, specPrim_eq]
  constructor
  · rintro ⟨⟨b, nn, d1⟩, h1, h2⟩
    simp only [Outcome.ok.injEq, Prod.mk.injEq] at h2
    obtain ⟨e1, e2, e3⟩ := h2
    subst e1 e2 e3
    rw [readVar_form, hdrForm_ok] at h1
    obtain ⟨t, ty, l, body, hc, ht, hk⟩ := h1
    have hlenr := (cutHeader_some r t ty l body hc).2.2.2.2.2
    by_cases hty : code ≠ ty
    · simp [hty] at hk
    · have ety : code = ty := by simpa using hty
      subst ety
      simp only [ne_eq, not_true_eq_false, if_false] at hk
      rw [readFull_eval] at hk
      by_cases hl : l ≤ body.length
      · rw [if_pos hl] at hk
        simp only [Outcome.bind_ok] at hk
        rw [readFull_eval] at hk
        by_cases hp : padLen l ≤ (body.drop l).length
        · rw [if_pos hp] at hk
          simp only [Outcome.bind_ok, Outcome.ok.injEq, Prod.mk.injEq, List.drop_drop] at hk
          obtain ⟨e1, e2, e3⟩ := hk
          subst e1 e2 e3
          have hfit : l + padLen l ≤ body.length := by simp at hp; omega
          refine ⟨_, ?_, rfl, ?_⟩
          · rw [hc]; simp [hfit, ht, hspec]
          · simp; omega
        · rw [if_neg hp] at hk; simp at hk
      · rw [if_neg hl] at hk; simp at hk
  · rintro ⟨r', h1, h2, h3⟩
    cases hc : cutHeader r with
    | none => rw [hc] at h1; simp at h1
    | some x =>
      obtain ⟨t, ty, l, body⟩ := x
      rw [hc] at h1
      simp only at h1
      have hlenr := (cutHeader_some r t ty l body hc).2.2.2.2.2
      by_cases hfit : l + padLen l ≤ body.length
      · rw [if_pos hfit] at h1
        by_cases ht : tagOk tag t = true
        · rw [if_pos ht, hspec] at h1
          by_cases hty : ty ≠ code
          · simp [hty] at h1
          · have ety : ty = code := by simpa using hty
            subst ety
            simp only [ne_eq, not_true_eq_false, if_false, Option.bind_some, Option.some.injEq, Prod.mk.injEq] at h1
            obtain ⟨e1, e2⟩ := h1
            subst e1 e2 h2
            refine ⟨(body.take l, l + 8 + padLen l, ⟨body.drop (l + padLen l), f, 0⟩), ?_, ?_⟩
            · rw [readVar_form, hdrForm_ok]
              refine ⟨t, ty, l, body, hc, ht, ?_⟩
              simp only [ne_eq, not_true_eq_false, if_false]
              rw [readFull_eval, if_pos (by omega : l ≤ body.length)]
              simp only [Outcome.bind_ok]
              rw [readFull_eval, if_pos (by simp; omega)]
              simp [List.drop_drop]
            · simp at h3
              have : n = l + 8 + padLen l := by omega
              subst this; rfl
        · rw [if_neg ht] at h1; simp at h1
      · rw [if_neg hfit] at h1; simp at h1

/-- item level, all eight primitive types: on a decoder with nothing buffered, `readPrim` succeeds exactly when the
    specification's `specPrim` does, with the same value, the same remaining bytes, and a byte count equal to what was consumed -/
theorem readPrim_iff (r : Bytes) (f : Fin) (tag : Nat) (p : PTy) (v : Val) (n : Nat) (d' : Dec) :
    readPrim ⟨r, f, 0⟩ tag p = .ok (v, n, d') ↔
      ∃ r', specPrim tag p r = some (v, r') ∧ d' = ⟨r', f, 0⟩ ∧ n + r'.length = r.length := by
  cases p with
  | int =>
    exact fixedPrim_iff r f tag .int 2 4 (fun b => some (.int (fromBE (b.take 4)))) (fun pl => some (.int (fromBE pl)))
      (by decide) (fun d => by first | (simp [readPrim]; done) | (simp [readPrim]; rfl)) (fun ty l pl => by simp [primDenote, PTy.code]; try (split <;> simp_all))
      (fun body _ => by simp [take_take_4_8]) v n d'
  | long =>
    exact fixedPrim_iff r f tag .long 3 8 (fun b => some (.long (fromBE b))) (fun pl => some (.long (fromBE pl)))
      (by decide) (fun d => by first | (simp [readPrim]; done) | (simp [readPrim]; rfl)) (fun ty l pl => by simp [primDenote, PTy.code]; try (split <;> simp_all))
      (fun body _ => rfl) v n d'
  | enum =>
    exact fixedPrim_iff r f tag .enum 5 4 (fun b => some (.enum (fromBE (b.take 4)))) (fun pl => some (.enum (fromBE pl)))
      (by decide) (fun d => by first | (simp [readPrim]; done) | (simp [readPrim]; rfl)) (fun ty l pl => by simp [primDenote, PTy.code]; try (split <;> simp_all))
      (fun body _ => by simp [take_take_4_8]) v n d'
  | bool =>
    exact fixedPrim_iff r f tag .bool 6 8 (fun b => (boolOfBytes b).map .bool) (fun pl => (boolOfBytes pl).map .bool)
      (by decide) (fun d => by
        simp only [readPrim]; congr 1; funext x
        cases boolOfBytes x.1 <;> rfl) (fun ty l pl => by simp [primDenote, PTy.code]; try (split <;> simp_all))
      (fun body _ => rfl) v n d'
  | time =>
    exact fixedPrim_iff r f tag .time 9 8 (fun b => some (.time (fromBE b))) (fun pl => some (.time (fromBE pl)))
      (by decide) (fun d => by first | (simp [readPrim]; done) | (simp [readPrim]; rfl)) (fun ty l pl => by simp [primDenote, PTy.code]; try (split <;> simp_all))
      (fun body _ => rfl) v n d'
  | interval =>
    exact fixedPrim_iff r f tag .interval 10 4 (fun b => some (.interval ((fromBE (b.take 4) : Nat) * 1000000000)))
      (fun pl => some (.interval ((fromBE pl : Nat) * 1000000000)))
      (by decide) (fun d => by first | (simp [readPrim]; done) | (simp [readPrim]; rfl)) (fun ty l pl => by simp [primDenote, PTy.code]; try (split <;> simp_all))
      (fun body _ => by simp [take_take_4_8]) v n d'
  | bytes =>
    exact varPrim_iff r f tag .bytes 8 .bytes (fun d => by first | (simp [readPrim]; done) | (simp [readPrim]; rfl)) (fun ty l pl => by simp [primDenote, PTy.code]; try (split <;> simp_all)) v n d'
  | text =>
    exact varPrim_iff r f tag .text 7 .text (fun d => by first | (simp [readPrim]; done) | (simp [readPrim]; rfl)) (fun ty l pl => by simp [primDenote, PTy.code]; try (split <;> simp_all)) v n d'

theorem readSkip_iff (r : Bytes) (f : Fin) (tag : Nat) (n : Nat) (d' : Dec) :
    readSkip ⟨r, f, 0⟩ tag = .ok (n, d') ↔
      ∃ r', specSkip tag r = some r' ∧ d' = ⟨r', f, 0⟩ ∧ n + r'.length = r.length := by
  have hform : readSkip ⟨r, f, 0⟩ tag = hdrForm ⟨r, f, 0⟩ tag (fun _ l d3 =>
      if l + padLen l ≤ d3.win.length then .ok (8 + (l + padLen l), { d3 with win := d3.win.drop (l + padLen l) }) else .err d3.fin.err) := by
    unfold readSkip hdrForm; rfl
  rw [hform, hdrForm_ok]
  unfold specSkip
  rw [cutItem_eq]
  constructor
  · rintro ⟨t, ty, l, body, hc, ht, hk⟩
    have hlenr := (cutHeader_some r t ty l body hc).2.2.2.2.2
    simp only at hk
    by_cases hfit : l + padLen l ≤ body.length
    · rw [if_pos hfit] at hk
      simp only [Outcome.ok.injEq, Prod.mk.injEq] at hk
      obtain ⟨e1, e2⟩ := hk
      subst e1 e2
      refine ⟨body.drop (l + padLen l), ?_, rfl, by simp; omega⟩
      rw [hc]; simp [hfit, ht]
    · rw [if_neg hfit] at hk; simp at hk
  · rintro ⟨r', h1, h2, h3⟩
    cases hc : cutHeader r with
    | none => rw [hc] at h1; simp at h1
    | some x =>
      obtain ⟨t, ty, l, body⟩ := x
      rw [hc] at h1
      have hlenr := (cutHeader_some r t ty l body hc).2.2.2.2.2
      simp only at h1
      by_cases hfit : l + padLen l ≤ body.length
      · rw [if_pos hfit] at h1
        simp only [Option.bind_some] at h1
        by_cases ht : tagOk tag t = true
        · rw [if_pos ht] at h1
          simp only [Option.some.injEq] at h1
          subst h1 h2
          refine ⟨t, ty, l, body, rfl, ht, ?_⟩
          simp only
          rw [if_pos hfit]
          simp at h3
          have : n = 8 + (l + padLen l) := by omega
          subst this; rfl
        · rw [if_neg ht] at h1; simp at h1
      · rw [if_neg hfit] at h1; simp at h1

end Kmip
