import KmipProofs.DecodeField
/-
  The refinement: the Go-shaped lookahead decoder (KmipModel/Decode.lean) accepts exactly what the independent reader /
  schema matcher (KmipModel/Spec.lean) accepts, with the same value and the same byte count — by mutual structural
  recursion over the schema tree.
-/
namespace Kmip

theorem cutHeader_len_lt (r : Bytes) (t ty l : Nat) (body : Bytes) (h : cutHeader r = some (t, ty, l, body)) : l < two32 := by
  obtain ⟨_, _, _, hl, _, _⟩ := cutHeader_some r t ty l body h
  have := fromBE_lt ((r.drop 4).take 4)
  have hlen : ((r.drop 4).take 4).length ≤ 4 := by simp [List.length_take]; omega
  have : fromBE ((r.drop 4).take 4) < 256 ^ 4 := Nat.lt_of_lt_of_le this (Nat.pow_le_pow_right (by omega) hlen)
  rw [hl]; simpa [two32] using this

theorem specPrim_shrinks (tag : Nat) (p : PTy) (r : Bytes) (v : Val) (r' : Bytes) (h : specPrim tag p r = some (v, r')) :
    r'.length + 8 ≤ r.length := by
  rw [specPrim_eq] at h
  cases hc : cutHeader r with
  | none => rw [hc] at h; simp at h
  | some x =>
    obtain ⟨t, ty, l, body⟩ := x
    rw [hc] at h
    have hb := (cutHeader_some r t ty l body hc).2.2.2.2.2
    simp only at h
    by_cases hfit : l + padLen l ≤ body.length
    · rw [if_pos hfit] at h
      split at h
      · rw [Option.bind_eq_some_iff] at h
        obtain ⟨_, _, h⟩ := h
        simp at h; rw [← h.2]; simp; omega
      · simp at h
    · rw [if_neg hfit] at h; simp at h

theorem specStruct_shrinks (tag : Nat) (sd : SD) (r : Bytes) (v : Val) (r' : Bytes) (h : specStruct tag sd r = some (v, r')) :
    r'.length + 8 ≤ r.length := by
  cases sd with
  | mk nm t fields =>
    simp only [specStruct, Option.bind_eq_some_iff] at h
    obtain ⟨⟨t', ty, l, payload, rest⟩, hc, h⟩ := h
    rw [cutStruct_eq] at hc
    cases hh : cutHeader r with
    | none => rw [hh] at hc; simp at hc
    | some x =>
      obtain ⟨t2, ty2, l2, body⟩ := x
      rw [hh] at hc
      have hb := (cutHeader_some r t2 ty2 l2 body hh).2.2.2.2.2
      simp only at hc
      by_cases hfit : l2 ≤ body.length
      · rw [if_pos hfit] at hc
        simp only [Option.some.injEq, Prod.mk.injEq] at hc
        obtain ⟨_, _, _, _, e5⟩ := hc
        simp only at h
        split at h
        · rw [Option.bind_eq_some_iff] at h
          obtain ⟨_, _, h⟩ := h
          split at h
          · simp at h; rw [← h.2, ← e5]; simp; omega
          · simp at h
        · simp at h
      · rw [if_neg hfit] at hc; simp at hc

theorem specDyn_shrinks (tag : Nat) (prev : List FV) (k : Key) :
    ∀ (table : List DEnt) (r : Bytes) (v : Val) (r' : Bytes), specDyn tag prev k table r = some (v, r') → r'.length + 8 ≤ r.length
  | [], r, v, r', h => by simp [specDyn] at h
  | .mk k' ptr (.prim p) :: rest, r, v, r', h => by
    rw [specDyn] at h
    by_cases hk : k' = k
    · rw [if_pos hk] at h
      split at h
      · simp at h
      · exact specPrim_shrinks tag p r v r' h
    · rw [if_neg hk] at h; exact specDyn_shrinks tag prev k rest r v r' h
  | .mk k' ptr (.struct sd) :: rest, r, v, r', h => by
    rw [specDyn] at h
    by_cases hk : k' = k
    · rw [if_pos hk] at h
      split at h
      · split at h
        · exact specStruct_shrinks tag sd r v r' h
        · simp at h
      · simp at h
    · rw [if_neg hk] at h; exact specDyn_shrinks tag prev k rest r v r' h
  | .mk k' ptr (.dyn _ _) :: rest, r, v, r', h => by
    rw [specDyn] at h
    by_cases hk : k' = k
    · rw [if_pos hk] at h; simp at h
    · rw [if_neg hk] at h; exact specDyn_shrinks tag prev k rest r v r' h
  | .mk k' ptr .unsupported :: rest, r, v, r', h => by
    rw [specDyn] at h
    by_cases hk : k' = k
    · rw [if_pos hk] at h; simp at h
    · rw [if_neg hk] at h; exact specDyn_shrinks tag prev k rest r v r' h

theorem specValue_shrinks (tag : Nat) (prev : List FV) (ty : FTy) (r : Bytes) (v : Val) (r' : Bytes)
    (h : specValue tag prev ty r = some (v, r')) : r'.length + 8 ≤ r.length := by
  cases ty with
  | prim p => exact specPrim_shrinks tag p r v r' (by simpa [specValue] using h)
  | struct sd =>
    simp only [specValue] at h
    split at h
    · exact specStruct_shrinks tag sd r v r' h
    · simp at h
  | dyn sel table =>
    simp only [specValue] at h
    split at h
    · simp at h
    · split at h
      · simp at h
      · exact specDyn_shrinks tag prev _ table r v r' h
  | unsupported => simp [specValue] at h

/-- `decStruct` in header form (ok-results only) -/
theorem decStruct_form (nm : String) (t0 : Nat) (fields : List Fld) (tag : Nat) (d : Dec) (x : Val × Nat × Dec) :
    decStruct tag (.mk nm t0 fields) d = .ok x ↔
      hdrForm d tag (fun ty E d3 => if structCode ≠ ty then .err .other else
        (decFields fields E (limitDec d3 E) 0 []).bind fun q =>
          if q.2.1 % two32 ≠ E then .err .other else .ok (.struct q.1, 8 + q.2.1, { d3 with win := d3.win.drop E })) = .ok x := by
  unfold hdrForm
  simp only [decStruct, expectType]
  cases expectTag d tag with
  | ok d1 =>
    simp only [Outcome.bind_ok]
    cases readByte d1 with
    | ok p =>
      obtain ⟨t, d2⟩ := p
      simp only [Outcome.bind_ok]
      by_cases ht : structCode = t
      · subst ht
        cases hq : readLength d2 with
        | ok q => obtain ⟨l, d3⟩ := q; simp [hq]
        | err e => simp [hq]
        | panic s => simp [hq]
      · cases hq : readLength d2 <;> simp [ht, hq]
    | err e => simp
    | panic s => simp
  | err e => simp
  | panic s => simp

theorem limitDec_view (body : Bytes) (f : Fin) (E : Nat) :
    (limitDec ⟨body, f, 0⟩ E).Wf ∧ (limitDec ⟨body, f, 0⟩ E).vlen ≤ E ∧
    (E ≤ body.length → limitDec ⟨body, f, 0⟩ E = ⟨body.take E, .eof, 0⟩) ∧
    (¬ E ≤ body.length → (limitDec ⟨body, f, 0⟩ E).vlen < E) := by
  by_cases h : E ≤ body.length
  · have e : limitDec ⟨body, f, 0⟩ E = ⟨body.take E, .eof, 0⟩ := by simp [limitDec, h]
    refine ⟨by rw [e]; simp [Dec.Wf], ?_, fun _ => e, fun hc => absurd h hc⟩
    rw [e]; simp [Dec.vlen, Dec.view, List.length_take]; omega
  · have e : limitDec ⟨body, f, 0⟩ E = ⟨body, f, 0⟩ := by simp [limitDec, h]
    refine ⟨by rw [e]; simp [Dec.Wf], ?_, fun hc => absurd hc h, fun _ => ?_⟩
    · rw [e]; simp [Dec.vlen, Dec.view]; omega
    · rw [e]; simp [Dec.vlen, Dec.view]; omega

mutual
  theorem V_spec : ∀ (ty : FTy) (tag : Nat) (prev : List FV), ValueSpec (decValue tag prev ty) (specValue tag prev ty)
    | .prim p, tag, prev => by
      refine ⟨fun r f v n d' => ?_, fun dd hw => decValue_norm dd hw tag prev _, fun r v r' h => specValue_shrinks tag prev _ r v r' h⟩
      simp only [decValue, specValue]
      exact readPrim_iff r f tag p v n d'
    | .struct sd, tag, prev => by
      refine ⟨fun r f v n d' => ?_, fun dd hw => decValue_norm dd hw tag prev _, fun r v r' h => specValue_shrinks tag prev _ r v r' h⟩
      simp only [decValue, specValue]
      by_cases hd : sd.descOk = true
      · rw [if_pos hd, if_pos hd]; exact (S_spec sd tag).iff r f v n d'
      · rw [if_neg hd, if_neg hd]; simp
    | .dyn sel table, tag, prev => by
      refine ⟨fun r f v n d' => ?_, fun dd hw => decValue_norm dd hw tag prev _, fun r v r' h => specValue_shrinks tag prev _ r v r' h⟩
      simp only [decValue, specValue]
      cases prev[sel]? with
      | none => simp
      | some fv =>
        simp only
        cases keyOf fv with
        | none => simp
        | some k => exact (D_spec table tag prev k).iff r f v n d'
    | .unsupported, tag, prev => by
      refine ⟨fun r f v n d' => ?_, fun dd hw => decValue_norm dd hw tag prev _, fun r v r' h => specValue_shrinks tag prev _ r v r' h⟩
      simp [decValue, specValue]
  theorem D_spec : ∀ (table : List DEnt) (tag : Nat) (prev : List FV) (k : Key),
      ValueSpec (decDyn tag prev k table) (specDyn tag prev k table)
    | [], tag, prev, k => by
      refine ⟨fun r f v n d' => by simp [decDyn, specDyn], fun dd hw => decDyn_norm dd hw tag prev k _, fun r v r' h => specDyn_shrinks tag prev k _ r v r' h⟩
    | .mk k' ptr (.prim p) :: rest, tag, prev, k => by
      refine ⟨fun r f v n d' => ?_, fun dd hw => decDyn_norm dd hw tag prev k _, fun r v r' h => specDyn_shrinks tag prev k _ r v r' h⟩
      rw [decDyn, specDyn]
      by_cases hk : k' = k
      · rw [if_pos hk, if_pos hk]
        by_cases hp : ptr = true ∨ p = PTy.interval
        · rw [if_pos hp, if_pos hp]; simp
        · rw [if_neg hp, if_neg hp]; exact readPrim_iff r f tag p v n d'
      · rw [if_neg hk, if_neg hk]; exact (D_spec rest tag prev k).iff r f v n d'
    | .mk k' ptr (.struct sd) :: rest, tag, prev, k => by
      refine ⟨fun r f v n d' => ?_, fun dd hw => decDyn_norm dd hw tag prev k _, fun r v r' h => specDyn_shrinks tag prev k _ r v r' h⟩
      rw [decDyn, specDyn]
      by_cases hk : k' = k
      · rw [if_pos hk, if_pos hk]
        by_cases hp : ptr = true
        · rw [if_pos hp, if_pos hp]
          by_cases hd : sd.descOk = true
          · rw [if_pos hd, if_pos hd]; exact (S_spec sd tag).iff r f v n d'
          · rw [if_neg hd, if_neg hd]; simp
        · rw [if_neg hp, if_neg hp]; simp
      · rw [if_neg hk, if_neg hk]; exact (D_spec rest tag prev k).iff r f v n d'
    | .mk k' ptr (.dyn _ _) :: rest, tag, prev, k => by
      refine ⟨fun r f v n d' => ?_, fun dd hw => decDyn_norm dd hw tag prev k _, fun r v r' h => specDyn_shrinks tag prev k _ r v r' h⟩
      rw [decDyn, specDyn]
      by_cases hk : k' = k
      · rw [if_pos hk, if_pos hk]; simp
      · rw [if_neg hk, if_neg hk]; exact (D_spec rest tag prev k).iff r f v n d'
    | .mk k' ptr .unsupported :: rest, tag, prev, k => by
      refine ⟨fun r f v n d' => ?_, fun dd hw => decDyn_norm dd hw tag prev k _, fun r v r' h => specDyn_shrinks tag prev k _ r v r' h⟩
      rw [decDyn, specDyn]
      by_cases hk : k' = k
      · rw [if_pos hk, if_pos hk]; simp
      · rw [if_neg hk, if_neg hk]; exact (D_spec rest tag prev k).iff r f v n d'
  theorem S_spec : ∀ (sd : SD) (tag : Nat), ValueSpec (decStruct tag sd) (specStruct tag sd)
    | .mk nm t0 fields, tag => by
      refine ⟨fun r f v n d' => ?_, fun dd hw => decStruct_norm dd hw tag _, fun r v r' h => specStruct_shrinks tag _ r v r' h⟩
      rw [decStruct_form, hdrForm_ok]
      simp only [specStruct]
      rw [cutStruct_eq]
      constructor
      · rintro ⟨t, ty, E, body, hc, ht, hk⟩
        have hE := cutHeader_len_lt r t ty E body hc
        have hb := (cutHeader_some r t ty E body hc).2.2.2.2.2
        by_cases hty : structCode ≠ ty
        · simp [hty] at hk
        · have ety : structCode = ty := by simpa using hty
          subst ety
          simp only [ne_eq, not_true_eq_false, if_false, Outcome.bind_eq_ok] at hk
          obtain ⟨⟨vals, nsum, ddf⟩, hf, hk⟩ := hk
          simp only at hk
          by_cases hm : nsum % two32 ≠ E
          · simp [hm] at hk
          · have hm' : nsum % two32 = E := by simpa using hm
            simp only [hm', ne_eq, not_true_eq_false, if_false, Outcome.ok.injEq, Prod.mk.injEq] at hk
            obtain ⟨e1, e2, e3⟩ := hk
            subst e1 e2 e3
            obtain ⟨hlw, hlv, hl1, hl2⟩ := limitDec_view body f E
            obtain ⟨hwf, hff, hmono⟩ := F_mono fields E (limitDec ⟨body, f, 0⟩ E) 0 [] vals nsum ddf hlw hf
            have hns : nsum = E := by
              have : nsum < two32 := by omega
              rw [Nat.mod_eq_of_lt this] at hm'; exact hm'
            subst hns
            have hfit : nsum ≤ body.length := by
              by_cases hc2 : nsum ≤ body.length
              · exact hc2
              · have := hl2 hc2; omega
            have hwin := hl1 hfit
            rw [hwin] at hf hmono
            have hvl : (Dec.mk (body.take nsum) Fin.eof 0).vlen = nsum := by
              simp [Dec.vlen, Dec.view, List.length_take]; omega
            have hend : nsum + ddf.vlen = nsum := by omega
            have hsound := F_sound fields nsum hE ⟨body.take nsum, .eof, 0⟩ 0 [] vals nsum ddf (by simp [Dec.Wf]) rfl
              (by rw [hvl]; omega) hf hend
            rw [view_mk_zero] at hsound
            have hvnil : ddf.view = [] := by
              have : ddf.view.length = 0 := by have : ddf.vlen = 0 := by omega
                                               exact this
              exact List.eq_nil_of_length_eq_zero this
            rw [hvnil] at hsound
            refine ⟨body.drop nsum, ?_, rfl, by simp; omega⟩
            rw [hc]
            simp only [hfit, if_true, Option.bind_some, ht, and_self, hsound]
      · rintro ⟨r', h, hd', hn⟩
        cases hc : cutHeader r with
        | none => rw [hc] at h; simp at h
        | some x =>
          obtain ⟨t, ty, E, body⟩ := x
          rw [hc] at h
          have hE := cutHeader_len_lt r t ty E body hc
          have hb := (cutHeader_some r t ty E body hc).2.2.2.2.2
          simp only at h
          by_cases hfit : E ≤ body.length
          · rw [if_pos hfit] at h
            simp only [Option.bind_some] at h
            by_cases hcond : tagOk tag t = true ∧ ty = structCode
            · rw [if_pos hcond, Option.bind_eq_some_iff] at h
              obtain ⟨⟨vals, left⟩, hsp, h⟩ := h
              simp only at h
              by_cases hleft : left = []
              · subst hleft
                simp only [if_true, Option.some.injEq, Prod.mk.injEq] at h
                obtain ⟨e1, e2⟩ := h
                subst e1 e2 hd'
                obtain ⟨_, _, hl1, _⟩ := limitDec_view body f E
                have hvl : (Dec.mk (body.take E) Fin.eof 0).vlen = E := by
                  simp [Dec.vlen, Dec.view, List.length_take]; omega
                obtain ⟨ddf, hdf, _, _, _, _⟩ := F_complete fields E hE ⟨body.take E, .eof, 0⟩ 0 [] vals [] (by simp [Dec.Wf]) rfl
                  (by rw [hvl]; omega) (by rw [view_mk_zero]; exact hsp)
                refine ⟨t, ty, E, body, rfl, hcond.1, ?_⟩
                rw [hcond.2]
                simp only [ne_eq, not_true_eq_false, if_false]
                rw [hl1 hfit, hdf]
                simp only [List.length_nil, Nat.sub_zero, Outcome.bind_ok, Nat.mod_eq_of_lt hE, ne_eq, not_true_eq_false, if_false]
                simp at hn
                have : n = 8 + E := by omega
                subst this; rfl
              · rw [if_neg hleft] at h; simp at h
            · rw [if_neg hcond] at h; simp at h
          · rw [if_neg hfit] at h; simp at h
  /-- the field loop never gains bytes -/
  theorem F_mono : ∀ (fs : List Fld) (E : Nat) (dd : Dec) (n : Nat) (prev : List FV) (vals : List FV) (n' : Nat) (dd' : Dec),
      dd.Wf → decFields fs E dd n prev = .ok (vals, n', dd') → dd'.Wf ∧ dd'.fin = dd.fin ∧ n' + dd'.vlen ≤ n + dd.vlen
    | [], E, dd, n, prev, vals, n', dd', hw, h => by
      simp only [decFields, Outcome.ok.injEq, Prod.mk.injEq] at h
      obtain ⟨_, e2, e3⟩ := h
      subst e2 e3
      exact ⟨hw, rfl, by omega⟩
    | .mk name tag required slice skip ty :: fs, E, dd, n, prev, vals, n', dd', hw, h => by
      simp only [decFields, Outcome.bind_eq_ok] at h
      obtain ⟨⟨fv, n1, d1⟩, h1, ⟨rest, n2, d2⟩, h2, h3⟩ := h
      simp only [Outcome.ok.injEq, Prod.mk.injEq] at h3
      obtain ⟨_, e2, e3⟩ := h3
      subst e2 e3
      obtain ⟨hw1, hf1, hm1⟩ := decField_mono name tag required slice skip ty prev (V_spec ty tag prev) E dd n fv n1 d1 hw h1
      obtain ⟨hw2, hf2, hm2⟩ := F_mono fs E d1 n1 (prev ++ [fv]) rest n2 d2 hw1 h2
      exact ⟨hw2, by rw [hf2, hf1], by omega⟩
  /-- soundness of the field loop: ending in sync, it did what the specification's field matcher does -/
  theorem F_sound : ∀ (fs : List Fld) (E : Nat) (_ : E < two32) (dd : Dec) (n : Nat) (prev : List FV) (vals : List FV) (n' : Nat) (dd' : Dec),
      dd.Wf → dd.fin = .eof → n + dd.vlen = E → decFields fs E dd n prev = .ok (vals, n', dd') → n' + dd'.vlen = E →
      specFields fs dd.view prev = some (vals, dd'.view)
    | [], E, hE, dd, n, prev, vals, n', dd', hw, hfin, hsync, h, hend => by
      simp only [decFields, Outcome.ok.injEq, Prod.mk.injEq] at h
      obtain ⟨e1, e2, e3⟩ := h
      subst e1 e2 e3
      simp [specFields]
    | .mk name tag required slice skip ty :: fs, E, hE, dd, n, prev, vals, n', dd', hw, hfin, hsync, h, hend => by
      simp only [decFields, Outcome.bind_eq_ok] at h
      obtain ⟨⟨fv, n1, d1⟩, h1, ⟨rest, n2, d2⟩, h2, h3⟩ := h
      simp only [Outcome.ok.injEq, Prod.mk.injEq] at h3
      obtain ⟨e1, e2, e3⟩ := h3
      subst e1 e2 e3
      have hV := V_spec ty tag prev
      obtain ⟨hw1, hf1, hm1⟩ := decField_mono name tag required slice skip ty prev hV E dd n fv n1 d1 hw h1
      obtain ⟨hw2, hf2, hm2⟩ := F_mono fs E d1 n1 (prev ++ [fv]) rest n2 d2 hw1 h2
      have hsync1 : n1 + d1.vlen = E := by omega
      have hs1 := decField_sound name tag required slice skip ty prev hV E hE dd n fv n1 d1 hw hfin hsync h1 hsync1
      have hs2 := F_sound fs E hE d1 n1 (prev ++ [fv]) rest n2 d2 hw1 (by rw [hf1, hfin]) hsync1 h2 hend
      simp only [specFields, hs1, Option.bind_some, hs2]
  /-- completeness of the field loop -/
  theorem F_complete : ∀ (fs : List Fld) (E : Nat) (_ : E < two32) (dd : Dec) (n : Nat) (prev : List FV) (vals : List FV) (r' : Bytes),
      dd.Wf → dd.fin = .eof → n + dd.vlen = E → specFields fs dd.view prev = some (vals, r') →
      ∃ dd', decFields fs E dd n prev = .ok (vals, E - r'.length, dd') ∧ dd'.view = r' ∧ dd'.Wf ∧ dd'.fin = .eof ∧ r'.length ≤ E
    | [], E, hE, dd, n, prev, vals, r', hw, hfin, hsync, h => by
      simp only [specFields, Option.some.injEq, Prod.mk.injEq] at h
      obtain ⟨e1, e2⟩ := h
      subst e1 e2
      have : dd.view.length = dd.vlen := rfl
      exact ⟨dd, by simp [decFields]; omega, rfl, hw, hfin, by omega⟩
    | .mk name tag required slice skip ty :: fs, E, hE, dd, n, prev, vals, r', hw, hfin, hsync, h => by
      simp only [specFields, Option.bind_eq_some_iff] at h
      obtain ⟨⟨fv, r1⟩, h1, ⟨rest, r2⟩, h2, h3⟩ := h
      simp only [Option.some.injEq, Prod.mk.injEq] at h3
      obtain ⟨e1, e2⟩ := h3
      subst e1 e2
      have hV := V_spec ty tag prev
      obtain ⟨d1, hd1, hv1, hw1, hf1, hle1⟩ := decField_complete name tag required slice skip ty prev hV E hE dd n fv r1 hw hfin hsync h1
      have hsync1 : (E - r1.length) + d1.vlen = E := by rw [Dec.vlen, hv1]; omega
      rw [← hv1] at h2
      obtain ⟨d2, hd2, hv2, hw2, hf2, hle2⟩ := F_complete fs E hE d1 (E - r1.length) (prev ++ [fv]) rest r2 hw1 hf1 hsync1 h2
      exact ⟨d2, by simp [decFields, hd1, hd2], hv2, hw2, hf2, hle2⟩
end

end Kmip
