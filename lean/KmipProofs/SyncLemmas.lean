import KmipModel.Sync
namespace Kmip.Sync

theorem holderAfter_append (h : Option Nat) (a b : Trace) :
    holderAfter h (a ++ b) = holderAfter (holderAfter h a) b := by
  induction a generalizing h with
  | nil => rfl
  | cons e rest ih =>
    simp only [List.cons_append, holderAfter]
    split <;> simp [ih]

theorem LockOK_append (h : Option Nat) (a b : Trace) :
    LockOK h (a ++ b) ↔ LockOK h a ∧ LockOK (holderAfter h a) b := by
  induction a generalizing h with
  | nil => simp [LockOK, holderAfter]
  | cons e rest ih =>
    simp only [List.cons_append, LockOK, holderAfter]
    split <;> simp [ih, and_assoc]

/-- if the holder ends up being `t2` and did not start as `t2`, the trace contains a Lock by `t2` -/
theorem exists_acq (s : Trace) (h : Option Nat) (t2 : Nat) (hne : h ≠ some t2) (hend : holderAfter h s = some t2) :
    ∃ s1 s2, s = s1 ++ (⟨t2, .acq⟩ : Ev) :: s2 := by
  induction s generalizing h with
  | nil => simp [holderAfter] at hend; exact absurd hend hne
  | cons e rest ih =>
    simp only [holderAfter] at hend
    cases hop : e.op with
    | acq =>
      rw [hop] at hend; simp only at hend
      by_cases he : e.tid = t2
      · exact ⟨[], rest, by cases e; simp_all⟩
      · obtain ⟨s1, s2, hs⟩ := ih (some e.tid) (by simpa using he) hend
        exact ⟨e :: s1, s2, by simp [hs]⟩
    | rel =>
      rw [hop] at hend; simp only at hend
      obtain ⟨s1, s2, hs⟩ := ih none (by simp) hend
      exact ⟨e :: s1, s2, by simp [hs]⟩
    | rd l =>
      rw [hop] at hend; simp only at hend
      obtain ⟨s1, s2, hs⟩ := ih h hne hend
      exact ⟨e :: s1, s2, by simp [hs]⟩
    | wr l =>
      rw [hop] at hend; simp only at hend
      obtain ⟨s1, s2, hs⟩ := ih h hne hend
      exact ⟨e :: s1, s2, by simp [hs]⟩
    | fork c =>
      rw [hop] at hend; simp only at hend
      obtain ⟨s1, s2, hs⟩ := ih h hne hend
      exact ⟨e :: s1, s2, by simp [hs]⟩

/-- while `t1` holds the mutex, the holder can only change through an Unlock by `t1`, followed later by a Lock of the new holder -/
theorem rel_then_acq (mid : Trace) (t1 t2 : Nat) (hne : t1 ≠ t2) (hok : LockOK (some t1) mid)
    (hend : holderAfter (some t1) mid = some t2) :
    ∃ m1 m2 m3, mid = m1 ++ (⟨t1, .rel⟩ : Ev) :: (m2 ++ (⟨t2, .acq⟩ : Ev) :: m3) := by
  induction mid with
  | nil => simp [holderAfter] at hend; exact absurd hend hne
  | cons e rest ih =>
    simp only [holderAfter] at hend
    simp only [LockOK] at hok
    cases hop : e.op with
    | acq => rw [hop] at hok; simp at hok
    | rel =>
      rw [hop] at hok hend; simp only at hok hend
      obtain ⟨s1, s2, hs⟩ := exists_acq rest none t2 (by simp) hend
      have : e = ⟨t1, .rel⟩ := by cases e; simp_all
      exact ⟨[], s1, s2, by simp [this, hs]⟩
    | rd l =>
      rw [hop] at hok hend; simp only at hok hend
      obtain ⟨m1, m2, m3, hm⟩ := ih hok hend
      exact ⟨e :: m1, m2, m3, by simp [hm]⟩
    | wr l =>
      rw [hop] at hok hend; simp only at hok hend
      obtain ⟨m1, m2, m3, hm⟩ := ih hok hend
      exact ⟨e :: m1, m2, m3, by simp [hm]⟩
    | fork c =>
      rw [hop] at hok hend; simp only at hok hend
      obtain ⟨m1, m2, m3, hm⟩ := ih hok hend
      exact ⟨e :: m1, m2, m3, by simp [hm]⟩

end Kmip.Sync
