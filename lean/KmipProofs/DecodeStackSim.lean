import KmipModel.DecodeStack
import KmipProofs.IoStackLemmas
import KmipProofs.DecodeSpec
import KmipModel.Stream
/-
  The decoder over the real reader stack (KmipModel/DecodeStack.lean) simulates the flat decoder model (KmipModel/Decode.lean):
  related states (same flat view, same lookahead tag) give the same value, the same byte count and related states again - or
  the same class of error.  By induction along decode.go's own recursion, from the per-primitive theorems of
  KmipProofs/IoStackLemmas.lean.
-/
namespace Kmip.Stk
open Kmip Kmip.Io

/-- the stacks a Decoder can sit on: its own bufio.Reader, or - when the caller handed NewDecoder an io.ByteScanner - the bare source -/
def IsBuf : Stack → Prop
  | .buf _ _ _ _ => True
  | .src _ => True
  | .lim _ _ => False

theorem isBuf_reach {s s' : Stack} (hb : IsBuf s) (hi : s.Inv) (hr : Reach s s') : IsBuf s' := by
  match s, hb, hi with
  | .buf i sz p e, _, hi =>
    obtain ⟨i', p', e', rfl, _⟩ := reach_buf hi.2.1 hr
    trivial
  | .src s0, _, _ =>
    obtain ⟨s1, rfl⟩ := reach_src hr
    trivial

/-- the flat decoder state `d` and the stack decoder state `x` show the same bytes, end the same way, hold the same lookahead tag -/
def Sim (d : Dec) (x : SDec) : Prop :=
  d.win = x.s.content ∧ d.fin.err = x.s.fin ∧ x.s.Inv ∧ IsBuf x.s ∧ d.last = x.last

/-- related outcomes: `p1` / `p2` split a result into its payload and the decoder state -/
def RelW {τ1 τ2 σ : Type} (p1 : τ1 → σ × Dec) (p2 : τ2 → σ × SDec) (s0 : Stack) : Outcome τ1 → Outcome τ2 → Prop
  | .ok a, .ok b => (p1 a).1 = (p2 b).1 ∧ Sim (p1 a).2 (p2 b).2 ∧ Reach s0 (p2 b).2.s
  | .err e, .err e' => e = e'
  | .panic _, .panic _ => True
  | _, _ => False

theorem RelW.bind {τ1 τ2 σ υ1 υ2 ρ : Type} {p1 : τ1 → σ × Dec} {p2 : τ2 → σ × SDec} {q1 : υ1 → ρ × Dec} {q2 : υ2 → ρ × SDec}
    {s0 : Stack} {o1 : Outcome τ1} {o2 : Outcome τ2} {f : τ1 → Outcome υ1} {g : τ2 → Outcome υ2}
    (h : RelW p1 p2 s0 o1 o2)
    (hf : ∀ a b, (p1 a).1 = (p2 b).1 → Sim (p1 a).2 (p2 b).2 → Reach s0 (p2 b).2.s → RelW q1 q2 s0 (f a) (g b)) :
    RelW q1 q2 s0 (o1.bind f) (o2.bind g) := by
  cases o1 <;> cases o2 <;> simp only [RelW] at h
  · exact hf _ _ h.1 h.2.1 h.2.2
  · simpa [RelW] using h
  · simp [RelW]

theorem RelW.wrap {τ1 τ2 σ : Type} {p1 : τ1 → σ × Dec} {p2 : τ2 → σ × SDec} {s0 : Stack} {o1 : Outcome τ1} {o2 : Outcome τ2}
    (h : RelW p1 p2 s0 o1 o2) : RelW p1 p2 s0 o1.wrap o2.wrap := by
  cases o1 <;> cases o2 <;> simp only [RelW] at h <;> simp [RelW, Outcome.wrap, h]

/-- restating a relation from a later starting point at an earlier one -/
theorem RelW.from {τ1 τ2 σ : Type} {p1 : τ1 → σ × Dec} {p2 : τ2 → σ × SDec} {s0 s1 : Stack} {o1 : Outcome τ1} {o2 : Outcome τ2}
    (hr : Reach s0 s1) (h : RelW p1 p2 s1 o1 o2) : RelW p1 p2 s0 o1 o2 := by
  cases o1 <;> cases o2 <;> simp only [RelW] at h <;> simp only [RelW]
  · exact ⟨h.1, h.2.1, Reach.trans hr h.2.2⟩
  · exact h

/-- the three result shapes of the decoder's functions -/
abbrev P0d : Dec → Unit × Dec := fun d => ((), d)
abbrev P0s : SDec → Unit × SDec := fun d => ((), d)
abbrev P1d {α : Type} : α × Dec → α × Dec := id
abbrev P1s {α : Type} : α × SDec → α × SDec := id
abbrev P2d {α β : Type} : α × β × Dec → (α × β) × Dec := fun x => ((x.1, x.2.1), x.2.2)
abbrev P2s {α β : Type} : α × β × SDec → (α × β) × SDec := fun x => ((x.1, x.2.1), x.2.2)

/-! ### the three primitives -/

theorem sim_readFull (d : Dec) (x : SDec) (h : Sim d x) (k : Nat) :
    RelW P1d P1s x.s (Kmip.readFull d k) (readFull x k) := by
  obtain ⟨hw, hf, hi, hb, hl⟩ := h
  obtain ⟨h1, h2⟩ := stackReadFull_flat x.s k hi
  unfold Kmip.readFull readFull
  by_cases hk : k ≤ d.win.length
  · obtain ⟨s', e1, e2, e3, e4⟩ := h1 (by rw [← hw]; exact hk)
    have hr := readFull_reach x.s k _ s' e1
    rw [if_pos hk, e1]
    exact ⟨by simp [hw], ⟨by simp [hw, e3], by simp [hf, e4], e2, isBuf_reach hb hi hr, hl⟩, hr⟩
  · rw [if_neg hk, h2 (by rw [← hw]; exact hk)]
    by_cases hz : d.win.length = 0
    · simp [RelW, hz, ← hw, hf]
    · simp [RelW, hz, ← hw]

theorem sim_readByte (d : Dec) (x : SDec) (h : Sim d x) :
    RelW P1d P1s x.s (Kmip.readByte d) (readByte x) := by
  obtain ⟨hw, hf, hi, hb, hl⟩ := h
  unfold Kmip.readByte readByte
  match hx : x.s, hb, hi with
  | .buf i sz p e, _, hi' =>
    obtain ⟨g1, g2⟩ := readByte_flat i sz p e hi'
    cases hc : d.win with
    | nil =>
      have : (Stack.buf i sz p e).content = [] := by rw [← hx, ← hw, hc]
      rw [g1 this]
      simp only [RelW]
      rw [← hx, ← hf]
    | cons c rest =>
      have : (Stack.buf i sz p e).content = c :: rest := by rw [← hx, ← hw, hc]
      obtain ⟨s', e1, e2, e3, e4⟩ := g2 c rest this
      rw [e1]
      have hr : Reach (Stack.buf i sz p e) s' := Reach.byte (Reach.refl _) e1
      refine ⟨rfl, ⟨by simp [e3], by simp [hf, hx, e4], e2, ?_, hl⟩, hr⟩
      exact isBuf_reach (by trivial) hi' hr
  | .src s0, _, hi' =>
    obtain ⟨g1, g2⟩ := srcReadByte_flat s0 hi'
    cases hc : d.win with
    | nil =>
      have : (Stack.src s0).content = [] := by rw [← hx, ← hw, hc]
      rw [g1 this]
      simp only [RelW]
      rw [← hx, ← hf]
    | cons c rest =>
      have : (Stack.src s0).content = c :: rest := by rw [← hx, ← hw, hc]
      obtain ⟨s', e1, e2, e3, e4⟩ := g2 c rest this
      rw [e1]
      have hr : Reach (Stack.src s0) s' := Reach.byte (Reach.refl _) e1
      refine ⟨rfl, ⟨by simp [e3], by simp [hf, hx, e4], e2, ?_, hl⟩, hr⟩
      exact isBuf_reach (by trivial) hi' hr

/-! ### the header readers -/

theorem sim_internalReadTag (d : Dec) (x : SDec) (h : Sim d x) :
    RelW P1d P1s x.s (Kmip.internalReadTag d) (internalReadTag x) := by
  unfold Kmip.internalReadTag internalReadTag
  refine RelW.bind (sim_readFull d x h 3) ?_
  rintro ⟨b, d'⟩ ⟨b', x'⟩ hab hs hr
  simp only [P1d, P1s, id] at hab hs hr
  subst hab
  exact ⟨rfl, hs, hr⟩

theorem sim_readTag (d : Dec) (x : SDec) (h : Sim d x) :
    RelW P1d P1s x.s (Kmip.readTag d) (readTag x) := by
  unfold Kmip.readTag readTag
  have hl := h.2.2.2.2
  by_cases h0 : d.last ≠ 0
  · rw [if_pos h0, if_pos (by rw [← hl]; exact h0)]
    exact ⟨hl, ⟨h.1, h.2.1, h.2.2.1, h.2.2.2.1, rfl⟩, Reach.refl _⟩
  · rw [if_neg h0, if_neg (by rw [← hl]; exact h0)]
    exact sim_internalReadTag d x h

theorem sim_peekTag (d : Dec) (x : SDec) (h : Sim d x) :
    RelW P1d P1s x.s (Kmip.peekTag d) (peekTag x) := by
  unfold Kmip.peekTag peekTag
  have hl := h.2.2.2.2
  by_cases h0 : d.last ≠ 0
  · rw [if_pos h0, if_pos (by rw [← hl]; exact h0)]
    exact ⟨hl, h, Reach.refl _⟩
  · rw [if_neg h0, if_neg (by rw [← hl]; exact h0)]
    refine RelW.bind (sim_internalReadTag d x h) ?_
    rintro ⟨t, d'⟩ ⟨t', x'⟩ hab hs hr
    simp only [P1d, P1s, id] at hab hs hr
    subst hab
    exact ⟨rfl, ⟨hs.1, hs.2.1, hs.2.2.1, hs.2.2.2.1, rfl⟩, hr⟩

theorem sim_expectTag (d : Dec) (x : SDec) (h : Sim d x) (expected : Nat) :
    RelW P0d P0s x.s (Kmip.expectTag d expected) (expectTag x expected) := by
  unfold Kmip.expectTag expectTag
  refine RelW.bind (sim_readTag d x h) ?_
  rintro ⟨t, d'⟩ ⟨t', x'⟩ hab hs hr
  simp only [P1d, P1s, id] at hab hs hr
  subst hab
  simp only
  split
  · simp [RelW]
  · exact ⟨rfl, hs, hr⟩

theorem sim_expectType (d : Dec) (x : SDec) (h : Sim d x) (expected : Nat) :
    RelW P0d P0s x.s (Kmip.expectType d expected) (expectType x expected) := by
  unfold Kmip.expectType expectType
  refine RelW.bind (sim_readByte d x h) ?_
  rintro ⟨t, d'⟩ ⟨t', x'⟩ hab hs hr
  simp only [P1d, P1s, id] at hab hs hr
  subst hab
  simp only
  split
  · simp [RelW]
  · exact ⟨rfl, hs, hr⟩

theorem sim_readLength (d : Dec) (x : SDec) (h : Sim d x) :
    RelW P1d P1s x.s (Kmip.readLength d) (readLength x) := by
  unfold Kmip.readLength readLength
  refine RelW.bind (sim_readFull d x h 4) ?_
  rintro ⟨b, d'⟩ ⟨b', x'⟩ hab hs hr
  simp only [P1d, P1s, id] at hab hs hr
  subst hab
  exact ⟨rfl, hs, hr⟩

theorem sim_expectLength (d : Dec) (x : SDec) (h : Sim d x) (expected : Nat) :
    RelW P0d P0s x.s (Kmip.expectLength d expected) (expectLength x expected) := by
  unfold Kmip.expectLength expectLength
  refine RelW.bind (sim_readLength d x h) ?_
  rintro ⟨t, d'⟩ ⟨t', x'⟩ hab hs hr
  simp only [P1d, P1s, id] at hab hs hr
  subst hab
  simp only
  split
  · simp [RelW]
  · exact ⟨rfl, hs, hr⟩

theorem sim_readFixed (d : Dec) (x : SDec) (h : Sim d x) (tag ty len : Nat) :
    RelW P1d P1s x.s (Kmip.readFixed d tag ty len) (readFixed x tag ty len) := by
  unfold Kmip.readFixed readFixed
  refine RelW.bind (sim_expectTag d x h tag) ?_
  intro d1 x1 _ hs1 hr1
  refine RelW.bind (RelW.from hr1 (sim_expectType d1 x1 hs1 ty)) ?_
  intro d2 x2 _ hs2 hr2
  refine RelW.bind (RelW.from hr2 (sim_expectLength d2 x2 hs2 len)) ?_
  intro d3 x3 _ hs3 hr3
  exact RelW.from hr3 (sim_readFull d3 x3 hs3 8)

/-! ### string payloads: the chunked loop of readByteSlice = one flat read -/

/-- what the chunk loop must produce once `v` has been collected and `d` is where the flat reader stands: the rest of the
    payload in one flat read, an EOF after some data turned into an unexpected-EOF-class error -/
def expC (d : Dec) (l : Nat) (v : Bytes) : Outcome (Bytes × Dec) :=
  match Kmip.readFull d (l - v.length) with
  | .ok (b, d') => .ok (v ++ b, d')
  | .err e => .err (if e = .eof ∧ 0 < v.length then .other else e)
  | .panic p => .panic p

theorem expC_step (d : Dec) (l : Nat) (v : Bytes) (k : Nat) (hk : k ≤ d.win.length) (hk0 : 0 < k) (hkl : k ≤ l - v.length) :
    expC d l v = expC { d with win := d.win.drop k } l (v ++ d.win.take k) := by
  obtain ⟨m, hL⟩ : ∃ m, l - v.length = k + m := ⟨l - v.length - k, by omega⟩
  have hm : l - (v ++ d.win.take k).length = m := by
    simp only [List.length_append, List.length_take, Nat.min_eq_left hk]; omega
  have hvl : 0 < (v ++ d.win.take k).length := by
    simp only [List.length_append, List.length_take, Nat.min_eq_left hk]; omega
  unfold expC Kmip.readFull
  rw [hm, hL]
  simp only [List.length_drop]
  by_cases hfit : k + m ≤ d.win.length
  · rw [if_pos hfit, if_pos (by omega : m ≤ d.win.length - k)]
    simp only [List.take_add, List.drop_drop, List.append_assoc]
  · have hz : ¬ d.win.length = 0 := by omega
    rw [if_neg hfit, if_neg (by omega : ¬ m ≤ d.win.length - k), if_neg hz]
    by_cases hz2 : d.win.length - k = 0
    · rw [if_pos hz2]
      have hne : d.win ≠ [] := by intro h; rw [h] at hz; exact hz rfl
      cases d.fin <;> simp [Fin.err] <;> intro _ <;> exact ⟨by omega, hne⟩
    · rw [if_neg hz2]; simp

theorem sim_readChunks : ∀ (fuel : Nat) (d : Dec) (x : SDec) (l : Nat) (v : Bytes), Sim d x → l - v.length < fuel →
    RelW P1d P1s x.s (expC d l v) (readChunks fuel x l v)
  | 0, _, _, _, _, _, h => by omega
  | fuel + 1, d, x, l, v, hs, hfuel => by
    rw [readChunks]
    by_cases hl : l ≤ v.length
    · rw [if_pos hl]
      have h0 : l - v.length = 0 := by omega
      unfold expC Kmip.readFull
      rw [h0]
      simp only [Nat.zero_le, if_true, List.take_zero, List.append_nil, List.drop_zero]
      exact ⟨rfl, hs, Reach.refl _⟩
    · rw [if_neg hl]
      have hk0 : 0 < min (l - v.length) readChunkSize := by simp [readChunkSize]; omega
      have hsim := sim_readFull d x hs (min (l - v.length) readChunkSize)
      generalize hk : min (l - v.length) readChunkSize = k at hsim hk0
      have hkl : k ≤ l - v.length := by omega
      by_cases hfit : k ≤ d.win.length
      · -- the chunk is there
        have hd : Kmip.readFull d k = .ok (d.win.take k, { d with win := d.win.drop k }) := by
          unfold Kmip.readFull; rw [if_pos hfit]
        rw [hd] at hsim
        cases hx : readFull x k with
        | ok r =>
          obtain ⟨b, x1⟩ := r
          rw [hx] at hsim
          obtain ⟨e1, e2, e3⟩ := hsim
          simp only [P1d, P1s, id] at e1 e2 e3
          subst e1
          simp only
          rw [expC_step d l v k hfit hk0 hkl]
          have ih := sim_readChunks fuel { d with win := d.win.drop k } x1 l (v ++ d.win.take k) e2
            (by simp only [List.length_append, List.length_take, Nat.min_eq_left hfit]; omega)
          exact RelW.from e3 ih
        | err e => rw [hx] at hsim; simp [RelW] at hsim
        | panic p => rw [hx] at hsim; simp [RelW] at hsim
      · -- the stream ends inside the chunk
        have hd : Kmip.readFull d k = .err (if d.win.length = 0 then d.fin.err else .other) := by
          unfold Kmip.readFull; rw [if_neg hfit]; split <;> rfl
        rw [hd] at hsim
        cases hx : readFull x k with
        | ok r => rw [hx] at hsim; simp [RelW] at hsim
        | panic p => rw [hx] at hsim; simp [RelW] at hsim
        | err e =>
          rw [hx] at hsim
          simp only [RelW] at hsim
          simp only
          have hfit2 : ¬ l - v.length ≤ d.win.length := by omega
          unfold expC Kmip.readFull
          rw [if_neg hfit2]
          by_cases hz : d.win.length = 0
          · rw [if_pos hz] at hsim ⊢
            simp only [RelW]
            rw [hsim]
          · rw [if_neg hz] at hsim ⊢
            simp only [RelW]
            rw [hsim]

theorem expC_nil (d : Dec) (l : Nat) : expC d l [] = Kmip.readFull d l := by
  unfold expC
  simp only [List.length_nil, Nat.sub_zero, List.nil_append, Nat.lt_irrefl, and_false, if_false]
  cases Kmip.readFull d l with
  | ok r => rfl
  | err e => rfl
  | panic p => rfl

theorem sim_pad (d : Dec) (x : SDec) (h : Sim d x) (k : Nat) :
    RelW P1d P1s x.s (Kmip.readFull d k) (if k = 0 then .ok ([], x) else readFull x k) := by
  by_cases hk : k = 0
  · subst hk
    rw [if_pos rfl]
    unfold Kmip.readFull
    simp only [Nat.zero_le, if_true, List.take_zero, List.drop_zero]
    exact ⟨rfl, h, Reach.refl _⟩
  · rw [if_neg hk]; exact sim_readFull d x h k

theorem sim_readVar (d : Dec) (x : SDec) (h : Sim d x) (tag ty : Nat) :
    RelW P2d P2s x.s (Kmip.readVar d tag ty) (readVar x tag ty) := by
  unfold Kmip.readVar readVar
  refine RelW.bind (sim_expectTag d x h tag) ?_
  intro d1 x1 _ hs1 hr1
  refine RelW.bind (RelW.from hr1 (sim_expectType d1 x1 hs1 ty)) ?_
  intro d2 x2 _ hs2 hr2
  refine RelW.bind (RelW.from hr2 (sim_readLength d2 x2 hs2)) ?_
  rintro ⟨l, d3⟩ ⟨l', x3⟩ hab hs3 hr3
  simp only [P1d, P1s, id] at hab hs3 hr3
  subst hab
  simp only
  have hc := sim_readChunks (l + 1) d3 x3 l [] hs3 (by simp)
  rw [expC_nil] at hc
  refine RelW.bind (RelW.from hr3 hc) ?_
  rintro ⟨v, d4⟩ ⟨v', x4⟩ hab hs4 hr4
  simp only [P1d, P1s, id] at hab hs4 hr4
  subst hab
  simp only
  refine RelW.bind (RelW.from hr4 (sim_pad d4 x4 hs4 (padLen l))) ?_
  rintro ⟨_, d5⟩ ⟨_, x5⟩ _ hs5 hr5
  simp only [P1d, P1s, id] at hs5 hr5
  exact ⟨rfl, hs5, hr5⟩

theorem sim_readPrim (d : Dec) (x : SDec) (h : Sim d x) (tag : Nat) (p : PTy) :
    RelW P2d P2s x.s (Kmip.readPrim d tag p) (readPrim x tag p) := by
  cases p <;> simp only [Kmip.readPrim, readPrim]
  case bool =>
    refine RelW.bind (sim_readFixed d x h tag 6 8) ?_
    rintro ⟨b, d'⟩ ⟨b', x'⟩ hab hs hr
    simp only [P1d, P1s, id] at hab hs hr
    subst hab
    simp only
    cases boolOfBytes b with
    | none => simp [RelW]
    | some v => exact ⟨rfl, hs, hr⟩
  case bytes =>
    refine RelW.bind (sim_readVar d x h tag 8) ?_
    rintro ⟨v, n, d'⟩ ⟨v', n', x'⟩ hab hs hr
    simp only [P2d, P2s, Prod.mk.injEq] at hab hs hr
    obtain ⟨rfl, rfl⟩ := hab
    exact ⟨rfl, hs, hr⟩
  case text =>
    refine RelW.bind (sim_readVar d x h tag 7) ?_
    rintro ⟨v, n, d'⟩ ⟨v', n', x'⟩ hab hs hr
    simp only [P2d, P2s, Prod.mk.injEq] at hab hs hr
    obtain ⟨rfl, rfl⟩ := hab
    exact ⟨rfl, hs, hr⟩
  all_goals
    refine RelW.bind (sim_readFixed d x h tag _ _) ?_
    rintro ⟨b, d'⟩ ⟨b', x'⟩ hab hs hr
    simp only [P1d, P1s, id] at hab hs hr
    subst hab
    exact ⟨rfl, hs, hr⟩

theorem sim_readSkip (d : Dec) (x : SDec) (h : Sim d x) (tag : Nat) :
    RelW P1d P1s x.s (Kmip.readSkip d tag) (readSkip x tag) := by
  unfold Kmip.readSkip readSkip
  refine RelW.bind (sim_expectTag d x h tag) ?_
  intro d1 x1 _ hs1 hr1
  refine RelW.bind (RelW.from hr1 (sim_readByte d1 x1 hs1)) ?_
  rintro ⟨_, d2⟩ ⟨_, x2⟩ _ hs2 hr2
  simp only [P1d, P1s, id] at hs2 hr2
  simp only
  refine RelW.bind (RelW.from hr2 (sim_readLength d2 x2 hs2)) ?_
  rintro ⟨l, d3⟩ ⟨l', x3⟩ hab hs3 hr3
  simp only [P1d, P1s, id] at hab hs3 hr3
  subst hab
  simp only
  obtain ⟨hw, hf, hi, hb, hl⟩ := hs3
  obtain ⟨g1, g2⟩ := copyNDiscard_flat x3.s (l + padLen l) hi
  by_cases hfit : l + padLen l ≤ d3.win.length
  · obtain ⟨s', e1, e2, e3, e4⟩ := g1 (by rw [← hw]; exact hfit)
    have hr := copyNDiscard_reach x3.s _ s' hi e1
    rw [if_pos hfit, e1]
    exact ⟨rfl, ⟨by simp [hw, e3], by simp [hf, e4], e2, isBuf_reach hb hi hr, hl⟩, Reach.trans hr3 hr⟩
  · rw [if_neg hfit, g2 (by rw [← hw]; exact hfit)]
    simp only [RelW]
    exact hf

/-! ### the slice loop, for any pair of related element decoders -/

theorem sim_sliceLoop (step1 : Dec → Outcome (Val × Nat × Dec)) (step2 : SDec → Outcome (Val × Nat × SDec))
    (hstep : ∀ d x, Sim d x → RelW P2d P2s x.s (step1 d) (step2 x)) (ftag expected : Nat) :
    ∀ (fuel : Nat) (d : Dec) (x : SDec) (n : Nat), Sim d x →
      RelW P2d P2s x.s (Kmip.sliceLoop step1 ftag expected fuel d n) (sliceLoop step2 ftag expected fuel x n)
  | 0, d, x, n, _ => by simp [Kmip.sliceLoop, sliceLoop, RelW]
  | fuel + 1, d, x, n, hs => by
    rw [Kmip.sliceLoop, sliceLoop]
    refine RelW.bind (RelW.wrap (hstep d x hs)) ?_
    rintro ⟨v, nn, d1⟩ ⟨v', nn', x1⟩ hab hs1 hr1
    simp only [P2d, P2s, Prod.mk.injEq] at hab hs1 hr1
    obtain ⟨rfl, rfl⟩ := hab
    simp only
    by_cases hge : (n + nn) % two32 ≥ expected
    · rw [if_pos hge, if_pos hge]; exact ⟨rfl, hs1, hr1⟩
    · rw [if_neg hge, if_neg hge]
      refine RelW.bind (RelW.from hr1 (sim_peekTag d1 x1 hs1)) ?_
      rintro ⟨t, d2⟩ ⟨t', x2⟩ hab hs2 hr2
      simp only [P1d, P1s, id] at hab hs2 hr2
      subst hab
      simp only
      by_cases ht : t ≠ ftag
      · rw [if_pos ht, if_pos ht]; exact ⟨rfl, hs2, hr2⟩
      · rw [if_neg ht, if_neg ht]
        refine RelW.bind (RelW.from hr2 (sim_sliceLoop step1 step2 hstep ftag expected fuel d2 x2 (n + nn) hs2)) ?_
        rintro ⟨vs, n2, d3⟩ ⟨vs', n2', x3⟩ hab hs3 hr3
        simp only [P2d, P2s, Prod.mk.injEq] at hab hs3 hr3
        obtain ⟨rfl, rfl⟩ := hab
        exact ⟨rfl, hs3, hr3⟩

/-! ### entering and leaving a structure -/

theorem sim_enter (d : Dec) (x : SDec) (h : Sim d x) (E : Nat) : Sim (limitDec d E) (enter x E) := by
  obtain ⟨hw, hf, hi, hb, hl⟩ := h
  obtain ⟨g1, g2, g3⟩ := nested_view x.s E hi
  unfold limitDec enter
  by_cases hE : E ≤ d.win.length
  · rw [if_pos hE]
    exact ⟨by simp [g2, hw], by rw [g3 (by rw [← hw]; exact hE)]; rfl, g1, by trivial, rfl⟩
  · rw [if_neg hE]
    refine ⟨?_, ?_, g1, by trivial, rfl⟩
    · simp only [g2, ← hw]; exact (List.take_of_length_le (by omega)).symm
    · simp only [Stack.nested, Stack.fin, ← hw, hE, if_false]; exact hf

theorem readLength_lt (d : Dec) (E : Nat) (d' : Dec) (h : Kmip.readLength d = .ok (E, d')) : E < two32 := by
  unfold Kmip.readLength Kmip.readFull at h
  by_cases h4 : 4 ≤ d.win.length
  · simp only [h4, if_true, Outcome.bind_ok, Outcome.ok.injEq, Prod.mk.injEq] at h
    rw [← h.1]
    have := fromBE_lt (d.win.take 4)
    simp only [List.length_take, Nat.min_eq_left h4] at this
    exact this
  · simp only [h4, if_false] at h
    split at h <;> simp at h

/-- leaving: after a field loop that ended in sync, the stack under the nested decoder stands exactly `E` flat bytes further -/
theorem sim_leave (d3 : Dec) (x3 : SDec) (hs3 : Sim d3 x3) (E : Nat) (hE : E < two32) (fields : List Fld)
    (vals : List FV) (nsum : Nat) (ddd : Dec) (ddx : SDec)
    (hdec : Kmip.decFields fields E (limitDec d3 E) 0 [] = .ok (vals, nsum, ddd))
    (hsim : Sim ddd ddx) (hreach : Reach (enter x3 E).s ddx.s) (hsync : nsum % two32 = E) :
    Sim { d3 with win := d3.win.drop E } { x3 with s := below ddx.s } ∧ Reach x3.s (below ddx.s) := by
  obtain ⟨hw, hf, hi, hb, hl⟩ := hs3
  have hwf : (limitDec d3 E).Wf := by unfold limitDec Dec.Wf; split <;> simp
  obtain ⟨hwf', _, hmono⟩ := F_mono fields E (limitDec d3 E) 0 [] vals nsum ddd hwf hdec
  have hvl : (limitDec d3 E).vlen ≤ E ∧ (limitDec d3 E).vlen ≤ d3.win.length := by
    unfold limitDec Dec.vlen Dec.view
    split <;> simp <;> omega
  have hn : nsum = E := by
    have : nsum ≤ E := by omega
    have : nsum < two32 := by omega
    rw [Nat.mod_eq_of_lt this] at hsync; exact hsync
  have hv0 : ddd.view = [] := by
    have : ddd.vlen = 0 := by omega
    exact List.eq_nil_of_length_eq_zero this
  obtain ⟨_, hwin⟩ := view_nil_norm ddd hwf' hv0
  have hfit : E ≤ x3.s.content.length := by rw [← hw]; omega
  have hc : ddx.s.content = [] := by rw [← hsim.1, hwin]
  obtain ⟨s', e, e0, r1, i1, c1, f1⟩ := nested_pop x3.s E ddx.s hi hreach hfit hc
  have hbelow : below ddx.s = s' := by rw [e0]; rfl
  rw [hbelow]
  exact ⟨⟨by simp [hw, c1], by simp [hf, f1], i1, isBuf_reach hb hi r1, hl⟩, r1⟩

/-! ### the recursion of decode.go -/

mutual
  theorem V_sim : ∀ (ty : FTy) (tag : Nat) (prev : List FV) (d : Dec) (x : SDec), Sim d x →
      RelW P2d P2s x.s (Kmip.decValue tag prev ty d) (decValue tag prev ty x)
    | .prim p, tag, prev, d, x, hs => by
      simp only [Kmip.decValue, decValue]; exact sim_readPrim d x hs tag p
    | .struct sd, tag, prev, d, x, hs => by
      simp only [Kmip.decValue, decValue]
      by_cases hd : sd.descOk = true
      · rw [if_pos hd, if_pos hd]; exact S_sim sd tag d x hs
      · rw [if_neg hd, if_neg hd]; simp [RelW]
    | .dyn sel table, tag, prev, d, x, hs => by
      simp only [Kmip.decValue, decValue]
      cases prev[sel]? with
      | none => simp [RelW]
      | some fv =>
        simp only
        cases keyOf fv with
        | none => simp [RelW]
        | some k => exact D_sim table tag prev k d x hs
    | .unsupported, tag, prev, d, x, hs => by
      simp [Kmip.decValue, decValue, RelW]
  theorem D_sim : ∀ (table : List DEnt) (tag : Nat) (prev : List FV) (k : Key) (d : Dec) (x : SDec), Sim d x →
      RelW P2d P2s x.s (Kmip.decDyn tag prev k table d) (decDyn tag prev k table x)
    | [], tag, prev, k, d, x, hs => by simp [Kmip.decDyn, decDyn, RelW]
    | .mk k' ptr (.prim p) :: rest, tag, prev, k, d, x, hs => by
      rw [Kmip.decDyn, decDyn]
      by_cases hk : k' = k
      · rw [if_pos hk, if_pos hk]
        by_cases hp : ptr = true ∨ p = PTy.interval
        · rw [if_pos hp, if_pos hp]; simp [RelW]
        · rw [if_neg hp, if_neg hp]; exact sim_readPrim d x hs tag p
      · rw [if_neg hk, if_neg hk]; exact D_sim rest tag prev k d x hs
    | .mk k' ptr (.struct sd) :: rest, tag, prev, k, d, x, hs => by
      rw [Kmip.decDyn, decDyn]
      by_cases hk : k' = k
      · rw [if_pos hk, if_pos hk]
        by_cases hp : ptr = true
        · rw [if_pos hp, if_pos hp]
          by_cases hd : sd.descOk = true
          · rw [if_pos hd, if_pos hd]; exact S_sim sd tag d x hs
          · rw [if_neg hd, if_neg hd]; simp [RelW]
        · rw [if_neg hp, if_neg hp]; simp [RelW]
      · rw [if_neg hk, if_neg hk]; exact D_sim rest tag prev k d x hs
    | .mk k' ptr (.dyn _ _) :: rest, tag, prev, k, d, x, hs => by
      rw [Kmip.decDyn, decDyn]
      by_cases hk : k' = k
      · rw [if_pos hk, if_pos hk]; simp [RelW]
      · rw [if_neg hk, if_neg hk]; exact D_sim rest tag prev k d x hs
    | .mk k' ptr .unsupported :: rest, tag, prev, k, d, x, hs => by
      rw [Kmip.decDyn, decDyn]
      by_cases hk : k' = k
      · rw [if_pos hk, if_pos hk]; simp [RelW]
      · rw [if_neg hk, if_neg hk]; exact D_sim rest tag prev k d x hs
  theorem S_sim : ∀ (sd : SD) (tag : Nat) (d : Dec) (x : SDec), Sim d x →
      RelW P2d P2s x.s (Kmip.decStruct tag sd d) (decStruct tag sd x)
    | .mk nm t0 fields, tag, d, x, hs => by
      rw [Kmip.decStruct, decStruct]
      refine RelW.bind (sim_expectTag d x hs tag) ?_
      intro d1 x1 _ hs1 hr1
      refine RelW.bind (RelW.from hr1 (sim_expectType d1 x1 hs1 structCode)) ?_
      intro d2 x2 _ hs2 hr2
      have hlen := sim_readLength d2 x2 hs2
      cases hA : Kmip.readLength d2 with
      | err e => cases hB : readLength x2 <;> rw [hA, hB] at hlen <;> simp [RelW] at hlen ⊢; exact hlen
      | panic p => cases hB : readLength x2 <;> rw [hA, hB] at hlen <;> simp [RelW] at hlen ⊢
      | ok r =>
        obtain ⟨E, d3⟩ := r
        cases hB : readLength x2 with
        | err e => rw [hA, hB] at hlen; simp [RelW] at hlen
        | panic p => rw [hA, hB] at hlen; simp [RelW] at hlen
        | ok r' =>
          obtain ⟨E', x3⟩ := r'
          rw [hA, hB] at hlen
          obtain ⟨e1, hs3, hr3⟩ := hlen
          simp only [P1d, P1s, id] at e1 hs3 hr3
          subst e1
          have hE := readLength_lt d2 E d3 hA
          simp only [Outcome.bind_ok]
          have ih := Fs_sim fields E (limitDec d3 E) (enter x3 E) 0 [] (sim_enter d3 x3 hs3 E)
          cases hF : Kmip.decFields fields E (limitDec d3 E) 0 [] with
          | err e => cases hG : decFields fields E (enter x3 E) 0 [] <;> rw [hF, hG] at ih <;> simp [RelW] at ih ⊢; exact ih
          | panic p => cases hG : decFields fields E (enter x3 E) 0 [] <;> rw [hF, hG] at ih <;> simp [RelW] at ih ⊢
          | ok r =>
            obtain ⟨vals, nsum, ddd⟩ := r
            cases hG : decFields fields E (enter x3 E) 0 [] with
            | err e => rw [hF, hG] at ih; simp [RelW] at ih
            | panic p => rw [hF, hG] at ih; simp [RelW] at ih
            | ok r' =>
              obtain ⟨vals', nsum', ddx⟩ := r'
              rw [hF, hG] at ih
              obtain ⟨e2, hsd, hrd⟩ := ih
              simp only [P2d, P2s, Prod.mk.injEq] at e2 hsd hrd
              obtain ⟨rfl, rfl⟩ := e2
              simp only [Outcome.bind_ok]
              by_cases hm : nsum % two32 ≠ E
              · rw [if_pos hm, if_pos hm]; simp [RelW]
              · rw [if_neg hm, if_neg hm]
                have hsync : nsum % two32 = E := by simpa using hm
                obtain ⟨g1, g2⟩ := sim_leave d3 x3 hs3 E hE fields vals nsum ddd ddx hF hsd hrd hsync
                exact ⟨rfl, g1, Reach.trans hr2 (Reach.trans hr3 g2)⟩
  theorem Fs_sim : ∀ (fs : List Fld) (E : Nat) (dd : Dec) (xx : SDec) (n : Nat) (prev : List FV), Sim dd xx →
      RelW P2d P2s xx.s (Kmip.decFields fs E dd n prev) (decFields fs E xx n prev)
    | [], E, dd, xx, n, prev, hs => by
      simp only [Kmip.decFields, decFields]; exact ⟨rfl, hs, Reach.refl _⟩
    | f :: fs, E, dd, xx, n, prev, hs => by
      rw [Kmip.decFields, decFields]
      refine RelW.bind (F_sim f E dd xx n prev hs) ?_
      rintro ⟨fv, n1, d1⟩ ⟨fv', n1', x1⟩ hab hs1 hr1
      simp only [P2d, P2s, Prod.mk.injEq] at hab hs1 hr1
      obtain ⟨rfl, rfl⟩ := hab
      simp only
      refine RelW.bind (RelW.from hr1 (Fs_sim fs E d1 x1 n1 (prev ++ [fv]) hs1)) ?_
      rintro ⟨rest, n2, d2⟩ ⟨rest', n2', x2⟩ hab hs2 hr2
      simp only [P2d, P2s, Prod.mk.injEq] at hab hs2 hr2
      obtain ⟨rfl, rfl⟩ := hab
      exact ⟨rfl, hs2, hr2⟩
  theorem F_sim : ∀ (f : Fld) (E : Nat) (dd : Dec) (xx : SDec) (n : Nat) (prev : List FV), Sim dd xx →
      RelW P2d P2s xx.s (Kmip.decField f E dd n prev) (decField f E xx n prev)
    | .mk name tag required slice skip ty, E, dd, xx, n, prev, hs => by
      rw [Kmip.decField, decField]
      have hp := sim_peekTag dd xx hs
      cases hA : Kmip.peekTag dd with
      | panic p => cases hB : peekTag xx <;> rw [hA, hB] at hp <;> simp [RelW] at hp ⊢
      | err e =>
        cases hB : peekTag xx with
        | ok r => rw [hA, hB] at hp; simp [RelW] at hp
        | panic p => rw [hA, hB] at hp; simp [RelW] at hp
        | err e' =>
          rw [hA, hB] at hp
          simp only [RelW] at hp
          subst hp
          simp only
          split
          · exact ⟨rfl, hs, Reach.refl _⟩
          · simp [RelW]
      | ok r =>
        obtain ⟨t, dd1⟩ := r
        cases hB : peekTag xx with
        | err e => rw [hA, hB] at hp; simp [RelW] at hp
        | panic p => rw [hA, hB] at hp; simp [RelW] at hp
        | ok r' =>
          obtain ⟨t', xx1⟩ := r'
          rw [hA, hB] at hp
          obtain ⟨e1, hs1, hr1⟩ := hp
          simp only [P1d, P1s, id] at e1 hs1 hr1
          subst e1
          simp only
          by_cases hc : required = false ∧ t ≠ tag ∧ tag ≠ anyTag
          · rw [if_pos hc, if_pos hc]; exact ⟨rfl, hs1, hr1⟩
          · rw [if_neg hc, if_neg hc]
            by_cases hsk : skip = true
            · rw [if_pos hsk, if_pos hsk]
              refine RelW.bind (RelW.from hr1 (RelW.wrap (sim_readSkip dd1 xx1 hs1 tag))) ?_
              rintro ⟨nn, d2⟩ ⟨nn', x2⟩ hab hs2 hr2
              simp only [P1d, P1s, id] at hab hs2 hr2
              subst hab
              exact ⟨rfl, hs2, hr2⟩
            · rw [if_neg hsk, if_neg hsk]
              by_cases hsl : slice = true
              · rw [if_pos hsl, if_pos hsl]
                have hfu : dd1.win.length + 3 = xx1.s.content.length + 3 := by rw [hs1.1]
                rw [hfu]
                refine RelW.bind (RelW.from hr1 (sim_sliceLoop _ _ (fun d x h => V_sim ty tag prev d x h) tag E _ dd1 xx1 n hs1)) ?_
                rintro ⟨vs, n2, d2⟩ ⟨vs', n2', x2⟩ hab hs2 hr2
                simp only [P2d, P2s, Prod.mk.injEq] at hab hs2 hr2
                obtain ⟨rfl, rfl⟩ := hab
                exact ⟨rfl, hs2, hr2⟩
              · rw [if_neg hsl, if_neg hsl]
                refine RelW.bind (RelW.from hr1 (RelW.wrap (V_sim ty tag prev dd1 xx1 hs1))) ?_
                rintro ⟨v, nn, d2⟩ ⟨v', nn', x2⟩ hab hs2 hr2
                simp only [P2d, P2s, Prod.mk.injEq] at hab hs2 hr2
                obtain ⟨rfl, rfl⟩ := hab
                cases ty <;> exact ⟨rfl, hs2, hr2⟩
end

/-! ### successive Decode calls on one Decoder -/

theorem stream_sim : ∀ (sds : List SD) (d : Dec) (x : SDec), Sim d x →
    (Kmip.decodeStream sds d).1 = (decodeStream sds x).1 ∧ (Kmip.decodeStream sds d).2.1 = (decodeStream sds x).2.1 ∧
    Sim (Kmip.decodeStream sds d).2.2 (decodeStream sds x).2.2
  | [], d, x, hs => ⟨rfl, rfl, hs⟩
  | sd :: rest, d, x, hs => by
    rw [Kmip.decodeStream, decodeStream]
    by_cases hd : sd.descOk = true
    · rw [if_pos hd, if_pos hd]
      have hr := S_sim sd sd.tag d x hs
      cases hA : Kmip.decStruct sd.tag sd d with
      | ok r =>
        obtain ⟨v, n, d'⟩ := r
        cases hB : decStruct sd.tag sd x with
        | ok r' =>
          obtain ⟨v', n', x'⟩ := r'
          rw [hA, hB] at hr
          obtain ⟨e1, hs', _⟩ := hr
          simp only [P2d, P2s, Prod.mk.injEq] at e1 hs'
          obtain ⟨rfl, rfl⟩ := e1
          obtain ⟨g1, g2, g3⟩ := stream_sim rest d' x' hs'
          simp only
          generalize Kmip.decodeStream rest d' = q at g1 g2 g3
          obtain ⟨vs, e, df⟩ := q
          simp only at g1 g2 g3 ⊢
          exact ⟨by rw [g1], g2, g3⟩
        | err e => rw [hA, hB] at hr; simp [RelW] at hr
        | panic p => rw [hA, hB] at hr; simp [RelW] at hr
      | err e =>
        cases hB : decStruct sd.tag sd x with
        | ok r' => rw [hA, hB] at hr; simp [RelW] at hr
        | err e' => rw [hA, hB] at hr; simp only [RelW] at hr; subst hr; exact ⟨rfl, rfl, hs⟩
        | panic p => rw [hA, hB] at hr; simp [RelW] at hr
      | panic p =>
        cases hB : decStruct sd.tag sd x with
        | ok r' => rw [hA, hB] at hr; simp [RelW] at hr
        | err e' => rw [hA, hB] at hr; simp [RelW] at hr
        | panic p' => exact ⟨rfl, rfl, hs⟩
    · rw [if_neg hd, if_neg hd]; exact ⟨rfl, rfl, hs⟩

end Kmip.Stk
