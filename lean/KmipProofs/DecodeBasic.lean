import KmipModel.Decode
/-
  Basic facts about the decode model: it never produces a `panic` outcome (every reflection call of decode.go that could
  panic is guarded, after the fixes, by exactly the condition the model tests).
-/
namespace Kmip

def Outcome.noPanic {α : Type} (o : Outcome α) : Prop := ∀ s, o ≠ .panic s

theorem bind_np {α β : Type} (x : Outcome α) (f : α → Outcome β) (hx : x.noPanic) (hf : ∀ a, (f a).noPanic) :
    (x.bind f).noPanic := by
  intro s
  cases x with
  | ok a => exact hf a s
  | err e => simp [Outcome.bind]
  | panic p => exact absurd rfl (hx p)

theorem ok_np {α : Type} (a : α) : (Outcome.ok a).noPanic := by intro s; simp
theorem err_np {α : Type} (e : ErrClass) : (Outcome.err e : Outcome α).noPanic := by intro s; simp

theorem wrap_np {α : Type} (o : Outcome α) (h : o.noPanic) : o.wrap.noPanic := by
  intro s; cases o <;> simp_all [Outcome.wrap, Outcome.noPanic]

theorem readFull_np (d : Dec) (k : Nat) : (readFull d k).noPanic := by
  intro s; unfold readFull; split <;> (try split) <;> simp

theorem readByte_np (d : Dec) : (readByte d).noPanic := by
  intro s; unfold readByte; split <;> simp

theorem internalReadTag_np (d : Dec) : (internalReadTag d).noPanic :=
  bind_np _ _ (readFull_np d 3) (fun _ => by repeat (first | exact ok_np _ | exact err_np _ | split))

theorem readTag_np (d : Dec) : (readTag d).noPanic := by
  unfold readTag; split
  · exact ok_np _
  · exact internalReadTag_np d

theorem peekTag_np (d : Dec) : (peekTag d).noPanic := by
  unfold peekTag; split
  · exact ok_np _
  · exact bind_np _ _ (internalReadTag_np d) (fun _ => by repeat (first | exact ok_np _ | exact err_np _ | split))

theorem expectTag_np (d : Dec) (t : Nat) : (expectTag d t).noPanic :=
  bind_np _ _ (readTag_np d) (fun _ => by repeat (first | exact ok_np _ | exact err_np _ | split))

theorem expectType_np (d : Dec) (t : Nat) : (expectType d t).noPanic :=
  bind_np _ _ (readByte_np d) (fun _ => by repeat (first | exact ok_np _ | exact err_np _ | split))

theorem readLength_np (d : Dec) : (readLength d).noPanic :=
  bind_np _ _ (readFull_np d 4) (fun _ => by repeat (first | exact ok_np _ | exact err_np _ | split))

theorem expectLength_np (d : Dec) (l : Nat) : (expectLength d l).noPanic :=
  bind_np _ _ (readLength_np d) (fun _ => by repeat (first | exact ok_np _ | exact err_np _ | split))

theorem readFixed_np (d : Dec) (tag ty len : Nat) : (readFixed d tag ty len).noPanic :=
  bind_np _ _ (expectTag_np d tag) fun d1 =>
  bind_np _ _ (expectType_np d1 ty) fun d2 =>
  bind_np _ _ (expectLength_np d2 len) fun d3 => readFull_np d3 8

theorem readVar_np (d : Dec) (tag ty : Nat) : (readVar d tag ty).noPanic :=
  bind_np _ _ (expectTag_np d tag) fun d1 =>
  bind_np _ _ (expectType_np d1 ty) fun d2 =>
  bind_np _ _ (readLength_np d2) fun p =>
  bind_np _ _ (readFull_np p.2 p.1) fun q =>
  bind_np _ _ (readFull_np q.2 (padLen p.1)) fun _ => ok_np _

theorem readPrim_np (d : Dec) (tag : Nat) (p : PTy) : (readPrim d tag p).noPanic := by
  cases p <;> simp only [readPrim]
  · exact bind_np _ _ (readFixed_np d tag 2 4) (fun _ => by repeat (first | exact ok_np _ | exact err_np _ | split))
  · exact bind_np _ _ (readFixed_np d tag 3 8) (fun _ => by repeat (first | exact ok_np _ | exact err_np _ | split))
  · exact bind_np _ _ (readFixed_np d tag 5 4) (fun _ => by repeat (first | exact ok_np _ | exact err_np _ | split))
  · exact bind_np _ _ (readFixed_np d tag 6 8) (fun _ => by repeat (first | exact ok_np _ | exact err_np _ | split))
  · exact bind_np _ _ (readVar_np d tag 8) (fun _ => by repeat (first | exact ok_np _ | exact err_np _ | split))
  · exact bind_np _ _ (readVar_np d tag 7) (fun _ => by repeat (first | exact ok_np _ | exact err_np _ | split))
  · exact bind_np _ _ (readFixed_np d tag 9 8) (fun _ => by repeat (first | exact ok_np _ | exact err_np _ | split))
  · exact bind_np _ _ (readFixed_np d tag 10 4) (fun _ => by repeat (first | exact ok_np _ | exact err_np _ | split))

theorem readSkip_np (d : Dec) (tag : Nat) : (readSkip d tag).noPanic :=
  bind_np _ _ (expectTag_np d tag) fun d1 =>
  bind_np _ _ (readByte_np d1) fun _ =>
  bind_np _ _ (readLength_np _) fun _ => by
    repeat (first | exact ok_np _ | exact err_np _ | split | (show Outcome.noPanic (if _ then _ else _)))

theorem sliceLoop_np (step : Dec → Outcome (Val × Nat × Dec)) (hs : ∀ d, (step d).noPanic) (ftag expected : Nat) :
    ∀ fuel dd n, (sliceLoop step ftag expected fuel dd n).noPanic := by
  intro fuel
  induction fuel with
  | zero => intro dd n; simp only [sliceLoop]; exact err_np _
  | succ fuel ih =>
    intro dd n
    simp only [sliceLoop]
    refine bind_np _ _ (wrap_np _ (hs dd)) fun a => ?_
    obtain ⟨v, nn, dd1⟩ := a
    show Outcome.noPanic (if (n + nn) % two32 ≥ expected then Outcome.ok ([v], n + nn, dd1) else _)
    split
    · exact ok_np _
    · refine bind_np _ _ (peekTag_np _) fun b => ?_
      obtain ⟨tag, dd2⟩ := b
      show Outcome.noPanic (if tag ≠ ftag then _ else _)
      split
      · exact ok_np _
      · exact bind_np _ _ (ih _ _) (fun _ => by repeat (first | exact ok_np _ | exact err_np _ | split))

mutual
  theorem decValue_np : ∀ (ty : FTy) (tag : Nat) (prev : List FV) (d : Dec), (decValue tag prev ty d).noPanic
    | .prim p, tag, prev, d => by simp only [decValue]; exact readPrim_np d tag p
    | .struct sd, tag, prev, d => by
      simp only [decValue]; split
      · exact decStruct_np sd tag d
      · exact err_np _
    | .dyn sel table, tag, prev, d => by
      simp only [decValue]
      split
      · exact err_np _
      · split
        · exact err_np _
        · exact decDyn_np table tag prev _ d
    | .unsupported, tag, prev, d => by simp only [decValue]; exact err_np _
  theorem decDyn_np : ∀ (table : List DEnt) (tag : Nat) (prev : List FV) (k : Key) (d : Dec), (decDyn tag prev k table d).noPanic
    | [], tag, prev, k, d => by simp only [decDyn]; exact err_np _
    | .mk k' ptr (.prim p) :: rest, tag, prev, k, d => by
      rw [decDyn]
      by_cases hk : k' = k
      · rw [if_pos hk]
        by_cases hp : ptr = true ∨ p = PTy.interval
        · rw [if_pos hp]; exact err_np _
        · rw [if_neg hp]; exact readPrim_np d tag p
      · rw [if_neg hk]; exact decDyn_np rest tag prev k d
    | .mk k' ptr (.struct sd) :: rest, tag, prev, k, d => by
      rw [decDyn]
      by_cases hk : k' = k
      · rw [if_pos hk]
        by_cases hp : ptr = true
        · rw [if_pos hp]
          by_cases hd : sd.descOk = true
          · rw [if_pos hd]; exact decStruct_np sd tag d
          · rw [if_neg hd]; exact err_np _
        · rw [if_neg hp]; exact err_np _
      · rw [if_neg hk]; exact decDyn_np rest tag prev k d
    | .mk k' ptr (.dyn sel table) :: rest, tag, prev, k, d => by
      rw [decDyn]
      by_cases hk : k' = k
      · rw [if_pos hk]; exact err_np _
      · rw [if_neg hk]; exact decDyn_np rest tag prev k d
    | .mk k' ptr .unsupported :: rest, tag, prev, k, d => by
      rw [decDyn]
      by_cases hk : k' = k
      · rw [if_pos hk]; exact err_np _
      · rw [if_neg hk]; exact decDyn_np rest tag prev k d
  theorem decStruct_np : ∀ (sd : SD) (tag : Nat) (d : Dec), (decStruct tag sd d).noPanic
    | .mk _ _ fields, tag, d => by
      simp only [decStruct]
      refine bind_np _ _ (expectTag_np d tag) fun d1 => ?_
      refine bind_np _ _ (expectType_np d1 structCode) fun d2 => ?_
      refine bind_np _ _ (readLength_np d2) fun p => ?_
      refine bind_np _ _ (decFields_np fields p.1 (limitDec p.2 p.1) 0 []) fun q => ?_
      repeat (first | exact ok_np _ | exact err_np _ | split)
  theorem decFields_np : ∀ (fs : List Fld) (expected : Nat) (dd : Dec) (n : Nat) (prev : List FV),
      (decFields fs expected dd n prev).noPanic
    | [], expected, dd, n, prev => by simp only [decFields]; exact ok_np _
    | f :: fs, expected, dd, n, prev => by
      simp only [decFields]
      refine bind_np _ _ (decField_np f expected dd n prev) fun a => ?_
      exact bind_np _ _ (decFields_np fs expected a.2.2 a.2.1 (prev ++ [a.1])) (fun _ => by repeat (first | exact ok_np _ | exact err_np _ | split))
  theorem decField_np : ∀ (f : Fld) (expected : Nat) (dd : Dec) (n : Nat) (prev : List FV),
      (decField f expected dd n prev).noPanic
    | .mk name tag required slice skip ty, expected, dd, n, prev => by
      simp only [decField]
      have h1 := peekTag_np dd
      split
      · repeat (first | exact ok_np _ | exact err_np _ | split)
      · rename_i s hs; exact absurd hs (h1 s)
      · rename_i t dd1 _
        split
        · exact ok_np _
        · split
          · exact bind_np _ _ (wrap_np _ (readSkip_np dd1 tag)) (fun _ => by repeat (first | exact ok_np _ | exact err_np _ | split))
          · split
            · exact bind_np _ _ (sliceLoop_np (decValue tag prev ty) (fun d => decValue_np ty tag prev d) tag expected _ dd1 n) (fun _ => by repeat (first | exact ok_np _ | exact err_np _ | split))
            · refine bind_np _ _ (wrap_np _ (decValue_np ty tag prev dd1)) fun a => ?_
              repeat (first | exact ok_np _ | exact err_np _ | split)
end

/-- Decode never panics, whatever the target and the bytes -/
theorem decodeTop_np (t : Target) (bs : Bytes) (fin : Fin) : (decodeTop t bs fin).noPanic := by
  cases t <;> simp only [decodeTop]
  · exact err_np _
  · exact err_np _
  · exact err_np _
  · exact err_np _
  · rename_i sd
    split
    · exact decStruct_np sd sd.tag _
    · exact err_np _

end Kmip
