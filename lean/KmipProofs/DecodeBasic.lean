import KmipModel.Decode
/-
  Basic facts about the decode model: it never produces a `panic` outcome (every reflection call of decode.go that could
  panic is guarded, after the fixes, by exactly the condition the model tests).
-/
namespace Kmip

def Outcome.noPanic {α : Type} (o : Outcome α) : Prop := ∀ s, o ≠ .panic s

theorem readFull_np (d : Dec) (k : Nat) : (readFull d k).noPanic := by
  intro s; unfold readFull; split <;> (try split) <;> simp

theorem readByte_np (d : Dec) : (readByte d).noPanic := by
  intro s; unfold readByte; split <;> simp

theorem internalReadTag_np (d : Dec) : (internalReadTag d).noPanic := by
  intro s; unfold internalReadTag
  have := readFull_np d 3
  split <;> simp_all [Outcome.noPanic]

theorem readTag_np (d : Dec) : (readTag d).noPanic := by
  intro s; unfold readTag; split
  · simp
  · exact internalReadTag_np d s

theorem peekTag_np (d : Dec) : (peekTag d).noPanic := by
  intro s; unfold peekTag; split
  · simp
  · have := internalReadTag_np d
    split <;> simp_all [Outcome.noPanic]

theorem expectTag_np (d : Dec) (t : Nat) : (expectTag d t).noPanic := by
  intro s; unfold expectTag
  have := readTag_np d
  split
  · split <;> simp
  · simp
  · simp_all [Outcome.noPanic]

theorem expectType_np (d : Dec) (t : Nat) : (expectType d t).noPanic := by
  intro s; unfold expectType
  have := readByte_np d
  split
  · split <;> simp
  · simp
  · simp_all [Outcome.noPanic]

theorem readLength_np (d : Dec) : (readLength d).noPanic := by
  intro s; unfold readLength
  have := readFull_np d 4
  split <;> simp_all [Outcome.noPanic]

theorem expectLength_np (d : Dec) (l : Nat) : (expectLength d l).noPanic := by
  intro s; unfold expectLength
  have := readLength_np d
  split
  · split <;> simp
  · simp
  · simp_all [Outcome.noPanic]

theorem readFixed_np (d : Dec) (tag ty len : Nat) : (readFixed d tag ty len).noPanic := by
  intro s; unfold readFixed
  have h1 := expectTag_np d tag
  split
  · rename_i d1 _
    have h2 := expectType_np d1 ty
    split
    · rename_i d2 _
      have h3 := expectLength_np d2 len
      split
      · rename_i d3 _; exact readFull_np d3 8 s
      · simp
      · simp_all [Outcome.noPanic]
    · simp
    · simp_all [Outcome.noPanic]
  · simp
  · simp_all [Outcome.noPanic]

theorem readVar_np (d : Dec) (tag ty : Nat) : (readVar d tag ty).noPanic := by
  intro s; unfold readVar
  have h1 := expectTag_np d tag
  split
  · rename_i d1 _
    have h2 := expectType_np d1 ty
    split
    · rename_i d2 _
      have h3 := readLength_np d2
      split
      · rename_i l d3 _
        have h4 := readFull_np d3 l
        split
        · rename_i v d4 _
          have h5 := readFull_np d4 (padLen l)
          split <;> simp_all [Outcome.noPanic]
        · simp
        · simp_all [Outcome.noPanic]
      · simp
      · simp_all [Outcome.noPanic]
    · simp
    · simp_all [Outcome.noPanic]
  · simp
  · simp_all [Outcome.noPanic]

theorem readPrim_np (d : Dec) (tag : Nat) (p : PTy) : (readPrim d tag p).noPanic := by
  intro s
  cases p <;> simp only [readPrim]
  all_goals first
    | (have h := readFixed_np d tag 2 4; split <;> simp_all [Outcome.noPanic]; done)
    | (have h := readFixed_np d tag 3 8; split <;> simp_all [Outcome.noPanic]; done)
    | (have h := readFixed_np d tag 5 4; split <;> simp_all [Outcome.noPanic]; done)
    | (have h := readFixed_np d tag 6 8; split <;> (try split) <;> simp_all [Outcome.noPanic]; done)
    | (have h := readFixed_np d tag 9 8; split <;> simp_all [Outcome.noPanic]; done)
    | (have h := readFixed_np d tag 10 4; split <;> simp_all [Outcome.noPanic]; done)
    | (have h := readVar_np d tag 8; split <;> simp_all [Outcome.noPanic]; done)
    | (have h := readVar_np d tag 7; split <;> simp_all [Outcome.noPanic]; done)

theorem readSkip_np (d : Dec) (tag : Nat) : (readSkip d tag).noPanic := by
  intro s; unfold readSkip
  have h1 := expectTag_np d tag
  split
  · rename_i d1 _
    have h2 := readByte_np d1
    split
    · rename_i d2 _
      have h3 := readLength_np d2
      split
      · simp only; split <;> simp
      · simp
      · simp_all [Outcome.noPanic]
    · simp
    · simp_all [Outcome.noPanic]
  · simp
  · simp_all [Outcome.noPanic]

theorem wrap_np {α : Type} (o : Outcome α) (h : o.noPanic) : o.wrap.noPanic := by
  intro s; cases o <;> simp_all [Outcome.wrap, Outcome.noPanic]

theorem sliceLoop_np (step : Dec → Outcome (Val × Nat × Dec)) (hs : ∀ d, (step d).noPanic) (ftag expected : Nat) :
    ∀ fuel dd n, (sliceLoop step ftag expected fuel dd n).noPanic := by
  intro fuel
  induction fuel with
  | zero => intro dd n s; simp [sliceLoop]
  | succ fuel ih =>
    intro dd n s
    simp only [sliceLoop]
    have h1 := wrap_np (step dd) (hs dd)
    split
    · rename_i v nn dd1 _
      split
      · simp
      · have h2 := peekTag_np dd1
        split
        · rename_i tag dd2 _
          split
          · simp
          · have := ih dd2 (n + nn)
            split <;> simp_all [Outcome.noPanic]
        · simp
        · simp_all [Outcome.noPanic]
    · simp
    · simp_all [Outcome.noPanic]

mutual
  theorem decValue_np : ∀ (ty : FTy) (tag : Nat) (prev : List FV) (d : Dec), (decValue tag prev ty d).noPanic
    | .prim p, tag, prev, d => by simp only [decValue]; exact readPrim_np d tag p
    | .struct sd, tag, prev, d => by
      simp only [decValue]; intro s; split
      · exact decStruct_np sd tag d s
      · simp
    | .dyn sel table, tag, prev, d => by
      simp only [decValue]; intro s
      split
      · simp
      · split
        · simp
        · exact decDyn_np table tag prev _ d s
    | .unsupported, tag, prev, d => by simp [decValue, Outcome.noPanic]
  theorem decDyn_np : ∀ (table : List DEnt) (tag : Nat) (prev : List FV) (k : Key) (d : Dec), (decDyn tag prev k table d).noPanic
    | [], tag, prev, k, d => by simp [decDyn, Outcome.noPanic]
    | .mk k' ptr (.prim p) :: rest, tag, prev, k, d => by
      intro s
      rw [decDyn]
      by_cases hk : k' = k
      · rw [if_pos hk]
        by_cases hp : ptr = true ∨ p = PTy.interval
        · rw [if_pos hp]; simp
        · rw [if_neg hp]; exact readPrim_np d tag p s
      · rw [if_neg hk]; exact decDyn_np rest tag prev k d s
    | .mk k' ptr (.struct sd) :: rest, tag, prev, k, d => by
      intro s
      rw [decDyn]
      by_cases hk : k' = k
      · rw [if_pos hk]
        by_cases hp : ptr = true
        · rw [if_pos hp]
          by_cases hd : sd.descOk = true
          · rw [if_pos hd]; exact decStruct_np sd tag d s
          · rw [if_neg hd]; simp
        · rw [if_neg hp]; simp
      · rw [if_neg hk]; exact decDyn_np rest tag prev k d s
    | .mk k' ptr (.dyn sel table) :: rest, tag, prev, k, d => by
      intro s
      rw [decDyn]
      by_cases hk : k' = k
      · rw [if_pos hk]; simp
      · rw [if_neg hk]; exact decDyn_np rest tag prev k d s
    | .mk k' ptr .unsupported :: rest, tag, prev, k, d => by
      intro s
      rw [decDyn]
      by_cases hk : k' = k
      · rw [if_pos hk]; simp
      · rw [if_neg hk]; exact decDyn_np rest tag prev k d s
  theorem decStruct_np : ∀ (sd : SD) (tag : Nat) (d : Dec), (decStruct tag sd d).noPanic
    | .mk _ _ fields, tag, d => by
      intro s
      simp only [decStruct]
      have h1 := expectTag_np d tag
      split
      · rename_i d1 _
        have h2 := expectType_np d1 structCode
        split
        · rename_i d2 _
          have h3 := readLength_np d2
          split
          · rename_i expected d3 _
            have h4 := decFields_np fields expected (limitDec d3 expected) 0 []
            split
            · split <;> simp
            · simp
            · simp_all [Outcome.noPanic]
          · simp
          · simp_all [Outcome.noPanic]
        · simp
        · simp_all [Outcome.noPanic]
      · simp
      · simp_all [Outcome.noPanic]
  theorem decFields_np : ∀ (fs : List Fld) (expected : Nat) (dd : Dec) (n : Nat) (prev : List FV),
      (decFields fs expected dd n prev).noPanic
    | [], expected, dd, n, prev => by simp [decFields, Outcome.noPanic]
    | f :: fs, expected, dd, n, prev => by
      intro s
      simp only [decFields]
      have h1 := decField_np f expected dd n prev
      split
      · rename_i fv n' dd' _
        have h2 := decFields_np fs expected dd' n' (prev ++ [fv])
        split <;> simp_all [Outcome.noPanic]
      · simp
      · simp_all [Outcome.noPanic]
  theorem decField_np : ∀ (f : Fld) (expected : Nat) (dd : Dec) (n : Nat) (prev : List FV),
      (decField f expected dd n prev).noPanic
    | .mk name tag required slice skip ty, expected, dd, n, prev => by
      intro s
      simp only [decField]
      have h1 := peekTag_np dd
      split
      · split <;> simp
      · simp_all [Outcome.noPanic]
      · rename_i t dd1 _
        split
        · simp
        · split
          · have := wrap_np _ (readSkip_np dd1 tag)
            split <;> simp_all [Outcome.noPanic]
          · split
            · have := sliceLoop_np (decValue tag prev ty) (fun d => decValue_np ty tag prev d) tag expected (dd1.win.length + 1) dd1 n
              split <;> simp_all [Outcome.noPanic]
            · have := wrap_np _ (decValue_np ty tag prev dd1)
              split
              · split <;> simp
              · simp
              · simp_all [Outcome.noPanic]
end

/-- Decode never panics, whatever the target and the bytes -/
theorem decodeTop_np (t : Target) (bs : Bytes) (fin : Fin) : (decodeTop t bs fin).noPanic := by
  intro s
  cases t <;> simp only [decodeTop]
  all_goals try simp
  rename_i sd
  split
  · exact decStruct_np sd sd.tag _ s
  · simp

end Kmip
