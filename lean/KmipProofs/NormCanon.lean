import KmipModel.WF
/-
  C01, second half: the normalised value has the same canonical tree as the value itself, hence re-encodes to the same bytes.
-/
namespace Kmip

/-! ### the Go zero value is "zero" in the specification's sense -/

theorem specZero_zeroPrim (p : PTy) : specZero (.prim p) (zeroVal (.prim p)) = true := by
  cases p <;> simp [zeroVal, specZero]

mutual
  theorem specZero_zeroSD : (sd : SD) → specZero (.struct sd) (zeroSD sd) = true
    | .mk nm t fs => by
      rw [zeroSD, specZero]
      exact specZeroFlds_zero fs
  theorem specZeroFlds_zero : (fs : List Fld) → specZeroFlds fs (zeroFlds fs) = true
    | [] => by simp [zeroFlds, specZeroFlds]
    | f :: fs => by
      rw [zeroFlds, specZeroFlds, specZeroFlds_zero fs, specZeroFV_zero f]
      simp
  theorem specZeroFV_zero : (f : Fld) → specZeroFV f (zeroFld f) = true
    | .mk nm t req sl sk (.prim p) => by
      cases sk <;> cases sl <;> simp [zeroFld, specZeroFV, Fld.ty, specZero_zeroPrim]
    | .mk nm t req sl sk (.struct sd) => by
      have := specZero_zeroSD sd
      cases sk <;> cases sl <;> simp [zeroFld, specZeroFV, Fld.ty, this]
    | .mk nm t req sl sk (.dyn a b) => by
      cases sk <;> cases sl <;> simp [zeroFld, specZeroFV]
    | .mk nm t req sl sk .unsupported => by
      cases sk <;> cases sl <;> simp [zeroFld, specZeroFV, Fld.ty, specZero]
end

/-! ### normalisation preserves zero-ness and the canonical tree -/

theorem ignored_or (f : Fld) : (f.skip || f.tag == anyTag) = f.ignored := by simp [Fld.ignored, Bool.or_comm]

theorem normFV_one_absent (f : Fld) (v : Val) (hig : f.ignored = false) (hz : (!f.required && specZero f.ty v) = true) :
    normFV f (.one v) = zeroFld f := by
  simp [normFV, hig, hz]

/-- an optional field holding its Go zero value: absent on the wire, and Decode puts the same zero value back -/
theorem zero_one_hz (f : Fld) (v : Val) (hr : f.required = false) (hzf : FV.one v = zeroFld f) :
    (!f.required && specZero f.ty v) = true := by
  have h := specZeroFV_zero f
  rw [← hzf] at h
  simp only [specZeroFV] at h
  simp [hr, h]

theorem normFV_zero_one (f : Fld) (v : Val) (hig : f.ignored = false) (hr : f.required = false) (hzf : FV.one v = zeroFld f) :
    normFV f (.one v) = .one v := by
  rw [normFV_one_absent f v hig (zero_one_hz f v hr hzf), hzf]

/-- in the branch where the field is present on the wire, the relaxed well-formedness is the strict one -/
theorem wf_of_present (f : Fld) (v : Val) (h : (f.required = false ∧ FV.one v = zeroFld f) ∨ WFv f.ty v)
    (hz : ¬ (!f.required && specZero f.ty v) = true) : WFv f.ty v := by
  rcases h with ⟨hr, hzf⟩ | h
  · exact absurd (zero_one_hz f v hr hzf) hz
  · exact h

theorem normFV_one_present (f : Fld) (v : Val) (hig : f.ignored = false) (hz : ¬ (!f.required && specZero f.ty v) = true) :
    normFV f (.one v) = .one (normVal f.ty v) := by
  have : (!f.required && specZero f.ty v) = false := by simpa using hz
  simp only [normFV, hig, this, Bool.or_self]
  simp

theorem normMany_isEmpty (ty : FTy) (vs : List Val) : (normMany ty vs).isEmpty = vs.isEmpty := by
  cases vs <;> simp [normMany]

mutual
  theorem specZero_norm (ty : FTy) : (v : Val) → WFv ty v → specZero ty (normVal ty v) = specZero ty v
    | .int _, _ => by simp [normVal]
    | .long _, _ => by simp [normVal]
    | .enum _, _ => by simp [normVal]
    | .bool _, _ => by simp [normVal]
    | .bytes _, _ => by simp [normVal]
    | .text _, _ => by simp [normVal]
    | .time _, _ => by simp [normVal]
    | .interval _, _ => by simp [normVal]
    | .struct fs, hw => by
      cases ty with
      | prim p => simp [WFv] at hw
      | dyn a b => simp [WFv] at hw
      | unsupported => simp [WFv] at hw
      | struct sd =>
        simp only [WFv] at hw
        simp only [normVal, specZero]
        exact specZeroFlds_norm sd.fields fs [] hw
  termination_by structural v _ => v
  theorem specZeroFlds_norm : (fs : List Fld) → (vs : List FV) → (prev : List FV) → WFflds fs vs prev →
      specZeroFlds fs (normFlds fs vs) = specZeroFlds fs vs
    | [], [], _, _ => by simp [normFlds]
    | [], _ :: _, _, hw => by simp [WFflds] at hw
    | _ :: _, [], _, hw => by simp [WFflds] at hw
    | f :: fs, v :: vs, prev, hw => by
      rw [WFflds] at hw
      rw [normFlds, specZeroFlds, specZeroFlds, specZeroFlds_norm fs vs _ hw.2, specZeroFV_norm f prev v hw.1]
  termination_by structural _ vs _ _ => vs
  theorem specZeroFV_norm (f : Fld) (prev : List FV) : (v : FV) → WFfv f v prev →
      (f.skip || f.tag == anyTag || specZeroFV f (normFV f v)) = (f.skip || f.tag == anyTag || specZeroFV f v)
    | .one v, hw => by
      simp only [WFfv] at hw
      obtain ⟨_, hig, hwv⟩ := hw
      rw [ignored_or, hig, Bool.false_or, Bool.false_or]
      by_cases hz : (!f.required && specZero f.ty v) = true
      · rw [normFV_one_absent f v hig hz, specZeroFV_zero f]
        simp only [Bool.and_eq_true] at hz
        simp [specZeroFV, hz.2]
      · rw [normFV_one_present f v hig hz]
        simp only [specZeroFV]
        exact specZero_norm f.ty v (wf_of_present f v hwv hz)
    | .many vs, hw => by
      simp only [WFfv] at hw
      obtain ⟨_, hig, _, _⟩ := hw
      simp [normFV, hig, specZeroFV, normMany_isEmpty]
    | .dyn .nil, _ => by simp [normFV]
    | .dyn (.val _ _ _), _ => by simp [normFV, specZeroFV]
    | .dyn (.bad _), hw => by simp [WFfv] at hw
    | .skip nn, hw => by
      simp only [WFfv] at hw
      rw [ignored_or, hw]
      simp
  termination_by structural v _ => v
end

mutual
  theorem canonVal_norm (tag : Nat) (ty : FTy) : (v : Val) → WFv ty v → canonVal tag ty (normVal ty v) = canonVal tag ty v
    | .int _, _ => by simp [normVal]
    | .long _, _ => by simp [normVal]
    | .enum _, _ => by simp [normVal]
    | .bool _, _ => by simp [normVal]
    | .bytes _, _ => by simp [normVal]
    | .text _, _ => by simp [normVal]
    | .time _, _ => by simp [normVal]
    | .interval _, _ => by simp [normVal]
    | .struct fs, hw => by
      cases ty with
      | prim p => simp [WFv] at hw
      | dyn a b => simp [WFv] at hw
      | unsupported => simp [WFv] at hw
      | struct sd =>
        simp only [WFv] at hw
        simp only [normVal, canonVal]
        rw [canonFlds_norm sd.fields fs [] hw]
  termination_by structural v _ => v
  theorem canonFlds_norm : (fs : List Fld) → (vs : List FV) → (prev : List FV) → WFflds fs vs prev →
      canonFlds fs (normFlds fs vs) = canonFlds fs vs
    | [], [], _, _ => by simp [normFlds]
    | [], _ :: _, _, hw => by simp [WFflds] at hw
    | _ :: _, [], _, hw => by simp [WFflds] at hw
    | f :: fs, v :: vs, prev, hw => by
      rw [WFflds] at hw
      rw [normFlds, canonFlds, canonFlds, canonFlds_norm fs vs _ hw.2, canonFV_norm f prev v hw.1]
  termination_by structural _ vs _ _ => vs
  theorem canonFV_norm (f : Fld) (prev : List FV) : (v : FV) → WFfv f v prev → canonFV f (normFV f v) = canonFV f v
    | .one v, hw => by
      simp only [WFfv] at hw
      obtain ⟨hsl, hig, hwv⟩ := hw
      by_cases hz : (!f.required && specZero f.ty v) = true
      · rw [normFV_one_absent f v hig hz]
        have h2 : canonFV f (.one v) = [] := by
          simp only [canonFV, ignored_or, hig]
          simp [hz]
        rw [h2]
        cases f with
        | mk nm t req sl sk ty =>
          simp only [Fld.slice] at hsl
          simp only [Fld.required, Fld.ty] at hz
          have hsk : sk = false := by
            simp only [Fld.ignored, Fld.tag, Fld.skip, Bool.or_eq_false_iff] at hig
            exact hig.2
          subst hsl hsk
          simp only [Bool.and_eq_true, Bool.not_eq_true'] at hz
          obtain ⟨hr, _⟩ := hz
          subst hr
          cases ty with
          | prim p =>
            have := specZero_zeroPrim p
            simp [zeroFld, canonFV, Fld.skip, Fld.tag, Fld.required, Fld.ty, this]
          | struct sd =>
            have := specZero_zeroSD sd
            simp [zeroFld, canonFV, Fld.skip, Fld.tag, Fld.required, Fld.ty, this]
          | dyn a b =>
            rcases hwv with ⟨_, hzf⟩ | hwv
            · simp [zeroFld] at hzf
            · cases v <;> simp [WFv, Fld.ty] at hwv
          | unsupported =>
            rcases hwv with ⟨_, hzf⟩ | hwv
            · simp only [zeroFld, Bool.false_eq_true, if_false, FV.one.injEq] at hzf
              subst hzf
              simp [zeroFld, canonFV, Fld.skip, Fld.tag, Fld.required, Fld.ty, specZero]
            · cases v <;> simp [WFv, Fld.ty] at hwv
      · rw [normFV_one_present f v hig hz]
        have hz' : (!f.required && specZero f.ty v) = false := by simpa using hz
        have hwv := wf_of_present f v hwv hz
        simp only [canonFV, ignored_or, hig, specZero_norm f.ty v hwv, hz', canonVal_norm f.tag f.ty v hwv]
    | .many vs, hw => by
      simp only [WFfv] at hw
      obtain ⟨_, hig, _, hwv⟩ := hw
      have hn : normFV f (.many vs) = .many (normMany f.ty vs) := by simp [normFV, hig]
      rw [hn]
      simp only [canonFV, ignored_or, hig]
      simp only [Bool.false_eq_true, if_false]
      exact canonMany_norm f.tag f.ty vs hwv
    | .dyn .nil, _ => by simp [normFV]
    | .dyn (.val p ty' v), hw => by
      simp only [WFfv] at hw
      obtain ⟨_, _, _, hwv⟩ := hw
      simp only [normFV, canonFV, canonDyn, canonVal_norm f.tag ty' v hwv]
    | .dyn (.bad _), hw => by simp [WFfv] at hw
    | .skip nn, _ => by simp [normFV, canonFV]
  termination_by structural v _ => v
  theorem canonMany_norm (tag : Nat) (ty : FTy) : (vs : List Val) → WFmany ty vs →
      canonMany tag ty (normMany ty vs) = canonMany tag ty vs
    | [], _ => by simp [normMany]
    | v :: vs, hw => by
      rw [WFmany] at hw
      rw [normMany, canonMany, canonMany, canonVal_norm tag ty v hw.1, canonMany_norm tag ty vs hw.2]
  termination_by structural vs _ => vs
end

end Kmip
