import KmipModel.Encode
import KmipProofs.Bytes
/-
  Helper lemmas for C02: the Go-shaped encoder model produces exactly the independent serializer's
  output on the canonical tree.
-/
namespace Kmip

theorem serList_append (a b : List Item) : Item.serList (a ++ b) = Item.serList a ++ Item.serList b := by
  induction a with
  | nil => simp [Item.serList]
  | cons x xs ih => simp [Item.serList, ih, List.append_assoc]

theorem serList_singleton (i : Item) : Item.serList [i] = i.ser := by
  simp [Item.serList]

mutual
  /-- `isZeroValue` agrees with the specification's notion of zero whenever it returns -/
  theorem isZeroVal_spec : ∀ (v : Val) (ty : FTy) (b : Bool), isZeroVal ty v = .ok b → b = specZero ty v
    | .int n, ty, b, h => by simp [isZeroVal] at h; simp [specZero, ← h]
    | .long n, ty, b, h => by simp [isZeroVal] at h; simp [specZero, ← h]
    | .enum n, ty, b, h => by simp [isZeroVal] at h; simp [specZero, ← h]
    | .bool x, ty, b, h => by simp [isZeroVal] at h; simp [specZero, h]
    | .bytes x, ty, b, h => by simp [isZeroVal] at h; simp [specZero, ← h]
    | .text x, ty, b, h => by simp [isZeroVal] at h; simp [specZero, ← h]
    | .time n, ty, b, h => by simp [isZeroVal] at h; simp [specZero, ← h]
    | .interval n, ty, b, h => by simp [isZeroVal] at h; simp [specZero, ← h]
    | .struct fs, .struct sd, b, h => by
      simp only [isZeroVal] at h
      split at h
      · simpa [specZero] using isZeroFlds_spec fs sd.fields b h
      · cases h
    | .struct fs, .prim _, b, h => by simp [isZeroVal] at h
    | .struct fs, .dyn _ _, b, h => by simp [isZeroVal] at h
    | .struct fs, .unsupported, b, h => by simp [isZeroVal] at h
  theorem isZeroFlds_spec : ∀ (vs : List FV) (fs : List Fld) (b : Bool), isZeroFlds fs vs = .ok b → b = specZeroFlds fs vs
    | vs, [], b, h => by simp [isZeroFlds] at h; simp [specZeroFlds, ← h]
    | [], f :: fs, b, h => by simp [isZeroFlds] at h
    | v :: vs, f :: fs, b, h => by
      simp only [isZeroFlds] at h
      simp only [specZeroFlds]
      by_cases hi : f.ignored = true
      · rw [if_pos hi] at h
        have := isZeroFlds_spec vs fs b h
        have hi' : (f.skip || f.tag == anyTag) = true := by
          simp only [Fld.ignored] at hi; rw [Bool.or_comm]; exact hi
        rw [hi']
        simp [this]
      · rw [if_neg hi] at h
        have hi' : (f.skip || f.tag == anyTag) = false := by
          simp only [Fld.ignored] at hi; rw [Bool.or_comm]; simpa using hi
        cases hz : isZeroFV f v with
        | ok bb =>
          rw [hz] at h
          have h1 := isZeroFV_spec v f bb hz
          cases bb with
          | true =>
            have h2 := isZeroFlds_spec vs fs b h
            simp [hi', ← h1, h2]
          | false =>
            simp only [Outcome.ok.injEq] at h
            simp [hi', ← h1, ← h]
        | err e => rw [hz] at h; cases h
        | panic e => rw [hz] at h; cases h
  theorem isZeroFV_spec : ∀ (v : FV) (f : Fld) (b : Bool), isZeroFV f v = .ok b → b = specZeroFV f v
    | .one v, f, b, h => by simpa [specZeroFV] using isZeroVal_spec v f.ty b (by simpa [isZeroFV] using h)
    | .many vs, f, b, h => by simp [isZeroFV] at h; simp [specZeroFV, ← h]
    | .dyn .nil, f, b, h => by simp [isZeroFV] at h; simp [specZeroFV, ← h]
    | .dyn (.val _ _ _), f, b, h => by simp [isZeroFV] at h; simp [specZeroFV, ← h]
    | .dyn (.bad _), f, b, h => by simp [isZeroFV] at h; simp [specZeroFV, ← h]
    | .skip nn, f, b, h => by simp [isZeroFV] at h; simp [specZeroFV, h]
end

theorem header_length (t ty l : Nat) : (header t ty l).length = 8 := by
  simp [header, be_length]

mutual
  /-- whenever the encoder model succeeds, its output is the serialization of the canonical tree -/
  theorem encVal_canon : ∀ (v : Val) (tag : Nat) (ty : FTy) (bs : Bytes),
      encVal tag ty v = .ok bs → bs = (canonVal tag ty v).ser
    | .int n, tag, ty, bs, h => by
      simp only [encVal, Outcome.ok.injEq] at h
      simp [canonVal, Item.ser, ← h, be_length, padLen, zeros]
    | .long n, tag, ty, bs, h => by
      simp only [encVal, Outcome.ok.injEq] at h
      simp [canonVal, Item.ser, ← h, be_length, padLen, zeros]
    | .enum n, tag, ty, bs, h => by
      simp only [encVal, Outcome.ok.injEq] at h
      simp [canonVal, Item.ser, ← h, be_length, padLen, zeros]
    | .bool b, tag, ty, bs, h => by
      simp only [encVal, Outcome.ok.injEq] at h
      simp [canonVal, Item.ser, ← h, padLen, zeros]
    | .text b, tag, ty, bs, h => by
      simp only [encVal, Outcome.ok.injEq] at h
      simp [canonVal, Item.ser, ← h]
    | .bytes b, tag, ty, bs, h => by
      simp only [encVal, Outcome.ok.injEq] at h
      simp [canonVal, Item.ser, ← h]
    | .time n, tag, ty, bs, h => by
      simp only [encVal, Outcome.ok.injEq] at h
      simp [canonVal, Item.ser, ← h, be_length, padLen, zeros]
    | .interval n, tag, ty, bs, h => by
      simp only [encVal, Outcome.ok.injEq] at h
      simp [canonVal, Item.ser, ← h, be_length, padLen, zeros]
    | .struct fs, tag, .struct sd, bs, h => by
      simp only [encVal] at h
      split at h
      · cases hb : encFlds sd.fields fs with
        | ok body =>
          rw [hb] at h
          simp only [Outcome.ok.injEq] at h
          have := encFlds_canon fs sd.fields body hb
          simp [canonVal, Item.ser, ← h, this]
        | err e => rw [hb] at h; cases h
        | panic e => rw [hb] at h; cases h
      · cases h
    | .struct fs, tag, .prim _, bs, h => by simp [encVal] at h
    | .struct fs, tag, .dyn _ _, bs, h => by simp [encVal] at h
    | .struct fs, tag, .unsupported, bs, h => by simp [encVal] at h
  theorem encFlds_canon : ∀ (vs : List FV) (fs : List Fld) (bs : Bytes),
      encFlds fs vs = .ok bs → bs = Item.serList (canonFlds fs vs)
    | vs, [], bs, h => by
      simp only [encFlds, Outcome.ok.injEq] at h
      simp [canonFlds, Item.serList, ← h]
    | [], f :: fs, bs, h => by simp [encFlds] at h
    | v :: vs, f :: fs, bs, h => by
      simp only [encFlds] at h
      simp only [canonFlds, serList_append]
      by_cases hi : f.ignored = true
      · rw [if_pos hi] at h
        have h2 := encFlds_canon vs fs bs h
        have hc : canonFV f v = [] := by
          have hi' : (f.skip || f.tag == anyTag) = true := by
            simp only [Fld.ignored] at hi; rw [Bool.or_comm]; exact hi
          cases v <;> simp [canonFV, hi']
        simp [hc, Item.serList, h2]
      · rw [if_neg hi] at h
        cases ha : encFV f v with
        | ok a =>
          rw [ha] at h
          cases hb : encFlds fs vs with
          | ok b =>
            rw [hb] at h
            simp only [Outcome.ok.injEq] at h
            have h1 := encFV_canon v f a hi ha
            have h2 := encFlds_canon vs fs b hb
            simp [← h, h1, h2]
          | err e => rw [hb] at h; cases h
          | panic e => rw [hb] at h; cases h
        | err e => rw [ha] at h; cases h
        | panic e => rw [ha] at h; cases h
  theorem encFV_canon : ∀ (v : FV) (f : Fld) (bs : Bytes), ¬ f.ignored = true →
      encFV f v = .ok bs → bs = Item.serList (canonFV f v)
    | .one v, f, bs, hi, h => by
      have hi' : (f.skip || f.tag == anyTag) = false := by
        simp only [Fld.ignored] at hi; rw [Bool.or_comm]; simpa using hi
      simp only [encFV] at h
      simp only [canonFV, hi']
      by_cases hr : f.required = true
      · rw [if_pos hr] at h
        have := encVal_canon v f.tag f.ty bs h
        simp [hr, Item.serList, this]
      · rw [if_neg hr] at h
        cases hz : isZeroVal f.ty v with
        | ok z =>
          rw [hz] at h
          have hs := isZeroVal_spec v f.ty z hz
          cases z with
          | true =>
            simp only [Outcome.ok.injEq] at h
            simp [hr, ← hs, Item.serList, ← h]
          | false =>
            have := encVal_canon v f.tag f.ty bs h
            simp [hr, ← hs, Item.serList, this]
        | err e => rw [hz] at h; cases h
        | panic e => rw [hz] at h; cases h
    | .many vs, f, bs, hi, h => by
      have hi' : (f.skip || f.tag == anyTag) = false := by
        simp only [Fld.ignored] at hi; rw [Bool.or_comm]; simpa using hi
      simp only [encFV] at h
      simp only [canonFV, hi']
      simpa using encMany_canon vs f.tag f.ty bs h
    | .dyn .nil, f, bs, hi, h => by
      have hi' : (f.skip || f.tag == anyTag) = false := by
        simp only [Fld.ignored] at hi; rw [Bool.or_comm]; simpa using hi
      simp only [encFV] at h
      split at h
      · cases h
      · simp only [Outcome.ok.injEq] at h
        simp [canonFV, hi', canonDyn, Item.serList, ← h]
    | .dyn (.val p (.prim pt) v), f, bs, hi, h => by
      have hi' : (f.skip || f.tag == anyTag) = false := by
        simp only [Fld.ignored] at hi; rw [Bool.or_comm]; simpa using hi
      simp only [encFV] at h
      have := encVal_canon v f.tag (.prim pt) bs h
      simp [canonFV, hi', canonDyn, Item.serList, this]
    | .dyn (.val p (.struct sd) v), f, bs, hi, h => by
      have hi' : (f.skip || f.tag == anyTag) = false := by
        simp only [Fld.ignored] at hi; rw [Bool.or_comm]; simpa using hi
      simp only [encFV] at h
      have := encVal_canon v f.tag (.struct sd) bs h
      simp [canonFV, hi', canonDyn, Item.serList, this]
    | .dyn (.val p (.dyn _ _) v), f, bs, hi, h => by simp [encFV] at h
    | .dyn (.val p .unsupported v), f, bs, hi, h => by simp [encFV] at h
    | .dyn (.bad _), f, bs, hi, h => by simp [encFV] at h
    | .skip _, f, bs, hi, h => by simp [encFV] at h
  theorem encMany_canon : ∀ (vs : List Val) (tag : Nat) (ty : FTy) (bs : Bytes),
      encMany tag ty vs = .ok bs → bs = Item.serList (canonMany tag ty vs)
    | [], tag, ty, bs, h => by
      simp only [encMany, Outcome.ok.injEq] at h
      simp [canonMany, Item.serList, ← h]
    | v :: vs, tag, ty, bs, h => by
      simp only [encMany] at h
      cases ha : encVal tag ty v with
      | ok a =>
        rw [ha] at h
        cases hb : encMany tag ty vs with
        | ok b =>
          rw [hb] at h
          simp only [Outcome.ok.injEq] at h
          have h1 := encVal_canon v tag ty a ha
          have h2 := encMany_canon vs tag ty b hb
          simp [canonMany, Item.serList, ← h, h1, h2]
        | err e => rw [hb] at h; cases h
        | panic e => rw [hb] at h; cases h
      | err e => rw [ha] at h; cases h
      | panic e => rw [ha] at h; cases h
end

end Kmip
