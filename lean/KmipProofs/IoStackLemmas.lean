import KmipModel.IoStack
/-
  Every layer of the Decoder's reader stack acts on the FLAT view (Stack.content, Stack.fin) only: C06's independence of the
  transport's fragmentation, for stacks of any depth, through bufio and io.LimitReader as the Go sources implement them.
-/
namespace Kmip.Io

/-! ### empty-read runs -/

theorem leadEmpty_le_max (cs : List Bytes) : leadEmpty cs ≤ maxEmptyRun cs := by
  cases cs with
  | nil => simp [leadEmpty, maxEmptyRun]
  | cons c cs => simp only [maxEmptyRun]; omega

theorem maxEmptyRun_tail (c : Bytes) (cs : List Bytes) : maxEmptyRun cs ≤ maxEmptyRun (c :: cs) := by
  simp only [maxEmptyRun]; omega

theorem maxEmptyRun_cons_nonempty (c : Bytes) (cs : List Bytes) (h : c.length ≠ 0) :
    maxEmptyRun (c :: cs) = maxEmptyRun cs := by
  simp only [maxEmptyRun, leadEmpty, if_neg h]; omega

/-- the law of a reader whose flat view is (content, fin): what one `Read` may do -/
def ReadLaw (s : Stack) (k : Nat) : Prop :=
  (s.read k).2.2.Inv ∧ (s.read k).1.length ≤ k ∧ s.content = (s.read k).1 ++ (s.read k).2.2.content ∧
  (s.read k).2.2.fin = s.fin ∧
  (∀ err, (s.read k).2.1 = some err → err = s.fin ∧ (s.read k).2.2.content = [] ∧ ((s.read k).1 ≠ [] → err = .eof)) ∧
  ((s.read k).2.1 = none → (s.read k).2.2.fuel < s.fuel) ∧
  ((s.read k).2.1 = none → (s.read k).1 = [] → (s.read k).2.2.idle < s.idle)

theorem src_law (s : Src) (k : Nat) (hk : 0 < k) (hi : (Stack.src s).Inv) : ReadLaw (.src s) k := by
  obtain ⟨chunks, fin, eager⟩ := s
  obtain ⟨hpol, hrun⟩ := hi
  simp only at hpol hrun
  unfold ReadLaw
  simp only [Stack.read]
  cases chunks with
  | nil =>
    simp [Src.read, Stack.Inv, Stack.content, Stack.fin, Src.flat, maxEmptyRun, maxConsecutiveEmptyReads]
    exact hpol
  | cons c cs =>
    by_cases hc : c.length ≤ k
    · simp only [Src.read, if_pos hc]
      refine ⟨⟨hpol, Nat.lt_of_le_of_lt (maxEmptyRun_tail c cs) hrun⟩, hc, by simp [Stack.content, Src.flat], rfl, ?_, ?_, ?_⟩
      · intro err he
        by_cases hl : (cs.isEmpty && eager) = true
        · rw [if_pos hl] at he
          simp only [Bool.and_eq_true, List.isEmpty_iff] at hl
          obtain ⟨hcs, heg⟩ := hl
          subst hcs
          refine ⟨by simpa [Stack.fin] using he.symm, by simp [Stack.content, Src.flat], ?_⟩
          intro _
          have := hpol heg
          simp only [this, Fin.err] at he
          simpa using he.symm
        · rw [if_neg hl] at he; cases he
      · intro _
        simp only [Stack.fuel, Src.flat, List.flatten_cons, List.length_append, List.length_cons]
        omega
      · intro _ hb
        simp only [Stack.idle, leadEmpty]
        have : c.length = 0 := by simp [hb]
        rw [if_pos this]; omega
    · simp only [Src.read, if_neg hc]
      have hcl : k < c.length := Nat.lt_of_not_le hc
      have hne : (c.drop k).length ≠ 0 := by simp only [List.length_drop]; omega
      refine ⟨⟨hpol, ?_⟩, by simp [List.length_take]; omega, ?_, rfl, ?_, ?_, ?_⟩
      · show maxEmptyRun (c.drop k :: cs) < _
        rw [maxEmptyRun_cons_nonempty _ _ hne]
        exact Nat.lt_of_le_of_lt (maxEmptyRun_tail c cs) hrun
      · simp only [Stack.content, Src.flat, List.flatten_cons]
        rw [← List.append_assoc, List.take_append_drop]
      · intro err he; cases he
      · intro _
        simp only [Stack.fuel, Src.flat, List.flatten_cons, List.length_append, List.length_cons, List.length_drop]
        omega
      · intro _ hb
        have : (c.take k).length = 0 := by simp [hb]
        simp only [List.length_take] at this
        omega

theorem lim_law (i : Stack) (n k : Nat) (hk : 0 < k) (hi : i.Inv) (ih : ∀ k', 0 < k' → ReadLaw i k') :
    ReadLaw (.lim i n) k := by
  unfold ReadLaw
  by_cases hn : n = 0
  · subst hn
    simp [Stack.read, Stack.Inv, Stack.content, Stack.fin]
    exact hi
  · have hm : 0 < min k n := by omega
    obtain ⟨h1, h2, h3, h4, h5, h6, h7⟩ := ih (min k n) hm
    simp only [Stack.read, if_neg hn]
    generalize i.read (min k n) = r at h1 h2 h3 h4 h5 h6 h7
    obtain ⟨b, e, i'⟩ := r
    simp only at h1 h2 h3 h4 h5 h6 h7 ⊢
    have hbn : b.length ≤ n := by omega
    have hlen : i.content.length = b.length + i'.content.length := by rw [h3, List.length_append]
    refine ⟨h1, by omega, ?_, ?_, ?_, ?_, ?_⟩
    · simp only [Stack.content]
      rw [h3, List.take_append]
      have : List.take n b = b := List.take_of_length_le hbn
      rw [this]
    · simp only [Stack.fin, h4, hlen]
      by_cases hc : n ≤ b.length + i'.content.length
      · rw [if_pos hc, if_pos (by omega)]
      · rw [if_neg hc, if_neg (by omega)]
    · intro err he
      obtain ⟨e1, e2, e3⟩ := h5 err he
      refine ⟨?_, by simp [Stack.content, e2], e3⟩
      simp only [Stack.fin, hlen, e2, List.length_nil, Nat.add_zero]
      by_cases hc : n ≤ b.length
      · rw [if_pos hc]
        have hb : b ≠ [] := by
          intro h; subst h; simp at hc; omega
        exact e3 hb
      · rw [if_neg hc]; exact e1
    · intro he; simpa [Stack.fuel] using h6 he
    · intro he hb; simpa [Stack.idle] using h7 he hb

theorem fuel_step (f f' sz : Nat) (h : f' < f) : (f' + 1) * (sz + 2) + (sz + 2) ≤ (f + 1) * (sz + 2) := by
  have h1 : (f' + 1) * (sz + 2) ≤ f * (sz + 2) := Nat.mul_le_mul_right _ (by omega)
  have h2 : (f + 1) * (sz + 2) = f * (sz + 2) + (sz + 2) := Nat.succ_mul _ _
  omega

theorem fuel_pos (f sz : Nat) : sz + 2 ≤ (f + 1) * (sz + 2) := by
  have h2 : (f + 1) * (sz + 2) = f * (sz + 2) + (sz + 2) := Nat.succ_mul _ _
  omega

theorem buf_law (i : Stack) (sz : Nat) (pend : Bytes) (er : Option ErrClass) (k : Nat) (hk : 0 < k)
    (hinv : (Stack.buf i sz pend er).Inv) (ih : ∀ k', 0 < k' → ReadLaw i k') : ReadLaw (.buf i sz pend er) k := by
  obtain ⟨hi, hsz, her⟩ := hinv
  unfold ReadLaw
  match pend, er with
  | c :: cs, er =>
    simp only [Stack.read]
    refine ⟨⟨hi, hsz, her⟩, by simp [List.length_take]; omega, ?_, rfl, ?_, ?_, ?_⟩
    · simp only [Stack.content]
      rw [← List.append_assoc, List.take_append_drop]
    · intro err he; cases he
    · intro _
      simp only [Stack.fuel, List.length_drop, List.length_cons]
      omega
    · intro _ hb
      have : ((c :: cs).take k).length = 0 := by rw [hb]; rfl
      simp only [List.length_take, List.length_cons] at this
      omega
  | [], some e =>
    simp only [Stack.read]
    obtain ⟨e1, e2⟩ := her e rfl
    refine ⟨⟨hi, hsz, by intro e' h; cases h⟩, by simp, by simp [Stack.content], rfl, ?_, ?_, ?_⟩
    · intro err he
      simp only [Option.some.injEq] at he
      subst he
      exact ⟨e1, by simp [Stack.content, e2], by intro h; exact absurd rfl h⟩
    · intro he; cases he
    · intro he; cases he
  | [], none =>
    by_cases hd : sz ≤ k
    · obtain ⟨h1, h2, h3, h4, h5, h6, h7⟩ := ih k hk
      simp only [Stack.read, if_pos hd]
      generalize i.read k = r at h1 h2 h3 h4 h5 h6 h7
      obtain ⟨b, e, i'⟩ := r
      simp only at h1 h2 h3 h4 h5 h6 h7 ⊢
      refine ⟨⟨h1, hsz, by intro e' h; cases h⟩, h2, by simpa [Stack.content] using h3, by simpa [Stack.fin] using h4, ?_, ?_, ?_⟩
      · intro err he
        obtain ⟨e1, e2, e3⟩ := h5 err he
        exact ⟨by simpa [Stack.fin] using e1, by simp [Stack.content, e2], e3⟩
      · intro he
        have := fuel_step i.fuel i'.fuel sz (h6 he)
        simp only [Stack.fuel, Option.isSome_none, Bool.false_eq_true, if_false, List.length_nil]
        omega
      · intro he hb
        simpa [Stack.idle] using h7 he hb
    · obtain ⟨h1, h2, h3, h4, h5, h6, h7⟩ := ih sz hsz
      simp only [Stack.read, if_neg hd]
      generalize i.read sz = r at h1 h2 h3 h4 h5 h6 h7
      obtain ⟨b, e, i'⟩ := r
      simp only at h1 h2 h3 h4 h5 h6 h7 ⊢
      cases b with
      | nil =>
        simp only
        refine ⟨⟨h1, hsz, by intro e' h; cases h⟩, by simp, by simpa [Stack.content] using h3, by simpa [Stack.fin] using h4, ?_, ?_, ?_⟩
        · intro err he
          obtain ⟨e1, e2, e3⟩ := h5 err he
          exact ⟨by simpa [Stack.fin] using e1, by simp [Stack.content, e2], by intro h; exact absurd rfl h⟩
        · intro he
          have := fuel_step i.fuel i'.fuel sz (h6 he)
          simp only [Stack.fuel, Option.isSome_none, Bool.false_eq_true, if_false, List.length_nil]
          omega
        · intro he _
          simpa [Stack.idle] using h7 he rfl
      | cons c cs =>
        simp only
        refine ⟨⟨h1, hsz, ?_⟩, by simp [List.length_take]; omega, ?_, by simpa [Stack.fin] using h4, ?_, ?_, ?_⟩
        · intro e' he
          obtain ⟨e1, e2, _⟩ := h5 e' he
          exact ⟨by rw [h4]; exact e1, e2⟩
        · simp only [Stack.content, List.nil_append]
          rw [h3, ← List.append_assoc, List.take_append_drop]
        · intro err he; cases he
        · intro _
          simp only [List.length_cons] at h2
          have hp := fuel_pos i.fuel sz
          cases e with
          | none =>
            have := fuel_step i.fuel i'.fuel sz (h6 rfl)
            simp only [Stack.fuel, Option.isSome_none, Bool.false_eq_true, if_false, List.length_nil, List.length_drop, List.length_cons]
            omega
          | some e' =>
            simp only [Stack.fuel, Option.isSome_some, if_true, Option.isSome_none, Bool.false_eq_true, if_false, List.length_nil,
              List.length_drop, List.length_cons]
            omega
        · intro _ hb
          have : ((c :: cs).take k).length = 0 := by rw [hb]; rfl
          simp only [List.length_take, List.length_cons] at this
          omega

/-- every layer of every stack obeys the law: one `Read` hands out a prefix of the flat content, reports an error only at its
    end (and then the flat view's own), and cannot go on for ever without one -/
theorem read_law : ∀ (s : Stack) (k : Nat), 0 < k → s.Inv → ReadLaw s k
  | .src s, k, hk, hi => src_law s k hk hi
  | .lim i n, k, hk, hi => lim_law i n k hk hi (fun k' hk' => read_law i k' hk' hi)
  | .buf i sz pend er, k, hk, hi => buf_law i sz pend er k hk hi (fun k' hk' => read_law i k' hk' hi.1)

/-! ### io.ReadFull over any stack -/

theorem stackReadFullLoop_flat : ∀ (fuel : Nat) (s : Stack) (k : Nat) (acc : Bytes), s.Inv → s.fuel + 2 ≤ fuel →
    (k ≤ acc.length + s.content.length →
      ∃ s', Stack.readFullLoop fuel s k acc = .ok (acc ++ s.content.take (k - acc.length), s') ∧ s'.Inv ∧
        s'.content = s.content.drop (k - acc.length) ∧ s'.fin = s.fin) ∧
    (¬ k ≤ acc.length + s.content.length →
      Stack.readFullLoop fuel s k acc = .err (if acc.length + s.content.length = 0 then s.fin else .other))
  | 0, s, k, acc, _, h => by omega
  | fuel + 1, s, k, acc, hi, h => by
    rw [Stack.readFullLoop]
    by_cases hk : k ≤ acc.length
    · rw [if_pos hk]
      have h0 : k - acc.length = 0 := by omega
      refine ⟨fun _ => ⟨s, by simp [h0], hi, by simp [h0], rfl⟩, fun hn => by omega⟩
    · rw [if_neg hk]
      have hpos : 0 < k - acc.length := by omega
      obtain ⟨h1, h2, h3, h4, h5, h6, h7⟩ := read_law s (k - acc.length) hpos hi
      generalize s.read (k - acc.length) = r at h1 h2 h3 h4 h5 h6 h7
      obtain ⟨b, e, s'⟩ := r
      simp only at h1 h2 h3 h4 h5 h6 h7 ⊢
      have hlen : s.content.length = b.length + s'.content.length := by rw [h3, List.length_append]
      cases e with
      | none =>
        simp only
        have hf := h6 rfl
        obtain ⟨ihs, ihf⟩ := stackReadFullLoop_flat fuel s' k (acc ++ b) h1 (by omega)
        simp only [List.length_append] at ihs ihf
        refine ⟨fun hle => ?_, fun hn => ?_⟩
        · obtain ⟨s'', e1, e2, e3, e4⟩ := ihs (by omega)
          refine ⟨s'', ?_, e2, ?_, by rw [e4, h4]⟩
          · rw [e1, h3, List.take_append, List.take_of_length_le (by omega : b.length ≤ k - acc.length), List.append_assoc,
              Nat.sub_add_eq]
          · rw [e3, h3, List.drop_append, List.drop_of_length_le (by omega : b.length ≤ k - acc.length), List.nil_append,
              Nat.sub_add_eq]
        · rw [ihf (by omega), h4, hlen]
          congr 1
          simp only [Nat.add_assoc]
      | some err =>
        simp only
        obtain ⟨e1, e2, _⟩ := h5 err rfl
        have hc : s.content = b := by rw [h3, e2, List.append_nil]
        refine ⟨fun hle => ?_, fun hn => ?_⟩
        · have hkb : k ≤ (acc ++ b).length := by rw [List.length_append, ← hc]; exact hle
          rw [if_pos hkb]
          refine ⟨s', ?_, h1, ?_, h4⟩
          · rw [hc, List.take_of_length_le (by omega)]
          · rw [e2, hc, List.drop_of_length_le (by omega)]
        · have hkb : ¬ k ≤ (acc ++ b).length := by rw [List.length_append, ← hc]; exact hn
          rw [if_neg hkb, List.length_append, ← hc, e1]

/-- `io.ReadFull` of `k` bytes from any stack: the first `k` flat bytes and a stack carrying the rest - or, when fewer than `k`
    remain, the flat view's error if nothing at all was left and an unexpected-EOF-class error otherwise.  No mention of chunks,
    buffers or limits: the outcome is a function of the flat view. -/
theorem stackReadFull_flat (s : Stack) (k : Nat) (hi : s.Inv) :
    (k ≤ s.content.length → ∃ s', s.readFull k = .ok (s.content.take k, s') ∧ s'.Inv ∧ s'.content = s.content.drop k ∧ s'.fin = s.fin) ∧
    (¬ k ≤ s.content.length → s.readFull k = .err (if s.content.length = 0 then s.fin else .other)) := by
  have h := stackReadFullLoop_flat (s.fuel + 2) s k [] hi (Nat.le_refl _)
  simp only [List.length_nil, Nat.zero_add, Nat.sub_zero, List.nil_append] at h
  exact h

/-! ### bufio.Reader.ReadByte (through fill, which gives up after 100 empty reads) -/

theorem idle_lt : ∀ (s : Stack), s.Inv → s.idle < maxConsecutiveEmptyReads
  | .src s, hi => Nat.lt_of_le_of_lt (leadEmpty_le_max s.chunks) hi.2
  | .lim i _, hi => idle_lt i hi
  | .buf i _ pend er, hi => by
    simp only [Stack.idle]
    split
    · exact idle_lt i hi.1
    · simp [maxConsecutiveEmptyReads]

theorem fillLoop_flat : ∀ (t : Nat) (i : Stack) (sz : Nat), i.Inv → 0 < sz → i.idle < t →
    (fillLoop t i sz).2.2.Inv ∧ i.content = (fillLoop t i sz).1 ++ (fillLoop t i sz).2.2.content ∧
    (fillLoop t i sz).2.2.fin = i.fin ∧
    (∀ err, (fillLoop t i sz).2.1 = some err → err = i.fin ∧ (fillLoop t i sz).2.2.content = []) ∧
    ((fillLoop t i sz).1 = [] → ∃ err, (fillLoop t i sz).2.1 = some err)
  | 0, i, sz, _, _, h => by omega
  | t + 1, i, sz, hi, hsz, h => by
    obtain ⟨h1, h2, h3, h4, h5, h6, h7⟩ := read_law i sz hsz hi
    rw [fillLoop]
    generalize i.read sz = r at h1 h2 h3 h4 h5 h6 h7
    obtain ⟨b, e, i'⟩ := r
    simp only at h1 h2 h3 h4 h5 h6 h7 ⊢
    cases e with
    | some err =>
      simp only
      refine ⟨h1, h3, h4, ?_, fun _ => ⟨err, rfl⟩⟩
      intro err' he
      simp only [Option.some.injEq] at he
      subst he
      exact ⟨(h5 err rfl).1, (h5 err rfl).2.1⟩
    | none =>
      cases b with
      | cons c cs =>
        simp only
        refine ⟨h1, h3, h4, ?_, ?_⟩
        · intro err he; cases he
        · intro hb; cases hb
      | nil =>
        simp only
        have hid := h7 rfl rfl
        obtain ⟨g1, g2, g3, g4, g5⟩ := fillLoop_flat t i' sz h1 hsz (by omega)
        refine ⟨g1, by rw [h3, List.nil_append]; exact g2, by rw [g3, h4], ?_, g5⟩
        intro err he
        obtain ⟨a1, a2⟩ := g4 err he
        exact ⟨by rw [a1, h4], a2⟩

/-- `ReadByte` on a buffered stack: the next flat byte and a stack carrying the rest, or the flat view's error when nothing
    is left - for any chunking below (with fewer than 100 consecutive empty reads, `Stack.Inv`) -/
theorem readByte_flat (i : Stack) (sz : Nat) (pend : Bytes) (er : Option ErrClass) (hi : (Stack.buf i sz pend er).Inv) :
    ((Stack.buf i sz pend er).content = [] → (Stack.buf i sz pend er).readByte = .err (Stack.buf i sz pend er).fin) ∧
    (∀ c rest, (Stack.buf i sz pend er).content = c :: rest →
      ∃ s', (Stack.buf i sz pend er).readByte = .ok (c, s') ∧ s'.Inv ∧ s'.content = rest ∧ s'.fin = (Stack.buf i sz pend er).fin) := by
  obtain ⟨hii, hsz, her⟩ := hi
  match pend, er with
  | p :: ps, er =>
    refine ⟨by simp [Stack.content], ?_⟩
    intro c rest hc
    simp only [Stack.content, List.cons_append, List.cons.injEq] at hc
    obtain ⟨rfl, rfl⟩ := hc
    exact ⟨_, rfl, ⟨hii, hsz, her⟩, rfl, rfl⟩
  | [], some e =>
    obtain ⟨e1, e2⟩ := her e rfl
    refine ⟨fun _ => by simp [Stack.readByte, Stack.fin, e1], ?_⟩
    intro c rest hc
    simp [Stack.content, e2] at hc
  | [], none =>
    obtain ⟨g1, g2, g3, g4, g5⟩ := fillLoop_flat maxConsecutiveEmptyReads i sz hii hsz (idle_lt i hii)
    simp only [Stack.readByte]
    generalize fillLoop maxConsecutiveEmptyReads i sz = r at g1 g2 g3 g4 g5
    obtain ⟨b, e, i'⟩ := r
    simp only at g1 g2 g3 g4 g5 ⊢
    cases b with
    | nil =>
      obtain ⟨err, he⟩ := g5 rfl
      subst he
      obtain ⟨a1, a2⟩ := g4 err rfl
      simp only
      refine ⟨fun _ => by simp [Stack.fin, a1], ?_⟩
      intro c rest hc
      simp [Stack.content, g2, a2] at hc
    | cons c cs =>
      simp only
      refine ⟨fun hc => by simp [Stack.content, g2] at hc, ?_⟩
      intro c' rest hc
      simp only [Stack.content, List.nil_append, g2, List.cons_append, List.cons.injEq] at hc
      obtain ⟨rfl, rfl⟩ := hc
      refine ⟨_, rfl, ⟨g1, hsz, ?_⟩, rfl, by simp [Stack.fin, g3]⟩
      intro e' he
      obtain ⟨a1, a2⟩ := g4 e' he
      exact ⟨by rw [g3]; exact a1, a2⟩

/-! ### io.CopyN(ioutil.Discard, r, n): skipping an item -/

theorem discard_lim : ∀ (fuel : Nat) (s : Stack) (n w : Nat), s.Inv → s.fuel + 2 ≤ fuel →
    ∃ s' n', discardLoop fuel (.lim s n) w = (w + min n s.content.length, some (Stack.lim s n).fin, .lim s' n') ∧
      s'.Inv ∧ s'.content = s.content.drop (min n s.content.length) ∧ s'.fin = s.fin
  | 0, s, n, w, _, h => by omega
  | fuel + 1, s, n, w, hi, h => by
    rw [discardLoop]
    by_cases hn : n = 0
    · subst hn
      refine ⟨s, 0, ?_, hi, by simp, rfl⟩
      simp [Stack.read, Stack.fin]
    · have hm : 0 < min 8192 n := by omega
      obtain ⟨h1, h2, h3, h4, h5, h6, h7⟩ := read_law s (min 8192 n) hm hi
      simp only [Stack.read, if_neg hn]
      generalize s.read (min 8192 n) = r at h1 h2 h3 h4 h5 h6 h7
      obtain ⟨b, e, s'⟩ := r
      simp only at h1 h2 h3 h4 h5 h6 h7 ⊢
      have hlen : s.content.length = b.length + s'.content.length := by rw [h3, List.length_append]
      have hbn : b.length ≤ n := by omega
      cases e with
      | none =>
        simp only
        obtain ⟨s'', n'', g1, g2, g3, g4⟩ := discard_lim fuel s' (n - b.length) (w + b.length) h1 (by have := h6 rfl; omega)
        refine ⟨s'', n'', ?_, g2, ?_, by rw [g4, h4]⟩
        · rw [g1]
          have hfin : (Stack.lim s' (n - b.length)).fin = (Stack.lim s n).fin := by
            simp only [Stack.fin, h4, hlen]
            by_cases hc : n ≤ b.length + s'.content.length
            · rw [if_pos hc, if_pos (by omega)]
            · rw [if_neg hc, if_neg (by omega)]
          rw [hfin, hlen]
          congr 1
          omega
        · rw [g3, h3, List.drop_append]
          have hmn : min n (b ++ s'.content).length = b.length + min (n - b.length) s'.content.length := by
            rw [List.length_append]; omega
          rw [hmn, List.drop_of_length_le (by omega : b.length ≤ b.length + min (n - b.length) s'.content.length), List.nil_append]
          congr 1
          omega
      | some err =>
        simp only
        obtain ⟨e1, e2, e3⟩ := h5 err rfl
        have hc : s.content = b := by rw [h3, e2, List.append_nil]
        refine ⟨s', n - b.length, ?_, h1, ?_, h4⟩
        · have hmin : min n s.content.length = b.length := by rw [hc]; omega
          rw [hmin]
          congr 2
          simp only [Stack.fin, hc]
          by_cases hcc : n ≤ b.length
          · rw [if_pos hcc]
            have hb : b ≠ [] := by
              intro hb0; subst hb0; simp at hcc; omega
            rw [e3 hb]
          · rw [if_neg hcc, e1]
        · rw [e2, hc, List.drop_of_length_le (by omega)]

/-- `io.CopyN(ioutil.Discard, r, n)` on any stack: skips exactly `n` flat bytes when that many remain, and otherwise fails -
    with RAW io.EOF if the flat view ends in EOF (even after a partial skip), with the flat view's own error if not.
    Again a function of the flat view alone. -/
theorem copyNDiscard_flat (s : Stack) (n : Nat) (hi : s.Inv) :
    (n ≤ s.content.length → ∃ s', s.copyNDiscard n = .ok s' ∧ s'.Inv ∧ s'.content = s.content.drop n ∧ s'.fin = s.fin) ∧
    (¬ n ≤ s.content.length → s.copyNDiscard n = .err s.fin) := by
  obtain ⟨s', n', g1, g2, g3, g4⟩ := discard_lim (s.fuel + 2) s n 0 hi (Nat.le_refl _)
  simp only [Stack.copyNDiscard, g1, Nat.zero_add]
  refine ⟨fun hle => ?_, fun hn => ?_⟩
  · have hmin : min n s.content.length = n := by omega
    have hf : (Stack.lim s n).fin = .eof := by simp [Stack.fin, hle]
    rw [hf, hmin]
    simp only [if_true]
    exact ⟨s', rfl, g2, by rw [g3, hmin], g4⟩
  · have hmin : min n s.content.length = s.content.length := by omega
    have hf : (Stack.lim s n).fin = s.fin := by simp [Stack.fin, hn]
    rw [hf, hmin]
    have hne : ¬ s.content.length = n := by omega
    cases hfe : s.fin with
    | eof => simp [hne]
    | other => simp [hne]

/-! ### ReadByte of a source that is an io.ByteScanner itself -/

theorem filter_flatten (cs : List Bytes) : (cs.filter (fun c => c.length ≠ 0)).flatten = cs.flatten := by
  induction cs with
  | nil => rfl
  | cons c cs ih =>
    by_cases hc : c.length ≠ 0
    · rw [List.filter_cons_of_pos (by exact decide_eq_true hc), List.flatten_cons, List.flatten_cons, ih]
    · rw [List.filter_cons_of_neg (by simpa using hc), List.flatten_cons, ih]
      have : c = [] := by
        cases c with
        | nil => rfl
        | cons a as => simp at hc
      rw [this, List.nil_append]

theorem maxEmptyRun_filter (cs : List Bytes) : maxEmptyRun (cs.filter (fun c => c.length ≠ 0)) = 0 := by
  induction cs with
  | nil => rfl
  | cons c cs ih =>
    by_cases hc : c.length ≠ 0
    · rw [List.filter_cons_of_pos (by exact decide_eq_true hc), maxEmptyRun_cons_nonempty _ _ hc, ih]
    · rw [List.filter_cons_of_neg (by simpa using hc)]
      exact ih

theorem srcReadByte_spec : ∀ (cs : List Bytes),
    (cs.flatten = [] → srcReadByte cs = none) ∧
    (∀ c rest, cs.flatten = c :: rest → ∃ cs', srcReadByte cs = some (c, cs') ∧ cs'.flatten = rest ∧ maxEmptyRun cs' = 0)
  | [] => ⟨fun _ => rfl, fun c rest h => by simp at h⟩
  | [] :: cs => by
    obtain ⟨h1, h2⟩ := srcReadByte_spec cs
    refine ⟨fun h => ?_, fun c rest h => ?_⟩
    · rw [srcReadByte]; exact h1 (by simpa using h)
    · rw [srcReadByte]; exact h2 c rest (by simpa using h)
  | (b :: bs) :: cs => by
    refine ⟨fun h => by simp at h, fun c rest h => ?_⟩
    simp only [List.flatten_cons, List.cons_append, List.cons.injEq] at h
    obtain ⟨rfl, rfl⟩ := h
    exact ⟨_, rfl, by rw [filter_flatten]; simp, maxEmptyRun_filter _⟩

theorem srcReadByte_flat (s : Src) (hi : (Stack.src s).Inv) :
    ((Stack.src s).content = [] → (Stack.src s).readByte = .err (Stack.src s).fin) ∧
    (∀ c rest, (Stack.src s).content = c :: rest →
      ∃ s', (Stack.src s).readByte = .ok (c, s') ∧ s'.Inv ∧ s'.content = rest ∧ s'.fin = (Stack.src s).fin) := by
  obtain ⟨h1, h2⟩ := srcReadByte_spec s.chunks
  refine ⟨fun hc => ?_, fun c rest hc => ?_⟩
  · simp only [Stack.readByte, h1 hc]; rfl
  · obtain ⟨cs', e1, e2, e3⟩ := h2 c rest hc
    refine ⟨.src { s with chunks := cs' }, by simp only [Stack.readByte, e1], ⟨hi.1, ?_⟩, e2, rfl⟩
    show maxEmptyRun cs' < _
    rw [e3]; simp [maxConsecutiveEmptyReads]

/-! ### histories: every state a stack can get into through the Decoder's primitives -/

/-- `Reach s t`: `t` is what `s` has become after some sequence of `Read` calls (any sizes) and successful `ReadByte` calls on it -/
inductive Reach : Stack → Stack → Prop
  | refl (s : Stack) : Reach s s
  | read {s t : Stack} (k : Nat) (hk : 0 < k) : Reach s t → Reach s (t.read k).2.2
  | byte {s t t' : Stack} {c : UInt8} : Reach s t → t.readByte = .ok (c, t') → Reach s t'

theorem Reach.trans {a b c : Stack} (h1 : Reach a b) (h2 : Reach b c) : Reach a c := by
  induction h2 with
  | refl => exact h1
  | read k hk _ ih => exact Reach.read k hk ih
  | byte _ hb ih => exact Reach.byte ih hb

/-- `fill` only reads the layer below -/
theorem fillLoop_reach : ∀ (t : Nat) (i : Stack) (sz : Nat), 0 < sz → Reach i (fillLoop t i sz).2.2
  | 0, i, _, _ => Reach.refl i
  | t + 1, i, sz, hsz => by
    rw [fillLoop]
    have h1 : Reach i (i.read sz).2.2 := Reach.read sz hsz (Reach.refl i)
    generalize i.read sz = r at h1
    obtain ⟨b, e, i'⟩ := r
    cases e with
    | some err => exact h1
    | none =>
      cases b with
      | cons c cs => exact h1
      | nil => exact Reach.trans h1 (fillLoop_reach t i' sz hsz)

/-- one step of a buffered layer moves the layer below along its own history -/
theorem buf_read_shape (i : Stack) (sz : Nat) (p : Bytes) (e : Option ErrClass) (k : Nat) (hk : 0 < k) (hsz : 0 < sz) :
    ∃ i' p' e', ((Stack.buf i sz p e).read k).2.2 = .buf i' sz p' e' ∧ Reach i i' := by
  match p, e with
  | c :: cs, e => exact ⟨i, _, e, rfl, Reach.refl i⟩
  | [], some e => exact ⟨i, [], none, rfl, Reach.refl i⟩
  | [], none =>
    simp only [Stack.read]
    by_cases hd : sz ≤ k
    · rw [if_pos hd]; exact ⟨_, [], none, rfl, Reach.read k hk (Reach.refl i)⟩
    · rw [if_neg hd]
      split
      · exact ⟨_, [], none, rfl, Reach.read sz hsz (Reach.refl i)⟩
      · exact ⟨_, _, _, rfl, Reach.read sz hsz (Reach.refl i)⟩

theorem buf_byte_shape (i : Stack) (sz : Nat) (p : Bytes) (e : Option ErrClass) (c : UInt8) (t' : Stack) (hsz : 0 < sz)
    (h : (Stack.buf i sz p e).readByte = .ok (c, t')) : ∃ i' p' e', t' = .buf i' sz p' e' ∧ Reach i i' := by
  match p, e with
  | x :: xs, e =>
    simp only [Stack.readByte, Outcome.ok.injEq, Prod.mk.injEq] at h
    exact ⟨i, xs, e, h.2.symm, Reach.refl i⟩
  | [], some e => simp [Stack.readByte] at h
  | [], none =>
    have hr := fillLoop_reach maxConsecutiveEmptyReads i sz hsz
    simp only [Stack.readByte] at h
    generalize fillLoop maxConsecutiveEmptyReads i sz = r at h hr
    obtain ⟨b, e', i'⟩ := r
    cases b with
    | nil => cases e' <;> simp at h
    | cons x xs =>
      simp only [Outcome.ok.injEq, Prod.mk.injEq] at h
      exact ⟨i', xs, e', h.2.symm, hr⟩

/-- a buffered layer stays a buffered layer of the same size, over a later state of the layer below -/
theorem reach_buf {i : Stack} {sz : Nat} {p : Bytes} {e : Option ErrClass} {u : Stack} (hsz : 0 < sz)
    (h : Reach (.buf i sz p e) u) : ∃ i' p' e', u = .buf i' sz p' e' ∧ Reach i i' := by
  induction h with
  | refl => exact ⟨i, p, e, rfl, Reach.refl i⟩
  | read k hk _ ih =>
    obtain ⟨i1, p1, e1, rfl, r1⟩ := ih
    obtain ⟨i2, p2, e2, h2, r2⟩ := buf_read_shape i1 sz p1 e1 k hk hsz
    exact ⟨i2, p2, e2, h2, Reach.trans r1 r2⟩
  | byte _ hb ih =>
    obtain ⟨i1, p1, e1, rfl, r1⟩ := ih
    obtain ⟨i2, p2, e2, h2, r2⟩ := buf_byte_shape i1 sz p1 e1 _ _ hsz hb
    exact ⟨i2, p2, e2, h2, Reach.trans r1 r2⟩

/-- a bare source stays a bare source -/
theorem reach_src {s : Src} {u : Stack} (h : Reach (.src s) u) : ∃ s', u = .src s' := by
  induction h with
  | refl => exact ⟨s, rfl⟩
  | read k hk _ ih =>
    obtain ⟨s1, rfl⟩ := ih
    exact ⟨_, rfl⟩
  | byte _ hb ih =>
    obtain ⟨s1, rfl⟩ := ih
    simp only [Stack.readByte] at hb
    split at hb
    · simp only [Outcome.ok.injEq, Prod.mk.injEq] at hb
      exact ⟨_, hb.2.symm⟩
    · cases hb

/-- histories preserve the invariant and only ever consume a prefix of the flat content -/
theorem reach_law {s t : Stack} (h : Reach s t) (hi : s.Inv) :
    t.Inv ∧ (∃ x, s.content = x ++ t.content) ∧ t.fin = s.fin := by
  induction h with
  | refl => exact ⟨hi, ⟨[], rfl⟩, rfl⟩
  | @read t k hk _ ih =>
    obtain ⟨g1, ⟨x, g2⟩, g3⟩ := ih
    obtain ⟨h1, _, h3, h4, _⟩ := read_law t k hk g1
    exact ⟨h1, ⟨x ++ (t.read k).1, by rw [g2, h3, List.append_assoc]⟩, by rw [h4, g3]⟩
  | @byte t t' c _ hb ih =>
    obtain ⟨g1, ⟨x, g2⟩, g3⟩ := ih
    match t, g1, hb with
    | .buf i sz p e, g1, hb =>
      obtain ⟨f1, f2⟩ := readByte_flat i sz p e g1
      cases hc : (Stack.buf i sz p e).content with
      | nil => rw [f1 hc] at hb; cases hb
      | cons c' rest =>
        obtain ⟨s', e1, e2, e3, e4⟩ := f2 c' rest hc
        rw [e1] at hb
        simp only [Outcome.ok.injEq, Prod.mk.injEq] at hb
        obtain ⟨rfl, rfl⟩ := hb
        exact ⟨e2, ⟨x ++ [c'], by rw [g2, hc, e3]; simp⟩, by rw [e4, g3]⟩
    | .src s0, g1, hb =>
      obtain ⟨f1, f2⟩ := srcReadByte_flat s0 g1
      cases hc : (Stack.src s0).content with
      | nil => rw [f1 hc] at hb; cases hb
      | cons c' rest =>
        obtain ⟨s', e1, e2, e3, e4⟩ := f2 c' rest hc
        rw [e1] at hb
        simp only [Outcome.ok.injEq, Prod.mk.injEq] at hb
        obtain ⟨rfl, rfl⟩ := hb
        exact ⟨e2, ⟨x ++ [c'], by rw [g2, hc, e3]; simp⟩, by rw [e4, g3]⟩
    | .lim _ _, _, hb => simp [Stack.readByte] at hb

/-- a limited layer stays a limited layer over a later state of the layer below, and its count goes down by exactly what the
    layer below handed out -/
theorem reach_lim {s : Stack} {n : Nat} {u : Stack} (h : Reach (.lim s n) u) (hi : s.Inv) :
    ∃ s' n' x, u = .lim s' n' ∧ Reach s s' ∧ s'.Inv ∧ s.content = x ++ s'.content ∧ n' + x.length = n ∧ s'.fin = s.fin := by
  induction h with
  | refl => exact ⟨s, n, [], rfl, Reach.refl s, hi, rfl, rfl, rfl⟩
  | read k hk _ ih =>
    obtain ⟨s1, n1, x, rfl, r1, i1, c1, l1, f1⟩ := ih
    by_cases hn : n1 = 0
    · subst hn
      exact ⟨s1, 0, x, by simp [Stack.read], r1, i1, c1, l1, f1⟩
    · have hm : 0 < min k n1 := by omega
      obtain ⟨h1, h2, h3, h4, _⟩ := read_law s1 (min k n1) hm i1
      refine ⟨(s1.read (min k n1)).2.2, n1 - (s1.read (min k n1)).1.length, x ++ (s1.read (min k n1)).1, ?_,
        Reach.trans r1 (Reach.read _ hm (Reach.refl s1)), h1, by rw [c1, h3, List.append_assoc], ?_, by rw [h4, f1]⟩
      · simp [Stack.read, hn]
      · rw [List.length_append]; omega
  | byte _ hb ih =>
    obtain ⟨s1, n1, x, rfl, _⟩ := ih
    simp [Stack.readByte] at hb

/-- `io.ReadFull` and `io.CopyN(Discard)` are sequences of `Read` calls -/
theorem readFullLoop_reach : ∀ (fuel : Nat) (s : Stack) (k : Nat) (acc b : Bytes) (s' : Stack),
    Stack.readFullLoop fuel s k acc = .ok (b, s') → Reach s s'
  | 0, s, k, acc, b, s', h => by simp [Stack.readFullLoop] at h
  | fuel + 1, s, k, acc, b, s', h => by
    rw [Stack.readFullLoop] at h
    by_cases hk : k ≤ acc.length
    · rw [if_pos hk] at h
      simp only [Outcome.ok.injEq, Prod.mk.injEq] at h
      rw [← h.2]; exact Reach.refl s
    · rw [if_neg hk] at h
      have hpos : 0 < k - acc.length := by omega
      have hr : Reach s (s.read (k - acc.length)).2.2 := Reach.read _ hpos (Reach.refl s)
      generalize s.read (k - acc.length) = r at h hr
      obtain ⟨b', e, s1⟩ := r
      cases e with
      | none => exact Reach.trans hr (readFullLoop_reach fuel s1 k _ b s' h)
      | some err =>
        simp only at h
        split at h
        · simp only [Outcome.ok.injEq, Prod.mk.injEq] at h
          rw [← h.2]; exact hr
        · cases h

theorem readFull_reach (s : Stack) (k : Nat) (b : Bytes) (s' : Stack) (h : s.readFull k = .ok (b, s')) : Reach s s' :=
  readFullLoop_reach _ s k [] b s' h

theorem discardLoop_reach : ∀ (fuel : Nat) (t : Stack) (w : Nat), Reach t (discardLoop fuel t w).2.2
  | 0, t, _ => Reach.refl t
  | fuel + 1, t, w => by
    rw [discardLoop]
    have hr : Reach t (t.read 8192).2.2 := Reach.read 8192 (by omega) (Reach.refl t)
    generalize t.read 8192 = r at hr
    obtain ⟨b, e, t1⟩ := r
    cases e with
    | none => exact Reach.trans hr (discardLoop_reach fuel t1 _)
    | some err => exact hr

theorem copyNDiscard_reach (s : Stack) (n : Nat) (s' : Stack) (hi : s.Inv) (h : s.copyNDiscard n = .ok s') : Reach s s' := by
  have hr := discardLoop_reach (s.fuel + 2) (.lim s n) 0
  obtain ⟨s1, n1, x, hu, r1, _⟩ := reach_lim hr hi
  unfold Stack.copyNDiscard at h
  generalize discardLoop (s.fuel + 2) (.lim s n) 0 = r at h hu
  obtain ⟨w, e, u⟩ := r
  simp only at hu
  subst hu
  match e, h with
  | some .eof, h =>
    simp only at h
    split at h
    · simp only [Outcome.ok.injEq] at h; rw [← h]; exact r1
    · cases h
  | some .other, h =>
    simp only at h
    split at h
    · simp only [Outcome.ok.injEq] at h; rw [← h]; exact r1
    · cases h
  | none, h => simp at h

/-- **Leaving a nested structure.**  `NewDecoder(io.LimitReader(d.r, n0))` is put on a stack `s0` that still carries at least `n0`
    bytes; the nested decoder works on it in any way (any reads, any chunking below, any read-ahead of its bufio); once the
    nested stack carries nothing more, the stack underneath has advanced by EXACTLY `n0` flat bytes - nothing is lost in the
    nested buffer, nothing beyond the structure was touched. -/
theorem nested_pop (s0 : Stack) (n0 : Nat) (t : Stack) (hi : s0.Inv) (hr : Reach (s0.nested n0) t)
    (hn : n0 ≤ s0.content.length) (hc : t.content = []) :
    ∃ s' e, t = .buf (.lim s' 0) 4096 [] e ∧ Reach s0 s' ∧ s'.Inv ∧ s'.content = s0.content.drop n0 ∧ s'.fin = s0.fin := by
  obtain ⟨i', p', e', rfl, ri⟩ := reach_buf (by omega) hr
  obtain ⟨s', n', x, rfl, rs, is', cs, ln, fs⟩ := reach_lim ri hi
  simp only [Stack.content, List.append_eq_nil_iff] at hc
  obtain ⟨hp, ht⟩ := hc
  subst hp
  have hlen : s0.content.length = x.length + s'.content.length := by rw [cs, List.length_append]
  have hn0 : n' = 0 := by
    cases hn' : n' with
    | zero => rfl
    | succ m =>
      have : s'.content = [] := by
        cases hcs : s'.content with
        | nil => rfl
        | cons a as => rw [hn', hcs] at ht; simp at ht
      rw [this] at hlen
      simp at hlen
      omega
  subst hn0
  refine ⟨s', e', rfl, rs, is', ?_, fs⟩
  rw [cs, List.drop_append, List.drop_of_length_le (by omega), List.nil_append]
  have : n0 - x.length = 0 := by omega
  rw [this, List.drop_zero]

/-- what the nested decoder sees: exactly the first `n0` flat bytes, ending in EOF when the structure is complete -/
theorem nested_view (s0 : Stack) (n0 : Nat) (hi : s0.Inv) :
    (s0.nested n0).Inv ∧ (s0.nested n0).content = s0.content.take n0 ∧
    (n0 ≤ s0.content.length → (s0.nested n0).fin = .eof) := by
  refine ⟨⟨hi, by omega, by intro e h; cases h⟩, by simp [Stack.nested, Stack.content], ?_⟩
  intro h
  simp [Stack.nested, Stack.fin, h]

end Kmip.Io
