import KmipProofs.DecodeSlice
/-
  One field of the field loop against the specification's field matcher, generically in the field's value reader.
-/
namespace Kmip

theorem peekTag_wf (dd : Dec) (hw : dd.Wf) : peekTag dd = peekTag ⟨dd.view, dd.fin, 0⟩ := by
  rw [← peekTag_norm dd hw]; rfl

theorem readSkip_wf (dd : Dec) (hw : dd.Wf) (tag : Nat) : readSkip dd tag = readSkip ⟨dd.view, dd.fin, 0⟩ tag := by
  rw [← readSkip_norm dd hw]; rfl

theorem view_nil_norm (dd : Dec) (hw : dd.Wf) (h : dd.view = []) : dd.last = 0 ∧ dd.win = [] := by
  unfold Dec.view at h
  by_cases h0 : dd.last = 0
  · simp [h0] at h; exact ⟨h0, h⟩
  · simp only [h0, if_false] at h
    have : (be 3 dd.last ++ dd.win).length = 0 := by rw [h]; rfl
    simp [be_length] at this

section
variable (name : String) (tag : Nat) (required slice skip : Bool) (ty : FTy) (prev : List FV)
variable (hV : ValueSpec (decValue tag prev ty) (specValue tag prev ty))
include hV

/-- one field never gains bytes -/
theorem decField_mono (E : Nat) (dd : Dec) (n : Nat) (fv : FV) (n1 : Nat) (d1 : Dec) (hw : dd.Wf)
    (h : decField (.mk name tag required slice skip ty) E dd n prev = .ok (fv, n1, d1)) :
    d1.Wf ∧ d1.fin = dd.fin ∧ n1 + d1.vlen ≤ n + dd.vlen := by
  simp only [decField] at h
  rw [peekTag_wf dd hw] at h
  cases hp : peekTag ⟨dd.view, dd.fin, 0⟩ with
  | err e =>
    rw [hp] at h
    simp only at h
    split at h
    · simp only [Outcome.ok.injEq, Prod.mk.injEq] at h
      obtain ⟨_, e2, e3⟩ := h
      subst e2 e3
      exact ⟨hw, rfl, by omega⟩
    · simp at h
  | panic s => rw [hp] at h; simp at h
  | ok x =>
    obtain ⟨t, dd1⟩ := x
    rw [hp] at h
    simp only at h
    obtain ⟨hw1, hf1, _, _, _, _, hle1⟩ := peek_after dd.view dd.fin t dd1 hp
    have hle1' : dd1.vlen ≤ dd.vlen := hle1
    by_cases hskipopt : required = false ∧ t ≠ tag ∧ tag ≠ anyTag
    · rw [if_pos hskipopt] at h
      simp only [Outcome.ok.injEq, Prod.mk.injEq] at h
      obtain ⟨_, e2, e3⟩ := h
      subst e2 e3
      exact ⟨hw1, hf1, by omega⟩
    · rw [if_neg hskipopt] at h
      by_cases hsk : skip = true
      · rw [if_pos hsk, Outcome.bind_eq_ok] at h
        obtain ⟨⟨nn, dd2⟩, hs, h⟩ := h
        rw [wrap_eq_ok, readSkip_wf dd1 hw1] at hs
        obtain ⟨r', _, hd2, hn⟩ := (readSkip_iff _ _ _ _ _).mp hs
        simp only [Outcome.ok.injEq, Prod.mk.injEq] at h
        obtain ⟨_, e2, e3⟩ := h
        subst e2 e3 hd2
        refine ⟨by simp [Dec.Wf], hf1, ?_⟩
        rw [vlen_mk_zero]
        have : dd1.view.length = dd1.vlen := rfl
        omega
      · rw [if_neg hsk] at h
        by_cases hsl : slice = true
        · rw [if_pos hsl, Outcome.bind_eq_ok] at h
          obtain ⟨⟨vs, n', dd2⟩, hs, h⟩ := h
          simp only [Outcome.ok.injEq, Prod.mk.injEq] at h
          obtain ⟨_, e2, e3⟩ := h
          subst e2 e3
          obtain ⟨hw2, hf2, hle2⟩ := sliceLoop_mono hV tag E _ dd1 n vs _ _ hw1 hs
          exact ⟨hw2, by rw [hf2, hf1], by omega⟩
        · rw [if_neg hsl, Outcome.bind_eq_ok] at h
          obtain ⟨⟨v, nn, dd2⟩, hs, h⟩ := h
          rw [wrap_eq_ok] at hs
          obtain ⟨r', _, hd2, hn⟩ := hV.step_ok dd1 hw1 v nn dd2 hs
          subst hd2
          have hres : n1 = n + nn ∧ d1 = ⟨r', dd1.fin, 0⟩ := by
            cases ty <;> simp only [Outcome.ok.injEq, Prod.mk.injEq] at h <;> exact ⟨h.2.1.symm, h.2.2.symm⟩
          obtain ⟨e2, e3⟩ := hres
          subst e2 e3
          refine ⟨by simp [Dec.Wf], hf1, ?_⟩
          rw [vlen_mk_zero]; omega

/-- soundness of one field: if the step stays in sync (no byte lost), it is the specification's step -/
theorem decField_sound (E : Nat) (hE : E < two32) (dd : Dec) (n : Nat) (fv : FV) (n1 : Nat) (d1 : Dec) (hw : dd.Wf)
    (hfin : dd.fin = .eof) (hsync : n + dd.vlen = E)
    (h : decField (.mk name tag required slice skip ty) E dd n prev = .ok (fv, n1, d1)) (hend : n1 + d1.vlen = E) :
    specField (.mk name tag required slice skip ty) dd.view prev = some (fv, d1.view) := by
  simp only [decField] at h
  rw [peekTag_wf dd hw] at h
  simp only [specField]
  cases hp : peekTag ⟨dd.view, dd.fin, 0⟩ with
  | err e =>
    rw [hp] at h
    simp only at h
    obtain ⟨hlt, he0, hne⟩ := peekTag_zero_err dd.view dd.fin e hp
    split at h
    · rename_i hc
      simp only [Outcome.ok.injEq, Prod.mk.injEq] at h
      obtain ⟨e1, e2, e3⟩ := h
      subst e1 e2 e3
      -- raw EOF means nothing at all was left
      have hnil : dd.view = [] := by
        by_cases hv : dd.view = []
        · exact hv
        · have := hne hv; rw [this] at hc; simp at hc
      simp [hnil, hc.2]
    · simp at h
  | panic s => rw [hp] at h; simp at h
  | ok x =>
    obtain ⟨t, dd1⟩ := x
    rw [hp] at h
    simp only at h
    obtain ⟨hw1, hf1, hh, h3, hv1, hv0, hle1⟩ := peek_after dd.view dd.fin t dd1 hp
    have hvne : dd.view ≠ [] := by intro hc; rw [hc] at h3; simp at h3
    simp only [hvne, if_false, hh, Option.bind_some]
    have hmono := decField_mono name tag required slice skip ty prev hV E dd n fv n1 d1 hw (by
      simp only [decField]; rw [peekTag_wf dd hw, hp]; exact h)
    -- a peeked 000000 tag loses three bytes: the step cannot end in sync
    have ht0 : t ≠ 0 := by
      intro h0
      have hl := hv0 h0
      have hvl : dd.view.length = dd.vlen := rfl
      -- every branch below consumes from dd1, whose logical length is three short
      by_cases hskipopt : required = false ∧ t ≠ tag ∧ tag ≠ anyTag
      · rw [if_pos hskipopt] at h
        simp only [Outcome.ok.injEq, Prod.mk.injEq] at h
        obtain ⟨_, e2, e3⟩ := h
        subst e2 e3; omega
      · rw [if_neg hskipopt] at h
        by_cases hsk : skip = true
        · rw [if_pos hsk, Outcome.bind_eq_ok] at h
          obtain ⟨⟨nn, dd2⟩, hs, h⟩ := h
          rw [wrap_eq_ok, readSkip_wf dd1 hw1] at hs
          obtain ⟨r', _, hd2, hn⟩ := (readSkip_iff _ _ _ _ _).mp hs
          simp only [Outcome.ok.injEq, Prod.mk.injEq] at h
          obtain ⟨_, e2, e3⟩ := h
          subst e2 e3 hd2
          rw [vlen_mk_zero] at hend
          have : dd1.view.length = dd1.vlen := rfl
          omega
        · rw [if_neg hsk] at h
          by_cases hsl : slice = true
          · rw [if_pos hsl, Outcome.bind_eq_ok] at h
            obtain ⟨⟨vs, n', dd2⟩, hs, h⟩ := h
            simp only [Outcome.ok.injEq, Prod.mk.injEq] at h
            obtain ⟨_, e2, e3⟩ := h
            subst e2 e3
            have := (sliceLoop_mono hV tag E _ dd1 n vs _ _ hw1 hs).2.2
            omega
          · rw [if_neg hsl, Outcome.bind_eq_ok] at h
            obtain ⟨⟨v, nn, dd2⟩, hs, h⟩ := h
            rw [wrap_eq_ok] at hs
            obtain ⟨r', _, hd2, hn⟩ := hV.step_ok dd1 hw1 v nn dd2 hs
            subst hd2
            have hres : n1 = n + nn ∧ d1 = ⟨r', dd1.fin, 0⟩ := by
              cases ty <;> simp only [Outcome.ok.injEq, Prod.mk.injEq] at h <;> exact ⟨h.2.1.symm, h.2.2.symm⟩
            obtain ⟨e2, e3⟩ := hres
            subst e2 e3
            rw [vlen_mk_zero] at hend
            omega
    have hv := hv1 ht0
    simp only [ht0, if_false]
    by_cases hskipopt : required = false ∧ t ≠ tag ∧ tag ≠ anyTag
    · rw [if_pos hskipopt] at h
      simp only [Outcome.ok.injEq, Prod.mk.injEq] at h
      obtain ⟨e1, e2, e3⟩ := h
      subst e1 e2 e3
      simp [hskipopt, hv]
    · rw [if_neg hskipopt] at h
      simp only [hskipopt, if_false]
      by_cases hsk : skip = true
      · rw [if_pos hsk, Outcome.bind_eq_ok] at h
        obtain ⟨⟨nn, dd2⟩, hs, h⟩ := h
        rw [wrap_eq_ok, readSkip_wf dd1 hw1, hv] at hs
        obtain ⟨r', hsp, hd2, hn⟩ := (readSkip_iff _ _ _ _ _).mp hs
        simp only [Outcome.ok.injEq, Prod.mk.injEq] at h
        obtain ⟨e1, e2, e3⟩ := h
        subst e1 e2 e3 hd2
        rw [if_pos hsk, hsp]; simp [view_mk_zero]
      · rw [if_neg hsk] at h
        simp only [hsk, if_false]
        by_cases hsl : slice = true
        · rw [if_pos hsl, Outcome.bind_eq_ok] at h
          obtain ⟨⟨vs, n', dd2⟩, hs, h⟩ := h
          simp only [Outcome.ok.injEq, Prod.mk.injEq] at h
          obtain ⟨e1, e2, e3⟩ := h
          subst e1 e2 e3
          have hsync1 : n + dd1.vlen = E := by rw [Dec.vlen, hv]; exact hsync
          have hfuel : dd1.win.length + 3 = dd.view.length := by
            obtain ⟨_, _, hd, _⟩ := peekTag_zero_last dd.view dd.fin t dd1 hp
            rw [hd]; simp; omega
          rw [hfuel] at hs
          have := sliceLoop_sound hV tag E hE _ dd1 n vs _ _ hw1 hsync1 hs hend
          rw [hv] at this
          simp [hsl, this]
        · rw [if_neg hsl, Outcome.bind_eq_ok] at h
          simp only [hsl, if_false]
          obtain ⟨⟨v, nn, dd2⟩, hs, h⟩ := h
          rw [wrap_eq_ok] at hs
          obtain ⟨r', hsp, hd2, hn⟩ := hV.step_ok dd1 hw1 v nn dd2 hs
          subst hd2
          rw [hv] at hsp
          simp only [hsp, Option.bind_some]
          cases ty <;> simp only [Outcome.ok.injEq, Prod.mk.injEq] at h <;>
            (obtain ⟨e1, e2, e3⟩ := h; subst e1 e2 e3; simp [Dec.view])

/-- completeness of one field: whatever the specification's field matcher does in sync, the decoder's step does, with the exact count -/
theorem decField_complete (E : Nat) (hE : E < two32) (dd : Dec) (n : Nat) (fv : FV) (r1 : Bytes) (hw : dd.Wf)
    (hfin : dd.fin = .eof) (hsync : n + dd.vlen = E)
    (h : specField (.mk name tag required slice skip ty) dd.view prev = some (fv, r1)) :
    ∃ d1, decField (.mk name tag required slice skip ty) E dd n prev = .ok (fv, E - r1.length, d1) ∧
      d1.view = r1 ∧ d1.Wf ∧ d1.fin = .eof ∧ r1.length ≤ E := by
  simp only [specField] at h
  simp only [decField]
  rw [peekTag_wf dd hw]
  have hvl : dd.view.length = dd.vlen := rfl
  by_cases hnil : dd.view = []
  · rw [if_pos hnil] at h
    by_cases hr : required = true
    · simp [hr] at h
    · have hr' : required = false := by simpa using hr
      simp only [hr', Bool.false_eq_true, if_false, Option.some.injEq, Prod.mk.injEq] at h
      obtain ⟨e1, e2⟩ := h
      subst e1 e2
      rw [hnil, peekTag_eval]
      simp only [List.length_nil, Nat.not_succ_le_zero, if_false, if_true, hfin, Fin.err]
      have hl : dd.vlen = 0 := by rw [Dec.vlen, hnil]; rfl
      refine ⟨dd, ?_, hnil, hw, hfin, by simp⟩
      simp [hr']; omega
  · rw [if_neg hnil, Option.bind_eq_some_iff] at h
    obtain ⟨t, hh, h⟩ := h
    obtain ⟨dd1, hp, hw1, hf1, hv⟩ := peek_of_head dd.view dd.fin t hh
    rw [hp]
    simp only
    by_cases h0 : t = 0
    · simp [h0] at h
    · rw [if_neg h0] at h
      have hv1 := hv h0
      have hvl1 : dd1.vlen = dd.vlen := by rw [Dec.vlen, hv1]; rfl
      by_cases hskipopt : required = false ∧ t ≠ tag ∧ tag ≠ anyTag
      · rw [if_pos hskipopt] at h
        simp only [Option.some.injEq, Prod.mk.injEq] at h
        obtain ⟨e1, e2⟩ := h
        subst e1 e2
        rw [if_pos hskipopt]
        exact ⟨dd1, by simp; omega, hv1, hw1, by rw [hf1, hfin], by omega⟩
      · rw [if_neg hskipopt] at h
        rw [if_neg hskipopt]
        by_cases hsk : skip = true
        · rw [if_pos hsk, Option.bind_eq_some_iff] at h
          obtain ⟨r', hsp, h⟩ := h
          simp only [Option.some.injEq, Prod.mk.injEq] at h
          obtain ⟨e1, e2⟩ := h
          subst e1 e2
          rw [if_pos hsk, readSkip_wf dd1 hw1, hv1]
          have hsk' := (readSkip_iff dd.view dd1.fin tag (dd.view.length - r'.length) ⟨r', dd1.fin, 0⟩).mpr
          have hle : r'.length ≤ dd.view.length := by
            -- specSkip consumes at least its header
            unfold specSkip at hsp
            rw [cutItem_eq] at hsp
            cases hc : cutHeader dd.view with
            | none => rw [hc] at hsp; simp at hsp
            | some x =>
              obtain ⟨t', ty', l, body⟩ := x
              rw [hc] at hsp
              have hb := (cutHeader_some dd.view t' ty' l body hc).2.2.2.2.2
              simp only at hsp
              by_cases hfit : l + padLen l ≤ body.length
              · rw [if_pos hfit] at hsp
                simp only [Option.bind_some] at hsp
                split at hsp
                · simp at hsp; subst hsp; simp; omega
                · simp at hsp
              · rw [if_neg hfit] at hsp; simp at hsp
          rw [hsk' ⟨r', hsp, rfl, by omega⟩]
          simp only [Outcome.wrap, Outcome.bind_ok]
          refine ⟨⟨r', dd1.fin, 0⟩, ?_, by simp [Dec.view], by simp [Dec.Wf], by rw [hf1, hfin], by omega⟩
          simp; omega
        · rw [if_neg hsk] at h
          rw [if_neg hsk]
          by_cases hsl : slice = true
          · rw [if_pos hsl, Option.bind_eq_some_iff] at h
            obtain ⟨⟨vs, r'⟩, hsp, h⟩ := h
            simp only [Option.some.injEq, Prod.mk.injEq] at h
            obtain ⟨e1, e2⟩ := h
            subst e1 e2
            rw [if_pos hsl]
            have hfuel : dd1.win.length + 3 = dd.view.length := by
              obtain ⟨h3, _, hd, _⟩ := peekTag_zero_last dd.view dd.fin t dd1 hp
              rw [hd]; simp; omega
            rw [hfuel]
            rw [← hv1] at hsp
            have hsync1 : n + dd1.vlen = E := by omega
            obtain ⟨d2, hl, hv2, hw2, hf2, hle⟩ := sliceLoop_complete hV tag E hE _ dd1 n vs r' hw1 hsync1 (by rw [hv1] at hsp ⊢; exact hsp)
            rw [hl]
            exact ⟨d2, by simp, hv2, hw2, by rw [hf2, hf1, hfin], hle⟩
          · rw [if_neg hsl, Option.bind_eq_some_iff] at h
            rw [if_neg hsl]
            obtain ⟨⟨v, r'⟩, hsp, h⟩ := h
            rw [← hv1] at hsp
            obtain ⟨hs, hl⟩ := hV.step_of_elem dd1 hw1 v r' hsp
            rw [hs]
            simp only [Outcome.wrap, Outcome.bind_ok]
            have hcount : n + (dd1.vlen - r'.length) = E - r'.length := by omega
            cases ty <;> simp only [Option.some.injEq, Prod.mk.injEq] at h <;>
              (obtain ⟨e1, e2⟩ := h; subst e1 e2
               exact ⟨⟨r', dd1.fin, 0⟩, by simp [hcount], by simp [Dec.view], by simp [Dec.Wf], by rw [hf1, hfin], by omega⟩)

end

end Kmip
