import KmipModel.DecodeCost
/-
  The allocation of Decode is linear in the bytes available (C05), proved on the cost semantics of KmipModel/DecodeCost.lean.

  Invariant carried along decode.go's recursion, for every reader function `f` with its cost `c`:

        c d  +  A · rem (f d)  ≤  A · phi d

  `phi d` = the bytes the decoder `d` can still obtain, `rem` = the same for the decoder an outcome hands on (0 after a failure:
  nothing is decoded after it).  Every allocation is paid for by bytes that were obtained from the input at that very place -
  the 8 header bytes of a structure pay for its nested Decoder, the payload bytes of a string for its buffers - and a declared
  length pays for nothing.
-/
namespace Kmip.Cost
open Kmip

/-- what an outcome leaves for later: the potential of the decoder it hands on -/
def rem1 {α : Type} : Outcome (α × Dec) → Nat
  | .ok a => phi a.2
  | _ => 0

def rem2 {α β : Type} : Outcome (α × β × Dec) → Nat
  | .ok a => phi a.2.2
  | _ => 0

def rem0 : Outcome Dec → Nat
  | .ok a => phi a
  | _ => 0

/-! ### the primitive readers: how much of the potential each one uses -/

theorem readFull_phi {d : Dec} {k : Nat} {b : Bytes} {d' : Dec} (h : readFull d k = .ok (b, d')) :
    phi d' + k = phi d ∧ d'.last = d.last := by
  unfold readFull at h
  split at h
  · rename_i hk
    simp only [Outcome.ok.injEq, Prod.mk.injEq] at h
    obtain ⟨_, rfl⟩ := h
    refine ⟨?_, rfl⟩
    simp only [phi, List.length_drop]
    omega
  · split at h <;> simp at h

theorem readByte_phi {d : Dec} {t : Nat} {d' : Dec} (h : readByte d = .ok (t, d')) :
    phi d' + 1 = phi d ∧ d'.last = d.last := by
  unfold readByte at h
  split at h
  · simp at h
  · rename_i b rest hw
    simp only [Outcome.ok.injEq, Prod.mk.injEq] at h
    obtain ⟨_, rfl⟩ := h
    refine ⟨?_, rfl⟩
    simp only [phi, hw, List.length_cons]
    omega

theorem internalReadTag_phi {d : Dec} {t : Nat} {d' : Dec} (h : internalReadTag d = .ok (t, d')) :
    phi d' + 3 = phi d ∧ d'.last = d.last := by
  unfold internalReadTag at h
  rw [Outcome.bind_eq_ok] at h
  obtain ⟨⟨b, d1⟩, h1, h2⟩ := h
  simp only [Outcome.ok.injEq, Prod.mk.injEq] at h2
  obtain ⟨_, rfl⟩ := h2
  exact readFull_phi h1

theorem readTag_phi {d : Dec} {t : Nat} {d' : Dec} (h : readTag d = .ok (t, d')) :
    phi d' + 3 = phi d ∧ d'.last = 0 := by
  unfold readTag at h
  split at h
  · rename_i hl
    simp only [Outcome.ok.injEq, Prod.mk.injEq] at h
    obtain ⟨_, rfl⟩ := h
    simp [phi, hl]
  · rename_i hl
    have hl0 : d.last = 0 := by simpa using hl
    obtain ⟨h1, h2⟩ := internalReadTag_phi h
    exact ⟨h1, by rw [h2, hl0]⟩

theorem peekTag_phi {d : Dec} {t : Nat} {d' : Dec} (h : peekTag d = .ok (t, d')) : phi d' ≤ phi d := by
  unfold peekTag at h
  split at h
  · simp only [Outcome.ok.injEq, Prod.mk.injEq] at h
    obtain ⟨_, rfl⟩ := h
    exact Nat.le_refl _
  · rename_i hl
    have hl0 : d.last = 0 := by simpa using hl
    rw [Outcome.bind_eq_ok] at h
    obtain ⟨⟨t1, d1⟩, h1, h2⟩ := h
    simp only [Outcome.ok.injEq, Prod.mk.injEq] at h2
    obtain ⟨_, rfl⟩ := h2
    obtain ⟨g1, g2⟩ := internalReadTag_phi h1
    have hd1 : phi d1 = d1.win.length := by simp [phi, g2, hl0]
    have h3 : (if t1 ≠ 0 then 3 else 0) ≤ 3 := by split <;> omega
    show d1.win.length + (if t1 ≠ 0 then 3 else 0) ≤ phi d
    omega

theorem expectTag_phi {d : Dec} {tag : Nat} {d' : Dec} (h : expectTag d tag = .ok d') :
    phi d' + 3 = phi d ∧ d'.last = 0 := by
  unfold expectTag at h
  rw [Outcome.bind_eq_ok] at h
  obtain ⟨⟨t, d1⟩, h1, h2⟩ := h
  simp only at h2
  split at h2
  · simp at h2
  · simp only [Outcome.ok.injEq] at h2
    subst h2
    exact readTag_phi h1

theorem expectType_phi {d : Dec} {ty : Nat} {d' : Dec} (h : expectType d ty = .ok d') :
    phi d' + 1 = phi d ∧ d'.last = d.last := by
  unfold expectType at h
  rw [Outcome.bind_eq_ok] at h
  obtain ⟨⟨t, d1⟩, h1, h2⟩ := h
  simp only at h2
  split at h2
  · simp at h2
  · simp only [Outcome.ok.injEq] at h2
    subst h2
    exact readByte_phi h1

theorem expectType_readByte {d : Dec} {ty : Nat} {d' : Dec} (h : expectType d ty = .ok d') :
    ∃ t, readByte d = .ok (t, d') := by
  unfold expectType at h
  rw [Outcome.bind_eq_ok] at h
  obtain ⟨⟨t, d1⟩, h1, h2⟩ := h
  simp only at h2
  split at h2
  · simp at h2
  · simp only [Outcome.ok.injEq] at h2
    subst h2
    exact ⟨t, h1⟩

theorem readLength_phi {d : Dec} {l : Nat} {d' : Dec} (h : readLength d = .ok (l, d')) :
    phi d' + 4 = phi d ∧ d'.last = d.last := by
  unfold readLength at h
  rw [Outcome.bind_eq_ok] at h
  obtain ⟨⟨b, d1⟩, h1, h2⟩ := h
  simp only [Outcome.ok.injEq, Prod.mk.injEq] at h2
  obtain ⟨_, rfl⟩ := h2
  exact readFull_phi h1

theorem expectLength_phi {d : Dec} {len : Nat} {d' : Dec} (h : expectLength d len = .ok d') :
    phi d' + 4 = phi d ∧ d'.last = d.last := by
  unfold expectLength at h
  rw [Outcome.bind_eq_ok] at h
  obtain ⟨⟨l, d1⟩, h1, h2⟩ := h
  simp only at h2
  split at h2
  · simp at h2
  · simp only [Outcome.ok.injEq] at h2
    subst h2
    exact readLength_phi h1

/-- tag, type and length of an item: exactly 8 bytes of the potential, and no tag is left peeked -/
theorem header_phi {d d1 d2 d3 : Dec} {tag ty l : Nat} (h1 : expectTag d tag = .ok d1) (h2 : expectType d1 ty = .ok d2)
    (h3 : readLength d2 = .ok (l, d3)) : d3.win.length + 8 = phi d ∧ d3.last = 0 := by
  obtain ⟨a1, a2⟩ := expectTag_phi h1
  obtain ⟨b1, b2⟩ := expectType_phi h2
  obtain ⟨c1, c2⟩ := readLength_phi h3
  have hl : d3.last = 0 := by rw [c2, b2, a2]
  refine ⟨?_, hl⟩
  have : phi d3 = d3.win.length := by simp [phi, hl]
  omega

theorem readFixed_phi {d : Dec} {tag ty len : Nat} {b : Bytes} {d' : Dec} (h : readFixed d tag ty len = .ok (b, d')) :
    phi d' + 16 = phi d := by
  unfold readFixed at h
  rw [Outcome.bind_eq_ok] at h
  obtain ⟨d1, h1, h⟩ := h
  rw [Outcome.bind_eq_ok] at h
  obtain ⟨d2, h2, h⟩ := h
  rw [Outcome.bind_eq_ok] at h
  obtain ⟨d3, h3, h⟩ := h
  have a := (expectTag_phi h1).1
  have b := (expectType_phi h2).1
  have c := (expectLength_phi h3).1
  have e := (readFull_phi h).1
  omega

/-! ### the item header charge -/

theorem costHead_le (d : Dec) (tag : Nat) : costHead d tag ≤ cItem ∧ costHead d tag ≤ A * phi d := by
  unfold costHead
  cases h1 : expectTag d tag with
  | err e => simp
  | panic p => simp
  | ok d1 =>
    simp only
    cases h2 : readByte d1 with
    | err e => simp
    | panic p => simp
    | ok r =>
      obtain ⟨t, d2⟩ := r
      have a := (expectTag_phi h1).1
      have b := (readByte_phi h2).1
      refine ⟨Nat.le_refl _, ?_⟩
      have : 4 ≤ phi d := by omega
      calc cItem = 2048 := rfl
        _ ≤ A * 4 := by decide
        _ ≤ A * phi d := Nat.mul_le_mul_left _ this

theorem stringAlloc_le (l got : Nat) : cItem + stringAlloc l got ≤ A * (8 + got) := by
  unfold stringAlloc cItem A chunk
  have h1 : min l 4096 ≤ 4096 := Nat.min_le_right _ _
  have h2 : got / 4096 * 4096 ≤ got := Nat.div_mul_le_self got 4096
  omega

/-- a Text / Byte String item: header and payload pay for everything, the declared length for nothing -/
theorem var_bound (d : Dec) (tag ty : Nat) : costVar d tag ty + A * rem2 (readVar d tag ty) ≤ A * phi d := by
  unfold costVar readVar
  have hh := costHead_le d tag
  cases h1 : expectTag d tag with
  | err e => simp only [Outcome.bind_err, rem2]; omega
  | panic p => simp only [Outcome.bind_panic, rem2]; omega
  | ok d1 =>
    simp only [Outcome.bind_ok]
    cases h2 : expectType d1 ty with
    | err e => simp only [Outcome.bind_err, rem2]; omega
    | panic p => simp only [Outcome.bind_panic, rem2]; omega
    | ok d2 =>
      simp only [Outcome.bind_ok]
      cases h3 : readLength d2 with
      | err e => simp only [Outcome.bind_err, rem2]; omega
      | panic p => simp only [Outcome.bind_panic, rem2]; omega
      | ok r =>
        obtain ⟨l, d3⟩ := r
        simp only [Outcome.bind_ok]
        obtain ⟨hphi, hl3⟩ := header_phi h1 h2 h3
        have hs := stringAlloc_le l (min l d3.win.length)
        have hgot : min l d3.win.length ≤ d3.win.length := Nat.min_le_right _ _
        have hA : A * (8 + min l d3.win.length) ≤ A * phi d := Nat.mul_le_mul_left _ (by omega)
        cases h4 : readFull d3 l with
        | err e => simp only [Outcome.bind_err, rem2]; omega
        | panic p => simp only [Outcome.bind_panic, rem2]; omega
        | ok r4 =>
          obtain ⟨v, d4⟩ := r4
          simp only [Outcome.bind_ok]
          obtain ⟨e4, l4⟩ := readFull_phi h4
          cases h5 : readFull d4 (padLen l) with
          | err e => simp only [Outcome.bind_err, rem2]; omega
          | panic p => simp only [Outcome.bind_panic, rem2]; omega
          | ok r5 =>
            obtain ⟨pad, d5⟩ := r5
            simp only [Outcome.bind_ok, rem2]
            obtain ⟨e5, l5⟩ := readFull_phi h5
            have p3 : phi d3 = d3.win.length := by simp [phi, hl3]
            have hle : l ≤ d3.win.length := by omega
            rw [Nat.min_eq_left hle] at hs
            have h5' : phi d5 + (8 + l) ≤ phi d := by omega
            calc costHead d tag + stringAlloc l (min l d3.win.length) + A * phi d5
                ≤ cItem + stringAlloc l l + A * phi d5 := by rw [Nat.min_eq_left hle]; omega
              _ ≤ A * (8 + l) + A * phi d5 := by omega
              _ = A * (phi d5 + (8 + l)) := by rw [← Nat.mul_add]; congr 1; omega
              _ ≤ A * phi d := Nat.mul_le_mul_left _ h5'

theorem fixed_bound (d : Dec) (tag ty len : Nat) {α : Type} (k : Bytes × Dec → Outcome (α × Nat × Dec))
    (hk : ∀ b d', rem2 (k (b, d')) ≤ phi d') :
    costHead d tag + A * rem2 ((readFixed d tag ty len).bind k) ≤ A * phi d := by
  have hh := costHead_le d tag
  cases h : readFixed d tag ty len with
  | err e => simp only [Outcome.bind_err, rem2]; omega
  | panic p => simp only [Outcome.bind_panic, rem2]; omega
  | ok r =>
    obtain ⟨b, d'⟩ := r
    simp only [Outcome.bind_ok]
    have e := readFixed_phi h
    have := hk b d'
    have h16 : cItem ≤ A * 16 := by decide
    calc costHead d tag + A * rem2 (k (b, d')) ≤ A * 16 + A * phi d' := by
          have : A * rem2 (k (b, d')) ≤ A * phi d' := Nat.mul_le_mul_left _ this
          omega
      _ = A * (phi d' + 16) := by rw [← Nat.mul_add]; congr 1; omega
      _ = A * phi d := by rw [e]

theorem prim_bound (d : Dec) (tag : Nat) (p : PTy) : costPrim d tag p + A * rem2 (readPrim d tag p) ≤ A * phi d := by
  cases p with
  | int => exact fixed_bound d tag 2 4 _ (fun b d' => by simp [rem2])
  | long => exact fixed_bound d tag 3 8 _ (fun b d' => by simp [rem2])
  | enum => exact fixed_bound d tag 5 4 _ (fun b d' => by simp [rem2])
  | bool => exact fixed_bound d tag 6 8 _ (fun b d' => by cases h : boolOfBytes b <;> simp [rem2, h])
  | time => exact fixed_bound d tag 9 8 _ (fun b d' => by simp [rem2])
  | interval => exact fixed_bound d tag 10 4 _ (fun b d' => by simp [rem2])
  | bytes =>
    have := var_bound d tag 8
    simp only [costPrim, readPrim]
    cases h : readVar d tag 8 with
    | err e => rw [h] at this; simpa [rem2] using this
    | panic s => rw [h] at this; simpa [rem2] using this
    | ok r => obtain ⟨v, n, d'⟩ := r; rw [h] at this; simpa [rem2] using this
  | text =>
    have := var_bound d tag 7
    simp only [costPrim, readPrim]
    cases h : readVar d tag 7 with
    | err e => rw [h] at this; simpa [rem2] using this
    | panic s => rw [h] at this; simpa [rem2] using this
    | ok r => obtain ⟨v, n, d'⟩ := r; rw [h] at this; simpa [rem2] using this

/-- a skipped item -/
theorem skip_bound (d : Dec) (tag : Nat) : costSkip d tag + A * rem1 (readSkip d tag) ≤ A * phi d := by
  have hh := costHead_le d tag
  unfold readSkip costSkip
  cases h1 : expectTag d tag with
  | err e => simp only [Outcome.bind_err, rem1]; omega
  | panic p => simp only [Outcome.bind_panic, rem1]; omega
  | ok d1 =>
    simp only [Outcome.bind_ok]
    cases h2 : readByte d1 with
    | err e => simp only [Outcome.bind_err, rem1]; omega
    | panic p => simp only [Outcome.bind_panic, rem1]; omega
    | ok r2 =>
      obtain ⟨t, d2⟩ := r2
      simp only [Outcome.bind_ok]
      cases h3 : readLength d2 with
      | err e => simp only [Outcome.bind_err, rem1]; omega
      | panic p => simp only [Outcome.bind_panic, rem1]; omega
      | ok r3 =>
        obtain ⟨l, d3⟩ := r3
        simp only [Outcome.bind_ok]
        have a := expectTag_phi h1
        have b := readByte_phi h2
        have c := readLength_phi h3
        have hl3 : d3.last = 0 := by rw [c.2, b.2, a.2]
        have p3 : phi d3 = d3.win.length := by simp [phi, hl3]
        have a1 := a.1
        have b1 := b.1
        have c1 := c.1
        have h8 : cItem + cDiscard ≤ A * 8 := by decide
        have hd8 : A * 8 ≤ A * phi d := Nat.mul_le_mul_left _ (by omega)
        split
        · rename_i hll
          simp only [rem1]
          have e1 : phi ({ d3 with win := d3.win.drop (l + padLen l) }) = d3.win.length - (l + padLen l) := by
            simp [phi, hl3, List.length_drop]
          have : phi ({ d3 with win := d3.win.drop (l + padLen l) }) + 8 ≤ phi d := by omega
          calc costHead d tag + cDiscard + A * phi { d3 with win := d3.win.drop (l + padLen l) }
              ≤ A * 8 + A * phi { d3 with win := d3.win.drop (l + padLen l) } := by omega
            _ = A * (phi { d3 with win := d3.win.drop (l + padLen l) } + 8) := by rw [← Nat.mul_add]; congr 1; omega
            _ ≤ A * phi d := Nat.mul_le_mul_left _ this
        · simp only [rem1]; omega

/-! ### the slice loop -/

theorem rem2_wrap {α β : Type} (o : Outcome (α × β × Dec)) : rem2 o.wrap = rem2 o := by
  cases o <;> rfl

theorem rem1_wrap {α : Type} (o : Outcome (α × Dec)) : rem1 o.wrap = rem1 o := by
  cases o <;> rfl

theorem slice_bound (step : Dec → Outcome (Val × Nat × Dec)) (stepCost : Dec → Nat) (ftag E : Nat)
    (hstep : ∀ d, stepCost d + A * rem2 (step d) ≤ A * phi d) :
    ∀ (fuel : Nat) (dd : Dec) (n : Nat),
      costSliceLoop step stepCost ftag E fuel dd n + A * rem2 (sliceLoop step ftag E fuel dd n) ≤ A * phi dd
  | 0, dd, n => by simp [costSliceLoop, sliceLoop, rem2]
  | fuel + 1, dd, n => by
    rw [costSliceLoop, sliceLoop]
    have hs := hstep dd
    cases h : step dd with
    | err e => rw [h] at hs; simp only [Outcome.wrap, Outcome.bind_err, rem2] at hs ⊢; omega
    | panic p => rw [h] at hs; simp only [Outcome.wrap, Outcome.bind_panic, rem2] at hs ⊢; omega
    | ok r =>
      obtain ⟨v, nn, dd1⟩ := r
      rw [h] at hs
      simp only [rem2] at hs
      simp only [Outcome.wrap, Outcome.bind_ok]
      by_cases hc : (n + nn) % two32 ≥ E
      · rw [if_pos hc, if_pos hc]; simp only [rem2]; omega
      · rw [if_neg hc, if_neg hc]
        cases hp : peekTag dd1 with
        | err e => simp only [Outcome.bind_err, rem2]; omega
        | panic p => simp only [Outcome.bind_panic, rem2]; omega
        | ok rp =>
          obtain ⟨tag, dd2⟩ := rp
          simp only [Outcome.bind_ok]
          have hm := peekTag_phi hp
          have hm' : A * phi dd2 ≤ A * phi dd1 := Nat.mul_le_mul_left _ hm
          by_cases ht : tag ≠ ftag
          · rw [if_pos ht, if_pos ht]; simp only [rem2]; omega
          · rw [if_neg ht, if_neg ht]
            have ih := slice_bound step stepCost ftag E hstep fuel dd2 (n + nn)
            cases hr : sliceLoop step ftag E fuel dd2 (n + nn) with
            | err e => rw [hr] at ih; simp only [Outcome.bind_err, rem2] at ih ⊢; omega
            | panic p => rw [hr] at ih; simp only [Outcome.bind_panic, rem2] at ih ⊢; omega
            | ok rr =>
              obtain ⟨vs, n2, dd3⟩ := rr
              rw [hr] at ih
              simp only [Outcome.bind_ok, rem2] at ih ⊢
              omega

/-! ### decode.go's recursion -/

theorem cStruct_le (fields : List Fld) (h : fields.length ≤ width) : cStruct fields ≤ A * 8 := by
  unfold cStruct cStructBase cFieldDesc chunk A
  unfold width at h
  omega

theorem limitDec_phi (d : Dec) (E : Nat) : phi (limitDec d E) = min E d.win.length := by
  unfold limitDec
  split
  · rename_i h; simp [phi, List.length_take, Nat.min_eq_left h]
  · rename_i h; simp only [phi]; simp only [ne_eq, not_true_eq_false, ↓reduceIte, Nat.add_zero]; omega

mutual
  theorem V_bound : ∀ (ty : FTy) (tag : Nat) (prev : List FV) (d : Dec), ftyNarrow width ty = true →
      costValue tag prev ty d + A * rem2 (decValue tag prev ty d) ≤ A * phi d
    | .prim p, tag, prev, d, _ => by
      simp only [costValue, decValue]; exact prim_bound d tag p
    | .struct sd, tag, prev, d, hn => by
      simp only [costValue, decValue]
      by_cases hd : sd.descOk = true
      · rw [if_pos hd, if_pos hd]; exact S_bound sd tag d (by simpa [ftyNarrow] using hn)
      · rw [if_neg hd, if_neg hd]; simp [rem2]
    | .dyn sel table, tag, prev, d, hn => by
      simp only [costValue, decValue]
      cases prev[sel]? with
      | none => simp [rem2]
      | some fv =>
        simp only
        cases keyOf fv with
        | none => simp [rem2]
        | some k => exact D_bound table tag prev k d (by simpa [ftyNarrow] using hn)
    | .unsupported, tag, prev, d, _ => by
      simp [costValue, decValue, rem2]
  theorem D_bound : ∀ (table : List DEnt) (tag : Nat) (prev : List FV) (k : Key) (d : Dec), dentsNarrow width table = true →
      costDyn tag prev k table d + A * rem2 (decDyn tag prev k table d) ≤ A * phi d
    | [], tag, prev, k, d, _ => by simp [costDyn, decDyn, rem2]
    | .mk k' ptr (.prim p) :: rest, tag, prev, k, d, hn => by
      rw [costDyn, decDyn]
      have hn' : dentsNarrow width rest = true := by simp [dentsNarrow, ftyNarrow] at hn; exact hn
      by_cases hk : k' = k
      · rw [if_pos hk, if_pos hk]
        by_cases hp : ptr = true ∨ p = PTy.interval
        · simp only [if_pos hp]; simp [rem2]
        · simp only [if_neg hp]; exact prim_bound d tag p
      · rw [if_neg hk, if_neg hk]; exact D_bound rest tag prev k d hn'
    | .mk k' ptr (.struct sd) :: rest, tag, prev, k, d, hn => by
      rw [costDyn, decDyn]
      have hn2 : SD.narrow width sd = true ∧ dentsNarrow width rest = true := by
        simp [dentsNarrow, ftyNarrow] at hn; exact hn
      by_cases hk : k' = k
      · rw [if_pos hk, if_pos hk]
        by_cases hp : ptr = true
        · simp only [if_pos hp]
          by_cases hd : sd.descOk = true
          · rw [if_pos hd, if_pos hd]; exact S_bound sd tag d hn2.1
          · rw [if_neg hd, if_neg hd]; simp [rem2]
        · simp only [if_neg hp]; simp [rem2]
      · rw [if_neg hk, if_neg hk]; exact D_bound rest tag prev k d hn2.2
    | .mk k' ptr (.dyn _ _) :: rest, tag, prev, k, d, hn => by
      rw [costDyn, decDyn]
      have hn' : dentsNarrow width rest = true := by simp [dentsNarrow, ftyNarrow] at hn; exact hn.2
      by_cases hk : k' = k
      · rw [if_pos hk, if_pos hk]; simp [rem2]
      · rw [if_neg hk, if_neg hk]; exact D_bound rest tag prev k d hn'
    | .mk k' ptr .unsupported :: rest, tag, prev, k, d, hn => by
      rw [costDyn, decDyn]
      have hn' : dentsNarrow width rest = true := by simp [dentsNarrow, ftyNarrow] at hn; exact hn
      by_cases hk : k' = k
      · rw [if_pos hk, if_pos hk]; simp [rem2]
      · rw [if_neg hk, if_neg hk]; exact D_bound rest tag prev k d hn'
  theorem S_bound : ∀ (sd : SD) (tag : Nat) (d : Dec), SD.narrow width sd = true →
      costStruct tag sd d + A * rem2 (decStruct tag sd d) ≤ A * phi d
    | .mk nm t0 fields, tag, d, hn => by
      rw [costStruct, decStruct]
      have hn2 : fields.length ≤ width ∧ fldsNarrow width fields = true := by
        simp [SD.narrow] at hn; exact hn
      cases h1 : expectTag d tag with
      | err e => simp [rem2]
      | panic p => simp [rem2]
      | ok d1 =>
        simp only [Outcome.bind_ok]
        cases h2 : expectType d1 structCode with
        | err e => simp [rem2]
        | panic p => simp [rem2]
        | ok d2 =>
          simp only [Outcome.bind_ok]
          cases h3 : readLength d2 with
          | err e => simp [rem2]
          | panic p => simp [rem2]
          | ok r =>
            obtain ⟨E, d3⟩ := r
            simp only [Outcome.bind_ok]
            obtain ⟨hphi, hl3⟩ := header_phi h1 h2 h3
            have ih := Fs_bound fields E (limitDec d3 E) 0 [] hn2.2
            rw [limitDec_phi] at ih
            have hc := cStruct_le fields hn2.1
            have hmin : min E d3.win.length ≤ d3.win.length := Nat.min_le_right _ _
            have hfail : cStruct fields + costFields fields E (limitDec d3 E) 0 [] ≤ A * phi d := by
              have : A * 8 + A * min E d3.win.length ≤ A * phi d := by
                rw [← Nat.mul_add]; exact Nat.mul_le_mul_left _ (by omega)
              omega
            cases hF : decFields fields E (limitDec d3 E) 0 [] with
            | err e => simp only [Outcome.bind_err, rem2]; omega
            | panic p => simp only [Outcome.bind_panic, rem2]; omega
            | ok rF =>
              obtain ⟨vals, nsum, ddd⟩ := rF
              simp only [Outcome.bind_ok]
              split
              · simp only [rem2]; omega
              · simp only [rem2]
                have hrem : phi ({ d3 with win := d3.win.drop E }) = d3.win.length - E := by
                  simp [phi, hl3, List.length_drop]
                rw [hrem]
                have hcf : costFields fields E (limitDec d3 E) 0 [] ≤ A * min E d3.win.length := by
                  rw [hF] at ih; omega
                have hsum : min E d3.win.length + (d3.win.length - E) = d3.win.length := by omega
                calc cStruct fields + costFields fields E (limitDec d3 E) 0 [] + A * (d3.win.length - E)
                    ≤ A * 8 + A * min E d3.win.length + A * (d3.win.length - E) := by omega
                  _ = A * (8 + (min E d3.win.length + (d3.win.length - E))) := by rw [Nat.mul_add, Nat.mul_add]; omega
                  _ = A * phi d := by rw [hsum]; congr 1; omega
  theorem Fs_bound : ∀ (fs : List Fld) (E : Nat) (dd : Dec) (n : Nat) (prev : List FV), fldsNarrow width fs = true →
      costFields fs E dd n prev + A * rem2 (decFields fs E dd n prev) ≤ A * phi dd
    | [], E, dd, n, prev, _ => by simp [costFields, decFields, rem2]
    | f :: fs, E, dd, n, prev, hn => by
      rw [costFields, decFields]
      have hn2 : ftyNarrow width f.ty = true ∧ fldsNarrow width fs = true := by
        cases f; simp [fldsNarrow] at hn; exact hn
      have ihF := F_bound f E dd n prev hn2.1
      cases hF : decField f E dd n prev with
      | err e => rw [hF] at ihF; simp only [Outcome.bind_err, rem2] at ihF ⊢; omega
      | panic p => rw [hF] at ihF; simp only [Outcome.bind_panic, rem2] at ihF ⊢; omega
      | ok r =>
        obtain ⟨fv, n1, d1⟩ := r
        rw [hF] at ihF
        simp only [Outcome.bind_ok, rem2] at ihF ⊢
        have ih := Fs_bound fs E d1 n1 (prev ++ [fv]) hn2.2
        cases hR : decFields fs E d1 n1 (prev ++ [fv]) with
        | err e => rw [hR] at ih; simp only [Outcome.bind_err, rem2] at ih ⊢; omega
        | panic p => rw [hR] at ih; simp only [Outcome.bind_panic, rem2] at ih ⊢; omega
        | ok rr =>
          obtain ⟨rest, n2, d2⟩ := rr
          rw [hR] at ih
          simp only [Outcome.bind_ok, rem2] at ih ⊢
          omega
  theorem F_bound : ∀ (f : Fld) (E : Nat) (dd : Dec) (n : Nat) (prev : List FV),
      ftyNarrow width f.ty = true →
      costField f E dd n prev + A * rem2 (decField f E dd n prev) ≤ A * phi dd
    | .mk name tag required slice skip ty, E, dd, n, prev, hn => by
      rw [costField, decField]
      simp only [Fld.ty] at hn
      cases hA : peekTag dd with
      | panic p => simp [rem2]
      | err e =>
        simp only
        split
        · simp [rem2]
        · simp [rem2]
      | ok r =>
        obtain ⟨t, dd1⟩ := r
        simp only
        have hm := peekTag_phi hA
        have hm' : A * phi dd1 ≤ A * phi dd := Nat.mul_le_mul_left _ hm
        by_cases hc : required = false ∧ t ≠ tag ∧ tag ≠ anyTag
        · rw [if_pos hc, if_pos hc]; simp only [rem2]; omega
        · rw [if_neg hc, if_neg hc]
          by_cases hsk : skip = true
          · rw [if_pos hsk, if_pos hsk]
            have hb := skip_bound dd1 tag
            cases hS : readSkip dd1 tag with
            | err e => rw [hS] at hb; simp only [Outcome.wrap, Outcome.bind_err, rem1, rem2] at hb ⊢; omega
            | panic p => rw [hS] at hb; simp only [Outcome.wrap, Outcome.bind_panic, rem1, rem2] at hb ⊢; omega
            | ok rs =>
              obtain ⟨nn, d2⟩ := rs
              rw [hS] at hb
              simp only [Outcome.wrap, Outcome.bind_ok, rem1, rem2] at hb ⊢
              omega
          · rw [if_neg hsk, if_neg hsk]
            by_cases hsl : slice = true
            · rw [if_pos hsl, if_pos hsl]
              have hb := slice_bound (decValue tag prev ty) (costValue tag prev ty) tag E
                (fun d => V_bound ty tag prev d hn) (dd1.win.length + 3) dd1 n
              cases hL : sliceLoop (decValue tag prev ty) tag E (dd1.win.length + 3) dd1 n with
              | err e => rw [hL] at hb; simp only [Outcome.bind_err, rem2] at hb ⊢; omega
              | panic p => rw [hL] at hb; simp only [Outcome.bind_panic, rem2] at hb ⊢; omega
              | ok rl =>
                obtain ⟨vs, n2, d2⟩ := rl
                rw [hL] at hb
                simp only [Outcome.bind_ok, rem2] at hb ⊢
                omega
            · rw [if_neg hsl, if_neg hsl]
              have hb := V_bound ty tag prev dd1 hn
              cases hV : decValue tag prev ty dd1 with
              | err e => rw [hV] at hb; simp only [Outcome.wrap, Outcome.bind_err, rem2] at hb ⊢; omega
              | panic p => rw [hV] at hb; simp only [Outcome.wrap, Outcome.bind_panic, rem2] at hb ⊢; omega
              | ok rv =>
                obtain ⟨v, nn, d2⟩ := rv
                rw [hV] at hb
                simp only [Outcome.wrap, Outcome.bind_ok, rem2] at hb ⊢
                cases ty <;> simp only [rem2] <;> omega
end

end Kmip.Cost
