import KmipModel.Session
/- helper lemmas about the session model -/
namespace Kmip.Session

/-- the events a batch may produce between reading the request and answering it / closing -/
def Ev.quiet : Ev → Bool
  | .requestAuth _ _ => true
  | .call _ _ _ _ _ _ _ => true
  | .armWrite => true
  | _ => false

def arm (cfg : Cfg) : List Ev := if cfg.readTimeout then [Ev.armRead] else []

theorem calls_quiet (cfg : Cfg) (k : Nat) (ra : Option Nat) (i : Nat) (items : List ReqItem) :
    (calls cfg k ra i items).all Ev.quiet = true := by
  induction items generalizing i with
  | nil => simp [calls]
  | cons it rest ih =>
    simp only [calls, List.all_append, ih, Bool.and_true]
    split <;> simp [Ev.quiet]

theorem authStep_quiet (cfg : Cfg) (k : Nat) (r : Req) : (authStep cfg k r).1.all Ev.quiet = true := by
  unfold authStep
  split
  · simp
  · split
    · split <;> simp [Ev.quiet]
    · simp

theorem armW_quiet (cfg : Cfg) : (armW cfg).all Ev.quiet = true := by
  unfold armW; split <;> simp [Ev.quiet]

/-- `handleReq` in one of two shapes: answered (quiet events, then the response) or dropped (quiet events only) -/
theorem handleReq_shape (cfg : Cfg) (k : Nat) (r : Req) :
    (∃ pre, pre.all Ev.quiet = true ∧ handleReq cfg k r = (pre ++ [Ev.respond k (respOf cfg r)], true)) ∨
    (∃ pre, pre.all Ev.quiet = true ∧ handleReq cfg k r = (pre, false)) := by
  unfold handleReq
  split
  · right; exact ⟨[], by simp, rfl⟩
  · have hq := authStep_quiet cfg k r
    split
    · rename_i evs h
      right; exact ⟨evs, by simpa [h] using hq, rfl⟩
    · rename_i evs ra h
      have hq' : evs.all Ev.quiet = true := by simpa [h] using hq
      have hb : (evs ++ (calls cfg k ra 0 r.items ++ armW cfg)).all Ev.quiet = true := by
        simp only [List.all_append, hq', calls_quiet, armW_quiet, Bool.and_self]
      split
      · left; exact ⟨_, hb, rfl⟩
      · right; exact ⟨_, hb, rfl⟩

end Kmip.Session
