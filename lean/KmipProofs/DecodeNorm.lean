import KmipModel.Spec
import KmipProofs.Bytes
/-
  The decoder's one-tag lookahead, normalised away: a Decoder whose `last` holds a buffered tag behaves exactly like one
  with nothing buffered whose window starts with those three tag bytes (`Dec.norm`), for every function that begins by
  reading or peeking a tag.  `Dec.view` is the logical remaining byte string.
-/
namespace Kmip

/-- the buffered tag came from three bytes -/
def Dec.Wf (d : Dec) : Prop := d.last < 16777216

/-- the logical remaining bytes of the decoder's reader -/
def Dec.view (d : Dec) : Bytes := if d.last = 0 then d.win else be 3 d.last ++ d.win

def Dec.norm (d : Dec) : Dec := { win := d.view, fin := d.fin, last := 0 }

theorem Dec.norm_of_last_zero (d : Dec) (h : d.last = 0) : d.norm = d := by
  cases d; simp_all [Dec.norm, Dec.view]

theorem view_mk_zero (r : Bytes) (f : Fin) : (Dec.mk r f 0).view = r := by simp [Dec.view]

theorem fromBE_be3 (t : Nat) (h : t < 16777216) : fromBE (be 3 t) = t := fromBE_be 3 t (by simpa using h)

theorem readFull_ok (d : Dec) (k : Nat) (h : k ≤ d.win.length) :
    readFull d k = .ok (d.win.take k, { d with win := d.win.drop k }) := by
  simp [readFull, h]

theorem readTag_norm (d : Dec) (hw : d.Wf) : readTag d.norm = readTag d := by
  by_cases h0 : d.last = 0
  · rw [Dec.norm_of_last_zero d h0]
  · have hl : (be 3 d.last ++ d.win).length ≥ 3 := by simp [be_length]
    simp only [readTag, Dec.norm, Dec.view, h0, if_false, ne_eq, not_true_eq_false, not_false_eq_true, if_true]
    simp only [internalReadTag, readFull, List.length_append, be_length]
    have h3 : 3 ≤ 3 + d.win.length := by omega
    simp only [h3, if_true]
    have ht : List.take 3 (be 3 d.last ++ d.win) = be 3 d.last := by
      rw [List.take_append_of_le_length (by simp [be_length])]; simp [List.take_of_length_le, be_length]
    have hd : List.drop 3 (be 3 d.last ++ d.win) = d.win := by
      rw [List.drop_append_of_le_length (by simp [be_length])]; simp [List.drop_of_length_le, be_length]
    simp [ht, hd, fromBE_be3 d.last hw]

theorem peekTag_norm (d : Dec) (hw : d.Wf) : peekTag d.norm = peekTag d := by
  by_cases h0 : d.last = 0
  · rw [Dec.norm_of_last_zero d h0]
  · simp only [peekTag, Dec.norm, Dec.view, h0, if_false, ne_eq, not_true_eq_false, not_false_eq_true, if_true]
    simp only [internalReadTag, readFull, List.length_append, be_length]
    have h3 : 3 ≤ 3 + d.win.length := by omega
    simp only [h3, if_true]
    have ht : List.take 3 (be 3 d.last ++ d.win) = be 3 d.last := by
      rw [List.take_append_of_le_length (by simp [be_length])]; simp [List.take_of_length_le, be_length]
    have hd : List.drop 3 (be 3 d.last ++ d.win) = d.win := by
      rw [List.drop_append_of_le_length (by simp [be_length])]; simp [List.drop_of_length_le, be_length]
    simp [ht, hd, fromBE_be3 d.last hw]

theorem expectTag_norm (d : Dec) (hw : d.Wf) (t : Nat) : expectTag d.norm t = expectTag d t := by
  simp only [expectTag, readTag_norm d hw]

theorem readFixed_norm (d : Dec) (hw : d.Wf) (tag ty len : Nat) : readFixed d.norm tag ty len = readFixed d tag ty len := by
  simp only [readFixed, expectTag_norm d hw]

theorem readVar_norm (d : Dec) (hw : d.Wf) (tag ty : Nat) : readVar d.norm tag ty = readVar d tag ty := by
  simp only [readVar, expectTag_norm d hw]

theorem readPrim_norm (d : Dec) (hw : d.Wf) (tag : Nat) (p : PTy) : readPrim d.norm tag p = readPrim d tag p := by
  cases p <;> simp only [readPrim, readFixed_norm d hw, readVar_norm d hw]

theorem readSkip_norm (d : Dec) (hw : d.Wf) (tag : Nat) : readSkip d.norm tag = readSkip d tag := by
  simp only [readSkip, expectTag_norm d hw]

theorem decStruct_norm (d : Dec) (hw : d.Wf) (tag : Nat) (sd : SD) : decStruct tag sd d.norm = decStruct tag sd d := by
  cases sd with
  | mk n t fs => simp only [decStruct, expectTag_norm d hw]

theorem decDyn_norm (d : Dec) (hw : d.Wf) (tag : Nat) (prev : List FV) (k : Key) :
    ∀ (table : List DEnt), decDyn tag prev k table d.norm = decDyn tag prev k table d
  | [] => by simp [decDyn]
  | .mk k' ptr (.prim p) :: rest => by rw [decDyn, decDyn, readPrim_norm d hw, decDyn_norm d hw tag prev k rest]
  | .mk k' ptr (.struct sd) :: rest => by rw [decDyn, decDyn, decStruct_norm d hw, decDyn_norm d hw tag prev k rest]
  | .mk k' ptr (.dyn _ _) :: rest => by rw [decDyn, decDyn, decDyn_norm d hw tag prev k rest]
  | .mk k' ptr .unsupported :: rest => by rw [decDyn, decDyn, decDyn_norm d hw tag prev k rest]

theorem decValue_norm (d : Dec) (hw : d.Wf) (tag : Nat) (prev : List FV) :
    ∀ (ty : FTy), decValue tag prev ty d.norm = decValue tag prev ty d
  | .prim p => by simp only [decValue, readPrim_norm d hw]
  | .struct sd => by simp only [decValue, decStruct_norm d hw]
  | .dyn sel table => by simp only [decValue, decDyn_norm d hw]
  | .unsupported => by simp only [decValue]

theorem peekTag_eval (r : Bytes) (f : Fin) :
    peekTag ⟨r, f, 0⟩ =
      if 3 ≤ r.length then .ok (fromBE (r.take 3), ⟨r.drop 3, f, fromBE (r.take 3)⟩)
      else .err (if r.length = 0 then f.err else .other) := by
  simp only [peekTag, internalReadTag, readFull]
  by_cases h3 : 3 ≤ r.length
  · simp [h3]
  · simp only [h3, if_false]
    by_cases h0 : r.length = 0 <;> simp [h0]

theorem take3_lt (r : Bytes) (h3 : 3 ≤ r.length) : fromBE (r.take 3) < 16777216 := by
  have := fromBE_lt (List.take 3 r)
  have hl : (List.take 3 r).length = 3 := by simp [List.length_take]; omega
  rw [hl] at this; simpa using this

theorem be3_take3 (r : Bytes) (h3 : 3 ≤ r.length) : be 3 (fromBE (r.take 3)) ++ r.drop 3 = r := by
  have hl : (List.take 3 r).length = 3 := by simp [List.length_take]; omega
  have := be_fromBE (List.take 3 r)
  rw [hl] at this
  rw [this, List.take_append_drop]

/-- the state after a successful peek: well-formed, and its view is the view before unless the peeked tag was 000000
    (which the lookahead cannot remember: those three bytes are lost) -/
theorem peekTag_zero_last (r : Bytes) (f : Fin) (t : Nat) (d' : Dec) (h : peekTag ⟨r, f, 0⟩ = .ok (t, d')) :
    3 ≤ r.length ∧ t = fromBE (r.take 3) ∧ d' = ⟨r.drop 3, f, t⟩ ∧ d'.Wf ∧ (t ≠ 0 → d'.view = r) ∧ (t = 0 → d'.view = r.drop 3) := by
  rw [peekTag_eval] at h
  by_cases h3 : 3 ≤ r.length
  · rw [if_pos h3] at h
    simp only [Outcome.ok.injEq, Prod.mk.injEq] at h
    obtain ⟨h1, h2⟩ := h
    subst h1; subst h2
    refine ⟨h3, rfl, rfl, take3_lt r h3, ?_, ?_⟩
    · intro hne; simp only [Dec.view, hne, if_false]; exact be3_take3 r h3
    · intro h0; simp [Dec.view, h0]
  · rw [if_neg h3] at h; simp at h

theorem peekTag_zero_err (r : Bytes) (f : Fin) (e : ErrClass) (h : peekTag ⟨r, f, 0⟩ = .err e) :
    r.length < 3 ∧ (r = [] → e = f.err) ∧ (r ≠ [] → e = .other) := by
  rw [peekTag_eval] at h
  by_cases h3 : 3 ≤ r.length
  · rw [if_pos h3] at h; simp at h
  · rw [if_neg h3] at h
    simp only [Outcome.err.injEq] at h
    refine ⟨by omega, ?_, ?_⟩
    · intro hr; subst hr; simp at h; exact h.symm
    · intro hr
      have : ¬ r.length = 0 := by simpa using hr
      simp [this] at h; exact h.symm

end Kmip
