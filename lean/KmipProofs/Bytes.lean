import KmipModel.Basic
/- big-endian conversion lemmas -/
namespace Kmip

theorem be_length (k n : Nat) : (be k n).length = k := by
  induction k with
  | zero => simp [be]
  | succ k ih => simp [be, ih]

theorem zeros_length (k : Nat) : (zeros k).length = k := by simp [zeros]

theorem toNat_ofNat_mod (x : Nat) : (UInt8.ofNat (x % 256)).toNat = x % 256 := by
  have : x % 256 < 256 := Nat.mod_lt _ (by decide)
  simp [UInt8.toNat_ofNat', Nat.mod_eq_of_lt this]

theorem fromBE_be_mod (k n : Nat) : fromBE (be k n) = n % 256 ^ k := by
  induction k with
  | zero => simp [be, fromBE, Nat.mod_one]
  | succ k ih =>
    simp only [be, fromBE, be_length, ih, toNat_ofNat_mod]
    rw [Nat.pow_succ, Nat.mod_mul, Nat.mul_comm (256 ^ k)]
    omega

theorem fromBE_be (k n : Nat) (h : n < 256 ^ k) : fromBE (be k n) = n := by
  rw [fromBE_be_mod, Nat.mod_eq_of_lt h]

theorem fromBE_lt (bs : Bytes) : fromBE bs < 256 ^ bs.length := by
  induction bs with
  | nil => simp [fromBE]
  | cons b bs ih =>
    simp only [fromBE, List.length_cons, Nat.pow_succ]
    have hb : b.toNat < 256 := by
      have := b.toNat_lt; simpa using this
    have : b.toNat * 256 ^ bs.length ≤ 255 * 256 ^ bs.length := Nat.mul_le_mul_right _ (by omega)
    omega

end Kmip
