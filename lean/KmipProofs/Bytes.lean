import KmipModel.Basic
/- big-endian conversion lemmas -/
namespace Kmip

theorem be_length (k n : Nat) : (be k n).length = k := by
  induction k with
  | zero => simp [be]
  | succ k ih => simp [be, ih]

theorem zeros_length (k : Nat) : (zeros k).length = k := by simp [zeros]

theorem toNat_ofNat_mod (x : Nat) : (UInt8.ofNat (x % 256)).toNat = x % 256 := by
  have : x % 256 < 256 := Nat.mod_lt _ (by decide)
  simp [UInt8.toNat_ofNat', Nat.mod_eq_of_lt this]

theorem fromBE_be_mod (k n : Nat) : fromBE (be k n) = n % 256 ^ k := by
  induction k with
  | zero => simp [be, fromBE, Nat.mod_one]
  | succ k ih =>
    simp only [be, fromBE, be_length, ih, toNat_ofNat_mod]
    rw [Nat.pow_succ, Nat.mod_mul, Nat.mul_comm (256 ^ k)]
    omega

theorem fromBE_be (k n : Nat) (h : n < 256 ^ k) : fromBE (be k n) = n := by
  rw [fromBE_be_mod, Nat.mod_eq_of_lt h]

theorem fromBE_lt (bs : Bytes) : fromBE bs < 256 ^ bs.length := by
  induction bs with
  | nil => simp [fromBE]
  | cons b bs ih =>
    simp only [fromBE, List.length_cons, Nat.pow_succ]
    have hb : b.toNat < 256 := by
      have := b.toNat_lt; simpa using this
    have : b.toNat * 256 ^ bs.length ≤ 255 * 256 ^ bs.length := Nat.mul_le_mul_right _ (by omega)
    omega

end Kmip

namespace Kmip

theorem be_fromBE (bs : Bytes) : be bs.length (fromBE bs) = bs := by
  induction bs with
  | nil => simp [be]
  | cons b rest ih =>
    have hlt := fromBE_lt rest
    have hp : 0 < 256 ^ rest.length := Nat.pow_pos (by omega)
    simp only [List.length_cons, be, fromBE]
    have h1 : (b.toNat * 256 ^ rest.length + fromBE rest) / 256 ^ rest.length = b.toNat := by
      rw [Nat.add_comm, Nat.add_mul_div_right _ _ hp, Nat.div_eq_of_lt hlt, Nat.zero_add]
    have hb : b.toNat < 256 := by have := b.toNat_lt; simpa using this
    rw [h1, Nat.mod_eq_of_lt hb]
    congr 1
    · cases b; simp [UInt8.ofNat, UInt8.toNat]
    · have : be rest.length (b.toNat * 256 ^ rest.length + fromBE rest) = be rest.length (fromBE rest) := by
        have hmod : ∀ k n m, be k (m * 256 ^ k + n) = be k n := by
          intro k
          induction k with
          | zero => intro n m; simp [be]
          | succ k ihk =>
            intro n m
            simp only [be]
            congr 1
            · congr 1
              have hk : 0 < 256 ^ k := Nat.pow_pos (by omega)
              have e1 : m * 256 ^ (k + 1) + n = n + (m * 256) * 256 ^ k := by
                rw [Nat.pow_succ, Nat.mul_assoc, Nat.mul_comm (256 ^ k) 256, Nat.add_comm]
              have : (m * 256 ^ (k + 1) + n) / 256 ^ k = n / 256 ^ k + m * 256 := by
                rw [e1, Nat.add_mul_div_right _ _ hk]
              rw [this, Nat.add_mul_mod_self_right]
            · have : m * 256 ^ (k + 1) + n = (m * 256) * 256 ^ k + n := by rw [Nat.pow_succ]; rw [Nat.mul_assoc, Nat.mul_comm (256 ^ k) 256]
              rw [this]; exact ihk n (m * 256)
        exact hmod _ _ _
      rw [this]; exact ih

end Kmip
