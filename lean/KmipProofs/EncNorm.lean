import KmipProofs.SpecCanon
import KmipProofs.EncodeCanon
/-
  C01, second half (encoder side): the encoder model returns the same result on a well-formed value and on its
  normalisation.  With C01_roundtrip this gives: Encode (Decode (Encode v)) = Encode v.
-/
namespace Kmip

/-! ### isZeroValue on Go zero values -/

mutual
  theorem isZero_zeroSD : (sd : SD) → sd.descOk = true → SD.OK sd = true → isZeroVal (.struct sd) (zeroSD sd) = .ok true
    | .mk nm t fs, hd, hok => by
      rw [zeroSD, isZeroVal, if_pos hd]
      rw [SD.OK] at hok
      exact isZeroFlds_zero fs 0 fs hok
  termination_by structural sd _ _ => sd
  theorem isZeroFlds_zero (all : List Fld) : (i : Nat) → (fs : List Fld) → fldsOK all i fs = true →
      isZeroFlds fs (zeroFlds fs) = .ok true
    | _, [], _ => by simp [zeroFlds, isZeroFlds]
    | i, f :: fs, h => by
      obtain ⟨hf, _, _, hr⟩ := fldsOK_cons all i f fs h
      rw [zeroFlds, isZeroFlds]
      by_cases hig : f.ignored = true
      · rw [if_pos hig]; exact isZeroFlds_zero all (i + 1) fs hr
      · rw [if_neg hig, isZeroFV_zero all i f hf]
        exact isZeroFlds_zero all (i + 1) fs hr
  termination_by structural _ fs _ => fs
  theorem isZeroFV_zero (all : List Fld) (i : Nat) : (f : Fld) → fldOK all i f = true → isZeroFV f (zeroFld f) = .ok true
    | .mk nm t req sl sk (.prim p), _ => by
      cases sk <;> cases sl <;> cases p <;> simp [zeroFld, isZeroFV, isZeroVal, zeroVal, Fld.ty]
    | .mk nm t req sl sk (.struct sd), hf => by
      obtain ⟨hd, hok⟩ := fldOK_struct all i nm t req sl sk sd hf
      have := isZero_zeroSD sd hd hok
      cases sk <;> cases sl <;> simp [zeroFld, isZeroFV, Fld.ty, this]
    | .mk nm t req sl sk (.dyn a b), _ => by
      cases sk <;> cases sl <;> simp [zeroFld, isZeroFV]
    | .mk nm t req sl sk .unsupported, hf => (fldOK_unsupported all i nm t req sl sk hf).elim
  termination_by structural f _ => f
end

/-! ### isZeroValue is total on well-formed values -/

theorem ok_of_spec_bool (o : Outcome Bool) (b : Bool) (hok : ∃ x, o = .ok x) (hs : ∀ x, o = .ok x → x = b) : o = .ok b := by
  obtain ⟨x, hx⟩ := hok
  rw [hx, hs x hx]

mutual
  theorem isZeroVal_ok (ty : FTy) (hty : ∀ sd, ty = .struct sd → sd.descOk = true ∧ SD.OK sd = true) :
      (v : Val) → WFv ty v → ∃ b, isZeroVal ty v = .ok b
    | .int _, _ => ⟨_, by rw [isZeroVal]⟩
    | .long _, _ => ⟨_, by rw [isZeroVal]⟩
    | .enum _, _ => ⟨_, by rw [isZeroVal]⟩
    | .bool _, _ => ⟨_, by rw [isZeroVal]⟩
    | .bytes _, _ => ⟨_, by rw [isZeroVal]⟩
    | .text _, _ => ⟨_, by rw [isZeroVal]⟩
    | .time _, _ => ⟨_, by rw [isZeroVal]⟩
    | .interval _, _ => ⟨_, by rw [isZeroVal]⟩
    | .struct fs, hw => by
      cases ty with
      | prim p => simp [WFv] at hw
      | dyn a b => simp [WFv] at hw
      | unsupported => simp [WFv] at hw
      | struct sd =>
        obtain ⟨hd, hok⟩ := hty sd rfl
        cases sd with
        | mk nm t fields =>
          simp only [WFv, SD.fields] at hw
          rw [SD.OK] at hok
          rw [isZeroVal, if_pos hd]
          exact isZeroFlds_ok fields 0 fields fs [] hok hw
  termination_by structural v _ => v
  theorem isZeroFlds_ok (all : List Fld) : (i : Nat) → (fs : List Fld) → (vs : List FV) → (prev : List FV) →
      fldsOK all i fs = true → WFflds fs vs prev → ∃ b, isZeroFlds fs vs = .ok b
    | _, [], [], _, _, _ => ⟨_, by rw [isZeroFlds]⟩
    | _, [], _ :: _, _, _, hw => by simp [WFflds] at hw
    | _, _ :: _, [], _, _, hw => by simp [WFflds] at hw
    | i, f :: fs, v :: vs, prev, hok, hw => by
      obtain ⟨hf, _, _, hr⟩ := fldsOK_cons all i f fs hok
      rw [WFflds] at hw
      obtain ⟨b2, h2⟩ := isZeroFlds_ok all (i + 1) fs vs _ hr hw.2
      rw [isZeroFlds]
      by_cases hig : f.ignored = true
      · rw [if_pos hig]; exact ⟨b2, h2⟩
      · rw [if_neg hig]
        obtain ⟨b1, h1⟩ := isZeroFV_ok all i f prev hf v hw.1 hig
        rw [h1]
        cases b1
        · exact ⟨false, rfl⟩
        · exact ⟨b2, h2⟩
  termination_by structural _ _ vs _ _ _ => vs
  theorem isZeroFV_ok (all : List Fld) (i : Nat) (f : Fld) (prev : List FV) (hf : fldOK all i f = true) :
      (v : FV) → WFfv f v prev → ¬ f.ignored = true → ∃ b, isZeroFV f v = .ok b
    | .one v, hw, _ => by
      simp only [WFfv] at hw
      rcases hw.2.2 with ⟨_, hzf⟩ | hwv
      · rw [hzf]; exact ⟨true, isZeroFV_zero all i f hf⟩
      · rw [isZeroFV]
        refine isZeroVal_ok f.ty ?_ v hwv
        intro sd e
        cases f with
        | mk nm t req sl sk ty =>
          simp only [Fld.ty] at e
          subst e
          exact fldOK_struct all i nm t req sl sk sd hf
    | .many _, _, _ => ⟨_, by rw [isZeroFV]⟩
    | .dyn .nil, _, _ => ⟨_, by rw [isZeroFV]⟩
    | .dyn (.val _ _ _), _, _ => ⟨_, by rw [isZeroFV]⟩
    | .dyn (.bad _), _, _ => ⟨_, by rw [isZeroFV]⟩
    | .skip _, hw, hig => by
      simp only [WFfv] at hw
      exact absurd hw hig
  termination_by structural v _ _ => v
end

theorem isZeroVal_total (ty : FTy) (hty : ∀ sd, ty = .struct sd → sd.descOk = true ∧ SD.OK sd = true) (v : Val)
    (hw : WFv ty v) : isZeroVal ty v = .ok (specZero ty v) :=
  ok_of_spec_bool _ _ (isZeroVal_ok ty hty v hw) (fun x hx => isZeroVal_spec v ty x hx)

/-! ### the encoder cannot tell a well-formed value from its normalisation -/

theorem fld_hty (all : List Fld) (i : Nat) (f : Fld) (hf : fldOK all i f = true) :
    ∀ sd, f.ty = .struct sd → sd.descOk = true ∧ SD.OK sd = true := by
  intro sd e
  cases f with
  | mk nm t req sl sk ty =>
    simp only [Fld.ty] at e
    subst e
    exact fldOK_struct all i nm t req sl sk sd hf

/-- the struct type a well-formed dynamic value dispatches to is describable and well-formed -/
theorem dyn_hty (all : List Fld) (i : Nat) (f : Fld) (prev : List FV) (hf : fldOK all i f = true) (p : Bool) (ty' : FTy) (v : Val)
    (hw : WFfv f (.dyn (.val p ty' v)) prev) : ∀ sd, ty' = .struct sd → sd.descOk = true ∧ SD.OK sd = true := by
  intro sd e
  subst e
  simp only [WFfv] at hw
  obtain ⟨_, _, ⟨sel, table, fv, k, e, hty, _, _, hlook, hdec, hety⟩, _⟩ := hw
  cases f with
  | mk nm t req sl sk ty =>
    simp only [Fld.ty] at hty
    subst hty
    obtain ⟨_, hdents⟩ := fldOK_dyn all i nm t req sl sk sel table hf
    cases e with
    | mk k0 ptr ety =>
      simp only [DEnt.ty] at hety
      subst hety
      simp only [DEnt.decodable, Bool.and_eq_true] at hdec
      exact ⟨hdec.2, dentsOK_lookup k sd table k0 ptr hdents hlook⟩

theorem encFV_zeroFld (all : List Fld) (i : Nat) (nm : String) (t : Nat) (ty : FTy)
    (hf : fldOK all i (.mk nm t false false false ty) = true) :
    encFV (.mk nm t false false false ty) (zeroFld (.mk nm t false false false ty)) = .ok [] := by
  have hz := isZeroFV_zero all i _ hf
  cases ty with
  | prim p =>
    simp [zeroFld, isZeroFV, Fld.ty] at hz
    simp [zeroFld, encFV, Fld.required, Fld.ty, hz]
  | struct sd =>
    simp [zeroFld, isZeroFV, Fld.ty] at hz
    simp [zeroFld, encFV, Fld.required, Fld.ty, hz]
  | dyn a b => simp [zeroFld, encFV, Fld.required]
  | unsupported => exact (fldOK_unsupported all i nm t false false false hf).elim

mutual
  theorem isZeroVal_norm (ty : FTy) (hty : ∀ sd, ty = .struct sd → sd.descOk = true ∧ SD.OK sd = true) :
      (v : Val) → WFv ty v → isZeroVal ty (normVal ty v) = isZeroVal ty v
    | .int _, _ => by simp [normVal]
    | .long _, _ => by simp [normVal]
    | .enum _, _ => by simp [normVal]
    | .bool _, _ => by simp [normVal]
    | .bytes _, _ => by simp [normVal]
    | .text _, _ => by simp [normVal]
    | .time _, _ => by simp [normVal]
    | .interval _, _ => by simp [normVal]
    | .struct fs, hw => by
      cases ty with
      | prim p => simp [WFv] at hw
      | dyn a b => simp [WFv] at hw
      | unsupported => simp [WFv] at hw
      | struct sd =>
        obtain ⟨hd, hok⟩ := hty sd rfl
        cases sd with
        | mk nm t fields =>
          simp only [WFv, SD.fields] at hw
          rw [SD.OK] at hok
          simp only [normVal, SD.fields]
          rw [isZeroVal, isZeroVal, if_pos hd, if_pos hd]
          exact isZeroFlds_norm fields 0 fields fs [] hok hw
  termination_by structural v _ => v
  theorem isZeroFlds_norm (all : List Fld) : (i : Nat) → (fs : List Fld) → (vs : List FV) → (prev : List FV) →
      fldsOK all i fs = true → WFflds fs vs prev → isZeroFlds fs (normFlds fs vs) = isZeroFlds fs vs
    | _, [], [], _, _, _ => by simp [normFlds]
    | _, [], _ :: _, _, _, hw => by simp [WFflds] at hw
    | _, _ :: _, [], _, _, hw => by simp [WFflds] at hw
    | i, f :: fs, v :: vs, prev, hok, hw => by
      obtain ⟨hf, _, _, hr⟩ := fldsOK_cons all i f fs hok
      rw [WFflds] at hw
      have ih := isZeroFlds_norm all (i + 1) fs vs _ hr hw.2
      rw [normFlds, isZeroFlds, isZeroFlds]
      by_cases hig : f.ignored = true
      · rw [if_pos hig, if_pos hig]; exact ih
      · rw [if_neg hig, if_neg hig, isZeroFV_norm all i f prev hf v hw.1 hig, ih]
  termination_by structural _ _ vs _ _ _ => vs
  theorem isZeroFV_norm (all : List Fld) (i : Nat) (f : Fld) (prev : List FV) (hf : fldOK all i f = true) :
      (v : FV) → WFfv f v prev → ¬ f.ignored = true → isZeroFV f (normFV f v) = isZeroFV f v
    | .one v, hw, _ => by
      simp only [WFfv] at hw
      obtain ⟨_, hig, hwv⟩ := hw
      rcases hwv with ⟨hr, hzf⟩ | hwv
      · rw [normFV_zero_one f v hig hr hzf]
      by_cases hz : (!f.required && specZero f.ty v) = true
      · rw [normFV_one_absent f v hig hz, isZeroFV_zero all i f hf, isZeroFV,
          isZeroVal_total f.ty (fld_hty all i f hf) v hwv]
        simp only [Bool.and_eq_true] at hz
        rw [hz.2]
      · rw [normFV_one_present f v hig hz, isZeroFV, isZeroFV]
        exact isZeroVal_norm f.ty (fld_hty all i f hf) v hwv
    | .many vs, hw, _ => by
      simp only [WFfv] at hw
      have hn : normFV f (.many vs) = .many (normMany f.ty vs) := by simp [normFV, hw.2.1]
      rw [hn, isZeroFV, isZeroFV, normMany_isEmpty]
    | .dyn .nil, _, _ => by simp [normFV]
    | .dyn (.val _ _ _), _, _ => by simp [normFV, isZeroFV]
    | .dyn (.bad _), hw, _ => by simp [WFfv] at hw
    | .skip _, hw, hig => by
      simp only [WFfv] at hw
      exact absurd hw hig
  termination_by structural v _ _ => v
end

mutual
  theorem encVal_norm (tag : Nat) (ty : FTy) (hty : ∀ sd, ty = .struct sd → sd.descOk = true ∧ SD.OK sd = true) :
      (v : Val) → WFv ty v → encVal tag ty (normVal ty v) = encVal tag ty v
    | .int _, _ => by simp [normVal]
    | .long _, _ => by simp [normVal]
    | .enum _, _ => by simp [normVal]
    | .bool _, _ => by simp [normVal]
    | .bytes _, _ => by simp [normVal]
    | .text _, _ => by simp [normVal]
    | .time _, _ => by simp [normVal]
    | .interval _, _ => by simp [normVal]
    | .struct fs, hw => by
      cases ty with
      | prim p => simp [WFv] at hw
      | dyn a b => simp [WFv] at hw
      | unsupported => simp [WFv] at hw
      | struct sd =>
        obtain ⟨hd, hok⟩ := hty sd rfl
        cases sd with
        | mk nm t fields =>
          simp only [WFv, SD.fields] at hw
          rw [SD.OK] at hok
          simp only [normVal, SD.fields]
          rw [encVal, encVal, if_pos hd, if_pos hd]
          simp only [SD.fields]
          rw [encFlds_norm fields 0 fields fs [] hok hw]
  termination_by structural v _ => v
  theorem encFlds_norm (all : List Fld) : (i : Nat) → (fs : List Fld) → (vs : List FV) → (prev : List FV) →
      fldsOK all i fs = true → WFflds fs vs prev → encFlds fs (normFlds fs vs) = encFlds fs vs
    | _, [], [], _, _, _ => by simp [normFlds]
    | _, [], _ :: _, _, _, hw => by simp [WFflds] at hw
    | _, _ :: _, [], _, _, hw => by simp [WFflds] at hw
    | i, f :: fs, v :: vs, prev, hok, hw => by
      obtain ⟨hf, _, _, hr⟩ := fldsOK_cons all i f fs hok
      rw [WFflds] at hw
      have ih := encFlds_norm all (i + 1) fs vs _ hr hw.2
      rw [normFlds, encFlds, encFlds]
      by_cases hig : f.ignored = true
      · rw [if_pos hig, if_pos hig]; exact ih
      · rw [if_neg hig, if_neg hig, encFV_norm all i f prev hf v hw.1 hig, ih]
  termination_by structural _ _ vs _ _ _ => vs
  theorem encFV_norm (all : List Fld) (i : Nat) (f : Fld) (prev : List FV) (hf : fldOK all i f = true) :
      (v : FV) → WFfv f v prev → ¬ f.ignored = true → encFV f (normFV f v) = encFV f v
    | .one v, hw, _ => by
      simp only [WFfv] at hw
      obtain ⟨hsl, hig, hwv⟩ := hw
      rcases hwv with ⟨hr, hzf⟩ | hwv
      · rw [normFV_zero_one f v hig hr hzf]
      have hzt := isZeroVal_total f.ty (fld_hty all i f hf) v hwv
      by_cases hz : (!f.required && specZero f.ty v) = true
      · rw [normFV_one_absent f v hig hz]
        simp only [Bool.and_eq_true, Bool.not_eq_true'] at hz
        cases f with
        | mk nm t req sl sk ty =>
          simp only [Fld.slice] at hsl
          simp only [Fld.required, Fld.ty] at hz hzt
          have hsk : sk = false := by
            simp only [Fld.ignored, Fld.tag, Fld.skip, Bool.or_eq_false_iff] at hig
            exact hig.2
          obtain ⟨hr, hzz⟩ := hz
          subst hsl hsk hr
          rw [encFV_zeroFld all i nm t ty hf]
          simp [encFV, Fld.required, Fld.ty, hzt, hzz]
      · rw [normFV_one_present f v hig hz]
        simp only [encFV, isZeroVal_norm f.ty (fld_hty all i f hf) v hwv,
          encVal_norm f.tag f.ty (fld_hty all i f hf) v hwv]
    | .many vs, hw, _ => by
      simp only [WFfv] at hw
      have hn : normFV f (.many vs) = .many (normMany f.ty vs) := by simp [normFV, hw.2.1]
      rw [hn, encFV, encFV]
      exact encMany_norm f.tag f.ty (fld_hty all i f hf) vs hw.2.2.2
    | .dyn .nil, _, _ => by simp [normFV]
    | .dyn (.val p ty' v), hw, _ => by
      have hty' := dyn_hty all i f prev hf p ty' v hw
      simp only [WFfv] at hw
      obtain ⟨_, _, _, hwv⟩ := hw
      have ih := encVal_norm f.tag ty' hty' v hwv
      cases ty' with
      | prim q => simp only [normFV, encFV]; exact ih
      | struct sd => simp only [normFV, encFV]; exact ih
      | dyn a b => simp [normFV, encFV]
      | unsupported => simp [normFV, encFV]
    | .dyn (.bad _), hw, _ => by simp [WFfv] at hw
    | .skip _, hw, hig => by
      simp only [WFfv] at hw
      exact absurd hw hig
  termination_by structural v _ _ => v
  theorem encMany_norm (tag : Nat) (ty : FTy) (hty : ∀ sd, ty = .struct sd → sd.descOk = true ∧ SD.OK sd = true) :
      (vs : List Val) → WFmany ty vs → encMany tag ty (normMany ty vs) = encMany tag ty vs
    | [], _ => by simp [normMany]
    | v :: vs, hw => by
      rw [WFmany] at hw
      rw [normMany, encMany, encMany, encVal_norm tag ty hty v hw.1, encMany_norm tag ty hty vs hw.2]
  termination_by structural vs _ => vs
end

end Kmip
