import KmipModel.Io
/-
  io.ReadFull over any chunking of a source = reading from the flat byte string (C06).
-/
namespace Kmip.Io

theorem flat_cons (c : Bytes) (cs : List Bytes) (f : Fin) (e : Bool) :
    (Src.mk (c :: cs) f e).flat = c ++ (Src.mk cs f e).flat := by
  simp [Src.flat]

/-- the loop invariant: with `acc` already in the buffer, ReadFull returns the next `k - |acc|` flat bytes appended to it,
    leaving a source that carries exactly the remaining flat bytes — or fails as the flat reader would -/
theorem readFullLoop_flat : ∀ (fuel : Nat) (s : Src) (k : Nat) (acc : Bytes), s.chunks.length + 2 ≤ fuel →
    (k ≤ acc.length + s.flat.length →
      ∃ s', readFullLoop fuel s k acc = .ok (acc ++ s.flat.take (k - acc.length), s') ∧
        s'.flat = s.flat.drop (k - acc.length) ∧ s'.fin = s.fin ∧ s'.eager = s.eager) ∧
    (¬ k ≤ acc.length + s.flat.length →
      readFullLoop fuel s k acc = .err (if acc.length + s.flat.length = 0 then s.fin.err else .other))
  | 0, s, k, acc, h => by omega
  | fuel + 1, ⟨chunks, fin, eager⟩, k, acc, h => by
    rw [readFullLoop]
    by_cases hk : k ≤ acc.length
    · rw [if_pos hk]
      have : k - acc.length = 0 := by omega
      constructor
      · intro _
        exact ⟨_, by rw [this]; simp, by rw [this]; simp, rfl, rfl⟩
      · intro h2; omega
    · rw [if_neg hk]
      cases chunks with
      | nil =>
        simp only [Src.read, Src.flat, List.flatten_nil, List.length_nil, Nat.add_zero, List.append_nil]
        constructor
        · intro h2; omega
        · intro _
          exact if_neg hk
      | cons c cs =>
        simp only [Src.read]
        have hfl : (Src.mk (c :: cs) fin eager).flat = c ++ (Src.mk cs fin eager).flat := flat_cons c cs fin eager
        by_cases hc : c.length ≤ k - acc.length
        · rw [if_pos hc]
          by_cases he : (cs.isEmpty && eager) = true
          · -- the last chunk, delivered together with the final error
            rw [if_pos he]
            simp only [Bool.and_eq_true, List.isEmpty_iff] at he
            obtain ⟨hcs, _⟩ := he
            subst hcs
            simp only [Src.flat, List.flatten_cons, List.flatten_nil, List.append_nil, List.length_append]
            constructor
            · intro h2
              have hkk : k - acc.length = c.length := by omega
              rw [if_pos (by omega)]
              refine ⟨⟨[], fin, eager⟩, ?_, ?_, rfl, rfl⟩
              · rw [hkk, List.take_length]
              · simp [hkk, Src.flat]
            · intro h2
              rw [if_neg (by omega)]
          · rw [if_neg he]
            simp only
            have ih := readFullLoop_flat fuel ⟨cs, fin, eager⟩ k (acc ++ c) (by simp at h ⊢; omega)
            rw [hfl]
            simp only [List.length_append] at ih ⊢
            constructor
            · intro h2
              obtain ⟨s', h1, h3, h4, h5⟩ := ih.1 (by omega)
              refine ⟨s', ?_, ?_, h4, h5⟩
              · rw [h1, List.append_assoc]
                congr 1
                rw [List.take_append]
                have : k - acc.length - c.length = k - (acc.length + c.length) := by omega
                rw [List.take_of_length_le hc, this]
              · rw [h3, List.drop_append]
                have : k - acc.length - c.length = k - (acc.length + c.length) := by omega
                rw [List.drop_of_length_le hc, this]; simp
            · intro h2
              rw [ih.2 (by omega)]
              have : (acc.length + c.length + (Src.mk cs fin eager).flat.length = 0) ↔
                  (acc.length + (c.length + (Src.mk cs fin eager).flat.length) = 0) := by omega
              by_cases hz : acc.length + c.length + (Src.mk cs fin eager).flat.length = 0
              · rw [if_pos hz, if_pos (this.mp hz)]
              · rw [if_neg hz, if_neg (fun h => hz (this.mpr h))]
        · rw [if_neg hc]
          simp only
          -- the head chunk is longer than what is still wanted: the buffer is full after this read
          have hlen : (acc ++ c.take (k - acc.length)).length = k := by
            simp [List.length_take]; omega
          cases fuel with
          | zero => simp at h
          | succ fuel =>
            rw [readFullLoop, if_pos (by omega)]
            rw [hfl]
            constructor
            · intro _
              refine ⟨⟨c.drop (k - acc.length) :: cs, fin, eager⟩, ?_, ?_, rfl, rfl⟩
              · congr 1
                rw [List.take_append_of_le_length (by omega)]
              · simp only [Src.flat, List.flatten_cons]
                rw [List.drop_append_of_le_length (by omega)]
            · intro h2
              simp only [List.length_append] at h2
              omega

/-- `io.ReadFull` over any chunking: the first `k` flat bytes and a source carrying the rest, or the flat reader's error -/
theorem readFull_flat (s : Src) (k : Nat) :
    (k ≤ s.flat.length → ∃ s', s.readFull k = .ok (s.flat.take k, s') ∧ s'.flat = s.flat.drop k ∧ s'.fin = s.fin ∧ s'.eager = s.eager) ∧
    (¬ k ≤ s.flat.length → s.readFull k = .err (if s.flat.length = 0 then s.fin.err else .other)) := by
  have h := readFullLoop_flat (s.chunks.length + 2) s k [] (Nat.le_refl _)
  simp only [List.length_nil, Nat.zero_add, Nat.sub_zero, List.nil_append] at h
  exact h

/-! ### io.LimitReader -/

/-- what the limited reader reports when it has nothing (more) to give -/
def limErr (l : Lim) : ErrClass := if l.n ≤ l.src.flat.length then .eof else l.src.fin.err

theorem limLoop_flat : ∀ (fuel : Nat) (l : Lim) (k : Nat) (acc : Bytes), l.src.chunks.length + 3 ≤ fuel →
    (k ≤ acc.length + min l.n l.src.flat.length →
      ∃ l', limReadFullLoop fuel l k acc = .ok (acc ++ l.src.flat.take (k - acc.length), l') ∧
        l'.src.flat = l.src.flat.drop (k - acc.length) ∧ l'.n = l.n - (k - acc.length) ∧ l'.src.fin = l.src.fin) ∧
    (¬ k ≤ acc.length + min l.n l.src.flat.length →
      limReadFullLoop fuel l k acc = .err (if acc.length + min l.n l.src.flat.length = 0 then limErr l else .other))
  | 0, l, k, acc, h => by omega
  | fuel + 1, ⟨⟨chunks, fin, eager⟩, n⟩, k, acc, h => by
    rw [limReadFullLoop]
    by_cases hk : k ≤ acc.length
    · rw [if_pos hk]
      have : k - acc.length = 0 := by omega
      constructor
      · intro _
        exact ⟨_, by rw [this]; simp, by rw [this]; simp, by rw [this]; simp, rfl⟩
      · intro h2; omega
    · rw [if_neg hk]
      by_cases hn : n = 0
      · -- the limit is used up: EOF
        subst hn
        simp only [Lim.read, if_true, List.append_nil, Nat.zero_min]
        constructor
        · intro h2; omega
        · intro _
          rw [if_neg hk]
          simp [limErr]
      · simp only [Lim.read, if_neg hn]
        cases chunks with
        | nil =>
          simp only [Src.read, Src.flat, List.flatten_nil, List.length_nil, List.append_nil, Nat.min_zero, Nat.add_zero]
          constructor
          · intro h2; omega
          · intro _
            rw [if_neg hk]
            have : ¬ n ≤ 0 := by omega
            simp [limErr, Src.flat, this]
        | cons c cs =>
          have hfl : (Src.mk (c :: cs) fin eager).flat = c ++ (Src.mk cs fin eager).flat := flat_cons c cs fin eager
          simp only [Src.read]
          by_cases hc : c.length ≤ min (k - acc.length) n
          · rw [if_pos hc]
            by_cases he : (cs.isEmpty && eager) = true
            · rw [if_pos he]
              simp only [Bool.and_eq_true, List.isEmpty_iff] at he
              obtain ⟨hcs, _⟩ := he
              subst hcs
              simp only [Src.flat, List.flatten_cons, List.flatten_nil, List.append_nil, List.length_append]
              constructor
              · intro h2
                have hkk : k - acc.length = c.length := by omega
                rw [if_pos (by omega)]
                refine ⟨⟨⟨[], fin, eager⟩, n - c.length⟩, ?_, ?_, ?_, rfl⟩
                · rw [hkk, List.take_length]
                · simp [hkk, Src.flat]
                · rw [hkk]
              · intro h2
                rw [if_neg (by omega)]
                have hmin : min n c.length = c.length := by omega
                rw [hmin]
                by_cases hz : acc.length + c.length = 0
                · rw [if_pos hz, if_pos hz]
                  have : ¬ n ≤ c.length := by omega
                  simp [limErr, Src.flat, this]
                · rw [if_neg hz, if_neg hz]
            · rw [if_neg he]
              simp only
              have hck : c.length ≤ k - acc.length := by omega
              have hcn : c.length ≤ n := by omega
              have hmin : acc.length + c.length + min (n - c.length) (Src.mk cs fin eager).flat.length =
                  acc.length + min n (c.length + (Src.mk cs fin eager).flat.length) := by omega
              have hfuel : (Lim.mk ⟨cs, fin, eager⟩ (n - c.length)).src.chunks.length + 3 ≤ fuel := by
                simp only [List.length_cons] at h ⊢; omega
              have hle : (n - c.length ≤ (Src.mk cs fin eager).flat.length) ↔ (n ≤ c.length + (Src.mk cs fin eager).flat.length) := by omega
              have ih := limLoop_flat fuel ⟨⟨cs, fin, eager⟩, n - c.length⟩ k (acc ++ c) hfuel
              rw [hfl]
              simp only [List.length_append] at ih ⊢
              constructor
              · intro h2
                have hA : k ≤ acc.length + c.length + min (n - c.length) (Src.mk cs fin eager).flat.length := by
                  rw [hmin]; exact h2
                obtain ⟨l', h1, h3, h4, h5⟩ := ih.1 hA
                refine ⟨l', ?_, ?_, ?_, h5⟩
                · rw [h1, List.append_assoc]
                  congr 1
                  rw [List.take_append]
                  have : k - acc.length - c.length = k - (acc.length + c.length) := by omega
                  rw [List.take_of_length_le hck, this]
                · rw [h3, List.drop_append]
                  have : k - acc.length - c.length = k - (acc.length + c.length) := by omega
                  rw [List.drop_of_length_le hck, this]; simp
                · rw [h4]; clear ih h1 h3; omega
              · intro h2
                have hB : ¬ k ≤ acc.length + c.length + min (n - c.length) (Src.mk cs fin eager).flat.length := by
                  rw [hmin]; exact h2
                rw [ih.2 hB]
                have hl : limErr ⟨⟨cs, fin, eager⟩, n - c.length⟩ = limErr ⟨⟨c :: cs, fin, eager⟩, n⟩ := by
                  simp only [limErr, hfl, List.length_append]
                  by_cases hx : n ≤ c.length + (Src.mk cs fin eager).flat.length
                  · rw [if_pos hx, if_pos (hle.mpr hx)]
                  · rw [if_neg hx, if_neg (fun h => hx (hle.mp h))]
                rw [hl, hmin]
          · rw [if_neg hc]
            simp only
            -- only part of the head chunk is handed out: either the buffer is full now, or the limit is used up
            have hm : min (k - acc.length) n < c.length := by omega
            have hlen : (acc ++ c.take (min (k - acc.length) n)).length = acc.length + min (k - acc.length) n := by
              simp [List.length_take]; omega
            rw [hfl]
            cases fuel with
            | zero => simp at h
            | succ fuel =>
              rw [limReadFullLoop]
              by_cases hfull : k - acc.length ≤ n
              · -- the request is satisfied
                have hmin : min (k - acc.length) n = k - acc.length := by omega
                rw [if_pos (by rw [hlen]; omega)]
                constructor
                · intro _
                  refine ⟨⟨⟨c.drop (min (k - acc.length) n) :: cs, fin, eager⟩, n - (List.take (min (k - acc.length) n) c).length⟩, ?_, ?_, ?_, rfl⟩
                  · congr 1
                    rw [hmin, List.take_append_of_le_length (by omega)]
                  · simp only [Src.flat, List.flatten_cons]
                    rw [hmin, List.drop_append_of_le_length (by omega)]
                  · simp only [List.length_take]; omega
                · intro h2
                  simp only [List.length_append] at h2
                  omega
              · -- the limit cut the read short: the next Read reports EOF
                have hmin : min (k - acc.length) n = n := by omega
                rw [if_neg (by rw [hlen]; omega)]
                have hn0 : n - (List.take (min (k - acc.length) n) c).length = 0 := by
                  simp only [List.length_take]; omega
                simp only [Lim.read]
                rw [if_pos hn0]
                simp only [List.append_nil]
                rw [if_neg (by rw [hlen]; omega)]
                constructor
                · intro h2
                  simp only [List.length_append] at h2
                  omega
                · intro _
                  rw [hlen]
                  simp only [List.length_append]
                  rw [if_neg (by omega), if_neg (by omega)]

/-- `io.ReadFull` through `io.LimitReader(src, n)`, for any chunking: exactly the flat reader on the first `n` bytes, which
    reports EOF at the limit and the source's own error if the source ends before it -/
theorem Lim.readFull_flat (l : Lim) (k : Nat) :
    (k ≤ min l.n l.src.flat.length → ∃ l', l.readFull k = .ok (l.src.flat.take k, l') ∧ l'.src.flat = l.src.flat.drop k ∧
        l'.n = l.n - k ∧ l'.src.fin = l.src.fin) ∧
    (¬ k ≤ min l.n l.src.flat.length → l.readFull k = .err (if min l.n l.src.flat.length = 0 then limErr l else .other)) := by
  have h := limLoop_flat (l.src.chunks.length + 3) l k [] (Nat.le_refl _)
  simp only [List.length_nil, Nat.zero_add, Nat.sub_zero, List.nil_append] at h
  exact h

end Kmip.Io
