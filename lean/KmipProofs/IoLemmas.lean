import KmipModel.Io
/-
  io.ReadFull over any chunking of a source = reading from the flat byte string (C06).
-/
namespace Kmip.Io

theorem flat_cons (c : Bytes) (cs : List Bytes) (f : Fin) (e : Bool) :
    (Src.mk (c :: cs) f e).flat = c ++ (Src.mk cs f e).flat := by
  simp [Src.flat]

/-- the loop invariant: with `acc` already in the buffer, ReadFull returns the next `k - |acc|` flat bytes appended to it,
    leaving a source that carries exactly the remaining flat bytes — or fails as the flat reader would -/
theorem readFullLoop_flat : ∀ (fuel : Nat) (s : Src) (k : Nat) (acc : Bytes), s.chunks.length + 2 ≤ fuel →
    (k ≤ acc.length + s.flat.length →
      ∃ s', readFullLoop fuel s k acc = .ok (acc ++ s.flat.take (k - acc.length), s') ∧
        s'.flat = s.flat.drop (k - acc.length) ∧ s'.fin = s.fin ∧ s'.eager = s.eager) ∧
    (¬ k ≤ acc.length + s.flat.length →
      readFullLoop fuel s k acc = .err (if acc.length + s.flat.length = 0 then s.fin.err else .other))
  | 0, s, k, acc, h => by omega
  | fuel + 1, ⟨chunks, fin, eager⟩, k, acc, h => by
    rw [readFullLoop]
    by_cases hk : k ≤ acc.length
    · rw [if_pos hk]
      have : k - acc.length = 0 := by omega
      constructor
      · intro _
        exact ⟨_, by rw [this]; simp, by rw [this]; simp, rfl, rfl⟩
      · intro h2; omega
    · rw [if_neg hk]
      cases chunks with
      | nil =>
        simp only [Src.read, Src.flat, List.flatten_nil, List.length_nil, Nat.add_zero, List.append_nil]
        constructor
        · intro h2; omega
        · intro _
          exact if_neg hk
      | cons c cs =>
        simp only [Src.read]
        have hfl : (Src.mk (c :: cs) fin eager).flat = c ++ (Src.mk cs fin eager).flat := flat_cons c cs fin eager
        by_cases hc : c.length ≤ k - acc.length
        · rw [if_pos hc]
          by_cases he : (cs.isEmpty && eager) = true
          · -- the last chunk, delivered together with the final error
            rw [if_pos he]
            simp only [Bool.and_eq_true, List.isEmpty_iff] at he
            obtain ⟨hcs, _⟩ := he
            subst hcs
            simp only [Src.flat, List.flatten_cons, List.flatten_nil, List.append_nil, List.length_append]
            constructor
            · intro h2
              have hkk : k - acc.length = c.length := by omega
              rw [if_pos (by omega)]
              refine ⟨⟨[], fin, eager⟩, ?_, ?_, rfl, rfl⟩
              · rw [hkk, List.take_length]
              · simp [hkk, Src.flat]
            · intro h2
              rw [if_neg (by omega)]
          · rw [if_neg he]
            simp only
            have ih := readFullLoop_flat fuel ⟨cs, fin, eager⟩ k (acc ++ c) (by simp at h ⊢; omega)
            rw [hfl]
            simp only [List.length_append] at ih ⊢
            constructor
            · intro h2
              obtain ⟨s', h1, h3, h4, h5⟩ := ih.1 (by omega)
              refine ⟨s', ?_, ?_, h4, h5⟩
              · rw [h1, List.append_assoc]
                congr 1
                rw [List.take_append]
                have : k - acc.length - c.length = k - (acc.length + c.length) := by omega
                rw [List.take_of_length_le hc, this]
              · rw [h3, List.drop_append]
                have : k - acc.length - c.length = k - (acc.length + c.length) := by omega
                rw [List.drop_of_length_le hc, this]; simp
            · intro h2
              rw [ih.2 (by omega)]
              have : (acc.length + c.length + (Src.mk cs fin eager).flat.length = 0) ↔
                  (acc.length + (c.length + (Src.mk cs fin eager).flat.length) = 0) := by omega
              by_cases hz : acc.length + c.length + (Src.mk cs fin eager).flat.length = 0
              · rw [if_pos hz, if_pos (this.mp hz)]
              · rw [if_neg hz, if_neg (fun h => hz (this.mpr h))]
        · rw [if_neg hc]
          simp only
          -- the head chunk is longer than what is still wanted: the buffer is full after this read
          have hlen : (acc ++ c.take (k - acc.length)).length = k := by
            simp [List.length_take]; omega
          cases fuel with
          | zero => simp at h
          | succ fuel =>
            rw [readFullLoop, if_pos (by omega)]
            rw [hfl]
            constructor
            · intro _
              refine ⟨⟨c.drop (k - acc.length) :: cs, fin, eager⟩, ?_, ?_, rfl, rfl⟩
              · congr 1
                rw [List.take_append_of_le_length (by omega)]
              · simp only [Src.flat, List.flatten_cons]
                rw [List.drop_append_of_le_length (by omega)]
            · intro h2
              simp only [List.length_append] at h2
              omega

/-- `io.ReadFull` over any chunking: the first `k` flat bytes and a source carrying the rest, or the flat reader's error -/
theorem readFull_flat (s : Src) (k : Nat) :
    (k ≤ s.flat.length → ∃ s', s.readFull k = .ok (s.flat.take k, s') ∧ s'.flat = s.flat.drop k ∧ s'.fin = s.fin ∧ s'.eager = s.eager) ∧
    (¬ k ≤ s.flat.length → s.readFull k = .err (if s.flat.length = 0 then s.fin.err else .other)) := by
  have h := readFullLoop_flat (s.chunks.length + 2) s k [] (Nat.le_refl _)
  simp only [List.length_nil, Nat.zero_add, Nat.sub_zero, List.nil_append] at h
  exact h

end Kmip.Io
