import KmipModel.WF
import KmipProofs.DecodeItems
/-
  C01 helpers: the specification reads back the canonical encoding of a well-formed value as the normalised value.
-/
namespace Kmip

theorem toNat_ofNat_lt (n : Nat) (h : n < 256) : (UInt8.ofNat n).toNat = n := by
  simp [UInt8.toNat_ofNat', Nat.mod_eq_of_lt h]

theorem header_length' (t ty l : Nat) : (header t ty l).length = 8 := by simp [header, be_length]

/-- the specification's header cut reads back what the serializer wrote -/
theorem cutHeader_header (tag ty len : Nat) (body : Bytes) (ht : tag < tagMax) (hty : ty < 256) (hl : len < two32) :
    cutHeader (header tag ty len ++ body) = some (tag, ty, len, body) := by
  have h3 : (be 3 tag).length = 3 := be_length 3 tag
  have h4 : (be 4 len).length = 4 := be_length 4 len
  unfold cutHeader
  have h8 : 8 ≤ (header tag ty len ++ body).length := by simp [header_length']
  rw [if_pos h8]
  unfold header
  have e1 : List.take 3 (be 3 tag ++ (UInt8.ofNat ty :: be 4 len) ++ body) = be 3 tag := by
    rw [List.append_assoc, List.take_append_of_le_length (by omega)]
    exact List.take_of_length_le (by omega)
  have e2 : List.take 1 (List.drop 3 (be 3 tag ++ (UInt8.ofNat ty :: be 4 len) ++ body)) = [UInt8.ofNat ty] := by
    rw [List.append_assoc, List.drop_append_of_le_length (by omega), List.drop_of_length_le (by omega)]
    simp
  have e3 : List.take 4 (List.drop 4 (be 3 tag ++ (UInt8.ofNat ty :: be 4 len) ++ body)) = be 4 len := by
    rw [List.append_assoc]
    have : List.drop 4 (be 3 tag ++ (UInt8.ofNat ty :: be 4 len ++ body)) = be 4 len ++ body := by
      rw [List.drop_append]
      simp [h3]
    rw [this, List.take_append_of_le_length (by omega)]
    exact List.take_of_length_le (by omega)
  have e4 : List.drop 8 (be 3 tag ++ (UInt8.ofNat ty :: be 4 len) ++ body) = body := by
    rw [List.append_assoc]
    have : List.drop 8 (be 3 tag ++ (UInt8.ofNat ty :: be 4 len ++ body)) = body := by
      rw [List.drop_append]
      simp [h3, h4]
    exact this
  rw [e1, e2, e3, e4, fromBE_be 3 tag (by simpa [tagMax] using ht), fromBE_single, toNat_ofNat_lt ty hty,
    fromBE_be 4 len (by simpa [two32] using hl)]

/-- the specification's primitive reader on a serialized primitive item followed by anything -/
theorem specPrim_ser (tag : Nat) (p : PTy) (code : Nat) (payload rest : Bytes)
    (ht : tag < tagMax) (hc : code < 256) (hl : payload.length < two32) :
    specPrim tag p ((Item.prim tag code payload).ser ++ rest) =
      (primDenote p code payload.length payload).bind fun v => some (v, rest) := by
  rw [specPrim_eq]
  simp only [Item.ser, List.append_assoc]
  rw [cutHeader_header tag code payload.length _ ht hc hl]
  simp only
  have hfit : payload.length + padLen payload.length ≤ (payload ++ (zeros (padLen payload.length) ++ rest)).length := by
    simp [zeros_length]
  rw [if_pos hfit]
  have htag : tagOk tag tag = true := by simp [tagOk]
  rw [if_pos htag]
  have e1 : List.take payload.length (payload ++ (zeros (padLen payload.length) ++ rest)) = payload := by
    rw [List.take_append_of_le_length (by omega)]; exact List.take_of_length_le (by omega)
  have e2 : List.drop (payload.length + padLen payload.length) (payload ++ (zeros (padLen payload.length) ++ rest)) = rest := by
    rw [List.drop_append]
    simp [zeros_length]
  rw [e1, e2]

theorem boolOfBytes_canon (b : Bool) : boolOfBytes (zeros 7 ++ [if b then 1 else 0]) = some b := by
  cases b <;> decide

theorem intervalSecs_wf (s : Nat) (hs : s < two32) : intervalSecs ((s : Int) * 1000000000) = s := by
  unfold intervalSecs
  have h1 : Int.tdiv ((s : Int) * 1000000000) 1000000000 = (s : Int) := by
    rw [Int.mul_tdiv_cancel _ (by decide)]
  rw [h1]
  have : ((s : Int) % (two32 : Int)) = (s : Int) := Int.emod_eq_of_lt (by omega) (by exact_mod_cast hs)
  rw [this]; simp

/-- primitive values: the specification reads the canonical item back as the value itself -/
theorem specPrim_canon (tag : Nat) (p : PTy) (v : Val) (rest : Bytes) (ht : tag < tagMax)
    (hw : WFv (.prim p) v) (hs : (canonVal tag (.prim p) v).Small = true) :
    specPrim tag p ((canonVal tag (.prim p) v).ser ++ rest) = some (v, rest) := by
  cases v with
  | int n =>
    obtain ⟨e, hn⟩ := hw; cases e
    simp only [canonVal]
    rw [specPrim_ser tag .int 2 _ rest ht (by decide) (by simp [be_length, two32])]
    simp [primDenote, PTy.code, be_length, fromBE_be 4 n (by simpa [two32] using hn)]
  | long n =>
    obtain ⟨e, hn⟩ := hw; cases e
    simp only [canonVal]
    rw [specPrim_ser tag .long 3 _ rest ht (by decide) (by simp [be_length, two32])]
    simp [primDenote, PTy.code, be_length, fromBE_be 8 n (by simpa [two64] using hn)]
  | enum n =>
    obtain ⟨e, hn⟩ := hw; cases e
    simp only [canonVal]
    rw [specPrim_ser tag .enum 5 _ rest ht (by decide) (by simp [be_length, two32])]
    simp [primDenote, PTy.code, be_length, fromBE_be 4 n (by simpa [two32] using hn)]
  | bool b =>
    cases hw
    simp only [canonVal]
    rw [specPrim_ser tag .bool 6 _ rest ht (by decide) (by simp [zeros_length, two32])]
    simp [primDenote, PTy.code, zeros_length, boolOfBytes_canon]
  | bytes b =>
    obtain ⟨e, hn⟩ := hw; cases e
    simp only [canonVal]
    rw [specPrim_ser tag .bytes 8 _ rest ht (by decide) hn]
    simp [primDenote, PTy.code]
  | text b =>
    obtain ⟨e, hn⟩ := hw; cases e
    simp only [canonVal]
    rw [specPrim_ser tag .text 7 _ rest ht (by decide) hn]
    simp [primDenote, PTy.code]
  | time n =>
    obtain ⟨e, hn⟩ := hw; cases e
    simp only [canonVal]
    rw [specPrim_ser tag .time 9 _ rest ht (by decide) (by simp [be_length, two32])]
    simp [primDenote, PTy.code, be_length, fromBE_be 8 n (by simpa [two64] using hn)]
  | interval ns =>
    obtain ⟨e, s, hs', hns⟩ := hw; cases e
    subst hns
    simp only [canonVal]
    rw [specPrim_ser tag .interval 10 _ rest ht (by decide) (by simp [be_length, two32])]
    simp [primDenote, PTy.code, be_length, intervalSecs_wf s hs', fromBE_be 4 s (by simpa [two32] using hs')]
  | struct fs => simp [WFv] at hw

def Item.tag : Item → Nat
  | .prim t _ _ => t
  | .struct t _ => t

theorem canonVal_tag (tag : Nat) (ty : FTy) (v : Val) : (canonVal tag ty v).tag = tag := by
  cases v <;> simp [canonVal, Item.tag]
  cases ty <;> simp [Item.tag]

theorem ser_length_ge (i : Item) : 8 ≤ i.ser.length := by
  cases i <;> simp [Item.ser, header_length']

theorem headTag_ser (i : Item) (rest : Bytes) (hs : i.Small = true) : headTag (i.ser ++ rest) = some i.tag := by
  have h8 := ser_length_ge i
  unfold headTag
  rw [if_pos (by simp; omega)]
  cases i with
  | prim t ty p =>
    simp only [Item.Small, Bool.and_eq_true, decide_eq_true_eq] at hs
    simp only [Item.ser, header, Item.tag, List.append_assoc]
    rw [List.take_append_of_le_length (by simp [be_length]), List.take_of_length_le (by simp [be_length])]
    rw [fromBE_be 3 t (by simpa [tagMax] using hs.1.1)]
  | struct t kids =>
    simp only [Item.Small, Bool.and_eq_true, decide_eq_true_eq] at hs
    simp only [Item.ser, header, Item.tag, List.append_assoc]
    rw [List.take_append_of_le_length (by simp [be_length]), List.take_of_length_le (by simp [be_length])]
    rw [fromBE_be 3 t (by simpa [tagMax] using hs.1.1)]

theorem serList_eq_nil (is : List Item) (h : Item.serList is = []) : is = [] := by
  cases is with
  | nil => rfl
  | cons i rest =>
    have := ser_length_ge i
    have hl := congrArg List.length h
    simp only [Item.serList, List.length_append, List.length_nil] at hl
    omega

theorem smallList_append (a b : List Item) : Item.smallList (a ++ b) = (Item.smallList a && Item.smallList b) := by
  induction a with
  | nil => simp [Item.smallList]
  | cons x xs ih => simp [Item.smallList, ih, Bool.and_assoc]

/-- tags of the items a field list can emit -/
def emitTags : List Fld → List Nat
  | [] => []
  | f :: fs => if f.ignored then emitTags fs else f.tag :: emitTags fs

theorem canonMany_tags (tag : Nat) (ty : FTy) (vs : List Val) : ∀ i ∈ canonMany tag ty vs, i.tag = tag := by
  induction vs with
  | nil => simp [canonMany]
  | cons v vs ih =>
    intro i hi
    simp only [canonMany, List.mem_cons] at hi
    rcases hi with hi | hi
    · rw [hi, canonVal_tag]
    · exact ih i hi

theorem canonFV_tags (f : Fld) (v : FV) : ∀ i ∈ canonFV f v, f.ignored = false ∧ i.tag = f.tag := by
  intro i hi
  have hig : (f.skip || f.tag == anyTag) = f.ignored := by simp [Fld.ignored, Bool.or_comm]
  cases v with
  | one v =>
    simp only [canonFV, hig] at hi
    by_cases h1 : f.ignored = true
    · simp [h1] at hi
    · simp only [h1] at hi
      split at hi
      · simp at hi
      · simp at hi; exact ⟨by simpa using h1, by rw [hi.2, canonVal_tag]⟩
  | many vs =>
    simp only [canonFV, hig] at hi
    by_cases h1 : f.ignored = true
    · simp [h1] at hi
    · simp only [h1] at hi
      exact ⟨by simpa using h1, canonMany_tags f.tag f.ty vs i (by simpa using hi)⟩
  | dyn d =>
    simp only [canonFV, hig] at hi
    by_cases h1 : f.ignored = true
    · simp [h1] at hi
    · simp only [h1] at hi
      cases d with
      | nil => simp [canonDyn] at hi
      | val p ty v => simp [canonDyn] at hi; exact ⟨by simpa using h1, by rw [hi, canonVal_tag]⟩
      | bad k => simp [canonDyn] at hi
  | skip b => simp [canonFV] at hi

theorem canonFlds_tags : ∀ (fs : List Fld) (vs : List FV), ∀ i ∈ canonFlds fs vs, i.tag ∈ emitTags fs
  | [], vs => by simp [canonFlds]
  | f :: fs, [] => by simp [canonFlds]
  | f :: fs, v :: vs => by
    intro i hi
    simp only [canonFlds, List.mem_append] at hi
    rcases hi with hi | hi
    · obtain ⟨h1, h2⟩ := canonFV_tags f v i hi
      simp [emitTags, h1, h2]
    · have := canonFlds_tags fs vs i hi
      simp only [emitTags]
      split
      · exact this
      · exact List.mem_cons_of_mem _ this

theorem emitTags_sub (fs : List Fld) : ∀ t ∈ emitTags fs, ∃ g ∈ fs, g.tag = t := by
  induction fs with
  | nil => simp [emitTags]
  | cons f fs ih =>
    intro t ht
    simp only [emitTags] at ht
    split at ht
    · obtain ⟨g, hg, e⟩ := ih t ht; exact ⟨g, by simp [hg], e⟩
    · simp only [List.mem_cons] at ht
      rcases ht with ht | ht
      · exact ⟨f, by simp, ht.symm⟩
      · obtain ⟨g, hg, e⟩ := ih t ht; exact ⟨g, by simp [hg], e⟩

/-- what the specification sees at the head of the bytes of the remaining fields: nothing, or a tag of a LATER field -/
theorem head_of_rest (fs : List Fld) (vs : List FV) (hs : Item.smallList (canonFlds fs vs) = true) :
    Item.serList (canonFlds fs vs) = [] ∨
    ∃ t, headTag (Item.serList (canonFlds fs vs)) = some t ∧ t ∈ emitTags fs := by
  cases hc : canonFlds fs vs with
  | nil => left; simp [Item.serList]
  | cons i rest =>
    right
    rw [hc] at hs
    simp only [Item.smallList, Bool.and_eq_true] at hs
    refine ⟨i.tag, ?_, ?_⟩
    · simp only [Item.serList]; exact headTag_ser i _ hs.1
    · exact canonFlds_tags fs vs i (by rw [hc]; simp)

end Kmip
