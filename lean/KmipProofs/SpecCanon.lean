import KmipModel.WF
import KmipProofs.DecodeItems
import KmipProofs.NormCanon
/-
  C01 helpers: the specification reads back the canonical encoding of a well-formed value as the normalised value.
-/
namespace Kmip

theorem toNat_ofNat_lt (n : Nat) (h : n < 256) : (UInt8.ofNat n).toNat = n := by
  simp [UInt8.toNat_ofNat', Nat.mod_eq_of_lt h]

theorem header_length' (t ty l : Nat) : (header t ty l).length = 8 := by simp [header, be_length]

/-- the specification's header cut reads back what the serializer wrote -/
theorem cutHeader_header (tag ty len : Nat) (body : Bytes) (ht : tag < tagMax) (hty : ty < 256) (hl : len < two32) :
    cutHeader (header tag ty len ++ body) = some (tag, ty, len, body) := by
  have h3 : (be 3 tag).length = 3 := be_length 3 tag
  have h4 : (be 4 len).length = 4 := be_length 4 len
  unfold cutHeader
  have h8 : 8 ≤ (header tag ty len ++ body).length := by simp [header_length']
  rw [if_pos h8]
  unfold header
  have e1 : List.take 3 (be 3 tag ++ (UInt8.ofNat ty :: be 4 len) ++ body) = be 3 tag := by
    rw [List.append_assoc, List.take_append_of_le_length (by omega)]
    exact List.take_of_length_le (by omega)
  have e2 : List.take 1 (List.drop 3 (be 3 tag ++ (UInt8.ofNat ty :: be 4 len) ++ body)) = [UInt8.ofNat ty] := by
    rw [List.append_assoc, List.drop_append_of_le_length (by omega), List.drop_of_length_le (by omega)]
    simp
  have e3 : List.take 4 (List.drop 4 (be 3 tag ++ (UInt8.ofNat ty :: be 4 len) ++ body)) = be 4 len := by
    rw [List.append_assoc]
    have : List.drop 4 (be 3 tag ++ (UInt8.ofNat ty :: be 4 len ++ body)) = be 4 len ++ body := by
      rw [List.drop_append]
      simp [h3]
    rw [this, List.take_append_of_le_length (by omega)]
    exact List.take_of_length_le (by omega)
  have e4 : List.drop 8 (be 3 tag ++ (UInt8.ofNat ty :: be 4 len) ++ body) = body := by
    rw [List.append_assoc]
    have : List.drop 8 (be 3 tag ++ (UInt8.ofNat ty :: be 4 len ++ body)) = body := by
      rw [List.drop_append]
      simp [h3, h4]
    exact this
  rw [e1, e2, e3, e4, fromBE_be 3 tag (by simpa [tagMax] using ht), fromBE_single, toNat_ofNat_lt ty hty,
    fromBE_be 4 len (by simpa [two32] using hl)]

/-- the specification's primitive reader on a serialized primitive item followed by anything -/
theorem specPrim_ser (tag : Nat) (p : PTy) (code : Nat) (payload rest : Bytes)
    (ht : tag < tagMax) (hc : code < 256) (hl : payload.length < two32) :
    specPrim tag p ((Item.prim tag code payload).ser ++ rest) =
      (primDenote p code payload.length payload).bind fun v => some (v, rest) := by
  rw [specPrim_eq]
  simp only [Item.ser, List.append_assoc]
  rw [cutHeader_header tag code payload.length _ ht hc hl]
  simp only
  have hfit : payload.length + padLen payload.length ≤ (payload ++ (zeros (padLen payload.length) ++ rest)).length := by
    simp [zeros_length]
  rw [if_pos hfit]
  have htag : tagOk tag tag = true := by simp [tagOk]
  rw [if_pos htag]
  have e1 : List.take payload.length (payload ++ (zeros (padLen payload.length) ++ rest)) = payload := by
    rw [List.take_append_of_le_length (by omega)]; exact List.take_of_length_le (by omega)
  have e2 : List.drop (payload.length + padLen payload.length) (payload ++ (zeros (padLen payload.length) ++ rest)) = rest := by
    rw [List.drop_append]
    simp [zeros_length]
  rw [e1, e2]

theorem boolOfBytes_canon (b : Bool) : boolOfBytes (zeros 7 ++ [if b then 1 else 0]) = some b := by
  cases b <;> decide

theorem intervalSecs_wf (s : Nat) (hs : s < two32) : intervalSecs ((s : Int) * 1000000000) = s := by
  unfold intervalSecs
  have h1 : Int.tdiv ((s : Int) * 1000000000) 1000000000 = (s : Int) := by
    rw [Int.mul_tdiv_cancel _ (by decide)]
  rw [h1]
  have : ((s : Int) % (two32 : Int)) = (s : Int) := Int.emod_eq_of_lt (by omega) (by exact_mod_cast hs)
  rw [this]; simp

/-- primitive values: the specification reads the canonical item back as the value itself -/
theorem specPrim_canon (tag : Nat) (p : PTy) (v : Val) (rest : Bytes) (ht : tag < tagMax)
    (hw : WFv (.prim p) v) (hs : (canonVal tag (.prim p) v).Small = true) :
    specPrim tag p ((canonVal tag (.prim p) v).ser ++ rest) = some (v, rest) := by
  cases v with
  | int n =>
    obtain ⟨e, hn⟩ := hw; cases e
    simp only [canonVal]
    rw [specPrim_ser tag .int 2 _ rest ht (by decide) (by simp [be_length, two32])]
    simp [primDenote, PTy.code, be_length, fromBE_be 4 n (by simpa [two32] using hn)]
  | long n =>
    obtain ⟨e, hn⟩ := hw; cases e
    simp only [canonVal]
    rw [specPrim_ser tag .long 3 _ rest ht (by decide) (by simp [be_length, two32])]
    simp [primDenote, PTy.code, be_length, fromBE_be 8 n (by simpa [two64] using hn)]
  | enum n =>
    obtain ⟨e, hn⟩ := hw; cases e
    simp only [canonVal]
    rw [specPrim_ser tag .enum 5 _ rest ht (by decide) (by simp [be_length, two32])]
    simp [primDenote, PTy.code, be_length, fromBE_be 4 n (by simpa [two32] using hn)]
  | bool b =>
    cases hw
    simp only [canonVal]
    rw [specPrim_ser tag .bool 6 _ rest ht (by decide) (by simp [zeros_length, two32])]
    simp [primDenote, PTy.code, zeros_length, boolOfBytes_canon]
  | bytes b =>
    obtain ⟨e, hn⟩ := hw; cases e
    simp only [canonVal]
    rw [specPrim_ser tag .bytes 8 _ rest ht (by decide) hn]
    simp [primDenote, PTy.code]
  | text b =>
    obtain ⟨e, hn⟩ := hw; cases e
    simp only [canonVal]
    rw [specPrim_ser tag .text 7 _ rest ht (by decide) hn]
    simp [primDenote, PTy.code]
  | time n =>
    obtain ⟨e, hn⟩ := hw; cases e
    simp only [canonVal]
    rw [specPrim_ser tag .time 9 _ rest ht (by decide) (by simp [be_length, two32])]
    simp [primDenote, PTy.code, be_length, fromBE_be 8 n (by simpa [two64] using hn)]
  | interval ns =>
    obtain ⟨e, s, hs', hns⟩ := hw; cases e
    subst hns
    simp only [canonVal]
    rw [specPrim_ser tag .interval 10 _ rest ht (by decide) (by simp [be_length, two32])]
    simp [primDenote, PTy.code, be_length, intervalSecs_wf s hs', fromBE_be 4 s (by simpa [two32] using hs')]
  | struct fs => simp [WFv] at hw

def Item.tag : Item → Nat
  | .prim t _ _ => t
  | .struct t _ => t

theorem canonVal_tag (tag : Nat) (ty : FTy) (v : Val) : (canonVal tag ty v).tag = tag := by
  cases v <;> simp [canonVal, Item.tag]
  cases ty <;> simp [Item.tag]

theorem ser_length_ge (i : Item) : 8 ≤ i.ser.length := by
  cases i <;> simp [Item.ser, header_length']

theorem headTag_ser (i : Item) (rest : Bytes) (hs : i.Small = true) : headTag (i.ser ++ rest) = some i.tag := by
  have h8 := ser_length_ge i
  unfold headTag
  rw [if_pos (by simp; omega)]
  cases i with
  | prim t ty p =>
    simp only [Item.Small, Bool.and_eq_true, decide_eq_true_eq] at hs
    simp only [Item.ser, header, Item.tag, List.append_assoc]
    rw [List.take_append_of_le_length (by simp [be_length]), List.take_of_length_le (by simp [be_length])]
    rw [fromBE_be 3 t (by simpa [tagMax] using hs.1.1)]
  | struct t kids =>
    simp only [Item.Small, Bool.and_eq_true, decide_eq_true_eq] at hs
    simp only [Item.ser, header, Item.tag, List.append_assoc]
    rw [List.take_append_of_le_length (by simp [be_length]), List.take_of_length_le (by simp [be_length])]
    rw [fromBE_be 3 t (by simpa [tagMax] using hs.1.1)]

theorem serList_eq_nil (is : List Item) (h : Item.serList is = []) : is = [] := by
  cases is with
  | nil => rfl
  | cons i rest =>
    have := ser_length_ge i
    have hl := congrArg List.length h
    simp only [Item.serList, List.length_append, List.length_nil] at hl
    omega

theorem smallList_append (a b : List Item) : Item.smallList (a ++ b) = (Item.smallList a && Item.smallList b) := by
  induction a with
  | nil => simp [Item.smallList]
  | cons x xs ih => simp [Item.smallList, ih, Bool.and_assoc]

/-- tags of the items a field list can emit -/
def emitTags : List Fld → List Nat
  | [] => []
  | f :: fs => if f.ignored then emitTags fs else f.tag :: emitTags fs

theorem canonMany_tags (tag : Nat) (ty : FTy) (vs : List Val) : ∀ i ∈ canonMany tag ty vs, i.tag = tag := by
  induction vs with
  | nil => simp [canonMany]
  | cons v vs ih =>
    intro i hi
    simp only [canonMany, List.mem_cons] at hi
    rcases hi with hi | hi
    · rw [hi, canonVal_tag]
    · exact ih i hi

theorem canonFV_tags (f : Fld) (v : FV) : ∀ i ∈ canonFV f v, f.ignored = false ∧ i.tag = f.tag := by
  intro i hi
  have hig : (f.skip || f.tag == anyTag) = f.ignored := by simp [Fld.ignored, Bool.or_comm]
  cases v with
  | one v =>
    simp only [canonFV, hig] at hi
    by_cases h1 : f.ignored = true
    · simp [h1] at hi
    · simp only [h1] at hi
      split at hi
      · simp at hi
      · simp at hi; exact ⟨by simpa using h1, by rw [hi.2, canonVal_tag]⟩
  | many vs =>
    simp only [canonFV, hig] at hi
    by_cases h1 : f.ignored = true
    · simp [h1] at hi
    · simp only [h1] at hi
      exact ⟨by simpa using h1, canonMany_tags f.tag f.ty vs i (by simpa using hi)⟩
  | dyn d =>
    simp only [canonFV, hig] at hi
    by_cases h1 : f.ignored = true
    · simp [h1] at hi
    · simp only [h1] at hi
      cases d with
      | nil => simp [canonDyn] at hi
      | val p ty v => simp [canonDyn] at hi; exact ⟨by simpa using h1, by rw [hi, canonVal_tag]⟩
      | bad k => simp [canonDyn] at hi
  | skip b => simp [canonFV] at hi

theorem canonFlds_tags : ∀ (fs : List Fld) (vs : List FV), ∀ i ∈ canonFlds fs vs, i.tag ∈ emitTags fs
  | [], vs => by simp [canonFlds]
  | f :: fs, [] => by simp [canonFlds]
  | f :: fs, v :: vs => by
    intro i hi
    simp only [canonFlds, List.mem_append] at hi
    rcases hi with hi | hi
    · obtain ⟨h1, h2⟩ := canonFV_tags f v i hi
      simp [emitTags, h1, h2]
    · have := canonFlds_tags fs vs i hi
      simp only [emitTags]
      split
      · exact this
      · exact List.mem_cons_of_mem _ this

theorem emitTags_sub (fs : List Fld) : ∀ t ∈ emitTags fs, ∃ g ∈ fs, g.tag = t := by
  induction fs with
  | nil => simp [emitTags]
  | cons f fs ih =>
    intro t ht
    simp only [emitTags] at ht
    split at ht
    · obtain ⟨g, hg, e⟩ := ih t ht; exact ⟨g, by simp [hg], e⟩
    · simp only [List.mem_cons] at ht
      rcases ht with ht | ht
      · exact ⟨f, by simp, ht.symm⟩
      · obtain ⟨g, hg, e⟩ := ih t ht; exact ⟨g, by simp [hg], e⟩

/-- what the specification sees at the head of the bytes of the remaining fields: nothing, or a tag of a LATER field -/
theorem head_of_rest (fs : List Fld) (vs : List FV) (hs : Item.smallList (canonFlds fs vs) = true) :
    Item.serList (canonFlds fs vs) = [] ∨
    ∃ t, headTag (Item.serList (canonFlds fs vs)) = some t ∧ t ∈ emitTags fs := by
  cases hc : canonFlds fs vs with
  | nil => left; simp [Item.serList]
  | cons i rest =>
    right
    rw [hc] at hs
    simp only [Item.smallList, Bool.and_eq_true] at hs
    refine ⟨i.tag, ?_, ?_⟩
    · simp only [Item.serList]; exact headTag_ser i _ hs.1
    · exact canonFlds_tags fs vs i (by rw [hc]; simp)

/-! ### schema facts -/

theorem serList_append (a b : List Item) : Item.serList (a ++ b) = Item.serList a ++ Item.serList b := by
  induction a with
  | nil => simp [Item.serList]
  | cons x xs ih => simp [Item.serList, ih]

theorem serList_single (i : Item) : Item.serList [i] = i.ser := by simp [Item.serList]

theorem fldsOK_cons (all : List Fld) (i : Nat) (f : Fld) (fs : List Fld) (h : fldsOK all i (f :: fs) = true) :
    fldOK all i f = true ∧ (∀ g ∈ fs, g.tag ≠ f.tag) ∧ (f.ignored = true → fs = [] ∧ f.required = false) ∧
      fldsOK all (i + 1) fs = true := by
  rw [fldsOK] at h
  simp only [Bool.and_eq_true, List.all_eq_true, bne_iff_ne, ne_eq, Bool.or_eq_true, Bool.not_eq_true',
    List.isEmpty_iff] at h
  obtain ⟨⟨⟨h1, h2⟩, h3⟩, h4⟩ := h
  refine ⟨h1, h2, ?_, h4⟩
  intro hi
  rcases h3 with h3 | h3
  · rw [hi] at h3; cases h3
  · exact ⟨h3.1, by simpa using h3.2⟩

theorem fldOK_tag (all : List Fld) (i : Nat) (f : Fld) (h : fldOK all i f = true) :
    0 < f.tag ∧ f.tag < tagMax ∧ (f.tag ≠ anyTag ∨ f.skip = true) := by
  cases f with
  | mk nm tag req sl sk ty =>
    cases ty <;> (rw [fldOK] at h; simp only [Bool.and_eq_true, decide_eq_true_eq, Bool.or_eq_true, bne_iff_ne] at h) <;>
      exact ⟨h.1.1.1, h.1.1.2, h.1.2⟩

theorem fldsOK_pos (all : List Fld) : ∀ (i : Nat) (fs : List Fld), fldsOK all i fs = true → ∀ g ∈ fs, 0 < g.tag
  | _, [], _ => by simp
  | i, f :: fs, h => by
    obtain ⟨h1, _, _, h4⟩ := fldsOK_cons all i f fs h
    intro g hg
    simp only [List.mem_cons] at hg
    rcases hg with hg | hg
    · rw [hg]; exact (fldOK_tag all i f h1).1
    · exact fldsOK_pos all (i + 1) fs h4 g hg

theorem ignored_iff_skip (all : List Fld) (i : Nat) (f : Fld) (h : fldOK all i f = true) : f.ignored = f.skip := by
  obtain ⟨_, _, h3⟩ := fldOK_tag all i f h
  unfold Fld.ignored
  rcases h3 with h3 | h3
  · have : (f.tag == anyTag) = false := by simpa using h3
    simp [this]
  · simp [h3]

/-- a present (non-absent) following item: nothing, or an item whose tag is neither zero nor `tag` -/
def FollowOK (tag : Nat) (rest : Bytes) : Prop := rest = [] ∨ ∃ t, headTag rest = some t ∧ t ≠ 0 ∧ t ≠ tag

theorem lookupEnt_key (k : Key) : ∀ (table : List DEnt) (e : DEnt), lookupEnt k table = some e → e.key = k
  | [], e, h => by simp [lookupEnt] at h
  | .mk k' ptr ty :: rest, e, h => by
    simp only [lookupEnt] at h
    by_cases hk : k' = k
    · rw [if_pos hk] at h; cases h; exact hk
    · rw [if_neg hk] at h; exact lookupEnt_key k rest e h

theorem lookupTy_of_lookupEnt (k : Key) : ∀ (table : List DEnt) (e : DEnt), lookupEnt k table = some e → lookupTy k table = e.ty
  | [], e, h => by simp [lookupEnt] at h
  | .mk k' ptr ty :: rest, e, h => by
    simp only [lookupEnt] at h
    simp only [lookupTy]
    by_cases hk : k' = k
    · rw [if_pos hk] at h ⊢; cases h; rfl
    · rw [if_neg hk] at h ⊢; exact lookupTy_of_lookupEnt k rest e h

theorem normVal_prim (p : PTy) (v : Val) (hw : WFv (.prim p) v) : normVal (.prim p) v = v := by
  cases v <;> first | rfl | (simp [WFv] at hw)

/-! ### dispatch lookups -/

theorem specDyn_prim (tag : Nat) (prev : List FV) (k : Key) (p : PTy) (hp : p ≠ .interval) (r : Bytes) :
    ∀ (table : List DEnt) (k0 : Key), lookupEnt k table = some (.mk k0 false (.prim p)) →
      specDyn tag prev k table r = specPrim tag p r
  | [], _, h => by simp [lookupEnt] at h
  | .mk k' ptr (.prim q) :: rest, k0, h => by
    rw [specDyn]
    simp only [lookupEnt] at h
    by_cases hk : k' = k
    · rw [if_pos hk] at h ⊢
      simp only [Option.some.injEq, DEnt.mk.injEq, FTy.prim.injEq] at h
      obtain ⟨_, e2, e3⟩ := h
      subst e2 e3
      simp [hp]
    · rw [if_neg hk] at h ⊢; exact specDyn_prim tag prev k p hp r rest k0 h
  | .mk k' ptr (.struct sd) :: rest, k0, h => by
    rw [specDyn]
    simp only [lookupEnt] at h
    by_cases hk : k' = k
    · rw [if_pos hk] at h; simp at h
    · rw [if_neg hk] at h ⊢; exact specDyn_prim tag prev k p hp r rest k0 h
  | .mk k' ptr (.dyn a b) :: rest, k0, h => by
    rw [specDyn]
    simp only [lookupEnt] at h
    by_cases hk : k' = k
    · rw [if_pos hk] at h; simp at h
    · rw [if_neg hk] at h ⊢; exact specDyn_prim tag prev k p hp r rest k0 h
  | .mk k' ptr .unsupported :: rest, k0, h => by
    rw [specDyn]
    simp only [lookupEnt] at h
    by_cases hk : k' = k
    · rw [if_pos hk] at h; simp at h
    · rw [if_neg hk] at h ⊢; exact specDyn_prim tag prev k p hp r rest k0 h

theorem specDyn_struct (tag : Nat) (prev : List FV) (k : Key) (sd : SD) (hd : sd.descOk = true) (r : Bytes) :
    ∀ (table : List DEnt) (k0 : Key), lookupEnt k table = some (.mk k0 true (.struct sd)) →
      specDyn tag prev k table r = specStruct tag sd r
  | [], _, h => by simp [lookupEnt] at h
  | .mk k' ptr (.prim q) :: rest, k0, h => by
    rw [specDyn]
    simp only [lookupEnt] at h
    by_cases hk : k' = k
    · rw [if_pos hk] at h; simp at h
    · rw [if_neg hk] at h ⊢; exact specDyn_struct tag prev k sd hd r rest k0 h
  | .mk k' ptr (.struct sd') :: rest, k0, h => by
    rw [specDyn]
    simp only [lookupEnt] at h
    by_cases hk : k' = k
    · rw [if_pos hk] at h ⊢
      simp only [Option.some.injEq, DEnt.mk.injEq, FTy.struct.injEq] at h
      obtain ⟨_, e2, e3⟩ := h
      subst e2 e3
      simp [hd]
    · rw [if_neg hk] at h ⊢; exact specDyn_struct tag prev k sd hd r rest k0 h
  | .mk k' ptr (.dyn a b) :: rest, k0, h => by
    rw [specDyn]
    simp only [lookupEnt] at h
    by_cases hk : k' = k
    · rw [if_pos hk] at h; simp at h
    · rw [if_neg hk] at h ⊢; exact specDyn_struct tag prev k sd hd r rest k0 h
  | .mk k' ptr .unsupported :: rest, k0, h => by
    rw [specDyn]
    simp only [lookupEnt] at h
    by_cases hk : k' = k
    · rw [if_pos hk] at h; simp at h
    · rw [if_neg hk] at h ⊢; exact specDyn_struct tag prev k sd hd r rest k0 h

theorem dentsOK_lookup (k : Key) (sd : SD) :
    ∀ (table : List DEnt) (k0 : Key) (ptr : Bool), dentsOK table = true → lookupEnt k table = some (.mk k0 ptr (.struct sd)) →
      SD.OK sd = true
  | [], _, _, _, h => by simp [lookupEnt] at h
  | .mk k' p' (.prim q) :: rest, k0, ptr, hd, h => by
    rw [dentsOK] at hd
    simp only [lookupEnt] at h
    by_cases hk : k' = k
    · rw [if_pos hk] at h; simp at h
    · rw [if_neg hk] at h; exact dentsOK_lookup k sd rest k0 ptr hd h
  | .mk k' p' (.struct sd') :: rest, k0, ptr, hd, h => by
    rw [dentsOK] at hd
    simp only [Bool.and_eq_true] at hd
    simp only [lookupEnt] at h
    by_cases hk : k' = k
    · rw [if_pos hk] at h
      simp only [Option.some.injEq, DEnt.mk.injEq, FTy.struct.injEq] at h
      rw [← h.2.2]; exact hd.1
    · rw [if_neg hk] at h; exact dentsOK_lookup k sd rest k0 ptr hd.2 h
  | .mk k' p' (.dyn a b) :: rest, k0, ptr, hd, h => by
    rw [dentsOK] at hd
    simp only [lookupEnt] at h
    by_cases hk : k' = k
    · rw [if_pos hk] at h; simp at h
    · rw [if_neg hk] at h; exact dentsOK_lookup k sd rest k0 ptr hd h
  | .mk k' p' .unsupported :: rest, k0, ptr, hd, h => by
    rw [dentsOK] at hd
    simp only [lookupEnt] at h
    by_cases hk : k' = k
    · rw [if_pos hk] at h; simp at h
    · rw [if_neg hk] at h; exact dentsOK_lookup k sd rest k0 ptr hd h

theorem fldOK_struct (all : List Fld) (i : Nat) (nm : String) (tag : Nat) (req sl sk : Bool) (sd : SD)
    (h : fldOK all i (.mk nm tag req sl sk (.struct sd)) = true) : sd.descOk = true ∧ SD.OK sd = true := by
  rw [fldOK] at h
  simp only [Bool.and_eq_true] at h
  exact h.2

theorem fldOK_dyn (all : List Fld) (i : Nat) (nm : String) (tag : Nat) (req sl sk : Bool) (sel : Nat) (table : List DEnt)
    (h : fldOK all i (.mk nm tag req sl sk (.dyn sel table)) = true) : sl = false ∧ dentsOK table = true := by
  rw [fldOK] at h
  simp only [Bool.and_eq_true, Bool.not_eq_true'] at h
  exact ⟨h.2.1.1.1, h.2.2⟩

theorem fldOK_unsupported (all : List Fld) (i : Nat) (nm : String) (tag : Nat) (req sl sk : Bool)
    (h : fldOK all i (.mk nm tag req sl sk .unsupported) = true) : False := by
  rw [fldOK] at h
  simp at h

/-! ### field-level helpers -/

theorem specField_absent (nm : String) (tag : Nat) (sl sk : Bool) (ty : FTy) (rest : Bytes) (prev : List FV)
    (hfo : FollowOK tag rest) (hna : tag ≠ anyTag ∨ rest = []) :
    specField (.mk nm tag false sl sk ty) rest prev = some (zeroFld (.mk nm tag false sl sk ty), rest) := by
  rw [specField]
  by_cases hr : rest = []
  · rw [if_pos hr]; simp
  · rw [if_neg hr]
    rcases hfo with h | ⟨t, ht, h0, hne⟩
    · exact absurd h hr
    · rcases hna with hna | hna
      · simp [ht, h0, hne, hna]
      · exact absurd hna hr

theorem specField_present (nm : String) (tag : Nat) (req sl sk : Bool) (ty : FTy) (r : Bytes) (prev : List FV)
    (hne : r ≠ []) (hh : headTag r = some tag) (h0 : tag ≠ 0) :
    specField (.mk nm tag req sl sk ty) r prev =
      if sk then (specSkip tag r).bind fun rest => some (.skip false, rest)
      else if sl then
        (specMany (specValue tag prev ty) tag r.length r).bind fun (vs, rest) => some (.many vs, rest)
      else (specValue tag prev ty r).bind fun (v, rest) =>
          match ty with
          | .dyn _ _ => some (.dyn (.val false (dynTyOf prev ty) v), rest)
          | .prim _ => some (.one v, rest)
          | .struct _ => some (.one v, rest)
          | .unsupported => some (.one v, rest) := by
  rw [specField, if_neg hne, hh]
  simp only [Option.bind_some]
  rw [if_neg h0, if_neg (fun h => h.2.1 rfl)]
  cases ty <;> rfl

theorem ser_ne_nil (i : Item) (rest : Bytes) : i.ser ++ rest ≠ [] := by
  intro h
  have := ser_length_ge i
  have hl : (i.ser ++ rest).length = 0 := by rw [h]; rfl
  rw [List.length_append] at hl
  omega

/-! ### the specification reads the canonical encoding back as the normalised value -/

theorem headTag_some_ne_nil (r : Bytes) (t : Nat) (h : headTag r = some t) : r ≠ [] := by
  intro e; subst e; simp [headTag] at h

theorem V_prim (tag : Nat) (prev : List FV) (ty : FTy) (rest : Bytes) (ht : tag < tagMax) (v : Val) (hp : v.isPrim = true)
    (hw : WFv ty v) (hs : (canonVal tag ty v).Small = true) :
    specValue tag prev ty ((canonVal tag ty v).ser ++ rest) = some (normVal ty v, rest) := by
  have : ∃ p, ty = .prim p := by
    cases v <;> simp only [WFv] at hw <;> first | exact ⟨_, hw.1⟩ | exact ⟨_, hw⟩ | (simp [Val.isPrim] at hp)
  obtain ⟨p, rfl⟩ := this
  rw [specValue, specPrim_canon tag p v rest ht hw hs, normVal_prim p v hw]

theorem zeroFld_skip (nm : String) (tag : Nat) (req sl : Bool) (ty : FTy) :
    zeroFld (.mk nm tag req sl true ty) = .skip false := by
  cases ty <;> rfl

theorem canonMany_len (tag : Nat) (ty : FTy) : ∀ (vs : List Val), vs.length ≤ (Item.serList (canonMany tag ty vs)).length
  | [] => by simp
  | v :: vs => by
    have := canonMany_len tag ty vs
    have h8 := ser_length_ge (canonVal tag ty v)
    simp only [canonMany, Item.serList, List.length_append, List.length_cons]
    omega

theorem canonMany_head (tag : Nat) (ty : FTy) (rest : Bytes) :
    ∀ (vs : List Val), vs ≠ [] → Item.smallList (canonMany tag ty vs) = true →
      Item.serList (canonMany tag ty vs) ++ rest ≠ [] ∧ headTag (Item.serList (canonMany tag ty vs) ++ rest) = some tag
  | [], h, _ => absurd rfl h
  | v :: vs, _, hs => by
    simp only [canonMany, Item.serList, Item.smallList, Bool.and_eq_true, List.append_assoc] at hs ⊢
    exact ⟨ser_ne_nil _ _, by rw [headTag_ser _ _ hs.1, canonVal_tag]⟩

mutual
  theorem V_canon (tag : Nat) (prev : List FV) (ty : FTy) (rest : Bytes) (ht : tag < tagMax)
      (hty : ∀ sd, ty = .struct sd → sd.descOk = true ∧ SD.OK sd = true) :
      (v : Val) → WFv ty v → (canonVal tag ty v).Small = true →
        specValue tag prev ty ((canonVal tag ty v).ser ++ rest) = some (normVal ty v, rest)
    | .int n, hw, hs => V_prim tag prev ty rest ht (.int n) rfl hw hs
    | .long n, hw, hs => V_prim tag prev ty rest ht (.long n) rfl hw hs
    | .enum n, hw, hs => V_prim tag prev ty rest ht (.enum n) rfl hw hs
    | .bool b, hw, hs => V_prim tag prev ty rest ht (.bool b) rfl hw hs
    | .bytes b, hw, hs => V_prim tag prev ty rest ht (.bytes b) rfl hw hs
    | .text b, hw, hs => V_prim tag prev ty rest ht (.text b) rfl hw hs
    | .time n, hw, hs => V_prim tag prev ty rest ht (.time n) rfl hw hs
    | .interval n, hw, hs => V_prim tag prev ty rest ht (.interval n) rfl hw hs
    | .struct fs, hw, hs => by
      cases ty with
      | prim p => simp [WFv] at hw
      | dyn a b => simp [WFv] at hw
      | unsupported => simp [WFv] at hw
      | struct sd =>
        obtain ⟨hd, hok⟩ := hty sd rfl
        cases sd with
        | mk nm t0 fields =>
          rw [specValue, if_pos hd]
          simp only [WFv, SD.fields] at hw
          simp only [canonVal, SD.fields, normVal] at hs ⊢
          simp only [Item.Small, Bool.and_eq_true, decide_eq_true_eq] at hs
          rw [SD.OK] at hok
          have hf := Flds_canon fields 0 fields fs [] hok hw hs.2
          rw [specStruct, cutStruct_eq]
          simp only [Item.ser, List.append_assoc]
          rw [cutHeader_header tag structCode _ _ ht (by decide) hs.1.2]
          simp only
          have hfit : (Item.serList (canonFlds fields fs)).length ≤ (Item.serList (canonFlds fields fs) ++ rest).length := by
            simp
          rw [if_pos hfit]
          have e1 : List.take (Item.serList (canonFlds fields fs)).length (Item.serList (canonFlds fields fs) ++ rest) =
              Item.serList (canonFlds fields fs) := by
            rw [List.take_append_of_le_length (by omega)]; exact List.take_of_length_le (by omega)
          have e2 : List.drop (Item.serList (canonFlds fields fs)).length (Item.serList (canonFlds fields fs) ++ rest) = rest := by
            rw [List.drop_append]; simp
          simp only [Option.bind_some]
          rw [e1, e2, hf]
          simp [tagOk]
  termination_by structural v _ _ => v
  theorem Flds_canon (all : List Fld) : (i : Nat) → (fs : List Fld) → (vs : List FV) → (prev : List FV) →
      fldsOK all i fs = true → WFflds fs vs prev → Item.smallList (canonFlds fs vs) = true →
      specFields fs (Item.serList (canonFlds fs vs)) prev = some (normFlds fs vs, [])
    | _, [], [], _, _, _, _ => by simp [canonFlds, Item.serList, specFields, normFlds]
    | _, [], _ :: _, _, _, hw, _ => by simp [WFflds] at hw
    | _, _ :: _, [], _, _, hw, _ => by simp [WFflds] at hw
    | i, f :: fs, v :: vs, prev, hok, hw, hs => by
      obtain ⟨hf, hdist, hig, hrest⟩ := fldsOK_cons all i f fs hok
      rw [WFflds] at hw
      obtain ⟨hwv, hwr⟩ := hw
      simp only [canonFlds] at hs ⊢
      rw [smallList_append, Bool.and_eq_true] at hs
      rw [serList_append]
      have hfollow : FollowOK f.tag (Item.serList (canonFlds fs vs)) := by
        rcases head_of_rest fs vs hs.2 with h | ⟨t, h1, h2⟩
        · left; exact h
        · right
          obtain ⟨g, hg, e⟩ := emitTags_sub fs t h2
          refine ⟨t, h1, ?_, ?_⟩
          · have := fldsOK_pos all (i + 1) fs hrest g hg; omega
          · rw [← e]; exact hdist g hg
      have hlast : f.ignored = true → Item.serList (canonFlds fs vs) = [] ∧ f.required = false := by
        intro h
        obtain ⟨e, hr⟩ := hig h
        subst e
        exact ⟨by simp [canonFlds, Item.serList], hr⟩
      have h1 := FV_canon all i f prev _ hf hfollow hlast v hwv hs.1
      have h2 := Flds_canon all (i + 1) fs vs (prev ++ [normFV f v]) hrest hwr hs.2
      rw [specFields, h1]
      simp only [Option.bind_some]
      rw [h2]
      simp [normFlds]
  termination_by structural _ _ vs _ _ _ _ => vs
  theorem FV_canon (all : List Fld) (i : Nat) (f : Fld) (prev : List FV) (rest : Bytes)
      (hf : fldOK all i f = true) (hfo : FollowOK f.tag rest) (hlast : f.ignored = true → rest = [] ∧ f.required = false) :
      (v : FV) → WFfv f v prev → Item.smallList (canonFV f v) = true →
      specField f (Item.serList (canonFV f v) ++ rest) prev = some (normFV f v, rest)
    | .skip nn, hw, _ => by
      cases f with
      | mk nm tag req sl sk ty =>
        simp only [WFfv] at hw
        obtain ⟨hr, hreq⟩ := hlast hw
        have hsk := ignored_iff_skip all i _ hf
        rw [hw] at hsk
        simp only [Fld.required, Fld.skip] at hreq hsk
        subst hreq hr hsk
        simp only [canonFV, Item.serList, List.nil_append]
        rw [specField_absent nm tag sl true ty [] prev (Or.inl rfl) (Or.inr rfl), zeroFld_skip]
        rfl
    | .one v, hw, hs => by
      cases f with
      | mk nm tag req sl sk ty =>
        simp only [WFfv, Fld.slice, Fld.ty] at hw
        obtain ⟨hsl, hig, hwv⟩ := hw
        obtain ⟨hpos, hlt, _⟩ := fldOK_tag all i _ hf
        simp only [Fld.tag] at hpos hlt hfo
        have hig' : (tag == anyTag) = false ∧ sk = false := by
          simpa [Fld.ignored, Fld.tag, Fld.skip] using hig
        have hna : tag ≠ anyTag := by simpa using hig'.1
        subst hsl
        by_cases hz : (!req && specZero ty v) = true
        · have hreq : req = false := by
            cases req
            · rfl
            · simp at hz
          subst hreq
          have hc : canonFV (.mk nm tag false false sk ty) (.one v) = [] := by
            simp only [canonFV, Fld.skip, Fld.tag, Fld.required, Fld.ty, hig'.1, hig'.2, Bool.or_false]
            simp only [Bool.false_eq_true, if_false]
            exact if_pos hz
          rw [hc]
          simp only [Item.serList, List.nil_append]
          rw [specField_absent nm tag false sk ty rest prev hfo (Or.inl hna)]
          rw [normFV_one_absent _ v hig hz]
        · have hc : canonFV (.mk nm tag req false sk ty) (.one v) = [canonVal tag ty v] := by
            simp only [canonFV, Fld.skip, Fld.tag, Fld.required, Fld.ty, hig'.1, hig'.2, Bool.or_false]
            simp only [Bool.false_eq_true, if_false]
            exact if_neg hz
          rw [hc] at hs ⊢
          simp only [Item.smallList, Bool.and_true] at hs
          rw [serList_single]
          rw [specField_present nm tag req false sk ty _ prev (ser_ne_nil _ _)
            (by rw [headTag_ser _ _ hs, canonVal_tag]) (by omega)]
          rw [if_neg (by simp [hig'.2]), if_neg (by simp)]
          have hty : ∀ sd, ty = .struct sd → sd.descOk = true ∧ SD.OK sd = true := by
            intro sd e; subst e; exact fldOK_struct all i nm tag req false sk sd hf
          have hwv : WFv ty v := wf_of_present (.mk nm tag req false sk ty) v hwv hz
          rw [V_canon tag prev ty rest hlt hty v hwv hs]
          rw [normFV_one_present _ v hig hz]
          simp only [Option.bind_some, Fld.ty]
          cases ty with
          | prim p => rfl
          | struct sd => rfl
          | unsupported => rfl
          | dyn a b => cases v <;> simp [WFv] at hwv
    | .many vs, hw, hs => by
      cases f with
      | mk nm tag req sl sk ty =>
        simp only [WFfv, Fld.slice, Fld.ty, Fld.required] at hw
        obtain ⟨hsl, hig, hne, hwv⟩ := hw
        obtain ⟨hpos, hlt, _⟩ := fldOK_tag all i _ hf
        simp only [Fld.tag] at hpos hlt hfo
        have hig' : (tag == anyTag) = false ∧ sk = false := by
          simpa [Fld.ignored, Fld.tag, Fld.skip] using hig
        have hna : tag ≠ anyTag := by simpa using hig'.1
        subst hsl
        have hc : canonFV (.mk nm tag req true sk ty) (.many vs) = canonMany tag ty vs := by
          simp [canonFV, Fld.skip, Fld.tag, Fld.ty, hig'.1, hig'.2]
        rw [hc] at hs ⊢
        by_cases hv : vs = []
        · subst hv
          have hreq : req = false := by
            cases req
            · rfl
            · exact absurd rfl (hne rfl)
          subst hreq
          simp only [canonMany, Item.serList, List.nil_append]
          rw [specField_absent nm tag true sk ty rest prev hfo (Or.inl hna)]
          simp [normFV, normMany, zeroFld, hig'.2]
        · obtain ⟨hne', hh⟩ := canonMany_head tag ty rest vs hv hs
          rw [specField_present nm tag req true sk ty _ prev hne' hh (by omega)]
          rw [if_neg (by simp [hig'.2]), if_pos rfl]
          have hty : ∀ sd, ty = .struct sd → sd.descOk = true ∧ SD.OK sd = true := by
            intro sd e; subst e; exact fldOK_struct all i nm tag req true sk sd hf
          have hlen : vs.length ≤ (Item.serList (canonMany tag ty vs) ++ rest).length := by
            rw [List.length_append]
            have := canonMany_len tag ty vs
            omega
          rw [Many_canon tag prev ty rest hlt (by omega) hty hfo vs _ hv hlen hwv hs]
          simp [normFV, hig, Fld.ty]
    | .dyn d, hw, hs => Dyn_canon all i f prev rest hf hfo hlast d hw hs
  termination_by structural v _ _ => v
  theorem Many_canon (tag : Nat) (prev : List FV) (ty : FTy) (rest : Bytes) (ht : tag < tagMax) (h0 : tag ≠ 0)
      (hty : ∀ sd, ty = .struct sd → sd.descOk = true ∧ SD.OK sd = true) (hfo : FollowOK tag rest) :
      (vs : List Val) → (fuel : Nat) → vs ≠ [] → vs.length ≤ fuel → WFmany ty vs →
      Item.smallList (canonMany tag ty vs) = true →
      specMany (specValue tag prev ty) tag fuel (Item.serList (canonMany tag ty vs) ++ rest) = some (normMany ty vs, rest)
    | [], _, hne, _, _, _ => absurd rfl hne
    | _ :: _, 0, _, hl, _, _ => by simp at hl
    | v :: vs, fuel + 1, _, hl, hw, hs => by
      rw [WFmany] at hw
      simp only [canonMany, Item.serList, Item.smallList, Bool.and_eq_true, List.append_assoc] at hs ⊢
      rw [specMany, V_canon tag prev ty (Item.serList (canonMany tag ty vs) ++ rest) ht hty v hw.1 hs.1]
      simp only [Option.bind_some]
      by_cases hv : vs = []
      · subst hv
        simp only [canonMany, Item.serList, List.nil_append, normMany]
        rcases hfo with h | ⟨t, h1, h2, h3⟩
        · subst h; simp
        · rw [if_neg (headTag_some_ne_nil rest t h1), h1]
          simp [h2, h3]
      · have ih := Many_canon tag prev ty rest ht h0 hty hfo vs fuel hv (by simp at hl; omega) hw.2 hs.2
        obtain ⟨hne', hh⟩ := canonMany_head tag ty rest vs hv hs.2
        rw [if_neg hne', hh]
        simp only [Option.bind_some]
        rw [if_neg h0, if_neg (fun h => h rfl), ih]
        simp [normMany]
  termination_by structural vs _ _ _ _ _ => vs
  theorem Dyn_canon (all : List Fld) (i : Nat) (f : Fld) (prev : List FV) (rest : Bytes)
      (hf : fldOK all i f = true) (hfo : FollowOK f.tag rest) (hlast : f.ignored = true → rest = [] ∧ f.required = false) :
      (d : DynV) → WFfv f (.dyn d) prev → Item.smallList (canonFV f (.dyn d)) = true →
      specField f (Item.serList (canonFV f (.dyn d)) ++ rest) prev = some (normFV f (.dyn d), rest)
    | .bad k, hw, _ => by simp [WFfv] at hw
    | .nil, hw, _ => by
      cases f with
      | mk nm tag req sl sk ty =>
        simp only [WFfv, Fld.slice, Fld.ty, Fld.required] at hw
        obtain ⟨hsl, hig, hreq, sel, table, hty⟩ := hw
        simp only [Fld.tag] at hfo
        have hig' : (tag == anyTag) = false ∧ sk = false := by
          simpa [Fld.ignored, Fld.tag, Fld.skip] using hig
        have hna : tag ≠ anyTag := by simpa using hig'.1
        subst hsl hreq hty
        have hc : canonFV (.mk nm tag false false sk (.dyn sel table)) (.dyn .nil) = [] := by
          simp [canonFV, canonDyn, Fld.skip, Fld.tag, hig'.1, hig'.2]
        rw [hc]
        simp only [Item.serList, List.nil_append]
        rw [specField_absent nm tag false sk _ rest prev hfo (Or.inl hna)]
        simp [normFV, zeroFld, hig'.2]
    | .val p ty' v, hw, hs => by
      cases f with
      | mk nm tag req sl sk ty =>
        simp only [WFfv, Fld.slice, Fld.ty] at hw
        obtain ⟨hsl, hig, ⟨sel, table, fv, k, e, hty, hprev, hkey, hlook, hdec, hety⟩, hwv⟩ := hw
        obtain ⟨hpos, hlt, _⟩ := fldOK_tag all i _ hf
        simp only [Fld.tag] at hpos hlt hfo
        have hig' : (tag == anyTag) = false ∧ sk = false := by
          simpa [Fld.ignored, Fld.tag, Fld.skip] using hig
        subst hsl hty
        obtain ⟨_, hdents⟩ := fldOK_dyn all i nm tag req false sk sel table hf
        have hc : canonFV (.mk nm tag req false sk (.dyn sel table)) (.dyn (.val p ty' v)) = [canonVal tag ty' v] := by
          simp [canonFV, canonDyn, Fld.skip, Fld.tag, hig'.1, hig'.2]
        rw [hc] at hs ⊢
        simp only [Item.smallList, Bool.and_true] at hs
        rw [serList_single]
        rw [specField_present nm tag req false sk _ _ prev (ser_ne_nil _ _)
          (by rw [headTag_ser _ _ hs, canonVal_tag]) (by omega)]
        rw [if_neg (by simp [hig'.2]), if_neg (by simp)]
        have hdt : dynTyOf prev (.dyn sel table) = ty' := by
          simp only [dynTyOf, hprev, hkey]
          rw [lookupTy_of_lookupEnt k table e hlook, hety]
        have hval : specValue tag prev (.dyn sel table) ((canonVal tag ty' v).ser ++ rest) = some (normVal ty' v, rest) := by
          rw [specValue]
          simp only [hprev, hkey]
          cases e with
          | mk k0 ptr ety =>
            simp only [DEnt.ty] at hety
            subst hety
            cases ety with
            | prim q =>
              simp only [DEnt.decodable, Bool.and_eq_true, Bool.not_eq_true', bne_iff_ne, ne_eq] at hdec
              obtain ⟨hp, hq⟩ := hdec
              subst hp
              rw [specDyn_prim tag prev k q hq _ table k0 hlook, specPrim_canon tag q v rest hlt hwv hs,
                normVal_prim q v hwv]
            | struct sd =>
              simp only [DEnt.decodable, Bool.and_eq_true] at hdec
              obtain ⟨hp, hd⟩ := hdec
              subst hp
              have hok := dentsOK_lookup k sd table k0 true hdents hlook
              have := V_canon tag prev (.struct sd) rest hlt (fun sd' e => by cases e; exact ⟨hd, hok⟩) v hwv hs
              rw [specValue, if_pos hd] at this
              rw [specDyn_struct tag prev k sd hd _ table k0 hlook, this]
            | dyn a b => simp [DEnt.decodable] at hdec
            | unsupported => simp [DEnt.decodable] at hdec
        rw [hval]
        simp only [Option.bind_some, hdt]
        simp [normFV]
  termination_by structural d _ _ => d
end

end Kmip
