import KmipModel.Session
import KmipModel.Wire
/-
  Two models describe `Server.handleBatch`: the session model (KmipModel/Session.lean: WHETHER a request is answered, which
  callbacks and handlers run, with abstract identities for payloads and messages) and the message model (KmipModel/Wire.lean:
  WHAT the answer is, as a value of the Response schema).  Each is tied to the code on its own.  This file relates them to each
  other: on a request both describe, they agree on whether there is a response and on everything in it that both can see -
  the echoed header fields, and per item the operation, the batch item ID, the status and the reason.
-/
set_option linter.unusedSimpArgs false
namespace Kmip.SessionWire
open Kmip Kmip.Session Kmip.Wire

def hStatus : HRes → Nat
  | .success _ => 0
  | .failed _ _ => 1

def hReason : HRes → Nat
  | .success _ => 0
  | .failed r _ => r

/-- the message model's decision, on the view -/
def answers (authOk : Bool) (rq : ReqView) : Bool :=
  decide (¬(rq.batchCount ≠ rq.items.length ∨ 2147483648 ≤ rq.batchCount) ∧ rq.async = false ∧ ¬(rq.credType ≠ 0 ∧ authOk = false))

theorem handleBatch_eq (zNonce zExt : Val) (clock : Nat) (authOk : Bool) (H : Nat → ItemIn → HRes) (req : Val) :
    handleBatch zNonce zExt clock authOk H req =
      match reqView req with
      | none => none
      | some rq => if answers authOk rq = true then some (respVal zNonce zExt clock H rq) else none := by
  unfold handleBatch
  cases reqView req with
  | none => rfl
  | some rq =>
    simp only [answers, decide_eq_true_eq]
    by_cases h1 : rq.batchCount ≠ rq.items.length ∨ 2147483648 ≤ rq.batchCount
    · simp [h1]
    · cases ha : rq.async with
      | true => simp [h1]
      | false =>
        by_cases h3 : rq.credType ≠ 0 ∧ authOk = false
        · simp [h1, h3]
        · simp [h1, h3]

/-- the per-item facts both models state, read off a Response Batch Item value -/
def itemFacts : Val → Option (Nat × Bytes × Nat × Nat)
  | .struct (.one (.enum op) :: .one (.bytes uid) :: .one (.enum st) :: .one (.enum rs) :: _) => some (op, uid, st, rs)
  | _ => none

def resFacts (x : ItemRes) : Nat × Bytes × Nat × Nat := (x.op, x.uid, x.status, x.reason)

theorem itemFacts_respItem (zExt : Val) (it : ItemIn) (res : HRes) :
    itemFacts (respItem zExt it res) = some (it.op, it.uid, hStatus res, hReason res) := by
  cases res <;> rfl

/-- `rq`, `H` (message model) describe the same request as `r` (session model, under `cfg`) -/
structure Represents (cfg : Cfg) (r : Req) (rq : ReqView) (H : Nat → ItemIn → HRes) : Prop where
  version : rq.version = .struct [.one (.int r.version.1), .one (.int r.version.2)]
  corr : rq.corr = r.corr
  bc : rq.batchCount = r.batchCount
  async : rq.async = r.async
  cred : rq.credType = r.credType
  len : rq.items.length = r.items.length
  /-- item by item: same operation and ID, and every handler outcome the message model is given has the status and reason the
      session model derives from the handler's behaviour -/
  items : ∀ i it sit, rq.items[i]? = some it → r.items[i]? = some sit →
    it.op = sit.op ∧ it.uid = sit.uid ∧
    hStatus (H i it) = (itemResult cfg.registered sit).status ∧ hReason (H i it) = (itemResult cfg.registered sit).reason

/-- WHETHER: on a request both models describe (whose response can be encoded and written), the session model's loop goes on
    - a response was sent - exactly when the message model builds one; `authOk` of the message model being "the request may
    proceed" of the session model's authentication step -/
theorem agree_on_answering (cfg : Cfg) (k : Nat) (r : Req) (rq : ReqView) (H : Nat → ItemIn → HRes) (h : Represents cfg r rq H)
    (hsmall : r.items.length < 2147483648) (henc : r.items.all (itemEncodable cfg.registered) = true) (hw : r.writeOk = true) :
    (handleReq cfg k r).2 = answers ((authStep cfg k r).2.isSome) rq := by
  obtain ⟨_, _, hbc, hasync, hcred, hlen, _⟩ := h
  unfold handleReq answers
  rw [hbc, hasync, hcred, hlen]
  by_cases h1 : r.batchCount ≠ r.items.length
  · simp [h1]
  · have h1' : r.batchCount = r.items.length := by simpa using h1
    cases ha : r.async with
    | true => simp [h1']
    | false =>
      unfold authStep
      by_cases hc : r.credType = 0
      · simp [hc, henc, hw, h1', hsmall]
      · cases hra : cfg.hasRequestAuth with
        | false => simp [hc, hra, h1']
        | true =>
          cases hres : r.authRes with
          | ok v => simp [hc, hra, hres, henc, hw, hsmall, h1']
          | fail => simp [hc, hra, hres, h1']

theorem agree_on_items_aux (reg : List Nat) (zExt : Val) (H : Nat → ItemIn → HRes) :
    ∀ (its : List ItemIn) (i : Nat) (sits : List ReqItem), its.length = sits.length →
      (∀ j it sit, its[j]? = some it → sits[j]? = some sit →
        it.op = sit.op ∧ it.uid = sit.uid ∧ hStatus (H (i + j) it) = (itemResult reg sit).status ∧
          hReason (H (i + j) it) = (itemResult reg sit).reason) →
      (respItems zExt H i its).map itemFacts = sits.map (fun s => some (resFacts (itemResult reg s))) := by
  intro its
  induction its with
  | nil => intro i sits hl _; cases sits <;> simp_all [respItems]
  | cons it rest ih =>
    intro i sits hl hall
    cases sits with
    | nil => simp at hl
    | cons sit srest =>
      have h0 := hall 0 it sit rfl rfl
      have hrest := ih (i + 1) srest (by simpa using hl) (fun j it' sit' hj hs => by
        have := hall (j + 1) it' sit' (by simpa using hj) (by simpa using hs)
        rw [show i + (j + 1) = i + 1 + j by omega] at this
        exact this)
      have hop : (itemResult reg sit).op = sit.op := by unfold itemResult; split <;> (try split) <;> rfl
      have huid : (itemResult reg sit).uid = sit.uid := by unfold itemResult; split <;> (try split) <;> rfl
      simp only [Nat.add_zero] at h0
      simp only [respItems, List.map_cons, itemFacts_respItem, hrest, resFacts, hop, huid, h0.1, h0.2.1, h0.2.2.1, h0.2.2.2]

/-- WHAT, per item: operation, batch item ID, status and reason of every Response Batch Item the message model builds are those
    the session model reports -/
theorem agree_on_items (cfg : Cfg) (r : Req) (rq : ReqView) (H : Nat → ItemIn → HRes) (zExt : Val) (h : Represents cfg r rq H) :
    (respItems zExt H 0 rq.items).map itemFacts = (respOf cfg r).items.map (fun x => some (resFacts x)) := by
  have := agree_on_items_aux cfg.registered zExt H rq.items 0 r.items h.len (fun j it sit hj hs => by
    rw [Nat.zero_add]; exact h.items j it sit hj hs)
  simpa [respOf, List.map_map, Function.comp_def] using this

/-- WHAT, header: the Response value the message model builds carries the version, time, correlation value and batch count
    the session model's response has -/
theorem agree_on_header (cfg : Cfg) (r : Req) (rq : ReqView) (H : Nat → ItemIn → HRes) (zNonce zExt : Val) (h : Represents cfg r rq H) :
    respVal zNonce zExt r.clock H rq =
      .struct [
        .one (.struct [.one (.struct [.one (.int (respOf cfg r).version.1), .one (.int (respOf cfg r).version.2)]),
                       .one (.time (respOf cfg r).clock), .one zNonce, .many [], .one (.text (respOf cfg r).corr), .one (.text []),
                       .one (.int (respOf cfg r).batchCount)]),
        .many (respItems zExt H 0 rq.items)] := by
  simp [respVal, respOf, h.version, h.corr, h.bc]

end Kmip.SessionWire
