import KmipModel.Decode
/-
  C05: what one `Decoder.Decode` call allocates, as a cost semantics ON the decoder model (KmipModel/Decode.lean) - not a
  separate list of operations: the functions below follow decode.go's recursion once more, call the decoder model itself for
  every state they continue from, and add up the allocations the Go code makes on the way, each at the place it is made:

  * `decode` for a structure (decode.go): once tag, type and length are read - `NewDecoder(io.LimitReader(d.r, length))`, i.e. a
    Decoder, an io.LimitedReader and a `bufio.Reader` with its 4096-byte buffer; `getStructDesc` (fields.go) builds the
    descriptor afresh, one entry per field of the Go struct; `reflect.New` / `BuildFieldValue` for the value; the `errors.Wrapf`
    this level adds if anything below it fails;
  * an item (`decodeValue`): once its type byte is read - the header buffers handed to io.ReadFull, a grown slice element
    (`reflect.Append`), a prototype from `BuildFieldValue`, conversions;
  * a Text / Byte String (`readByteSlice`): `make([]byte, 0, min(declared, 4096))`, one 4096-byte chunk buffer per loop
    iteration - one per 4096 bytes OBTAINED plus the one that meets the end of the input -, `append`'s growth and the
    conversion to `string`: all proportional to the bytes obtained, none to the length declared;
  * a skipped item: discarded through io.Copy's pooled 8192-byte buffer (charged every time: a pool may be empty).

  The charges are upper estimates with round numbers; that they do bound the real allocations is what `kvrun C05` measures,
  input by input (runtime.MemStats per Decode call against `decodeCost` of that very input).  What is PROVED
  (KmipProofs/DecodeCostBound.lean, KmipProps/C05.lean): whatever the input - whatever lengths it declares -

      decodeCost sd input  ≤  A · (bytes of input available)  +  B.
-/
namespace Kmip.Cost
open Kmip

def chunk : Nat := 4096

/-- bytes allocated per byte obtained, at most -/
def A : Nat := 1600

/-- fixed part of a Decode call: the top-level Decoder (with its bufio.Reader when the source is no io.ByteScanner), the first
    error value with its stack trace, io.Copy's pooled 32 KiB buffer on first use, reflection caches -/
def B : Nat := 65536

/-- an item, once its type byte has been read -/
def cItem : Nat := 2048

/-- a structure, once its header has been read: nested Decoder + LimitedReader + bufio.Reader (4096) + reflect.New + the
    error wrap of this level ... -/
def cStructBase : Nat := chunk + 1024

/-- ... + one descriptor entry per field of the Go struct (`getStructDesc` is not cached) -/
def cFieldDesc : Nat := 96

def cStruct (fields : List Fld) : Nat := cStructBase + cFieldDesc * fields.length

/-- `readByteSlice`: `got` = payload bytes actually obtained (≤ declared) -/
def stringAlloc (declared got : Nat) : Nat :=
  min declared chunk + (got / chunk + 1) * chunk + 6 * got

/-- the bytes a Decoder can still obtain: its window, a peeked tag counting as not yet used -/
def phi (d : Dec) : Nat := d.win.length + (if d.last ≠ 0 then 3 else 0)

/-- item header: charged when the type byte is obtained -/
def costHead (d : Dec) (tag : Nat) : Nat :=
  match expectTag d tag with
  | .ok d1 =>
    match readByte d1 with
    | .ok _ => cItem
    | _ => 0
  | _ => 0

/-- a Text / Byte String item -/
def costVar (d : Dec) (tag ty : Nat) : Nat :=
  costHead d tag +
  (match expectTag d tag with
   | .ok d1 =>
     match expectType d1 ty with
     | .ok d2 =>
       match readLength d2 with
       | .ok (l, d3) => stringAlloc l (min l d3.win.length)
       | _ => 0
     | _ => 0
   | _ => 0)

/-- io.Copy into ioutil.Discard reads through an 8192-byte buffer from a sync.Pool, which is allocated anew whenever the
    pool has been emptied (first use, after a garbage collection) -/
def cDiscard : Nat := 8192

/-- a skipped item: the header charge, and the discard buffer once the length is read -/
def costSkip (d : Dec) (tag : Nat) : Nat :=
  costHead d tag +
  (match expectTag d tag with
   | .ok d1 =>
     match readByte d1 with
     | .ok (_, d2) =>
       match readLength d2 with
       | .ok _ => cDiscard
       | _ => 0
     | _ => 0
   | _ => 0)

def costPrim (d : Dec) (tag : Nat) : PTy → Nat
  | .bytes => costVar d tag 8
  | .text => costVar d tag 7
  | _ => costHead d tag

/-- the slice loop: `step` / `stepCost` = decoding one element and what that allocates -/
def costSliceLoop (step : Dec → Outcome (Val × Nat × Dec)) (stepCost : Dec → Nat) (ftag expected : Nat) :
    Nat → Dec → Nat → Nat
  | 0, _, _ => 0
  | fuel + 1, dd, n =>
    stepCost dd +
    (match (step dd).wrap with
     | .ok (_, nn, dd1) =>
       if (n + nn) % two32 ≥ expected then 0
       else
         match peekTag dd1 with
         | .ok (tag, dd2) => if tag ≠ ftag then 0 else costSliceLoop step stepCost ftag expected fuel dd2 (n + nn)
         | _ => 0
     | _ => 0)

mutual
  def costValue (tag : Nat) (prev : List FV) : FTy → Dec → Nat
    | .prim p, d => costPrim d tag p
    | .struct sd, d => if sd.descOk then costStruct tag sd d else 0
    | .dyn sel table, d =>
      match prev[sel]? with
      | none => 0
      | some fv =>
        match keyOf fv with
        | none => 0
        | some k => costDyn tag prev k table d
    | .unsupported, _ => 0
  def costDyn (tag : Nat) (prev : List FV) (k : Key) : List DEnt → Dec → Nat
    | [], _ => 0
    | .mk k' ptr ty :: rest, d =>
      if k' = k then
        match ty with
        | .prim p => if ptr = true ∨ p = .interval then 0 else costPrim d tag p
        | .struct sd => if ptr = true then (if sd.descOk then costStruct tag sd d else 0) else 0
        | .dyn _ _ => 0
        | .unsupported => 0
      else costDyn tag prev k rest d
  def costStruct (tag : Nat) : SD → Dec → Nat
    | .mk _ _ fields, d =>
      match expectTag d tag with
      | .ok d1 =>
        match expectType d1 structCode with
        | .ok d2 =>
          match readLength d2 with
          | .ok (expected, d3) => cStruct fields + costFields fields expected (limitDec d3 expected) 0 []
          | _ => 0
        | _ => 0
      | _ => 0
  def costFields : List Fld → Nat → Dec → Nat → List FV → Nat
    | [], _, _, _, _ => 0
    | f :: fs, expected, dd, n, prev =>
      costField f expected dd n prev +
      (match decField f expected dd n prev with
       | .ok (fv, n', dd') => costFields fs expected dd' n' (prev ++ [fv])
       | _ => 0)
  def costField : Fld → Nat → Dec → Nat → List FV → Nat
    | .mk _ tag required slice skip ty, expected, dd, n, prev =>
      match peekTag dd with
      | .ok (t, dd1) =>
        if required = false ∧ t ≠ tag ∧ tag ≠ anyTag then 0
        else if skip then costSkip dd1 tag
        else if slice then costSliceLoop (decValue tag prev ty) (costValue tag prev ty) tag expected (dd1.win.length + 3) dd1 n
        else costValue tag prev ty dd1
      | _ => 0
end

/-- one `NewDecoder(src).Decode(&v)` on the input `bs` -/
def decodeCost (sd : SD) (bs : Bytes) (fin : Fin := .eof) : Nat :=
  B + (if sd.descOk then costStruct sd.tag sd { win := bs, fin := fin, last := 0 } else 0)

/-- the widest structure the bound is stated for (the 8 header bytes of a structure pay for `cStruct`) -/
def width : Nat := 64

mutual
  /-- no structure of the schema - however deep, behind whatever dispatch table - has more than `w` fields -/
  def SD.narrow (w : Nat) : SD → Bool
    | .mk _ _ fs => decide (fs.length ≤ w) && fldsNarrow w fs
  def fldsNarrow (w : Nat) : List Fld → Bool
    | [] => true
    | .mk _ _ _ _ _ ty :: fs => ftyNarrow w ty && fldsNarrow w fs
  def ftyNarrow (w : Nat) : FTy → Bool
    | .prim _ => true
    | .struct sd => SD.narrow w sd
    | .dyn _ table => dentsNarrow w table
    | .unsupported => true
  def dentsNarrow (w : Nat) : List DEnt → Bool
    | [] => true
    | .mk _ _ ty :: rest => ftyNarrow w ty && dentsNarrow w rest
end

end Kmip.Cost
