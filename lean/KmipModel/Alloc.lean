import KmipModel.Basic
/-
  Allocation accounting model for Decode (decode.go / decode_core.go as they are now).  Each reader operation is charged with
  the explicit allocations of the Go code at their Go sizes; allocations made inside reflect / errors / bufio / append are
  charged by constants that the harness calibrates against runtime.MemStats (kvrun C05).  The point of the model: NO charge
  depends on a declared length — only on bytes actually obtained from the input.
-/
namespace Kmip.Alloc

def chunk : Nat := 4096

/-- `readByteSlice` after the fix: `make([]byte, 0, min(l, 4096))`, then per loop iteration one 4096-byte chunk buffer and an
    `append` whose amortised cost is at most 4 bytes per byte appended; `got` = payload bytes actually obtained (≤ declared) -/
def stringAlloc (declared got : Nat) : Nat :=
  min declared chunk + (got / chunk + 2) * chunk + 4 * got

/-- one reader operation of a Decode call and the bytes it obtained from the input -/
inductive Op where
  | structHeader                         -- 8 header bytes read; a nested Decoder (bufio 4096 + limit reader + reflect.New) is created
  | fixedItem                            -- a 16-byte item (or the attempt: header read, value possibly missing)
  | stringItem (declared got : Nat)      -- header read, `got` ≤ declared payload bytes obtained
  | skipItem (got : Nat)                 -- header read, `got` bytes discarded through a pooled buffer
  deriving Repr

def Op.consumed : Op → Nat
  | .structHeader => 8
  | .fixedItem => 8
  | .stringItem _ got => 8 + got
  | .skipItem got => 8 + got

def Op.cost : Op → Nat
  | .structHeader => chunk + 512
  | .fixedItem => 256
  | .stringItem declared got => 256 + stringAlloc declared got
  | .skipItem _ => 256

def totalCost (ops : List Op) : Nat := (ops.map Op.cost).sum
def totalConsumed (ops : List Op) : Nat := (ops.map Op.consumed).sum

/-- bytes allocated per byte obtained, at most -/
def A : Nat := 1600

end Kmip.Alloc
