import KmipModel.Basic
/-
  Expected dataflow facts (kvscan: KmipGen/Dataflow.lean): for the functions that build messages, every assignment and every
  field of every composite literal as (target, source), in source order. Hand-written from a reading of /repo at cd14a2e;
  updated by hand after a reviewed change of /repo, like ExpectSkel.lean. The skeletons say THAT a field is set, these say FROM
  WHAT - the copies the message model (KmipModel/Wire.lean) makes are the `resp.` / `request.` rows (Wire.respFlow, Wire.reqFlow).
-/
namespace Kmip.ExpectFlow

def flow_Client_Send : List (String × String) := [
  ("err", "errors.New(\"not connected\")"),
  ("request.Header.Version", "c.Version"),
  ("request.Header.BatchCount", "1"),
  ("request.BatchItems[0].Operation", "operation"),
  ("request.BatchItems[0].RequestPayload", "req"),
  ("_", "c.conn.SetWriteDeadline(time.Now().Add(c.WriteTimeout))"),
  ("err", "c.e.Encode(request)"),
  ("err", "errors.Wrap(err, \"error writing request\")"),
  ("_", "c.conn.SetReadDeadline(time.Now().Add(c.ReadTimeout))"),
  ("err", "c.d.Decode(&response)"),
  ("err", "errors.Wrap(err, \"error reading response\")"),
  ("err", "errors.Errorf(\"unexepcted response batch count: %d\", response.Header.BatchCount)"),
  ("err", "errors.Errorf(\"unexpected response batch items: %d\", len(response.BatchItems))"),
  ("err", "errors.Errorf(\"unexpected response operation: %d\", response.BatchItems[0].Operation)"),
  ("resp", "response.BatchItems[0].ResponsePayload"),
  ("err", "wrapError(errors.New(response.BatchItems[0].ResultMessage), response.BatchItems[0].ResultReason)")
]

def flow_Server_handleBatch : List (String × String) := [
  ("err", "errors.Errorf(\"request batch count doesn't match number of batch items: %d != %d\", req.Header.BatchCount, len(req.BatchItems))"),
  ("err", "errors.New(\"asynchnronous requests are not supported\")"),
  ("resp.Header.Version", "req.Header.Version"),
  ("resp.Header.TimeStamp", "time.Now()"),
  ("resp.Header.ClientCorrelationValue", "req.Header.ClientCorrelationValue"),
  ("resp.Header.BatchCount", "req.Header.BatchCount"),
  ("resp.BatchItems", "make([]ResponseBatchItem, req.Header.BatchCount)"),
  ("requestCtx.SessionContext", "*session"),
  ("err", "errors.New(\"request has authentication set, but no auth handler configured\")"),
  ("requestCtx.RequestAuth,err", "s.RequestAuthHandler(session, &req.Header.Authentication)"),
  ("err", "errors.Wrap(err, \"error running auth handler\")"),
  ("resp.BatchItems[i].Operation", "req.BatchItems[i].Operation"),
  ("resp.BatchItems[i].UniqueID", "append([]byte(nil), req.BatchItems[i].UniqueID...)"),
  ("batchResp,batchErr", "s.handleWrapped(requestCtx, &req.BatchItems[i])"),
  ("resp.BatchItems[i].ResultStatus", "RESULT_STATUS_OPERATION_FAILED"),
  ("resp.BatchItems[i].ResultMessage", "batchErr.Error()"),
  ("protoErr,ok", "batchErr.(Error)"),
  ("resp.BatchItems[i].ResultReason", "protoErr.ResultReason()"),
  ("resp.BatchItems[i].ResultReason", "RESULT_REASON_GENERAL_FAILURE"),
  ("resp.BatchItems[i].ResultStatus", "RESULT_STATUS_SUCCESS"),
  ("resp.BatchItems[i].ResponsePayload", "batchResp")
]

def flow_Server_handleWrapped : List (String × String) := [
  ("finished", "false"),
  ("p", "recover()"),
  ("resp", "nil"),
  ("err", "errors.Errorf(\"panic: %v\", p)"),
  ("buf", "make([]byte, 8192)"),
  ("n", "runtime.Stack(buf, false)"),
  ("handler", "s.handlers[item.Operation]"),
  ("err", "wrapError(errors.New(\"operation not supported\"), RESULT_REASON_OPERATION_NOT_SUPPORTED)"),
  ("finished", "true"),
  ("resp,err", "handler(request, item)"),
  ("reason", "RESULT_REASON_GENERAL_FAILURE"),
  ("protoErr,ok", "err.(Error)"),
  ("reason", "protoErr.ResultReason()"),
  ("err", "wrapError(errors.New(err.Error()), reason)"),
  ("finished", "true")
]

def flow_Server_serve : List (String × String) := [
  ("sessionCtx.SessionID", "session"),
  ("tlsConn,ok", "conn.(*tls.Conn)"),
  ("_", "conn.SetReadDeadline(time.Now().Add(s.ReadTimeout))"),
  ("_", "conn.SetWriteDeadline(time.Now().Add(s.WriteTimeout))"),
  ("err", "tlsConn.Handshake()"),
  ("sessionAuthHandler", "s.SessionAuthHandler"),
  ("sessionCtx.SessionAuth,err", "sessionAuthHandler(conn)"),
  ("d", "NewDecoder(conn)"),
  ("e", "NewEncoder(conn)"),
  ("_", "conn.SetReadDeadline(time.Now().Add(s.ReadTimeout))"),
  ("err", "d.Decode(req)"),
  ("resp,err", "s.handleBatch(sessionCtx, req)"),
  ("_", "conn.SetWriteDeadline(time.Now().Add(s.WriteTimeout))"),
  ("err", "e.Encode(resp)")
]

end Kmip.ExpectFlow
