import KmipModel.Client
import KmipModel.WF
/-
  The messages themselves: what `Client.Send` (client.go) puts into a Request and what `Server.handleBatch` (server.go) puts
  into the Response, as model VALUES of the generated Request / Response schemas - the glue between the codec model
  (Encode.lean / Decode.lean) and the two ends of a connection.  The session model (Session.lean) decides WHETHER a request is
  answered and which handlers run; this file says WHAT the answer is, field by field:

      resp.Header.Version                = req.Header.Version
      resp.Header.TimeStamp              = time.Now()
      resp.Header.ClientCorrelationValue = req.Header.ClientCorrelationValue
      resp.Header.BatchCount             = req.Header.BatchCount
      resp.BatchItems[i].Operation       = req.BatchItems[i].Operation
      resp.BatchItems[i].UniqueID        = copy of req.BatchItems[i].UniqueID
      resp.BatchItems[i].{ResultStatus, ResultReason, ResultMessage, ResponsePayload} from the handler's outcome

  Values are lists of field values in descriptor order; the positions used below are checked against the schema regenerated
  from /repo (GenC07_wire_positions).  Tied to the code by `kvrun C07` / `kvrun C14`: the bytes the real Server writes for a
  request (time stamp masked) and the bytes the real Client writes for a Send are compared with the encodings of these values.
-/
namespace Kmip.Wire
open Kmip

/-! ### positions (descriptor order) -/
def rqHeader : Nat := 0
def rqItems : Nat := 1
def hVersion : Nat := 0
def hClientCorr : Nat := 2
def hAsync : Nat := 4
def hAuth : Nat := 7
def hBatchCount : Nat := 11
def aCredType : Nat := 0
def iOperation : Nat := 0
def iUniqueID : Nat := 1
def iPayload : Nat := 2

structure ItemIn where
  op : Nat
  uid : Bytes
  payload : DynV

/-- the parts of a decoded Request that handleBatch reads -/
structure ReqView where
  version : Val
  corr : Bytes
  async : Bool
  credType : Nat
  batchCount : Nat
  items : List ItemIn

def itemIn : Val → Option ItemIn
  | .struct fs =>
    match fs[iOperation]?, fs[iUniqueID]?, fs[iPayload]? with
    | some (.one (.enum op)), some (.one (.bytes uid)), some (.dyn p) => some { op := op, uid := uid, payload := p }
    | _, _, _ => none
  | _ => none

def reqView : Val → Option ReqView
  | .struct fs =>
    match fs[rqHeader]?, fs[rqItems]? with
    | some (.one (.struct hs)), some (.many items) =>
      match hs[hVersion]?, hs[hClientCorr]?, hs[hAsync]?, hs[hAuth]?, hs[hBatchCount]? with
      | some (.one ver), some (.one (.text corr)), some (.one (.bool async)), some (.one (.struct au)), some (.one (.int bc)) =>
        match au[aCredType]? with
        | some (.one (.enum ct)) =>
          (items.mapM itemIn).map fun its =>
            { version := ver, corr := corr, async := async, credType := ct, batchCount := bc, items := its }
        | _ => none
      | _, _, _, _, _ => none
    | _, _ => none
  | _ => none

/-- the outcome of `handleWrapped` for one item as handleBatch sees it -/
inductive HRes where
  /-- `(p, nil)`: Success with payload `p` (`.nil` when the handler returned a nil payload) -/
  | success (p : DynV)
  /-- any error (the handler's, the recovered panic, "operation not supported"): Operation Failed with the error's result
      reason (General Failure unless the error carries one) and its text -/
  | failed (reason : Nat) (msg : Bytes)

def statusSuccess : Nat := 0
def statusFailed : Nat := 1

/-- one Response Batch Item (`zExt` = the zero Message Extension) -/
def respItem (zExt : Val) (it : ItemIn) : HRes → Val
  | .success p =>
    .struct [.one (.enum it.op), .one (.bytes it.uid), .one (.enum statusSuccess), .one (.enum 0), .one (.text []),
             .one (.bytes []), .dyn p, .one zExt]
  | .failed r m =>
    .struct [.one (.enum it.op), .one (.bytes it.uid), .one (.enum statusFailed), .one (.enum r), .one (.text m),
             .one (.bytes []), .dyn .nil, .one zExt]

def respItems (zExt : Val) (H : Nat → ItemIn → HRes) : Nat → List ItemIn → List Val
  | _, [] => []
  | i, it :: rest => respItem zExt it (H i it) :: respItems zExt H (i + 1) rest

/-- the Response handleBatch builds (`zNonce` = the zero Nonce; `clock` = time.Now() in seconds, as carried on the wire) -/
def respVal (zNonce zExt : Val) (clock : Nat) (H : Nat → ItemIn → HRes) (rq : ReqView) : Val :=
  .struct [
    .one (.struct [.one rq.version, .one (.time clock), .one zNonce, .many [], .one (.text rq.corr), .one (.text []),
                   .one (.int rq.batchCount)]),
    .many (respItems zExt H 0 rq.items)]

/-- `handleBatch` as far as the message goes: `none` = an error is returned (the session closes the connection without a
    response).  `authOk` = the request carries no credentials, or the request-authentication callback accepted them. -/
def handleBatch (zNonce zExt : Val) (clock : Nat) (authOk : Bool) (H : Nat → ItemIn → HRes) (req : Val) : Option Val :=
  match reqView req with
  | none => none
  | some rq =>
    if rq.batchCount ≠ rq.items.length ∨ 2147483648 ≤ rq.batchCount then none
    else if rq.async then none
    else if rq.credType ≠ 0 ∧ authOk = false then none
    else some (respVal zNonce zExt clock H rq)

/-! ### the request `Client.Send(operation, payload)` builds -/

def zeroAuth : Val := .struct [.one (.enum 0), .dyn .nil]

def mkRequest (zExt : Val) (ver : Nat × Nat) (op : Nat) (payload : DynV) : Val :=
  .struct [
    .one (.struct [.one (.struct [.one (.int ver.1), .one (.int ver.2)]), .one (.int 0), .one (.text []), .one (.text []),
                   .one (.bool false), .one (.bool false), .many [], .one zeroAuth, .one (.enum 0), .one (.bool false),
                   .one (.time zeroTimeU), .one (.int 1)]),
    .many [.struct [.one (.enum op), .one (.bytes []), .dyn payload, .one zExt]]]

/-! ### the same, as a table: where each field of the two messages comes from (compared with the assignments kvscan reads off
    `handleBatch` and `Client.Send`: GenC07_response_copies, GenC14_request_copies) -/

/-- every assignment to a field of the Response in `handleBatch`, in source order -/
def respFlow : List (String × String) := [
  ("resp.Header.Version", "req.Header.Version"),
  ("resp.Header.TimeStamp", "time.Now()"),
  ("resp.Header.ClientCorrelationValue", "req.Header.ClientCorrelationValue"),
  ("resp.Header.BatchCount", "req.Header.BatchCount"),
  ("resp.BatchItems", "make([]ResponseBatchItem, req.Header.BatchCount)"),
  ("resp.BatchItems[i].Operation", "req.BatchItems[i].Operation"),
  ("resp.BatchItems[i].UniqueID", "append([]byte(nil), req.BatchItems[i].UniqueID...)"),
  ("resp.BatchItems[i].ResultStatus", "RESULT_STATUS_OPERATION_FAILED"),
  ("resp.BatchItems[i].ResultMessage", "batchErr.Error()"),
  ("resp.BatchItems[i].ResultReason", "protoErr.ResultReason()"),
  ("resp.BatchItems[i].ResultReason", "RESULT_REASON_GENERAL_FAILURE"),
  ("resp.BatchItems[i].ResultStatus", "RESULT_STATUS_SUCCESS"),
  ("resp.BatchItems[i].ResponsePayload", "batchResp")]

/-- every field of the Request literal in `Client.Send` -/
def reqFlow : List (String × String) := [
  ("request.Header.Version", "c.Version"),
  ("request.Header.BatchCount", "1"),
  ("request.BatchItems[0].Operation", "operation"),
  ("request.BatchItems[0].RequestPayload", "req")]

/-- the rows of a dataflow table whose target lies under `root` (`resp` / `request`) -/
def under (root : List Char) (t : List (String × String)) : List (String × String) :=
  t.filter fun p => (p.1.toList.take (root.length + 1)) == root ++ ['.']

end Kmip.Wire
