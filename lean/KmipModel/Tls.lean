import KmipModel.Session
/-
  Model of tls.go (DefaultServerTLSConfig / DefaultClientTLSConfig) and of what the properties assume from crypto/tls.
-/
namespace Kmip.Tls

def tls10 : Nat := 0x0301
def tls11 : Nat := 0x0302
def tls12 : Nat := 0x0303
def tls13 : Nat := 0x0304
/-- tls.RequireAndVerifyClientCert -/
def requireAndVerify : Nat := 4

/-- the fields of tls.Config that matter here -/
structure Cfg where
  minVersion : Nat
  maxVersion : Nat
  clientAuth : Nat
  insecureSkipVerify : Bool
  preferServerCipherSuites : Bool
  deriving DecidableEq, Repr

/-- `DefaultServerTLSConfig(config)` -/
def defaultServer (c : Cfg) : Cfg :=
  { c with minVersion := tls12, preferServerCipherSuites := true, clientAuth := requireAndVerify }

/-- `DefaultClientTLSConfig(config)` -/
def defaultClient (c : Cfg) : Cfg := { c with minVersion := tls12 }

inductive Cert where
  | none | valid | selfSigned | otherCA | expired | wrongHost
  deriving DecidableEq, Repr

/-- a peer: the certificate it presents, the highest protocol version it speaks, or no TLS at all -/
structure Peer where
  cert : Cert
  maxVersion : Nat
  plaintext : Bool
  deriving DecidableEq, Repr

/-- ASSUMPTION about crypto/tls (validated by the peer matrix of kvrun C16, not proved): a server-side handshake succeeds
    only if the peer speaks TLS at a version ≥ MinVersion and, under RequireAndVerifyClientCert, presents a certificate
    chaining to ClientCAs that is within its validity period (host names are not checked for client certificates) -/
def serverHandshakeOk (c : Cfg) (p : Peer) : Bool :=
  !p.plaintext && decide (c.minVersion ≤ p.maxVersion) &&
    (c.clientAuth != requireAndVerify || p.cert == .valid || p.cert == .wrongHost)

/-- ASSUMPTION about crypto/tls, client side: the handshake succeeds only if the server speaks a version ≥ MinVersion and
    (unless InsecureSkipVerify) its certificate verifies against RootCAs and ServerName -/
def clientHandshakeOk (c : Cfg) (p : Peer) : Bool :=
  !p.plaintext && decide (c.minVersion ≤ p.maxVersion) && (c.insecureSkipVerify || p.cert == .valid)

end Kmip.Tls
