import KmipModel.Decode
import KmipModel.IoStack
/-
  decode.go / decode_core.go once more - the same control flow as KmipModel/Decode.lean, statement for statement - but
  reading through the REAL reader stack (KmipModel/IoStack.lean) instead of a flat window of bytes:

  * a Decoder = the stack it reads from (`s`; its top layer is the Decoder's own bufio.Reader) and the lookahead tag `last`;
  * `io.ReadFull(d.r, …)` = `Stack.readFull`, `d.s.ReadByte()` = `Stack.readByte`, `io.CopyN(ioutil.Discard, d.r, ll)` =
    `Stack.copyNDiscard`;
  * string payloads are read in chunks of at most 4096 bytes, a trailing `io.EOF` after some data becoming
    io.ErrUnexpectedEOF (readByteSlice);
  * the decoder of a structure body is `NewDecoder(io.LimitReader(d.r, declaredLength))` = `Stack.nested`; when the
    structure is done the outer Decoder goes on with its own reader, which is the SAME object the nested one has been
    reading from: the layer underneath the nested stack's limit reader (`below`).

  KmipProofs/DecodeStackSim.lean proves that this decoder, on any stack satisfying `Stack.Inv`, computes exactly what the
  flat model computes on the stack's flat view: C06's fragmentation independence for the whole of Decode.
-/
namespace Kmip.Stk
open Kmip Kmip.Io

structure SDec where
  s : Stack
  last : Nat

def readFull (d : SDec) (k : Nat) : Outcome (Bytes × SDec) :=
  match d.s.readFull k with
  | .ok (b, s') => .ok (b, { d with s := s' })
  | .err e => .err e
  | .panic p => .panic p

def readByte (d : SDec) : Outcome (Nat × SDec) :=
  match d.s.readByte with
  | .ok (c, s') => .ok (c.toNat, { d with s := s' })
  | .err e => .err e
  | .panic p => .panic p

def internalReadTag (d : SDec) : Outcome (Nat × SDec) :=
  (readFull d 3).bind fun (b, d') => .ok (fromBE b, d')

def readTag (d : SDec) : Outcome (Nat × SDec) :=
  if d.last ≠ 0 then .ok (d.last, { d with last := 0 })
  else internalReadTag d

def peekTag (d : SDec) : Outcome (Nat × SDec) :=
  if d.last ≠ 0 then .ok (d.last, d)
  else (internalReadTag d).bind fun (t, d') => .ok (t, { d' with last := t })

def expectTag (d : SDec) (expected : Nat) : Outcome SDec :=
  (readTag d).bind fun (t, d') => if expected ≠ t ∧ expected ≠ anyTag then .err .other else .ok d'

def expectType (d : SDec) (expected : Nat) : Outcome SDec :=
  (readByte d).bind fun (t, d') => if expected ≠ t then .err .other else .ok d'

def readLength (d : SDec) : Outcome (Nat × SDec) :=
  (readFull d 4).bind fun (b, d') => .ok (fromBE b, d')

def expectLength (d : SDec) (expected : Nat) : Outcome SDec :=
  (readLength d).bind fun (l, d') => if expected ≠ l then .err .other else .ok d'

def readFixed (d : SDec) (tag ty len : Nat) : Outcome (Bytes × SDec) :=
  (expectTag d tag).bind fun d1 =>
  (expectType d1 ty).bind fun d2 =>
  (expectLength d2 len).bind fun d3 =>
  readFull d3 8

def readChunkSize : Nat := 4096

/-- the payload loop of readByteSlice: `for len(v) < l { nn, err = io.ReadFull(d.r, chunk[:min(l-len(v), 4096)]); v = append(v, chunk[:nn]...);
    if err != nil { if err == io.EOF && len(v) > 0 { err = io.ErrUnexpectedEOF }; return } }` (a failed ReadFull's partial bytes
    only matter for that test: the value is discarded with the error) -/
def readChunks : Nat → SDec → Nat → Bytes → Outcome (Bytes × SDec)
  | 0, _, _, _ => .err .other
  | fuel + 1, d, l, v =>
    if l ≤ v.length then .ok (v, d)
    else
      match readFull d (min (l - v.length) readChunkSize) with
      | .ok (b, d') => readChunks fuel d' l (v ++ b)
      | .err e => .err (if e = .eof ∧ 0 < v.length then .other else e)
      | .panic p => .panic p

def readVar (d : SDec) (tag ty : Nat) : Outcome (Bytes × Nat × SDec) :=
  (expectTag d tag).bind fun d1 =>
  (expectType d1 ty).bind fun d2 =>
  (readLength d2).bind fun (l, d3) =>
  (readChunks (l + 1) d3 l []).bind fun (v, d4) =>
  (if padLen l = 0 then .ok ([], d4) else readFull d4 (padLen l)).bind fun (_, d5) =>
  .ok (v, l + 8 + padLen l, d5)

def readPrim (d : SDec) (tag : Nat) : PTy → Outcome (Val × Nat × SDec)
  | .int => (readFixed d tag 2 4).bind fun (b, d') => .ok (.int (fromBE (b.take 4)), 16, d')
  | .long => (readFixed d tag 3 8).bind fun (b, d') => .ok (.long (fromBE b), 16, d')
  | .enum => (readFixed d tag 5 4).bind fun (b, d') => .ok (.enum (fromBE (b.take 4)), 16, d')
  | .bool => (readFixed d tag 6 8).bind fun (b, d') =>
      match boolOfBytes b with
      | some x => .ok (.bool x, 16, d')
      | none => .err .other
  | .time => (readFixed d tag 9 8).bind fun (b, d') => .ok (.time (fromBE b), 16, d')
  | .interval => (readFixed d tag 10 4).bind fun (b, d') => .ok (.interval ((fromBE (b.take 4) : Nat) * 1000000000), 16, d')
  | .bytes => (readVar d tag 8).bind fun (v, n, d') => .ok (.bytes v, n, d')
  | .text => (readVar d tag 7).bind fun (v, n, d') => .ok (.text v, n, d')

def readSkip (d : SDec) (tag : Nat) : Outcome (Nat × SDec) :=
  (expectTag d tag).bind fun d1 =>
  (readByte d1).bind fun (_, d2) =>
  (readLength d2).bind fun (l, d3) =>
    let ll := l + padLen l
    match d3.s.copyNDiscard ll with
    | .ok s' => .ok (8 + ll, { d3 with s := s' })
    | .err e => .err e
    | .panic p => .panic p

def sliceLoop (step : SDec → Outcome (Val × Nat × SDec)) (ftag expected : Nat) :
    Nat → SDec → Nat → Outcome (List Val × Nat × SDec)
  | 0, _, _ => .err .other
  | fuel + 1, dd, n =>
    (step dd).wrap.bind fun (v, nn, dd1) =>
      let n' := n + nn
      if n' % two32 ≥ expected then .ok ([v], n', dd1)
      else
        (peekTag dd1).bind fun (tag, dd2) =>
          if tag ≠ ftag then .ok ([v], n', dd2)
          else (sliceLoop step ftag expected fuel dd2 n').bind fun (vs, n'', dd3) => .ok (v :: vs, n'', dd3)

/-- `NewDecoder(io.LimitReader(d.r, expected))` -/
def enter (d : SDec) (expected : Nat) : SDec := { s := d.s.nested expected, last := 0 }

/-- the reader the outer Decoder goes on with after a nested structure: the layer under the nested stack's limit reader -/
def below : Stack → Stack
  | .buf (.lim s _) _ _ _ => s
  | s => s

mutual
  def decValue (tag : Nat) (prev : List FV) : FTy → SDec → Outcome (Val × Nat × SDec)
    | .prim p, d => readPrim d tag p
    | .struct sd, d => if sd.descOk then decStruct tag sd d else .err .other
    | .dyn sel table, d =>
      match prev[sel]? with
      | none => .err .other
      | some fv =>
        match keyOf fv with
        | none => .err .other
        | some k => decDyn tag prev k table d
    | .unsupported, _ => .err .other
  def decDyn (tag : Nat) (prev : List FV) (k : Key) : List DEnt → SDec → Outcome (Val × Nat × SDec)
    | [], _ => .err .other
    | .mk k' ptr ty :: rest, d =>
      if k' = k then
        match ty with
        | .prim p =>
          if ptr = true ∨ p = .interval then .err .other else readPrim d tag p
        | .struct sd =>
          if ptr = true then (if sd.descOk then decStruct tag sd d else .err .other) else .err .other
        | .dyn _ _ => .err .other
        | .unsupported => .err .other
      else decDyn tag prev k rest d
  def decStruct (tag : Nat) : SD → SDec → Outcome (Val × Nat × SDec)
    | .mk _ _ fields, d =>
      (expectTag d tag).bind fun d1 =>
      (expectType d1 structCode).bind fun d2 =>
      (readLength d2).bind fun (expected, d3) =>
      (decFields fields expected (enter d3 expected) 0 []).bind fun (vals, nsum, dd) =>
        if nsum % two32 ≠ expected then .err .other
        else .ok (.struct vals, 8 + nsum, { d3 with s := below dd.s })
  def decFields : List Fld → Nat → SDec → Nat → List FV → Outcome (List FV × Nat × SDec)
    | [], _, dd, n, _ => .ok ([], n, dd)
    | f :: fs, expected, dd, n, prev =>
      (decField f expected dd n prev).bind fun (fv, n', dd') =>
      (decFields fs expected dd' n' (prev ++ [fv])).bind fun (rest, n'', dd'') =>
      .ok (fv :: rest, n'', dd'')
  def decField : Fld → Nat → SDec → Nat → List FV → Outcome (FV × Nat × SDec)
    | .mk name tag required slice skip ty, expected, dd, n, prev =>
      match peekTag dd with
      | .err e =>
        if e = .eof ∧ required = false then .ok (zeroFld (.mk name tag required slice skip ty), n, dd)
        else .err .other
      | .panic s => .panic s
      | .ok (t, dd1) =>
        if required = false ∧ t ≠ tag ∧ tag ≠ anyTag then .ok (zeroFld (.mk name tag required slice skip ty), n, dd1)
        else if skip then
          (readSkip dd1 tag).wrap.bind fun (nn, dd2) => .ok (.skip false, n + nn, dd2)
        else if slice then
          (sliceLoop (decValue tag prev ty) tag expected (dd1.s.content.length + 3) dd1 n).bind fun (vs, n', dd2) => .ok (.many vs, n', dd2)
        else
          (decValue tag prev ty dd1).wrap.bind fun (v, nn, dd2) =>
            match ty with
            | .dyn _ _ => .ok (.dyn (.val false (dynTyOf prev ty) v), n + nn, dd2)
            | .prim _ => .ok (.one v, n + nn, dd2)
            | .struct _ => .ok (.one v, n + nn, dd2)
            | .unsupported => .ok (.one v, n + nn, dd2)
end

/-- `NewDecoder(src).Decode(&v)` for a struct target, `src` a plain io.Reader delivering the given chunks -/
def decodeSrc (sd : SD) (src : Src) : Outcome (Val × Nat × SDec) :=
  if sd.descOk then decStruct sd.tag sd { s := Stack.top src, last := 0 } else .err .other

/-- `NewDecoder(src).Decode(&v)` when `src` is an io.ByteScanner: no buffering of the Decoder's own, the source is read directly -/
def decodeScanner (sd : SD) (src : Src) : Outcome (Val × Nat × SDec) :=
  if sd.descOk then decStruct sd.tag sd { s := .src src, last := 0 } else .err .other

/-- successive Decode calls on ONE Decoder (cf. KmipModel/Stream.lean) -/
def decodeStream : List SD → SDec → List (Val × Nat) × Option ErrClass × SDec
  | [], d => ([], none, d)
  | sd :: rest, d =>
    if sd.descOk then
      match decStruct sd.tag sd d with
      | .ok (v, n, d') =>
        ((v, n) :: (decodeStream rest d').1, (decodeStream rest d').2.1, (decodeStream rest d').2.2)
      | .err e => ([], some e, d)
      | .panic _ => ([], some .other, d)
    else ([], some .other, d)

end Kmip.Stk
