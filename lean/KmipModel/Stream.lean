import KmipModel.Decode
/-
  Successive Decode calls on ONE Decoder over a stream (server.go's request loop, client.go's replies): the decoder's
  state (remaining bytes, lookahead) persists from one call to the next.
-/
namespace Kmip

/-- decode messages with the given descriptors, one after the other, from the same decoder;
    result: the values decoded, the byte count of each, and how the sequence ended (none = all descriptors served) -/
def decodeStream : List SD → Dec → List (Val × Nat) × Option ErrClass × Dec
  | [], d => ([], none, d)
  | sd :: rest, d =>
    if sd.descOk then
      match decStruct sd.tag sd d with
      | .ok (v, n, d') =>
        let (vs, e, df) := decodeStream rest d'
        ((v, n) :: vs, e, df)
      | .err e => ([], some e, d)
      | .panic _ => ([], some .other, d)
    else ([], some .other, d)

end Kmip
