import KmipModel.Encode
/-
  Hand-written model of decode.go / decode_core.go as they are in /repo now (tied to the code by the
  correspondence check `kvrun dec`).  It keeps the Go control flow and its quirks:

  * one Decoder instance = the flat remaining bytes of its reader (`win`), what the reader reports
    when they run out (`fin`), and the one-tag lookahead `last` in which 0 means "nothing buffered"
    (so a peeked tag 000000 is silently dropped);
  * every structure body is read through a fresh Decoder on `io.LimitReader(parent, declaredLen)`;
  * two byte counters: the `int` result `n` (8 + Σ per-field counts) and the `uint32` accumulator
    compared with the declared length (`(Σ per-field counts) mod 2^32`);
  * `io.EOF` is special only when it comes back raw from the peek at the head of an optional field.
-/
namespace Kmip

structure Dec where
  win : Bytes
  fin : Fin
  last : Nat
  deriving Repr

/-- `io.ReadFull(d.r, buf[:k])` -/
def readFull (d : Dec) (k : Nat) : Outcome (Bytes × Dec) :=
  if k ≤ d.win.length then .ok (d.win.take k, { d with win := d.win.drop k })
  else if d.win.length = 0 then .err d.fin.err      -- nothing read: the source's own error, raw
  else .err .other                                  -- io.ErrUnexpectedEOF, or the I/O error

/-- `d.s.ReadByte()` -/
def readByte (d : Dec) : Outcome (Nat × Dec) :=
  match d.win with
  | [] => .err d.fin.err
  | b :: rest => .ok (b.toNat, { d with win := rest })

def internalReadTag (d : Dec) : Outcome (Nat × Dec) :=
  (readFull d 3).bind fun (b, d') => .ok (fromBE b, d')

def readTag (d : Dec) : Outcome (Nat × Dec) :=
  if d.last ≠ 0 then .ok (d.last, { d with last := 0 })
  else internalReadTag d

/-- `peekTag`: the tag read is remembered in `last` — including the value 0, which `readTag`/`peekTag`
    take to mean "nothing buffered" -/
def peekTag (d : Dec) : Outcome (Nat × Dec) :=
  if d.last ≠ 0 then .ok (d.last, d)
  else (internalReadTag d).bind fun (t, d') => .ok (t, { d' with last := t })

def expectTag (d : Dec) (expected : Nat) : Outcome Dec :=
  (readTag d).bind fun (t, d') => if expected ≠ t ∧ expected ≠ anyTag then .err .other else .ok d'

def expectType (d : Dec) (expected : Nat) : Outcome Dec :=
  (readByte d).bind fun (t, d') => if expected ≠ t then .err .other else .ok d'

def readLength (d : Dec) : Outcome (Nat × Dec) :=
  (readFull d 4).bind fun (b, d') => .ok (fromBE b, d')

def expectLength (d : Dec) (expected : Nat) : Outcome Dec :=
  (readLength d).bind fun (l, d') => if expected ≠ l then .err .other else .ok d'

/-- tag, type, and fixed length of a fixed-size item, then its 8 value bytes -/
def readFixed (d : Dec) (tag ty len : Nat) : Outcome (Bytes × Dec) :=
  (expectTag d tag).bind fun d1 =>
  (expectType d1 ty).bind fun d2 =>
  (expectLength d2 len).bind fun d3 =>
  readFull d3 8

/-- `readByteSlice`: the payload is read in chunks as it arrives (flat view: `l` bytes, then the padding) -/
def readVar (d : Dec) (tag ty : Nat) : Outcome (Bytes × Nat × Dec) :=
  (expectTag d tag).bind fun d1 =>
  (expectType d1 ty).bind fun d2 =>
  (readLength d2).bind fun (l, d3) =>
  (readFull d3 l).bind fun (v, d4) =>
  (readFull d4 (padLen l)).bind fun (_, d5) =>
  .ok (v, l + 8 + padLen l, d5)

def boolOfBytes (b : Bytes) : Option Bool :=
  if b.take 7 = zeros 7 then
    match b.drop 7 with
    | [0] => some false
    | [1] => some true
    | _ => none
  else none

/-- the eight primitive readers; result: value, the per-field byte count `n`, the reader afterwards -/
def readPrim (d : Dec) (tag : Nat) : PTy → Outcome (Val × Nat × Dec)
  | .int => (readFixed d tag 2 4).bind fun (b, d') => .ok (.int (fromBE (b.take 4)), 16, d')
  | .long => (readFixed d tag 3 8).bind fun (b, d') => .ok (.long (fromBE b), 16, d')
  | .enum => (readFixed d tag 5 4).bind fun (b, d') => .ok (.enum (fromBE (b.take 4)), 16, d')
  | .bool => (readFixed d tag 6 8).bind fun (b, d') =>
      match boolOfBytes b with
      | some x => .ok (.bool x, 16, d')
      | none => .err .other
  | .time => (readFixed d tag 9 8).bind fun (b, d') => .ok (.time (fromBE b), 16, d')
  | .interval => (readFixed d tag 10 4).bind fun (b, d') => .ok (.interval ((fromBE (b.take 4) : Nat) * 1000000000), 16, d')
  | .bytes => (readVar d tag 8).bind fun (v, n, d') => .ok (.bytes v, n, d')
  | .text => (readVar d tag 7).bind fun (v, n, d') => .ok (.text v, n, d')

/-- the `skip` path of decodeValue: any type byte, declared length padded (in 64 bits) and discarded -/
def readSkip (d : Dec) (tag : Nat) : Outcome (Nat × Dec) :=
  (expectTag d tag).bind fun d1 =>
  (readByte d1).bind fun (_, d2) =>
  (readLength d2).bind fun (l, d3) =>
    let ll := l + padLen l
    if ll ≤ d3.win.length then .ok (8 + ll, { d3 with win := d3.win.drop ll })
    else .err d3.fin.err           -- io.CopyN reports io.EOF (raw) when the source ends early

/-- selector value held by an already-decoded field -/
def keyOf : FV → Option Key
  | .one (.enum n) => some (.enum n)
  | .one (.text b) => some (.str b)
  | _ => none

def lookupTy (k : Key) : List DEnt → FTy
  | [] => .unsupported
  | .mk k' _ ty :: rest => if k' = k then ty else lookupTy k rest

/-- the dynamic type of a decoded interface value: what the dispatch table named for the selector -/
def dynTyOf (prev : List FV) : FTy → FTy
  | .dyn sel table =>
    match prev[sel]? with
    | none => .unsupported
    | some fv =>
      match keyOf fv with
      | none => .unsupported
      | some k => lookupTy k table
  | .prim p => .prim p
  | .struct sd => .struct sd
  | .unsupported => .unsupported

/-- the slice loop of `decode` (decode.go:342-368). `step` decodes one element; `fuel` bounds the
    iterations structurally (each iteration consumes ≥ 8 bytes, so the length of the logical window suffices). -/
def sliceLoop (step : Dec → Outcome (Val × Nat × Dec)) (ftag expected : Nat) :
    Nat → Dec → Nat → Outcome (List Val × Nat × Dec)
  | 0, _, _ => .err .other
  | fuel + 1, dd, n =>
    (step dd).wrap.bind fun (v, nn, dd1) =>
      let n' := n + nn
      if n' % two32 ≥ expected then .ok ([v], n', dd1)
      else
        -- the error of this peek is returned raw (not wrapped) by the Go code
        (peekTag dd1).bind fun (tag, dd2) =>
          if tag ≠ ftag then .ok ([v], n', dd2)
          else (sliceLoop step ftag expected fuel dd2 n').bind fun (vs, n'', dd3) => .ok (v :: vs, n'', dd3)

/-- the limited reader handed to the nested Decoder of a structure body -/
def limitDec (d : Dec) (expected : Nat) : Dec :=
  if expected ≤ d.win.length then { win := d.win.take expected, fin := .eof, last := 0 }
  else { win := d.win, fin := d.fin, last := 0 }

mutual
  /-- `decodeValue` for a non-skip field of static type `ty`, item expected under `tag`;
      `prev` = the fields of the enclosing struct decoded so far (for dynamic dispatch) -/
  def decValue (tag : Nat) (prev : List FV) : FTy → Dec → Outcome (Val × Nat × Dec)
    | .prim p, d => readPrim d tag p
    | .struct sd, d => if sd.descOk then decStruct tag sd d else .err .other
    | .dyn sel table, d =>
      match prev[sel]? with
      | none => .err .other
      | some fv =>
        match keyOf fv with
        | none => .err .other
        | some k => decDyn tag prev k table d
    | .unsupported, _ => .err .other
  /-- the outcome of `BuildFieldValue` (table lookup) followed by the type switch of decodeValue -/
  def decDyn (tag : Nat) (prev : List FV) (k : Key) : List DEnt → Dec → Outcome (Val × Nat × Dec)
    | [], _ => .err .other                           -- "unsupported operation / attribute / credential type"
    | .mk k' ptr ty :: rest, d =>
      if k' = k then
        match ty with
        | .prim p =>
          -- a pointer to a non-struct is rejected; time.Duration is not in decodeValue's type switch and is not a pointer
          if ptr = true ∨ p = .interval then .err .other else readPrim d tag p
        | .struct sd =>
          -- a struct must come as a pointer
          if ptr = true then (if sd.descOk then decStruct tag sd d else .err .other) else .err .other
        | .dyn _ _ => .err .other
        | .unsupported => .err .other
      else decDyn tag prev k rest d
  /-- `decode(rv, structDesc)` with `structDesc.tag = tag` -/
  def decStruct (tag : Nat) : SD → Dec → Outcome (Val × Nat × Dec)
    | .mk _ _ fields, d =>
      (expectTag d tag).bind fun d1 =>
      (expectType d1 structCode).bind fun d2 =>
      (readLength d2).bind fun (expected, d3) =>
      (decFields fields expected (limitDec d3 expected) 0 []).bind fun (vals, nsum, _) =>
        if nsum % two32 ≠ expected then .err .other
        else .ok (.struct vals, 8 + nsum, { d3 with win := d3.win.drop expected })
  /-- the field loop; `n` = sum of the per-field counts so far -/
  def decFields : List Fld → Nat → Dec → Nat → List FV → Outcome (List FV × Nat × Dec)
    | [], _, dd, n, _ => .ok ([], n, dd)
    | f :: fs, expected, dd, n, prev =>
      (decField f expected dd n prev).bind fun (fv, n', dd') =>
      (decFields fs expected dd' n' (prev ++ [fv])).bind fun (rest, n'', dd'') =>
      .ok (fv :: rest, n'', dd'')
  def decField : Fld → Nat → Dec → Nat → List FV → Outcome (FV × Nat × Dec)
    | .mk name tag required slice skip ty, expected, dd, n, prev =>
      match peekTag dd with
      | .err e =>
        if e = .eof ∧ required = false then .ok (zeroFld (.mk name tag required slice skip ty), n, dd)
        else .err .other
      | .panic s => .panic s
      | .ok (t, dd1) =>
        if required = false ∧ t ≠ tag ∧ tag ≠ anyTag then .ok (zeroFld (.mk name tag required slice skip ty), n, dd1)
        else if skip then
          (readSkip dd1 tag).wrap.bind fun (nn, dd2) => .ok (.skip false, n + nn, dd2)
        else if slice then
          (sliceLoop (decValue tag prev ty) tag expected (dd1.win.length + 3) dd1 n).bind fun (vs, n', dd2) => .ok (.many vs, n', dd2)
        else
          (decValue tag prev ty dd1).wrap.bind fun (v, nn, dd2) =>
            match ty with
            | .dyn _ _ => .ok (.dyn (.val false (dynTyOf prev ty) v), n + nn, dd2)
            | .prim _ => .ok (.one v, n + nn, dd2)
            | .struct _ => .ok (.one v, n + nn, dd2)
            | .unsupported => .ok (.one v, n + nn, dd2)
end

/-- targets of `Decode(v)` (C13) -/
inductive Target where
  | nil                 -- Decode(nil)
  | nonPointer          -- a struct passed by value: not settable
  | nilPointer          -- (*T)(nil)
  | ptrNonStruct        -- *int, *string, **T, *interface{} …
  | ptrStruct (sd : SD)

/-- `Decoder.Decode(v)` on a fresh top-level decoder over `bs`; result: value and the Go `n` of the message -/
def decodeTop (t : Target) (bs : Bytes) (fin : Fin) : Outcome (Val × Nat × Dec) :=
  match t with
  | .nil => .err .other
  | .nonPointer => .err .other
  | .nilPointer => .err .other
  | .ptrNonStruct => .err .other
  | .ptrStruct sd =>
    if sd.descOk then decStruct sd.tag sd { win := bs, fin := fin, last := 0 } else .err .other

def decodeSD (sd : SD) (bs : Bytes) (fin : Fin := .eof) : Outcome (Val × Nat × Dec) :=
  decodeTop (.ptrStruct sd) bs fin

end Kmip
