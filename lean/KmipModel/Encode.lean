import KmipModel.TTLV
/-
  Hand-written model of encode.go / encode_core.go / fields.go as they are in /repo now
  (tied to the code by the correspondence check `kvrun enc`).  Mirrors the Go control flow:
  a nested `bytes.Buffer` per structure, header written after the body is known, `isZeroValue`
  with its early return, descriptor errors surfacing lazily.
-/
namespace Kmip

/-- `getStructDesc` succeeds on this struct type: every annotated field has a known tag name and a
    supported Go type.  (Shallow, as in Go: nested types are described when they are reached.) -/
def fldsDescOk : List Fld → Bool
  | [] => true
  | (.mk _ _ _ _ _ .unsupported) :: _ => false
  | (.mk _ _ _ _ _ (.prim _)) :: fs => fldsDescOk fs
  | (.mk _ _ _ _ _ (.struct _)) :: fs => fldsDescOk fs
  | (.mk _ _ _ _ _ (.dyn _ _)) :: fs => fldsDescOk fs

def SD.descOk : SD → Bool
  | .mk _ _ fs => fldsDescOk fs

/-- Go: `f.tag == ANY_TAG || f.skip` — the field takes no part in encoding -/
def Fld.ignored (f : Fld) : Bool := f.tag == anyTag || f.skip

/-! ### isZeroValue (encode.go) -/
mutual
  def isZeroVal (ty : FTy) : Val → Outcome Bool
    | .int n => .ok (n == 0)
    | .long n => .ok (n == 0)
    | .enum n => .ok (n == 0)
    | .bool b => .ok (!b)
    | .bytes b => .ok b.isEmpty
    | .text b => .ok b.isEmpty
    | .time n => .ok (n == zeroTimeU)
    | .interval ns => .ok (ns == 0)
    | .struct fs =>
      match ty with
      | .struct sd => if sd.descOk then isZeroFlds sd.fields fs else .err .other
      | .prim _ => .panic "isZeroValue: struct value at non-struct type"
      | .dyn _ _ => .panic "isZeroValue: struct value at non-struct type"
      | .unsupported => .err .other
  def isZeroFlds : List Fld → List FV → Outcome Bool
    | [], _ => .ok true
    | _ :: _, [] => .panic "isZeroValue: value shape"
    | f :: fs, v :: vs =>
      if f.ignored then isZeroFlds fs vs
      else match isZeroFV f v with
        | .ok true => isZeroFlds fs vs
        | .ok false => .ok false
        | .err e => .err e
        | .panic s => .panic s
  def isZeroFV (f : Fld) : FV → Outcome Bool
    | .one v => isZeroVal f.ty v
    | .many vs => .ok vs.isEmpty
    | .dyn .nil => .ok true
    | .dyn (.val _ _ _) => .ok false
    | .dyn (.bad _) => .ok false
    | .skip nn => .ok (!nn)
end

/-! ### the writers (encode_core.go) -/

def writePrim (tag : Nat) : Val → Option Bytes
  | .int n => some (header tag 2 4 ++ (be 4 n ++ zeros 4))
  | .long n => some (header tag 3 8 ++ be 8 n)
  | .enum n => some (header tag 5 4 ++ (be 4 n ++ zeros 4))
  | .bool b => some (header tag 6 8 ++ (zeros 7 ++ [if b then 1 else 0]))
  | .text b => some (header tag 7 b.length ++ (b ++ zeros (padLen b.length)))
  | .bytes b => some (header tag 8 b.length ++ (b ++ zeros (padLen b.length)))
  | .time n => some (header tag 9 8 ++ be 8 n)
  | .interval ns => some (header tag 10 4 ++ (be 4 (intervalSecs ns) ++ zeros 4))
  | .struct _ => none

/-! ### encodeValue / encode (encode.go) -/
mutual
  /-- `encodeValue` on a concrete (non-interface) value whose Go type is `ty`, written under `tag` -/
  def encVal (tag : Nat) (ty : FTy) : Val → Outcome Bytes
    | .int n => .ok (header tag 2 4 ++ (be 4 n ++ zeros 4))
    | .long n => .ok (header tag 3 8 ++ be 8 n)
    | .enum n => .ok (header tag 5 4 ++ (be 4 n ++ zeros 4))
    | .bool b => .ok (header tag 6 8 ++ (zeros 7 ++ [if b then 1 else 0]))
    | .text b => .ok (header tag 7 b.length ++ (b ++ zeros (padLen b.length)))
    | .bytes b => .ok (header tag 8 b.length ++ (b ++ zeros (padLen b.length)))
    | .time n => .ok (header tag 9 8 ++ be 8 n)
    | .interval ns => .ok (header tag 10 4 ++ (be 4 (intervalSecs ns) ++ zeros 4))
    | .struct fs =>
      match ty with
      | .struct sd =>
        if sd.descOk then
          match encFlds sd.fields fs with
          | .ok body => .ok (header tag structCode body.length ++ body)
          | .err e => .err e
          | .panic s => .panic s
        else .err .other
      | .prim _ => .panic "encodeValue: struct value at primitive type"
      | .dyn _ _ => .panic "encodeValue: struct value at interface type"
      | .unsupported => .err .other
  /-- the field loop of `encode`, producing the temporary buffer -/
  def encFlds : List Fld → List FV → Outcome Bytes
    | [], _ => .ok []
    | _ :: _, [] => .panic "encode: value shape"
    | f :: fs, v :: vs =>
      if f.ignored then encFlds fs vs
      else match encFV f v with
        | .ok a =>
          match encFlds fs vs with
          | .ok b => .ok (a ++ b)
          | .err e => .err e
          | .panic s => .panic s
        | .err e => .err e
        | .panic s => .panic s
  def encFV (f : Fld) : FV → Outcome Bytes
    | .one v =>
      if f.required then encVal f.tag f.ty v
      else match isZeroVal f.ty v with
        | .ok true => .ok []
        | .ok false => encVal f.tag f.ty v
        | .err e => .err e
        | .panic s => .panic s
    | .many vs => encMany f.tag f.ty vs
    -- a nil interface: optional ⇒ zero ⇒ omitted; required ⇒ getStructDesc(interface type) fails
    | .dyn .nil => if f.required then .err .other else .ok []
    -- a non-nil interface value: its own dynamic type decides
    | .dyn (.val _ (.prim p) v) => encVal f.tag (.prim p) v
    | .dyn (.val _ (.struct sd) v) => encVal f.tag (.struct sd) v
    | .dyn (.val _ (.dyn _ _) _) => .err .other
    | .dyn (.val _ .unsupported _) => .err .other
    -- typed nil pointer; pointer-to-pointer, scalar, map, slice, func: not a struct
    | .dyn (.bad _) => .err .other
    | .skip _ => .panic "encode: skip value in a field not annotated skip"
  def encMany (tag : Nat) (ty : FTy) : List Val → Outcome Bytes
    | [] => .ok []
    | v :: vs =>
      match encVal tag ty v with
      | .ok a =>
        match encMany tag ty vs with
        | .ok b => .ok (a ++ b)
        | .err e => .err e
        | .panic s => .panic s
      | .err e => .err e
      | .panic s => .panic s
end

/-- `Encoder.Encode(v)`: what reaches the destination writer (all of it, or nothing) -/
def encodeTop : DynV → Outcome Bytes
  | .nil => .err .other                            -- "invalid value"
  | .bad .typedNilPtr => .err .other               -- "invalid pointer value"
  | .bad .ptrPtr => .err .other
  | .bad .foreignScalar => .err .other
  | .bad .map => .err .other
  | .bad .slice => .err .other
  | .bad .func => .err .other
  | .val _ (.struct sd) v => encVal sd.tag (.struct sd) v
  | .val _ (.prim .time) _ => .ok (header 0 structCode 0)  -- time.Time is a Go struct without annotated fields
  | .val _ (.prim .int) _ => .err .other
  | .val _ (.prim .long) _ => .err .other
  | .val _ (.prim .enum) _ => .err .other
  | .val _ (.prim .bool) _ => .err .other
  | .val _ (.prim .bytes) _ => .err .other
  | .val _ (.prim .text) _ => .err .other
  | .val _ (.prim .interval) _ => .err .other
  | .val _ (.dyn _ _) _ => .err .other
  | .val _ .unsupported _ => .err .other

/-- Encode of a struct value of descriptor `sd` (the common case) -/
def encodeSD (sd : SD) (v : Val) : Outcome Bytes := encVal sd.tag (.struct sd) v

end Kmip
