import KmipModel.Schema
/-
  Model of the Go values handed to Encode / produced by Decode.

  Conventions (DESIGN §1.4):
  * int32 / int64 / Enum / time.Time.Unix() are carried as their unsigned two's-complement
    representation (`Nat`, < 2^32 resp. 2^64) — the conversion is a bijection and is done by the harness renderer;
  * `time.Duration` is carried as its `int64` nanosecond count (`Int`), because Encode divides it (truncating);
  * `[]byte(nil)` and `[]byte{}` are the same model value (documented normalisation), likewise nil / empty slices;
  * a struct value is the list of its annotated fields' values, in descriptor order (Go fields always hold a value);
  * an `interface{}` field holds `DynV`: nil, a value carrying its own dynamic type, or one of the
    ill-typed things C13 quantifies over.
-/
namespace Kmip

/-- ill-typed dynamic values (C13's widened domain) -/
inductive BadKind where
  | typedNilPtr    -- (*T)(nil) for a struct type T
  | ptrPtr         -- **T
  | foreignScalar  -- int, uint8, float64, …
  | map
  | slice          -- a slice other than []byte
  | func
  deriving DecidableEq, Repr, Inhabited

mutual
  inductive Val where
    | int (n : Nat)
    | long (n : Nat)
    | enum (n : Nat)
    | bool (b : Bool)
    | bytes (b : Bytes)
    | text (b : Bytes)
    | time (n : Nat)
    | interval (ns : Int)
    | struct (fs : List FV)
  inductive FV where
    | one (v : Val)
    | many (vs : List Val)
    | dyn (d : DynV)
    | skip (nonnil : Bool)
  inductive DynV where
    | nil
    | val (ptr : Bool) (ty : FTy) (v : Val)
    | bad (k : BadKind)
end

instance : Inhabited Val := ⟨.int 0⟩
instance : Inhabited FV := ⟨.skip false⟩

/-- `uint64(time.Time{}.Unix())` -/
def zeroTimeU : Nat := two64 - 62135596800

mutual
  /-- the Go zero value of a field type (what Decode leaves in a field that is absent from the input) -/
  def zeroVal : FTy → Val
    | .prim .int => .int 0
    | .prim .long => .long 0
    | .prim .enum => .enum 0
    | .prim .bool => .bool false
    | .prim .bytes => .bytes []
    | .prim .text => .text []
    | .prim .time => .time zeroTimeU
    | .prim .interval => .interval 0
    | .struct sd => zeroSD sd
    | .dyn _ _ => .struct []      -- not used: dynamic fields are `FV.dyn`
    | .unsupported => .struct []
  def zeroSD : SD → Val
    | .mk _ _ fs => .struct (zeroFlds fs)
  def zeroFlds : List Fld → List FV
    | [] => []
    | f :: fs => zeroFld f :: zeroFlds fs
  def zeroFld : Fld → FV
    | .mk _ _ _ slice skip ty =>
      if skip then .skip false
      else if slice then .many []
      else match ty with
        | .dyn _ _ => .dyn .nil
        | .prim p => .one (zeroVal (.prim p))
        | .struct sd => .one (zeroSD sd)
        | .unsupported => .one (.struct [])
end

end Kmip
