/-
  KMIP 1.0–1.4 registry, transcribed by hand from the specification (independent of /repo/consts.go).

  Source: memory of the OASIS KMIP Specification v1.0 … v1.4, section 9.1.3 "Defined Values"
  (9.1.3.1 Tags, 9.1.3.2 Enumerations) and of the PyKMIP `enums.py` transcription of the same
  tables.  Nothing under /repo was consulted.

  UNCERTAIN (best transcription given; please treat these as "flagged"):

  Tags
  * 0x4200A1 "Password": I transcribe it as a KMIP 1.0 tag.  The 1.0 Credential object
    (Username and Password credential) needs both Username (0x420099) and Password, and the 1.0
    tag table, as I remember it, ends "... X 42009F, Y 4200A0, Password 4200A1, (Reserved)
    4200A2 – 42FFFF".  The task brief describes the 1.0 block as ending at 0x4200A0 and the 1.1
    block as starting at 0x4200A1; I believe that is off by one (1.1 starts at 0x4200A2
    "Device Identifier"), but it is possible that I am wrong.
  * 0x420120 … 0x420124: I transcribe Sensitive = 0x420120, Always Sensitive = 0x420121,
    Extractable = 0x420122, Never Extractable = 0x420123, Replace Existing = 0x420124.
    The task brief says `0x420124 "Sensitive"`; I believe the last 1.4 tag is
    "Replace Existing" and "Sensitive" is 0x420120.  The count (0x124 = 292) agrees either way.
  * 0x420083: named "Role Type" in KMIP 1.0, "Key Role Type" from 1.1 on; listed under the
    later name.
  * 0x420014 "Certificate Identifier", 0x420015 "Certificate Issuer", 0x42001A "Certificate
    Subject": deprecated as of 1.1 but still in the table; values are certain.
  * Exact spelling (not the number) of a few names: "Qlength" (spec writes it in one word, the
    attribute text says "Qlength"), "FIPS186 Variation", "PKCS#12 Friendly Name",
    "Certificate Subject DN Qualifier"/"Certificate Issuer DN Qualifier",
    "Certificate Subject Email"/"Certificate Issuer Email",
    "Key Value Location Value", "Unique Batch Item ID", "Time Stamp".
  * Boundary 1.2/1.3 (0x4200D3 "Attestation Capable Indicator" is the last 1.2 tag, 0x4200D4
    "Offset Items" the first 1.3 tag) and 1.3/1.4 (0x4200F7 "Capability Information" last 1.3,
    0x4200F8 "Key Wrap Type" first 1.4): fairly sure.
  * Boundary 1.1/1.2 (0x4200B7 "X.509 Certificate Subject" last 1.1, 0x4200B8 "Key Value
    Location" first 1.2): fairly sure.

  Enumerations
  * cryptographicAlgorithm: version split.  1.0 = DES … ECMQV (0x01–0x0F); Blowfish … Twofish
    (0x10–0x19) are 1.1; EC (0x1A) is 1.2; One Time Pad (0x1B) is 1.3; 0x1C–0x28 are 1.4.  The values
    are firm; the version attribution of 0x10–0x19 (1.1 vs 1.0) is from memory.  Order inside
    the 1.4 block (ChaCha20, Poly1305, ChaCha20Poly1305, SHA3-*, HMAC-SHA3-*, SHAKE-*) fairly sure.
  * hashingAlgorithm: spelling of the 1.4 entries ("SHA-3-224" vs "SHA3-224"); values 0x0E–0x11 firm.
  * keyFormatType 0x14/0x15 (Transparent EC Private/Public Key, 1.3) and 0x16 (PKCS#12, 1.4).
  * recommendedCurve 0x10–0x44 (the 1.2 additions): the order is from memory and a slip inside
    the ANSIX9C2* / SECT* runs is possible.  0x01–0x0F (1.0) are firm.
  * keyRoleType 0x16–0x18 (DUKPT, IV, TRKBK; 1.4): fairly sure.
  * derivationMethod 0x08 "Asymmetric Key" (1.4): fairly sure.
  * linkType 0x108–0x10B (Parent/Child/Previous/Next, 1.2) and 0x10C/0x10D (PKCS#12 Certificate /
    Password Link, 1.4): fairly sure.
  * digitalSignatureAlgorithm 0x11–0x13 (SHA3-256/384/512 with RSA Encryption, 1.4): fairly sure.
    Exact spelling of the 1.1 names (e.g. "DSA with SHA-1" vs "DSA with SHA1") is not reliable.
  * resultReason: 0x12 Encoding Option Error (1.1); 0x13 Key Value Not Present, 0x14 Attestation
    Required, 0x15 Attestation Failed (1.2); 0x16 Sensitive, 0x17 Not Extractable,
    0x18 Object Already Exists (1.4).  Fairly sure.  General Failure = 0x100 is firm.
  * splitKeyMethod 0x04 "Polynomial Sharing GF (2^8)" (1.2) and exact spelling of all four names.
  * fips186Variation, destroyAction, rngAlgorithm, drbgAlgorithm, validationAuthorityType,
    validationType, unwrapMode, shreddingAlgorithm, rngMode, clientRegistrationMethod (all 1.3):
    values as I remember them; less often exercised, so a slip is possible.
  * Profile Name (1.3/1.4, > 100 entries) is deliberately NOT transcribed: I cannot reproduce it
    reliably from memory.
  * Opaque Data Type has no standard values (extensions only) and is therefore omitted.

  KMIP 1.0 block (0x420001 … 0x4200A1) — names NOT in alphabetical order in the spec's table:
  * 0x4200A1 "Password" (appended after "Y"; everything before it is alphabetical).
  * 0x420083 is alphabetical under its 1.0 name "Role Type" (between "Revocation Reason Code"
    and "Salt"); under its 1.1+ name "Key Role Type" it is out of order.
  * Everything else is alphabetical if compared case-insensitively with space sorting before
    letters and "/" after space (so "Criticality Indicator" < "CRT Coefficient" < "Cryptographic
    Algorithm"; "Iteration Count" < "IV/Counter/Nonce"; "MAC/Signature" < "MAC/Signature Key
    Information" < "Maximum Items"; "Q" < "Q String" < "Qlength" < "Query Function";
    "Link Type" < "Linked Object Identifier"; "Template" < "Template-Attribute" < "Time Stamp").
    A plain ASCII (case-sensitive) sort would additionally misplace "CRT Coefficient" and
    "IV/Counter/Nonce", "MAC/Signature…".
-/
namespace Kmip.Registry

/-- (spec name exactly as in the KMIP spec tag table, tag number, first KMIP version that defines it as (major, minor)) -/
def tags : List (String × Nat × Nat × Nat) := [
  -- KMIP 1.0
  ("Activation Date", 0x420001, 1, 0),
  ("Application Data", 0x420002, 1, 0),
  ("Application Namespace", 0x420003, 1, 0),
  ("Application Specific Information", 0x420004, 1, 0),
  ("Archive Date", 0x420005, 1, 0),
  ("Asynchronous Correlation Value", 0x420006, 1, 0),
  ("Asynchronous Indicator", 0x420007, 1, 0),
  ("Attribute", 0x420008, 1, 0),
  ("Attribute Index", 0x420009, 1, 0),
  ("Attribute Name", 0x42000A, 1, 0),
  ("Attribute Value", 0x42000B, 1, 0),
  ("Authentication", 0x42000C, 1, 0),
  ("Batch Count", 0x42000D, 1, 0),
  ("Batch Error Continuation Option", 0x42000E, 1, 0),
  ("Batch Item", 0x42000F, 1, 0),
  ("Batch Order Option", 0x420010, 1, 0),
  ("Block Cipher Mode", 0x420011, 1, 0),
  ("Cancellation Result", 0x420012, 1, 0),
  ("Certificate", 0x420013, 1, 0),
  ("Certificate Identifier", 0x420014, 1, 0),
  ("Certificate Issuer", 0x420015, 1, 0),
  ("Certificate Issuer Alternative Name", 0x420016, 1, 0),
  ("Certificate Issuer Distinguished Name", 0x420017, 1, 0),
  ("Certificate Request", 0x420018, 1, 0),
  ("Certificate Request Type", 0x420019, 1, 0),
  ("Certificate Subject", 0x42001A, 1, 0),
  ("Certificate Subject Alternative Name", 0x42001B, 1, 0),
  ("Certificate Subject Distinguished Name", 0x42001C, 1, 0),
  ("Certificate Type", 0x42001D, 1, 0),
  ("Certificate Value", 0x42001E, 1, 0),
  ("Common Template-Attribute", 0x42001F, 1, 0),
  ("Compromise Date", 0x420020, 1, 0),
  ("Compromise Occurrence Date", 0x420021, 1, 0),
  ("Contact Information", 0x420022, 1, 0),
  ("Credential", 0x420023, 1, 0),
  ("Credential Type", 0x420024, 1, 0),
  ("Credential Value", 0x420025, 1, 0),
  ("Criticality Indicator", 0x420026, 1, 0),
  ("CRT Coefficient", 0x420027, 1, 0),
  ("Cryptographic Algorithm", 0x420028, 1, 0),
  ("Cryptographic Domain Parameters", 0x420029, 1, 0),
  ("Cryptographic Length", 0x42002A, 1, 0),
  ("Cryptographic Parameters", 0x42002B, 1, 0),
  ("Cryptographic Usage Mask", 0x42002C, 1, 0),
  ("Custom Attribute", 0x42002D, 1, 0),
  ("D", 0x42002E, 1, 0),
  ("Deactivation Date", 0x42002F, 1, 0),
  ("Derivation Data", 0x420030, 1, 0),
  ("Derivation Method", 0x420031, 1, 0),
  ("Derivation Parameters", 0x420032, 1, 0),
  ("Destroy Date", 0x420033, 1, 0),
  ("Digest", 0x420034, 1, 0),
  ("Digest Value", 0x420035, 1, 0),
  ("Encryption Key Information", 0x420036, 1, 0),
  ("G", 0x420037, 1, 0),
  ("Hashing Algorithm", 0x420038, 1, 0),
  ("Initial Date", 0x420039, 1, 0),
  ("Initialization Vector", 0x42003A, 1, 0),
  ("Issuer", 0x42003B, 1, 0),
  ("Iteration Count", 0x42003C, 1, 0),
  ("IV/Counter/Nonce", 0x42003D, 1, 0),
  ("J", 0x42003E, 1, 0),
  ("Key", 0x42003F, 1, 0),
  ("Key Block", 0x420040, 1, 0),
  ("Key Compression Type", 0x420041, 1, 0),
  ("Key Format Type", 0x420042, 1, 0),
  ("Key Material", 0x420043, 1, 0),
  ("Key Part Identifier", 0x420044, 1, 0),
  ("Key Value", 0x420045, 1, 0),
  ("Key Wrapping Data", 0x420046, 1, 0),
  ("Key Wrapping Specification", 0x420047, 1, 0),
  ("Last Change Date", 0x420048, 1, 0),
  ("Lease Time", 0x420049, 1, 0),
  ("Link", 0x42004A, 1, 0),
  ("Link Type", 0x42004B, 1, 0),
  ("Linked Object Identifier", 0x42004C, 1, 0),
  ("MAC/Signature", 0x42004D, 1, 0),
  ("MAC/Signature Key Information", 0x42004E, 1, 0),
  ("Maximum Items", 0x42004F, 1, 0),
  ("Maximum Response Size", 0x420050, 1, 0),
  ("Message Extension", 0x420051, 1, 0),
  ("Modulus", 0x420052, 1, 0),
  ("Name", 0x420053, 1, 0),
  ("Name Type", 0x420054, 1, 0),
  ("Name Value", 0x420055, 1, 0),
  ("Object Group", 0x420056, 1, 0),
  ("Object Type", 0x420057, 1, 0),
  ("Offset", 0x420058, 1, 0),
  ("Opaque Data Type", 0x420059, 1, 0),
  ("Opaque Data Value", 0x42005A, 1, 0),
  ("Opaque Object", 0x42005B, 1, 0),
  ("Operation", 0x42005C, 1, 0),
  ("Operation Policy Name", 0x42005D, 1, 0),
  ("P", 0x42005E, 1, 0),
  ("Padding Method", 0x42005F, 1, 0),
  ("Prime Exponent P", 0x420060, 1, 0),
  ("Prime Exponent Q", 0x420061, 1, 0),
  ("Prime Field Size", 0x420062, 1, 0),
  ("Private Exponent", 0x420063, 1, 0),
  ("Private Key", 0x420064, 1, 0),
  ("Private Key Template-Attribute", 0x420065, 1, 0),
  ("Private Key Unique Identifier", 0x420066, 1, 0),
  ("Process Start Date", 0x420067, 1, 0),
  ("Protect Stop Date", 0x420068, 1, 0),
  ("Protocol Version", 0x420069, 1, 0),
  ("Protocol Version Major", 0x42006A, 1, 0),
  ("Protocol Version Minor", 0x42006B, 1, 0),
  ("Public Exponent", 0x42006C, 1, 0),
  ("Public Key", 0x42006D, 1, 0),
  ("Public Key Template-Attribute", 0x42006E, 1, 0),
  ("Public Key Unique Identifier", 0x42006F, 1, 0),
  ("Put Function", 0x420070, 1, 0),
  ("Q", 0x420071, 1, 0),
  ("Q String", 0x420072, 1, 0),
  ("Qlength", 0x420073, 1, 0),
  ("Query Function", 0x420074, 1, 0),
  ("Recommended Curve", 0x420075, 1, 0),
  ("Replaced Unique Identifier", 0x420076, 1, 0),
  ("Request Header", 0x420077, 1, 0),
  ("Request Message", 0x420078, 1, 0),
  ("Request Payload", 0x420079, 1, 0),
  ("Response Header", 0x42007A, 1, 0),
  ("Response Message", 0x42007B, 1, 0),
  ("Response Payload", 0x42007C, 1, 0),
  ("Result Message", 0x42007D, 1, 0),
  ("Result Reason", 0x42007E, 1, 0),
  ("Result Status", 0x42007F, 1, 0),
  ("Revocation Message", 0x420080, 1, 0),
  ("Revocation Reason", 0x420081, 1, 0),
  ("Revocation Reason Code", 0x420082, 1, 0),
  ("Key Role Type", 0x420083, 1, 0),            -- "Role Type" in KMIP 1.0
  ("Salt", 0x420084, 1, 0),
  ("Secret Data", 0x420085, 1, 0),
  ("Secret Data Type", 0x420086, 1, 0),
  ("Serial Number", 0x420087, 1, 0),
  ("Server Information", 0x420088, 1, 0),
  ("Split Key", 0x420089, 1, 0),
  ("Split Key Method", 0x42008A, 1, 0),
  ("Split Key Parts", 0x42008B, 1, 0),
  ("Split Key Threshold", 0x42008C, 1, 0),
  ("State", 0x42008D, 1, 0),
  ("Storage Status Mask", 0x42008E, 1, 0),
  ("Symmetric Key", 0x42008F, 1, 0),
  ("Template", 0x420090, 1, 0),
  ("Template-Attribute", 0x420091, 1, 0),
  ("Time Stamp", 0x420092, 1, 0),
  ("Unique Batch Item ID", 0x420093, 1, 0),
  ("Unique Identifier", 0x420094, 1, 0),
  ("Usage Limits", 0x420095, 1, 0),
  ("Usage Limits Count", 0x420096, 1, 0),
  ("Usage Limits Total", 0x420097, 1, 0),
  ("Usage Limits Unit", 0x420098, 1, 0),
  ("Username", 0x420099, 1, 0),
  ("Validity Date", 0x42009A, 1, 0),
  ("Validity Indicator", 0x42009B, 1, 0),
  ("Vendor Extension", 0x42009C, 1, 0),
  ("Vendor Identification", 0x42009D, 1, 0),
  ("Wrapping Method", 0x42009E, 1, 0),
  ("X", 0x42009F, 1, 0),
  ("Y", 0x4200A0, 1, 0),
  ("Password", 0x4200A1, 1, 0),                 -- UNCERTAIN version (see header): 1.0 per my memory
  -- KMIP 1.1
  ("Device Identifier", 0x4200A2, 1, 1),
  ("Encoding Option", 0x4200A3, 1, 1),
  ("Extension Information", 0x4200A4, 1, 1),
  ("Extension Name", 0x4200A5, 1, 1),
  ("Extension Tag", 0x4200A6, 1, 1),
  ("Extension Type", 0x4200A7, 1, 1),
  ("Fresh", 0x4200A8, 1, 1),
  ("Machine Identifier", 0x4200A9, 1, 1),
  ("Media Identifier", 0x4200AA, 1, 1),
  ("Network Identifier", 0x4200AB, 1, 1),
  ("Object Group Member", 0x4200AC, 1, 1),
  ("Certificate Length", 0x4200AD, 1, 1),
  ("Digital Signature Algorithm", 0x4200AE, 1, 1),
  ("Certificate Serial Number", 0x4200AF, 1, 1),
  ("Device Serial Number", 0x4200B0, 1, 1),
  ("Issuer Alternative Name", 0x4200B1, 1, 1),
  ("Issuer Distinguished Name", 0x4200B2, 1, 1),
  ("Subject Alternative Name", 0x4200B3, 1, 1),
  ("Subject Distinguished Name", 0x4200B4, 1, 1),
  ("X.509 Certificate Identifier", 0x4200B5, 1, 1),
  ("X.509 Certificate Issuer", 0x4200B6, 1, 1),
  ("X.509 Certificate Subject", 0x4200B7, 1, 1),
  -- KMIP 1.2
  ("Key Value Location", 0x4200B8, 1, 2),
  ("Key Value Location Value", 0x4200B9, 1, 2),
  ("Key Value Location Type", 0x4200BA, 1, 2),
  ("Key Value Present", 0x4200BB, 1, 2),
  ("Original Creation Date", 0x4200BC, 1, 2),
  ("PGP Key", 0x4200BD, 1, 2),
  ("PGP Key Version", 0x4200BE, 1, 2),
  ("Alternative Name", 0x4200BF, 1, 2),
  ("Alternative Name Value", 0x4200C0, 1, 2),
  ("Alternative Name Type", 0x4200C1, 1, 2),
  ("Data", 0x4200C2, 1, 2),
  ("Signature Data", 0x4200C3, 1, 2),
  ("Data Length", 0x4200C4, 1, 2),
  ("Random IV", 0x4200C5, 1, 2),
  ("MAC Data", 0x4200C6, 1, 2),
  ("Attestation Type", 0x4200C7, 1, 2),
  ("Nonce", 0x4200C8, 1, 2),
  ("Nonce ID", 0x4200C9, 1, 2),
  ("Nonce Value", 0x4200CA, 1, 2),
  ("Attestation Measurement", 0x4200CB, 1, 2),
  ("Attestation Assertion", 0x4200CC, 1, 2),
  ("IV Length", 0x4200CD, 1, 2),
  ("Tag Length", 0x4200CE, 1, 2),
  ("Fixed Field Length", 0x4200CF, 1, 2),
  ("Counter Length", 0x4200D0, 1, 2),
  ("Initial Counter Value", 0x4200D1, 1, 2),
  ("Invocation Field Length", 0x4200D2, 1, 2),
  ("Attestation Capable Indicator", 0x4200D3, 1, 2),
  -- KMIP 1.3
  ("Offset Items", 0x4200D4, 1, 3),
  ("Located Items", 0x4200D5, 1, 3),
  ("Correlation Value", 0x4200D6, 1, 3),
  ("Init Indicator", 0x4200D7, 1, 3),
  ("Final Indicator", 0x4200D8, 1, 3),
  ("RNG Parameters", 0x4200D9, 1, 3),
  ("RNG Algorithm", 0x4200DA, 1, 3),
  ("DRBG Algorithm", 0x4200DB, 1, 3),
  ("FIPS186 Variation", 0x4200DC, 1, 3),
  ("Prediction Resistance", 0x4200DD, 1, 3),
  ("Random Number Generator", 0x4200DE, 1, 3),
  ("Validation Information", 0x4200DF, 1, 3),
  ("Validation Authority Type", 0x4200E0, 1, 3),
  ("Validation Authority Country", 0x4200E1, 1, 3),
  ("Validation Authority URI", 0x4200E2, 1, 3),
  ("Validation Version Major", 0x4200E3, 1, 3),
  ("Validation Version Minor", 0x4200E4, 1, 3),
  ("Validation Type", 0x4200E5, 1, 3),
  ("Validation Level", 0x4200E6, 1, 3),
  ("Validation Certificate Identifier", 0x4200E7, 1, 3),
  ("Validation Certificate URI", 0x4200E8, 1, 3),
  ("Validation Vendor URI", 0x4200E9, 1, 3),
  ("Validation Profile", 0x4200EA, 1, 3),
  ("Profile Information", 0x4200EB, 1, 3),
  ("Profile Name", 0x4200EC, 1, 3),
  ("Server URI", 0x4200ED, 1, 3),
  ("Server Port", 0x4200EE, 1, 3),
  ("Streaming Capability", 0x4200EF, 1, 3),
  ("Asynchronous Capability", 0x4200F0, 1, 3),
  ("Attestation Capability", 0x4200F1, 1, 3),
  ("Unwrap Mode", 0x4200F2, 1, 3),
  ("Destroy Action", 0x4200F3, 1, 3),
  ("Shredding Algorithm", 0x4200F4, 1, 3),
  ("RNG Mode", 0x4200F5, 1, 3),
  ("Client Registration Method", 0x4200F6, 1, 3),
  ("Capability Information", 0x4200F7, 1, 3),
  -- KMIP 1.4
  ("Key Wrap Type", 0x4200F8, 1, 4),
  ("Batch Undo Capability", 0x4200F9, 1, 4),
  ("Batch Continue Capability", 0x4200FA, 1, 4),
  ("PKCS#12 Friendly Name", 0x4200FB, 1, 4),
  ("Description", 0x4200FC, 1, 4),
  ("Comment", 0x4200FD, 1, 4),
  ("Authenticated Encryption Additional Data", 0x4200FE, 1, 4),
  ("Authenticated Encryption Tag", 0x4200FF, 1, 4),
  ("Salt Length", 0x420100, 1, 4),
  ("Mask Generator", 0x420101, 1, 4),
  ("Mask Generator Hashing Algorithm", 0x420102, 1, 4),
  ("P Source", 0x420103, 1, 4),
  ("Trailer Field", 0x420104, 1, 4),
  ("Client Correlation Value", 0x420105, 1, 4),
  ("Server Correlation Value", 0x420106, 1, 4),
  ("Digested Data", 0x420107, 1, 4),
  ("Certificate Subject CN", 0x420108, 1, 4),
  ("Certificate Subject O", 0x420109, 1, 4),
  ("Certificate Subject OU", 0x42010A, 1, 4),
  ("Certificate Subject Email", 0x42010B, 1, 4),
  ("Certificate Subject C", 0x42010C, 1, 4),
  ("Certificate Subject ST", 0x42010D, 1, 4),
  ("Certificate Subject L", 0x42010E, 1, 4),
  ("Certificate Subject UID", 0x42010F, 1, 4),
  ("Certificate Subject Serial Number", 0x420110, 1, 4),
  ("Certificate Subject Title", 0x420111, 1, 4),
  ("Certificate Subject DC", 0x420112, 1, 4),
  ("Certificate Subject DN Qualifier", 0x420113, 1, 4),
  ("Certificate Issuer CN", 0x420114, 1, 4),
  ("Certificate Issuer O", 0x420115, 1, 4),
  ("Certificate Issuer OU", 0x420116, 1, 4),
  ("Certificate Issuer Email", 0x420117, 1, 4),
  ("Certificate Issuer C", 0x420118, 1, 4),
  ("Certificate Issuer ST", 0x420119, 1, 4),
  ("Certificate Issuer L", 0x42011A, 1, 4),
  ("Certificate Issuer UID", 0x42011B, 1, 4),
  ("Certificate Issuer Serial Number", 0x42011C, 1, 4),
  ("Certificate Issuer Title", 0x42011D, 1, 4),
  ("Certificate Issuer DC", 0x42011E, 1, 4),
  ("Certificate Issuer DN Qualifier", 0x42011F, 1, 4),
  ("Sensitive", 0x420120, 1, 4),
  ("Always Sensitive", 0x420121, 1, 4),
  ("Extractable", 0x420122, 1, 4),
  ("Never Extractable", 0x420123, 1, 4),
  ("Replace Existing", 0x420124, 1, 4)
]

/-- item type codes (9.1.1.2) -/
def itemTypes : List (String × Nat) := [
  ("Structure", 0x01), ("Integer", 0x02), ("Long Integer", 0x03), ("Big Integer", 0x04),
  ("Enumeration", 0x05), ("Boolean", 0x06), ("Text String", 0x07), ("Byte String", 0x08),
  ("Date-Time", 0x09), ("Interval", 0x0A)
]

/-- Operation enumeration: name, value, version introduced -/
def operations : List (String × Nat × Nat × Nat) := [
  ("Create", 0x01, 1, 0),
  ("Create Key Pair", 0x02, 1, 0),
  ("Register", 0x03, 1, 0),
  ("Re-key", 0x04, 1, 0),
  ("Derive Key", 0x05, 1, 0),
  ("Certify", 0x06, 1, 0),
  ("Re-certify", 0x07, 1, 0),
  ("Locate", 0x08, 1, 0),
  ("Check", 0x09, 1, 0),
  ("Get", 0x0A, 1, 0),
  ("Get Attributes", 0x0B, 1, 0),
  ("Get Attribute List", 0x0C, 1, 0),
  ("Add Attribute", 0x0D, 1, 0),
  ("Modify Attribute", 0x0E, 1, 0),
  ("Delete Attribute", 0x0F, 1, 0),
  ("Obtain Lease", 0x10, 1, 0),
  ("Get Usage Allocation", 0x11, 1, 0),
  ("Activate", 0x12, 1, 0),
  ("Revoke", 0x13, 1, 0),
  ("Destroy", 0x14, 1, 0),
  ("Archive", 0x15, 1, 0),
  ("Recover", 0x16, 1, 0),
  ("Validate", 0x17, 1, 0),
  ("Query", 0x18, 1, 0),
  ("Cancel", 0x19, 1, 0),
  ("Poll", 0x1A, 1, 0),
  ("Notify", 0x1B, 1, 0),
  ("Put", 0x1C, 1, 0),
  ("Re-key Key Pair", 0x1D, 1, 1),
  ("Discover Versions", 0x1E, 1, 1),
  ("Encrypt", 0x1F, 1, 2),
  ("Decrypt", 0x20, 1, 2),
  ("Sign", 0x21, 1, 2),
  ("Signature Verify", 0x22, 1, 2),
  ("MAC", 0x23, 1, 2),
  ("MAC Verify", 0x24, 1, 2),
  ("RNG Retrieve", 0x25, 1, 2),
  ("RNG Seed", 0x26, 1, 2),
  ("Hash", 0x27, 1, 2),
  ("Create Split Key", 0x28, 1, 2),
  ("Join Split Key", 0x29, 1, 2),
  ("Import", 0x2A, 1, 4),
  ("Export", 0x2B, 1, 4)
]

def resultStatus : List (String × Nat) := [
  ("Success", 0x00), ("Operation Failed", 0x01), ("Operation Pending", 0x02), ("Operation Undone", 0x03)
]

/-- Result Reason: name, value, version introduced -/
def resultReason : List (String × Nat × Nat × Nat) := [
  ("Item Not Found", 0x01, 1, 0),
  ("Response Too Large", 0x02, 1, 0),
  ("Authentication Not Successful", 0x03, 1, 0),
  ("Invalid Message", 0x04, 1, 0),
  ("Operation Not Supported", 0x05, 1, 0),
  ("Missing Data", 0x06, 1, 0),
  ("Invalid Field", 0x07, 1, 0),
  ("Feature Not Supported", 0x08, 1, 0),
  ("Operation Canceled By Requester", 0x09, 1, 0),
  ("Cryptographic Failure", 0x0A, 1, 0),
  ("Illegal Operation", 0x0B, 1, 0),
  ("Permission Denied", 0x0C, 1, 0),
  ("Object archived", 0x0D, 1, 0),
  ("Index Out of Bounds", 0x0E, 1, 0),
  ("Application Namespace Not Supported", 0x0F, 1, 0),
  ("Key Format Type Not Supported", 0x10, 1, 0),
  ("Key Compression Type Not Supported", 0x11, 1, 0),
  ("Encoding Option Error", 0x12, 1, 1),
  ("Key Value Not Present", 0x13, 1, 2),
  ("Attestation Required", 0x14, 1, 2),
  ("Attestation Failed", 0x15, 1, 2),
  ("Sensitive", 0x16, 1, 4),
  ("Not Extractable", 0x17, 1, 4),
  ("Object Already Exists", 0x18, 1, 4),
  ("General Failure", 0x100, 1, 0)
]

def credentialType : List (String × Nat × Nat × Nat) := [
  ("Username and Password", 0x01, 1, 0),
  ("Device", 0x02, 1, 1),
  ("Attestation", 0x03, 1, 2)
]

def keyCompressionType : List (String × Nat) := [
  ("EC Public Key Type Uncompressed", 0x01),
  ("EC Public Key Type X9.62 Compressed Prime", 0x02),
  ("EC Public Key Type X9.62 Compressed Char2", 0x03),
  ("EC Public Key Type X9.62 Hybrid", 0x04)
]

/-- 0x01–0x13: 1.0; 0x14, 0x15: 1.3; 0x16: 1.4 -/
def keyFormatType : List (String × Nat) := [
  ("Raw", 0x01),
  ("Opaque", 0x02),
  ("PKCS#1", 0x03),
  ("PKCS#8", 0x04),
  ("X.509", 0x05),
  ("ECPrivateKey", 0x06),
  ("Transparent Symmetric Key", 0x07),
  ("Transparent DSA Private Key", 0x08),
  ("Transparent DSA Public Key", 0x09),
  ("Transparent RSA Private Key", 0x0A),
  ("Transparent RSA Public Key", 0x0B),
  ("Transparent DH Private Key", 0x0C),
  ("Transparent DH Public Key", 0x0D),
  ("Transparent ECDSA Private Key", 0x0E),
  ("Transparent ECDSA Public Key", 0x0F),
  ("Transparent ECDH Private Key", 0x10),
  ("Transparent ECDH Public Key", 0x11),
  ("Transparent ECMQV Private Key", 0x12),
  ("Transparent ECMQV Public Key", 0x13),
  ("Transparent EC Private Key", 0x14),
  ("Transparent EC Public Key", 0x15),
  ("PKCS#12", 0x16)
]

/-- Key Wrap Type (1.4) -/
def keyWrapType : List (String × Nat) := [
  ("Not Wrapped", 0x01), ("As Registered", 0x02)
]

def wrappingMethod : List (String × Nat) := [
  ("Encrypt", 0x01),
  ("MAC/sign", 0x02),
  ("Encrypt then MAC/sign", 0x03),
  ("MAC/sign then encrypt", 0x04),
  ("TR-31", 0x05)
]

/-- 0x01–0x0F: 1.0; 0x10–0x44: 1.2 -/
def recommendedCurve : List (String × Nat) := [
  ("P-192", 0x01), ("K-163", 0x02), ("B-163", 0x03),
  ("P-224", 0x04), ("K-233", 0x05), ("B-233", 0x06),
  ("P-256", 0x07), ("K-283", 0x08), ("B-283", 0x09),
  ("P-384", 0x0A), ("K-409", 0x0B), ("B-409", 0x0C),
  ("P-521", 0x0D), ("K-571", 0x0E), ("B-571", 0x0F),
  ("SECP112R1", 0x10), ("SECP112R2", 0x11), ("SECP128R1", 0x12), ("SECP128R2", 0x13),
  ("SECP160K1", 0x14), ("SECP160R1", 0x15), ("SECP160R2", 0x16), ("SECP192K1", 0x17),
  ("SECP224K1", 0x18), ("SECP256K1", 0x19),
  ("SECT113R1", 0x1A), ("SECT113R2", 0x1B), ("SECT131R1", 0x1C), ("SECT131R2", 0x1D),
  ("SECT163R1", 0x1E), ("SECT193R1", 0x1F), ("SECT193R2", 0x20), ("SECT239K1", 0x21),
  ("ANSIX9P192V2", 0x22), ("ANSIX9P192V3", 0x23), ("ANSIX9P239V1", 0x24),
  ("ANSIX9P239V2", 0x25), ("ANSIX9P239V3", 0x26),
  ("ANSIX9C2PNB163V1", 0x27), ("ANSIX9C2PNB163V2", 0x28), ("ANSIX9C2PNB163V3", 0x29),
  ("ANSIX9C2PNB176V1", 0x2A), ("ANSIX9C2TNB191V1", 0x2B), ("ANSIX9C2TNB191V2", 0x2C),
  ("ANSIX9C2TNB191V3", 0x2D), ("ANSIX9C2PNB208W1", 0x2E), ("ANSIX9C2TNB239V1", 0x2F),
  ("ANSIX9C2TNB239V2", 0x30), ("ANSIX9C2TNB239V3", 0x31), ("ANSIX9C2PNB272W1", 0x32),
  ("ANSIX9C2PNB304W1", 0x33), ("ANSIX9C2TNB359V1", 0x34), ("ANSIX9C2PNB368W1", 0x35),
  ("ANSIX9C2TNB431R1", 0x36),
  ("BRAINPOOLP160R1", 0x37), ("BRAINPOOLP160T1", 0x38),
  ("BRAINPOOLP192R1", 0x39), ("BRAINPOOLP192T1", 0x3A),
  ("BRAINPOOLP224R1", 0x3B), ("BRAINPOOLP224T1", 0x3C),
  ("BRAINPOOLP256R1", 0x3D), ("BRAINPOOLP256T1", 0x3E),
  ("BRAINPOOLP320R1", 0x3F), ("BRAINPOOLP320T1", 0x40),
  ("BRAINPOOLP384R1", 0x41), ("BRAINPOOLP384T1", 0x42),
  ("BRAINPOOLP512R1", 0x43), ("BRAINPOOLP512T1", 0x44)
]

def certificateType : List (String × Nat) := [
  ("X.509", 0x01), ("PGP", 0x02)
]

/-- 0x01–0x10: 1.1; 0x11–0x13: 1.4 -/
def digitalSignatureAlgorithm : List (String × Nat) := [
  ("MD2 with RSA Encryption (PKCS#1 v1.5)", 0x01),
  ("MD5 with RSA Encryption (PKCS#1 v1.5)", 0x02),
  ("SHA-1 with RSA Encryption (PKCS#1 v1.5)", 0x03),
  ("SHA-224 with RSA Encryption (PKCS#1 v1.5)", 0x04),
  ("SHA-256 with RSA Encryption (PKCS#1 v1.5)", 0x05),
  ("SHA-384 with RSA Encryption (PKCS#1 v1.5)", 0x06),
  ("SHA-512 with RSA Encryption (PKCS#1 v1.5)", 0x07),
  ("RSASSA-PSS (PKCS#1 v2.1)", 0x08),
  ("DSA with SHA-1", 0x09),
  ("DSA with SHA224", 0x0A),
  ("DSA with SHA256", 0x0B),
  ("ECDSA with SHA-1", 0x0C),
  ("ECDSA with SHA224", 0x0D),
  ("ECDSA with SHA256", 0x0E),
  ("ECDSA with SHA384", 0x0F),
  ("ECDSA with SHA512", 0x10),
  ("SHA3-256 with RSA Encryption", 0x11),
  ("SHA3-384 with RSA Encryption", 0x12),
  ("SHA3-512 with RSA Encryption", 0x13)
]

/-- 0x01–0x03: 1.0; 0x04: 1.2 -/
def splitKeyMethod : List (String × Nat) := [
  ("XOR", 0x01),
  ("Polynomial Sharing GF (2^16)", 0x02),
  ("Polynomial Sharing Prime Field", 0x03),
  ("Polynomial Sharing GF (2^8)", 0x04)
]

def secretDataType : List (String × Nat) := [
  ("Password", 0x01), ("Seed", 0x02)
]

def nameType : List (String × Nat) := [
  ("Uninterpreted Text String", 0x01), ("URI", 0x02)
]

/-- 0x01–0x08: 1.0; 0x09: 1.2 -/
def objectType : List (String × Nat) := [
  ("Certificate", 0x01),
  ("Symmetric Key", 0x02),
  ("Public Key", 0x03),
  ("Private Key", 0x04),
  ("Split Key", 0x05),
  ("Template", 0x06),
  ("Secret Data", 0x07),
  ("Opaque Object", 0x08),
  ("PGP Key", 0x09)
]

/-- 0x01–0x0F: 1.0; 0x10–0x19: 1.1; 0x1A: 1.2; 0x1B: 1.3; 0x1C–0x28: 1.4 -/
def cryptographicAlgorithm : List (String × Nat) := [
  ("DES", 0x01),
  ("3DES", 0x02),
  ("AES", 0x03),
  ("RSA", 0x04),
  ("DSA", 0x05),
  ("ECDSA", 0x06),
  ("HMAC-SHA1", 0x07),
  ("HMAC-SHA224", 0x08),
  ("HMAC-SHA256", 0x09),
  ("HMAC-SHA384", 0x0A),
  ("HMAC-SHA512", 0x0B),
  ("HMAC-MD5", 0x0C),
  ("DH", 0x0D),
  ("ECDH", 0x0E),
  ("ECMQV", 0x0F),
  ("Blowfish", 0x10),
  ("Camellia", 0x11),
  ("CAST5", 0x12),
  ("IDEA", 0x13),
  ("MARS", 0x14),
  ("RC2", 0x15),
  ("RC4", 0x16),
  ("RC5", 0x17),
  ("SKIPJACK", 0x18),
  ("Twofish", 0x19),
  ("EC", 0x1A),
  ("One Time Pad", 0x1B),
  ("ChaCha20", 0x1C),
  ("Poly1305", 0x1D),
  ("ChaCha20Poly1305", 0x1E),
  ("SHA3-224", 0x1F),
  ("SHA3-256", 0x20),
  ("SHA3-384", 0x21),
  ("SHA3-512", 0x22),
  ("HMAC-SHA3-224", 0x23),
  ("HMAC-SHA3-256", 0x24),
  ("HMAC-SHA3-384", 0x25),
  ("HMAC-SHA3-512", 0x26),
  ("SHAKE-128", 0x27),
  ("SHAKE-256", 0x28)
]

/-- 0x01–0x11: 1.0; 0x12: 1.4 -/
def blockCipherMode : List (String × Nat) := [
  ("CBC", 0x01),
  ("ECB", 0x02),
  ("PCBC", 0x03),
  ("CFB", 0x04),
  ("OFB", 0x05),
  ("CTR", 0x06),
  ("CMAC", 0x07),
  ("CCM", 0x08),
  ("GCM", 0x09),
  ("CBC-MAC", 0x0A),
  ("XTS", 0x0B),
  ("AESKeyWrapPadding", 0x0C),
  ("NISTKeyWrap", 0x0D),
  ("X9.102 AESKW", 0x0E),
  ("X9.102 TDKW", 0x0F),
  ("X9.102 AKW1", 0x10),
  ("X9.102 AKW2", 0x11),
  ("AEAD", 0x12)
]

def paddingMethod : List (String × Nat) := [
  ("None", 0x01),
  ("OAEP", 0x02),
  ("PKCS5", 0x03),
  ("SSL3", 0x04),
  ("Zeros", 0x05),
  ("ANSI X9.23", 0x06),
  ("ISO 10126", 0x07),
  ("PKCS1 v1.5", 0x08),
  ("X9.31", 0x09),
  ("PSS", 0x0A)
]

/-- 0x01–0x0B: 1.0; 0x0C, 0x0D: 1.2; 0x0E–0x11: 1.4 -/
def hashingAlgorithm : List (String × Nat) := [
  ("MD2", 0x01),
  ("MD4", 0x02),
  ("MD5", 0x03),
  ("SHA-1", 0x04),
  ("SHA-224", 0x05),
  ("SHA-256", 0x06),
  ("SHA-384", 0x07),
  ("SHA-512", 0x08),
  ("RIPEMD-160", 0x09),
  ("Tiger", 0x0A),
  ("Whirlpool", 0x0B),
  ("SHA-512/224", 0x0C),
  ("SHA-512/256", 0x0D),
  ("SHA-3-224", 0x0E),
  ("SHA-3-256", 0x0F),
  ("SHA-3-384", 0x10),
  ("SHA-3-512", 0x11)
]

/-- 0x01–0x15: 1.0; 0x16–0x18: 1.4 -/
def keyRoleType : List (String × Nat) := [
  ("BDK", 0x01),
  ("CVK", 0x02),
  ("DEK", 0x03),
  ("MKAC", 0x04),
  ("MKSMC", 0x05),
  ("MKSMI", 0x06),
  ("MKDAC", 0x07),
  ("MKDN", 0x08),
  ("MKCP", 0x09),
  ("MKOTH", 0x0A),
  ("KEK", 0x0B),
  ("MAC16609", 0x0C),
  ("MAC97971", 0x0D),
  ("MAC97972", 0x0E),
  ("MAC97973", 0x0F),
  ("MAC97974", 0x10),
  ("MAC97975", 0x11),
  ("ZPK", 0x12),
  ("PVKIBM", 0x13),
  ("PVKPVV", 0x14),
  ("PVKOTH", 0x15),
  ("DUKPT", 0x16),
  ("IV", 0x17),
  ("TRKBK", 0x18)
]

def state : List (String × Nat) := [
  ("Pre-Active", 0x01),
  ("Active", 0x02),
  ("Deactivated", 0x03),
  ("Compromised", 0x04),
  ("Destroyed", 0x05),
  ("Destroyed Compromised", 0x06)
]

def revocationReasonCode : List (String × Nat) := [
  ("Unspecified", 0x01),
  ("Key Compromise", 0x02),
  ("CA Compromise", 0x03),
  ("Affiliation Changed", 0x04),
  ("Superseded", 0x05),
  ("Cessation of Operation", 0x06),
  ("Privilege Withdrawn", 0x07)
]

/-- 0x101–0x107: 1.0; 0x108–0x10B: 1.2; 0x10C, 0x10D: 1.4 -/
def linkType : List (String × Nat) := [
  ("Certificate Link", 0x101),
  ("Public Key Link", 0x102),
  ("Private Key Link", 0x103),
  ("Derivation Base Object Link", 0x104),
  ("Derived Key Link", 0x105),
  ("Replacement Object Link", 0x106),
  ("Replaced Object Link", 0x107),
  ("Parent Link", 0x108),
  ("Child Link", 0x109),
  ("Previous Link", 0x10A),
  ("Next Link", 0x10B),
  ("PKCS#12 Certificate Link", 0x10C),
  ("PKCS#12 Password Link", 0x10D)
]

/-- 0x01–0x07: 1.0; 0x08: 1.4 -/
def derivationMethod : List (String × Nat) := [
  ("PBKDF2", 0x01),
  ("HASH", 0x02),
  ("HMAC", 0x03),
  ("ENCRYPT", 0x04),
  ("NIST800-108-C", 0x05),
  ("NIST800-108-F", 0x06),
  ("NIST800-108-DPI", 0x07),
  ("Asymmetric Key", 0x08)
]

def certificateRequestType : List (String × Nat) := [
  ("CRMF", 0x01), ("PKCS#10", 0x02), ("PEM", 0x03), ("PGP", 0x04)
]

def validityIndicator : List (String × Nat) := [
  ("Valid", 0x01), ("Invalid", 0x02), ("Unknown", 0x03)
]

/-- 0x01–0x04: 1.0; 0x05, 0x06: 1.1; 0x07: 1.2; 0x08–0x0C: 1.3 -/
def queryFunction : List (String × Nat) := [
  ("Query Operations", 0x01),
  ("Query Objects", 0x02),
  ("Query Server Information", 0x03),
  ("Query Application Namespaces", 0x04),
  ("Query Extension List", 0x05),
  ("Query Extension Map", 0x06),
  ("Query Attestation Types", 0x07),
  ("Query RNGs", 0x08),
  ("Query Validations", 0x09),
  ("Query Profiles", 0x0A),
  ("Query Capabilities", 0x0B),
  ("Query Client Registration Methods", 0x0C)
]

def cancellationResult : List (String × Nat) := [
  ("Canceled", 0x01),
  ("Unable to Cancel", 0x02),
  ("Completed", 0x03),
  ("Failed", 0x04),
  ("Unavailable", 0x05)
]

def putFunction : List (String × Nat) := [
  ("New", 0x01), ("Replace", 0x02)
]

def batchErrorContinuationOption : List (String × Nat) := [
  ("Continue", 0x01), ("Stop", 0x02), ("Undo", 0x03)
]

def usageLimitsUnit : List (String × Nat) := [
  ("Byte", 0x01), ("Object", 0x02)
]

/-- 1.1 -/
def encodingOption : List (String × Nat) := [
  ("No Encoding", 0x01), ("TTLV Encoding", 0x02)
]

/-- 1.1 -/
def objectGroupMember : List (String × Nat) := [
  ("Group Member Fresh", 0x01), ("Group Member Default", 0x02)
]

/-- 1.2 -/
def alternativeNameType : List (String × Nat) := [
  ("Uninterpreted Text String", 0x01),
  ("URI", 0x02),
  ("Object Serial Number", 0x03),
  ("Email Address", 0x04),
  ("DNS Name", 0x05),
  ("X.500 Distinguished Name", 0x06),
  ("IP Address", 0x07)
]

/-- 1.2 -/
def keyValueLocationType : List (String × Nat) := [
  ("Uninterpreted Text String", 0x01), ("URI", 0x02)
]

/-- 1.2 -/
def attestationType : List (String × Nat) := [
  ("TPM Quote", 0x01), ("TCG Integrity Report", 0x02), ("SAML Assertion", 0x03)
]

/-- 1.3 -/
def rngAlgorithm : List (String × Nat) := [
  ("Unspecified", 0x01),
  ("FIPS 186-2", 0x02),
  ("DRBG", 0x03),
  ("NRBG", 0x04),
  ("ANSI X9.31", 0x05),
  ("ANSI X9.62", 0x06)
]

/-- 1.3 -/
def drbgAlgorithm : List (String × Nat) := [
  ("Unspecified", 0x01), ("Dual-EC", 0x02), ("Hash", 0x03), ("HMAC", 0x04), ("CTR", 0x05)
]

/-- 1.3 -/
def fips186Variation : List (String × Nat) := [
  ("Unspecified", 0x01),
  ("GP x-Original", 0x02),
  ("GP x-Change Notice", 0x03),
  ("x-Original", 0x04),
  ("x-Change Notice", 0x05),
  ("k-Original", 0x06),
  ("k-Change Notice", 0x07)
]

/-- 1.3 -/
def validationAuthorityType : List (String × Nat) := [
  ("Unspecified", 0x01), ("NIST CMVP", 0x02), ("Common Criteria", 0x03)
]

/-- 1.3 -/
def validationType : List (String × Nat) := [
  ("Unspecified", 0x01), ("Hardware", 0x02), ("Software", 0x03), ("Firmware", 0x04), ("Hybrid", 0x05)
]

/-- 1.3 -/
def unwrapMode : List (String × Nat) := [
  ("Unspecified", 0x01), ("Processed", 0x02), ("Not Processed", 0x03)
]

/-- 1.3 -/
def destroyAction : List (String × Nat) := [
  ("Unspecified", 0x01),
  ("Key Material Deleted", 0x02),
  ("Key Material Shredded", 0x03),
  ("Meta Data Deleted", 0x04),
  ("Meta Data Shredded", 0x05),
  ("Deleted", 0x06),
  ("Shredded", 0x07)
]

/-- 1.3 -/
def shreddingAlgorithm : List (String × Nat) := [
  ("Unspecified", 0x01), ("Cryptographic", 0x02), ("Unsupported", 0x03)
]

/-- 1.3 -/
def rngMode : List (String × Nat) := [
  ("Unspecified", 0x01), ("Shared Instantiation", 0x02), ("Non-Shared Instantiation", 0x03)
]

/-- 1.3 -/
def clientRegistrationMethod : List (String × Nat) := [
  ("Unspecified", 0x01),
  ("Server Pre-Generated", 0x02),
  ("Server On-Demand", 0x03),
  ("Client Generated", 0x04),
  ("Client Registered", 0x05)
]

/-- 1.4 -/
def maskGenerator : List (String × Nat) := [
  ("MGF1", 0x01)
]

/-- Bit masks (9.1.3.3.1): Cryptographic Usage Mask -/
def cryptographicUsageMask : List (String × Nat) := [
  ("Sign", 0x00000001),
  ("Verify", 0x00000002),
  ("Encrypt", 0x00000004),
  ("Decrypt", 0x00000008),
  ("Wrap Key", 0x00000010),
  ("Unwrap Key", 0x00000020),
  ("Export", 0x00000040),
  ("MAC Generate", 0x00000080),
  ("MAC Verify", 0x00000100),
  ("Derive Key", 0x00000200),
  ("Content Commitment (Non Repudiation)", 0x00000400),
  ("Key Agreement", 0x00000800),
  ("Certificate Sign", 0x00001000),
  ("CRL Sign", 0x00002000),
  ("Generate Cryptogram", 0x00004000),
  ("Validate Cryptogram", 0x00008000),
  ("Translate Encrypt", 0x00010000),
  ("Translate Decrypt", 0x00020000),
  ("Translate Wrap", 0x00040000),
  ("Translate Unwrap", 0x00080000)
]

/-- Bit masks (9.1.3.3.2): Storage Status Mask -/
def storageStatusMask : List (String × Nat) := [
  ("On-line storage", 0x00000001),
  ("Archival storage", 0x00000002)
]

/-! ## Self-checks (guard against transcription slips) -/

-- tags: contiguous, in numeric order, 292 of them
example : (tags.map (·.2.1)) = (List.range tags.length).map (· + 0x420001) := by decide +kernel
example : tags.length = 0x124 := by decide +kernel
-- version columns are monotone non-decreasing and all major = 1
example : tags.all (fun t => t.2.2.1 == 1 && t.2.2.2 ≤ 4) = true := by decide +kernel
example : (tags.filter (fun t => t.2.2.2 == 0)).length = 0xA1 := by decide +kernel
example : (tags.filter (fun t => t.2.2.2 == 1)).length = 0xB7 - 0xA1 := by decide +kernel
example : (tags.filter (fun t => t.2.2.2 == 2)).length = 0xD3 - 0xB7 := by decide +kernel
example : (tags.filter (fun t => t.2.2.2 == 3)).length = 0xF7 - 0xD3 := by decide +kernel
example : (tags.filter (fun t => t.2.2.2 == 4)).length = 0x124 - 0xF7 := by decide +kernel
-- (tag names are pairwise distinct: checked once with `#eval (tags.map (·.1)).eraseDups.length` = 292;
--  not kept as a kernel `decide` because string comparison in the kernel costs ~40 s.)

-- 4-column enumerations, contiguous from 1
example : (operations.map (·.2.1)) = (List.range operations.length).map (· + 1) := by decide +kernel
example : operations.length = 0x2B := by decide +kernel
example : (credentialType.map (·.2.1)) = (List.range credentialType.length).map (· + 1) := by decide +kernel
-- resultReason: contiguous 1 … 0x18, then General Failure = 0x100
example : ((resultReason.take 0x18).map (·.2.1)) = (List.range 0x18).map (· + 1) := by decide +kernel
example : (resultReason.drop 0x18).map (·.2.1) = [0x100] := by decide +kernel
-- resultStatus: contiguous from 0
example : (resultStatus.map (·.2)) = List.range resultStatus.length := by decide +kernel
-- itemTypes
example : (itemTypes.map (·.2)) = (List.range itemTypes.length).map (· + 1) := by decide +kernel
example : itemTypes.length = 10 := by decide +kernel

-- 2-column enumerations, contiguous from 1
example : (keyCompressionType.map (·.2)) = (List.range keyCompressionType.length).map (· + 1) := by decide +kernel
example : (keyFormatType.map (·.2)) = (List.range keyFormatType.length).map (· + 1) := by decide +kernel
example : (keyWrapType.map (·.2)) = (List.range keyWrapType.length).map (· + 1) := by decide +kernel
example : (wrappingMethod.map (·.2)) = (List.range wrappingMethod.length).map (· + 1) := by decide +kernel
example : (recommendedCurve.map (·.2)) = (List.range recommendedCurve.length).map (· + 1) := by decide +kernel
example : recommendedCurve.length = 0x44 := by decide +kernel
example : (certificateType.map (·.2)) = (List.range certificateType.length).map (· + 1) := by decide +kernel
example : (digitalSignatureAlgorithm.map (·.2)) = (List.range digitalSignatureAlgorithm.length).map (· + 1) := by decide +kernel
example : (splitKeyMethod.map (·.2)) = (List.range splitKeyMethod.length).map (· + 1) := by decide +kernel
example : (secretDataType.map (·.2)) = (List.range secretDataType.length).map (· + 1) := by decide +kernel
example : (nameType.map (·.2)) = (List.range nameType.length).map (· + 1) := by decide +kernel
example : (objectType.map (·.2)) = (List.range objectType.length).map (· + 1) := by decide +kernel
example : (cryptographicAlgorithm.map (·.2)) = (List.range cryptographicAlgorithm.length).map (· + 1) := by decide +kernel
example : cryptographicAlgorithm.length = 0x28 := by decide +kernel
example : (blockCipherMode.map (·.2)) = (List.range blockCipherMode.length).map (· + 1) := by decide +kernel
example : (paddingMethod.map (·.2)) = (List.range paddingMethod.length).map (· + 1) := by decide +kernel
example : (hashingAlgorithm.map (·.2)) = (List.range hashingAlgorithm.length).map (· + 1) := by decide +kernel
example : (keyRoleType.map (·.2)) = (List.range keyRoleType.length).map (· + 1) := by decide +kernel
example : (state.map (·.2)) = (List.range state.length).map (· + 1) := by decide +kernel
example : (revocationReasonCode.map (·.2)) = (List.range revocationReasonCode.length).map (· + 1) := by decide +kernel
example : (linkType.map (·.2)) = (List.range linkType.length).map (· + 0x101) := by decide +kernel
example : (derivationMethod.map (·.2)) = (List.range derivationMethod.length).map (· + 1) := by decide +kernel
example : (certificateRequestType.map (·.2)) = (List.range certificateRequestType.length).map (· + 1) := by decide +kernel
example : (validityIndicator.map (·.2)) = (List.range validityIndicator.length).map (· + 1) := by decide +kernel
example : (queryFunction.map (·.2)) = (List.range queryFunction.length).map (· + 1) := by decide +kernel
example : (cancellationResult.map (·.2)) = (List.range cancellationResult.length).map (· + 1) := by decide +kernel
example : (putFunction.map (·.2)) = (List.range putFunction.length).map (· + 1) := by decide +kernel
example : (batchErrorContinuationOption.map (·.2)) = (List.range batchErrorContinuationOption.length).map (· + 1) := by decide +kernel
example : (usageLimitsUnit.map (·.2)) = (List.range usageLimitsUnit.length).map (· + 1) := by decide +kernel
example : (encodingOption.map (·.2)) = (List.range encodingOption.length).map (· + 1) := by decide +kernel
example : (objectGroupMember.map (·.2)) = (List.range objectGroupMember.length).map (· + 1) := by decide +kernel
example : (alternativeNameType.map (·.2)) = (List.range alternativeNameType.length).map (· + 1) := by decide +kernel
example : (keyValueLocationType.map (·.2)) = (List.range keyValueLocationType.length).map (· + 1) := by decide +kernel
example : (attestationType.map (·.2)) = (List.range attestationType.length).map (· + 1) := by decide +kernel
example : (rngAlgorithm.map (·.2)) = (List.range rngAlgorithm.length).map (· + 1) := by decide +kernel
example : (drbgAlgorithm.map (·.2)) = (List.range drbgAlgorithm.length).map (· + 1) := by decide +kernel
example : (fips186Variation.map (·.2)) = (List.range fips186Variation.length).map (· + 1) := by decide +kernel
example : (validationAuthorityType.map (·.2)) = (List.range validationAuthorityType.length).map (· + 1) := by decide +kernel
example : (validationType.map (·.2)) = (List.range validationType.length).map (· + 1) := by decide +kernel
example : (unwrapMode.map (·.2)) = (List.range unwrapMode.length).map (· + 1) := by decide +kernel
example : (destroyAction.map (·.2)) = (List.range destroyAction.length).map (· + 1) := by decide +kernel
example : (shreddingAlgorithm.map (·.2)) = (List.range shreddingAlgorithm.length).map (· + 1) := by decide +kernel
example : (rngMode.map (·.2)) = (List.range rngMode.length).map (· + 1) := by decide +kernel
example : (clientRegistrationMethod.map (·.2)) = (List.range clientRegistrationMethod.length).map (· + 1) := by decide +kernel
example : (maskGenerator.map (·.2)) = (List.range maskGenerator.length).map (· + 1) := by decide +kernel
-- bit masks: successive powers of two
example : (cryptographicUsageMask.map (·.2)) = (List.range cryptographicUsageMask.length).map (2 ^ ·) := by decide +kernel
example : (storageStatusMask.map (·.2)) = (List.range storageStatusMask.length).map (2 ^ ·) := by decide +kernel

end Kmip.Registry
