import KmipModel.Basic
/-
  Model of the accept loop of `Server.Serve` (server.go): what Serve does with each outcome of
  `net.Listener.Accept`, as a function from the sequence of outcomes to the trace of its reactions.
-/
namespace Kmip.Accept

/-- what one call of Accept yields, together with what Serve finds when it looks at the shutdown signal -/
inductive Outcome where
  | temporary            -- a net.Error with Temporary() = true, shutdown not signalled
  | ok (conn : Nat)      -- a connection, shutdown not signalled when it is registered
  | permanent            -- any other error, shutdown not signalled
  | shutdown             -- Accept fails (of whatever kind) and the shutdown signal is found set
  | late (conn : Nat)    -- a connection is returned, but shutdown was signalled before it could be registered
  deriving DecidableEq, Repr

inductive Ev where
  | sleep (ms : Nat)                 -- back-off before retrying
  | start (conn : Nat) (session : Nat)   -- session registered (wg.Add) and started with this session number
  | closeLate (conn : Nat)           -- connection accepted too late: closed, not served
  | returnNil
  | returnErr
  deriving DecidableEq, Repr

/-- `tempDelay`: 5 ms, then doubled, capped at 1 s -/
def nextDelay (d : Nat) : Nat := min (if d = 0 then 5 else 2 * d) 1000

/-- the loop; `d` = current tempDelay (ms, 0 = none), `n` = lastSession. A list that runs out means Accept is blocking. -/
def acceptLoop : Nat → Nat → List Outcome → List Ev
  | _, _, [] => []
  | d, n, .temporary :: rest => Ev.sleep (nextDelay d) :: acceptLoop (nextDelay d) n rest
  | _, n, .ok c :: rest => Ev.start c (n + 1) :: acceptLoop 0 (n + 1) rest
  | _, _, .permanent :: _ => [Ev.returnErr]
  | _, _, .shutdown :: _ => [Ev.returnNil]
  | _, _, .late c :: _ => [Ev.closeLate c, Ev.returnNil]

def serveAccepts (os : List Outcome) : List Ev := acceptLoop 0 0 os

end Kmip.Accept
