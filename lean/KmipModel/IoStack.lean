import KmipModel.Io
/-
  The reader stack the Decoder really reads through (C06, C03):

      bufio.Reader( io.LimitReader( bufio.Reader( io.LimitReader( … bufio.Reader(conn) … ))))

  `NewDecoder` wraps a reader that is no io.ByteScanner into a `bufio.Reader` (4096 bytes); `decode` gives the decoder of
  every nested structure `NewDecoder(io.LimitReader(d.r, declaredLength))`.  The Decoder touches the stack only through
  `io.ReadFull`, `ReadByte` (the item type) and `io.CopyN(ioutil.Discard, …)` (skipped items).

  This file models each layer after the Go sources (io.LimitedReader.Read; bufio.Reader.Read, ReadByte, fill with its limit of
  100 consecutive empty reads; io.ReadFull; io.CopyN into Discard) as one inductive `Stack` of arbitrary depth over a chunked
  transport source `Src`, and states the FLAT view of a stack: the bytes it still carries and the error that follows them.
  KmipProofs/IoStackLemmas.lean proves that every primitive the Decoder uses acts on the flat view only - whatever the chunking.
-/
namespace Kmip.Io

inductive Stack where
  | src (s : Src)
  /-- `io.LimitReader(inner, n)` with `n` bytes left -/
  | lim (inner : Stack) (n : Nat)
  /-- `bufio.NewReaderSize(inner, size)`: `pend` = the unread part of the buffer, `err` = the error kept for later -/
  | buf (inner : Stack) (size : Nat) (pend : Bytes) (err : Option ErrClass)

/-- one `Read(p)` with `len(p) = k > 0` -/
def Stack.read : Stack → Nat → Bytes × Option ErrClass × Stack
  | .src s, k => ((s.read k).1, (s.read k).2.1, .src (s.read k).2.2)
  | .lim i n, k =>
    -- if l.N <= 0 { return 0, EOF }; if len(p) > l.N { p = p[:l.N] }; n, err = l.R.Read(p); l.N -= n
    if n = 0 then ([], some .eof, .lim i n)
    else ((i.read (min k n)).1, (i.read (min k n)).2.1, .lim (i.read (min k n)).2.2 (n - (i.read (min k n)).1.length))
  | .buf i sz pend er, k =>
    match pend, er with
    | c :: cs, _ =>
      -- copy as much as we can
      ((c :: cs).take k, none, .buf i sz ((c :: cs).drop k) er)
    | [], some e =>
      -- if b.r == b.w { if b.err != nil { return 0, b.readErr() }
      ([], some e, .buf i sz [] none)
    | [], none =>
      if sz ≤ k then
        -- large read, empty buffer: read directly into p; return n, b.readErr()
        ((i.read k).1, (i.read k).2.1, .buf (i.read k).2.2 sz [] none)
      else
        -- one read into the buffer (not fill, which loops); if n == 0 { return 0, b.readErr() }
        match (i.read sz).1 with
        | [] => ([], (i.read sz).2.1, .buf (i.read sz).2.2 sz [] none)
        | c :: cs => ((c :: cs).take k, none, .buf (i.read sz).2.2 sz ((c :: cs).drop k) (i.read sz).2.1)

/-- `bufio.Reader.fill` on an empty buffer: up to `tries` reads; stops at the first error or the first data;
    io.ErrNoProgress (class other) when every try came back empty -/
def fillLoop : Nat → Stack → Nat → Bytes × Option ErrClass × Stack
  | 0, i, _ => ([], some .other, i)
  | t + 1, i, sz =>
    match (i.read sz).2.1, (i.read sz).1 with
    | some e, b => (b, some e, (i.read sz).2.2)
    | none, c :: cs => (c :: cs, none, (i.read sz).2.2)
    | none, [] => fillLoop t (i.read sz).2.2 sz

def maxConsecutiveEmptyReads : Nat := 100

/-- `ReadByte` of a source that is itself an io.ByteScanner (bytes.Reader, bytes.Buffer, the caller's own bufio.Reader ...): the
    next byte of what it carries; how it was cut into `Read` results has no meaning for it, so the chunk list is left without
    empty pieces -/
def srcReadByte : List Bytes → Option (UInt8 × List Bytes)
  | [] => none
  | [] :: cs => srcReadByte cs
  | (b :: bs) :: cs => some (b, (bs :: cs).filter (fun c => c.length ≠ 0))

/-- `bufio.Reader.ReadByte`:  `for b.r == b.w { if b.err != nil { return 0, b.readErr() }; b.fill() }` -/
def Stack.readByte : Stack → Outcome (UInt8 × Stack)
  | .buf i sz (c :: pend) er => .ok (c, .buf i sz pend er)
  | .buf _ _ [] (some e) => .err e
  | .buf i sz [] none =>
    match fillLoop maxConsecutiveEmptyReads i sz with
    | (c :: rest, e, i') => .ok (c, .buf i' sz rest e)
    | ([], some e, _) => .err e
    | ([], none, _) => .err .other
  | .src s =>
    -- the Decoder was given an io.ByteScanner and uses it directly (NewDecoder: "buffering can be disabled ...")
    match srcReadByte s.chunks with
    | some (c, cs) => .ok (c, .src { s with chunks := cs })
    | none => .err s.fin.err
  | .lim _ _ => .err .other   -- an io.LimitedReader is no ByteScanner: NewDecoder always wraps it in a bufio.Reader

/-- the bytes a stack still carries, whatever the chunking and whatever sits in its buffers -/
def Stack.content : Stack → Bytes
  | .src s => s.flat
  | .lim i n => i.content.take n
  | .buf i _ pend _ => pend ++ i.content

/-- the error that follows them -/
def Stack.fin : Stack → ErrClass
  | .src s => s.fin.err
  | .lim i n => if n ≤ i.content.length then .eof else i.fin
  | .buf i _ _ _ => i.fin

/-- length of the run of empty chunks at the head -/
def leadEmpty : List Bytes → Nat
  | [] => 0
  | c :: cs => if c.length = 0 then leadEmpty cs + 1 else 0

/-- longest run of consecutive empty chunks -/
def maxEmptyRun : List Bytes → Nat
  | [] => 0
  | c :: cs => max (leadEmpty (c :: cs)) (maxEmptyRun cs)

/-- a bound on the reads that can still return without an error -/
def Stack.fuel : Stack → Nat
  | .src s => s.flat.length + s.chunks.length
  | .lim i _ => i.fuel
  | .buf i sz pend er => (if er.isSome then 0 else (i.fuel + 1) * (sz + 2)) + pend.length + (if er.isSome then 1 else 0)

/-- a bound on the consecutive empty reads (no data, no error) that can come next -/
def Stack.idle : Stack → Nat
  | .src s => leadEmpty s.chunks
  | .lim i _ => i.idle
  | .buf i _ pend er => if pend.length = 0 ∧ er.isNone then i.idle else 0

/-- the sources and states the flat view is claimed for: data comes together with an error only if that error is EOF
    ("data returned together with EOF"), fewer than 100 consecutive zero-length reads (bufio gives up with
    io.ErrNoProgress otherwise), buffers of positive size, and an error kept by a buffer is the final one -/
def Stack.Inv : Stack → Prop
  | .src s => (s.eager = true → s.fin = .eof) ∧ maxEmptyRun s.chunks < maxConsecutiveEmptyReads
  | .lim i _ => i.Inv
  | .buf i sz _ er => i.Inv ∧ 0 < sz ∧ (∀ e, er = some e → e = i.fin ∧ i.content = [])

/-- `io.ReadFull(r, buf)` with `len(buf) = k` (io.ReadAtLeast's loop) -/
def Stack.readFullLoop : Nat → Stack → Nat → Bytes → Outcome (Bytes × Stack)
  | 0, _, _, _ => .err .other
  | fuel + 1, s, k, acc =>
    if k ≤ acc.length then .ok (acc, s)
    else
      match (s.read (k - acc.length)).2.1 with
      | none => Stack.readFullLoop fuel (s.read (k - acc.length)).2.2 k (acc ++ (s.read (k - acc.length)).1)
      | some err =>
        if k ≤ (acc ++ (s.read (k - acc.length)).1).length then .ok (acc ++ (s.read (k - acc.length)).1, (s.read (k - acc.length)).2.2)
        else .err (if (acc ++ (s.read (k - acc.length)).1).length = 0 then err else .other)

def Stack.readFull (s : Stack) (k : Nat) : Outcome (Bytes × Stack) := Stack.readFullLoop (s.fuel + 2) s k []

/-- `io.CopyN(ioutil.Discard, r, n)` = `io.Copy(Discard, io.LimitReader(r, n))`: Discard's ReadFrom reads 8192-byte blocks until
    an error, EOF counts as success; then `written == n ⇒ nil`, `written < n && err == nil ⇒ io.EOF` (RAW EOF, also after a
    partial skip), any other error as it is.  Returns the stack below the limit reader. -/
def discardLoop : Nat → Stack → Nat → Nat × Option ErrClass × Stack
  | 0, s, w => (w, some .other, s)
  | fuel + 1, s, w =>
    match (s.read 8192).2.1 with
    | none => discardLoop fuel (s.read 8192).2.2 (w + (s.read 8192).1.length)
    | some e => (w + (s.read 8192).1.length, some e, (s.read 8192).2.2)

def Stack.copyNDiscard (s : Stack) (n : Nat) : Outcome Stack :=
  match discardLoop (s.fuel + 2) (.lim s n) 0 with
  | (w, some .eof, .lim s' _) => if w = n then .ok s' else .err .eof
  | (w, some .other, .lim s' _) => if w = n then .ok s' else .err .other
  | _ => .err .other

/-- what `NewDecoder(io.LimitReader(d.r, n))` puts on top of the stack for a nested structure of declared length `n` -/
def Stack.nested (s : Stack) (n : Nat) : Stack := .buf (.lim s n) 4096 [] none

/-- what `NewDecoder(conn)` makes of a plain io.Reader -/
def Stack.top (s : Src) : Stack := .buf (.src s) 4096 [] none

end Kmip.Io
