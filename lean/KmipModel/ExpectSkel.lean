-- Expected operation skeletons of the functions the session / accept / shutdown / client models mirror.
-- Reviewed by hand against KmipModel/Session.lean, Accept.lean, Shutdown.lean, Client.lean, Discover.lean: each entry is the ordered list of
-- synchronisation, I/O, callback and control-flow operations of the function (see harness/cmd/kvscan/skeleton.go).
-- GenC07/GenC11/... prove the skeletons regenerated from /repo equal these, so a structural change to those functions
-- breaks a proof obligation and forces the model to be re-examined.
namespace Kmip.ExpectSkel

def skel_Client_Close : List String := [
  "if c.conn == nil {",
  "return nil",
  "}",
  "call c.conn.Close",
  "set c.conn",
  "return err"
]

def skel_Client_Connect : List String := [
  "call tls.Dial",
  "set c.conn",
  "if err != nil {",
  "return errors.Wrap(err, \"error dialing connection\")",
  "}",
  "if c.ReadTimeout != 0 {",
  "call time.Now().Add",
  "call c.conn.SetReadDeadline",
  "}",
  "if c.WriteTimeout != 0 {",
  "call time.Now().Add",
  "call c.conn.SetWriteDeadline",
  "}",
  "call c.conn.Handshake",
  "if err != nil {",
  "return errors.Wrap(err, \"error running tls handshake\")",
  "}",
  "if c.Version == zeroVersion {",
  "set c.Version",
  "}",
  "call NewEncoder",
  "set c.e",
  "call NewDecoder",
  "set c.d",
  "return nil"
]

def skel_Client_DiscoverVersions : List String := [
  "call c.Send",
  "if err != nil {",
  "return ",
  "}",
  "assert DiscoverVersionsResponse",
  "if !ok {",
  "return ",
  "}",
  "return "
]

def skel_Client_Send : List String := [
  "if c.conn == nil {",
  "return ",
  "}",
  "if c.WriteTimeout != 0 {",
  "call time.Now().Add",
  "call c.conn.SetWriteDeadline",
  "}",
  "call c.e.Encode",
  "if err != nil {",
  "return ",
  "}",
  "if c.ReadTimeout != 0 {",
  "call time.Now().Add",
  "call c.conn.SetReadDeadline",
  "}",
  "call c.d.Decode",
  "if err != nil {",
  "return ",
  "}",
  "if response.Header.BatchCount != 1 {",
  "return ",
  "}",
  "if len(response.BatchItems) != 1 {",
  "return ",
  "}",
  "if response.BatchItems[0].Operation != operation {",
  "return ",
  "}",
  "if response.BatchItems[0].ResultStatus == RESULT_STATUS_SUCCESS {",
  "return ",
  "}",
  "return "
]

def skel_DefaultClientTLSConfig : List String := [
  "set config.MinVersion"
]

def skel_DefaultServerTLSConfig : List String := [
  "set config.MinVersion",
  "set config.PreferServerCipherSuites",
  "set config.ClientAuth"
]

def skel_Server_Handle : List String := [
  "if s.handlers == nil {",
  "call s.initHandlers",
  "}",
  "set s.handlers[operation]"
]

def skel_Server_ListenAndServe : List String := [
  "if addr == \"\" {",
  "}",
  "call tls.Listen",
  "if err != nil {",
  "close initializedCh",
  "return err",
  "}",
  "call s.Serve",
  "return s.Serve(l, initializedCh)"
]

def skel_Server_Serve : List String := [
  "call s.mu.Lock",
  "set s.l",
  "if s.Log == nil {",
  "set s.Log",
  "}",
  "if len(s.SupportedVersions) == 0 {",
  "call []ProtocolVersion",
  "call append",
  "set s.SupportedVersions",
  "}",
  "if s.handlers == nil {",
  "call s.initHandlers",
  "}",
  "call s.mu.Unlock",
  "close initializedCh",
  "defer{",
  "call l.Close",
  "}",
  "for  {",
  "call l.Accept",
  "if err != nil {",
  "select {",
  "call s.getDoneChan",
  "case recv s.getDoneChan():",
  "return nil",
  "default:",
  "}",
  "assert net.Error",
  "call netErr.Temporary",
  "if ok && netErr.Temporary() {",
  "if tempDelay == 0 {",
  "} else {",
  "}",
  "if tempDelay > max {",
  "}",
  "call time.Sleep",
  "continue",
  "}",
  "return err",
  "}",
  "call s.mu.Lock",
  "select {",
  "case recv s.doneChan:",
  "call s.mu.Unlock",
  "call conn.Close",
  "return nil",
  "default:",
  "}",
  "call s.wg.Add",
  "call s.mu.Unlock",
  "go{",
  "call s.serve",
  "}",
  "}"
]

def skel_Server_Shutdown : List String := [
  "call s.getDoneChan",
  "close s.getDoneChan()",
  "call s.mu.Lock",
  "if s.l != nil {",
  "call s.l.Close",
  "set s.l",
  "}",
  "call s.mu.Unlock",
  "go{",
  "funclit{",
  "call s.wg.Wait",
  "close waitGroupDone",
  "}",
  "call funclit",
  "}",
  "select {",
  "call ctx.Done",
  "case recv ctx.Done():",
  "call ctx.Err",
  "return ctx.Err()",
  "case recv waitGroupDone:",
  "return nil",
  "}"
]

def skel_Server_getDoneChan : List String := [
  "call s.mu.Lock",
  "defer{",
  "call s.mu.Unlock",
  "}",
  "if s.doneChan == nil {",
  "set s.doneChan",
  "}",
  "return s.doneChan"
]

def skel_Server_handleBatch : List String := [
  "if int(req.Header.BatchCount) != len(req.BatchItems) {",
  "return ",
  "}",
  "if req.Header.AsynchronousIndicator {",
  "return ",
  "}",
  "if req.Header.Authentication.CredentialType != 0 {",
  "if s.RequestAuthHandler == nil {",
  "return ",
  "}",
  "call s.RequestAuthHandler",
  "set requestCtx.RequestAuth",
  "if err != nil {",
  "return ",
  "}",
  "}",
  "range req.BatchItems {",
  "set resp.BatchItems[i].Operation",
  "call []byte",
  "call append",
  "set resp.BatchItems[i].UniqueID",
  "call s.handleWrapped",
  "if batchErr != nil {",
  "set resp.BatchItems[i].ResultStatus",
  "set resp.BatchItems[i].ResultMessage",
  "assert Error",
  "if ok {",
  "set resp.BatchItems[i].ResultReason",
  "} else {",
  "set resp.BatchItems[i].ResultReason",
  "}",
  "} else {",
  "set resp.BatchItems[i].ResultStatus",
  "set resp.BatchItems[i].ResponsePayload",
  "}",
  "}",
  "return "
]

def skel_Server_handleDiscoverVersions : List String := [
  "assert DiscoverVersionsRequest",
  "if !ok {",
  "return ",
  "}",
  "if len(request.ProtocolVersions) == 0 {",
  "call []ProtocolVersion",
  "call append",
  "} else {",
  "range request.ProtocolVersions {",
  "range s.SupportedVersions {",
  "if version == v {",
  "call append",
  "break",
  "}",
  "}",
  "}",
  "}",
  "return "
]

def skel_Server_handleWrapped : List String := [
  "defer{",
  "funclit{",
  "recover",
  "if p != nil || !finished {",
  "}",
  "}",
  "call funclit",
  "}",
  "if handler == nil {",
  "return ",
  "}",
  "call handler",
  "if err != nil {",
  "assert Error",
  "if ok {",
  "}",
  "call err.Error",
  "}",
  "return "
]

def skel_Server_initHandlers : List String := [
  "set s.handlers",
  "set s.handlers[OPERATION_DISCOVER_VERSIONS]"
]

def skel_Server_serve : List String := [
  "defer{",
  "call s.wg.Done",
  "}",
  "defer{",
  "funclit{",
  "call conn.RemoteAddr().String",
  "call conn.Close",
  "}",
  "call funclit",
  "}",
  "call conn.RemoteAddr().String",
  "assert *tls.Conn",
  "if ok {",
  "if s.ReadTimeout != 0 {",
  "call time.Now().Add",
  "call conn.SetReadDeadline",
  "}",
  "if s.WriteTimeout != 0 {",
  "call time.Now().Add",
  "call conn.SetWriteDeadline",
  "}",
  "call tlsConn.Handshake",
  "if err != nil {",
  "return ",
  "}",
  "}",
  "call s.mu.Lock",
  "call s.mu.Unlock",
  "if sessionAuthHandler != nil {",
  "call sessionAuthHandler",
  "set sessionCtx.SessionAuth",
  "if err != nil {",
  "return ",
  "}",
  "}",
  "call NewDecoder",
  "call NewEncoder",
  "for  {",
  "if s.ReadTimeout != 0 {",
  "call time.Now().Add",
  "call conn.SetReadDeadline",
  "}",
  "call d.Decode",
  "if err == io.EOF {",
  "break",
  "}",
  "if err != nil {",
  "break",
  "}",
  "call s.handleBatch",
  "if err != nil {",
  "break",
  "}",
  "if s.WriteTimeout != 0 {",
  "call time.Now().Add",
  "call conn.SetWriteDeadline",
  "}",
  "call e.Encode",
  "if err != nil {",
  "break",
  "}",
  "}"
]

def skeletonNames : List String := ["Client.Close", "Client.Connect", "Client.DiscoverVersions", "Client.Send", "DefaultClientTLSConfig", "DefaultServerTLSConfig", "Server.Handle", "Server.ListenAndServe", "Server.Serve", "Server.Shutdown", "Server.getDoneChan", "Server.handleBatch", "Server.handleDiscoverVersions", "Server.handleWrapped", "Server.initHandlers", "Server.serve"]

end Kmip.ExpectSkel
