import KmipModel.Basic
/-
  A small trace semantics for the Go memory model fragment the library uses: one mutex (`s.mu`), goroutine creation,
  reads and writes of shared locations.  A trace is the global order in which the events happened; happens-before
  is program order, unlock → later lock, and `go` statement → every event of the new goroutine, closed transitively.
  `C12_discipline_sound` (KmipProps/C12.lean): locations accessed only with the mutex held, and locations written only
  before any goroutine is forked, are never involved in a data race.
-/
namespace Kmip.Sync

inductive Op where
  | acq                      -- mu.Lock()
  | rel                      -- mu.Unlock()
  | rd (loc : Nat)
  | wr (loc : Nat)
  | fork (child : Nat)       -- `go f()`: creates goroutine `child`
  deriving DecidableEq, Repr

structure Ev where
  tid : Nat
  op : Op
  deriving DecidableEq, Repr

abbrev Trace := List Ev

/-- who holds the mutex after executing the events of `tr` (processed left to right) from holder `h` -/
def holderAfter (h : Option Nat) : Trace → Option Nat
  | [] => h
  | e :: rest =>
    match e.op with
    | .acq => holderAfter (some e.tid) rest
    | .rel => holderAfter none rest
    | _ => holderAfter h rest

/-- the trace respects the mutex: Lock only when free, Unlock only by the holder -/
def LockOK (h : Option Nat) : Trace → Prop
  | [] => True
  | e :: rest =>
    match e.op with
    | .acq => h = none ∧ LockOK (some e.tid) rest
    | .rel => h = some e.tid ∧ LockOK none rest
    | _ => LockOK h rest

/-- happens-before between positions of a trace -/
inductive HB (tr : Trace) : Nat → Nat → Prop where
  | po (i j : Nat) (ei ej : Ev) : i < j → tr[i]? = some ei → tr[j]? = some ej → ei.tid = ej.tid → HB tr i j
  | sync (i j : Nat) (ei ej : Ev) : i < j → tr[i]? = some ei → tr[j]? = some ej → ei.op = .rel → ej.op = .acq → HB tr i j
  | fork (i j : Nat) (ei ej : Ev) (c : Nat) : i < j → tr[i]? = some ei → tr[j]? = some ej → ei.op = .fork c → ej.tid = c → HB tr i j
  | trans (i j k : Nat) : HB tr i j → HB tr j k → HB tr i k

def Op.accesses (o : Op) (loc : Nat) : Bool :=
  match o with
  | .rd l => l == loc
  | .wr l => l == loc
  | _ => false

def Op.writes (o : Op) (loc : Nat) : Bool :=
  match o with
  | .wr l => l == loc
  | _ => false

/-- a data race on `loc`: two accesses by different goroutines, at least one a write, unordered by happens-before -/
def Race (tr : Trace) (loc : Nat) : Prop :=
  ∃ i j ei ej, i < j ∧ tr[i]? = some ei ∧ tr[j]? = some ej ∧ ei.tid ≠ ej.tid ∧
    ei.op.accesses loc = true ∧ ej.op.accesses loc = true ∧ (ei.op.writes loc = true ∨ ej.op.writes loc = true) ∧ ¬ HB tr i j

/-- the access at position `i` is made with the mutex held by the accessing goroutine -/
def Protected (tr : Trace) (i : Nat) : Prop :=
  ∃ e, tr[i]? = some e ∧ holderAfter none (tr.take i) = some e.tid

end Kmip.Sync
