import KmipModel.Value
/-
  The specification side of C02/C04: TTLV item trees, the independent serializer, and the canonical
  tree of a value.  Nothing here mirrors Go control flow; it is the KMIP encoding rule stated outright.
-/
namespace Kmip

/-- a TTLV item: a primitive carries its unpadded payload, a structure its children -/
inductive Item where
  | prim (tag ty : Nat) (payload : Bytes)
  | struct (tag : Nat) (kids : List Item)
  deriving Repr

/-- 3-byte big-endian tag, 1-byte type, 4-byte big-endian length -/
def header (tag ty len : Nat) : Bytes :=
  be 3 tag ++ (UInt8.ofNat ty :: be 4 len)

mutual
  /-- the KMIP TTLV encoding of an item tree -/
  def Item.ser : Item → Bytes
    | .prim tag ty payload => header tag ty payload.length ++ (payload ++ zeros (padLen payload.length))
    | .struct tag kids =>
      let body := Item.serList kids
      header tag structCode body.length ++ body
  def Item.serList : List Item → Bytes
    | [] => []
    | i :: is => i.ser ++ Item.serList is
end

/-! ### payload of each primitive -/

/-- `uint32(d / time.Second)` for a `time.Duration` of `ns` nanoseconds (Go division truncates toward zero) -/
def intervalSecs (ns : Int) : Nat := ((Int.tdiv ns 1000000000) % (two32 : Int)).toNat

def Val.isPrim : Val → Bool
  | .struct _ => false
  | _ => true

/-- unpadded payload bytes and type code of a primitive value (`none` for structures) -/
def primPayload : Val → Option (Nat × Bytes)
  | .int n => some (2, be 4 n)
  | .long n => some (3, be 8 n)
  | .enum n => some (5, be 4 n)
  | .bool b => some (6, zeros 7 ++ [if b then 1 else 0])
  | .text b => some (7, b)
  | .bytes b => some (8, b)
  | .time n => some (9, be 8 n)
  | .interval ns => some (10, be 4 (intervalSecs ns))
  | .struct _ => none

mutual
  /-- "zero" in the Go sense, stated on model values: what an optional field must be to be left out.
      A structure is zero when all its fields that take part in encoding are (fields annotated `skip`
      or carrying the any-tag marker never count). -/
  def specZero (ty : FTy) : Val → Bool
    | .int n => n == 0
    | .long n => n == 0
    | .enum n => n == 0
    | .bool b => !b
    | .bytes b => b.isEmpty
    | .text b => b.isEmpty
    | .time n => n == zeroTimeU
    | .interval ns => ns == 0
    | .struct fs =>
      match ty with
      | .struct sd => specZeroFlds sd.fields fs
      | .prim _ => true
      | .dyn _ _ => true
      | .unsupported => true
  def specZeroFlds : List Fld → List FV → Bool
    | [], _ => true
    | _ :: _, [] => true
    | f :: fs, v :: vs => (f.skip || f.tag == anyTag || specZeroFV f v) && specZeroFlds fs vs
  def specZeroFV (f : Fld) : FV → Bool
    | .one v => specZero f.ty v
    | .many vs => vs.isEmpty
    | .dyn .nil => true
    | .dyn (.val _ _ _) => false
    | .dyn (.bad _) => false
    | .skip nn => !nn
end

mutual
  /-- canonical item of a value written under `tag` -/
  def canonVal (tag : Nat) (ty : FTy) : Val → Item
    | .int n => .prim tag 2 (be 4 n)
    | .long n => .prim tag 3 (be 8 n)
    | .enum n => .prim tag 5 (be 4 n)
    | .bool b => .prim tag 6 (zeros 7 ++ [if b then 1 else 0])
    | .text b => .prim tag 7 b
    | .bytes b => .prim tag 8 b
    | .time n => .prim tag 9 (be 8 n)
    | .interval ns => .prim tag 10 (be 4 (intervalSecs ns))
    | .struct fs =>
      match ty with
      | .struct sd => .struct tag (canonFlds sd.fields fs)
      | .prim _ => .struct tag []
      | .dyn _ _ => .struct tag []
      | .unsupported => .struct tag []
  /-- children of a structure: fields in declaration order; required always, optional iff non-zero,
      sequences element by element, skipped fields never -/
  def canonFlds : List Fld → List FV → List Item
    | [], _ => []
    | _ :: _, [] => []
    | f :: fs, v :: vs => canonFV f v ++ canonFlds fs vs
  def canonFV (f : Fld) : FV → List Item
    | .one v =>
      if f.skip || f.tag == anyTag then []
      else if !f.required && specZero f.ty v then []
      else [canonVal f.tag f.ty v]
    | .many vs => if f.skip || f.tag == anyTag then [] else canonMany f.tag f.ty vs
    | .dyn d => if f.skip || f.tag == anyTag then [] else canonDyn f.tag d
    | .skip _ => []
  def canonMany (tag : Nat) (ty : FTy) : List Val → List Item
    | [] => []
    | v :: vs => canonVal tag ty v :: canonMany tag ty vs
  /-- a dynamically typed value is written under the holding field's tag with its own type -/
  def canonDyn (tag : Nat) : DynV → List Item
    | .nil => []
    | .val _ ty v => [canonVal tag ty v]
    | .bad _ => []
end

/-- canonical tree of a top-level struct value -/
def canonTop (sd : SD) (v : Val) : Item := canonVal sd.tag (.struct sd) v

end Kmip
