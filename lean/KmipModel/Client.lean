import KmipModel.Decode
/-
  Model of client.go: `Client.Send` and `Client.DiscoverVersions`, on top of the decode model.
  A reply is whatever `Decode(&Response{})` yields on the bytes the peer sent (possibly cut off).
-/
namespace Kmip.Client

/-- the parts of a decoded Response that Send looks at -/
structure ItemView where
  op : Nat
  status : Nat
  reason : Nat
  msg : Bytes
  payload : DynV

structure RespView where
  batchCount : Nat
  items : List ItemView

/-- positions (in descriptor order) of the fields Send reads; GenC14 proves them against the generated schema -/
def posHeader : Nat := 0
def posBatchItems : Nat := 1
def posBatchCount : Nat := 6
def posOperation : Nat := 0
def posResultStatus : Nat := 2
def posResultReason : Nat := 3
def posResultMessage : Nat := 4
def posResponsePayload : Nat := 6

def itemView : Val → Option ItemView
  | .struct fs =>
    match fs[posOperation]?, fs[posResultStatus]?, fs[posResultReason]?, fs[posResultMessage]?, fs[posResponsePayload]? with
    | some (.one (.enum op)), some (.one (.enum st)), some (.one (.enum rs)), some (.one (.text m)), some (.dyn p) =>
      some { op := op, status := st, reason := rs, msg := m, payload := p }
    | _, _, _, _, _ => none
  | _ => none

def respView : Val → Option RespView
  | .struct fs =>
    match fs[posHeader]?, fs[posBatchItems]? with
    | some (.one (.struct hs)), some (.many items) =>
      match hs[posBatchCount]? with
      | some (.one (.int bc)) => (items.mapM itemView).map fun is => { batchCount := bc, items := is }
      | _ => none
    | _, _ => none
  | _ => none

inductive SendResult where
  | payload (p : DynV)                     -- (resp, nil)
  | failure (reason : Nat) (msg : Bytes)   -- an error carrying the server's result reason and message
  | error                                  -- any other error

def statusSuccess : Nat := 0

/-- `Client.Send(operation, req)`: `connected` = c.conn ≠ nil; `encoded` = whether Encode of the request succeeded;
    `reply` = the outcome of Decode(&response) -/
def send (connected : Bool) (encoded : Bool) (op : Nat) (reply : Option RespView) : SendResult :=
  if !connected then .error
  else if !encoded then .error
  else match reply with
    | none => .error
    | some r =>
      if r.batchCount ≠ 1 then .error
      else match r.items with
        | [it] =>
          if it.op ≠ op then .error
          else if it.status = statusSuccess then .payload it.payload
          else .failure it.reason it.msg
        | [] => .error
        | _ :: _ :: _ => .error

/-- `Client.DiscoverVersions`: Send, then a CHECKED type assertion to DiscoverVersionsResponse.
    `isDV` tells whether a payload is a (non-pointer) DiscoverVersionsResponse value -/
def discoverVersions (isDV : DynV → Bool) (r : SendResult) : SendResult :=
  match r with
  | .payload p => if isDV p then .payload p else .error
  | .failure a b => .failure a b
  | .error => .error

end Kmip.Client
