import KmipModel.Decode
/-
  Model of client.go: `Client.Send` and `Client.DiscoverVersions`, on top of the decode model.
  A reply is whatever `Decode(&Response{})` yields on the bytes the peer sent (possibly cut off).
-/
namespace Kmip.Client

/-- the parts of a decoded Response that Send looks at -/
structure ItemView where
  op : Nat
  status : Nat
  reason : Nat
  msg : Bytes
  payload : DynV

structure RespView where
  batchCount : Nat
  items : List ItemView

/-- positions (in descriptor order) of the fields Send reads; GenC14 proves them against the generated schema -/
def posHeader : Nat := 0
def posBatchItems : Nat := 1
def posBatchCount : Nat := 6
def posOperation : Nat := 0
def posResultStatus : Nat := 2
def posResultReason : Nat := 3
def posResultMessage : Nat := 4
def posResponsePayload : Nat := 6

def itemView : Val → Option ItemView
  | .struct fs =>
    match fs[posOperation]?, fs[posResultStatus]?, fs[posResultReason]?, fs[posResultMessage]?, fs[posResponsePayload]? with
    | some (.one (.enum op)), some (.one (.enum st)), some (.one (.enum rs)), some (.one (.text m)), some (.dyn p) =>
      some { op := op, status := st, reason := rs, msg := m, payload := p }
    | _, _, _, _, _ => none
  | _ => none

def respView : Val → Option RespView
  | .struct fs =>
    match fs[posHeader]?, fs[posBatchItems]? with
    | some (.one (.struct hs)), some (.many items) =>
      match hs[posBatchCount]? with
      | some (.one (.int bc)) => (items.mapM itemView).map fun is => { batchCount := bc, items := is }
      | _ => none
    | _, _ => none
  | _ => none

inductive SendResult where
  | payload (p : DynV)                     -- (resp, nil)
  | failure (reason : Nat) (msg : Bytes)   -- an error carrying the server's result reason and message
  | error                                  -- any other error

def statusSuccess : Nat := 0

/-- `Client.Send(operation, req)`: `connected` = c.conn ≠ nil; `encoded` = whether Encode of the request succeeded;
    `reply` = the outcome of Decode(&response) -/
def send (connected : Bool) (encoded : Bool) (op : Nat) (reply : Option RespView) : SendResult :=
  if !connected then .error
  else if !encoded then .error
  else match reply with
    | none => .error
    | some r =>
      if r.batchCount ≠ 1 then .error
      else match r.items with
        | [it] =>
          if it.op ≠ op then .error
          else if it.status = statusSuccess then .payload it.payload
          else .failure it.reason it.msg
        | [] => .error
        | _ :: _ :: _ => .error

/-- `Client.DiscoverVersions`: Send, then a CHECKED type assertion to DiscoverVersionsResponse.
    `isDV` tells whether a payload is a (non-pointer) DiscoverVersionsResponse value -/
def discoverVersions (isDV : DynV → Bool) (r : SendResult) : SendResult :=
  match r with
  | .payload p => if isDV p then .payload p else .error
  | .failure a b => .failure a b
  | .error => .error

/-! ### connection state of a Client (client.go: the fields `conn`, `e`, `d`) -/

/-- `conn` = `c.conn != nil`; `codec` = `c.e` / `c.d` have been created (they are only ever created, never reset) -/
structure CState where
  conn : Bool
  codec : Bool
  deriving DecidableEq, Repr

def CState.fresh : CState := ⟨false, false⟩

/-- what a caller can do with a Client -/
inductive COp where
  /-- `Connect()`: `reached` = tls.Dial (TCP connect AND TLS handshake) succeeded -/
  | connect (reached : Bool)
  | close
  /-- `Send(...)` / `DiscoverVersions(...)` -/
  | send
  deriving DecidableEq, Repr

/-- observable result of an operation -/
inductive COut where
  | ok            -- nil error (for send: the exchange was attempted on an established connection)
  | err           -- an error was returned
  | panic         -- nil pointer dereference (c.e.Encode on a nil Encoder)
  deriving DecidableEq, Repr

/-- `c.conn, err = tls.Dial(...)` assigns nil on failure; the codec is created only after a successful dial;
    `Close` is a no-op on a nil conn and otherwise resets `conn` (its own error, if any, is the transport's);
    `Send` refuses when `conn == nil` and otherwise uses `c.e` -/
def cstep (s : CState) : COp → CState × COut
  | .connect true => (⟨true, true⟩, .ok)
  | .connect false => (⟨false, s.codec⟩, .err)
  | .close => (⟨false, s.codec⟩, .ok)
  | .send => if !s.conn then (s, .err) else if !s.codec then (s, .panic) else (s, .ok)

def crun : CState → List COp → CState × List COut
  | s, [] => (s, [])
  | s, op :: ops =>
    let (s', o) := cstep s op
    let (s'', os) := crun s' ops
    (s'', o :: os)

end Kmip.Client
