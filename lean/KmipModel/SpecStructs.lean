/-
  KMIP 1.4 structure definitions for the structures modelled by the Go package, transcribed by hand from the
  specification (independent of the package's struct annotations).  Written from memory of KMIP 1.4 sections
  2 (Objects), 3 (Attributes), 4 (Client-to-Server Operations), 6 (Message Contents), 7 (Message Format);
  tag names are spelled as in Registry.tags.

  UNCERTAIN:
  * CredentialUsernamePassword: I take the type to model the *contents of* the Credential Value structure for
    Credential Type = Username and Password (2.1.2: Credential Value is a Structure holding Username, Password), so
    its struct tag is given as "Credential Value" and the container of Username/Password as "Credential Value".
    If the package instead uses the type as a free-standing value with no tag of its own, the `structs` entry
    would be "" - the `fields` entries would not change.
  * Every field whose Go type is kmip.Attributes (GetAttributesResponse.Attributes, KeyValue.Attributes,
    LocateRequest.Attributes, TemplateAttribute.Attributes): KMIP 1.4 has NO "Attributes" wrapper structure (that
    is KMIP 2.0); the items are repeated "Attribute" structures placed directly in the containing structure.
    I assume kmip.Attributes is a plain slice of Attribute.  If it is encoded as a wrapping structure, that is a
    nesting deviation that cannot be seen from the field lists alone.
  * KeyValue.KeyMaterial: 2.1.4 says Key Material is a Byte String for Raw/Opaque/PKCS1/PKCS8/X509/ECPrivateKey
    formats and a Structure for the Transparent* formats; and Key Value itself is a Byte String (not a structure)
    when the key is wrapped and the Encoding Option is absent / "TTLV Encoding".  Tag name is "Key Material" either way.
  * GetResponse / RegisterRequest object fields: the spec has one item "Object" (one of Certificate, Symmetric
    Key, Private Key, Public Key, Split Key, Template, Secret Data, Opaque Object, PGP Key) on the wire under the
    object's own tag; the package models three of the alternatives, each under its own tag.
  * QueryResponse: Operation*, Object Type*, Vendor Identification are the first three items of the 1.4 Query
    response payload (followed by Server Information, Application Namespace*, Extension Information*, Attestation
    Type*, RNG Parameters*, Profile Information*, Validation Information*, Capability Information*, Client
    Registration Method*).  Sure of the tag names; the package omits the rest.
  * SignRequest: 1.4 also has Digested Data after Data (omitted by the package); SignResponse is
    Unique Identifier, Signature Data, Correlation Value.
  * ReKeyRequest / ReKeyResponse: spec also has Offset + Template-Attribute (request) and Template-Attribute
    (response); only Unique Identifier is modelled.
  * Name inside Template-Attribute: the spec's Template-Attribute holds "Name" structures (tag Name, 0x420053;
    containing Name Value + Name Type) 0..n times (deprecated in 1.3+), followed by Attribute 0..n; the Go field is a
    single kmip.Name (multiplicity differs, tag does not).
  * Order of items within the 1.4 Request Header (Protocol Version, Maximum Response Size, Client Correlation
    Value, Server Correlation Value, Asynchronous Indicator, Attestation Capable Indicator, Attestation Type*,
    Authentication, Batch Error Continuation Option, Batch Order Option, Time Stamp, Batch Count) and Response
    Header (Protocol Version, Time Stamp, Nonce, Attestation Type*, Client Correlation Value, Server Correlation
    Value, Batch Count): fairly sure, from memory.  Order is not encoded in this table in any case beyond the
    input order.
  * Cryptographic Parameters tag 0x420083 is named "Key Role Type" here (its 1.1+ name; "Role Type" in 1.0), as in
    Registry.tags.
-/
namespace Kmip.SpecStructs

/-- (Go type, Go field, KMIP 1.4 tag name the field is put on the wire under (spelled exactly as in Registry.tags),
     name of the KMIP structure that directly contains that item per the spec) -/
def fields : List (String × String × String × String) := [
  -- Activate (4.19)
  ("ActivateRequest", "UniqueIdentifier", "Unique Identifier", "Request Payload"),
  ("ActivateResponse", "UniqueIdentifier", "Unique Identifier", "Response Payload"),
  -- Attribute (2.1.1)
  ("Attribute", "Name", "Attribute Name", "Attribute"),
  ("Attribute", "Index", "Attribute Index", "Attribute"),
  ("Attribute", "Value", "Attribute Value", "Attribute"),
  -- Authentication (6.6) contains Credential (2.1.2), which contains Credential Type and Credential Value
  ("Authentication", "CredentialType", "Credential Type", "Credential"),
  ("Authentication", "CredentialValue", "Credential Value", "Credential"),
  -- Create Key Pair (4.2)
  ("CreateKeyPairRequest", "CommonTemplateAttribute", "Common Template-Attribute", "Request Payload"),
  ("CreateKeyPairRequest", "PrivateKeyTemplateAttribute", "Private Key Template-Attribute", "Request Payload"),
  ("CreateKeyPairRequest", "PublicKeyTemplateAttribute", "Public Key Template-Attribute", "Request Payload"),
  ("CreateKeyPairResponse", "PrivateKeyUniqueIdentifier", "Private Key Unique Identifier", "Response Payload"),
  ("CreateKeyPairResponse", "PublicKeyUniqueIdentifier", "Public Key Unique Identifier", "Response Payload"),
  ("CreateKeyPairResponse", "PrivateKeyTemplateAttribute", "Private Key Template-Attribute", "Response Payload"),
  ("CreateKeyPairResponse", "PublicKeyTemplateAttribute", "Public Key Template-Attribute", "Response Payload"),
  -- Create (4.1)
  ("CreateRequest", "ObjectType", "Object Type", "Request Payload"),
  ("CreateRequest", "TemplateAttribute", "Template-Attribute", "Request Payload"),
  ("CreateResponse", "ObjectType", "Object Type", "Response Payload"),
  ("CreateResponse", "UniqueIdentifier", "Unique Identifier", "Response Payload"),
  ("CreateResponse", "TemplateAttribute", "Template-Attribute", "Response Payload"),
  -- Credential Value for Credential Type = Username and Password (2.1.2)
  ("CredentialUsernamePassword", "Username", "Username", "Credential Value"),
  ("CredentialUsernamePassword", "Password", "Password", "Credential Value"),
  -- Cryptographic Parameters (3.6)
  ("CryptoParams", "BlockCipherMode", "Block Cipher Mode", "Cryptographic Parameters"),
  ("CryptoParams", "PaddingMethod", "Padding Method", "Cryptographic Parameters"),
  ("CryptoParams", "HashingAlgorithm", "Hashing Algorithm", "Cryptographic Parameters"),
  ("CryptoParams", "KeyRoleType", "Key Role Type", "Cryptographic Parameters"),
  ("CryptoParams", "DigitalSignatureAlgorithm", "Digital Signature Algorithm", "Cryptographic Parameters"),
  ("CryptoParams", "CryptographicAlgorithm", "Cryptographic Algorithm", "Cryptographic Parameters"),
  ("CryptoParams", "RandomIV", "Random IV", "Cryptographic Parameters"),
  ("CryptoParams", "IVLength", "IV Length", "Cryptographic Parameters"),
  ("CryptoParams", "TagLength", "Tag Length", "Cryptographic Parameters"),
  ("CryptoParams", "FixedFieldLength", "Fixed Field Length", "Cryptographic Parameters"),
  ("CryptoParams", "InvocationFieldLength", "Invocation Field Length", "Cryptographic Parameters"),
  ("CryptoParams", "CounterLength", "Counter Length", "Cryptographic Parameters"),
  ("CryptoParams", "InitialCounterValue", "Initial Counter Value", "Cryptographic Parameters"),
  ("CryptoParams", "SaltLength", "Salt Length", "Cryptographic Parameters"),
  ("CryptoParams", "MaskGenerator", "Mask Generator", "Cryptographic Parameters"),
  ("CryptoParams", "MaskGeneratorHashingAlgorithm", "Mask Generator Hashing Algorithm", "Cryptographic Parameters"),
  ("CryptoParams", "PSource", "P Source", "Cryptographic Parameters"),
  ("CryptoParams", "TrailerFIeld", "Trailer Field", "Cryptographic Parameters"),
  -- Decrypt (4.30)
  ("DecryptRequest", "UniqueIdentifier", "Unique Identifier", "Request Payload"),
  ("DecryptRequest", "CryptoParams", "Cryptographic Parameters", "Request Payload"),
  ("DecryptRequest", "Data", "Data", "Request Payload"),
  ("DecryptRequest", "IVCounterNonce", "IV/Counter/Nonce", "Request Payload"),
  ("DecryptRequest", "CorrelationValue", "Correlation Value", "Request Payload"),
  ("DecryptRequest", "InitIndicator", "Init Indicator", "Request Payload"),
  ("DecryptRequest", "FinalIndicator", "Final Indicator", "Request Payload"),
  ("DecryptRequest", "AdditionalData", "Authenticated Encryption Additional Data", "Request Payload"),
  ("DecryptRequest", "AuthTag", "Authenticated Encryption Tag", "Request Payload"),
  ("DecryptResponse", "UniqueIdentifier", "Unique Identifier", "Response Payload"),
  ("DecryptResponse", "Data", "Data", "Response Payload"),
  ("DecryptResponse", "CorrelationValue", "Correlation Value", "Response Payload"),
  -- Destroy (4.21)
  ("DestroyRequest", "UniqueIdentifier", "Unique Identifier", "Request Payload"),
  ("DestroyResponse", "UniqueIdentifier", "Unique Identifier", "Response Payload"),
  -- Digest (3.17)
  ("Digest", "HashingAlgorithm", "Hashing Algorithm", "Digest"),
  ("Digest", "DigestValue", "Digest Value", "Digest"),
  ("Digest", "KeyFormatType", "Key Format Type", "Digest"),
  -- Discover Versions (4.26)
  ("DiscoverVersionsRequest", "ProtocolVersions", "Protocol Version", "Request Payload"),
  ("DiscoverVersionsResponse", "ProtocolVersions", "Protocol Version", "Response Payload"),
  -- Encrypt (4.29)
  ("EncryptRequest", "UniqueIdentifier", "Unique Identifier", "Request Payload"),
  ("EncryptRequest", "CryptoParams", "Cryptographic Parameters", "Request Payload"),
  ("EncryptRequest", "Data", "Data", "Request Payload"),
  ("EncryptRequest", "IVCounterNonce", "IV/Counter/Nonce", "Request Payload"),
  ("EncryptRequest", "CorrelationValue", "Correlation Value", "Request Payload"),
  ("EncryptRequest", "InitIndicator", "Init Indicator", "Request Payload"),
  ("EncryptRequest", "FinalIndicator", "Final Indicator", "Request Payload"),
  ("EncryptRequest", "AdditionalData", "Authenticated Encryption Additional Data", "Request Payload"),
  ("EncryptResponse", "UniqueIdentifier", "Unique Identifier", "Response Payload"),
  ("EncryptResponse", "Data", "Data", "Response Payload"),
  ("EncryptResponse", "IVCounterNonce", "IV/Counter/Nonce", "Response Payload"),
  ("EncryptResponse", "CorrelationValue", "Correlation Value", "Response Payload"),
  ("EncryptResponse", "AuthTag", "Authenticated Encryption Tag", "Response Payload"),
  -- Encryption Key Information (2.1.5)
  ("EncryptionKeyInformation", "UniqueIdentifier", "Unique Identifier", "Encryption Key Information"),
  ("EncryptionKeyInformation", "CryptoParams", "Cryptographic Parameters", "Encryption Key Information"),
  -- Get Attribute List (4.13)
  ("GetAttributeListRequest", "UniqueIdentifier", "Unique Identifier", "Request Payload"),
  ("GetAttributeListResponse", "UniqueIdentifier", "Unique Identifier", "Response Payload"),
  ("GetAttributeListResponse", "AttributeNames", "Attribute Name", "Response Payload"),
  -- Get Attributes (4.12)
  ("GetAttributesRequest", "UniqueIdentifier", "Unique Identifier", "Request Payload"),
  ("GetAttributesRequest", "AttributeNames", "Attribute Name", "Request Payload"),
  ("GetAttributesResponse", "UniqueIdentifier", "Unique Identifier", "Response Payload"),
  ("GetAttributesResponse", "Attributes", "Attribute", "Response Payload"),
  -- Get (4.11)
  ("GetRequest", "UniqueIdentifier", "Unique Identifier", "Request Payload"),
  ("GetRequest", "KeyFormatType", "Key Format Type", "Request Payload"),
  ("GetRequest", "KeyWrapType", "Key Wrap Type", "Request Payload"),
  ("GetRequest", "KeyCompressionType", "Key Compression Type", "Request Payload"),
  ("GetRequest", "KeyWrappingSpec", "Key Wrapping Specification", "Request Payload"),
  ("GetResponse", "ObjectType", "Object Type", "Response Payload"),
  ("GetResponse", "UniqueIdentifier", "Unique Identifier", "Response Payload"),
  ("GetResponse", "SymmetricKey", "Symmetric Key", "Response Payload"),
  ("GetResponse", "PrivateKey", "Private Key", "Response Payload"),
  ("GetResponse", "PublicKey", "Public Key", "Response Payload"),
  -- Key Block (2.1.3)
  ("KeyBlock", "FormatType", "Key Format Type", "Key Block"),
  ("KeyBlock", "CompressionType", "Key Compression Type", "Key Block"),
  ("KeyBlock", "Value", "Key Value", "Key Block"),
  ("KeyBlock", "CryptographicAlgorithm", "Cryptographic Algorithm", "Key Block"),
  ("KeyBlock", "CryptographicLength", "Cryptographic Length", "Key Block"),
  ("KeyBlock", "WrappingData", "Key Wrapping Data", "Key Block"),
  -- Key Value (2.1.4)
  ("KeyValue", "KeyMaterial", "Key Material", "Key Value"),
  ("KeyValue", "Attributes", "Attribute", "Key Value"),
  -- Key Wrapping Data (2.1.5)
  ("KeyWrappingData", "WrappingMethod", "Wrapping Method", "Key Wrapping Data"),
  ("KeyWrappingData", "EncryptionKeyInformation", "Encryption Key Information", "Key Wrapping Data"),
  ("KeyWrappingData", "MACSignatureKeyInformation", "MAC/Signature Key Information", "Key Wrapping Data"),
  ("KeyWrappingData", "MACSignature", "MAC/Signature", "Key Wrapping Data"),
  ("KeyWrappingData", "IVCounterNonce", "IV/Counter/Nonce", "Key Wrapping Data"),
  ("KeyWrappingData", "EncodingOption", "Encoding Option", "Key Wrapping Data"),
  -- Key Wrapping Specification (2.1.6)
  ("KeyWrappingSpecification", "WrappingMethod", "Wrapping Method", "Key Wrapping Specification"),
  ("KeyWrappingSpecification", "EncryptionKeyInformation", "Encryption Key Information", "Key Wrapping Specification"),
  ("KeyWrappingSpecification", "MACSignatureKeyInformation", "MAC/Signature Key Information", "Key Wrapping Specification"),
  ("KeyWrappingSpecification", "AttributeName", "Attribute Name", "Key Wrapping Specification"),
  ("KeyWrappingSpecification", "EncodingOption", "Encoding Option", "Key Wrapping Specification"),
  -- Locate (4.9)
  ("LocateRequest", "MaximumItems", "Maximum Items", "Request Payload"),
  ("LocateRequest", "OffsetItems", "Offset Items", "Request Payload"),
  ("LocateRequest", "StorageStatusMask", "Storage Status Mask", "Request Payload"),
  ("LocateRequest", "ObjectGroupMember", "Object Group Member", "Request Payload"),
  ("LocateRequest", "Attributes", "Attribute", "Request Payload"),
  ("LocateResponse", "LocatedItems", "Located Items", "Response Payload"),
  ("LocateResponse", "UniqueIdentifiers", "Unique Identifier", "Response Payload"),
  -- MAC/Signature Key Information (2.1.5)
  ("MACSignatureKeyInformation", "UniqueIdentifier", "Unique Identifier", "MAC/Signature Key Information"),
  ("MACSignatureKeyInformation", "CryptoParams", "Cryptographic Parameters", "MAC/Signature Key Information"),
  -- Message Extension (6.16)
  ("MessageExtension", "VendorIdentification", "Vendor Identification", "Message Extension"),
  ("MessageExtension", "CriticalityIndicator", "Criticality Indicator", "Message Extension"),
  ("MessageExtension", "VendorExtension", "Vendor Extension", "Message Extension"),
  -- Name (3.2)
  ("Name", "Value", "Name Value", "Name"),
  ("Name", "Type", "Name Type", "Name"),
  -- Nonce (2.1.14)
  ("Nonce", "NonceID", "Nonce ID", "Nonce"),
  ("Nonce", "NonceValue", "Nonce Value", "Nonce"),
  -- Private Key (2.2.4)
  ("PrivateKey", "KeyBlock", "Key Block", "Private Key"),
  -- Protocol Version (6.1)
  ("ProtocolVersion", "Major", "Protocol Version Major", "Protocol Version"),
  ("ProtocolVersion", "Minor", "Protocol Version Minor", "Protocol Version"),
  -- Public Key (2.2.3)
  ("PublicKey", "KeyBlock", "Key Block", "Public Key"),
  -- Query (4.25)
  ("QueryRequest", "QueryFunctions", "Query Function", "Request Payload"),
  ("QueryResponse", "Operations", "Operation", "Response Payload"),
  ("QueryResponse", "ObjectTypes", "Object Type", "Response Payload"),
  ("QueryResponse", "VendorIdentification", "Vendor Identification", "Response Payload"),
  -- Re-key (4.4)
  ("ReKeyRequest", "UniqueIdentifier", "Unique Identifier", "Request Payload"),
  ("ReKeyResponse", "UniqueIdentifier", "Unique Identifier", "Response Payload"),
  -- Register (4.3)
  ("RegisterRequest", "ObjectType", "Object Type", "Request Payload"),
  ("RegisterRequest", "TemplateAttribute", "Template-Attribute", "Request Payload"),
  ("RegisterRequest", "SymmetricKey", "Symmetric Key", "Request Payload"),
  ("RegisterRequest", "PrivateKey", "Private Key", "Request Payload"),
  ("RegisterRequest", "PublicKey", "Public Key", "Request Payload"),
  ("RegisterResponse", "UniqueIdentifier", "Unique Identifier", "Response Payload"),
  ("RegisterResponse", "TemplateAttribute", "Template-Attribute", "Response Payload"),
  -- Request Message (7.1)
  ("Request", "Header", "Request Header", "Request Message"),
  ("Request", "BatchItems", "Batch Item", "Request Message"),
  -- Request Batch Item (7.2)
  ("RequestBatchItem", "Operation", "Operation", "Batch Item"),
  ("RequestBatchItem", "UniqueID", "Unique Batch Item ID", "Batch Item"),
  ("RequestBatchItem", "RequestPayload", "Request Payload", "Batch Item"),
  ("RequestBatchItem", "MessageExtension", "Message Extension", "Batch Item"),
  -- Request Header (7.2)
  ("RequestHeader", "Version", "Protocol Version", "Request Header"),
  ("RequestHeader", "MaxResponseSize", "Maximum Response Size", "Request Header"),
  ("RequestHeader", "ClientCorrelationValue", "Client Correlation Value", "Request Header"),
  ("RequestHeader", "ServerCorrelationValue", "Server Correlation Value", "Request Header"),
  ("RequestHeader", "AsynchronousIndicator", "Asynchronous Indicator", "Request Header"),
  ("RequestHeader", "AttestationCapableIndicator", "Attestation Capable Indicator", "Request Header"),
  ("RequestHeader", "AttestationType", "Attestation Type", "Request Header"),
  ("RequestHeader", "Authentication", "Authentication", "Request Header"),
  ("RequestHeader", "BatchErrorContinuationOption", "Batch Error Continuation Option", "Request Header"),
  ("RequestHeader", "BatchOrderOption", "Batch Order Option", "Request Header"),
  ("RequestHeader", "TimeStamp", "Time Stamp", "Request Header"),
  ("RequestHeader", "BatchCount", "Batch Count", "Request Header"),
  -- Response Message (7.1)
  ("Response", "Header", "Response Header", "Response Message"),
  ("Response", "BatchItems", "Batch Item", "Response Message"),
  -- Response Batch Item (7.2)
  ("ResponseBatchItem", "Operation", "Operation", "Batch Item"),
  ("ResponseBatchItem", "UniqueID", "Unique Batch Item ID", "Batch Item"),
  ("ResponseBatchItem", "ResultStatus", "Result Status", "Batch Item"),
  ("ResponseBatchItem", "ResultReason", "Result Reason", "Batch Item"),
  ("ResponseBatchItem", "ResultMessage", "Result Message", "Batch Item"),
  ("ResponseBatchItem", "AsyncronousCorrelationValue", "Asynchronous Correlation Value", "Batch Item"),
  ("ResponseBatchItem", "ResponsePayload", "Response Payload", "Batch Item"),
  ("ResponseBatchItem", "MessageExtension", "Message Extension", "Batch Item"),
  -- Response Header (7.2)
  ("ResponseHeader", "Version", "Protocol Version", "Response Header"),
  ("ResponseHeader", "TimeStamp", "Time Stamp", "Response Header"),
  ("ResponseHeader", "Nonce", "Nonce", "Response Header"),
  ("ResponseHeader", "AttestationType", "Attestation Type", "Response Header"),
  ("ResponseHeader", "ClientCorrelationValue", "Client Correlation Value", "Response Header"),
  ("ResponseHeader", "ServerCorrelationValue", "Server Correlation Value", "Response Header"),
  ("ResponseHeader", "BatchCount", "Batch Count", "Response Header"),
  -- Revocation Reason (3.31)
  ("RevocationReason", "RevocationReasonCode", "Revocation Reason Code", "Revocation Reason"),
  ("RevocationReason", "RevocationMessage", "Revocation Message", "Revocation Reason"),
  -- Revoke (4.20)
  ("RevokeRequest", "UniqueIdentifier", "Unique Identifier", "Request Payload"),
  ("RevokeRequest", "RevocationReason", "Revocation Reason", "Request Payload"),
  ("RevokeRequest", "CompromiseDate", "Compromise Occurrence Date", "Request Payload"),
  ("RevokeResponse", "UniqueIdentifier", "Unique Identifier", "Response Payload"),
  -- Sign (4.31)
  ("SignRequest", "UniqueIdentifier", "Unique Identifier", "Request Payload"),
  ("SignRequest", "CryptoParams", "Cryptographic Parameters", "Request Payload"),
  ("SignRequest", "Data", "Data", "Request Payload"),
  ("SignRequest", "CorrelationValue", "Correlation Value", "Request Payload"),
  ("SignRequest", "InitIndicator", "Init Indicator", "Request Payload"),
  ("SignRequest", "FinalIndicator", "Final Indicator", "Request Payload"),
  ("SignResponse", "UniqueIdentifier", "Unique Identifier", "Response Payload"),
  ("SignResponse", "SignatureData", "Signature Data", "Response Payload"),
  ("SignResponse", "CorrelationValue", "Correlation Value", "Response Payload"),
  -- Symmetric Key (2.2.2)
  ("SymmetricKey", "KeyBlock", "Key Block", "Symmetric Key"),
  -- Template-Attribute (2.1.8)
  ("TemplateAttribute", "Name", "Name", "Template-Attribute"),
  ("TemplateAttribute", "Attributes", "Attribute", "Template-Attribute")
]

/-- (Go type, tag name of the KMIP structure the Go type models, or "" when the type is an operation payload, which is written
     under Request Payload / Response Payload by its holder) -/
def structs : List (String × String) := [
  ("ActivateRequest", ""),
  ("ActivateResponse", ""),
  ("Attribute", "Attribute"),
  ("Authentication", "Authentication"),
  ("CreateKeyPairRequest", ""),
  ("CreateKeyPairResponse", ""),
  ("CreateRequest", ""),
  ("CreateResponse", ""),
  ("CredentialUsernamePassword", "Credential Value"),
  ("CryptoParams", "Cryptographic Parameters"),
  ("DecryptRequest", ""),
  ("DecryptResponse", ""),
  ("DestroyRequest", ""),
  ("DestroyResponse", ""),
  ("Digest", "Digest"),
  ("DiscoverVersionsRequest", ""),
  ("DiscoverVersionsResponse", ""),
  ("EncryptRequest", ""),
  ("EncryptResponse", ""),
  ("EncryptionKeyInformation", "Encryption Key Information"),
  ("GetAttributeListRequest", ""),
  ("GetAttributeListResponse", ""),
  ("GetAttributesRequest", ""),
  ("GetAttributesResponse", ""),
  ("GetRequest", ""),
  ("GetResponse", ""),
  ("KeyBlock", "Key Block"),
  ("KeyValue", "Key Value"),
  ("KeyWrappingData", "Key Wrapping Data"),
  ("KeyWrappingSpecification", "Key Wrapping Specification"),
  ("LocateRequest", ""),
  ("LocateResponse", ""),
  ("MACSignatureKeyInformation", "MAC/Signature Key Information"),
  ("MessageExtension", "Message Extension"),
  ("Name", "Name"),
  ("Nonce", "Nonce"),
  ("PrivateKey", "Private Key"),
  ("ProtocolVersion", "Protocol Version"),
  ("PublicKey", "Public Key"),
  ("QueryRequest", ""),
  ("QueryResponse", ""),
  ("ReKeyRequest", ""),
  ("ReKeyResponse", ""),
  ("RegisterRequest", ""),
  ("RegisterResponse", ""),
  ("Request", "Request Message"),
  ("RequestBatchItem", "Batch Item"),
  ("RequestHeader", "Request Header"),
  ("Response", "Response Message"),
  ("ResponseBatchItem", "Batch Item"),
  ("ResponseHeader", "Response Header"),
  ("RevocationReason", "Revocation Reason"),
  ("RevokeRequest", ""),
  ("RevokeResponse", ""),
  ("SignRequest", ""),
  ("SignResponse", ""),
  ("SymmetricKey", "Symmetric Key"),
  ("TemplateAttribute", "Template-Attribute")
]

/-- nesting deviations you can see from the field lists alone: a Go type whose field list puts an item directly inside a structure
    where KMIP 1.4 requires an intermediate structure in between (or vice versa).
    (Go type, Go field, the structure the spec requires directly around that item) -/
def nestingNotes : List (String × String × String) := [
  -- 6.6: Authentication ::= Credential+ ; 2.1.2: Credential ::= Credential Type, Credential Value.
  -- The Go Authentication type holds Credential Type / Credential Value directly, with no Credential level (and hence
  -- also cannot carry the repeated Credential allowed since 1.2).
  ("Authentication", "CredentialType", "Credential"),
  ("Authentication", "CredentialValue", "Credential")
]

set_option maxRecDepth 8192 in
example : fields.length = 195 := by decide
example : structs.length = 58 := by decide

end Kmip.SpecStructs
