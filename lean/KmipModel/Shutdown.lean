import KmipModel.Basic
/-
  Labelled transition system for Serve ∥ Shutdown ∥ sessions ∥ context (server.go: Serve's registration of an accepted
  connection, Shutdown, serve's deferred Close/Done).  Each transition is one atomic action of the code (an action
  performed while holding `s.mu` is atomic with respect to every other action that needs `s.mu`); interleaving is
  arbitrary; the number of connections is unbounded.
-/
namespace Kmip.Shutdown

inductive ServePc where
  | notStarted                   -- Serve has not been called yet (Shutdown may run first)
  | accepting                    -- blocked in / about to call Accept
  | gotConn (c : Nat)            -- Accept returned a connection; not registered yet
  | returned (err : Bool)        -- Serve returned (err = false: nil)
  deriving DecidableEq, Repr

inductive SdPc where
  | idle                         -- Shutdown not called yet
  | signalled                    -- close(doneChan) done
  | listenerClosed               -- under mu: listener closed, s.l = nil
  | waiting                      -- waiter goroutine started (wg.Wait), select entered
  | returnedNil
  | returnedCtx                  -- returned ctx.Err()
  deriving DecidableEq, Repr

/-- Sessions are anonymous in this model (they are symmetric): the state counts how many started sessions are running,
    have closed their connection (deferred conn.Close() ran) and have ended (deferred wg.Done() ran). -/
structure State where
  done : Bool
  listenerOpen : Bool
  lSet : Bool                      -- `s.l != nil`: Serve has stored its listener and Shutdown has not yet taken it
  wg : Nat
  serve : ServePc
  sd : SdPc
  running : Nat                    -- started sessions still in their request loop (or its callbacks / handlers)
  connClosed : Nat                 -- sessions whose connection is closed but whose wg.Done() has not run yet
  ended : Nat                      -- sessions that have fully ended
  lateClosed : Nat                 -- connections accepted too late: closed, never served
  ctxExpired : Bool
  waiterSawZero : Bool             -- the waiter goroutine's wg.Wait() returned and it closed waitGroupDone
  nextConn : Nat
  deriving Repr

def State.started (σ : State) : Nat := σ.running + σ.connClosed + σ.ended

def init : State :=
  { done := false, listenerOpen := true, lSet := false, wg := 0, serve := .notStarted, sd := .idle, running := 0, connClosed := 0, ended := 0,
    lateClosed := 0, ctxExpired := false, waiterSawZero := false, nextConn := 1 }

inductive Label where
  | serveStart
  | accept | acceptFail | register | closeLate
  | sdSignal | sdCloseListener | sdStartWait | waiterDone | sdReturnNil | sdReturnCtx
  | sessCloseConn | sessDone
  | ctxExpire
  deriving DecidableEq, Repr

def Label.isShutdown : Label → Bool
  | .sdSignal | .sdCloseListener | .sdStartWait | .waiterDone | .sdReturnNil | .sdReturnCtx => true
  | _ => false

/-- the transition relation -/
inductive Step : State → Label → State → Prop where
  /-- Serve is called: under mu it stores the listener (`s.l = l`) -/
  | serveStart (σ : State) : σ.serve = .notStarted → Step σ .serveStart { σ with serve := .accepting, lSet := true }
  /-- Accept returns a fresh connection (only while the listener is open) -/
  | accept (σ : State) : σ.serve = .accepting → σ.listenerOpen = true →
      Step σ .accept { σ with serve := .gotConn σ.nextConn, nextConn := σ.nextConn + 1 }
  /-- Accept fails because the listener was closed; the shutdown signal is set, so Serve returns nil -/
  | acceptFail (σ : State) : σ.serve = .accepting → σ.listenerOpen = false → σ.done = true →
      Step σ .acceptFail { σ with serve := .returned false }
  /-- under mu: shutdown not signalled — wg.Add(1) and the session is started -/
  | register (σ : State) (c : Nat) : σ.serve = .gotConn c → σ.done = false →
      Step σ .register { σ with serve := .accepting, wg := σ.wg + 1, running := σ.running + 1 }
  /-- under mu: shutdown already signalled — the late connection is closed and Serve returns nil -/
  | closeLate (σ : State) (c : Nat) : σ.serve = .gotConn c → σ.done = true →
      Step σ .closeLate { σ with serve := .returned false, lateClosed := σ.lateClosed + 1 }
  | sdSignal (σ : State) : σ.sd = .idle → Step σ .sdSignal { σ with sd := .signalled, done := true }
  /-- under mu -/
  | sdCloseListener (σ : State) : σ.sd = .signalled →
      Step σ .sdCloseListener { σ with sd := .listenerClosed, listenerOpen := (!σ.lSet && σ.listenerOpen), lSet := false }
  | sdStartWait (σ : State) : σ.sd = .listenerClosed → Step σ .sdStartWait { σ with sd := .waiting }
  /-- the waiter's wg.Wait() returns: the counter is zero -/
  | waiterDone (σ : State) : σ.sd = .waiting → σ.wg = 0 → Step σ .waiterDone { σ with waiterSawZero := true }
  | sdReturnNil (σ : State) : σ.sd = .waiting → σ.waiterSawZero = true → Step σ .sdReturnNil { σ with sd := .returnedNil }
  | sdReturnCtx (σ : State) : σ.sd = .waiting → σ.ctxExpired = true → Step σ .sdReturnCtx { σ with sd := .returnedCtx }
  /-- a session's request loop has exited (peer closed, error, timeout): deferred conn.Close() -/
  | sessCloseConn (σ : State) : 0 < σ.running →
      Step σ .sessCloseConn { σ with running := σ.running - 1, connClosed := σ.connClosed + 1 }
  /-- then the deferred wg.Done() -/
  | sessDone (σ : State) : 0 < σ.connClosed →
      Step σ .sessDone { σ with connClosed := σ.connClosed - 1, ended := σ.ended + 1, wg := σ.wg - 1 }
  | ctxExpire (σ : State) : Step σ .ctxExpire { σ with ctxExpired := true }

inductive Reachable : State → Prop where
  | init : Reachable init
  | step (σ σ' : State) (l : Label) : Reachable σ → Step σ l σ' → Reachable σ'

end Kmip.Shutdown

namespace Kmip.Shutdown

/-- executable version of the step relation (for replaying schedules); `applyLabel_sound` ties it to `Step` -/
def applyLabel (σ : State) : Label → Option State
  | .serveStart => if σ.serve = .notStarted then some { σ with serve := .accepting, lSet := true } else none
  | .accept => if σ.serve = .accepting ∧ σ.listenerOpen = true then
      some { σ with serve := .gotConn σ.nextConn, nextConn := σ.nextConn + 1 } else none
  | .acceptFail => if σ.serve = .accepting ∧ σ.listenerOpen = false ∧ σ.done = true then
      some { σ with serve := .returned false } else none
  | .register => match σ.serve with
    | .gotConn _ => if σ.done = false then some { σ with serve := .accepting, wg := σ.wg + 1, running := σ.running + 1 } else none
    | _ => none
  | .closeLate => match σ.serve with
    | .gotConn _ => if σ.done = true then some { σ with serve := .returned false, lateClosed := σ.lateClosed + 1 } else none
    | _ => none
  | .sdSignal => if σ.sd = .idle then some { σ with sd := .signalled, done := true } else none
  | .sdCloseListener => if σ.sd = .signalled then
      some { σ with sd := .listenerClosed, listenerOpen := (!σ.lSet && σ.listenerOpen), lSet := false } else none
  | .sdStartWait => if σ.sd = .listenerClosed then some { σ with sd := .waiting } else none
  | .waiterDone => if σ.sd = .waiting ∧ σ.wg = 0 then some { σ with waiterSawZero := true } else none
  | .sdReturnNil => if σ.sd = .waiting ∧ σ.waiterSawZero = true then some { σ with sd := .returnedNil } else none
  | .sdReturnCtx => if σ.sd = .waiting ∧ σ.ctxExpired = true then some { σ with sd := .returnedCtx } else none
  | .sessCloseConn => if 0 < σ.running then some { σ with running := σ.running - 1, connClosed := σ.connClosed + 1 } else none
  | .sessDone => if 0 < σ.connClosed then some { σ with connClosed := σ.connClosed - 1, ended := σ.ended + 1, wg := σ.wg - 1 } else none
  | .ctxExpire => some { σ with ctxExpired := true }

theorem applyLabel_sound (σ σ' : State) (l : Label) (h : applyLabel σ l = some σ') : Step σ l σ' := by
  cases l <;> simp only [applyLabel] at h
  · split at h <;> simp at h; subst h; rename_i hc; exact Step.serveStart σ hc
  · split at h <;> simp at h; subst h; rename_i hc; exact Step.accept σ hc.1 hc.2
  · split at h <;> simp at h; subst h; rename_i hc; exact Step.acceptFail σ hc.1 hc.2.1 hc.2.2
  · split at h
    · rename_i c hs; split at h <;> simp at h; subst h; rename_i hd; exact Step.register σ c hs hd
    · simp at h
  · split at h
    · rename_i c hs; split at h <;> simp at h; subst h; rename_i hd; exact Step.closeLate σ c hs hd
    · simp at h
  · split at h <;> simp at h; subst h; rename_i hc; exact Step.sdSignal σ hc
  · split at h <;> simp at h; subst h; rename_i hc; exact Step.sdCloseListener σ hc
  · split at h <;> simp at h; subst h; rename_i hc; exact Step.sdStartWait σ hc
  · split at h <;> simp at h; subst h; rename_i hc; exact Step.waiterDone σ hc.1 hc.2
  · split at h <;> simp at h; subst h; rename_i hc; exact Step.sdReturnNil σ hc.1 hc.2
  · split at h <;> simp at h; subst h; rename_i hc; exact Step.sdReturnCtx σ hc.1 hc.2
  · split at h <;> simp at h; subst h; rename_i hc; exact Step.sessCloseConn σ hc
  · split at h <;> simp at h; subst h; rename_i hc; exact Step.sessDone σ hc
  · simp at h; subst h; exact Step.ctxExpire σ

/-- run a list of labels; `none` if one is not enabled -/
def runLabels (σ : State) : List Label → Option State
  | [] => some σ
  | l :: ls => match applyLabel σ l with
    | some σ' => runLabels σ' ls
    | none => none

/-- harness-level actions and the LTS steps each one stands for -/
inductive Action where
  | startServe      -- Serve is called
  | arriveLate      -- a connection arrives after the shutdown signal: accepted, refused, closed
  | arrive          -- a connection arrives, is accepted and registered (its session starts)
  | inflight        -- a request is sent whose handler blocks (no LTS step)
  | release         -- the blocked handler returns (no LTS step)
  | clientClose     -- the client closes: the session's loop exits, conn.Close(), wg.Done()
  | shutdown        -- Shutdown is called and runs up to its wait
  | late            -- Shutdown lands between Accept returning a connection and its registration
  | ctxExpire
  deriving DecidableEq, Repr

def Action.labels : Action → List Label
  | .startServe => [.serveStart]
  | .arriveLate => [.accept, .closeLate]
  | .arrive => [.accept, .register]
  | .inflight => []
  | .release => []
  | .clientClose => [.sessCloseConn, .sessDone]
  | .shutdown => [.sdSignal, .sdCloseListener, .sdStartWait]
  | .late => [.accept, .sdSignal, .sdCloseListener, .sdStartWait, .closeLate]
  | .ctxExpire => [.ctxExpire]

/-- after an action: the internal steps that are enabled without further input (Serve noticing the closed listener,
    the waiter seeing zero, Shutdown returning). Returns the set of possible results when both returns are enabled. -/
def settle (σ : State) : List State :=
  let σ1 := (applyLabel σ .acceptFail).getD σ
  let σ2 := (applyLabel σ1 .waiterDone).getD σ1
  match applyLabel σ2 .sdReturnNil, applyLabel σ2 .sdReturnCtx with
  | some a, some b => [a, b]
  | some a, none => [a]
  | none, some b => [b]
  | none, none => [σ2]

end Kmip.Shutdown
