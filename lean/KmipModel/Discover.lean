import KmipModel.Basic
/-
  Model of the built-in Discover Versions handler (server.go handleDiscoverVersions) and of the defaulting of
  Server.SupportedVersions in Serve.  Slices carry the identity of their backing array so that aliasing is
  expressible: `append([]T(nil), xs...)` and appending to a nil slice allocate a fresh array.
-/
namespace Kmip.Discover

/-- a protocol version: (major, minor) as the unsigned rendering of the int32 fields -/
abbrev Version := Nat × Nat

/-- a Go slice: backing-array identity (0 = nil slice, no array) and elements -/
structure Slice where
  arr : Nat
  elems : List Version
  deriving DecidableEq, Repr

/-- the allocator: next fresh array identity -/
structure Heap where
  next : Nat
  deriving Repr

def Heap.alloc (h : Heap) : Nat × Heap := (h.next, { next := h.next + 1 })

/-- `append([]ProtocolVersion(nil), xs...)`: nil when xs is empty, otherwise a fresh array holding a copy -/
def copySlice (h : Heap) (xs : List Version) : Slice × Heap :=
  match xs with
  | [] => ({ arr := 0, elems := [] }, h)
  | _ :: _ => let (a, h') := h.alloc; ({ arr := a, elems := xs }, h')

/-- the inner loop: the first supported version equal to `v`, if any (`break` after the first match) -/
def firstMatch (v : Version) : List Version → Option Version
  | [] => none
  | s :: rest => if v = s then some s else firstMatch v rest

/-- the matching loop over the offer: every offered version that is supported is appended, in offer order -/
def matchLoop (sup : List Version) : List Version → List Version
  | [] => []
  | v :: rest =>
    match firstMatch v sup with
    | some s => s :: matchLoop sup rest
    | none => matchLoop sup rest

/-- `handleDiscoverVersions`: the reply slice and the heap afterwards -/
def discover (h : Heap) (sup : Slice) (offer : List Version) : Slice × Heap :=
  match offer with
  | [] => copySlice h sup.elems
  | _ :: _ => copySlice h (matchLoop sup.elems offer)      -- appends to a nil slice: fresh array (or nil if nothing matched)

def defaultVersions : List Version := [(1, 4), (1, 3), (1, 2), (1, 1)]

/-- `Serve`: an empty configuration is replaced by a COPY of the default list -/
def configure (h : Heap) (dflt : Slice) (configured : Slice) : Slice × Heap :=
  if configured.elems.length = 0 then copySlice h dflt.elems else (configured, h)

end Kmip.Discover
