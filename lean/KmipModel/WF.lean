import KmipModel.Spec
/-
  C01's side conditions, as explicit definitions:
  * `SD.OK`   — schema well-formedness (decidable; GenC01 proves it for every schema regenerated from /repo);
  * `WFv`     — well-formed values: field values in KMIP's ranges, required sequences non-empty, dynamic values of the type
                their selector dispatches to, required dynamic values present;
  * `Item.Small` — every length fits its 4-byte length field;
  * `normVal` — the documented normalisations: zero-valued optional fields become the Go zero value, pointer payloads become
                value payloads, fields annotated skip become nil.
-/
namespace Kmip

def tagMax : Nat := 16777216

/-- a decodable dispatch entry: a non-pointer primitive other than time.Duration, or a pointer to a describable struct -/
def DEnt.decodable : DEnt → Bool
  | .mk _ ptr (.prim p) => !ptr && p != .interval
  | .mk _ ptr (.struct sd) => ptr && sd.descOk
  | .mk _ _ (.dyn _ _) => false
  | .mk _ _ .unsupported => false

mutual
  def SD.OK : SD → Bool
    | .mk _ _ fs => fldsOK fs 0 fs
  /-- `all` = the whole field list (for the selector check), `i` = index of the head of the remaining list -/
  def fldsOK (all : List Fld) : Nat → List Fld → Bool
    | _, [] => true
    | i, f :: fs =>
      fldOK all i f && fs.all (fun g => g.tag != f.tag) &&
      -- a field that takes no part in encoding (skip / any-tag) must be optional and last
      (!f.ignored || (fs.isEmpty && !f.required)) &&
      fldsOK all (i + 1) fs
  def fldOK (all : List Fld) (i : Nat) : Fld → Bool
    | .mk _ tag _ slice skip ty =>
      (0 < tag) && (tag < tagMax) && (tag != anyTag || skip) &&
      (match ty with
       | .prim _ => true
       | .struct sd => sd.descOk && SD.OK sd
       | .dyn sel table =>
         !slice && sel < i &&
         (match all[sel]? with
          | some (.mk _ _ _ false false (.prim .enum)) => true
          | some (.mk _ _ _ false false (.prim .text)) => true
          | _ => false) &&
         dentsOK table
       | .unsupported => false)
  def dentsOK : List DEnt → Bool
    | [] => true
    | .mk _ _ (.prim _) :: rest => dentsOK rest
    | .mk _ _ (.struct sd) :: rest => SD.OK sd && dentsOK rest
    | .mk _ _ (.dyn _ _) :: rest => dentsOK rest
    | .mk _ _ .unsupported :: rest => dentsOK rest
end

mutual
  def Item.Small : Item → Bool
    | .prim tag ty payload => tag < tagMax && ty < 256 && payload.length < two32
    | .struct tag kids => tag < tagMax && (Item.serList kids).length < two32 && Item.smallList kids
  def Item.smallList : List Item → Bool
    | [] => true
    | i :: is => i.Small && Item.smallList is
end

/-- first table entry for a selector key -/
def lookupEnt (k : Key) : List DEnt → Option DEnt
  | [] => none
  | .mk k' ptr ty :: rest => if k' = k then some (.mk k' ptr ty) else lookupEnt k rest

mutual
  /-- the documented normalisations -/
  def normVal (ty : FTy) : Val → Val
    | .int n => .int n
    | .long n => .long n
    | .enum n => .enum n
    | .bool b => .bool b
    | .bytes b => .bytes b
    | .text b => .text b
    | .time n => .time n
    | .interval ns => .interval ns
    | .struct fs =>
      match ty with
      | .struct sd => .struct (normFlds sd.fields fs)
      | .prim _ => .struct fs
      | .dyn _ _ => .struct fs
      | .unsupported => .struct fs
  def normFlds : List Fld → List FV → List FV
    | [], _ => []
    | _ :: _, [] => []
    | f :: fs, v :: vs => normFV f v :: normFlds fs vs
  def normFV (f : Fld) : FV → FV
    | .one v => if f.ignored || (!f.required && specZero f.ty v) then zeroFld f else .one (normVal f.ty v)
    | .many vs => if f.ignored then zeroFld f else .many (normMany f.ty vs)
    | .dyn .nil => .dyn .nil
    | .dyn (.val _ ty v) => .dyn (.val false ty (normVal ty v))      -- pointer payload ↦ value payload
    | .dyn (.bad k) => .dyn (.bad k)
    | .skip _ => .skip false                                          -- skipped fields come back nil
  def normMany (ty : FTy) : List Val → List Val
    | [] => []
    | v :: vs => normVal ty v :: normMany ty vs
end

mutual
  /-- well-formed value of Go type `ty` -/
  def WFv (ty : FTy) : Val → Prop
    | .int n => ty = .prim .int ∧ n < two32
    | .long n => ty = .prim .long ∧ n < two64
    | .enum n => ty = .prim .enum ∧ n < two32
    | .bool _ => ty = .prim .bool
    | .bytes b => ty = .prim .bytes ∧ b.length < two32
    | .text b => ty = .prim .text ∧ b.length < two32
    | .time n => ty = .prim .time ∧ n < two64
    | .interval ns => ty = .prim .interval ∧ ∃ s : Nat, s < two32 ∧ ns = (s : Int) * 1000000000
    | .struct fs =>
      match ty with
      | .struct sd => WFflds sd.fields fs []
      | .prim _ => False
      | .dyn _ _ => False
      | .unsupported => False
  /-- `prev` = the (normalised) values of the preceding fields (the selector of a dynamic field is among them) -/
  def WFflds : List Fld → List FV → List FV → Prop
    | [], [], _ => True
    | [], _ :: _, _ => False
    | _ :: _, [], _ => False
    | f :: fs, v :: vs, prev => WFfv f v prev ∧ WFflds fs vs (prev ++ [normFV f v])
  def WFfv (f : Fld) : FV → List FV → Prop
    -- an optional field still holding its Go zero value is left out by Encode whatever that zero value looks like inside
    -- (the zero Authentication of a Request without credentials has a nil Credential Value, which its own type "requires")
    | .one v, _ => f.slice = false ∧ f.ignored = false ∧ ((f.required = false ∧ FV.one v = zeroFld f) ∨ WFv f.ty v)
    | .many vs, _ => f.slice = true ∧ f.ignored = false ∧ (f.required = true → vs ≠ []) ∧ WFmany f.ty vs
    | .dyn .nil, _ => f.slice = false ∧ f.ignored = false ∧ f.required = false ∧ ∃ sel table, f.ty = .dyn sel table
    | .dyn (.val _ ty v), prev =>
      f.slice = false ∧ f.ignored = false ∧
      (∃ sel table fv k e, f.ty = .dyn sel table ∧ prev[sel]? = some fv ∧ keyOf fv = some k ∧
        lookupEnt k table = some e ∧ e.decodable = true ∧ e.ty = ty) ∧ WFv ty v
    | .dyn (.bad _), _ => False
    | .skip _, _ => f.ignored = true
  def WFmany (ty : FTy) : List Val → Prop
    | [] => True
    | v :: vs => WFv ty v ∧ WFmany ty vs
end

end Kmip
