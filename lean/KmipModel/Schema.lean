import KmipModel.Basic
/-
  The schema: what `getStructDesc` (fields.go) computes from a Go struct type, as a finite tree.
  `KmipGen/Schema.lean` is regenerated from /repo by the translator and instantiates these types.
-/
namespace Kmip

/-- primitive KMIP item classes the codec supports (Go type ↦ KMIP type, fields.go `guessType`) -/
inductive PTy where
  | int | long | enum | bool | bytes | text | time | interval
  deriving DecidableEq, Repr, Inhabited

/-- KMIP item type code (consts.go) -/
def PTy.code : PTy → Nat
  | .int => 2 | .long => 3 | .enum => 5 | .bool => 6
  | .text => 7 | .bytes => 8 | .time => 9 | .interval => 10

def structCode : Nat := 1

/-- selector value of a dynamically-typed field: an enumeration or a text string -/
inductive Key where
  | enum (n : Nat)
  | str (s : Bytes)      -- the UTF-8 bytes of the text (Go strings are byte strings)
  deriving DecidableEq, Repr, Inhabited

/-- the internal any-tag marker, `ANY_TAG` -/
def anyTag : Nat := 0xffffff

mutual
  /-- struct descriptor: the tag from the embedded `Tag` field (0 if none) and the annotated fields in order -/
  inductive SD where
    | mk (name : String) (tag : Nat) (fields : List Fld)
  /-- one annotated field -/
  inductive Fld where
    | mk (name : String) (tag : Nat) (required slice skip : Bool) (ty : FTy)
  inductive FTy where
    | prim (p : PTy)
    | struct (sd : SD)
    /-- interface-typed field. `sel` is the index (in the field list) of the field `BuildFieldValue` switches on,
        `table` what it returns for each selector value (anything not listed: error) -/
    | dyn (sel : Nat) (table : List DEnt)
    /-- a Go type the codec has no case for (translator emits it when `guessType` would fail) -/
    | unsupported
  /-- one dispatch entry: selector value, whether `BuildFieldValue` returns a pointer, the type -/
  inductive DEnt where
    | mk (key : Key) (ptr : Bool) (ty : FTy)
end

instance : Inhabited FTy := ⟨.unsupported⟩
instance : Inhabited SD := ⟨.mk "" 0 []⟩

def SD.name : SD → String | .mk n _ _ => n
def SD.tag : SD → Nat | .mk _ t _ => t
def SD.fields : SD → List Fld | .mk _ _ fs => fs
def SD.withTag : SD → Nat → SD | .mk n _ fs, t => .mk n t fs

def Fld.name : Fld → String | .mk n _ _ _ _ _ => n
def Fld.tag : Fld → Nat | .mk _ t _ _ _ _ => t
def Fld.required : Fld → Bool | .mk _ _ r _ _ _ => r
def Fld.slice : Fld → Bool | .mk _ _ _ s _ _ => s
def Fld.skip : Fld → Bool | .mk _ _ _ _ s _ => s
def Fld.ty : Fld → FTy | .mk _ _ _ _ _ t => t

def DEnt.key : DEnt → Key | .mk k _ _ => k
def DEnt.ptr : DEnt → Bool | .mk _ p _ => p
def DEnt.ty : DEnt → FTy | .mk _ _ t => t

/-- KMIP type code a field of this type is written under -/
def FTy.code : FTy → Nat
  | .prim p => p.code
  | .struct _ => structCode
  | .dyn _ _ => structCode
  | .unsupported => 0

end Kmip
