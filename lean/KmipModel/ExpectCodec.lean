-- Expected digests of the normalised source of every codec function and of the codec files' declarations: the text the
-- hand-written models (KmipModel/Encode.lean, Decode.lean, Schema.lean, Alloc.lean, Stream.lean) were validated against by the
-- correspondence runs. Written by scripts/accept_codec_src.sh from /repo at 2a8c821; the readable
-- normalised text is KmipModel/ExpectCodecSrc.txt. GenC01..GenC06, GenC13, GenC18, GenC19 prove the regenerated digests equal these.


namespace Kmip.ExpectCodec

def codecSrc_dec : List (String × String) := [
  ("Decoder.Decode", "05041e9554867985"),
  ("Decoder.decode", "90a64fdd32f20d23"),
  ("Decoder.decodeValue", "19e8b23677b5a77c"),
  ("Decoder.expectLength", "905b05aa87d210ff"),
  ("Decoder.expectTag", "88523c1a39b86e71"),
  ("Decoder.expectType", "89a138ef9988dafb"),
  ("Decoder.internalReadTag", "6b77f5809d131de8"),
  ("Decoder.peekTag", "cc7c91056def75ce"),
  ("Decoder.readBool", "2662ecc64f610a66"),
  ("Decoder.readByteSlice", "1328b531b666f1fa"),
  ("Decoder.readBytes", "ae294d55ef309749"),
  ("Decoder.readDuration", "d88f1e058436bd7a"),
  ("Decoder.readEnum", "884556a33f01267f"),
  ("Decoder.readInteger", "a081b454aa0b107f"),
  ("Decoder.readLength", "5a5e4ace4cd78d5f"),
  ("Decoder.readLongInteger", "066331ea6f6d70f2"),
  ("Decoder.readString", "0fcb4f59eea14979"),
  ("Decoder.readTag", "766c1fb238f56921"),
  ("Decoder.readTime", "31dad94439c42033"),
  ("Decoder.readType", "872830e993afca23"),
  ("NewDecoder", "d63a3bc50c46df1a"),
  ("declarations of decode.go", "141f2ffdca2a14d1"),
  ("declarations of decode_core.go", "b45db682107e6adb"),
  ("minUint32", "220dcc07e319e5f8")
]

def codecSrc_enc : List (String × String) := [
  ("Encoder.Encode", "56178584349f01ca"),
  ("Encoder.encode", "18a925e71b9a40a7"),
  ("Encoder.encodeValue", "367a4aecf012684a"),
  ("Encoder.writeBool", "b5b25fa961be8b26"),
  ("Encoder.writeByteSlice", "62115a897c28a762"),
  ("Encoder.writeBytes", "0e812a3b2d3dd2e0"),
  ("Encoder.writeDuration", "26b8e6201441294c"),
  ("Encoder.writeEnum", "9cf2716a381b9f5e"),
  ("Encoder.writeInteger", "193b8896aef26a8f"),
  ("Encoder.writeLongInteger", "6150a0e90465889e"),
  ("Encoder.writeString", "cf315ebd9b80ff72"),
  ("Encoder.writeTagTypeLength", "1b34e042534d5ed7"),
  ("Encoder.writeTime", "bce29d17adc2f7e0"),
  ("NewEncoder", "0ffb5f6fb0a36227"),
  ("declarations of encode.go", "d6b6f577048cea05"),
  ("declarations of encode_core.go", "e3b0c44298fc1c14"),
  ("isZeroValue", "77be1ebd2ea7cb0a")
]

def codecSrc_desc : List (String × String) := [
  ("declarations of fields.go", "ad773ad224b23209"),
  ("declarations of types.go", "5c5c4ac22752a191"),
  ("getStructDesc", "d3b0bdac236fc710"),
  ("guessType", "60ac2924693226c7"),
  ("parseTag", "33088695dd9b22e4")
]

def codecSrc_disp : List (String × String) := [
  ("Attribute.BuildFieldValue", "e9c76bfe0d2b906f"),
  ("Authentication.BuildFieldValue", "b509d2f0008014e5"),
  ("RequestBatchItem.BuildFieldValue", "519cd66211b699cf"),
  ("ResponseBatchItem.BuildFieldValue", "4a22259774887292")
]

def codecSrc_err : List (String × String) := [
  ("declarations of errors.go", "9a3349b2e0cc5a4f"),
  ("protocolError.ResultReason", "c418dd149f9b0eeb"),
  ("wrapError", "959990f6adaa8f40")
]

def codecSrc_tls : List (String × String) := [
  ("DefaultClientTLSConfig", "dfcfc3da44f57e77"),
  ("DefaultServerTLSConfig", "7b4b208841778f5c"),
  ("declarations of tls.go", "e3b0c44298fc1c14")
]

end Kmip.ExpectCodec
