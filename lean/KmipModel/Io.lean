import KmipModel.Decode
/-
  Transport view of a byte source (C06): what `io.Reader.Read` hands out call by call, and Go's `io.ReadFull` /
  `io.LimitReader` on top of it.  KmipProps/C06 proves that these agree with the FLAT view the decoder model works on,
  for every way of cutting the same bytes into chunks (including zero-length reads and a last chunk that arrives
  together with the final error).
-/
namespace Kmip.Io

/-- a source as the transport delivers it: each `Read` call returns (a prefix of) the head chunk; an empty chunk is a
    zero-length read with a nil error; when `eager`, the last chunk is returned together with the final error (io.Reader
    permits both behaviours).  Once the chunks are used up every `Read` returns `(0, fin)`. -/
structure Src where
  chunks : List Bytes
  fin : Fin
  eager : Bool

/-- the bytes the source carries, whatever the chunking -/
def Src.flat (s : Src) : Bytes := s.chunks.flatten

/-- one `Read(p)` with `len(p) = k`: bytes returned, error returned alongside (if any), the source afterwards -/
def Src.read (s : Src) (k : Nat) : Bytes × Option ErrClass × Src :=
  match s.chunks with
  | [] => ([], some s.fin.err, s)
  | c :: cs =>
    if c.length ≤ k then
      (c, (if cs.isEmpty && s.eager then some s.fin.err else none), { s with chunks := cs })
    else (c.take k, none, { s with chunks := c.drop k :: cs })

/-- `io.ReadAtLeast(r, buf, len(buf))`:  `for n < min && err == nil { nn, err = r.Read(buf[n:]); n += nn }`, then
    `n >= min ⇒ nil`, `n > 0 && err == EOF ⇒ ErrUnexpectedEOF`.  `fuel` bounds the loop structurally. -/
def readFullLoop : Nat → Src → Nat → Bytes → Outcome (Bytes × Src)
  | 0, _, _, _ => .err .other
  | fuel + 1, s, k, acc =>
    if k ≤ acc.length then .ok (acc, s)
    else
      match s.read (k - acc.length) with
      | (b, none, s') => readFullLoop fuel s' k (acc ++ b)
      | (b, some err, s') =>
        if k ≤ (acc ++ b).length then .ok (acc ++ b, s')
        else .err (if (acc ++ b).length = 0 then err else .other)

def Src.readFull (s : Src) (k : Nat) : Outcome (Bytes × Src) := readFullLoop (s.chunks.length + 2) s k []

/-- `io.LimitReader(r, n)` over a source: `if n <= 0 { return 0, EOF }; if len(p) > n { p = p[:n] }; nn, err = r.Read(p); n -= nn` -/
structure Lim where
  src : Src
  n : Nat

def Lim.read (l : Lim) (k : Nat) : Bytes × Option ErrClass × Lim :=
  if l.n = 0 then ([], some .eof, l)
  else
    match l.src.read (min k l.n) with
    | (b, e, s') => (b, e, { src := s', n := l.n - b.length })

def limReadFullLoop : Nat → Lim → Nat → Bytes → Outcome (Bytes × Lim)
  | 0, _, _, _ => .err .other
  | fuel + 1, l, k, acc =>
    if k ≤ acc.length then .ok (acc, l)
    else
      match l.read (k - acc.length) with
      | (b, none, l') => limReadFullLoop fuel l' k (acc ++ b)
      | (b, some err, l') =>
        if k ≤ (acc ++ b).length then .ok (acc ++ b, l')
        else .err (if (acc ++ b).length = 0 then err else .other)

def Lim.readFull (l : Lim) (k : Nat) : Outcome (Bytes × Lim) := limReadFullLoop (l.src.chunks.length + 3) l k []

end Kmip.Io
