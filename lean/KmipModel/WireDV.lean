import KmipModel.Wire
import KmipModel.Discover
import KmipGen.Schema
/-
  Discover Versions as messages: the payload `Client.DiscoverVersions(offer)` sends, what the built-in handler
  (KmipModel/Discover.lean) reads in it and what it answers - as values of the generated DiscoverVersionsRequest /
  DiscoverVersionsResponse schemas.  Tied to the code by `kvrun C07` (driver `wiredv`: the bytes the real Server writes for
  Discover Versions requests against `handleBatch` with `dvHandler`); used by GenC14_discover_versions_over_any_transport.
-/
namespace Kmip
open Kmip.Wire Kmip.Discover

def verVal (v : Version) : Val := .struct [.one (.int v.1), .one (.int v.2)]

def dvReq (offer : List Version) : DynV :=
  .val false (.struct KmipGen.sd_DiscoverVersionsRequest) (.struct [.many (offer.map verVal)])

def dvResp (vs : List Version) : DynV :=
  .val false (.struct KmipGen.sd_DiscoverVersionsResponse) (.struct [.many (vs.map verVal)])

def verOf : Val → Option Version
  | .struct [.one (.int a), .one (.int b)] => some (a, b)
  | _ => none

/-- the `item.RequestPayload.(DiscoverVersionsRequest)` assertion and the field it reads -/
def offerOf : DynV → Option (List Version)
  | .val false (.struct sd) (.struct [.many vs]) => if sd.name = "DiscoverVersionsRequest" then vs.mapM verOf else none
  | _ => none

/-- what the handler answers with: the whole list for an empty offer, else the supported ones of the offer, in offer order -/
def dvAnswer (sup offer : List Version) : List Version :=
  match offer with
  | [] => sup
  | _ :: _ => matchLoop sup offer

/-- the built-in handler, as `handleBatch` sees it (any other operation: not supported) -/
def dvHandler (sup : List Version) : Nat → ItemIn → HRes := fun _ it =>
  if it.op = 30 then
    match offerOf it.payload with
    | some offer => .success (dvResp (dvAnswer sup offer))
    | none => .failed 4 "wrong request body".toUTF8.toList      -- RESULT_REASON_INVALID_MESSAGE; unreachable from the wire
  else .failed 5 "operation not supported".toUTF8.toList

end Kmip
