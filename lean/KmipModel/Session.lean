import KmipModel.Basic
/-
  Model of one server session: `Server.serve` / `handleBatch` / `handleWrapped` (server.go) as a
  deterministic function from the session's inputs to the trace of its observable events.
  Tied to the code by `kvrun` (C07–C10, C15): the real Server is run on an in-memory connection that
  records deadlines, reads, writes and close, with callbacks and handlers programmed from the same
  script, and the two event sequences are compared.
-/
namespace Kmip.Session

/-- what a callback returns: an opaque value (its identity is all that matters) or an error -/
inductive AuthR where
  | ok (val : Nat)
  | fail
  deriving DecidableEq, Repr, Inhabited

/-- behaviour of the operation handler on one invocation -/
inductive Behaviour where
  | success (payload : Nat) (encodable : Bool)   -- returns (payload, nil); `encodable`: Encode accepts the payload
  | nilResult                                     -- returns (nil, nil)
  | error (msg : Nat)                             -- returns a plain error
  | errorReason (msg reason : Nat)                -- returns an error carrying a result reason
  | panic (msg : Nat)                             -- panics with a value rendering as `msg`
  /-- returns a first result TOGETHER with an error (`reason = none`: a plain error); `encodable` says whether Encode would
      accept that first result - it must not matter -/
  | errorWith (msg : Nat) (reason : Option Nat) (encodable : Bool)
  deriving DecidableEq, Repr, Inhabited

structure ReqItem where
  op : Nat
  uid : Bytes
  payload : Nat          -- identity of the decoded request payload
  beh : Behaviour        -- what the registered handler does when invoked for this item
  deriving DecidableEq, Repr, Inhabited

structure Req where
  version : Nat × Nat
  corr : Bytes           -- client correlation value
  batchCount : Nat       -- as int32, unsigned rendering
  async : Bool
  credType : Nat         -- Authentication.CredentialType; 0 = the request carries no credentials
  authRes : AuthR        -- what the request-auth callback returns for this request (if it is called)
  clock : Nat            -- server time when the batch is handled
  writeOk : Bool         -- the transport accepts the response
  items : List ReqItem
  deriving DecidableEq, Repr, Inhabited

/-- what successive Decode calls on the connection yield -/
inductive Arrival where
  | request (r : Req)
  | decodeErr            -- malformed / truncated / wrong type / timeout: any non-EOF error
  | eof                  -- clean end of stream (raw io.EOF)
  deriving DecidableEq, Repr, Inhabited

structure Cfg where
  readTimeout : Bool     -- ReadTimeout ≠ 0
  writeTimeout : Bool    -- WriteTimeout ≠ 0
  tls : Bool             -- the connection is a *tls.Conn
  handshakeOk : Bool
  sessionAuth : Option AuthR      -- none: no SessionAuthHandler configured
  hasRequestAuth : Bool
  registered : List Nat           -- operations with a handler (Discover Versions included when present)
  sessionId : Nat
  deriving Repr, Inhabited

def generalFailure : Nat := 0x100
def operationNotSupported : Nat := 5
def statusSuccess : Nat := 0
def statusFailed : Nat := 1

/-- per-item result as put into the response -/
structure ItemRes where
  op : Nat
  uid : Bytes
  status : Nat
  reason : Nat           -- 0 = absent
  msg : Option Nat       -- none = no message; `some m`: the error's message / `panic: m` / the not-supported text
  payload : Option Nat
  deriving DecidableEq, Repr, Inhabited

/-- message identities for the two fixed texts -/
def msgNotSupported : Nat := 1000001
def panicMsg (m : Nat) : Nat := 2000000 + m

structure Resp where
  version : Nat × Nat
  corr : Bytes
  batchCount : Nat
  clock : Nat
  items : List ItemRes
  deriving DecidableEq, Repr, Inhabited

inductive Ev where
  | armRead
  | armWrite
  | handshake (ok : Bool)
  | sessionAuth (ok : Bool)
  | decode (a : Nat)               -- index of the arrival being waited for
  | requestAuth (req : Nat) (ok : Bool)
  /-- handler invocation: request index, item index, operation, payload identity, and the context it sees -/
  | call (req item op payload : Nat) (sessionId : Nat) (sessionAuth : Option Nat) (requestAuth : Option Nat)
  | respond (req : Nat) (r : Resp)
  | close
  deriving DecidableEq, Repr, Inhabited

/-- `handleWrapped` + the result mapping of `handleBatch` for one item -/
def itemResult (registered : List Nat) (it : ReqItem) : ItemRes :=
  if registered.contains it.op then
    match it.beh with
    | .success p _ => { op := it.op, uid := it.uid, status := statusSuccess, reason := 0, msg := none, payload := some p }
    | .nilResult => { op := it.op, uid := it.uid, status := statusSuccess, reason := 0, msg := none, payload := none }
    | .error m => { op := it.op, uid := it.uid, status := statusFailed, reason := generalFailure, msg := some m, payload := none }
    | .errorReason m r => { op := it.op, uid := it.uid, status := statusFailed, reason := r, msg := some m, payload := none }
    | .panic m => { op := it.op, uid := it.uid, status := statusFailed, reason := generalFailure, msg := some (panicMsg m), payload := none }
    | .errorWith m r _ => { op := it.op, uid := it.uid, status := statusFailed, reason := r.getD generalFailure, msg := some m, payload := none }
  else
    { op := it.op, uid := it.uid, status := statusFailed, reason := operationNotSupported, msg := some msgNotSupported, payload := none }

/-- whether Encode accepts the response: every Success payload must be encodable -/
def itemEncodable (registered : List Nat) (it : ReqItem) : Bool :=
  if registered.contains it.op then
    match it.beh with
    | .success _ enc => enc
    | _ => true
  else true

def sessVal : Option AuthR → Option Nat
  | some (.ok v) => some v
  | _ => none

/-- the handler invocations of one batch, in item order -/
def calls (cfg : Cfg) (reqIdx : Nat) (ra : Option Nat) : Nat → List ReqItem → List Ev
  | _, [] => []
  | i, it :: rest =>
    (if cfg.registered.contains it.op then
      [Ev.call reqIdx i it.op it.payload cfg.sessionId (sessVal cfg.sessionAuth) ra] else []) ++
    calls cfg reqIdx ra (i + 1) rest

/-- the response `handleBatch` builds for request `r` -/
def respOf (cfg : Cfg) (r : Req) : Resp :=
  { version := r.version, corr := r.corr, batchCount := r.batchCount, clock := r.clock,
    items := r.items.map (itemResult cfg.registered) }

/-- request authentication in `handleBatch`: the events it produces and, if the request may proceed, the
    request-auth value its handlers will see (`none` inside: the request carried no credentials) -/
def authStep (cfg : Cfg) (k : Nat) (r : Req) : List Ev × Option (Option Nat) :=
  if r.credType = 0 then ([], some none)
  else if cfg.hasRequestAuth then
    match r.authRes with
    | .ok v => ([Ev.requestAuth k true], some (some v))
    | .fail => ([Ev.requestAuth k false], none)
  else ([], none)                       -- credentials present but no callback configured

def armW (cfg : Cfg) : List Ev := if cfg.writeTimeout then [Ev.armWrite] else []

/-- `handleBatch` and the write of the response, for the `k`-th arrival; the Bool says whether the loop goes on -/
def handleReq (cfg : Cfg) (k : Nat) (r : Req) : List Ev × Bool :=
  -- consistency checks come before anything else
  if r.batchCount ≠ r.items.length ∨ r.async = true then ([], false)
  else
    match authStep cfg k r with
    | (evs, none) => (evs, false)
    | (evs, some ra) =>
      let body := evs ++ (calls cfg k ra 0 r.items ++ armW cfg)
      if r.items.all (itemEncodable cfg.registered) = true ∧ r.writeOk = true then
        (body ++ [Ev.respond k (respOf cfg r)], true)
      else
        -- the response cannot be encoded (nothing is written) or the write fails: the session ends
        (body, false)

/-- the request loop of `serve`, from the `k`-th arrival on -/
def loop (cfg : Cfg) : Nat → List Arrival → List Ev
  | _, [] => []                                   -- the peer is silent: the session is still waiting (no close yet)
  | k, a :: rest =>
    (if cfg.readTimeout then [Ev.armRead] else []) ++ [Ev.decode k] ++
    match a with
    | .eof => [Ev.close]
    | .decodeErr => [Ev.close]
    | .request r =>
      let (evs, cont) := handleReq cfg k r
      if cont then evs ++ loop cfg (k + 1) rest else evs ++ [Ev.close]

/-- the TLS prologue of `serve`: deadlines armed (if configured), then the handshake -/
def handshakeEvs (cfg : Cfg) : List Ev :=
  if cfg.tls then
    (if cfg.readTimeout then [Ev.armRead] else []) ++ ((if cfg.writeTimeout then [Ev.armWrite] else []) ++
      [Ev.handshake cfg.handshakeOk])
  else []

/-- `serve(conn, session)` -/
def session (cfg : Cfg) (arrivals : List Arrival) : List Ev :=
  handshakeEvs cfg ++
    (if cfg.tls ∧ cfg.handshakeOk = false then [Ev.close]
     else match cfg.sessionAuth with
       | some .fail => [Ev.sessionAuth false, Ev.close]
       | some (.ok _) => Ev.sessionAuth true :: loop cfg 0 arrivals
       | none => loop cfg 0 arrivals)

end Kmip.Session
