import KmipModel.Decode
/-
  The specification side of C04: an independent, state-free TTLV reader and schema matcher.

  `cutItem` cuts one item (header, declared-length payload, padding) from the head of a byte string and
  fails if the item does not fit.  `specFields` walks a structure's field list against the items of its
  payload: a required field must be the head item; an optional field is taken iff the head item carries
  its tag; a sequence is the maximal run of items with its tag; an item matched by a `skip` field is
  opaque; nothing may remain.  There is no lookahead state, no byte counter and no limit reader here —
  C04_equiv proves the Go-shaped decoder accepts exactly what this accepts, with the same value.
-/
namespace Kmip

/-- tag of the item at the head of `r` (needs 3 bytes) -/
def headTag (r : Bytes) : Option Nat :=
  if 3 ≤ r.length then some (fromBE (r.take 3)) else none

/-- the item at the head of `r`: (tag, type, declared length, payload, rest after the padded payload) -/
def cutItem (r : Bytes) : Option (Nat × Nat × Nat × Bytes × Bytes) :=
  if 8 ≤ r.length then
    let tag := fromBE (r.take 3)
    let ty := fromBE ((r.drop 3).take 1)
    let l := fromBE ((r.drop 4).take 4)
    let body := r.drop 8
    if l + padLen l ≤ body.length then some (tag, ty, l, body.take l, body.drop (l + padLen l)) else none
  else none

/-- a structure header at the head of `r`: (tag, type, declared length, payload, rest) — a structure's payload is not padded -/
def cutStruct (r : Bytes) : Option (Nat × Nat × Nat × Bytes × Bytes) :=
  if 8 ≤ r.length then
    let tag := fromBE (r.take 3)
    let ty := fromBE ((r.drop 3).take 1)
    let l := fromBE ((r.drop 4).take 4)
    let body := r.drop 8
    if l ≤ body.length then some (tag, ty, l, body.take l, body.drop l) else none
  else none

def tagOk (expected actual : Nat) : Bool := expected == actual || expected == anyTag

/-- what a primitive item denotes: mandated lengths for fixed-size types, booleans 0 or 1 in eight bytes -/
def primDenote (p : PTy) (ty l : Nat) (payload : Bytes) : Option Val :=
  if ty ≠ p.code then none else
  match p with
  | .int => if l = 4 then some (.int (fromBE payload)) else none
  | .long => if l = 8 then some (.long (fromBE payload)) else none
  | .enum => if l = 4 then some (.enum (fromBE payload)) else none
  | .bool => if l = 8 then (boolOfBytes payload).map .bool else none
  | .time => if l = 8 then some (.time (fromBE payload)) else none
  | .interval => if l = 4 then some (.interval ((fromBE payload : Nat) * 1000000000)) else none
  | .bytes => some (.bytes payload)
  | .text => some (.text payload)

def specPrim (tag : Nat) (p : PTy) (r : Bytes) : Option (Val × Bytes) :=
  (cutItem r).bind fun (t, ty, l, payload, rest) =>
    if tagOk tag t then (primDenote p ty l payload).bind fun v => some (v, rest) else none

/-- an item matched by a `skip` field: any type, opaque payload, must fit -/
def specSkip (tag : Nat) (r : Bytes) : Option Bytes :=
  (cutItem r).bind fun (t, _, _, _, rest) => if tagOk tag t then some rest else none

/-- a sequence: the maximal run of items carrying `ftag`. `fuel` bounds the iterations structurally
    (every element is at least 8 bytes long, so `r.length` suffices). -/
def specMany (elem : Bytes → Option (Val × Bytes)) (ftag : Nat) : Nat → Bytes → Option (List Val × Bytes)
  | 0, _ => none
  | fuel + 1, r =>
    (elem r).bind fun (v, rest) =>
      if rest = [] then some ([v], rest)
      else (headTag rest).bind fun t =>
        if t = 0 then none
        else if t ≠ ftag then some ([v], rest)
        else (specMany elem ftag fuel rest).bind fun (vs, rest') => some (v :: vs, rest')

mutual
  def specValue (tag : Nat) (prev : List FV) : FTy → Bytes → Option (Val × Bytes)
    | .prim p, r => specPrim tag p r
    | .struct sd, r => if sd.descOk then specStruct tag sd r else none
    | .dyn sel table, r =>
      match prev[sel]? with
      | none => none
      | some fv =>
        match keyOf fv with
        | none => none
        | some k => specDyn tag prev k table r
    | .unsupported, _ => none
  def specDyn (tag : Nat) (prev : List FV) (k : Key) : List DEnt → Bytes → Option (Val × Bytes)
    | [], _ => none
    | .mk k' ptr ty :: rest, r =>
      if k' = k then
        match ty with
        | .prim p => if ptr = true ∨ p = .interval then none else specPrim tag p r
        | .struct sd => if ptr = true then (if sd.descOk then specStruct tag sd r else none) else none
        | .dyn _ _ => none
        | .unsupported => none
      else specDyn tag prev k rest r
  /-- a structure item: header with the expected tag and type 1, payload that fits, fields matching the whole payload -/
  def specStruct (tag : Nat) : SD → Bytes → Option (Val × Bytes)
    | .mk _ _ fields, r =>
      (cutStruct r).bind fun (t, ty, _, payload, rest) =>
        if tagOk tag t ∧ ty = structCode then
          (specFields fields payload []).bind fun (vals, left) =>
            -- nothing unaccounted-for may remain inside the structure
            if left = [] then some (.struct vals, rest) else none
        else none
  def specFields : List Fld → Bytes → List FV → Option (List FV × Bytes)
    | [], r, _ => some ([], r)
    | f :: fs, r, prev =>
      (specField f r prev).bind fun (fv, r') =>
      (specFields fs r' (prev ++ [fv])).bind fun (rest, r'') =>
      some (fv :: rest, r'')
  def specField : Fld → Bytes → List FV → Option (FV × Bytes)
    | .mk name tag required slice skip ty, r, prev =>
      if r = [] then
        (if required then none else some (zeroFld (.mk name tag required slice skip ty), r))
      else (headTag r).bind fun t =>
          if t = 0 then none                  -- no KMIP tag is zero
          else if required = false ∧ t ≠ tag ∧ tag ≠ anyTag then some (zeroFld (.mk name tag required slice skip ty), r)
          else if skip then (specSkip tag r).bind fun rest => some (.skip false, rest)
          else if slice then
            (specMany (specValue tag prev ty) tag r.length r).bind fun (vs, rest) => some (.many vs, rest)
          else (specValue tag prev ty r).bind fun (v, rest) =>
              match ty with
              | .dyn _ _ => some (.dyn (.val false (dynTyOf prev ty) v), rest)
              | .prim _ => some (.one v, rest)
              | .struct _ => some (.one v, rest)
              | .unsupported => some (.one v, rest)
end

/-- the specification of Decode into a struct of descriptor `sd`: value denoted and number of bytes the message occupies -/
def specDecode (sd : SD) (bs : Bytes) : Option (Val × Nat) :=
  if sd.descOk then
    match specStruct sd.tag sd bs with
    | some (v, rest) => some (v, bs.length - rest.length)
    | none => none
  else none

end Kmip
