import KmipModel.Client
/-
  client.go once more, this time as the sequence of calls a Client makes on its connection: `Connect` (tls.Dial, the two
  deadlines, Handshake), `Send` (write deadline, Encode = one run of writes, read deadline, Decode = one run of reads) and
  `Close` - the Client's half of C15 ("the Client arms its deadlines the same way around every Send").

      if c.WriteTimeout != 0 { c.conn.SetWriteDeadline(now + WriteTimeout) }
      err = c.e.Encode(request)            -- an unencodable request: nothing is written
      if err != nil { return }
      if c.ReadTimeout != 0 { c.conn.SetReadDeadline(now + ReadTimeout) }
      err = c.d.Decode(&response)

  Tied to the code by the skeletons of Client.Connect / Client.Send (GenC15) and by `kvrun C15`, which runs the real Client on a
  recording connection and compares the calls it makes with `trace`.
-/
namespace Kmip.ClientIO
open Kmip.Client

structure Cfg where
  readTimeout : Bool      -- ReadTimeout ≠ 0
  writeTimeout : Bool     -- WriteTimeout ≠ 0
  deriving DecidableEq, Repr

inductive Ev where
  | dial (ok : Bool)
  | armRead
  | armWrite
  | handshake
  | write                 -- a run of Write calls: the request
  | read                  -- a run of Read calls: waiting for / reading the response
  | closeConn
  deriving DecidableEq, Repr

/-- what is not the Client's to decide about one Send: whether the request can be encoded at all (if not, Encode returns before
    anything is written) and whether the write succeeds -/
structure Exch where
  enc : Bool
  wr : Bool
  deriving DecidableEq, Repr

def sendEvs (cfg : Cfg) (x : Exch) : List Ev :=
  (if cfg.writeTimeout then [Ev.armWrite] else []) ++
  (if x.enc then
     Ev.write :: (if x.wr then (if cfg.readTimeout then [Ev.armRead] else []) ++ [Ev.read] else [])
   else [])

def connectEvs (cfg : Cfg) (reached : Bool) : List Ev :=
  Ev.dial reached ::
    (if reached then
       (if cfg.readTimeout then [Ev.armRead] else []) ++ (if cfg.writeTimeout then [Ev.armWrite] else []) ++ [Ev.handshake]
     else [])

inductive Op where
  | connect (reached : Bool)
  | close
  | send (x : Exch)
  deriving DecidableEq, Repr

def step (cfg : Cfg) (s : CState) : Op → CState × List Ev
  | .connect r => ((cstep s (.connect r)).1, connectEvs cfg r)
  | .close => ((cstep s .close).1, if s.conn then [Ev.closeConn] else [])
  | .send x => (s, if s.conn then sendEvs cfg x else [])

def trace (cfg : Cfg) : CState → List Op → List Ev
  | _, [] => []
  | s, op :: ops => (step cfg s op).2 ++ trace cfg (step cfg s op).1 ops

/-- wherever `e` occurs after another event, that event is `arm` -/
def pairsOk (e arm : Ev) : List Ev → Bool
  | x :: y :: rest => (y != e || x == arm) && pairsOk e arm (y :: rest)
  | _ => true

/-- every occurrence of `e` has a predecessor, and it is `arm` -/
def armedBefore (e arm : Ev) (l : List Ev) : Bool := l.head? != some e && pairsOk e arm l

end Kmip.ClientIO
