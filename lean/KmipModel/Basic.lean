/-
  Basic definitions shared by every model: bytes, big-endian conversions, Go outcome classes.
  CORE ONLY (no Mathlib) — everything under KmipModel is linked into the `kvdriver` executable.
-/
namespace Kmip

abbrev Byte := UInt8
abbrev Bytes := List UInt8

/-- big-endian, `k` bytes, of `n % 256^k` -/
def be : Nat → Nat → Bytes
  | 0, _ => []
  | k+1, n => UInt8.ofNat ((n / 256 ^ k) % 256) :: be k n

/-- big-endian value of a byte list -/
def fromBE : Bytes → Nat
  | [] => 0
  | b :: bs => b.toNat * 256 ^ bs.length + fromBE bs

def zeros (k : Nat) : Bytes := List.replicate k 0

/-- number of padding bytes after a value of `l` bytes: Go `if l%8 != 0 { 8 - l%8 }` -/
def padLen (l : Nat) : Nat := if l % 8 = 0 then 0 else 8 - l % 8

/-- padded length -/
def padded (l : Nat) : Nat := l + padLen l

def two32 : Nat := 4294967296
def two64 : Nat := 18446744073709551616

/-- error classes the properties distinguish.  `eof` is *raw* `io.EOF` (what `err == io.EOF`
    compares equal to); everything else, including a wrapped EOF and `io.ErrUnexpectedEOF`, is `other`. -/
inductive ErrClass where
  | eof
  | other
  deriving DecidableEq, Repr, Inhabited

/-- what the stream reports when its bytes run out -/
inductive Fin where
  | eof      -- clean end of stream
  | ioerr    -- an I/O error (timeout, reset, …)
  deriving DecidableEq, Repr, Inhabited

def Fin.err : Fin → ErrClass
  | .eof => .eof
  | .ioerr => .other

/-- Outcome of a modelled Go call -/
inductive Outcome (α : Type) where
  | ok (a : α)
  | err (e : ErrClass)
  | panic (site : String)
  deriving Repr

instance [Inhabited α] : Inhabited (Outcome α) := ⟨.err .other⟩

def Outcome.isOk : Outcome α → Bool
  | .ok _ => true
  | .err _ => false
  | .panic _ => false

def Outcome.isPanic : Outcome α → Bool
  | .ok _ => false
  | .err _ => false
  | .panic _ => true

@[inline] def Outcome.bind (x : Outcome α) (f : α → Outcome β) : Outcome β :=
  match x with
  | .ok a => f a
  | .err e => .err e
  | .panic s => .panic s

@[simp] theorem Outcome.bind_ok {α β : Type} (a : α) (f : α → Outcome β) : (Outcome.ok a).bind f = f a := rfl
@[simp] theorem Outcome.bind_err {α β : Type} (e : ErrClass) (f : α → Outcome β) : (Outcome.err e : Outcome α).bind f = .err e := rfl
@[simp] theorem Outcome.bind_panic {α β : Type} (s : String) (f : α → Outcome β) : (Outcome.panic s : Outcome α).bind f = .panic s := rfl

theorem Outcome.bind_eq_ok {α β : Type} (x : Outcome α) (f : α → Outcome β) (y : β) :
    x.bind f = .ok y ↔ ∃ a, x = .ok a ∧ f a = .ok y := by
  cases x <;> simp

instance : Monad Outcome where
  pure := .ok
  bind := Outcome.bind

/-- `errors.Wrapf`: any error becomes a non-EOF error; ok and panic pass through -/
def Outcome.wrap (x : Outcome α) : Outcome α :=
  match x with
  | .ok a => .ok a
  | .err _ => .err .other
  | .panic s => .panic s

def hexDigit (n : Nat) : Char :=
  if n < 10 then Char.ofNat (48 + n) else Char.ofNat (87 + n)

def toHex (bs : Bytes) : String :=
  String.ofList (bs.flatMap fun b => [hexDigit (b.toNat / 16), hexDigit (b.toNat % 16)])

def hexVal (c : Char) : Option Nat :=
  if '0' ≤ c ∧ c ≤ '9' then some (c.toNat - 48)
  else if 'a' ≤ c ∧ c ≤ 'f' then some (c.toNat - 87)
  else if 'A' ≤ c ∧ c ≤ 'F' then some (c.toNat - 55)
  else none

def fromHexChars : List Char → Option Bytes
  | [] => some []
  | [_] => none
  | a :: b :: rest => do
    let x ← hexVal a
    let y ← hexVal b
    let r ← fromHexChars rest
    pure (UInt8.ofNat (x * 16 + y) :: r)

/-- `-` denotes the empty byte string on the wire protocol -/
def fromHex (s : String) : Option Bytes :=
  if s = "-" then some [] else fromHexChars s.toList

end Kmip
