import KmipModel.Registry
import KmipModel.SpecStructs
/-
  Hand-written expectations: the independent side of every comparison with tables generated from /repo.
-/
namespace Kmip.Expect

/-- spec name ↦ Go constant spelling: upper case, separators to underscores -/
def normName (s : String) : String :=
  String.ofList (s.toList.map fun c =>
    if c == ' ' || c == '-' || c == '/' || c == '.' || c == '#' then '_' else c.toUpper)

/-- spellings where the Go identifier is not the mechanical normalisation of the spec name -/
def aliases : List (String × String) := [
  ("PKCS_12_FRIENDLY_NAME", "PKCS12_FRIENDLY_NAME"),
  ("OPERATION_RE_KEY", "OPERATION_REKEY"),
  ("OPERATION_RE_CERTIFY", "OPERATION_RECERTIFY"),
  ("OPERATION_RE_KEY_KEY_PAIR", "OPERATION_REKEY_KEY_PAIR"),
  ("OBJECT_TYPE_OPAQUE_OBJECT", "OBJECT_TYPE_OPAQUE_DATA"),
  ("KEY_FORMAT_ECPRIVATEKEY", "KEY_FORMAT_EC_PRIVATE_KEY"),
  ("CRYPTO_3DES", "CRYPTO_TRIPLE_DES"),
  ("CRYPTO_CHACHA20POLY1305", "CRYPTO_CHACHA20_POLY1305"),
  ("PADDING_METHOD_PKCS5", "PADDING_METHOD_PKCS_5"),
  ("PADDING_METHOD_SSL3", "PADDING_METHOD_SSL_3"),
  ("PADDING_METHOD_PKCS1_V1_5", "PADDING_METHOD_PKCS_1_V1_5"),
  ("HASH_SHA_1", "HASH_SHA1"), ("HASH_SHA_224", "HASH_SHA224"), ("HASH_SHA_256", "HASH_SHA256"),
  ("HASH_SHA_384", "HASH_SHA384"), ("HASH_SHA_512", "HASH_SHA512"), ("HASH_SHA_512_224", "HASH_SHA512_224"),
  ("HASH_SHA_512_256", "HASH_SHA512_256"), ("HASH_SHA_3_224", "HASH_SHA3_224"), ("HASH_SHA_3_256", "HASH_SHA3_256"),
  ("HASH_SHA_3_384", "HASH_SHA3_384"), ("HASH_SHA_3_512", "HASH_SHA3_512"),
  ("BLOCK_MODE_AESKEYWRAPPADDING", "BLOCK_MODE_AESKeyWrapPadding"),
  ("BLOCK_MODE_NISTKEYWRAP", "BLOCK_MODE_NISTKeyWrap")
]

/-- a name as a number (big-endian base 256 of its characters): the kernel compares numbers fast, strings slowly -/
def keyOf (s : String) : Nat := s.toList.foldl (fun a c => a * 256 + c.toNat) 0

def mapKeys (l : List (String × Nat)) : List (Nat × Nat) := l.map fun (s, n) => (keyOf s, n)

def aliasK : List (Nat × Nat) := aliases.map fun (a, b) => (keyOf a, keyOf b)

def lookupK (tbl : List (Nat × Nat)) (k : Nat) : Option Nat :=
  (tbl.find? (·.1 == k)).map (·.2)

/-- key of the Go identifier expected for spec name `n` in the group with identifier prefix `pre`, given the alias keys -/
def goKey (al : List (Nat × Nat)) (pre n : String) : Nat :=
  let k := keyOf (pre ++ normName n)
  match lookupK al k with
  | some a => a
  | none => k

/-- (key of the expected Go identifier, number) for every entry of a registry group -/
def groupKeys (al : List (Nat × Nat)) (pre : String) (reg : List (String × Nat)) : List (Nat × Nat) :=
  reg.map fun (n, x) => (goKey al pre n, x)

/-- `a` is a subsequence of `b` (linear merge; both sides list (name key, number) pairs in the same order) -/
def isSubseq : List (Nat × Nat) → List (Nat × Nat) → Bool
  | [], _ => true
  | _ :: _, [] => false
  | (k, x) :: as, (k', x') :: bs =>
    if k == k' && x == x' then isSubseq as bs else isSubseq ((k, x) :: as) bs

/-- string-level versions, used by the driver to report offending names -/
def goName (pre n : String) : String :=
  let m := pre ++ normName n
  match aliases.find? (·.1 == m) with
  | some (_, a) => a
  | none => m

def lookup (tbl : List (String × Nat)) (n : String) : Option Nat :=
  (tbl.find? (·.1 == n)).map (·.2)

def groupBad (pre : String) (reg : List (String × Nat)) (tbl : List (String × Nat)) : List (String × Nat) :=
  reg.filter fun (n, x) => !(lookup tbl (goName pre n) == some x)

def strip (l : List (String × Nat × Nat × Nat)) : List (String × Nat) := l.map fun (a, b, _, _) => (a, b)

/-- tag names that may legitimately share a number: the three batch-item aliases, and "-" with ANY_TAG -/
def batchAliasK : List Nat := [keyOf "BATCH_ITEM", keyOf "REQUEST_BATCH_ITEM", keyOf "RESPONSE_BATCH_ITEM"]
def anyAliasK : List Nat := [keyOf "-", keyOf "ANY_TAG"]

def mayShareK (ba aa : List Nat) (a b : Nat) : Bool :=
  (ba.contains a && ba.contains b) || (aa.contains a && aa.contains b)

/-- a table listed in non-decreasing number order in which equal numbers occur only among permitted aliases:
    then no two distinct names share a number otherwise (equal numbers are adjacent in a sorted list) -/
def sortedInjective (ba aa : List Nat) : List (Nat × Nat) → Bool
  | [] => true
  | [_] => true
  | (a, x) :: (b, y) :: rest =>
    (x < y || (x == y && a != b && mayShareK ba aa a b)) && sortedInjective ba aa ((b, y) :: rest)

/-! ### C19: structure fields and nesting -/

/-- number the registry assigns to a spec tag name (0 if the name is not a registry tag) -/
def regTag (n : String) : Nat := (lookup (strip Registry.tags) n).getD 0

/-- SpecStructs.fields with names as numbers and tag names resolved through the registry:
    (type, field, expected tag number, number of the structure that must directly contain the item) -/
def specFieldKeys : List (Nat × Nat × Nat × Nat) :=
  SpecStructs.fields.map fun (t, f, tag, c) => (keyOf t, keyOf f, regTag tag, regTag c)

/-- fields the package deliberately never puts on the wire (annotated `-,skip`: any item is accepted and discarded,
    nothing is emitted): for these the expectation is the any-tag marker, not the spec's tag -/
def offWire : List (String × String) := [("MessageExtension", "VendorExtension")]

/-- expected (type, field, number) rows: the spec's tag number, or the any-tag marker for off-wire fields -/
def expectedFieldRows (offWireK : List (Nat × Nat)) (spec : List (Nat × Nat × Nat × Nat)) : List (Nat × Nat × Nat) :=
  spec.map fun (t, f, tag, _) => if offWireK.contains (t, f) then (t, f, 0xffffff) else (t, f, tag)

def tagAttributeValue : Nat := 0x42000B
def tagTemplateAttribute : Nat := 0x420091
/-- Common / Private Key / Public Key Template-Attribute: Template-Attribute structures under other tags -/
def templateAttributeTags : List Nat := [0x42001F, 0x420065, 0x42006E]

/-- a struct whose items the spec puts directly inside structure `c` may be written under tag `h` when:
    `h` is that structure; or `h` is Attribute Value (a structured attribute value carries the attribute's
    structure fields directly); or `c` is Template-Attribute and `h` one of its three tagged variants -/
def containerOk (c h : Nat) : Bool :=
  h == c || h == tagAttributeValue || (c == tagTemplateAttribute && templateAttributeTags.contains h)

def dedupPairs : List (Nat × Nat) → List (Nat × Nat)
  | [] => []
  | p :: rest => if rest.contains p then dedupPairs rest else p :: dedupPairs rest

/-- (type, container the spec requires, tag the code writes the type under) for every mismatch -/
def nestingBad (spec : List (Nat × Nat × Nat × Nat)) (holders : List (Nat × Nat)) : List (Nat × Nat × Nat) :=
  (dedupPairs (spec.map fun (t, _, _, c) => (t, c))).flatMap fun (t, c) =>
    (holders.filter fun (t', h) => t' == t && !containerOk c h).map fun (_, h) => (t, c, h)

/-- recorded nesting deviations (known findings): Authentication holds Credential Type/Value directly, omitting the Credential level -/
def knownNesting : List (Nat × Nat × Nat) := [(keyOf "Authentication", 0x420023, 0x42000C)]

end Kmip.Expect
