module kvharness

go 1.23

require github.com/smira/go-kmip v0.0.0

require github.com/pkg/errors v0.9.1

replace github.com/smira/go-kmip => /repo
