package main

import (
	"fmt"
	"go/ast"
	"go/printer"
	"go/token"
	"go/types"
	"os"
	"path/filepath"
	"sort"
	"strings"
)

// Functions whose ordered operation skeleton is emitted (receiver.method or plain name).
var skeletonFuncs = map[string]bool{
	"Server.Serve": true, "Server.Shutdown": true, "Server.serve": true, "Server.handleBatch": true,
	"Server.handleWrapped": true, "Server.getDoneChan": true, "Server.handleDiscoverVersions": true,
	"Server.Handle": true, "Server.initHandlers": true, "Server.ListenAndServe": true,
	"Client.Send": true, "Client.Connect": true, "Client.Close": true, "Client.DiscoverVersions": true,
	"DefaultServerTLSConfig": true, "DefaultClientTLSConfig": true,
}

// calls that carry no synchronisation, I/O or callback meaning and are left out of the skeleton
var ignoreCalls = []string{"s.Log.Printf", "fmt.Sprintf", "errors.Errorf", "errors.New", "errors.Wrap", "errors.Wrapf",
	"time.Now", "conn.RemoteAddr", "runtime.Stack", "string", "len", "int", "make", "log.New", "wrapError",
	"batchErr.Error", "protoErr.ResultReason", "uint32"}

func exprString(fset *token.FileSet, e ast.Node) string {
	var b strings.Builder
	_ = printer.Fprint(&b, fset, e)
	s := b.String()
	s = strings.Join(strings.Fields(s), " ")
	return s
}

type skel struct {
	fset *token.FileSet
	ops  []string
}

func (k *skel) emit(f string, a ...interface{}) { k.ops = append(k.ops, fmt.Sprintf(f, a...)) }

func ignored(name string) bool {
	for _, i := range ignoreCalls {
		if name == i || strings.HasPrefix(name, i+".") {
			return true
		}
	}
	return false
}

// calls inside an expression, in evaluation (source) order
func (k *skel) calls(e ast.Node) {
	if e == nil {
		return
	}
	ast.Inspect(e, func(n ast.Node) bool {
		switch x := n.(type) {
		case *ast.FuncLit:
			k.emit("funclit{")
			k.block(x.Body)
			k.emit("}")
			return false
		case *ast.CallExpr:
			// arguments first
			for _, a := range x.Args {
				k.calls(a)
			}
			name := exprString(k.fset, x.Fun)
			if fl, ok := x.Fun.(*ast.FuncLit); ok {
				k.emit("funclit{")
				k.block(fl.Body)
				k.emit("}")
				name = "funclit"
			}
			if sel, ok := x.Fun.(*ast.SelectorExpr); ok {
				k.calls(sel.X)
			}
			if !ignored(name) {
				if name == "close" && len(x.Args) == 1 {
					k.emit("close %s", exprString(k.fset, x.Args[0]))
				} else if name == "panic" || name == "recover" {
					k.emit("%s", name)
				} else {
					k.emit("call %s", name)
				}
			}
			return false
		case *ast.TypeAssertExpr:
			k.calls(x.X)
			if x.Type != nil {
				k.emit("assert %s", exprString(k.fset, x.Type))
			}
			return false
		case *ast.UnaryExpr:
			if x.Op == token.ARROW {
				k.calls(x.X)
				k.emit("recv %s", exprString(k.fset, x.X))
				return false
			}
		}
		return true
	})
}

func (k *skel) block(b *ast.BlockStmt) {
	if b == nil {
		return
	}
	for _, s := range b.List {
		k.stmt(s)
	}
}

func (k *skel) stmt(s ast.Stmt) {
	switch x := s.(type) {
	case *ast.ExprStmt:
		k.calls(x.X)
	case *ast.AssignStmt:
		for _, r := range x.Rhs {
			k.calls(r)
		}
		for _, l := range x.Lhs {
			ls := exprString(k.fset, l)
			if strings.HasPrefix(ls, "s.") || strings.HasPrefix(ls, "c.") || strings.HasPrefix(ls, "config.") || strings.Contains(ls, "resp.") || strings.HasPrefix(ls, "requestCtx.") || strings.HasPrefix(ls, "sessionCtx.") || ls == "err" {
				if ls != "err" {
					k.emit("set %s", ls)
				}
			}
		}
	case *ast.IncDecStmt:
	case *ast.DeclStmt:
		if gd, ok := x.Decl.(*ast.GenDecl); ok {
			for _, sp := range gd.Specs {
				if vs, ok := sp.(*ast.ValueSpec); ok {
					for _, v := range vs.Values {
						k.calls(v)
					}
				}
			}
		}
	case *ast.DeferStmt:
		k.emit("defer{")
		k.calls(x.Call)
		k.emit("}")
	case *ast.GoStmt:
		k.emit("go{")
		k.calls(x.Call)
		k.emit("}")
	case *ast.ReturnStmt:
		for _, r := range x.Results {
			k.calls(r)
		}
		rs := []string{}
		for _, r := range x.Results {
			rs = append(rs, exprString(k.fset, r))
		}
		k.emit("return %s", strings.Join(rs, ","))
	case *ast.BranchStmt:
		k.emit("%s", x.Tok.String())
	case *ast.BlockStmt:
		k.block(x)
	case *ast.IfStmt:
		if x.Init != nil {
			k.stmt(x.Init)
		}
		k.calls(x.Cond)
		k.emit("if %s {", exprString(k.fset, x.Cond))
		k.block(x.Body)
		if x.Else != nil {
			k.emit("} else {")
			k.stmt(x.Else)
		}
		k.emit("}")
	case *ast.ForStmt:
		if x.Init != nil {
			k.stmt(x.Init)
		}
		cond := ""
		if x.Cond != nil {
			cond = exprString(k.fset, x.Cond)
		}
		k.emit("for %s {", cond)
		k.block(x.Body)
		k.emit("}")
	case *ast.RangeStmt:
		k.emit("range %s {", exprString(k.fset, x.X))
		k.block(x.Body)
		k.emit("}")
	case *ast.SelectStmt:
		k.emit("select {")
		for _, c := range x.Body.List {
			cc := c.(*ast.CommClause)
			if cc.Comm == nil {
				k.emit("default:")
			} else {
				switch cm := cc.Comm.(type) {
				case *ast.ExprStmt:
					if u, ok := cm.X.(*ast.UnaryExpr); ok && u.Op == token.ARROW {
						k.calls(u.X)
						k.emit("case recv %s:", exprString(k.fset, u.X))
					} else {
						k.emit("case %s:", exprString(k.fset, cm.X))
					}
				default:
					k.emit("case %s:", exprString(k.fset, cc.Comm))
				}
			}
			for _, s := range cc.Body {
				k.stmt(s)
			}
		}
		k.emit("}")
	case *ast.SwitchStmt:
		tag := ""
		if x.Tag != nil {
			tag = exprString(k.fset, x.Tag)
		}
		k.emit("switch %s {", tag)
		for _, c := range x.Body.List {
			cc := c.(*ast.CaseClause)
			ls := []string{}
			for _, e := range cc.List {
				ls = append(ls, exprString(k.fset, e))
			}
			if len(ls) == 0 {
				k.emit("default:")
			} else {
				k.emit("case %s:", strings.Join(ls, ","))
			}
			for _, s := range cc.Body {
				k.stmt(s)
			}
		}
		k.emit("}")
	case *ast.TypeSwitchStmt:
		k.emit("typeswitch {")
		k.block(x.Body)
		k.emit("}")
	case *ast.LabeledStmt:
		k.stmt(x.Stmt)
	}
}

func leanStr(s string) string {
	s = strings.ReplaceAll(s, "\\", "\\\\")
	s = strings.ReplaceAll(s, "\"", "\\\"")
	return "\"" + s + "\""
}

func funcKey(fd *ast.FuncDecl) string {
	if fd.Recv != nil && len(fd.Recv.List) == 1 {
		t := fd.Recv.List[0].Type
		if st, ok := t.(*ast.StarExpr); ok {
			t = st.X
		}
		if id, ok := t.(*ast.Ident); ok {
			return id.Name + "." + fd.Name.Name
		}
	}
	return fd.Name.Name
}

// access table -------------------------------------------------------------------------------

type access struct {
	fn    string // function
	loc   string // "Server.l", "pkg.tagMap", ...
	write bool
	held  bool // s.mu held (linear walk)
	pos   string
}

// syncTable walks every function: tracks `s.mu.Lock()/Unlock()` linearly (a `defer s.mu.Unlock()` holds to the end),
// and records each read/write of a Server/Client field and of every package-level variable.
func syncTable(fset *token.FileSet, files []*ast.File, info *types.Info, pkg *types.Package) []access {
	var out []access
	for _, f := range files {
		for _, d := range f.Decls {
			fd, ok := d.(*ast.FuncDecl)
			if !ok || fd.Body == nil {
				continue
			}
			key := funcKey(fd)
			held := false
			deferred := false
			written := map[ast.Node]bool{}
			var walk func(n ast.Node) bool
			record := func(e ast.Expr, write bool) {
				switch x := e.(type) {
				case *ast.SelectorExpr:
					if sel, ok := info.Selections[x]; ok && sel.Kind() == types.FieldVal {
						recv := sel.Recv().String()
						recv = strings.TrimPrefix(recv, "*")
						recv = strings.TrimPrefix(recv, "github.com/smira/go-kmip.")
						if recv == "Server" || recv == "Client" {
							out = append(out, access{key, recv + "." + x.Sel.Name, write, held || deferred, fset.Position(x.Pos()).String()})
						}
					}
				case *ast.Ident:
					if obj, ok := info.Uses[x]; ok {
						if v, ok := obj.(*types.Var); ok && v.Parent() == pkg.Scope() {
							out = append(out, access{key, "pkg." + x.Name, write, held || deferred, fset.Position(x.Pos()).String()})
						}
					}
				}
			}
			walk = func(n ast.Node) bool {
				switch x := n.(type) {
				case *ast.DeferStmt:
					if exprString(fset, x.Call.Fun) == "s.mu.Unlock" {
						deferred = true
						return false
					}
				case *ast.CallExpr:
					if sel, ok := x.Fun.(*ast.SelectorExpr); ok {
						if id, ok := sel.X.(*ast.Ident); ok {
							if obj, ok := info.Uses[id]; ok {
								if v, ok := obj.(*types.Var); ok && v.Parent() == pkg.Scope() {
									// a method call on a package-level variable may mutate it (sync.Map.Store, ...)
									out = append(out, access{key, "pkg." + id.Name, true, held || deferred, fset.Position(x.Pos()).String()})
								}
							}
						}
					}
					switch exprString(fset, x.Fun) {
					case "s.mu.Lock":
						held = true
						return false
					case "s.mu.Unlock":
						held = false
						return false
					}
				case *ast.AssignStmt:
					for _, r := range x.Rhs {
						ast.Inspect(r, walk)
					}
					for _, l := range x.Lhs {
						// s.x = ..., s.m[k] = ..., pkgvar = ..., pkgvar[k] = ...
						base := l
						if ix, ok := base.(*ast.IndexExpr); ok {
							ast.Inspect(ix.Index, walk)
							base = ix.X
						}
						switch b := base.(type) {
						case *ast.SelectorExpr:
							written[b] = true
							record(b, true)
							ast.Inspect(b.X, walk)
						case *ast.Ident:
							written[b] = true
							record(b, true)
						default:
							ast.Inspect(l, walk)
						}
					}
					return false
				case *ast.SelectorExpr:
					if !written[x] {
						record(x, false)
					}
				case *ast.Ident:
					if !written[x] {
						record(x, false)
					}
				}
				return true
			}
			ast.Inspect(fd.Body, walk)
		}
	}
	return out
}

func writeSkeleton(dir string, fset *token.FileSet, files []*ast.File, info *types.Info, pkg *types.Package) {
	skels := map[string][]string{}
	for _, f := range files {
		for _, d := range f.Decls {
			fd, ok := d.(*ast.FuncDecl)
			if !ok || fd.Body == nil {
				continue
			}
			key := funcKey(fd)
			if !skeletonFuncs[key] {
				continue
			}
			k := &skel{fset: fset}
			k.block(fd.Body)
			skels[key] = k.ops
		}
	}
	var keys []string
	for k := range skels {
		keys = append(keys, k)
	}
	sort.Strings(keys)
	var b strings.Builder
	b.WriteString("-- GENERATED by kvscan from /repo (server.go, client.go, tls.go); DO NOT EDIT.\nnamespace KmipGen\n\n")
	for _, k := range keys {
		fmt.Fprintf(&b, "def skel_%s : List String := [\n", strings.ReplaceAll(k, ".", "_"))
		for i, op := range skels[k] {
			sep := ","
			if i == len(skels[k])-1 {
				sep = ""
			}
			fmt.Fprintf(&b, "  %s%s\n", leanStr(op), sep)
		}
		b.WriteString("]\n\n")
	}
	b.WriteString("def skeletonNames : List String := [")
	for i, k := range keys {
		if i > 0 {
			b.WriteString(", ")
		}
		b.WriteString(leanStr(k))
	}
	b.WriteString("]\n\nend KmipGen\n")
	writeIfChanged(filepath.Join(dir, "Skeleton.lean"), b.String())

	// access table
	acc := syncTable(fset, files, info, pkg)
	type row struct {
		fn, loc   string
		write, hd bool
	}
	seen := map[row]bool{}
	var rows []row
	for _, a := range acc {
		r := row{a.fn, a.loc, a.write, a.held}
		if !seen[r] {
			seen[r] = true
			rows = append(rows, r)
		}
	}
	sort.Slice(rows, func(i, j int) bool {
		if rows[i].loc != rows[j].loc {
			return rows[i].loc < rows[j].loc
		}
		if rows[i].fn != rows[j].fn {
			return rows[i].fn < rows[j].fn
		}
		if rows[i].write != rows[j].write {
			return !rows[i].write
		}
		return !rows[i].hd
	})
	var c strings.Builder
	c.WriteString("-- GENERATED by kvscan from /repo; DO NOT EDIT.\n-- (function, scope, name, isWrite, muHeld) for every access to a Server/Client field (scope = type) or package-level variable (scope = \"pkg\")\nnamespace KmipGen\n\n")
	c.WriteString("def accessTable : List (String × String × String × Bool × Bool) := [\n")
	for i, r := range rows {
		sep := ","
		if i == len(rows)-1 {
			sep = ""
		}
		sc := strings.SplitN(r.loc, ".", 2)
		fmt.Fprintf(&c, "  (%s, %s, %s, %v, %v)%s\n", leanStr(r.fn), leanStr(sc[0]), leanStr(sc[1]), r.write, r.hd, sep)
	}
	c.WriteString("]\n\nend KmipGen\n")
	writeIfChanged(filepath.Join(dir, "SyncTable.lean"), c.String())
}

func writeIfChanged(path, content string) {
	old, err := os.ReadFile(path)
	if err == nil && string(old) == content {
		return
	}
	if err := os.WriteFile(path, []byte(content), 0o644); err != nil {
		die("%v", err)
	}
}
