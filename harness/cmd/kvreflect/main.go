// kvreflect is stage 2 of the translator.  It links against the real package in /repo, reflects on every
// exported struct type with `kmip` annotations, CALLS the real BuildFieldValue methods to tabulate dynamic
// dispatch, observes the unexported tagMap through the public Encode API, applies the TLS default
// functions to probe configs, and prints all of that as Lean source (KmipGen/*.lean).
//
// It deliberately does NOT reuse fields.go: the descriptor logic is re-derived from reflect here, and
// the result is tied to the real codec by the correspondence check (model encode/decode vs real).
package main

import (
	"bytes"
	"crypto/tls"
	"flag"
	"fmt"
	"math/big"
	"os"
	"path/filepath"
	"reflect"
	"sort"
	"strings"
	"time"

	kmip "github.com/smira/go-kmip"
	"kvharness/internal/gentab"
)

func die(f string, a ...interface{}) {
	fmt.Fprintf(os.Stderr, "kvreflect: "+f+"\n", a...)
	os.Exit(2)
}

var (
	tTag      = reflect.TypeOf(kmip.Tag(0))
	tEnum     = reflect.TypeOf(kmip.Enum(0))
	tInt32    = reflect.TypeOf(int32(0))
	tInt64    = reflect.TypeOf(int64(0))
	tBool     = reflect.TypeOf(false)
	tBytes    = reflect.TypeOf([]byte(nil))
	tString   = reflect.TypeOf("")
	tTime     = reflect.TypeOf(time.Time{})
	tDuration = reflect.TypeOf(time.Duration(0))
	tDispatch = reflect.TypeOf((*kmip.DynamicDispatch)(nil)).Elem()
)

// tag number a name resolves to, observed through Encode: a struct whose Tag-typed field is annotated
// with the name is encoded and the first three bytes read back. ok=false if Encode rejects the name.
func resolveTag(name string) (uint32, bool) {
	st := reflect.StructOf([]reflect.StructField{
		{Name: "T", Type: tTag, Tag: reflect.StructTag(fmt.Sprintf(`kmip:"%s"`, name))},
	})
	var buf bytes.Buffer
	if err := kmip.NewEncoder(&buf).Encode(reflect.New(st).Interface()); err != nil {
		return 0, false
	}
	b := buf.Bytes()
	if len(b) < 8 {
		return 0, false
	}
	return uint32(b[0])<<16 | uint32(b[1])<<8 | uint32(b[2]), true
}

// tag number as resolved for a *field* annotation (the path used for every ordinary field)
func resolveFieldTag(name string) (uint32, bool) {
	st := reflect.StructOf([]reflect.StructField{
		{Name: "F", Type: tInt32, Tag: reflect.StructTag(fmt.Sprintf(`kmip:"%s,required"`, name))},
	})
	var buf bytes.Buffer
	if err := kmip.NewEncoder(&buf).Encode(reflect.New(st).Interface()); err != nil {
		return 0, false
	}
	b := buf.Bytes()
	if len(b) < 24 {
		// a field under the any-tag marker is not emitted at all: that is how the marker is observed
		return 0xffffff, len(b) == 8
	}
	return uint32(b[8])<<16 | uint32(b[9])<<8 | uint32(b[10]), true
}

func parseAnn(tag string) (name, opt string) {
	parts := strings.SplitN(tag, ",", 2)
	name = parts[0]
	if len(parts) > 1 {
		opt = parts[1]
	}
	return
}

type fieldInfo struct {
	goName, tagName string
	tag             uint32
	tagOK           bool
	required, slice bool
	skip            bool
	ty              string // Lean FTy expression
	dep             []string
	dynamic         bool
	index           int // index among annotated fields
	goType          reflect.Type
}

type typeInfo struct {
	name      string
	rt        reflect.Type
	tagName   string
	tag       uint32
	fields    []fieldInfo
	annotated bool
}

func leanStr(s string) string {
	s = strings.ReplaceAll(s, "\\", "\\\\")
	s = strings.ReplaceAll(s, "\"", "\\\"")
	return "\"" + s + "\""
}

// nameKey is the big-endian base-256 number of the name's bytes: Lean compares these instead of strings
// (kernel evaluation of string equality is slow); GenC18 proves the K tables equal the string tables mapped by the same function
func nameKeyInt(s string) *big.Int {
	n := new(big.Int)
	for i := 0; i < len(s); i++ {
		n.Mul(n, big.NewInt(256))
		n.Add(n, big.NewInt(int64(s[i])))
	}
	return n
}

type keyRow struct {
	key *big.Int
	num uint64
}

// renderKeyRows sorts by (number, key) and renders
func renderKeyRows(kr []keyRow) string {
	sort.SliceStable(kr, func(i, j int) bool {
		if kr[i].num != kr[j].num {
			return kr[i].num < kr[j].num
		}
		return kr[i].key.Cmp(kr[j].key) < 0
	})
	var rows []string
	for _, r := range kr {
		rows = append(rows, fmt.Sprintf("  (%s, 0x%x)", r.key.String(), r.num))
	}
	return strings.Join(rows, ",\n")
}

func leanBytes(s string) string {
	var b strings.Builder
	b.WriteString("[")
	for i := 0; i < len(s); i++ {
		if i > 0 {
			b.WriteString(", ")
		}
		fmt.Fprintf(&b, "%d", s[i])
	}
	b.WriteString("]")
	return b.String()
}

func primTy(t reflect.Type) (string, bool) {
	switch t {
	case tInt32:
		return "(.prim .int)", true
	case tInt64:
		return "(.prim .long)", true
	case tEnum:
		return "(.prim .enum)", true
	case tBool:
		return "(.prim .bool)", true
	case tBytes:
		return "(.prim .bytes)", true
	case tString:
		return "(.prim .text)", true
	case tTime:
		return "(.prim .time)", true
	case tDuration:
		return "(.prim .interval)", true
	}
	return "", false
}

var (
	byName         = map[string]*typeInfo{}
	byRType        = map[reflect.Type]*typeInfo{}
	order          []string
	visiting       = map[string]bool{}
	emitted        = map[string]bool{}
	allNums        []uint64
	dispatchPanics []string
	allStrs        []string
)

func describe(name string, rt reflect.Type) *typeInfo {
	ti := &typeInfo{name: name, rt: rt}
	idx := 0
	for i := 0; i < rt.NumField(); i++ {
		ff := rt.Field(i)
		ann, has := ff.Tag.Lookup("kmip")
		tn, opt := parseAnn(ann)
		if ff.Type == tTag {
			ti.tagName = tn
			ti.tag, _ = resolveTag(tn)
			if has {
				ti.annotated = true
			}
			continue
		}
		if tn == "" || ff.PkgPath != "" {
			continue
		}
		ti.annotated = true
		f := fieldInfo{goName: ff.Name, tagName: tn, index: idx, goType: ff.Type}
		idx++
		f.tag, f.tagOK = resolveFieldTag(tn)
		if tn == "-" {
			f.tag, f.tagOK = resolveTag(tn)
		}
		f.required = strings.Contains(opt, "required")
		f.skip = strings.Contains(opt, "skip")
		ft := ff.Type
		if ft.Kind() == reflect.Slice && ft != tBytes {
			f.slice = true
			ft = ft.Elem()
		}
		if p, ok := primTy(ft); ok {
			f.ty = p
		} else if ft.Kind() == reflect.Struct {
			if sub, ok := byRType[ft]; ok {
				f.ty = "(.struct sd_" + sub.name + ")"
				f.dep = append(f.dep, sub.name)
			} else {
				f.ty = ".unsupported" // struct type that is not an exported package type
			}
		} else if ft.Kind() == reflect.Interface {
			f.dynamic = true
		} else {
			f.ty = ".unsupported"
		}
		if !f.tagOK {
			f.ty = ".unsupported"
		}
		ti.fields = append(ti.fields, f)
	}
	return ti
}

// probeDispatch calls the real BuildFieldValue for every candidate selector value
func probeDispatch(ti *typeInfo, f *fieldInfo) (sel int, entries []string, deps []string, note string) {
	sel = -1
	if !reflect.PtrTo(ti.rt).Implements(tDispatch) {
		return -1, nil, nil, "no DynamicDispatch"
	}
	call := func(set func(v reflect.Value)) (res interface{}, err error, panicked bool) {
		p := reflect.New(ti.rt)
		set(p.Elem())
		defer func() {
			if r := recover(); r != nil {
				panicked = true
			}
		}()
		res, err = p.Interface().(kmip.DynamicDispatch).BuildFieldValue(f.goName)
		return
	}
	best := 0
	for ci := range ti.fields {
		c := &ti.fields[ci]
		if c.index >= f.index || c.slice || c.dynamic {
			continue
		}
		var ents []string
		var dps []string
		hits := 0
		record := func(key string, res interface{}) {
			rv := reflect.ValueOf(res)
			if !rv.IsValid() {
				return
			}
			ptr := false
			rt := rv.Type()
			if rt.Kind() == reflect.Ptr {
				ptr = true
				rt = rt.Elem()
			}
			ty := ".unsupported"
			if p, ok := primTy(rt); ok {
				ty = p
			} else if sub, ok := byRType[rt]; ok {
				ty = "(.struct sd_" + sub.name + ")"
				dps = append(dps, sub.name)
			}
			ents = append(ents, fmt.Sprintf(".mk %s %v %s", key, ptr, ty))
			hits++
		}
		switch c.goType {
		case tEnum:
			for _, n := range allNums {
				n := n
				res, err, pk := call(func(v reflect.Value) { v.FieldByName(c.goName).SetUint(n) })
				if pk {
					note += fmt.Sprintf("panic at %s=%d; ", c.goName, n)
					continue
				}
				if err == nil {
					record(fmt.Sprintf("(.enum %d)", n), res)
				}
			}
		case tString:
			for _, s := range allStrs {
				s := s
				res, err, pk := call(func(v reflect.Value) { v.FieldByName(c.goName).SetString(s) })
				if pk {
					note += fmt.Sprintf("panic at %s=%q; ", c.goName, s)
					continue
				}
				if err == nil {
					record(fmt.Sprintf("(.str %s /- %s -/)", leanBytes(s), strings.ReplaceAll(s, "-/", "- /")), res)
				}
			}
		default:
			continue
		}
		if hits > best {
			best, sel, entries, deps = hits, c.index, ents, dps
		}
	}
	return
}

func emitType(b *strings.Builder, name string) {
	if emitted[name] {
		return
	}
	if visiting[name] {
		die("recursive schema through %s: the model cannot express a recursive schema", name)
	}
	visiting[name] = true
	ti := byName[name]
	type dynRes struct {
		sel  int
		ents []string
	}
	dyn := map[int]dynRes{}
	for i := range ti.fields {
		f := &ti.fields[i]
		for _, d := range f.dep {
			emitType(b, d)
		}
		if f.dynamic && f.tagOK {
			sel, ents, deps, note := probeDispatch(ti, f)
			if note != "" {
				if strings.Contains(note, "panic at") {
					dispatchPanics = append(dispatchPanics, fmt.Sprintf("%s.%s: %s", ti.name, f.goName, strings.TrimSpace(note)))
				}
				fmt.Fprintf(b, "-- dispatch probe of %s.%s: %s\n", ti.name, f.goName, note)
			}
			for _, d := range deps {
				emitType(b, d)
			}
			if sel < 0 {
				sel = 0
			}
			dyn[i] = dynRes{sel, ents}
		}
	}
	fmt.Fprintf(b, "def sd_%s : SD := .mk %s 0x%06x [\n", ti.name, leanStr(ti.name), ti.tag)
	for i, f := range ti.fields {
		ty := f.ty
		if f.dynamic && f.tagOK {
			d := dyn[i]
			ty = fmt.Sprintf("(.dyn %d [\n      %s])", d.sel, strings.Join(d.ents, ",\n      "))
		}
		sep := ","
		if i == len(ti.fields)-1 {
			sep = ""
		}
		fmt.Fprintf(b, "  .mk %s 0x%06x %v %v %v %s%s\n", leanStr(f.goName), f.tag, f.required, f.slice, f.skip, ty, sep)
	}
	b.WriteString("]\n\n")
	emitted[name] = true
	visiting[name] = false
	order = append(order, name)
}

func writeIfChanged(path, content string) {
	old, err := os.ReadFile(path)
	if err == nil && string(old) == content {
		return
	}
	if err := os.WriteFile(path, []byte(content), 0o644); err != nil {
		die("%v", err)
	}
}

func main() {
	out := flag.String("out", "", "output directory (lean/KmipGen)")
	flag.Parse()
	if *out == "" {
		die("-out required")
	}

	// candidate selector values: every Enum constant value, a dense low range, boundary values; every string constant
	numSet := map[uint64]bool{}
	for n := uint64(0); n <= 0x200; n++ {
		numSet[n] = true
	}
	for _, n := range []uint64{0x7fffffff, 0x80000000, 0x80000001, 0xffffffff} {
		numSet[n] = true
	}
	strSet := map[string]bool{"": true, "x": true, "Unknown Attribute": true}
	for _, c := range gentab.Consts {
		if c.Typ == "Enum" {
			numSet[c.Num] = true
		}
		if c.Typ == "string" {
			strSet[c.Str] = true
		}
	}
	for n := range numSet {
		allNums = append(allNums, n)
	}
	sort.Slice(allNums, func(i, j int) bool { return allNums[i] < allNums[j] })
	for s := range strSet {
		allStrs = append(allStrs, s)
	}
	sort.Strings(allStrs)

	for _, t := range gentab.Types {
		rt := reflect.TypeOf(t.Val)
		byRType[rt] = &typeInfo{name: t.Name, rt: rt}
	}
	var names []string
	for _, t := range gentab.Types {
		rt := reflect.TypeOf(t.Val)
		ti := describe(t.Name, rt)
		if !ti.annotated {
			delete(byRType, rt)
			continue
		}
		byName[t.Name] = ti
		byRType[rt] = ti
		names = append(names, t.Name)
	}
	// second pass so that struct-typed fields see only annotated types
	for _, n := range names {
		ti := describe(n, byName[n].rt)
		byName[n] = ti
		byRType[ti.rt] = ti
	}
	sort.Strings(names)

	// ---- Schema.lean
	var b strings.Builder
	b.WriteString("import KmipModel.Schema\n-- GENERATED by kvreflect from /repo (reflection on the real struct types + calls of the real BuildFieldValue); DO NOT EDIT.\nnamespace KmipGen\nopen Kmip\n\n")
	for _, n := range names {
		emitType(&b, n)
	}
	b.WriteString("-- selector values at which a real BuildFieldValue call PANICKED while the tables above were being tabulated\n-- (every value 0..0x200, every enumeration constant, the 32-bit boundaries; every attribute-name constant and unknown names)\ndef dispatchPanics : List String := [")
	for i, p := range dispatchPanics {
		if i > 0 {
			b.WriteString(", ")
		}
		b.WriteString(leanStr(p))
	}
	b.WriteString("]\n\n")
	b.WriteString("def allSchemas : List SD := [\n")
	for i, n := range names {
		sep := ","
		if i == len(names)-1 {
			sep = ""
		}
		fmt.Fprintf(&b, "  sd_%s%s\n", n, sep)
	}
	b.WriteString("]\n\n")
	nf := 0
	b.WriteString("/-- (Go type, Go field, annotation name, resolved tag number) for every annotated field -/\ndef fieldTable : List (String × String × String × Nat) := [\n")
	var rows []string
	for _, n := range names {
		for _, f := range byName[n].fields {
			rows = append(rows, fmt.Sprintf("  (%s, %s, %s, 0x%06x)", leanStr(n), leanStr(f.goName), leanStr(f.tagName), f.tag))
			nf++
		}
	}
	b.WriteString(strings.Join(rows, ",\n"))
	b.WriteString("\n]\n\n/-- (Go type, annotation of the embedded Tag field, resolved number); types without a Tag field are absent -/\ndef structTagTable : List (String × String × Nat) := [\n")
	rows = nil
	for _, n := range names {
		if byName[n].tagName != "" {
			rows = append(rows, fmt.Sprintf("  (%s, %s, 0x%06x)", leanStr(n), leanStr(byName[n].tagName), byName[n].tag))
		}
	}
	b.WriteString(strings.Join(rows, ",\n"))
	// number-keyed versions (names as numbers, see nameKeyInt): (type, field, resolved tag number), same order as fieldTable
	b.WriteString("\n]\n\ndef fieldTableK : List (Nat × Nat × Nat) := [\n")
	rows = nil
	for _, n := range names {
		for _, f := range byName[n].fields {
			rows = append(rows, fmt.Sprintf("  (%s, %s, 0x%06x)", nameKeyInt(n).String(), nameKeyInt(f.goName).String(), f.tag))
		}
	}
	b.WriteString(strings.Join(rows, ",\n"))
	// holders: under which tags a struct type's items are placed: its own struct tag (top-level use), the tag of every
	// field whose type is (a slice of) the struct, and the tag of every dynamic field that dispatches to it
	b.WriteString("\n]\n\n/-- (struct type, tag number under which values of the type are written): own Tag, holder fields, dynamic holders -/\ndef holders : List (String × String × Nat) := [\n")
	type hold struct {
		typ, via string
		tag      uint32
	}
	var hs []hold
	for _, n := range names {
		ti := byName[n]
		if ti.tagName != "" {
			hs = append(hs, hold{n, "own Tag", ti.tag})
		}
		for _, f := range ti.fields {
			ft := f.goType
			if ft.Kind() == reflect.Slice && ft != tBytes {
				ft = ft.Elem()
			}
			if sub, ok := byRType[ft]; ok && ft.Kind() == reflect.Struct {
				hs = append(hs, hold{sub.name, n + "." + f.goName, f.tag})
			}
			if f.dynamic && f.tagOK {
				_, _, deps, _ := probeDispatch(ti, &f)
				seen := map[string]bool{}
				for _, dname := range deps {
					if !seen[dname] {
						seen[dname] = true
						hs = append(hs, hold{dname, n + "." + f.goName + " (dynamic)", f.tag})
					}
				}
			}
		}
	}
	sort.SliceStable(hs, func(i, j int) bool { return hs[i].typ < hs[j].typ })
	rows = nil
	var holdRowsK []string
	for _, h := range hs {
		rows = append(rows, fmt.Sprintf("  (%s, %s, 0x%06x)", leanStr(h.typ), leanStr(h.via), h.tag))
		holdRowsK = append(holdRowsK, fmt.Sprintf("  (%s, 0x%06x)", nameKeyInt(h.typ).String(), h.tag))
	}
	b.WriteString(strings.Join(rows, ",\n"))
	b.WriteString("\n]\n\ndef holdersK : List (Nat × Nat) := [\n")
	b.WriteString(strings.Join(holdRowsK, ",\n"))
	fmt.Fprintf(&b, "\n]\n\ndef numTypes : Nat := %d\ndef numFields : Nat := %d\n\nend KmipGen\n", len(names), nf)
	writeIfChanged(filepath.Join(*out, "Schema.lean"), b.String())

	// ---- Consts.lean
	var c strings.Builder
	c.WriteString("-- GENERATED by kvscan/kvreflect from /repo/consts.go (constant values as compiled); DO NOT EDIT.\nnamespace KmipGen\n\n")
	for _, grp := range []struct{ typ, def string }{{"Tag", "tagConsts"}, {"Type", "typeConsts"}, {"Enum", "enumConsts"}} {
		fmt.Fprintf(&c, "def %s : List (String × Nat) := [\n", grp.def)
		rows = nil
		for _, k := range gentab.Consts {
			if k.Typ == grp.typ {
				rows = append(rows, fmt.Sprintf("  (%s, 0x%x)", leanStr(k.Name), k.Num))
			}
		}
		c.WriteString(strings.Join(rows, ",\n"))
		c.WriteString("\n]\n\n")
		fmt.Fprintf(&c, "/-- (name as a number, value), sorted by (value, name key) -/\ndef %sK : List (Nat × Nat) := [\n", grp.def)
		var kr []keyRow
		for _, k := range gentab.Consts {
			if k.Typ == grp.typ {
				kr = append(kr, keyRow{nameKeyInt(k.Name), k.Num})
			}
		}
		c.WriteString(renderKeyRows(kr))
		c.WriteString("\n]\n\n")
	}
	c.WriteString("def stringConsts : List (String × String) := [\n")
	rows = nil
	for _, k := range gentab.Consts {
		if k.Typ == "string" {
			rows = append(rows, fmt.Sprintf("  (%s, %s)", leanStr(k.Name), leanStr(k.Str)))
		}
	}
	c.WriteString(strings.Join(rows, ",\n"))
	c.WriteString("\n]\n\n")
	// tagMap observed through Encode, for every key of the map literal
	c.WriteString("/-- annotation name ↦ number, observed by encoding a struct annotated with the name (struct-tag path) -/\ndef tagMapStruct : List (String × Nat) := [\n")
	rows = nil
	var rows2 []string
	var rowsK, rows2K []keyRow
	for _, kv := range gentab.MapKeys["tagMap"] {
		k := strings.SplitN(kv, "=", 2)[0]
		if n, ok := resolveTag(k); ok {
			rows = append(rows, fmt.Sprintf("  (%s, 0x%06x)", leanStr(k), n))
			rowsK = append(rowsK, keyRow{nameKeyInt(k), uint64(n)})
		}
		if n, ok := resolveFieldTag(k); ok {
			rows2 = append(rows2, fmt.Sprintf("  (%s, 0x%06x)", leanStr(k), n))
			rows2K = append(rows2K, keyRow{nameKeyInt(k), uint64(n)})
		}
	}
	c.WriteString(strings.Join(rows, ",\n"))
	c.WriteString("\n]\n\n/-- the same through the field-annotation path -/\ndef tagMapField : List (String × Nat) := [\n")
	c.WriteString(strings.Join(rows2, ",\n"))
	c.WriteString("\n]\n\ndef tagMapStructK : List (Nat × Nat) := [\n" + renderKeyRows(rowsK) + "\n]\n\ndef tagMapFieldK : List (Nat × Nat) := [\n" + renderKeyRows(rows2K))
	c.WriteString("\n]\n\n/-- map-literal entries as written in the source: key ↦ constant identifier -/\ndef tagMapSource : List (String × String) := [\n")
	rows = nil
	for _, kv := range gentab.MapKeys["tagMap"] {
		p := strings.SplitN(kv, "=", 2)
		rows = append(rows, fmt.Sprintf("  (%s, %s)", leanStr(p[0]), leanStr(p[1])))
	}
	c.WriteString(strings.Join(rows, ",\n"))
	// names NOT in the map must be rejected
	_, bogus := resolveTag("NO_SUCH_TAG_NAME")
	fmt.Fprintf(&c, "\n]\n\ndef unknownNameRejected : Bool := %v\n\nend KmipGen\n", !bogus)
	writeIfChanged(filepath.Join(*out, "Consts.lean"), c.String())

	// ---- TlsDefaults.lean: apply the real functions to a zero and to an adversarial config
	var t strings.Builder
	t.WriteString("-- GENERATED by kvreflect: results of the real DefaultServerTLSConfig / DefaultClientTLSConfig; DO NOT EDIT.\nnamespace KmipGen\n\n")
	t.WriteString("/-- (role, (MinVersion, MaxVersion, ClientAuth, InsecureSkipVerify, PreferServerCipherSuites) before, the same after the call) -/\ndef tlsDefaults : List (String × (Nat × Nat × Nat × Bool × Bool) × (Nat × Nat × Nat × Bool × Bool)) := [\n")
	rows = nil
	tup := func(c *tls.Config) string {
		return fmt.Sprintf("(0x%04x, 0x%04x, %d, %v, %v)", c.MinVersion, c.MaxVersion, int(c.ClientAuth), c.InsecureSkipVerify, c.PreferServerCipherSuites)
	}
	probes := []func() *tls.Config{
		func() *tls.Config { return &tls.Config{} },
		func() *tls.Config { return &tls.Config{MinVersion: tls.VersionTLS10, ClientAuth: tls.NoClientCert} },
		func() *tls.Config {
			return &tls.Config{MinVersion: tls.VersionTLS11, ClientAuth: tls.RequestClientCert, MaxVersion: tls.VersionTLS13}
		},
		func() *tls.Config {
			return &tls.Config{MinVersion: tls.VersionTLS13, ClientAuth: tls.RequireAndVerifyClientCert, PreferServerCipherSuites: true}
		},
		func() *tls.Config {
			return &tls.Config{MinVersion: tls.VersionTLS10, ClientAuth: tls.VerifyClientCertIfGiven, InsecureSkipVerify: true, MaxVersion: tls.VersionTLS12}
		},
		func() *tls.Config { return &tls.Config{ClientAuth: tls.RequireAnyClientCert, MinVersion: 0x0300} },
	}
	for _, mk := range probes {
		s := mk()
		before := tup(s)
		kmip.DefaultServerTLSConfig(s)
		rows = append(rows, fmt.Sprintf("  (\"server\", %s, %s)", before, tup(s)))
		cl := mk()
		before = tup(cl)
		kmip.DefaultClientTLSConfig(cl)
		rows = append(rows, fmt.Sprintf("  (\"client\", %s, %s)", before, tup(cl)))
	}
	t.WriteString(strings.Join(rows, ",\n"))
	t.WriteString("\n]\n\n")
	fmt.Fprintf(&t, "def defaultSupportedVersions : List (Nat × Nat) := [")
	for i, v := range kmip.DefaultSupportedVersions {
		if i > 0 {
			t.WriteString(", ")
		}
		fmt.Fprintf(&t, "(%d, %d)", v.Major, v.Minor)
	}
	t.WriteString("]\n\nend KmipGen\n")
	writeIfChanged(filepath.Join(*out, "TlsDefaults.lean"), t.String())
	fmt.Printf("kvreflect: %d types, %d fields\n", len(names), nf)
}
