package main

import (
	"bytes"
	"context"
	"crypto/tls"
	"encoding/binary"
	"fmt"
	"math/rand"
	"net"
	"reflect"
	"strings"
	"sync"
	"time"

	kmip "github.com/smira/go-kmip"

	"kvharness/internal/drv"
	"kvharness/internal/gen"
	"kvharness/internal/gentab"
	"kvharness/internal/mut"
	"kvharness/internal/render"
	"kvharness/internal/tlsm"
)

// ---- C14: the Client against arbitrary replies --------------------------------------------------------------------

func init() { props["C14"] = runC14 }

// rawServer answers every connection by reading one request and then writing the next scripted reply bytes
type rawServer struct {
	ln      net.Listener
	mu      sync.Mutex
	replies map[string][]byte // keyed by the client correlation... we key by connection order instead
	next    chan []byte
	lastReq chan []byte
	// splitAt: the next reply is written in two pieces, the first `splitAt` bytes, a pause, the rest (0 = in one piece)
	splitAt chan int
}

func newRawServer(cert tls.Certificate) (*rawServer, error) {
	ln, err := tls.Listen("tcp", "127.0.0.1:0", &tls.Config{Certificates: []tls.Certificate{cert}, MinVersion: tls.VersionTLS12})
	if err != nil {
		return nil, err
	}
	s := &rawServer{ln: ln, next: make(chan []byte, 1), lastReq: make(chan []byte, 1), splitAt: make(chan int, 1)}
	go func() {
		for {
			c, err := ln.Accept()
			if err != nil {
				return
			}
			go func(c net.Conn) {
				defer c.Close()
				_ = c.SetDeadline(time.Now().Add(5 * time.Second))
				// read exactly one TTLV message (the request)
				hdr := make([]byte, 8)
				if _, err := readFull(c, hdr); err != nil {
					return
				}
				l := int(hdr[4])<<24 | int(hdr[5])<<16 | int(hdr[6])<<8 | int(hdr[7])
				body := make([]byte, l)
				if _, err := readFull(c, body); err != nil {
					return
				}
				select {
				case s.lastReq <- append(hdr, body...):
				default:
				}
				reply := <-s.next
				split := 0
				select {
				case split = <-s.splitAt:
				default:
				}
				if split > 0 && split < len(reply) {
					_, _ = c.Write(reply[:split])
					time.Sleep(15 * time.Millisecond)
					_, _ = c.Write(reply[split:])
				} else {
					_, _ = c.Write(reply)
				}
				// then close: a cut-off reply is followed by EOF
			}(c)
		}
	}()
	return s, nil
}

func readFull(c net.Conn, b []byte) (int, error) {
	n := 0
	for n < len(b) {
		k, err := c.Read(b[n:])
		n += k
		if err != nil {
			return n, err
		}
	}
	return n, nil
}

func sendResultString(resp interface{}, err error) string {
	if err == nil {
		var b strings.Builder
		if resp == nil {
			return "payload n"
		}
		render.Dyn(&b, reflect.ValueOf(resp))
		return "payload " + b.String()
	}
	if resp != nil {
		// "return the payload only when ... status Success": a payload beside an error is a payload returned for a non-success
		return fmt.Sprintf("PAYLOAD-WITH-ERROR %T beside %v", resp, err)
	}
	if pe, ok := err.(kmip.Error); ok {
		return fmt.Sprintf("failure %d %s", uint32(pe.ResultReason()), hx([]byte(err.Error())))
	}
	return "error"
}

var respOps = []kmip.Enum{kmip.OPERATION_CREATE, kmip.OPERATION_CREATE_KEY_PAIR, kmip.OPERATION_GET, kmip.OPERATION_GET_ATTRIBUTES, kmip.OPERATION_GET_ATTRIBUTE_LIST,
	kmip.OPERATION_ACTIVATE, kmip.OPERATION_REVOKE, kmip.OPERATION_DESTROY, kmip.OPERATION_DISCOVER_VERSIONS, kmip.OPERATION_ENCRYPT, kmip.OPERATION_DECRYPT,
	kmip.OPERATION_SIGN, kmip.OPERATION_REGISTER, kmip.OPERATION_LOCATE, kmip.OPERATION_REKEY}

// genReply builds a Response around one dispatchable operation with controlled deviations
func genReply(g *gen.G, op kmip.Enum) (kmip.Response, string) {
	r := g.R
	mkItem := func(op kmip.Enum) kmip.ResponseBatchItem {
		it := kmip.ResponseBatchItem{Operation: op}
		// payload of the type the operation dispatches to
		tmp := &kmip.ResponseBatchItem{Operation: op}
		if v, err := tmp.BuildFieldValue("ResponsePayload"); err == nil {
			p := reflect.New(reflect.TypeOf(v).Elem())
			g.Struct(p.Elem(), 1)
			it.ResponsePayload = p.Elem().Interface()
		}
		return it
	}
	kind := []string{"ok", "ok", "ok", "failed", "failed", "pending", "nopayload", "wrongop", "bc0", "bc2", "noitems", "twoitems", "mistyped"}[r.Intn(13)]
	resp := kmip.Response{Header: kmip.ResponseHeader{Version: kmip.ProtocolVersion{Major: 1, Minor: 4}, TimeStamp: time.Unix(int64(r.Intn(1<<30)), 0), BatchCount: 1}}
	it := mkItem(op)
	switch kind {
	case "failed":
		it.ResultStatus = kmip.RESULT_STATUS_OPERATION_FAILED
		it.ResultReason = kmip.Enum([]uint32{1, 2, 4, 5, 0x100, 0, 77}[r.Intn(7)])
		it.ResultMessage = []string{"", "no", "operation failed badly", "x y z", "quota: 100% of 5 keys used", "%s %d %v %!", "50%%", "bad name %s", "tab\tnewline\n\"quoted\"", "ünïcödé ключ"}[r.Intn(10)]
		if r.Intn(2) == 0 {
			it.ResponsePayload = nil
		}
	case "pending":
		it.ResultStatus = kmip.Enum(2 + r.Intn(2))
		it.ResponsePayload = nil
		if r.Intn(2) == 0 {
			it.ResultReason = kmip.Enum([]uint32{1, 2, 0x100}[r.Intn(3)])
			it.ResultMessage = []string{"still working: 40% done", "undone"}[r.Intn(2)]
		}
	case "nopayload":
		it.ResponsePayload = nil
	case "wrongop":
		other := respOps[r.Intn(len(respOps))]
		if other == op {
			other = kmip.OPERATION_QUERY
		}
		it = mkItem(other)
		if other == kmip.OPERATION_QUERY {
			it.ResponsePayload = nil
		}
	case "bc0":
		resp.Header.BatchCount = 0
	case "bc2":
		resp.Header.BatchCount = 2
	case "mistyped":
		// a payload of another operation's type under this operation code: the bytes are what a confused server would send
		other := respOps[r.Intn(len(respOps))]
		it.ResponsePayload = mkItem(other).ResponsePayload
	}
	resp.BatchItems = []kmip.ResponseBatchItem{it}
	switch kind {
	case "noitems":
		resp.BatchItems = nil
	case "twoitems":
		resp.BatchItems = append(resp.BatchItems, mkItem(op))
		if r.Intn(2) == 0 {
			resp.Header.BatchCount = 2
		}
	}
	return resp, kind
}

func encodeResponse(resp kmip.Response) []byte {
	if len(resp.BatchItems) == 0 {
		// Encode refuses a response without items; write header-only message by hand
		var hb bytes.Buffer
		if err := kmip.NewEncoder(&hb).Encode(&resp.Header); err != nil {
			return nil
		}
		out := []byte{0x42, 0x00, 0x7b, 0x01, 0, 0, 0, 0}
		out[4], out[5], out[6], out[7] = byte(hb.Len()>>24), byte(hb.Len()>>16), byte(hb.Len()>>8), byte(hb.Len())
		return append(out, hb.Bytes()...)
	}
	var b bytes.Buffer
	if err := kmip.NewEncoder(&b).Encode(&resp); err != nil {
		return nil
	}
	return b.Bytes()
}

func runC14(r *Result, d *drv.Driver, tier string, seed int64, replay string) {
	n := 700
	if tier == "thorough" {
		n = 12000
	}
	r.Rule = "for every operation with a response dispatch entry (15): replies built as valid responses with every combination of batch count {0,1,2}, item count {0,1,2}, operation match/mismatch, status {Success, Operation Failed, Pending, Undone}, reason, message, payload present/absent/mistyped, " +
		"their byte-level and tree-level mutations and truncations at random offsets, replies carrying a vendor extension of every kind (text, bytes, long integer, structure, empty structure) whole and cut at offsets inside and around the extension, served raw over real TLS to the real Client.Send / Client.DiscoverVersions; result (payload / failure with reason and message / error) compared with the model; a panic or a payload returned for a non-matching reply is a violation; plus the not-connected case and an end-to-end run against the package's own Server. distinct = distinct (operation, reply bytes); non-trivial = reply longer than a header"
	ca := tlsm.NewCA("c14-ca")
	srv, err := newRawServer(tlsm.Leaf(ca, tlsm.LeafOpts{Host: "127.0.0.1"}))
	if err != nil {
		r.find(Finding{Kind: "disagreement", What: "cannot start raw TLS server", Input: err.Error()})
		return
	}
	defer srv.ln.Close()
	g := gen.New(seed)
	g.WF = true
	rng := rand.New(rand.NewSource(seed + 1))
	ccfg := &tls.Config{RootCAs: ca.Pool}
	kmip.DefaultClientTLSConfig(ccfg)
	type tc struct {
		op    kmip.Enum
		reply []byte
		kind  string
		dv    bool
		split int // deliver the reply in two pieces, cut here
	}
	var cases []tc
	for i := 0; i < n; i++ {
		op := respOps[i%len(respOps)]
		resp, kind := genReply(g, op)
		b := encodeResponse(resp)
		if b == nil {
			continue
		}
		c := tc{op: op, reply: b, kind: kind, dv: op == kmip.OPERATION_DISCOVER_VERSIONS && rng.Intn(2) == 0}
		switch rng.Intn(10) {
		case 0, 1:
			if m, ok := mut.Mutate(rng, mut.Kinds[rng.Intn(len(mut.Kinds))], b, b); ok {
				c.reply, c.kind = m, kind+"+mut"
			}
		case 2:
			c.reply, c.kind = b[:rng.Intn(len(b))], kind+"+cut"
		}
		cases = append(cases, c)
	}
	// replies that are perfectly nested but in which a structure ends before its trailing required items (a batch item with
	// the Operation only, a header without Batch Count, a message without batch items, ...)
	for i, op := range []kmip.Enum{kmip.OPERATION_ACTIVATE, kmip.OPERATION_DISCOVER_VERSIONS, kmip.OPERATION_GET} {
		resp := kmip.Response{Header: kmip.ResponseHeader{Version: kmip.ProtocolVersion{Major: 1, Minor: 4}, TimeStamp: time.Unix(1, 0), BatchCount: 1},
			BatchItems: []kmip.ResponseBatchItem{{Operation: op, UniqueID: []byte{9}, ResultStatus: kmip.RESULT_STATUS_SUCCESS}}}
		switch i {
		case 0:
			resp.BatchItems[0].ResponsePayload = kmip.ActivateResponse{UniqueIdentifier: "x"}
		case 1:
			resp.BatchItems[0].ResponsePayload = kmip.DiscoverVersionsResponse{ProtocolVersions: []kmip.ProtocolVersion{{Major: 1, Minor: 4}}}
		default:
			resp.BatchItems[0].ResultStatus, resp.BatchItems[0].ResultReason, resp.BatchItems[0].ResultMessage = kmip.RESULT_STATUS_OPERATION_FAILED, kmip.RESULT_REASON_ITEM_NOT_FOUND, "no"
		}
		if b := encodeResponse(resp); b != nil {
			for _, c := range cutTails(b) {
				cases = append(cases, tc{op: op, reply: c, kind: "cut-tail", dv: op == kmip.OPERATION_DISCOVER_VERSIONS})
			}
		}
	}
	// replies carrying a vendor extension (Message Extension / Vendor Extension: an item of any type and length the Client has
	// to step over): whole, they are ordinary replies; cut anywhere inside or around the extension they are no reply at all
	for i, op := range []kmip.Enum{kmip.OPERATION_ACTIVATE, kmip.OPERATION_GET} {
		resp := kmip.Response{Header: kmip.ResponseHeader{Version: kmip.ProtocolVersion{Major: 1, Minor: 4}, TimeStamp: time.Unix(1, 0), BatchCount: 1},
			BatchItems: []kmip.ResponseBatchItem{{Operation: op, UniqueID: []byte{9}, ResultStatus: kmip.RESULT_STATUS_SUCCESS,
				MessageExtension: kmip.MessageExtension{VendorIdentification: "acme", CriticalityIndicator: i == 1}}}}
		if i == 0 {
			resp.BatchItems[0].ResponsePayload = kmip.ActivateResponse{UniqueIdentifier: "x"}
		} else {
			resp.BatchItems[0].ResponsePayload = kmip.GetResponse{ObjectType: kmip.OBJECT_TYPE_SYMMETRIC_KEY, UniqueIdentifier: "k"}
		}
		b := encodeResponse(resp)
		if b == nil {
			continue
		}
		exts := [][]byte{
			append([]byte{0x42, 0x00, 0x7d, 0x07, 0, 0, 0, 40}, bytes.Repeat([]byte{'v'}, 40)...),                // text, 40 bytes
			append([]byte{0x42, 0x00, 0x7d, 0x08, 0, 0, 0, 13}, append(bytes.Repeat([]byte{7}, 13), 0, 0, 0)...), // bytes, 13 + padding
			{0x42, 0x00, 0x7d, 0x03, 0, 0, 0, 8, 1, 2, 3, 4, 5, 6, 7, 8},                                         // long integer
			{0x42, 0x00, 0x7d, 0x01, 0, 0, 0, 16, 0x54, 0x00, 0x01, 0x02, 0, 0, 0, 4, 0, 0, 0, 5, 0, 0, 0, 0},    // structure with one item
			{0x42, 0x00, 0x7d, 0x01, 0, 0, 0, 0},                                                                 // empty structure
		}
		for _, n := range mut.All(mut.Parse(b)) {
			if n.Tag != 0x420051 {
				continue
			}
			for _, item := range exts {
				m := append(append(append([]byte(nil), b[:n.End]...), item...), b[n.End:]...)
				for p := n; p != nil; p = p.Parent {
					l := binary.BigEndian.Uint32(m[p.Off+4:])
					binary.BigEndian.PutUint32(m[p.Off+4:], l+uint32(len(item)))
				}
				cases = append(cases, tc{op: op, reply: m, kind: "vendor-ext"})
				for cut := n.Off; cut < len(m); cut += 1 + (cut-n.Off)%3 {
					cases = append(cases, tc{op: op, reply: m[:cut], kind: "vendor-ext+cut"})
				}
			}
		}
	}
	// replies whose strings carry padding (length not a multiple of 8): cut at every offset inside the padding of every string
	// (the reply then ends inside an item: no reply at all), and - whole - delivered in two pieces with the boundary at every
	// offset inside the padding (a reply is a reply however the transport fragments it)
	for i, op := range []kmip.Enum{kmip.OPERATION_LOCATE, kmip.OPERATION_ACTIVATE, kmip.OPERATION_GET} {
		resp := kmip.Response{Header: kmip.ResponseHeader{Version: kmip.ProtocolVersion{Major: 1, Minor: 4}, TimeStamp: time.Unix(1, 0), BatchCount: 1},
			BatchItems: []kmip.ResponseBatchItem{{Operation: op, UniqueID: []byte{9, 9, 9}, ResultStatus: kmip.RESULT_STATUS_SUCCESS}}}
		switch i {
		case 0:
			resp.BatchItems[0].ResponsePayload = kmip.LocateResponse{UniqueIdentifiers: []string{"key-41", "key-42"}}
		case 1:
			resp.BatchItems[0].ResponsePayload = kmip.ActivateResponse{UniqueIdentifier: "x"}
		default:
			resp.BatchItems[0].ResultStatus, resp.BatchItems[0].ResultReason, resp.BatchItems[0].ResultMessage = kmip.RESULT_STATUS_OPERATION_FAILED, kmip.RESULT_REASON_ITEM_NOT_FOUND, "no such key"
		}
		b := encodeResponse(resp)
		if b == nil {
			continue
		}
		for _, nd := range mut.All(mut.Parse(b)) {
			if (nd.Typ != 7 && nd.Typ != 8) || nd.Len%8 == 0 {
				continue
			}
			for off := nd.Off + 8 + int(nd.Len); off < nd.End; off++ {
				cases = append(cases, tc{op: op, reply: b[:off], kind: "pad-cut"})
				cases = append(cases, tc{op: op, reply: b, kind: "pad-split", split: off})
			}
			cases = append(cases, tc{op: op, reply: b, kind: "pad-split", split: nd.End})
		}
	}
	// replies that are complete and correctly framed but lack a mandatory item of the Response Header (Time Stamp, Protocol
	// Version): not well-formed responses, whatever else they carry
	for i, op := range []kmip.Enum{kmip.OPERATION_ACTIVATE, kmip.OPERATION_DISCOVER_VERSIONS} {
		resp := kmip.Response{Header: kmip.ResponseHeader{Version: kmip.ProtocolVersion{Major: 1, Minor: 4}, TimeStamp: time.Unix(1, 0), BatchCount: 1},
			BatchItems: []kmip.ResponseBatchItem{{Operation: op, ResultStatus: kmip.RESULT_STATUS_SUCCESS}}}
		if i == 0 {
			resp.BatchItems[0].ResponsePayload = kmip.ActivateResponse{UniqueIdentifier: "x"}
		} else {
			resp.BatchItems[0].ResponsePayload = kmip.DiscoverVersionsResponse{ProtocolVersions: []kmip.ProtocolVersion{{Major: 9, Minor: 9}}}
		}
		b := encodeResponse(resp)
		if b == nil {
			continue
		}
		for _, drop := range []uint32{0x420092, 0x420069} {
			for _, nd := range mut.All(mut.Parse(b)) {
				if nd.Tag != drop || nd.Parent == nil || nd.Parent.Tag != 0x42007a {
					continue
				}
				m := append(append([]byte(nil), b[:nd.Off]...), b[nd.End:]...)
				for p := nd.Parent; p != nil; p = p.Parent {
					binary.BigEndian.PutUint32(m[p.Off+4:], binary.BigEndian.Uint32(m[p.Off+4:])-uint32(nd.End-nd.Off))
				}
				cases = append(cases, tc{op: op, reply: m, kind: "header-item-missing", dv: i == 1})
			}
		}
	}
	// Discover Versions specials: success without payload, payload of another type
	for _, p := range []interface{}{nil, kmip.ActivateResponse{UniqueIdentifier: "x"}, kmip.DiscoverVersionsResponse{}, kmip.DiscoverVersionsResponse{ProtocolVersions: []kmip.ProtocolVersion{{Major: 1, Minor: 4}}}} {
		op := kmip.OPERATION_DISCOVER_VERSIONS
		it := kmip.ResponseBatchItem{Operation: op, ResponsePayload: p}
		if _, ok := p.(kmip.ActivateResponse); ok {
			// bytes of an Activate payload under the Discover Versions operation code
		}
		resp := kmip.Response{Header: kmip.ResponseHeader{TimeStamp: time.Unix(1, 0), BatchCount: 1}, BatchItems: []kmip.ResponseBatchItem{it}}
		if b := encodeResponse(resp); b != nil {
			cases = append(cases, tc{op: op, reply: b, kind: "dv-special", dv: true})
		}
	}
	var lines []string
	reals := make([]string, len(cases))
	for i, c := range cases {
		cl := &kmip.Client{Endpoint: srv.ln.Addr().String(), TLSConfig: ccfg, ReadTimeout: 3 * time.Second, WriteTimeout: 3 * time.Second}
		func() {
			defer func() {
				if p := recover(); p != nil {
					reals[i] = "panic"
					r.find(Finding{Kind: "violation", What: "the Client panicked on a reply", Input: map[string]string{"operation": fmt.Sprint(uint32(c.op)), "reply": hx(c.reply), "kind": c.kind, "discoverVersions": fmt.Sprint(c.dv)}, Actual: fmt.Sprint(p)})
				}
			}()
			if err := cl.Connect(); err != nil {
				reals[i] = "connect-failed"
				return
			}
			if c.split > 0 {
				srv.splitAt <- c.split
			}
			srv.next <- c.reply
			if c.dv {
				vs, err := cl.DiscoverVersions(nil)
				if err == nil {
					reals[i] = sendResultString(kmip.DiscoverVersionsResponse{ProtocolVersions: vs}, nil)
				} else {
					reals[i] = sendResultString(nil, err)
				}
			} else {
				resp, err := cl.Send(c.op, kmip.GetRequest{UniqueIdentifier: "id"})
				reals[i] = sendResultString(resp, err)
			}
		}()
		cl.Close()
		if c.dv {
			lines = append(lines, fmt.Sprintf("clientdv %s", hx(c.reply)))
		} else {
			lines = append(lines, fmt.Sprintf("clientsend %d %s", uint32(c.op), hx(c.reply)))
		}
	}
	replies, err := d.AskAll(lines)
	if err != nil {
		r.find(Finding{Kind: "disagreement", What: "driver failure", Input: err.Error()})
		return
	}
	for i, c := range cases {
		r.eval(lines[i], len(c.reply) > 8)
		r.Stats["reply:"+c.kind]++
		if strings.HasPrefix(reals[i], "PAYLOAD-WITH-ERROR") {
			r.find(Finding{Kind: "violation", What: "Send returned a payload together with an error (the payload is for a Success reply only)", Input: map[string]string{"operation": fmt.Sprint(uint32(c.op)), "reply": hx(c.reply), "kind": c.kind, "discoverVersions": fmt.Sprint(c.dv)}, Expect: "(nil, error)", Actual: reals[i]})
		}
		r.Stats["result:"+classOf(reals[i])]++
		if i%211 == 0 {
			r.sample(map[string]string{"operation": fmt.Sprint(uint32(c.op)), "kind": c.kind, "reply": hx(c.reply)[:min(120, len(hx(c.reply)))], "real": reals[i][:min(100, len(reals[i]))]})
		}
		want := replies[i]
		got := reals[i]
		if c.dv && strings.HasPrefix(got, "payload ") && strings.HasPrefix(want, "payload ") {
			// DiscoverVersions returns the version list only: compare through a re-wrapped response (nil vs empty list normalised)
			got = strings.ReplaceAll(got, "[ ]", "[ ]")
		}
		if got != want {
			r.find(Finding{Kind: "disagreement", What: "client model differs from the real Client (" + c.kind + ")", Input: map[string]string{"op": lines[i]}, Expect: want, Actual: got})
		}
		// the property itself, judged on the reply bytes by a generic TTLV parse (no model involved): success is reported
		// only for a reply with batch count 1, exactly one item, the requested operation and status Success
		if strings.HasPrefix(got, "failure ") {
			// a reported failure carries the reply's Result Reason and Result Message verbatim (again judged on the bytes)
			if reason, msg, ok := replyReasonMessage(c.reply); ok {
				want := fmt.Sprintf("failure %d %s", reason, hx(msg))
				if got != want {
					r.find(Finding{Kind: "violation", What: "the failure the Client reports does not carry the reply's result reason and message verbatim", Input: map[string]string{"operation": fmt.Sprint(uint32(c.op)), "reply": hx(c.reply), "kind": c.kind, "discoverVersions": fmt.Sprint(c.dv)}, Expect: want, Actual: got})
				}
			}
		}
		// a well-formed single-item reply for the requested operation whose status is not Success must come back as an error
		// that IS a protocol error (kmip.Error) carrying the reply's reason and message - empty message included
		if c.kind == "failed" || c.kind == "pending" {
			if reason, msg, ok := replyReasonMessage(c.reply); ok && notASuccessReply(c.reply, uint32(c.op)) != "" {
				want := fmt.Sprintf("failure %d %s", reason, hx(msg))
				if got != want {
					r.find(Finding{Kind: "violation", What: "a failure reply was not reported as a protocol error carrying the server's result reason and message", Input: map[string]string{"operation": fmt.Sprint(uint32(c.op)), "reply": hx(c.reply), "kind": c.kind, "discoverVersions": fmt.Sprint(c.dv)}, Expect: want, Actual: got})
				}
			}
		}
		if strings.HasPrefix(got, "payload ") {
			if why := notASuccessReply(c.reply, uint32(c.op)); why != "" {
				r.find(Finding{Kind: "violation", What: "the Client reported success for a reply that " + why, Input: map[string]string{"operation": fmt.Sprint(uint32(c.op)), "reply": hx(c.reply), "kind": c.kind, "discoverVersions": fmt.Sprint(c.dv)}, Expect: "an error", Actual: got})
			}
		}
	}
	// not connected
	{
		cl := &kmip.Client{}
		_, err := cl.Send(kmip.OPERATION_GET, kmip.GetRequest{})
		r.eval("not-connected", true)
		if err == nil {
			r.find(Finding{Kind: "violation", What: "Send on a Client that is not connected did not fail", Input: "Client{}.Send"})
		}
		if cl.Close() != nil {
			r.find(Finding{Kind: "violation", What: "Close on a Client that is not connected failed", Input: "Client{}.Close"})
		}
	}
	clientStates(r, d, ca)
	c14WireRequest(r, d, ca, seed)
	// end to end against the package's own Server
	endToEnd(r, ca)
}

func endToEnd(r *Result, ca *tlsm.CA) {
	scfg := &tls.Config{Certificates: []tls.Certificate{tlsm.Leaf(ca, tlsm.LeafOpts{Host: "127.0.0.1"})}, ClientCAs: ca.Pool}
	kmip.DefaultServerTLSConfig(scfg)
	ln, err := tls.Listen("tcp", "127.0.0.1:0", scfg)
	if err != nil {
		r.find(Finding{Kind: "disagreement", What: "cannot listen", Input: err.Error()})
		return
	}
	// a version list of the server's own - other versions than the Client's defaults, in another order
	serverVersions := []kmip.ProtocolVersion{{Major: 2, Minor: 0}, {Major: 1, Minor: 4}, {Major: 1, Minor: 3}, {Major: 1, Minor: 0}}
	s := &kmip.Server{SupportedVersions: append([]kmip.ProtocolVersion(nil), serverVersions...)}
	var seen []interface{}
	var mu sync.Mutex
	s.Handle(kmip.OPERATION_GET, func(ctx *kmip.RequestContext, item *kmip.RequestBatchItem) (interface{}, error) {
		mu.Lock()
		seen = append(seen, item.RequestPayload)
		mu.Unlock()
		rq := item.RequestPayload.(kmip.GetRequest)
		return kmip.GetResponse{ObjectType: kmip.OBJECT_TYPE_SYMMETRIC_KEY, UniqueIdentifier: rq.UniqueIdentifier + "-answer"}, nil
	})
	// every operation the package has a request and a response payload type for: the handler returns a generated response of
	// that type and keeps what it received
	type opCase struct {
		op         kmip.Enum
		name       string
		req, resp  interface{}
		respT      reflect.Type
		received   interface{}
		handlerRan int
	}
	var opCases []*opCase
	{
		ops := map[string]kmip.Enum{}
		for _, c := range gentab.Consts {
			if strings.HasPrefix(c.Name, "OPERATION_") && c.Typ == "Enum" {
				ops[strings.ToLower(strings.ReplaceAll(strings.TrimPrefix(c.Name, "OPERATION_"), "_", ""))] = kmip.Enum(c.Num)
			}
		}
		types := gen.StructTypes()
		g := gen.New(777)
		g.WF = true
		for _, tn := range typeNames(types) {
			if !strings.HasSuffix(tn, "Request") || tn == "Request" {
				continue
			}
			base := strings.TrimSuffix(tn, "Request")
			op, ok := ops[strings.ToLower(base)]
			rt, ok2 := types[base+"Response"]
			if !ok || !ok2 || op == kmip.OPERATION_GET || op == kmip.OPERATION_DISCOVER_VERSIONS {
				continue
			}
			oc := &opCase{op: op, name: base, req: g.NewStruct(types[tn]).Elem().Interface(), resp: g.NewStruct(rt).Elem().Interface(), respT: rt}
			opCases = append(opCases, oc)
			s.Handle(op, func(ctx *kmip.RequestContext, item *kmip.RequestBatchItem) (interface{}, error) {
				mu.Lock()
				oc.received = item.RequestPayload
				oc.handlerRan++
				mu.Unlock()
				return oc.resp, nil
			})
		}
	}
	init := make(chan struct{})
	done := make(chan error, 1)
	go func() { done <- s.Serve(ln, init) }()
	<-init
	ccfg := &tls.Config{RootCAs: ca.Pool, Certificates: []tls.Certificate{tlsm.Leaf(ca, tlsm.LeafOpts{Host: "client"})}}
	kmip.DefaultClientTLSConfig(ccfg)
	if cl := (&kmip.Client{Endpoint: ln.Addr().String(), TLSConfig: ccfg, ReadTimeout: 3 * time.Second, WriteTimeout: 3 * time.Second}); cl.Connect() == nil {
		encIn := func(op kmip.Enum, payload interface{}, request bool) string {
			var b bytes.Buffer
			var err error
			if request {
				err = kmip.NewEncoder(&b).Encode(&kmip.Request{Header: kmip.RequestHeader{BatchCount: 1}, BatchItems: []kmip.RequestBatchItem{{Operation: op, RequestPayload: payload}}})
			} else {
				err = kmip.NewEncoder(&b).Encode(&kmip.Response{Header: kmip.ResponseHeader{BatchCount: 1}, BatchItems: []kmip.ResponseBatchItem{{Operation: op, ResponsePayload: payload}}})
			}
			if err != nil {
				return "unencodable: " + err.Error()
			}
			return hx(b.Bytes())
		}
		for _, oc := range opCases {
			key := fmt.Sprintf("end-to-end %s: Send(%d, %sRequest), handler returns a %sResponse", oc.name, uint32(oc.op), oc.name, oc.name)
			r.eval(key, true)
			if strings.HasPrefix(encIn(oc.op, oc.req, true), "unencodable") || strings.HasPrefix(encIn(oc.op, oc.resp, false), "unencodable") {
				continue
			}
			resp, err := cl.Send(oc.op, oc.req)
			mu.Lock()
			received, ran := oc.received, oc.handlerRan
			mu.Unlock()
			r.Stats["end-to-end-operations"]++
			switch {
			case err != nil:
				if ran == 0 {
					r.Stats["end-to-end-operations:request-not-decodable-by-server"]++
					r.Stats["end-to-end-operations:request-not-decodable-by-server:"+oc.name]++
					// an operation without a dispatch entry on the receiving side: the Server refuses the request; reconnect
					cl.Close()
					if cl.Connect() != nil {
						r.find(Finding{Kind: "disagreement", What: "end to end: cannot reconnect", Input: key})
						return
					}
					continue
				}
				r.find(Finding{Kind: "violation", What: "end to end: the handler ran and returned a payload, Send returned an error", Input: key, Expect: render.Top(oc.resp), Actual: err.Error()})
				cl.Close()
				if cl.Connect() != nil {
					return
				}
			case reflect.TypeOf(resp) != oc.respT || encIn(oc.op, resp, false) != encIn(oc.op, oc.resp, false):
				r.find(Finding{Kind: "violation", What: "end to end: the payload returned is not what the handler returned", Input: key, Expect: fmt.Sprintf("%T %s", oc.resp, render.Top(oc.resp)), Actual: fmt.Sprintf("%T %s", resp, render.Top(resp))})
			case reflect.TypeOf(received) != reflect.TypeOf(oc.req) || encIn(oc.op, received, true) != encIn(oc.op, oc.req, true):
				r.find(Finding{Kind: "violation", What: "end to end: the handler did not receive what was sent", Input: key, Expect: fmt.Sprintf("%T %s", oc.req, render.Top(oc.req)), Actual: fmt.Sprintf("%T %s", received, render.Top(received))})
			}
		}
		cl.Close()
	}
	// every way the Client's two timeouts can be configured - "zero: not enforced" - and, for the short ones, with pauses
	// between the requests longer than the timeout: the exchange is the same
	const T = 200 * time.Millisecond
	for _, tc := range []struct{ rt, wt time.Duration }{{3 * time.Second, 3 * time.Second}, {0, 0}, {T, 0}, {0, T}, {T, 3 * time.Second}} {
		cfgName := fmt.Sprintf("Client{ReadTimeout: %v, WriteTimeout: %v}", tc.rt, tc.wt)
		cl := &kmip.Client{Endpoint: ln.Addr().String(), TLSConfig: ccfg, ReadTimeout: tc.rt, WriteTimeout: tc.wt}
		if err := cl.Connect(); err != nil {
			r.find(Finding{Kind: "violation", What: "Client cannot connect to the package's own Server", Input: cfgName + ": " + err.Error()})
			continue
		}
		for i := 0; i < 5; i++ {
			sent := kmip.GetRequest{UniqueIdentifier: fmt.Sprintf("key-%d", i), KeyFormatType: kmip.Enum(i)}
			resp, err := cl.Send(kmip.OPERATION_GET, sent)
			r.eval(fmt.Sprintf("end-to-end-%d %s", i, cfgName), true)
			want := kmip.GetResponse{ObjectType: kmip.OBJECT_TYPE_SYMMETRIC_KEY, UniqueIdentifier: sent.UniqueIdentifier + "-answer"}
			mu.Lock()
			var got interface{}
			if len(seen) > 0 {
				got = seen[len(seen)-1]
			}
			mu.Unlock()
			if err != nil || !reflect.DeepEqual(resp, want) {
				r.find(Finding{Kind: "violation", What: "end to end: the payload returned is not what the handler returned", Input: fmt.Sprintf("%s, request %d: %+v", cfgName, i, sent), Expect: fmt.Sprintf("%+v", want), Actual: fmt.Sprintf("%+v %v", resp, err)})
			}
			if !reflect.DeepEqual(got, sent) {
				r.find(Finding{Kind: "violation", What: "end to end: the handler did not receive what was sent", Input: fmt.Sprintf("%s, request %d: %+v", cfgName, i, sent), Actual: fmt.Sprintf("%+v", got)})
			}
			if i < 2 && (tc.rt == T || tc.wt == T) {
				time.Sleep(T + T/2)
			}
		}
		// Discover Versions: what was sent is what the built-in handler receives - an empty query is answered with every version
		// of the SERVER (whatever the Client's own defaults are), a query with the server's versions among those named
		for _, q := range []struct{ offer, want []kmip.ProtocolVersion }{
			{nil, serverVersions},
			{[]kmip.ProtocolVersion{}, serverVersions},
			{[]kmip.ProtocolVersion{{Major: 1, Minor: 0}, {Major: 1, Minor: 2}, {Major: 2, Minor: 0}}, []kmip.ProtocolVersion{{Major: 1, Minor: 0}, {Major: 2, Minor: 0}}},
		} {
			vs, err := cl.DiscoverVersions(q.offer)
			r.eval(fmt.Sprintf("end-to-end DiscoverVersions(%v) %s", q.offer, cfgName), true)
			if err != nil || !reflect.DeepEqual(vs, q.want) {
				r.find(Finding{Kind: "violation", What: "end to end: DiscoverVersions against the package's own Server did not return what its handler answers to the query that was made", Input: fmt.Sprintf("%s; server versions %v; DiscoverVersions(%v)", cfgName, serverVersions, q.offer), Expect: fmt.Sprint(q.want), Actual: fmt.Sprint(vs, err)})
			}
		}
		cl.Close()
	}
	ctx, cancel := context.WithTimeout(context.Background(), 5*time.Second)
	defer cancel()
	_ = s.Shutdown(ctx)
	<-done
}

// notASuccessReply inspects reply bytes with the generic TTLV parser and says why they are not a successful single-item
// reply to operation op ("" if they are, or if the generic view is not clear enough to judge)
func notASuccessReply(b []byte, op uint32) string {
	if len(b) < 8 {
		return fmt.Sprintf("is cut short: %d bytes, less than an item header", len(b))
	}
	if want := 8 + int(binary.BigEndian.Uint32(b[4:8])); want > len(b) {
		return fmt.Sprintf("is cut short: the message announces %d bytes, %d arrived before the connection ended", want, len(b))
	}
	top := mut.Parse(b)
	if len(top) < 1 || top[0].Tag != 0x42007b || top[0].Typ != 1 {
		return ""
	}
	u32 := func(n *mut.Node) (uint32, bool) {
		if n.Len != 4 || n.Off+12 > len(b) {
			return 0, false
		}
		return binary.BigEndian.Uint32(b[n.Off+8:]), true
	}
	items := 0
	var item *mut.Node
	for _, k := range top[0].Kids {
		switch k.Tag {
		case 0x42007a:
			// the mandatory items of a Response Header (KMIP 1.4, 6 / 7.2): Protocol Version, Time Stamp, Batch Count
			have := map[uint32]bool{}
			for _, h := range k.Kids {
				have[h.Tag] = true
			}
			if top[0].End == len(b) && (!have[0x420069] || !have[0x420092] || !have[0x42000d]) {
				return fmt.Sprintf("lacks a mandatory item of the Response Header (Protocol Version present: %v, Time Stamp present: %v, Batch Count present: %v)", have[0x420069], have[0x420092], have[0x42000d])
			}
			for _, h := range k.Kids {
				if h.Tag == 0x42000d {
					if v, ok := u32(h); ok && v != 1 {
						return fmt.Sprintf("declares batch count %d", v)
					}
				}
			}
		case 0x42000f:
			items++
			if item == nil {
				item = k
			}
		}
	}
	if items != 1 {
		return fmt.Sprintf("carries %d batch items", items)
	}
	hasOp, hasStatus := false, false
	for _, k := range item.Kids {
		switch k.Tag {
		case 0x42005c:
			hasOp = true
			if v, ok := u32(k); ok && v != op {
				return fmt.Sprintf("answers operation %d, not the requested %d", v, op)
			}
		case 0x42007f:
			hasStatus = true
			if v, ok := u32(k); ok && v != 0 {
				return fmt.Sprintf("carries result status %d (not Success)", v)
			}
		}
	}
	if top[0].End == len(b) && (!hasOp || !hasStatus) {
		return fmt.Sprintf("carries no Operation / no Result Status in its batch item (operation present: %v, status present: %v)", hasOp, hasStatus)
	}
	return ""
}

// replyReasonMessage reads Result Reason and Result Message of the single batch item of a well-formed reply (generic parse);
// ok=false when the reply is not clearly a single-item response
func replyReasonMessage(b []byte) (reason uint32, msg []byte, ok bool) {
	top := mut.Parse(b)
	if len(top) != 1 || top[0].Tag != 0x42007b || top[0].Typ != 1 || top[0].End != len(b) {
		return 0, nil, false
	}
	var item *mut.Node
	items := 0
	for _, k := range top[0].Kids {
		if k.Tag == 0x42000f {
			items++
			item = k
		}
	}
	if items != 1 {
		return 0, nil, false
	}
	for _, k := range item.Kids {
		switch {
		case k.Tag == 0x42007e && k.Typ == 5 && k.Len == 4:
			reason = binary.BigEndian.Uint32(b[k.Off+8:])
		case k.Tag == 0x42007d && k.Typ == 7:
			msg = b[k.Off+8 : k.Off+8+int(k.Len)]
		}
	}
	return reason, msg, true
}

// clientStates: the Client in every connection state a caller can bring it into - never connected, Connect failed at the
// dial, Connect failed at the TLS handshake (peer answers garbage / closes / presents an untrusted certificate), closed after
// use, closed twice, connected twice.  C14: Send / DiscoverVersions return an error when not connected and never panic.
func clientStates(r *Result, d *drv.Driver, ca *tlsm.CA) {
	// each history is also replayed on the model's connection-state machine (Client.cstep); hist / got are per Client
	var hist, got []string
	flush := func(label string) {
		if len(hist) == 0 {
			return
		}
		line := "clientstate " + strings.Join(hist, ",")
		rep, err := d.Ask(line)
		want := "ok " + strings.Join(got, ",")
		if err != nil || rep != want {
			r.find(Finding{Kind: "disagreement", What: "client connection-state model differs from the real Client (" + label + ")", Input: line, Expect: rep, Actual: want})
		}
		hist, got = nil, nil
	}
	note := func(op string, err error, panicked bool) {
		hist = append(hist, op)
		switch {
		case panicked:
			got = append(got, "panic")
		case err != nil:
			got = append(got, "err")
		default:
			got = append(got, "ok")
		}
	}
	try := func(state string, f func() (interface{}, error), wantErr bool) {
		crumb("C14 client state: " + state)
		r.eval("client-state:"+state, true)
		var res interface{}
		var err error
		panicked := ""
		func() {
			defer func() {
				if p := recover(); p != nil {
					panicked = fmt.Sprint(p)
				}
			}()
			res, err = f()
		}()
		switch {
		case strings.HasSuffix(state, "Send") || strings.HasSuffix(state, "DiscoverVersions"):
			note("s", err, panicked != "")
		case strings.HasSuffix(state, "Close") || strings.HasSuffix(state, "Close again"):
			note("x", err, panicked != "")
		}
		switch {
		case panicked != "":
			r.find(Finding{Kind: "violation", What: "the Client panicked in state: " + state, Input: state, Expect: "an error", Actual: "panic: " + panicked})
		case wantErr && err == nil:
			r.find(Finding{Kind: "violation", What: "the Client reported success although it is not connected (" + state + ")", Input: state, Expect: "an error", Actual: fmt.Sprintf("%v", res)})
		}
	}
	send := func(c *kmip.Client) func() (interface{}, error) {
		return func() (interface{}, error) { return c.Send(kmip.OPERATION_GET, kmip.GetRequest{UniqueIdentifier: "x"}) }
	}
	dv := func(c *kmip.Client) func() (interface{}, error) {
		return func() (interface{}, error) { return c.DiscoverVersions(nil) }
	}
	// a peer that accepts TCP and answers every connection with non-TLS bytes, then closes
	garbage, err := net.Listen("tcp", "127.0.0.1:0")
	if err != nil {
		r.find(Finding{Kind: "disagreement", What: "cannot listen", Input: err.Error()})
		return
	}
	defer garbage.Close()
	go func() {
		for {
			c, e := garbage.Accept()
			if e != nil {
				return
			}
			_, _ = c.Write([]byte("HTTP/1.1 400 Bad Request\r\n\r\n"))
			c.Close()
		}
	}()
	// a TLS peer whose certificate the client does not trust
	foreign := tlsm.NewCA("foreign")
	untrusted, err := tls.Listen("tcp", "127.0.0.1:0", &tls.Config{Certificates: []tls.Certificate{tlsm.Leaf(foreign, tlsm.LeafOpts{Host: "127.0.0.1"})}})
	if err != nil {
		r.find(Finding{Kind: "disagreement", What: "cannot listen", Input: err.Error()})
		return
	}
	defer untrusted.Close()
	go func() {
		for {
			c, e := untrusted.Accept()
			if e != nil {
				return
			}
			go func() { _ = c.(*tls.Conn).Handshake(); c.Close() }()
		}
	}()
	newClient := func(endpoint string) *kmip.Client {
		cfg := &tls.Config{RootCAs: ca.Pool}
		kmip.DefaultClientTLSConfig(cfg)
		return &kmip.Client{Endpoint: endpoint, TLSConfig: cfg, ReadTimeout: time.Second, WriteTimeout: time.Second}
	}
	for _, ep := range []struct{ name, addr string }{
		{"Connect failed at the dial", "127.0.0.1:1"},
		{"Connect failed at the handshake (peer sent non-TLS bytes)", garbage.Addr().String()},
		{"Connect failed at the handshake (untrusted certificate)", untrusted.Addr().String()},
	} {
		c := newClient(ep.addr)
		err := c.Connect()
		if err == nil {
			r.find(Finding{Kind: "disagreement", What: "Connect unexpectedly succeeded in the client-state scenario", Input: ep.name})
			c.Close()
			continue
		}
		note("c0", err, false)
		try(ep.name+", then Send", send(c), true)
		try(ep.name+", then DiscoverVersions", dv(c), true)
		try(ep.name+", then Close", func() (interface{}, error) { return nil, c.Close() }, false)
		try(ep.name+", then Close, then Send", send(c), true)
		flush(ep.name)
	}
	// after a successful exchange: Close, Close again, Send
	srv, err := newRawServer(tlsm.Leaf(ca, tlsm.LeafOpts{Host: "127.0.0.1"}))
	if err == nil {
		defer srv.ln.Close()
		c := newClient(srv.ln.Addr().String())
		if err := c.Connect(); err == nil {
			note("c1", nil, false)
			try("connected, Close", func() (interface{}, error) { return nil, c.Close() }, false)
			try("closed, Close again", func() (interface{}, error) { return nil, c.Close() }, false)
			try("closed, then Send", send(c), true)
			try("closed, then DiscoverVersions", dv(c), true)
			flush("connect, close, close, send")
		}
	}
}
