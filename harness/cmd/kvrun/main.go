// kvrun runs, for one property, the correspondence check (model vs real code on the same inputs) and the
// property oracle on the real code, and writes a JSON result for the `check` runner.
// The library's go.mod says `go 1.16`: built as a main module of its own (its tests, an application that vendors it with an old
// language version) it runs with the pre-1.21 meaning of panic(nil) - recover() returns nil. The harness runs the library under
// that setting, so that "panic(any value)" includes the one value recover cannot tell from "no panic".
//
// Likewise crypto/tls's own floor for servers: under that language version a tls.Config whose MinVersion is left at zero accepts
// TLS 1.0 (GODEBUG tls10server=1). The library must not rely on the process-wide default for what C16 promises.
//
//go:debug panicnil=1
//go:debug tls10server=1
package main

import (
	"encoding/json"
	"flag"
	"fmt"
	"os"
	"sort"
	"time"

	"kvharness/internal/drv"
)

// Finding is a concrete input on which something failed.
type Finding struct {
	Kind   string      `json:"kind"`   // "violation" (real code breaks the property) | "disagreement" (model ≠ code)
	What   string      `json:"what"`   // short stable description, used to match known findings
	Input  interface{} `json:"input"`  // replayable input
	Expect string      `json:"expect"` // what the spec / model says
	Actual string      `json:"actual"` // what the real code did
}

type Result struct {
	Property      string         `json:"property"`
	Tier          string         `json:"tier"`
	Seed          int64          `json:"seed"`
	Evaluations   int            `json:"evaluations"`
	Distinct      int            `json:"distinct_nontrivial"`
	Rule          string         `json:"rule"`
	Samples       []interface{}  `json:"samples"`
	Stats         map[string]int `json:"stats"`
	Findings      []Finding      `json:"findings"`
	DriverLines   int            `json:"driver_lines"`
	Exhaustive    bool           `json:"exhaustive"`
	WallS         float64        `json:"wall_s"`
	Notes         []string       `json:"notes,omitempty"`
	distinctSet   map[string]bool
	maxFindings   int
	droppedFinds  int
	samplesWanted int
}

func newResult(prop, tier string, seed int64) *Result {
	return &Result{Property: prop, Tier: tier, Seed: seed, Stats: map[string]int{}, distinctSet: map[string]bool{}, maxFindings: 20, samplesWanted: 4}
}

func (r *Result) eval(key string, nontrivial bool) {
	r.Evaluations++
	if nontrivial && !r.distinctSet[key] {
		r.distinctSet[key] = true
	}
}

func (r *Result) sample(s interface{}) {
	if len(r.Samples) < r.samplesWanted {
		r.Samples = append(r.Samples, s)
	}
}

func (r *Result) find(f Finding) {
	for _, g := range r.Findings {
		if g.Kind == f.Kind && g.What == f.What {
			r.droppedFinds++
			return // one representative per kind/what
		}
	}
	// the cap is per kind: a flood of model disagreements must not crowd out the violation found after them
	same := 0
	for _, g := range r.Findings {
		if g.Kind == f.Kind {
			same++
		}
	}
	if same >= r.maxFindings {
		r.droppedFinds++
		return
	}
	r.Findings = append(r.Findings, f)
}

func (r *Result) mergeStats(prefix string, m map[string]int) {
	for k, v := range m {
		r.Stats[prefix+k] += v
	}
}

type propFunc func(r *Result, d *drv.Driver, tier string, seed int64, replay string)

var props = map[string]propFunc{}

// crumb records the input about to be given to the real code (KV_CRUMB names the file): if the process dies inside the
// library, the check runner reports this as the failing input
func crumb(s string) {
	if p := os.Getenv("KV_CRUMB"); p != "" {
		_ = os.WriteFile(p, []byte(s), 0o644)
	}
}

func main() {
	prop := flag.String("prop", "", "property id")
	tier := flag.String("tier", "quick", "quick|thorough")
	seed := flag.Int64("seed", 1, "PRNG seed")
	out := flag.String("out", "", "result JSON path")
	replay := flag.String("replay", "", "replay file (re-run one recorded input)")
	flag.Parse()
	f, ok := props[*prop]
	if !ok {
		var ks []string
		for k := range props {
			ks = append(ks, k)
		}
		sort.Strings(ks)
		fmt.Fprintf(os.Stderr, "kvrun: unknown property %q (have %v)\n", *prop, ks)
		os.Exit(2)
	}
	d, err := drv.Start()
	if err != nil {
		fmt.Fprintf(os.Stderr, "kvrun: cannot start model driver: %v\n", err)
		os.Exit(2)
	}
	r := newResult(*prop, *tier, *seed)
	t0 := time.Now()
	f(r, d, *tier, *seed, *replay)
	d.Close()
	r.WallS = time.Since(t0).Seconds()
	r.Distinct = len(r.distinctSet)
	r.DriverLines = d.N
	if r.droppedFinds > 0 {
		r.Notes = append(r.Notes, fmt.Sprintf("%d further findings of already-reported kinds not listed", r.droppedFinds))
	}
	js, _ := json.MarshalIndent(r, "", " ")
	if *out != "" {
		if err := os.WriteFile(*out, js, 0o644); err != nil {
			fmt.Fprintln(os.Stderr, err)
			os.Exit(2)
		}
	} else {
		os.Stdout.Write(js)
		fmt.Println()
	}
}
