package main

import (
	"bufio"
	"fmt"
	"io"
	"math/rand"
	"strings"

	kmip "github.com/smira/go-kmip"

	"kvharness/internal/drv"
	"kvharness/internal/gen"
)

// chunkSrc hands out exactly one scripted chunk (or its prefix, if the buffer is shorter) per Read; an empty chunk is a
// zero-length read; when eager the last chunk comes back together with the final error
type chunkSrc struct {
	chunks [][]byte
	fin    error
	eager  bool
}

func (c *chunkSrc) Read(p []byte) (int, error) {
	if len(c.chunks) == 0 {
		return 0, c.fin
	}
	h := c.chunks[0]
	if len(h) <= len(p) {
		copy(p, h)
		c.chunks = c.chunks[1:]
		if len(c.chunks) == 0 && c.eager {
			return len(h), c.fin
		}
		return len(h), nil
	}
	n := copy(p, h[:len(p)])
	c.chunks[0] = h[n:]
	return n, nil
}

var errInjectedIO = fmt.Errorf("injected I/O error")

// chunkScanner: the same source handed out as an io.ByteScanner (so that the Decoder adds no buffer of its own); ReadByte takes
// the next byte whatever the chunking, `taken` counts every byte that left the source
type chunkScanner struct {
	chunkSrc
	taken int
}

func (c *chunkScanner) Read(p []byte) (int, error) {
	n, err := c.chunkSrc.Read(p)
	c.taken += n
	return n, err
}

func (c *chunkScanner) ReadByte() (byte, error) {
	// a ByteScanner has no notion of an empty read: (as in the model's srcReadByte) the pieces still to come lose their empty ones
	kept := c.chunks[:0]
	for _, ch := range c.chunks {
		if len(ch) > 0 {
			kept = append(kept, ch)
		}
	}
	c.chunks = kept
	if len(c.chunks) == 0 {
		return 0, c.fin
	}
	b := c.chunks[0][0]
	c.chunks[0] = c.chunks[0][1:]
	if len(c.chunks[0]) == 0 {
		c.chunks = c.chunks[1:]
	}
	c.taken++
	return b, nil
}

func (c *chunkScanner) UnreadByte() error { return fmt.Errorf("not supported") }

// ioCorrespondence ties lean/KmipModel/Io.lean to Go's io.ReadFull and io.LimitReader: random chunkings (empty chunks,
// eager final error, EOF or an I/O error at the end), random request sizes and limits; compared on the bytes returned, the
// error class, and what a subsequent read-to-the-end returns
func ioCorrespondence(r *Result, d *drv.Driver, seed int64, n int) {
	rng := rand.New(rand.NewSource(seed + 606))
	type tc struct {
		line string
		real string
	}
	var cases []tc
	for i := 0; i < n; i++ {
		nc := rng.Intn(6)
		var chunks [][]byte
		var parts []string
		total := 0
		for j := 0; j < nc; j++ {
			l := []int{0, 0, 1, 2, 3, 5, 8, 13}[rng.Intn(8)]
			b := make([]byte, l)
			for x := range b {
				b[x] = byte(rng.Intn(256))
			}
			chunks = append(chunks, b)
			parts = append(parts, hx(b))
			total += l
		}
		finName, fin := "eof", io.EOF
		if rng.Intn(3) == 0 {
			finName, fin = "ioerr", errInjectedIO
		}
		eager := rng.Intn(2) == 0
		k := rng.Intn(total + 4)
		lim := rng.Intn(total + 4)
		kind := []string{"rf", "lim"}[rng.Intn(2)]
		cs := "."
		if len(parts) > 0 {
			cs = strings.Join(parts, ";")
		}
		e := 0
		if eager {
			e = 1
		}
		line := fmt.Sprintf("io %s %s %d %d %d %s", kind, finName, e, lim, k, cs)
		src := &chunkSrc{chunks: chunks, fin: fin, eager: eager}
		var rd io.Reader = src
		if kind == "lim" {
			rd = io.LimitReader(src, int64(lim))
		}
		buf := make([]byte, k)
		_, err := io.ReadFull(rd, buf)
		real := ""
		switch {
		case err == nil:
			rest, _ := io.ReadAll(rd)
			real = fmt.Sprintf("ok %s %s", hx(buf), hx(rest))
		case err == io.EOF:
			real = "err eof"
		default:
			real = "err other"
		}
		cases = append(cases, tc{line, real})
	}
	lines := make([]string, len(cases))
	for i, c := range cases {
		lines[i] = c.line
	}
	replies, err := d.AskAll(lines)
	if err != nil {
		r.find(Finding{Kind: "disagreement", What: "driver failure (io)", Input: err.Error()})
		return
	}
	for i, c := range cases {
		r.eval(c.line, true)
		r.Stats["io-model:"+strings.Fields(c.line)[1]+":"+strings.Fields(c.real)[0]]++
		if replies[i] != c.real {
			r.find(Finding{Kind: "disagreement", What: "the io.ReadFull / io.LimitReader model differs from Go's", Input: c.line, Expect: replies[i], Actual: c.real})
		}
	}
}

// ioStackCorrespondence ties lean/KmipModel/IoStack.lean (the whole reader stack of the Decoder: bufio.Reader over
// io.LimitReader over bufio.Reader … over the transport) to Go's own bufio / io: a chunked source, a random tower of
// bufio.NewReaderSize / io.LimitReader layers pushed and popped the way nested decoders do, and random sequences of the
// primitives the Decoder uses (io.ReadFull, ReadByte, io.CopyN into Discard, bare Read, read-to-the-end), compared step by step
// on bytes and error classes.
func ioStackCorrespondence(r *Result, d *drv.Driver, seed int64, n int) {
	rng := rand.New(rand.NewSource(seed + 60606))
	type tc struct{ line, real string }
	var cases []tc
	errName := func(err error) string {
		if err == io.EOF {
			return "eof"
		}
		return "other"
	}
	for i := 0; i < n; i++ {
		nc := rng.Intn(10)
		var chunks [][]byte
		var parts []string
		total := 0
		for j := 0; j < nc; j++ {
			l := []int{0, 0, 1, 2, 3, 5, 8, 13, 21, 40}[rng.Intn(10)]
			if i%97 == 5 && j == 1 { // a long run of empty reads: around bufio's limit of 100
				for z := 0; z < 97+rng.Intn(6); z++ {
					chunks = append(chunks, []byte{})
					parts = append(parts, "-")
				}
			}
			b := make([]byte, l)
			for x := range b {
				b[x] = byte(rng.Intn(256))
			}
			chunks = append(chunks, b)
			if l == 0 {
				parts = append(parts, "-")
			} else {
				parts = append(parts, hx(b))
			}
			total += l
		}
		finName, fin := "eof", io.EOF
		if rng.Intn(3) == 0 {
			finName, fin = "ioerr", errInjectedIO
		}
		eager := rng.Intn(2) == 0
		cs := "."
		if len(parts) > 0 {
			cs = strings.Join(parts, ";")
		}
		src := &chunkSrc{chunks: chunks, fin: fin, eager: eager}
		readers := []io.Reader{src}
		kinds := []byte{'s'}
		var ops, outs []string
		top := func() io.Reader { return readers[len(readers)-1] }
		push := func(k byte, rd io.Reader) { readers = append(readers, rd); kinds = append(kinds, k) }
		sizes := []int{16, 16, 17, 32, 64, 4096}
		if rng.Intn(4) != 0 { // the Decoder's own bufio on a plain io.Reader
			sz := sizes[rng.Intn(len(sizes))]
			ops = append(ops, fmt.Sprintf("b%d", sz))
			outs = append(outs, "b")
			push('b', bufio.NewReaderSize(top(), sz))
		}
		nops := 2 + rng.Intn(10)
		failed := false
		for o := 0; o < nops && !failed; o++ {
			switch x := rng.Intn(100); {
			case x < 18: // a nested structure: limit reader + its own bufio
				lim := rng.Intn(total + 6)
				sz := sizes[rng.Intn(len(sizes))]
				ops = append(ops, fmt.Sprintf("l%d", lim), fmt.Sprintf("b%d", sz))
				outs = append(outs, "l", "b")
				push('l', io.LimitReader(top(), int64(lim)))
				push('b', bufio.NewReaderSize(top(), sz))
			case x < 28:
				if len(kinds) >= 3 && kinds[len(kinds)-1] == 'b' && kinds[len(kinds)-2] == 'l' {
					ops = append(ops, "pop")
					outs = append(outs, "pop")
					readers, kinds = readers[:len(readers)-2], kinds[:len(kinds)-2]
				}
			case x < 55:
				k := rng.Intn(total/2 + 6)
				ops = append(ops, fmt.Sprintf("rf%d", k))
				buf := make([]byte, k)
				if _, err := io.ReadFull(top(), buf); err != nil {
					outs = append(outs, "rf:err-"+errName(err))
					failed = true
				} else {
					outs = append(outs, "rf:"+hxd(buf))
				}
			case x < 70:
				if br, ok := top().(*bufio.Reader); ok {
					ops = append(ops, "rb")
					c, err := br.ReadByte()
					if err != nil {
						outs = append(outs, "rb:err-"+errName(err))
						failed = true
					} else {
						outs = append(outs, "rb:"+hx([]byte{c}))
					}
				}
			case x < 82:
				k := 1 + rng.Intn(30)
				if rng.Intn(5) == 0 {
					k = 4096 + rng.Intn(10)
				}
				ops = append(ops, fmt.Sprintf("rd%d", k))
				buf := make([]byte, k)
				nn, err := top().Read(buf)
				e := "nil"
				if err != nil {
					e = errName(err)
				}
				outs = append(outs, fmt.Sprintf("rd:%s:%s", hxd(buf[:nn]), e))
			default:
				k := rng.Intn(total/2 + 6)
				ops = append(ops, fmt.Sprintf("sk%d", k))
				if _, err := io.CopyN(io.Discard, top(), int64(k)); err != nil {
					outs = append(outs, "sk:err-"+errName(err))
					failed = true
				} else {
					outs = append(outs, "sk:ok")
				}
			}
		}
		if !failed {
			for len(kinds) >= 1 {
				ops = append(ops, "drain")
				rest, err := io.ReadAll(top())
				e := "eof"
				if err != nil {
					e = errName(err)
				}
				outs = append(outs, fmt.Sprintf("drain:%s:%s", hxd(rest), e))
				if len(kinds) >= 3 && kinds[len(kinds)-1] == 'b' && kinds[len(kinds)-2] == 'l' && rng.Intn(2) == 0 {
					ops = append(ops, "pop")
					outs = append(outs, "pop")
					readers, kinds = readers[:len(readers)-2], kinds[:len(kinds)-2]
					continue
				}
				break
			}
		}
		e := 0
		if eager {
			e = 1
		}
		cases = append(cases, tc{fmt.Sprintf("iostk %s %d %s %s", finName, e, cs, strings.Join(ops, ",")), "ok " + strings.Join(outs, " ")})
	}
	lines := make([]string, len(cases))
	for i, c := range cases {
		lines[i] = c.line
	}
	replies, err := d.AskAll(lines)
	if err != nil {
		r.find(Finding{Kind: "disagreement", What: "driver failure (iostk)", Input: err.Error()})
		return
	}
	for i, c := range cases {
		r.eval(c.line, true)
		for _, tok := range strings.Fields(c.real)[1:] {
			r.Stats["iostk-op:"+strings.SplitN(strings.SplitN(tok, ":", 2)[0], "-", 2)[0]]++
			if strings.Contains(tok, "err-") {
				r.Stats["iostk-fail:"+tok]++
			}
		}
		if replies[i] != c.real {
			r.find(Finding{Kind: "disagreement", What: "the reader-stack model (bufio / LimitReader / ReadFull / ReadByte / CopyN) differs from Go's", Input: c.line, Expect: replies[i], Actual: c.real})
		}
	}
}

func hxd(b []byte) string {
	if len(b) == 0 {
		return "-"
	}
	return hx(b)
}

type countingReader struct {
	r io.Reader
	n int
}

func (c *countingReader) Read(p []byte) (int, error) {
	n, err := c.r.Read(p)
	c.n += n
	return n, err
}

// decStackCorrespondence ties lean/KmipModel/DecodeStack.lean - decode.go over the REAL reader stack, the model the
// fragmentation theorems of C06 are about - to the code: valid and mutated messages, each cut into random chunks (empty reads,
// single bytes, the last data with the final error attached, EOF or an I/O error at the end, runs of empty reads), handed to a
// real Decoder as a plain io.Reader; compared on the outcome class, the decoded value, and the number of bytes the Decoder's
// own bufio has fetched from the transport by the time Decode returns (read-ahead included).
func decStackCorrespondence(r *Result, d *drv.Driver, g *gen.G, inputs []decInput) {
	types := allDecodeTypes()
	type tc struct{ line, real, origin string }
	var cases []tc
	for _, in := range inputs {
		if len(in.data) > 6000 {
			continue
		}
		data := in.data
		// a continuation after the message (the start of a next one, or junk) in some cases: read-ahead becomes visible
		if g.R.Intn(3) == 0 {
			data = append(append([]byte(nil), data...), 0x42, 0x00, 0x78, 0x01, 0, 0, 0, 0x10, 1, 2, 3)
		}
		var chunks [][]byte
		var parts []string
		pos := 0
		for pos < len(data) {
			if g.R.Intn(7) == 0 {
				k := 1
				if g.R.Intn(40) == 0 {
					k = 99 + g.R.Intn(3)
				}
				for z := 0; z < k; z++ {
					chunks = append(chunks, []byte{})
					parts = append(parts, "-")
				}
			}
			n := 1 + g.R.Intn(40)
			switch g.R.Intn(4) {
			case 0:
				n = 1
			case 1:
				n = 1 + g.R.Intn(9)
			}
			if n > len(data)-pos {
				n = len(data) - pos
			}
			chunks = append(chunks, append([]byte(nil), data[pos:pos+n]...))
			parts = append(parts, hx(data[pos:pos+n]))
			pos += n
		}
		finName, fin := "eof", io.EOF
		if g.R.Intn(4) == 0 {
			finName, fin = "ioerr", errInjectedIO
		}
		eager := g.R.Intn(2) == 0
		cs := "."
		if len(parts) > 0 {
			cs = strings.Join(parts, ";")
		}
		e := 0
		if eager {
			e = 1
		}
		if len(cases)%3 == 2 {
			// every third case: the source is an io.ByteScanner (unbuffered Decoder): bytes taken from it must be exactly the message
			clone := make([][]byte, len(chunks))
			for i := range chunks {
				clone[i] = append([]byte(nil), chunks[i]...)
			}
			sc := &chunkScanner{chunkSrc: chunkSrc{chunks: clone, fin: fin, eager: eager}}
			o := decodeWith(kmip.NewDecoder(sc), types[in.typ])
			real := o.class
			if o.class == "ok" {
				real = fmt.Sprintf("ok %s pulled=%d", o.value, sc.taken)
				if len(in.data) >= 8 && sc.taken != declaredEnd(in.data) {
					r.find(Finding{Kind: "violation", What: "a successful Decode from an unbuffered (io.ByteScanner) source did not take exactly 8 + declared length bytes from it", Input: fmt.Sprintf("decscan %s %s %d %s", in.typ, finName, e, cs), Expect: fmt.Sprint(declaredEnd(in.data)), Actual: fmt.Sprint(sc.taken)})
				}
			}
			cases = append(cases, tc{fmt.Sprintf("decscan %s %s %d %s", in.typ, finName, e, cs), real, in.origin})
			continue
		}
		cr := &countingReader{r: &chunkSrc{chunks: chunks, fin: fin, eager: eager}}
		o := decodeWith(kmip.NewDecoder(cr), types[in.typ])
		real := o.class
		if o.class == "ok" {
			real = fmt.Sprintf("ok %s pulled=%d", o.value, cr.n)
		}
		cases = append(cases, tc{fmt.Sprintf("decstk %s %s %d %s", in.typ, finName, e, cs), real, in.origin})
	}
	lines := make([]string, len(cases))
	for i, c := range cases {
		lines[i] = c.line
	}
	replies, err := d.AskAll(lines)
	if err != nil {
		r.find(Finding{Kind: "disagreement", What: "driver failure (decstk)", Input: err.Error()})
		return
	}
	for i, c := range cases {
		r.eval(c.line, true)
		r.Stats[strings.Fields(c.line)[0]+":"+strings.Fields(c.real)[0]]++
		if replies[i] != c.real {
			r.find(Finding{Kind: "disagreement", What: "the decoder-over-the-reader-stack model differs from the real Decode (" + c.origin + ")", Input: c.line, Expect: replies[i], Actual: c.real})
		}
	}
}
