package main

import (
	"fmt"
	"io"
	"math/rand"
	"strings"

	"kvharness/internal/drv"
)

// chunkSrc hands out exactly one scripted chunk (or its prefix, if the buffer is shorter) per Read; an empty chunk is a
// zero-length read; when eager the last chunk comes back together with the final error
type chunkSrc struct {
	chunks [][]byte
	fin    error
	eager  bool
}

func (c *chunkSrc) Read(p []byte) (int, error) {
	if len(c.chunks) == 0 {
		return 0, c.fin
	}
	h := c.chunks[0]
	if len(h) <= len(p) {
		copy(p, h)
		c.chunks = c.chunks[1:]
		if len(c.chunks) == 0 && c.eager {
			return len(h), c.fin
		}
		return len(h), nil
	}
	n := copy(p, h[:len(p)])
	c.chunks[0] = h[n:]
	return n, nil
}

var errInjectedIO = fmt.Errorf("injected I/O error")

// ioCorrespondence ties lean/KmipModel/Io.lean to Go's io.ReadFull and io.LimitReader: random chunkings (empty chunks,
// eager final error, EOF or an I/O error at the end), random request sizes and limits; compared on the bytes returned, the
// error class, and what a subsequent read-to-the-end returns
func ioCorrespondence(r *Result, d *drv.Driver, seed int64, n int) {
	rng := rand.New(rand.NewSource(seed + 606))
	type tc struct {
		line string
		real string
	}
	var cases []tc
	for i := 0; i < n; i++ {
		nc := rng.Intn(6)
		var chunks [][]byte
		var parts []string
		total := 0
		for j := 0; j < nc; j++ {
			l := []int{0, 0, 1, 2, 3, 5, 8, 13}[rng.Intn(8)]
			b := make([]byte, l)
			for x := range b {
				b[x] = byte(rng.Intn(256))
			}
			chunks = append(chunks, b)
			parts = append(parts, hx(b))
			total += l
		}
		finName, fin := "eof", io.EOF
		if rng.Intn(3) == 0 {
			finName, fin = "ioerr", errInjectedIO
		}
		eager := rng.Intn(2) == 0
		k := rng.Intn(total + 4)
		lim := rng.Intn(total + 4)
		kind := []string{"rf", "lim"}[rng.Intn(2)]
		cs := "."
		if len(parts) > 0 {
			cs = strings.Join(parts, ";")
		}
		e := 0
		if eager {
			e = 1
		}
		line := fmt.Sprintf("io %s %s %d %d %d %s", kind, finName, e, lim, k, cs)
		src := &chunkSrc{chunks: chunks, fin: fin, eager: eager}
		var rd io.Reader = src
		if kind == "lim" {
			rd = io.LimitReader(src, int64(lim))
		}
		buf := make([]byte, k)
		_, err := io.ReadFull(rd, buf)
		real := ""
		switch {
		case err == nil:
			rest, _ := io.ReadAll(rd)
			real = fmt.Sprintf("ok %s %s", hx(buf), hx(rest))
		case err == io.EOF:
			real = "err eof"
		default:
			real = "err other"
		}
		cases = append(cases, tc{line, real})
	}
	lines := make([]string, len(cases))
	for i, c := range cases {
		lines[i] = c.line
	}
	replies, err := d.AskAll(lines)
	if err != nil {
		r.find(Finding{Kind: "disagreement", What: "driver failure (io)", Input: err.Error()})
		return
	}
	for i, c := range cases {
		r.eval(c.line, true)
		r.Stats["io-model:"+strings.Fields(c.line)[1]+":"+strings.Fields(c.real)[0]]++
		if replies[i] != c.real {
			r.find(Finding{Kind: "disagreement", What: "the io.ReadFull / io.LimitReader model differs from Go's", Input: c.line, Expect: replies[i], Actual: c.real})
		}
	}
}
