package main

import (
	"bytes"
	"context"
	"fmt"
	"io"
	"log"
	"net"
	"os"
	"regexp"
	"runtime"
	"strconv"
	"strings"
	"sync"
	"syscall"
	"time"

	kmip "github.com/smira/go-kmip"

	"kvharness/internal/drv"
	"kvharness/internal/rec"
)

// ---- C17: the accept loop -------------------------------------------------------------------------------------

func init() { props["C17"] = runC17 }

type syncBuf struct {
	mu sync.Mutex
	b  bytes.Buffer
}

func (s *syncBuf) Write(p []byte) (int, error) {
	s.mu.Lock()
	defer s.mu.Unlock()
	return s.b.Write(p)
}
func (s *syncBuf) String() string {
	s.mu.Lock()
	defer s.mu.Unlock()
	return s.b.String()
}

var retryRe = regexp.MustCompile(`retrying in ([0-9.]+)(ms|s)\b`)

// runAcceptSeq drives the real Serve through a scripted sequence of Accept outcomes and renders what it did
func runAcceptSeq(seq []string) (trace string, wall time.Duration, err error) {
	logbuf := &syncBuf{}
	s := &kmip.Server{Log: log.New(logbuf, "", 0)}
	var mu sync.Mutex
	var events []string
	add := func(e string) { mu.Lock(); events = append(events, e); mu.Unlock() }
	// a session is "started" when its session-auth callback runs (first thing serve does on a non-TLS conn)
	s.SessionAuthHandler = func(c net.Conn) (interface{}, error) {
		rc := c.(*rec.Conn)
		add(fmt.Sprintf("start:%d", rc.ID))
		return nil, nil
	}
	l := rec.NewListener()
	l.CloseDelay = 20 * time.Millisecond
	// an in-memory listener has no network address: Serve needs Accept and Close of its listener, nothing else
	l.NilAddr = len(seq)%3 == 1
	var conns []*rec.Conn
	var clients []*rec.MemConn
	shutdownDone := make(chan error, 4)
	shutdownCalls := 0
	callShutdown := func() {
		shutdownCalls++
		go func() {
			ctx, cancel := context.WithTimeout(context.Background(), 10*time.Second)
			defer cancel()
			shutdownDone <- s.Shutdown(ctx)
		}()
		// Shutdown closes the done channel before it closes the listener: wait for the latter
		for i := 0; i < 5000 && !l.IsClosed(); i++ {
			time.Sleep(time.Millisecond)
		}
	}
	terminal := false
	var permanentErr error = rec.ErrPermanent
	for i, o := range seq {
		switch o[0] {
		case 'T':
			// temporary errors as they occur in practice: not timeouts (EMFILE, ENFILE: syscall.Errno.Temporary), and a temporary timeout
			tempErrs := []error{nil, &net.OpError{Op: "accept", Net: "tcp", Err: os.NewSyscallError("accept", syscall.EMFILE)},
				&net.OpError{Op: "accept", Net: "tcp", Err: os.NewSyscallError("accept", syscall.ENFILE)}, rec.TempTimeoutErr{},
				// temporary by net.OpError's own rule for accept (golang.org/issue/6163), although the errno alone says otherwise
				&net.OpError{Op: "accept", Net: "tcp", Err: syscall.ECONNABORTED}, &net.OpError{Op: "accept", Net: "tcp", Err: syscall.ECONNRESET}}
			l.Push(rec.AcceptStep{Temporary: true, Err: tempErrs[(i+len(seq))%len(tempErrs)]})
		case 'P':
			// permanent errors of several shapes, none of them caused by Shutdown (which is not called in these sequences)
			permErrs := []error{nil, &net.OpError{Op: "accept", Net: "tcp", Err: net.ErrClosed}, net.ErrClosed, io.EOF,
				&net.OpError{Op: "accept", Net: "tcp", Err: os.NewSyscallError("accept", syscall.EINVAL)},
				&net.OpError{Op: "accept", Net: "tcp", Err: os.NewSyscallError("accept", syscall.ECONNABORTED)}, rec.TimeoutOnlyErr{},
				// a wrapper listener giving up: the error it returns is no net.Error, the one it wraps is a temporary one
				fmt.Errorf("listener: giving up after 3 attempts: %w", rec.TempTimeoutErr{})}
			permanentErr = permErrs[(i+len(seq))%len(permErrs)]
			if permanentErr == nil {
				permanentErr = rec.ErrPermanent
			}
			l.Push(rec.AcceptStep{Permanent: true, Err: permanentErr})
			terminal = true
		case 'K', 'L':
			id, _ := strconv.Atoi(o[1:])
			sc, cc := rec.Pipe()
			rc := rec.NewConn(sc, id)
			conns = append(conns, rc)
			clients = append(clients, cc)
			st := rec.AcceptStep{Conn: rc}
			if o[0] == 'L' {
				st.Before = callShutdown
				terminal = true
			}
			l.Push(st)
		case 'S':
			// Accept fails because Shutdown closed the listener
			l.Push(rec.AcceptStep{Temporary: i%2 == 0, Permanent: i%2 == 1, Before: callShutdown})
			// ... and, for the temporary flavour, keeps failing that way: Serve must stop because of Shutdown, not because the
			// listener eventually reports something permanent
			l.TempWhenClosed = i%2 == 0
			terminal = true
		}
		if terminal {
			break
		}
	}
	// closing a closed listener is an error for most listeners (Shutdown closes it, then Serve does on its way out): that
	// error is not an Accept failure and not Serve's to report
	if len(seq)%2 == 0 {
		l.CloseAgainErr = fmt.Errorf("listener: already closed")
	} else if len(seq)%3 == 0 {
		l.CloseAgainErr = net.ErrClosed
	}
	init := make(chan struct{})
	ret := make(chan error, 1)
	t0 := time.Now()
	// the listener reaches Serve as the pointer it is, or wrapped BY VALUE in a struct with a func field: a net.Listener need
	// not be comparable, and nothing Serve does with it may depend on comparing it
	var given net.Listener = l
	if len(strings.Join(seq, ""))%2 == 1 {
		given = valueListener{Listener: l, hook: func() {}}
	}
	go func() {
		defer func() {
			if p := recover(); p != nil {
				ret <- fmt.Errorf("Serve panicked: %v", p)
				select {
				case <-init:
				default:
					close(init)
				}
			}
		}()
		ret <- s.Serve(given, init)
	}()
	<-init
	var serveErr error
	returned := false
	if terminal {
		select {
		case serveErr = <-ret:
			returned = true
		case <-time.After(4 * time.Second):
			return "", 0, fmt.Errorf("Serve did not return")
		}
	} else {
		// the script ran out: Accept blocks. Wait until every scripted outcome was consumed, check Serve is still serving, then shut down.
		for i := 0; i < 20000 && l.Accepts < len(seq); i++ {
			time.Sleep(time.Millisecond)
		}
		time.Sleep(5 * time.Millisecond)
		select {
		case serveErr = <-ret:
			returned = true
			add("RETURNED-EARLY")
		default:
		}
	}
	wall = time.Since(t0)
	// let sessions start, then end them
	time.Sleep(5 * time.Millisecond)
	for _, c := range clients {
		c.Close()
	}
	if !returned {
		callShutdown()
		select {
		case serveErr = <-ret:
		case <-time.After(15 * time.Second):
			return "", 0, fmt.Errorf("Serve did not return after Shutdown")
		}
		if serveErr != nil {
			add("final-return:err")
		}
		serveErr = nil
		returned = false
	}
	for i := 0; i < shutdownCalls; i++ {
		select {
		case e := <-shutdownDone:
			if e != nil {
				add("shutdown-error:" + e.Error())
			}
		case <-time.After(15 * time.Second):
			add("shutdown-error:did not return")
		}
	}
	// assemble: delays from the log (in order), starts (in accept order = session numbering), late closes, return
	var out []string
	for _, m := range retryRe.FindAllStringSubmatch(logbuf.String(), -1) {
		f, _ := strconv.ParseFloat(m[1], 64)
		if m[2] == "s" {
			f *= 1000
		}
		out = append(out, fmt.Sprintf("sleep:%d", int(f+0.5)))
	}
	mu.Lock()
	evs := append([]string(nil), events...)
	mu.Unlock()
	started := map[int]bool{}
	for _, e := range evs {
		if strings.HasPrefix(e, "start:") {
			id, _ := strconv.Atoi(strings.TrimPrefix(e, "start:"))
			started[id] = true
		}
	}
	// session numbers: the k-th accepted connection gets number k; read it back from the log ("[%08x] New connection")
	sessRe := regexp.MustCompile(`\[INFO\] \[([0-9a-f]{8})\] New connection`)
	nums := sessRe.FindAllStringSubmatch(logbuf.String(), -1)
	_ = nums
	n := 0
	for _, c := range conns {
		if started[c.ID] {
			n++
			out = append(out, fmt.Sprintf("start:%d:%d", c.ID, n))
		} else {
			closed := false
			select {
			case <-c.Closed():
				closed = true
			case <-time.After(2 * time.Second):
			}
			if closed {
				out = append(out, fmt.Sprintf("closeLate:%d", c.ID))
			} else {
				out = append(out, fmt.Sprintf("LEAKED:%d", c.ID))
			}
		}
	}
	if returned {
		if serveErr == nil {
			out = append(out, "return:nil")
		} else if serveErr == permanentErr {
			out = append(out, "return:err")
		} else {
			out = append(out, "return:OTHER("+serveErr.Error()+")")
		}
	}
	for _, e := range evs {
		if !strings.HasPrefix(e, "start:") {
			out = append(out, e)
		}
	}
	return strings.Join(out, ";"), wall, nil
}

// order-insensitive rendering of the model trace in the same canonical order (sleeps, starts, late closes, return)
func canonAccept(model string) string {
	var sleeps, starts, lates, ret []string
	for _, e := range strings.Split(strings.TrimPrefix(model, "ok "), ";") {
		switch {
		case strings.HasPrefix(e, "sleep:"):
			sleeps = append(sleeps, e)
		case strings.HasPrefix(e, "start:"):
			starts = append(starts, e)
		case strings.HasPrefix(e, "closeLate:"):
			lates = append(lates, e)
		case strings.HasPrefix(e, "return:"):
			ret = append(ret, e)
		}
	}
	all := append(append(append(sleeps, starts...), lates...), ret...)
	return strings.Join(all, ";")
}

func runC17(r *Result, d *drv.Driver, tier string, seed int64, replay string) {
	c17ZeroValueServer(r)
	maxLen := 4
	if tier == "thorough" {
		maxLen = 6
	}
	r.Rule = fmt.Sprintf("exhaustive: every sequence up to length %d over {temporary error, successful accept, permanent error, failure caused by Shutdown, connection accepted after Shutdown was signalled} (sequences end at the first terminal letter), "+
		"injected through the net.Listener given to the real Serve (handed over as a pointer or wrapped by value; closing it a second time reports nil, net.ErrClosed or an error of its own, by the length of the sequence; its Close wakes Accept at once and returns 20 ms later); plus one run of 10 consecutive temporary errors reaching the 1 s cap. Observed: back-off delays (from the server's log, and the wall clock as lower bound), sessions started with their numbers, late connections closed, Serve's return value; compared with the model. distinct = one per sequence; non-trivial = length > 1", maxLen)
	r.Exhaustive = true
	var seqs [][]string
	var gen func(prefix []string, conn int)
	gen = func(prefix []string, conn int) {
		if len(prefix) > 0 {
			seqs = append(seqs, append([]string(nil), prefix...))
		}
		if len(prefix) == maxLen {
			return
		}
		if len(prefix) > 0 {
			switch prefix[len(prefix)-1][0] {
			case 'P', 'S', 'L':
				return
			}
		}
		gen(append(prefix, "T"), conn)
		gen(append(prefix, fmt.Sprintf("K%d", conn)), conn+1)
		gen(append(prefix, "P"), conn)
		gen(append(prefix, "S"), conn)
		gen(append(prefix, fmt.Sprintf("L%d", conn)), conn+1)
	}
	gen(nil, 1)
	seqs = append(seqs, []string{"T", "T", "T", "T", "T", "T", "T", "T", "T", "T", "K1"})
	var lines []string
	for _, s := range seqs {
		lines = append(lines, "accept "+strings.Join(s, " "))
	}
	replies, err := d.AskAll(lines)
	if err != nil {
		r.find(Finding{Kind: "disagreement", What: "driver failure", Input: err.Error()})
		return
	}
	type res struct {
		trace string
		wall  time.Duration
		err   error
	}
	// first on a single P, one sequence at a time, the sequences in which a connection is accepted and Accept has the next
	// outcome ready at once: the accept loop runs on without yielding, the session goroutine it has just started runs later -
	// anything that goroutine reads from the loop's variables it reads after the loop has moved on
	nPar := len(seqs)
	var extraSeqs [][]string
	var extraReplies []string
	var extraResults []res
	oldP := runtime.GOMAXPROCS(1)
	for i := 0; i < nPar; i++ {
		ks := 0
		for j, o := range seqs[i] {
			if (o[0] == 'K' || o[0] == 'L') && j+1 < len(seqs[i]) {
				ks++
			}
		}
		if ks == 0 {
			continue
		}
		crumb("C17 accept outcomes " + strings.Join(seqs[i], " ") + " (single P, one sequence at a time)")
		t, w, e := runAcceptSeq(seqs[i])
		extraSeqs = append(extraSeqs, seqs[i])
		extraReplies = append(extraReplies, replies[i])
		extraResults = append(extraResults, res{t, w, e})
		r.Stats["single-P-sequences"]++
	}
	runtime.GOMAXPROCS(oldP)
	results := make([]res, len(seqs))
	crumb(fmt.Sprintf("C17 all %d accept sequences, 32 at a time", len(seqs)))
	var wg sync.WaitGroup
	sem := make(chan struct{}, 32)
	for i := range seqs {
		wg.Add(1)
		sem <- struct{}{}
		go func(i int) {
			defer wg.Done()
			defer func() { <-sem }()
			t, w, e := runAcceptSeq(seqs[i])
			results[i] = res{t, w, e}
		}(i)
	}
	wg.Wait()
	seqs = append(seqs, extraSeqs...)
	replies = append(replies, extraReplies...)
	results = append(results, extraResults...)
	for i, s := range seqs {
		key := strings.Join(s, " ")
		if i >= nPar {
			key += " (single P)"
		}
		r.eval(key, len(s) > 1)
		for _, o := range s {
			r.Stats["outcome:"+o[:1]]++
		}
		if results[i].err != nil {
			r.find(Finding{Kind: "violation", What: "Serve did not behave: " + results[i].err.Error(), Input: key})
			continue
		}
		want := canonAccept(replies[i])
		got := results[i].trace
		if len(r.Samples) < 3 && len(s) >= 3 {
			r.sample(map[string]string{"accept_outcomes": key, "real": got})
		}
		if got != want {
			r.find(Finding{Kind: "disagreement", What: "accept-loop model differs from the real Serve", Input: key, Expect: want, Actual: got})
		}
		// property oracle, stated directly on the real observation
		total := 0
		lastSleep := 0
		for _, e := range strings.Split(got, ";") {
			if strings.HasPrefix(e, "sleep:") {
				ms, _ := strconv.Atoi(strings.TrimPrefix(e, "sleep:"))
				if ms > 1000 || ms <= 0 {
					r.find(Finding{Kind: "violation", What: "back-off delay outside (0, 1s]", Input: key, Actual: e})
				}
				total += ms
				lastSleep = ms
			}
			if strings.HasPrefix(e, "LEAKED") || strings.HasPrefix(e, "RETURNED-EARLY") || strings.HasPrefix(e, "return:OTHER") || strings.HasPrefix(e, "final-return:err") || strings.HasPrefix(e, "shutdown-error") {
				r.find(Finding{Kind: "violation", What: "Serve mishandled the accept sequence: " + strings.SplitN(e, ":", 2)[0], Input: key, Actual: got})
			}
		}
		// every K before the first terminal letter must have been served
		for _, o := range s {
			if o[0] == 'K' && !strings.Contains(got, "start:"+o[1:]+":") {
				r.find(Finding{Kind: "violation", What: "a connection arriving after temporary errors was not served", Input: key, Actual: got})
			}
			if o[0] == 'P' && !strings.Contains(got, "return:err") {
				r.find(Finding{Kind: "violation", What: "Serve did not return the permanent Accept error", Input: key, Actual: got})
			}
			if (o[0] == 'S' || o[0] == 'L') && !strings.Contains(got, "return:nil") {
				r.find(Finding{Kind: "violation", What: "Serve did not return nil when the failure was caused by Shutdown", Input: key, Actual: got})
			}
		}
		// the wall clock is read when the last scripted outcome has been consumed, i.e. before the last sleep
		total -= lastSleep
		if results[i].wall < time.Duration(total)*time.Millisecond*9/10 {
			r.find(Finding{Kind: "violation", What: "Serve retried sooner than the back-off it logged", Input: key, Expect: fmt.Sprintf(">= %dms", total), Actual: results[i].wall.String()})
		}
	}
}

// valueListener: a net.Listener that is a struct VALUE with a func field (comparing two of them panics at run time)
type valueListener struct {
	net.Listener
	hook func()
}

// c17ZeroValueServer: the accept loop of a Server used exactly as its zero value allows - no Log, no handlers, no callbacks -
// through temporary errors (the path that reports and backs off), a served connection and a permanent error.
func c17ZeroValueServer(r *Result) {
	for _, nTemp := range []int{1, 3} {
		key := fmt.Sprintf("zero-value Server (no Log configured): %d temporary Accept error(s), a connection, a permanent error", nTemp)
		r.eval(key, true)
		s := &kmip.Server{}
		l := rec.NewListener()
		for i := 0; i < nTemp; i++ {
			l.Push(rec.AcceptStep{Temporary: true})
		}
		sc, cc := rec.Pipe()
		l.Push(rec.AcceptStep{Conn: rec.NewConn(sc, 1)})
		init := make(chan struct{})
		ret := make(chan error, 1)
		go func() {
			defer func() {
				if p := recover(); p != nil {
					ret <- fmt.Errorf("Serve panicked: %v", p)
					select {
					case <-init:
					default:
						close(init)
					}
				}
			}()
			ret <- s.Serve(l, init)
		}()
		<-init
		_ = cc.SetDeadline(time.Now().Add(5 * time.Second))
		req := kmip.Request{Header: kmip.RequestHeader{Version: kmip.ProtocolVersion{Major: 1, Minor: 4}, BatchCount: 1},
			BatchItems: []kmip.RequestBatchItem{{Operation: kmip.OPERATION_DISCOVER_VERSIONS, RequestPayload: kmip.DiscoverVersionsRequest{}}}}
		var resp kmip.Response
		err := kmip.NewEncoder(cc).Encode(&req)
		if err == nil {
			err = kmip.NewDecoder(cc).Decode(&resp)
		}
		obs := fmt.Sprintf("served=%v ", err == nil)
		cc.Close()
		permanent := fmt.Errorf("accept: broken")
		l.Push(rec.AcceptStep{Permanent: true, Err: permanent})
		select {
		case e := <-ret:
			obs += fmt.Sprintf("serve-returned-the-permanent-error=%v", e == permanent)
			if e != permanent {
				obs += fmt.Sprintf(" (%v)", e)
			}
		case <-time.After(5 * time.Second):
			obs += "serve-still-running"
		}
		if obs != "served=true serve-returned-the-permanent-error=true" {
			r.find(Finding{Kind: "violation", What: "a zero-value Server did not survive temporary Accept errors / did not return the permanent one", Input: key, Expect: "served=true serve-returned-the-permanent-error=true", Actual: obs})
		}
		r.Stats["zero-value-accept-scenarios"]++
	}
}
