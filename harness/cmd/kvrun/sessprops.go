package main

import (
	"fmt"
	"math/rand"
	"runtime"
	"strconv"
	"strings"
	"time"

	kmip "github.com/smira/go-kmip"

	"kvharness/internal/drv"
)

type sessOracle func(r *Result, run *sessionRun, pipelined bool)

// sessionCorrespondence: batches of concurrent sessions on one real Server, each compared with the model's trace
func sessionCorrespondence(r *Result, d *drv.Driver, seed int64, batches, perBatch int, o scriptOpts, T time.Duration, oracles ...sessOracle) {
	rng := rand.New(rand.NewSource(seed))
	traceStart = time.Now()
	for b := 0; b < batches; b++ {
		common := genCommonCfg(rng)
		saConfigured := rng.Intn(2) == 0
		pipelined := rng.Intn(3) == 0
		n := 1 + rng.Intn(perBatch)
		var runs []*sessionRun
		for i := 0; i < n; i++ {
			cfg, arrs := genScript(rng, common, saConfigured, o)
			runs = append(runs, &sessionRun{cfg: cfg, arrs: arrs})
		}
		{
			var ls []string
			for _, run := range runs {
				ls = append(ls, scriptLine(run.cfg, run.arrs))
			}
			crumb(fmt.Sprintf("sessions served concurrently by one Server (pipelined=%v):\n%s", pipelined, strings.Join(ls, "\n")))
		}
		if err := runSessions(runs, pipelined, T, rng); err != nil {
			r.find(Finding{Kind: "violation", What: "server did not finish its sessions / shut down cleanly", Input: scriptLine(runs[0].cfg, runs[0].arrs), Actual: err.Error()})
			continue
		}
		var lines []string
		for _, run := range runs {
			lines = append(lines, scriptLine(run.cfg, run.arrs))
		}
		replies, err := d.AskAll(lines)
		if err != nil {
			r.find(Finding{Kind: "disagreement", What: "driver failure", Input: err.Error()})
			return
		}
		for i, run := range runs {
			model := replies[i]
			if pipelined {
				model = dropDecode(model)
			}
			real := strings.Join(run.trace, ";")
			r.eval(lines[i], len(run.arrs) > 1)
			r.Stats[fmt.Sprintf("sessions:concurrent=%d", n)]++
			r.Stats[fmt.Sprintf("pipelined=%v", pipelined)]++
			for _, a := range run.arrs {
				r.Stats["arrival:"+string(a.kind)+a.how]++
				if a.kind == 'R' {
					r.Stats[fmt.Sprintf("batchsize:%d", len(a.req.items))]++
					for _, it := range a.req.items {
						r.Stats["beh:"+string(it.beh.kind)+fmt.Sprintf(":enc=%v", it.beh.enc || it.beh.kind != 's')]++
					}
				}
			}
			if b == 0 && i == 0 {
				r.sample(map[string]string{"script": lines[i], "real_trace": real})
			}
			if model != real {
				r.find(Finding{Kind: "disagreement", What: "session model trace differs from the real server's", Input: map[string]interface{}{"script": lines[i], "pipelined": pipelined, "concurrent": n}, Expect: model, Actual: real})
			}
			for _, or := range oracles {
				or(r, run, pipelined)
			}
		}
	}
}

// ---- helpers over real traces ---------------------------------------------------------------------------

type tev struct {
	kind string
	f    []string
	raw  string
}

func parseTrace(tr []string) []tev {
	var out []tev
	for _, e := range tr {
		f := strings.Split(e, ":")
		out = append(out, tev{kind: f[0], f: f, raw: e})
	}
	return out
}

func atoi(s string) int { n, _ := strconv.Atoi(s); return n }

func violation(r *Result, what string, run *sessionRun, expect, actual string) {
	r.find(Finding{Kind: "violation", What: what, Input: map[string]string{"script": scriptLine(run.cfg, run.arrs), "real_trace": strings.Join(run.trace, ";")}, Expect: expect, Actual: actual})
}

func registered(cfg sCfg, op uint32) bool {
	for _, o := range cfg.reg {
		if o == op {
			return true
		}
	}
	return false
}

// expectedItem: the per-item result the property prescribes, derived from the script (written independently of the Lean model)
func expectedItem(cfg sCfg, it sItem) string {
	uid := hx(it.uid)
	if !registered(cfg, it.op) {
		return fmt.Sprintf("%d,%s,%d,%d,notsupported,-", it.op, uid, uint32(kmip.RESULT_STATUS_OPERATION_FAILED), uint32(kmip.RESULT_REASON_OPERATION_NOT_SUPPORTED))
	}
	switch it.beh.kind {
	case 's':
		return fmt.Sprintf("%d,%s,%d,0,-,%d", it.op, uid, uint32(kmip.RESULT_STATUS_SUCCESS), it.beh.payload)
	case 'n':
		return fmt.Sprintf("%d,%s,%d,0,-,-", it.op, uid, uint32(kmip.RESULT_STATUS_SUCCESS))
	case 'e':
		return fmt.Sprintf("%d,%s,%d,%d,m%d,-", it.op, uid, uint32(kmip.RESULT_STATUS_OPERATION_FAILED), uint32(kmip.RESULT_REASON_GENERAL_FAILURE), it.beh.msg)
	case 'r':
		return fmt.Sprintf("%d,%s,%d,%d,m%d,-", it.op, uid, uint32(kmip.RESULT_STATUS_OPERATION_FAILED), it.beh.reason, it.beh.msg)
	case 'v':
		reason := it.beh.reason
		if reason == 0 {
			reason = int(kmip.RESULT_REASON_GENERAL_FAILURE)
		}
		return fmt.Sprintf("%d,%s,%d,%d,m%d,-", it.op, uid, uint32(kmip.RESULT_STATUS_OPERATION_FAILED), reason, it.beh.msg)
	default:
		return fmt.Sprintf("%d,%s,%d,%d,panic:m%d,-", it.op, uid, uint32(kmip.RESULT_STATUS_OPERATION_FAILED), uint32(kmip.RESULT_REASON_GENERAL_FAILURE), it.beh.msg)
	}
}

// ---- C07 --------------------------------------------------------------------------------------------------

func oracleC07(r *Result, run *sessionRun, pipelined bool) {
	evs := parseTrace(run.trace)
	if len(evs) == 0 || evs[len(evs)-1].kind != "close" {
		violation(r, "connection left open at the end of the session", run, "…;close", strings.Join(run.trace, ";"))
		return
	}
	nresp := 0
	for _, e := range evs {
		switch e.kind {
		case "respond":
			k := atoi(e.f[1])
			if k != nresp {
				violation(r, "responses out of order", run, fmt.Sprint(nresp), e.raw)
			}
			if k >= len(run.arrs) || run.arrs[k].kind != 'R' {
				violation(r, "a response without a request", run, "", e.raw)
				return
			}
			q := run.arrs[k].req
			var its []string
			for _, it := range q.items {
				its = append(its, fmt.Sprintf("%d,%s", it.op, hx(it.uid)))
			}
			// echo fields: version, correlation value, batch count, per item operation and unique batch item ID, in order; timestamp bracket
			want := fmt.Sprintf("v=%d.%d:corr=%s:bc=%d", uint32(q.maj), uint32(q.min), hx([]byte(q.corr)), uint32(q.bc))
			got := strings.Join(e.f[2:5], ":")
			if got != want {
				violation(r, "the k-th response does not echo the k-th request's header", run, want, got)
			}
			items := strings.TrimPrefix(strings.Join(e.f[5:], ":"), "items=")
			gotItems := strings.Split(items, "/")
			if len(gotItems) != len(q.items) {
				violation(r, "response does not contain one item per request item", run, fmt.Sprint(len(q.items)), fmt.Sprint(len(gotItems)))
			} else {
				for i, gi := range gotItems {
					if !strings.HasPrefix(gi, its[i]+",") {
						violation(r, "response item does not carry the request item's operation and unique batch item ID", run, its[i], gi)
					}
				}
			}
			if strings.Contains(e.raw, "BADCLOCK") || strings.Contains(e.raw, "UNDECODABLE") {
				violation(r, "response is not decodable or does not bear the server's current time", run, "", e.raw)
			}
			nresp++
		case "call":
			if k := atoi(e.f[1]); k > nresp {
				violation(r, "a later request was processed while an earlier one was unanswered", run, fmt.Sprintf("request %d answered first", nresp), e.raw)
			}
		}
	}
}

// ---- C08 --------------------------------------------------------------------------------------------------

func oracleC08(r *Result, run *sessionRun, pipelined bool) {
	evs := parseTrace(run.trace)
	calls := map[int][]tev{}
	for _, e := range evs {
		if e.kind == "call" {
			calls[atoi(e.f[1])] = append(calls[atoi(e.f[1])], e)
		}
	}
	for _, e := range evs {
		if e.kind != "respond" {
			continue
		}
		k := atoi(e.f[1])
		if k >= len(run.arrs) || run.arrs[k].kind != 'R' {
			continue
		}
		q := run.arrs[k].req
		items := strings.Split(strings.TrimPrefix(strings.Join(e.f[5:], ":"), "items="), "/")
		// every registered item invoked exactly once, in order, with its own payload
		var wantCalls []string
		for i, it := range q.items {
			if registered(run.cfg, it.op) {
				wantCalls = append(wantCalls, fmt.Sprintf("%d:%d:%d", i, it.op, it.payload))
			}
		}
		var gotCalls []string
		for _, c := range calls[k] {
			gotCalls = append(gotCalls, strings.Join(c.f[2:5], ":"))
		}
		if strings.Join(wantCalls, " ") != strings.Join(gotCalls, " ") {
			violation(r, "handlers were not invoked exactly once per item, in order, with the item's payload", run, strings.Join(wantCalls, " "), strings.Join(gotCalls, " "))
		}
		for i, it := range q.items {
			if i >= len(items) {
				break
			}
			if want := expectedItem(run.cfg, it); items[i] != want {
				violation(r, "an item's reported result is not the outcome of its own handler", run, want, items[i])
			}
		}
	}
}

// ---- C09 --------------------------------------------------------------------------------------------------

func oracleC09(r *Result, run *sessionRun, pipelined bool) {
	evs := parseTrace(run.trace)
	saFailed := false
	for _, e := range evs {
		switch e.kind {
		case "sessionAuth":
			if e.f[1] == "fail" {
				saFailed = true
			}
		case "respond":
			if saFailed {
				violation(r, "a response was sent on a connection whose session authentication failed", run, "", e.raw)
			}
			if k := atoi(e.f[1]); k < len(run.arrs) && run.arrs[k].kind == 'R' {
				if q := run.arrs[k].req; q.cred != 0 && (!run.cfg.ra || !strings.HasPrefix(q.auth, "ok:")) {
					violation(r, "a request whose credentials were rejected or could not be checked was answered (the connection must be closed without a response)", run, "close, no response", e.raw)
				}
			}
		case "call":
			if saFailed {
				violation(r, "a handler ran on a connection whose session authentication failed", run, "", e.raw)
			}
			k := atoi(e.f[1])
			if k >= len(run.arrs) || run.arrs[k].kind != 'R' {
				violation(r, "a handler was invoked with a context or payload that does not belong to a request of its connection", run, fmt.Sprintf("sid=%d", run.cfg.sid), e.raw)
				continue
			}
			q := run.arrs[k].req
			wantSA := "-"
			if strings.HasPrefix(run.cfg.sa, "ok:") {
				wantSA = strings.TrimPrefix(run.cfg.sa, "ok:")
			}
			wantRA := "-"
			if q.cred != 0 {
				if !run.cfg.ra || !strings.HasPrefix(q.auth, "ok:") {
					violation(r, "a handler ran for a request whose credentials were rejected or could not be checked", run, "no call", e.raw)
				}
				wantRA = strings.TrimPrefix(q.auth, "ok:")
			}
			want := fmt.Sprintf("sid=%d:sa=%s:ra=%s", run.cfg.sid, wantSA, wantRA)
			if got := strings.Join(e.f[5:], ":"); got != want {
				violation(r, "a handler saw an authentication context that is not its own connection's / request's", run, want, got)
			}
		}
	}
}

// ---- C10 --------------------------------------------------------------------------------------------------

func oracleC10(r *Result, run *sessionRun, pipelined bool) {
	evs := parseTrace(run.trace)
	if len(evs) == 0 || evs[len(evs)-1].kind != "close" {
		violation(r, "the connection of a finished peer was not released", run, "close", strings.Join(run.trace, ";"))
	}
	// no handler for a message that did not decode completely and consistently
	for _, e := range evs {
		if e.kind != "call" {
			continue
		}
		k := atoi(e.f[1])
		if k >= len(run.arrs) || run.arrs[k].kind != 'R' {
			violation(r, "a handler ran for a message that did not decode", run, "no call", e.raw)
			continue
		}
		q := run.arrs[k].req
		if int(q.bc) != len(q.items) || q.async {
			violation(r, "a handler ran for an inconsistent or asynchronous request", run, "no call", e.raw)
		}
	}
	// valid traffic keeps being served whatever other connections (of this and of earlier batches, on the same process) sent:
	// every leading well-formed request of this connection is answered
	want, got := expectedAnswered(run.cfg, run.arrs), 0
	for _, e := range evs {
		if e.kind == "respond" {
			got++
		}
	}
	if got < want {
		violation(r, "a well-formed request on a connection that sent nothing malformed before it was not answered", run, fmt.Sprintf("%d responses", want), fmt.Sprintf("%d responses", got))
	}
	stalledPeerDropped(r, run)
}

// expectedAnswered: how many of the connection's leading requests the property says are answered, from the script alone
func expectedAnswered(cfg sCfg, arrs []sArr) int {
	if cfg.sa == "fail" {
		return 0
	}
	n := 0
	for _, a := range arrs {
		if a.kind != 'R' {
			break
		}
		q := a.req
		if int(q.bc) != len(q.items) || q.async || !q.writeOk {
			break
		}
		if q.cred != 0 && (!cfg.ra || !strings.HasPrefix(q.auth, "ok")) {
			break
		}
		unenc := false
		for _, it := range q.items {
			if registered(cfg, it.op) && it.beh.kind == 's' && !it.beh.enc {
				unenc = true
			}
		}
		if unenc {
			break
		}
		n++
	}
	return n
}

// ---- C15 --------------------------------------------------------------------------------------------------

func oracleC15(r *Result, run *sessionRun, pipelined bool) {
	evs := parseTrace(run.trace)
	for i, e := range evs {
		switch e.kind {
		case "armRead":
			if !run.cfg.rt {
				violation(r, "a read deadline was set although ReadTimeout is zero", run, "none", e.raw)
			}
		case "armWrite":
			if !run.cfg.wt {
				violation(r, "a write deadline was set although WriteTimeout is zero", run, "none", e.raw)
			}
		case "armBoth", "clearRead", "clearWrite":
			violation(r, "unexpected deadline manipulation", run, "", e.raw)
		case "decode":
			if run.cfg.rt && (i == 0 || evs[i-1].kind != "armRead") {
				violation(r, "the server waited for a request without arming a fresh read deadline", run, "armRead;decode", strings.Join(run.trace, ";"))
			}
		case "respond":
			if run.cfg.wt {
				// the nearest preceding non-call event must be armWrite
				j := i - 1
				for j >= 0 && evs[j].kind == "respond" && pipelined {
					j--
				}
				if j < 0 || evs[j].kind != "armWrite" {
					if !(pipelined && j >= 0 && evs[j].kind == "armRead") { // pipelined: armWrite,write coalesce only if no read arm between
						violation(r, "a response was written without arming a fresh write deadline", run, "armWrite;respond", strings.Join(run.trace, ";"))
					}
				}
			}
		}
	}
	// a stalled peer is disconnected
	for _, a := range run.arrs {
		if a.kind == 'E' && a.how == "stall" {
			if len(evs) == 0 || evs[len(evs)-1].kind != "close" {
				violation(r, "a peer that stalled inside a request was not disconnected", run, "close", strings.Join(run.trace, ";"))
			}
		}
	}
	stalledPeerDropped(r, run)
}

// stalledPeerDropped: a peer that went silent in the middle of a message (and stays connected) is disconnected BY THE SERVER
// when the read deadline expires - not only once the peer gives up
func stalledPeerDropped(r *Result, run *sessionRun) {
	if !run.cfg.rt || run.cfg.sa == "fail" || len(run.arrs) == 0 {
		return
	}
	last := run.arrs[len(run.arrs)-1]
	if last.kind == 'E' && last.how == "stall" && !run.peerClosed && !run.serverClosedFirst {
		// only if the session got as far as the stalling message: every earlier arrival must have been answered
		if expectedAnswered(run.cfg, run.arrs) == len(run.arrs)-1 {
			violation(r, "a peer that went silent (inside a message or at a message boundary) was still connected 8 s later although ReadTimeout is set (the deadline did not end the session)", run, "closed by the server at the read deadline", strings.Join(run.trace, ";"))
		}
	}
}

func sessRule(extra string) string {
	return "random session scripts run on the real Server over in-memory recording connections, 1..N concurrent sessions per server, sequential or pipelined delivery: " +
		"1..8 arrivals (requests with 1..5 items over behaviours success/unencodable/nil/error/error-with-reason/value-beside-an-error/panic/no-handler, with and without batch IDs, correlation values and credentials; inconsistent batch counts; asynchronous requests; failing response writes; garbage, wrong message type, truncation+close, stall, clean close); " +
		"each real event trace (deadlines, reads, callbacks, handler calls with their context, decoded responses, close) is compared with the Lean model's trace and judged by the property oracle. " + extra +
		" distinct = distinct script; non-trivial = more than one arrival"
}

func sizes(tier string) (batches, per int) {
	if tier == "thorough" {
		return 900, 8
	}
	return 90, 6
}

func init() {
	props["C07"] = func(r *Result, d *drv.Driver, tier string, seed int64, replay string) {
		r.Rule = sessRule("C07 oracle: one response per request in order echoing version/correlation/batch count/operations/IDs with a current timestamp, else close; no later request processed first; plus response writes that fail once (temporary or permanent error, after 0..24 bytes went out): the peer sees one response or a closed connection, nothing else; plus 60 requests (1..4 items over eight operations with success-by-value / success-by-pointer / error with reason / plain error / nil result / panic / no handler / built-in outcomes; correlation values, versions, header options, inconsistent counts, asynchronous, credentials accepted / refused / uncheckable) whose real response BYTES are compared with the encoding of the Response the message model (KmipModel/Wire.lean) builds.")
		b, p := sizes(tier)
		sessionCorrespondence(r, d, seed*31+7, b, p, scriptOpts{maxArr: 8, maxItems: 5}, 150*time.Millisecond, oracleC07)
		c07Timestamp(r)
		c07WriteFaults(r)
		c07Wire(r, d, seed)
		c07WireDV(r, d)
		c07MutatingHandlers(r)
	}
	props["C08"] = func(r *Result, d *drv.Driver, tier string, seed int64, replay string) {
		r.Rule = sessRule("C08 oracle: each registered item invoked exactly once in order with its payload; each item's status/reason/message/payload is its own handler's outcome; the process survives (all runs are in-process); plus batches in which a handler panics with values hostile to rendering (panicking Error/String methods, typed nil errors), batches in which a handler RETURNS such an error (typed nil pointer, panicking Error / ResultReason method) or panics with nil, and batches in which a handler returns a first result together with its error (half-filled, typed nil, unencodable), and batches with a handler slower than the server's timeouts, and batches during whose slow handler another connection is accepted and served (then completed, the built-in Discover Versions behind the slow item included).")
		b, p := sizes(tier)
		sessionCorrespondence(r, d, seed*31+8, b, p, scriptOpts{maxArr: 6, maxItems: 5}, 150*time.Millisecond, oracleC08)
		c08EvilPanics(r)
		c08EvilErrors(r)
		c08ValueWithError(r)
		c08SlowHandlers(r)
		c08BusyServer(r)
		c08Messages(r)
		c08Registration(r)
	}
	props["C09"] = func(r *Result, d *drv.Driver, tier string, seed int64, replay string) {
		r.Rule = sessRule("C09 oracle: no call/response after a failed session auth; no call for rejected or uncheckable credentials; every call sees its own connection's session id/auth and its own request's auth value; plus one long-lived connection across a replacement of the request-authentication callback (rejecting / nil / other value): the callback in force when the request arrives decides.")
		b, p := sizes(tier)
		sessionCorrespondence(r, d, seed*31+9, b, p+2, scriptOpts{maxArr: 8, maxItems: 3, credHeavy: true}, 150*time.Millisecond, oracleC09)
		c09Reconfigure(r)
		c09PerOperation(r)
		c09AuthCallbackPanics(r)
		c09ResumedSession(r)
		c09ContextMutation(r)
		// the same on a single P: a burst of queued connections is accepted back to back before any session goroutine
		// gets to run, so anything a session reads late from the accept loop's variables is read after the loop moved on
		old := runtime.GOMAXPROCS(1)
		sessionCorrespondence(r, d, seed*31+109, b/4+2, p+6, scriptOpts{maxArr: 4, maxItems: 2, credHeavy: true}, 150*time.Millisecond, oracleC09)
		runtime.GOMAXPROCS(old)
		r.Stats["phase:single-P-burst-batches"] = b/4 + 2
	}
	props["C10"] = func(r *Result, d *drv.Driver, tier string, seed int64, replay string) {
		r.Rule = sessRule("C10 oracle: no handler for undecodable / inconsistent / asynchronous messages; the connection is closed; concurrent sessions keep matching their own model traces; Shutdown returns nil after the peers are gone (sessions released); plus, on a TLS-serving Server: peers that leave without a byte, after the first bytes of a TLS record, or speak plaintext - connection closed, no callback at all.")
		b, p := sizes(tier)
		sessionCorrespondence(r, d, seed*31+10, b, p+2, scriptOpts{maxArr: 5, maxItems: 3, allowStall: true}, 60*time.Millisecond, oracleC10)
		c10Probes(r)
		c10StalledHandshake(r)
		c10BadThenSilent(r)
	}
	props["C15"] = func(r *Result, d *drv.Driver, tier string, seed int64, replay string) {
		r.Rule = sessRule("C15 oracle: with ReadTimeout every wait for a request is immediately preceded by a fresh read deadline, with WriteTimeout every response by a fresh write deadline, with zero timeouts no deadline is ever set; a peer stalling inside a request is disconnected when the real deadline (60 ms) expires; plus the same rules observed on real TLS connections (handshake included) for every zero/non-zero combination of the two timeouts, on the server side and on the Client side (incl. a 32 MiB request whose writing takes longer than the Client's ReadTimeout while the response follows at once); plus peers falling silent before the first request, at a message boundary after 1..3 exchanges, and inside the next item header or body (plain and TLS): the server must hang up by itself at the deadline; a request trickling in with every gap below ReadTimeout but the whole above it is not answered; a peer that stops reading so that the response cannot be written is disconnected at the write deadline (whatever ReadTimeout is) and its queued request is not processed.")
		b, p := sizes(tier)
		sessionCorrespondence(r, d, seed*31+15, b, p, scriptOpts{maxArr: 8, maxItems: 2, allowStall: true}, 60*time.Millisecond, oracleC15)
		c15TLS(r, d)
		c15Client(r)
		c15ClientTrace(r, d)
		c15ClientSlowWrite(r)
		c15Partial(r)
		c15Idle(r)
		c15Trickle(r)
		c15StalledWrite(r)
		c15SlowHandshake(r)
		c15DuringShutdown(r)
		c15HandshakeStall(r)
	}
}
