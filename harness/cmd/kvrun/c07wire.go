package main

import (
	"bytes"
	"context"
	"crypto/tls"
	"encoding/binary"
	"fmt"
	"io"
	"math/rand"
	"strings"
	"time"

	kmip "github.com/smira/go-kmip"

	"kvharness/internal/drv"
	"kvharness/internal/gen"
	"kvharness/internal/mut"
	"kvharness/internal/rec"
	"kvharness/internal/render"
	"kvharness/internal/tlsm"
)

// ---- the message model (KmipModel/Wire.lean) against the bytes on the wire -------------------------------------------------
//
// c07Wire: the Response the real Server writes for a request, byte for byte, against the encoding of the Response value the
// message model builds from the same request bytes and the same handler outcomes (driver `wireresp`). The server's clock is
// read off the real response's Time Stamp (checked to lie between the moments before and after the exchange) and handed to
// the model.
//
// c14WireRequest: the Request the real Client.Send writes for (operation, payload), byte for byte, against the encoding of the
// Request value the model builds (driver `wirereq`).

type wireOutcome struct {
	line string // the model's description of the handler outcome: `ok <FV tokens>` | `fail REASON MSGHEX`
}

func wireFail(reason kmip.Enum, msg string) wireOutcome {
	return wireOutcome{fmt.Sprintf("fail %d %s", uint32(reason), hx([]byte(msg)))}
}

func c07Wire(r *Result, d *drv.Driver, seed int64) {
	rng := rand.New(rand.NewSource(seed*77 + 5))
	ver := kmip.ProtocolVersion{Major: 1, Minor: 4}
	type opSpec struct {
		op      kmip.Enum
		payload func(i int) interface{}
		handler kmip.Handler // nil = not registered
		outcome func(i int) wireOutcome
	}
	act := &kmip.ActivateResponse{UniqueIdentifier: "activated"}
	specs := []opSpec{
		{kmip.OPERATION_GET, func(i int) interface{} { return kmip.GetRequest{UniqueIdentifier: fmt.Sprintf("k%d", i)} },
			func(ctx *kmip.RequestContext, item *kmip.RequestBatchItem) (interface{}, error) {
				rq := item.RequestPayload.(kmip.GetRequest)
				return kmip.GetResponse{ObjectType: kmip.OBJECT_TYPE_SYMMETRIC_KEY, UniqueIdentifier: rq.UniqueIdentifier + "-answer"}, nil
			},
			func(i int) wireOutcome {
				return wireOutcome{"ok " + render.Top(kmip.GetResponse{ObjectType: kmip.OBJECT_TYPE_SYMMETRIC_KEY, UniqueIdentifier: fmt.Sprintf("k%d-answer", i)})}
			}},
		{kmip.OPERATION_ACTIVATE, func(i int) interface{} { return kmip.ActivateRequest{UniqueIdentifier: "a"} },
			func(ctx *kmip.RequestContext, item *kmip.RequestBatchItem) (interface{}, error) { return act, nil },
			func(i int) wireOutcome { return wireOutcome{"ok " + render.Top(act)} }},
		{kmip.OPERATION_DESTROY, func(i int) interface{} { return kmip.DestroyRequest{UniqueIdentifier: "d"} },
			func(ctx *kmip.RequestContext, item *kmip.RequestBatchItem) (interface{}, error) {
				return nil, reasonErr{"permission denied: 100% sure", kmip.RESULT_REASON_PERMISSION_DENIED}
			},
			func(i int) wireOutcome {
				return wireFail(kmip.RESULT_REASON_PERMISSION_DENIED, "permission denied: 100% sure")
			}},
		{kmip.OPERATION_REVOKE, func(i int) interface{} {
			return kmip.RevokeRequest{UniqueIdentifier: "r", RevocationReason: kmip.RevocationReason{RevocationReasonCode: 1}}
		},
			func(ctx *kmip.RequestContext, item *kmip.RequestBatchItem) (interface{}, error) {
				return nil, fmt.Errorf("plain failure")
			},
			func(i int) wireOutcome { return wireFail(kmip.RESULT_REASON_GENERAL_FAILURE, "plain failure") }},
		{kmip.OPERATION_LOCATE, func(i int) interface{} { return kmip.LocateRequest{} },
			func(ctx *kmip.RequestContext, item *kmip.RequestBatchItem) (interface{}, error) { return nil, nil },
			func(i int) wireOutcome { return wireOutcome{"ok n"} }},
		{kmip.OPERATION_CREATE, func(i int) interface{} {
			return kmip.CreateRequest{ObjectType: kmip.OBJECT_TYPE_SYMMETRIC_KEY, TemplateAttribute: kmip.TemplateAttribute{Attributes: kmip.Attributes{{Name: kmip.ATTRIBUTE_NAME_CRYPTOGRAPHIC_LENGTH, Value: int32(256)}}}}
		},
			func(ctx *kmip.RequestContext, item *kmip.RequestBatchItem) (interface{}, error) { panic("boom") },
			func(i int) wireOutcome { return wireFail(kmip.RESULT_REASON_GENERAL_FAILURE, "panic: boom") }},
		{kmip.OPERATION_GET_ATTRIBUTES, func(i int) interface{} {
			return kmip.GetAttributesRequest{UniqueIdentifier: "g", AttributeNames: []string{"Name", "x-y"}}
		}, nil,
			func(i int) wireOutcome {
				return wireFail(kmip.RESULT_REASON_OPERATION_NOT_SUPPORTED, "operation not supported")
			}},
		{kmip.OPERATION_DISCOVER_VERSIONS, func(i int) interface{} { return kmip.DiscoverVersionsRequest{} }, nil,
			func(i int) wireOutcome {
				return wireOutcome{"ok " + render.Top(kmip.DiscoverVersionsResponse{ProtocolVersions: append([]kmip.ProtocolVersion(nil), kmip.DefaultSupportedVersions...)})}
			}},
	}
	n := 60
	for it := 0; it < n; it++ {
		withAuth := it%5 == 3
		authAccepts := it%10 == 3
		s := &kmip.Server{}
		for _, sp := range specs {
			if sp.handler != nil {
				s.Handle(sp.op, sp.handler)
			}
		}
		if withAuth {
			s.RequestAuthHandler = func(sc *kmip.SessionContext, a *kmip.Authentication) (interface{}, error) {
				if authAccepts {
					return "alice", nil
				}
				return nil, fmt.Errorf("unknown user")
			}
		}
		req := &kmip.Request{Header: kmip.RequestHeader{Version: ver}}
		k := 1 + rng.Intn(4)
		var outcomes []string
		for i := 0; i < k; i++ {
			sp := specs[rng.Intn(len(specs))]
			item := kmip.RequestBatchItem{Operation: sp.op, RequestPayload: sp.payload(i)}
			if rng.Intn(2) == 0 {
				item.UniqueID = []byte(fmt.Sprintf("id-%d", i))[:1+rng.Intn(4)]
			}
			req.BatchItems = append(req.BatchItems, item)
			outcomes = append(outcomes, sp.outcome(i).line)
		}
		req.Header.BatchCount = int32(k)
		switch it % 12 {
		case 1:
			req.Header.ClientCorrelationValue = "corr-" + fmt.Sprint(it)
		case 2:
			req.Header.Version = kmip.ProtocolVersion{Major: 1, Minor: 2}
			req.Header.ServerCorrelationValue = "srv"
			req.Header.TimeStamp = time.Unix(1500000000, 0)
		case 4:
			req.Header.BatchCount++ // inconsistent: no response
		case 5:
			req.Header.AsynchronousIndicator = true
		case 6:
			req.Header.MaxResponseSize = 4096
			req.Header.BatchOrderOption = true
			req.Header.ClientCorrelationValue = strings.Repeat("x", 33)
		}
		if withAuth || it%12 == 7 {
			req.Header.Authentication = kmip.Authentication{CredentialType: kmip.CREDENTIAL_TYPE_USERNAME_AND_PASSWORD, CredentialValue: kmip.CredentialUsernamePassword{Username: "alice", Password: "s3cret"}}
		}
		authOk := req.Header.Authentication.CredentialType == 0 || (withAuth && authAccepts)
		var rb bytes.Buffer
		if err := kmip.NewEncoder(&rb).Encode(req); err != nil {
			r.find(Finding{Kind: "disagreement", What: "cannot encode the wire scenario's request", Actual: err.Error()})
			continue
		}
		reqBytes := rb.Bytes()
		key := fmt.Sprintf("wire response for request %s (handler outcomes: %s; request-auth callback: %v accepting: %v)", hx(reqBytes), strings.Join(outcomes, " | "), withAuth, authAccepts)
		crumb("C07 " + key[:min(len(key), 400)])
		r.eval(key, true)
		sc, cc := rec.Pipe()
		l := rec.NewListener()
		l.Push(rec.AcceptStep{Conn: rec.NewConn(sc, 1)})
		init := make(chan struct{})
		ret := make(chan error, 1)
		go func() { ret <- s.Serve(l, init) }()
		<-init
		_ = cc.SetDeadline(time.Now().Add(3 * time.Second))
		t0 := time.Now().Unix()
		_, werr := cc.Write(reqBytes)
		real := "none"
		var clock uint64
		hdr := make([]byte, 8)
		if _, err := io.ReadFull(cc, hdr); werr == nil && err == nil {
			body := make([]byte, binary.BigEndian.Uint32(hdr[4:]))
			if _, err := io.ReadFull(cc, body); err == nil {
				resp := append(hdr, body...)
				real = "ok " + hx(resp)
				for _, nd := range mut.All(mut.Parse(resp)) {
					if nd.Tag == 0x420092 && nd.Len == 8 {
						clock = binary.BigEndian.Uint64(resp[nd.Off+8:])
						break
					}
				}
			} else {
				real = "cut-short"
			}
		}
		t1 := time.Now().Unix()
		cc.Close()
		ctx, cancel := context.WithTimeout(context.Background(), 5*time.Second)
		_ = s.Shutdown(ctx)
		cancel()
		<-ret
		if real != "none" && (int64(clock) < t0 || int64(clock) > t1) {
			r.find(Finding{Kind: "violation", What: "the response's Time Stamp is not the server's current time", Input: key[:min(len(key), 600)], Expect: fmt.Sprintf("%d..%d", t0, t1), Actual: fmt.Sprint(clock)})
		}
		line := fmt.Sprintf("wireresp %d %s %s | %s", clock, b01(authOk), hx(reqBytes), strings.Join(outcomes, " | "))
		model, err := d.Ask(line)
		if err != nil {
			r.find(Finding{Kind: "disagreement", What: "driver failure", Input: err.Error()})
			return
		}
		r.Stats["wire-response-comparisons"]++
		r.Stats["wire-response:"+classOf(model)]++
		if model == "undecodable" {
			model = "none" // a request the decoder model rejects (e.g. an operation without a request dispatch entry): no response either
		}
		if model != real {
			r.find(Finding{Kind: "disagreement", What: "the message model's Response (KmipModel/Wire.lean) differs from the bytes the real Server wrote", Input: map[string]string{"op": line}, Expect: model, Actual: real})
		}
	}
}

func c14WireRequest(r *Result, d *drv.Driver, ca *tlsm.CA, seed int64) {
	srv, err := newRawServer(tlsm.Leaf(ca, tlsm.LeafOpts{Host: "127.0.0.1"}))
	if err != nil {
		r.find(Finding{Kind: "disagreement", What: "cannot start raw TLS server", Input: err.Error()})
		return
	}
	defer srv.ln.Close()
	g := gen.New(seed*13 + 1)
	g.WF = true
	types := gen.StructTypes()
	ccfg := &tls.Config{RootCAs: ca.Pool}
	kmip.DefaultClientTLSConfig(ccfg)
	payloadTypes := map[kmip.Enum]string{kmip.OPERATION_GET: "GetRequest", kmip.OPERATION_ACTIVATE: "ActivateRequest", kmip.OPERATION_DESTROY: "DestroyRequest", kmip.OPERATION_CREATE: "CreateRequest",
		kmip.OPERATION_LOCATE: "LocateRequest", kmip.OPERATION_REVOKE: "RevokeRequest", kmip.OPERATION_DISCOVER_VERSIONS: "DiscoverVersionsRequest", kmip.OPERATION_GET_ATTRIBUTES: "GetAttributesRequest",
		kmip.OPERATION_REGISTER: "RegisterRequest", kmip.OPERATION_CREATE_KEY_PAIR: "CreateKeyPairRequest"}
	i := 0
	for op, tn := range payloadTypes {
		for rep := 0; rep < 4; rep++ {
			i++
			p := g.NewStruct(types[tn]) // a pointer to a fresh random value
			var payload interface{} = p.Interface()
			if rep%2 == 0 {
				payload = p.Elem().Interface()
			}
			cl := &kmip.Client{Endpoint: srv.ln.Addr().String(), TLSConfig: ccfg, ReadTimeout: 3 * time.Second, WriteTimeout: 3 * time.Second}
			maj, min := 1, 4
			if rep == 3 {
				cl.Version = kmip.ProtocolVersion{Major: 1, Minor: 2}
				maj, min = 1, 2
			}
			key := fmt.Sprintf("wire request of Send(%d, %T)", uint32(op), payload)
			crumb("C14 " + key)
			r.eval(key+fmt.Sprint(i), true)
			if err := cl.Connect(); err != nil {
				r.find(Finding{Kind: "disagreement", What: "Client cannot connect in the wire-request scenario", Input: key, Actual: err.Error()})
				continue
			}
			// drain a stale capture, answer with anything (the reply is not what is looked at here)
			select {
			case <-srv.lastReq:
			default:
			}
			srv.next <- []byte{0x42, 0x00, 0x7b, 0x01, 0, 0, 0, 0}
			_, _ = cl.Send(op, payload)
			cl.Close()
			var real string
			select {
			case b := <-srv.lastReq:
				real = "ok " + hx(b)
			case <-time.After(2 * time.Second):
				real = "nothing-written"
			}
			line := fmt.Sprintf("wirereq %d %d %d %s", maj, min, uint32(op), render.Top(payload))
			model, err := d.Ask(line)
			if err != nil {
				r.find(Finding{Kind: "disagreement", What: "driver failure", Input: err.Error()})
				return
			}
			r.Stats["wire-request-comparisons"]++
			if model == "err" && real == "nothing-written" {
				continue
			}
			if model != real {
				r.find(Finding{Kind: "disagreement", What: "the message model's Request (KmipModel/Wire.lean mkRequest) differs from the bytes the real Client.Send wrote", Input: map[string]string{"op": line}, Expect: model, Actual: real})
			}
		}
	}
}

// c07WireDV: the built-in Discover Versions handler as part of the message model (KmipModel/WireDV.lean `dvHandler`, driver
// `wiredv`): a Server with no handlers of the application's and SupportedVersions = nil (the default list) / one version / two
// majors / a list with a repetition answers Discover Versions requests - empty offer, offers with supported, unsupported and
// repeated versions, alone and in a batch with an operation nobody handles - and the bytes it writes are the encoding of the
// Response the model builds.
func c07WireDV(r *Result, d *drv.Driver) {
	v := func(a, b int32) kmip.ProtocolVersion { return kmip.ProtocolVersion{Major: a, Minor: b} }
	sups := [][]kmip.ProtocolVersion{nil, {v(1, 4)}, {v(2, 0), v(1, 4)}, {v(1, 2), v(1, 4), v(1, 2)}, {v(0, 0), v(1, 0)}}
	offers := [][]kmip.ProtocolVersion{nil, {v(1, 4)}, {v(9, 9)}, {v(1, 2), v(9, 9), v(1, 4)}, {v(1, 4), v(1, 4)}, {v(2, 0), v(1, 4), v(1, 3), v(1, 2), v(1, 1), v(1, 0)}, {v(0, 0)}}
	showSup := func(vs []kmip.ProtocolVersion) string {
		if len(vs) == 0 {
			return "-"
		}
		var p []string
		for _, x := range vs {
			p = append(p, fmt.Sprintf("%d.%d", x.Major, x.Minor))
		}
		return strings.Join(p, ",")
	}
	for _, sup := range sups {
		for oi, offer := range offers {
			for _, mixed := range []bool{false, true} {
				s := &kmip.Server{SupportedVersions: append([]kmip.ProtocolVersion(nil), sup...)}
				req := &kmip.Request{Header: kmip.RequestHeader{Version: v(1, 4), BatchCount: 1},
					BatchItems: []kmip.RequestBatchItem{{Operation: kmip.OPERATION_DISCOVER_VERSIONS, RequestPayload: kmip.DiscoverVersionsRequest{ProtocolVersions: offer}}}}
				if oi%2 == 1 {
					req.BatchItems[0].UniqueID = []byte{7, 7}
				}
				if mixed {
					req.BatchItems = append(req.BatchItems, kmip.RequestBatchItem{Operation: kmip.OPERATION_ACTIVATE, RequestPayload: kmip.ActivateRequest{UniqueIdentifier: "a"}})
					req.Header.BatchCount = 2
				}
				var rb bytes.Buffer
				if err := kmip.NewEncoder(&rb).Encode(req); err != nil {
					r.find(Finding{Kind: "disagreement", What: "cannot encode the Discover Versions wire request", Actual: err.Error()})
					continue
				}
				effective := sup
				if len(effective) == 0 {
					effective = kmip.DefaultSupportedVersions
				}
				key := fmt.Sprintf("wire response of a Server with SupportedVersions %s to Discover Versions offering %s (batch with an unhandled Activate: %v)", showSup(sup), showSup(offer), mixed)
				crumb("C07 " + key)
				r.eval(key, true)
				sc, cc := rec.Pipe()
				l := rec.NewListener()
				l.Push(rec.AcceptStep{Conn: rec.NewConn(sc, 1)})
				init := make(chan struct{})
				ret := make(chan error, 1)
				go func() { ret <- s.Serve(l, init) }()
				<-init
				_ = cc.SetDeadline(time.Now().Add(3 * time.Second))
				_, werr := cc.Write(rb.Bytes())
				real := "none"
				var clock uint64
				hdr := make([]byte, 8)
				if _, err := io.ReadFull(cc, hdr); werr == nil && err == nil {
					body := make([]byte, binary.BigEndian.Uint32(hdr[4:]))
					if _, err := io.ReadFull(cc, body); err == nil {
						resp := append(hdr, body...)
						real = "ok " + hx(resp)
						for _, nd := range mut.All(mut.Parse(resp)) {
							if nd.Tag == 0x420092 && nd.Len == 8 {
								clock = binary.BigEndian.Uint64(resp[nd.Off+8:])
								break
							}
						}
					}
				}
				cc.Close()
				ctx, cancel := context.WithTimeout(context.Background(), 5*time.Second)
				_ = s.Shutdown(ctx)
				cancel()
				<-ret
				line := fmt.Sprintf("wiredv %d %s %s", clock, showSup(effective), hx(rb.Bytes()))
				model, err := d.Ask(line)
				if err != nil {
					r.find(Finding{Kind: "disagreement", What: "driver failure", Input: err.Error()})
					return
				}
				r.Stats["wire-discover-versions-comparisons"]++
				if model != real {
					r.find(Finding{Kind: "disagreement", What: "the message model's Discover Versions response (KmipModel/WireDV.lean) differs from the bytes the real Server wrote", Input: map[string]string{"op": line, "scenario": key}, Expect: model, Actual: real})
				}
			}
		}
	}
}
