package main

import (
	"bytes"
	"context"
	"fmt"
	"time"

	kmip "github.com/smira/go-kmip"

	"kvharness/internal/rec"
)

// c15Partial: the read deadline is re-armed for EVERY wait for a request - also when part of the next request already arrived
// together with the previous one. A pipelining peer sends request 1 plus the first bytes of request 2 in one write 0.6 T after
// connecting, reads response 1, and sends the rest of request 2 another 0.6 T later: inside the fresh deadline for request 2,
// but past the one armed for request 1. Request 2 must be answered.
func c15Partial(r *Result) {
	const T = 400 * time.Millisecond
	for _, prefix := range []int{1, 3, 8, 16, 40} {
		key := fmt.Sprintf("pipelined prefix of %d bytes of the next request delivered with the previous one (ReadTimeout %v)", prefix, T)
		r.eval(key, true)
		s := &kmip.Server{ReadTimeout: T, WriteTimeout: T}
		sc, cc := rec.Pipe()
		l := rec.NewListener()
		l.Push(rec.AcceptStep{Conn: rec.NewConn(sc, 1)})
		init := make(chan struct{})
		ret := make(chan error, 1)
		go func() { ret <- s.Serve(l, init) }()
		<-init
		mk := func(corr string) []byte {
			var b bytes.Buffer
			_ = kmip.NewEncoder(&b).Encode(&kmip.Request{Header: kmip.RequestHeader{Version: kmip.ProtocolVersion{Major: 1, Minor: 4}, ClientCorrelationValue: corr, BatchCount: 1},
				BatchItems: []kmip.RequestBatchItem{{Operation: kmip.OPERATION_DISCOVER_VERSIONS, RequestPayload: kmip.DiscoverVersionsRequest{}}}})
			return b.Bytes()
		}
		r1, r2 := mk("first"), mk("second")
		_ = cc.SetDeadline(time.Now().Add(5 * time.Second))
		time.Sleep(T * 6 / 10)
		_, _ = cc.Write(append(append([]byte(nil), r1...), r2[:prefix]...))
		dec := kmip.NewDecoder(cc)
		var resp1, resp2 kmip.Response
		obs := ""
		if err := dec.Decode(&resp1); err != nil {
			obs = "response 1: " + err.Error()
		} else {
			time.Sleep(T * 6 / 10)
			_, _ = cc.Write(r2[prefix:])
			if err := dec.Decode(&resp2); err != nil {
				obs = "response 1 ok; response 2: " + err.Error()
			} else {
				obs = fmt.Sprintf("answered: %s, %s", resp1.Header.ClientCorrelationValue, resp2.Header.ClientCorrelationValue)
			}
		}
		if obs != "answered: first, second" {
			r.find(Finding{Kind: "violation", What: "a request completed within ReadTimeout of the server starting to wait for it was not answered (deadline not re-armed per message)", Input: key, Expect: "answered: first, second", Actual: obs})
		}
		cc.Close()
		ctx, cancel := context.WithTimeout(context.Background(), 5*time.Second)
		_ = s.Shutdown(ctx)
		cancel()
		<-ret
		r.Stats["partial-pipelining-scenarios"]++
	}
}

// c15Trickle: ReadTimeout bounds the wait for a whole REQUEST, not the gap between two packets of it. A peer delivers one
// request in five pieces 0.6 T apart (every gap below T, the whole 2.4 T): the deadline armed when the server began to wait
// must end the session around T - the request must not be answered; the same request in five pieces 0.08 T apart is answered.
func c15Trickle(r *Result) {
	const T = 300 * time.Millisecond
	for _, c := range []struct {
		gap    time.Duration
		answer bool
	}{{T * 6 / 10, false}, {T * 8 / 100, true}} {
		for _, done := range []int{0, 2} {
			key := fmt.Sprintf("after %d prompt exchange(s), a request delivered in 5 pieces %v apart (ReadTimeout %v)", done, c.gap, T)
			r.eval(key, true)
			s := &kmip.Server{ReadTimeout: T, WriteTimeout: T}
			sc, cc := rec.Pipe()
			rc := rec.NewConn(sc, 1)
			l := rec.NewListener()
			l.Push(rec.AcceptStep{Conn: rc})
			init := make(chan struct{})
			ret := make(chan error, 1)
			go func() { ret <- s.Serve(l, init) }()
			<-init
			var b bytes.Buffer
			mk := &kmip.Request{Header: kmip.RequestHeader{Version: kmip.ProtocolVersion{Major: 1, Minor: 4}, BatchCount: 1},
				BatchItems: []kmip.RequestBatchItem{{Operation: kmip.OPERATION_DISCOVER_VERSIONS, RequestPayload: kmip.DiscoverVersionsRequest{}}}}
			_ = kmip.NewEncoder(&b).Encode(mk)
			raw := b.Bytes()
			_ = cc.SetDeadline(time.Now().Add(6 * time.Second))
			dec := kmip.NewDecoder(cc)
			obs := ""
			for i := 0; i < done; i++ {
				var resp kmip.Response
				_, _ = cc.Write(raw)
				if err := dec.Decode(&resp); err != nil {
					obs = fmt.Sprintf("prompt exchange %d not answered: %v", i+1, err)
				}
			}
			start := time.Now()
			piece := len(raw) / 5
			var werr error
			for i := 0; i < 5 && werr == nil; i++ {
				end := (i + 1) * piece
				if i == 4 {
					end = len(raw)
				}
				_, werr = cc.Write(raw[i*piece : end])
				if i < 4 {
					time.Sleep(c.gap)
				}
			}
			var resp kmip.Response
			_ = cc.SetReadDeadline(time.Now().Add(2 * time.Second))
			derr := dec.Decode(&resp)
			if obs == "" {
				switch {
				case derr == nil:
					obs = "answered"
				default:
					select {
					case <-rc.Closed():
						obs = "dropped"
					case <-time.After(time.Second):
						obs = fmt.Sprintf("neither answered nor dropped (%v)", derr)
					}
				}
			}
			want := "dropped"
			if c.answer {
				want = "answered"
			}
			if obs != want {
				r.find(Finding{Kind: "violation", What: "ReadTimeout did not act as a deadline for the whole request (armed once before waiting for it)", Input: key, Expect: want, Actual: fmt.Sprintf("%s after %v", obs, time.Since(start).Round(10*time.Millisecond))})
			}
			cc.Close()
			ctx, cancel := context.WithTimeout(context.Background(), 5*time.Second)
			_ = s.Shutdown(ctx)
			cancel()
			<-ret
			r.Stats["trickle-scenarios"]++
		}
	}
}
