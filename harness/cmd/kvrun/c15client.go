package main

import (
	"context"
	"crypto/tls"
	"fmt"
	"sync/atomic"
	"time"

	kmip "github.com/smira/go-kmip"

	"kvharness/internal/tlsm"
)

// c15Client: the deadline rules on the CLIENT side. A Client with each zero / non-zero combination of ReadTimeout and
// WriteTimeout talks to an in-process Server (no server timeouts) over real TLS: exchanges separated by pauses longer than
// the non-zero timeouts must all succeed (deadlines are per message, a zero timeout means none, the age of the connection is
// irrelevant); a reply slower than a non-zero ReadTimeout must fail that Send, and must not when ReadTimeout is zero.
func c15Client(r *Result) {
	const T = 300 * time.Millisecond
	ca := tlsm.NewCA("c15c-ca")
	scfg := &tls.Config{Certificates: []tls.Certificate{tlsm.Leaf(ca, tlsm.LeafOpts{Host: "127.0.0.1"})}, ClientCAs: ca.Pool}
	kmip.DefaultServerTLSConfig(scfg)
	ln, err := tls.Listen("tcp", "127.0.0.1:0", scfg)
	if err != nil {
		r.find(Finding{Kind: "disagreement", What: "cannot listen", Input: err.Error()})
		return
	}
	s := &kmip.Server{}
	var slow int32
	s.Handle(kmip.OPERATION_ACTIVATE, func(ctx *kmip.RequestContext, item *kmip.RequestBatchItem) (interface{}, error) {
		if atomic.LoadInt32(&slow) == 1 {
			time.Sleep(2 * T)
		}
		return kmip.ActivateResponse{UniqueIdentifier: "x"}, nil
	})
	init := make(chan struct{})
	done := make(chan error, 1)
	go func() { done <- s.Serve(ln, init) }()
	<-init
	for _, c := range []struct{ rt, wt time.Duration }{{0, 0}, {T, 0}, {0, T}, {T, T}} {
		key := fmt.Sprintf("client-deadlines ReadTimeout=%v WriteTimeout=%v", c.rt, c.wt)
		r.eval(key, true)
		ccfg := &tls.Config{RootCAs: ca.Pool, Certificates: []tls.Certificate{tlsm.Leaf(ca, tlsm.LeafOpts{Host: "client", Client: true})}}
		kmip.DefaultClientTLSConfig(ccfg)
		cl := &kmip.Client{Endpoint: ln.Addr().String(), TLSConfig: ccfg, ReadTimeout: c.rt, WriteTimeout: c.wt}
		if err := cl.Connect(); err != nil {
			r.find(Finding{Kind: "disagreement", What: "Client cannot connect in the client-deadline scenario", Input: key, Actual: err.Error()})
			continue
		}
		atomic.StoreInt32(&slow, 0)
		obs := ""
		for i := 0; i < 3; i++ {
			_, err := cl.Send(kmip.OPERATION_ACTIVATE, kmip.ActivateRequest{UniqueIdentifier: "a"})
			obs += fmt.Sprintf("exchange%d=%v ", i, err == nil)
			time.Sleep(T + T/2) // idle longer than any non-zero timeout: must be harmless
		}
		if obs != "exchange0=true exchange1=true exchange2=true " {
			r.find(Finding{Kind: "violation", What: "a client connection completing every request promptly was cut off (deadline not per message, or set although the timeout is zero)", Input: key, Expect: "all exchanges succeed", Actual: obs})
		}
		// a reply slower than ReadTimeout
		atomic.StoreInt32(&slow, 1)
		_, err := cl.Send(kmip.OPERATION_ACTIVATE, kmip.ActivateRequest{UniqueIdentifier: "a"})
		if c.rt != 0 && err == nil {
			r.find(Finding{Kind: "violation", What: "a reply slower than the client's ReadTimeout did not fail the Send", Input: key, Expect: "i/o timeout", Actual: "success"})
		}
		if c.rt == 0 && err != nil {
			r.find(Finding{Kind: "violation", What: "a slow reply failed although the client's ReadTimeout is zero", Input: key, Expect: "success", Actual: err.Error()})
		}
		atomic.StoreInt32(&slow, 0)
		cl.Close()
		r.Stats["client-deadline-scenarios"]++
	}
	ctx, cancel := context.WithTimeout(context.Background(), 5*time.Second)
	defer cancel()
	_ = s.Shutdown(ctx)
	<-done
}

// c15ClientSlowWrite: "every wait for a response is preceded by a fresh read deadline" - fresh at the moment the wait BEGINS. A
// request of 32 MiB (larger than what the socket buffers swallow) is sent to a peer that begins to read it only 1.5 x
// ReadTimeout after the connection is up and answers the moment it has read it; WriteTimeout is generous. Writing the request
// takes longer than ReadTimeout, the wait for the response a few milliseconds: the Send must succeed (time spent writing is
// WriteTimeout's business). With ReadTimeout zero it must succeed as well.
func c15ClientSlowWrite(r *Result) {
	const R = 600 * time.Millisecond
	ca := tlsm.NewCA("c15w-ca")
	for _, rt := range []time.Duration{R, 0} {
		key := fmt.Sprintf("client slow write: ReadTimeout=%v WriteTimeout=30s, 32 MiB request, peer starts reading after %v and answers at once", rt, R+R/2)
		crumb("C15 " + key)
		r.eval(key, true)
		ln, err := tls.Listen("tcp", "127.0.0.1:0", &tls.Config{Certificates: []tls.Certificate{tlsm.Leaf(ca, tlsm.LeafOpts{Host: "127.0.0.1"})}, MinVersion: tls.VersionTLS12})
		if err != nil {
			r.find(Finding{Kind: "disagreement", What: "cannot listen", Input: err.Error()})
			return
		}
		peerErr := make(chan error, 1)
		go func() {
			c, err := ln.Accept()
			if err != nil {
				peerErr <- err
				return
			}
			defer c.Close()
			_ = c.SetDeadline(time.Now().Add(60 * time.Second))
			if err := c.(*tls.Conn).Handshake(); err != nil {
				peerErr <- err
				return
			}
			time.Sleep(R + R/2)
			hdr := make([]byte, 8)
			if _, err := readFull(c, hdr); err != nil {
				peerErr <- err
				return
			}
			l := int(hdr[4])<<24 | int(hdr[5])<<16 | int(hdr[6])<<8 | int(hdr[7])
			buf := make([]byte, 1<<20)
			for l > 0 {
				n := len(buf)
				if n > l {
					n = l
				}
				k, err := c.Read(buf[:n])
				l -= k
				if err != nil {
					peerErr <- err
					return
				}
			}
			resp := kmip.Response{Header: kmip.ResponseHeader{Version: kmip.ProtocolVersion{Major: 1, Minor: 4}, TimeStamp: time.Now(), BatchCount: 1},
				BatchItems: []kmip.ResponseBatchItem{{Operation: kmip.OPERATION_DECRYPT, ResultStatus: kmip.RESULT_STATUS_SUCCESS, ResponsePayload: kmip.DecryptResponse{UniqueIdentifier: "k", Data: []byte{1}}}}}
			peerErr <- kmip.NewEncoder(c).Encode(&resp)
		}()
		ccfg := &tls.Config{RootCAs: ca.Pool}
		kmip.DefaultClientTLSConfig(ccfg)
		cl := &kmip.Client{Endpoint: ln.Addr().String(), TLSConfig: ccfg, ReadTimeout: rt, WriteTimeout: 30 * time.Second}
		if err := cl.Connect(); err != nil {
			r.find(Finding{Kind: "disagreement", What: "Client cannot connect in the slow-write scenario", Input: key, Actual: err.Error()})
			ln.Close()
			continue
		}
		t0 := time.Now()
		_, err = cl.Send(kmip.OPERATION_DECRYPT, kmip.DecryptRequest{UniqueIdentifier: "k", Data: make([]byte, 32<<20)})
		took := time.Since(t0)
		var pe error
		select {
		case pe = <-peerErr:
		case <-time.After(5 * time.Second):
			pe = fmt.Errorf("peer still busy")
		}
		if err != nil {
			r.find(Finding{Kind: "violation", What: "a response that arrived right after the request had been written was reported as timed out: the time spent WRITING the request was charged to ReadTimeout (read deadline not armed afresh before the wait for the response)", Input: key,
				Expect: "success", Actual: fmt.Sprintf("%v after %v (peer: %v)", err, took.Round(time.Millisecond), pe)})
		}
		cl.Close()
		ln.Close()
		r.Stats["client-slow-write-scenarios"]++
	}
}
